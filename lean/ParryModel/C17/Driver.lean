import ParryModel.Proto
import ParryModel.C17.Model
/-! C17 protocol handlers: model evaluation at `Float` and exact-`Rat` oracles on implementation output. -/
namespace C17
open Model Proto

def paabb3 : P (Aabb3 Float) := do let a ← pv3; let b ← pv3; pure ⟨a, b⟩
def faabb3 (b : Aabb3 Float) : String := s!"{fv3 b.mins} {fv3 b.maxs}"
def qaabb3 (b : Aabb3 Float) : Aabb3 Rat := ⟨q3 b.mins, q3 b.maxs⟩
def pov3 : P (V3 Float) := do let a ← pfo; let b ← pfo; let c ← pfo; pure ⟨a, b, c⟩
def poaabb3 : P (Aabb3 Float) := do let a ← pov3; let b ← pov3; pure ⟨a, b⟩
def finiteBox (b : Aabb3 Float) : Bool := finite3 b.mins && finite3 b.maxs
def paxis : P (Fin 3) := do let n ← pnat; if h : n < 3 then pure ⟨n, h⟩ else failure

def corners3 (b : Aabb3 Rat) : List (V3 Rat) :=
  [b.mins.x, b.maxs.x].flatMap fun x => [b.mins.y, b.maxs.y].flatMap fun y =>
    [b.mins.z, b.maxs.z].map fun z => ⟨x, y, z⟩
def eqV3 (a b : V3 Rat) : Bool := a.x == b.x && a.y == b.y && a.z == b.z
def eqBox (a b : Aabb3 Rat) : Bool := eqV3 a.mins b.mins && eqV3 a.maxs b.maxs
def volR (b : Aabb3 Rat) : Rat := (b.maxs.x - b.mins.x) * (b.maxs.y - b.mins.y) * (b.maxs.z - b.mins.z)
def validBoxR (b : Aabb3 Rat) : Bool := b.mins.x ≤ b.maxs.x && b.mins.y ≤ b.maxs.y && b.mins.z ≤ b.maxs.z

def fsplitBox : Split (Aabb3 Float) → String
  | .negative => "neg"
  | .positive => "pos"
  | .pair l r => s!"pair {faabb3 l} {faabb3 r}"

/-- oracle for `Aabb::canonical_split`, by the definition of the property on the eight corners:
`pos` ⇒ every corner has `p[axis] ≥ bias - eps`; `neg` ⇒ every corner has `p[axis] ≤ bias + eps` (and `pos` did not apply);
`pair` ⇒ the box has corners strictly beyond both `bias ± eps`, the pieces are the box cut at `bias`
(same extent on the other axes, share the face `p[axis] = bias`), lie in their closed half-spaces and their volumes add up. -/
def aabbSplitOracle (b : Aabb3 Float) (axis : Fin 3) (bias eps : Float) (o : List String) : String :=
  if !(finiteBox b && FloatIO.isFinite bias && FloatIO.isFinite eps) then "skip nonfinite-input" else
  let B := qaabb3 b; let bi := q bias; let e := q eps
  if !validBoxR B then "skip invalid-box" else
  if e < 0 then "skip negative-epsilon" else
  let cs := (corners3 B).map (·.get axis.val)
  -- verdicts within rounding tolerance (the code rounds `bias ± eps`): `…Loose` = holds up to tolerance, `…Strict` = holds with margin
  let allPos := cs.all (fun c => leTol (bi - e) c tolDefault)
  let allNeg := cs.all (fun c => leTol c (bi + e) tolDefault)
  let allPosStrict := cs.all (fun c => !leTol c (bi - e) tolDefault)
  let allNegStrict := cs.all (fun c => !leTol (bi + e) c tolDefault)
  match o with
  | "panic" :: _ => "fail panic"
  | ["pos"] => if allPos then "pass" else "fail positive-but-corner-below-plane"
  | ["neg"] => if !allNeg then "fail negative-but-corner-above-plane"
               else if allPosStrict then "fail negative-but-positive-has-priority" else "pass"
  | "pair" :: rest =>
    match run (do let l ← poaabb3; let r ← poaabb3; pend; pure (l, r)) rest with
    | none => "fail unparsable-output"
    | some (l, r) =>
      if !(finiteBox l && finiteBox r) then "fail nonfinite-output" else
      let L := qaabb3 l; let R := qaabb3 r
      if allPosStrict || allNegStrict then "fail pair-but-box-on-one-side" else
      if !((corners3 L).all fun p => p.get axis.val ≤ bi) then "fail negative-piece-crosses-plane" else
      if !((corners3 R).all fun p => bi ≤ p.get axis.val) then "fail positive-piece-crosses-plane" else
      -- union = box: same cross-section, extents [mins,bias] and [bias,maxs]
      let okOther := (List.range 3).all fun i => i == axis.val ||
        (L.mins.get i == B.mins.get i && R.mins.get i == B.mins.get i && L.maxs.get i == B.maxs.get i && R.maxs.get i == B.maxs.get i)
      if !okOther then "fail pieces-change-cross-section" else
      if !(L.mins.get axis.val == B.mins.get axis.val && R.maxs.get axis.val == B.maxs.get axis.val &&
           L.maxs.get axis.val == bi && R.mins.get axis.val == bi) then "fail pieces-do-not-cover-box" else
      if volR L + volR R != volR B then "fail volumes-do-not-add-up" else "pass"
  | _ => "fail unparsable-output"

def handler (fn : String) : Option Handler :=
  match fn with
  | "aabb_split" => some {
      model := fun a => run (do let b ← paabb3; let ax ← pnat; let bias ← pf; let eps ← pf
                                if h : ax < 3 then pure (fsplitBox (b.canonicalSplit ⟨ax, h⟩ bias eps)) else pure "panic") a
      oracle := fun a o => match run (do let b ← paabb3; let ax ← paxis; let bias ← pf; let eps ← pf; pure (b, ax, bias, eps)) a with
        | some (b, ax, bias, eps) => aabbSplitOracle b ax bias eps o
        | none => "skip bad-args" }
  | _ => none

end C17
