import ParryModel.Vec
import ParryModel.Shapes
import ParryModel.C09.Model
/-!
# C17 model: cutting and clipping
`query/split/split_aabb.rs`, `query/split/split_segment.rs`, `bounding_volume/aabb.rs::difference_with_cut_sequence`,
`query/clip/clip_aabb_line.rs`, `clip_halfspace_polygon.rs`, `clip_aabb_polygon.rs`, `clip_segment_segment.rs`.
Literal transliterations (same branch order, comparison strictness and floating-point operation order).
Where the pinned tree is defective the model is the *corrected* code (see `fixes/C17-*.diff`); each such place is marked `FIX`.
-/
namespace Model
variable {K : Type} [Num K]

/-- `SplitResult<T>` -/
inductive Split (α : Type) where
  | pair (neg pos : α)
  | negative
  | positive

/-! ## `Aabb::canonical_split` (split_aabb.rs) -/
namespace Aabb3
/-- `Aabb::canonical_split(axis, bias, epsilon)`; `axis : Fin 3` (Rust panics on `axis ≥ 3`). -/
def canonicalSplit (b : Aabb3 K) (axis : Fin 3) (bias eps : K) : Split (Aabb3 K) :=
  if bias - eps ≤ b.mins.get axis.val then .positive
  else if b.maxs.get axis.val ≤ bias + eps then .negative
  else .pair ⟨b.mins, b.maxs.set axis.val bias⟩ ⟨b.mins.set axis.val bias, b.maxs⟩
end Aabb3

end Model
