import ParryModel.Vec
import ParryModel.Shapes
import ParryModel.C09.Model
/-!
# C17 model: cutting and clipping
`query/split/split_aabb.rs`, `query/split/split_segment.rs`, `bounding_volume/aabb.rs::difference_with_cut_sequence`,
`query/clip/clip_aabb_line.rs`, `clip_halfspace_polygon.rs`, `clip_aabb_polygon.rs`, `clip_segment_segment.rs`.
Literal transliterations (same branch order, comparison strictness and floating-point operation order).
Where the pinned tree is defective the model is the *corrected* code (see `fixes/C17-*.diff`); each such place is marked `FIX`.
-/
namespace Model
variable {K : Type} [Num K]

/-- `SplitResult<T>` -/
inductive Split (α : Type) where
  | pair (neg pos : α)
  | negative
  | positive

/-! ## `Aabb::canonical_split` (split_aabb.rs) -/
namespace Aabb3
/-- `Aabb::canonical_split(axis, bias, epsilon)`; `axis : Fin 3` (Rust panics on `axis ≥ 3`). -/
def canonicalSplit (b : Aabb3 K) (axis : Fin 3) (bias eps : K) : Split (Aabb3 K) :=
  if bias - eps ≤ b.mins.get axis.val then .positive
  else if b.maxs.get axis.val ≤ bias + eps then .negative
  else .pair ⟨b.mins, b.maxs.set axis.val bias⟩ ⟨b.mins.set axis.val bias, b.maxs⟩
end Aabb3


/-! ## `Segment::local_split_and_get_intersection` (split_segment.rs) -/

/-- `f64::EPSILON` = 2⁻⁵² (`DEFAULT_EPSILON` of the f64 crates; default `epsilon`/`max_relative` of `approx`) -/
@[inline] def f64Eps : K := lit 1 4503599627370496

/-- approx `relative_eq!(x, 0.0)` with the default `epsilon = max_relative = f64::EPSILON`, statement by statement.
`is_infinite(x)` is written `¬ (x - x == 0)` (`inf - inf = NaN`; for a NaN the function returns `false` on either path). -/
def relEqZero (x : K) : Bool :=
  if neq x 0 then true
  else if !(neq (x - x) 0) then false
  else
    let absDiff := nabs (x - 0)
    if absDiff ≤ f64Eps then true
    else
      let absSelf := nabs x
      let absOther := nabs (0 : K)
      let largest := if absSelf < absOther then absOther else absSelf
      decide (absDiff ≤ largest * f64Eps)

namespace Segment3
/-- `Segment::local_split_and_get_intersection(local_axis, bias, epsilon)`.
FIX (`fixes/C17-split-segment-side.diff`): when the plane does not cut the segment the pinned tree answers with the side of
the endpoint `a` alone (`if a >= 0.0`), which is wrong when `a` is the endpoint on / within `epsilon` of the plane
(`(0,0,0)-(1,0,0)` against `x = 0` is reported `Negative`); the corrected code uses the side of the midpoint. -/
def localSplit (s : Segment3 K) (n : V3 K) (bias eps : K) : Split (Segment3 K) × Option (V3 K × K) :=
  let dir := s.b.sub s.a
  let a := bias - n.dot s.a
  let b := n.dot dir
  let bcoord := a / b
  let dirNorm := dir.norm
  if relEqZero b || decide (bcoord * dirNorm ≤ eps) || decide (dirNorm - eps ≤ bcoord * dirNorm) then
    if 0 ≤ a - b * lit 1 2 then (.negative, none) else (.positive, none)
  else
    let inter := s.a.add (dir.smul bcoord)
    let s1 : Segment3 K := ⟨s.a, inter⟩
    let s2 : Segment3 K := ⟨inter, s.b⟩
    if 0 ≤ a then (.pair s1 s2, some (inter, bcoord)) else (.pair s2 s1, some (inter, bcoord))
end Segment3

/-! ## `Aabb::difference_with_cut_sequence` (bounding_volume/aabb.rs) -/
namespace Aabb3

/-- the disjointness pre-test of `difference_with_cut_sequence` on axis `i` -/
def diffDisjointOn (a rhs : Aabb3 K) (i : Nat) : Bool :=
  decide (rhs.maxs.get i ≤ a.mins.get i) || decide (a.maxs.get i ≤ rhs.mins.get i)

/-- state of the cutting loop: what is left of `self`, the fragments and the cuts pushed so far (in push order) -/
structure DiffState (K : Type) where
  rest : Aabb3 K
  pieces : List (Aabb3 K)
  cuts : List (Int × K)

/-- one iteration `i` of the cutting loop -/
def diffStep (rhs : Aabb3 K) (st : DiffState K) (i : Fin 3) : DiffState K :=
  let st1 : DiffState K :=
    if st.rest.mins.get i.val < rhs.mins.get i.val then
      { rest := ⟨st.rest.mins.set i.val (rhs.mins.get i.val), st.rest.maxs⟩
        pieces := st.pieces ++ [⟨st.rest.mins, st.rest.maxs.set i.val (rhs.mins.get i.val)⟩]
        cuts := st.cuts ++ [((i.val : Int) + 1, rhs.mins.get i.val)] }
    else st
  if rhs.maxs.get i.val < st1.rest.maxs.get i.val then
    { rest := ⟨st1.rest.mins, st1.rest.maxs.set i.val (rhs.maxs.get i.val)⟩
      pieces := st1.pieces ++ [⟨st1.rest.mins.set i.val (rhs.maxs.get i.val), st1.rest.maxs⟩]
      cuts := st1.cuts ++ [(-((i.val : Int) + 1), -(rhs.maxs.get i.val))] }
  else st1

/-- `Aabb::difference_with_cut_sequence(rhs)`: (fragments, cut sequence); also returns the final `rest` (not returned by the
Rust function; used by the theorems: it is `self ∩ rhs`). -/
def differenceState (a rhs : Aabb3 K) : DiffState K :=
  if diffDisjointOn a rhs 0 || diffDisjointOn a rhs 1 || diffDisjointOn a rhs 2 then
    { rest := a, pieces := [a], cuts := [] }
  else
    diffStep rhs (diffStep rhs (diffStep rhs { rest := a, pieces := [], cuts := [] } 0) 1) 2

def differenceWithCutSequence (a rhs : Aabb3 K) : List (Aabb3 K) × List (Int × K) :=
  let st := differenceState a rhs
  (st.pieces, st.cuts)
end Aabb3

/-! ## `clip_aabb_line` and `Aabb::{clip_segment, clip_line_parameters, clip_ray_parameters}` (clip_aabb_line.rs) -/

/-- `f64::MAX` = 2¹⁰²⁴ − 2⁹⁷¹ (`Bounded::max_value()`) -/
@[inline] def f64Max : K := Num.ofRat (mkRat (2 ^ 1024 - 2 ^ 971) 1)

structure ClipState (K : Type) where
  tmin : K
  tmax : K
  nearSide : Int
  farSide : Int
  nearDiag : Bool
  farDiag : Bool

/-- the part of the loop body of `clip_aabb_line` after the two plane parameters have been sorted (`near ≤ far`, `flip` = they
were swapped): narrows `[tmin, tmax]`, records sides / diagonal ties; `none` = `return None`.
FIX (`fixes/C17-clip-aabb-line.diff`): the pinned tree also returns `None` when `tmax < 0.0` (a *ray* test inside the *line*
clipper: `clip_line_parameters` of a line whose box lies behind `origin` answers "no intersection"); the corrected code
keeps only `tmin > tmax` (the ray test moves to `ray_aabb`; `clip_ray_parameters` already has its own). -/
def clipUpdate (st : ClipState K) (near far : K) (flip : Bool) (i : Fin 3) : Option (ClipState K) :=
  let st1 : ClipState K :=
    if st.tmin < near then
      { st with tmin := near, nearSide := if flip then -((i.val : Int) + 1) else (i.val : Int) + 1, nearDiag := false }
    else if neq near st.tmin then { st with nearDiag := true } else st
  let st2 : ClipState K :=
    if far < st1.tmax then
      { st1 with tmax := far, farSide := if !flip then -((i.val : Int) + 1) else (i.val : Int) + 1, farDiag := false }
    else if neq far st1.tmax then { st1 with farDiag := true } else st1
  if st2.tmax < st2.tmin then none else some st2

/-- loop body of `clip_aabb_line` for axis `i`; `none` = `return None` -/
def clipStepC (b : Aabb3 K) (o d : V3 K) (st : ClipState K) (i : Fin 3) : Option (ClipState K) :=
  if neq (d.get i.val) 0 then
    if o.get i.val < b.mins.get i.val || b.maxs.get i.val < o.get i.val then none else some st
  else
    let denom := 1 / d.get i.val
    let n0 := (b.mins.get i.val - o.get i.val) * denom
    let f0 := (b.maxs.get i.val - o.get i.val) * denom
    let flip : Bool := decide (f0 < n0)
    let near := if flip then f0 else n0
    let far := if flip then n0 else f0
    clipUpdate st near far flip i

def clipInit : ClipState K :=
  { tmin := -f64Max, tmax := f64Max, nearSide := 0, farSide := 0, nearDiag := false, farDiag := false }

/-- the three loop iterations -/
def clipLoop (b : Aabb3 K) (o d : V3 K) : Option (ClipState K) :=
  (((some clipInit).bind fun s => clipStepC b o d s 0).bind fun s => clipStepC b o d s 1).bind fun s => clipStepC b o d s 2

/-- `-dir.normalize()` -/
def negNormalize (d : V3 K) : V3 K := (d.sdiv d.norm).neg

/-- unit vector `±e_k` selected by a side index (`±(k+1)`); `sgnNeg` is the component written for a negative index.
FIX (`fixes/C17-clip-aabb-line.diff`): side `0` (no axis constrained the parameter: `dir = 0` and `origin` inside the box,
e.g. `clip_segment(p, p)`) indexes `normal[usize::MAX]` and panics on the pinned tree; the corrected code leaves the zero vector. -/
def sideNormal (side : Int) (sgnNeg : K) : V3 K :=
  if side < 0 then V3.zero.set ((-side - 1).toNat) sgnNeg
  else if 0 < side then V3.zero.set ((side - 1).toNat) (-sgnNeg)
  else V3.zero

/-- `clip_aabb_line(aabb, origin, dir)`: `((tmin, near_normal, near_side), (tmax, far_normal, far_side))` -/
def clipAabbLineC (b : Aabb3 K) (o d : V3 K) : Option ((K × V3 K × Int) × (K × V3 K × Int)) :=
  match clipLoop b o d with
  | none => none
  | some st =>
    let near := if st.nearDiag then (st.tmin, negNormalize d, st.nearSide) else (st.tmin, sideNormal st.nearSide 1, st.nearSide)
    let far := if st.farDiag then (st.tmax, negNormalize d, st.farSide) else (st.tmax, sideNormal st.farSide (-1), st.farSide)
    some (near, far)

/-- `Aabb::clip_line_parameters` -/
def clipLineParameters (b : Aabb3 K) (o d : V3 K) : Option (K × K) :=
  (clipAabbLineC b o d).map fun c => (c.1.1, c.2.1)

/-- `Aabb::clip_ray_parameters` -/
def clipRayParameters (b : Aabb3 K) (o d : V3 K) : Option (K × K) :=
  (clipLineParameters b o d).bind fun c => if c.2 < 0 then none else some (nmax c.1 0, c.2)

/-- `Aabb::clip_segment(pa, pb)`.
FIX (`fixes/C17-clip-aabb-line.diff`): the pinned tree maps every `Some` of the line clip to a segment, so a segment whose
supporting line meets the box beyond `pb` (`tmin > 1`) yields `Some` of a reversed segment outside the box;
the corrected code returns `None` when `max(tmin,0) > min(tmax,1)`. -/
def clipSegment (b : Aabb3 K) (pa pb : V3 K) : Option (Segment3 K) :=
  let ab := pb.sub pa
  (clipAabbLineC b pa ab).bind fun c =>
    let t0 := nmax c.1.1 0
    let t1 := nmin c.2.1 1
    if t1 < t0 then none else some ⟨pa.add (ab.smul t0), pa.add (ab.smul t1)⟩

/-- `Aabb::clip_line(orig, dir)`: `clip_aabb_line(..).map(|clip| Segment::new(orig + dir * (clip.0).0, orig + dir * (clip.1).0))` -/
def clipLine (b : Aabb3 K) (o d : V3 K) : Option (Segment3 K) :=
  (clipAabbLineC b o d).map fun c => ⟨o.add (d.smul c.1.1), o.add (d.smul c.2.1)⟩

/-- `Aabb::clip_ray(ray)`: `clip_ray_parameters(ray).map(|clip| Segment::new(ray.point_at(clip.0), ray.point_at(clip.1)))`,
`point_at(t) = origin + dir * t` -/
def clipRay (b : Aabb3 K) (o d : V3 K) : Option (Segment3 K) :=
  (clipRayParameters b o d).map fun c => ⟨o.add (d.smul c.1), o.add (d.smul c.2)⟩

/-! ## `clip_halfspace_polygon` (clip_halfspace_polygon.rs) and `Aabb::clip_polygon` (clip_aabb_polygon.rs) -/

/-- `line_toi_with_halfspace` (ray_halfspace.rs) -/
def lineToiHalfspace (c n o d : V3 K) : Option K :=
  let dpos := c.sub o
  let denom := n.dot d
  if relEqZero denom then none else some (n.dot dpos / denom)

/-- `ray_toi_with_halfspace` -/
def rayToiHalfspace (c n o d : V3 K) : Option K :=
  match lineToiHalfspace c n o d with
  | some t => if 0 ≤ t then some t else none
  | none => none

/-- the closure `keep_point` -/
def keepPoint (c n p : V3 K) : Bool := decide ((p.sub c).dot n ≤ 0)

/-- the points pushed while visiting one polygon vertex `pt` (previous vertex `prev`, `last_keep = lk`);
`isLast` ⇔ `i == polygon.len() - 1` -/
def clipVisit (c n prev : V3 K) (lk : Bool) (pt : V3 K) (isLast : Bool) : List (V3 K) :=
  let keep := keepPoint c n pt
  let crossing : List (V3 K) :=
    if keep != lk then
      let dir := pt.sub prev
      match rayToiHalfspace c n prev dir with
      | some t => if 0 < t ∧ t < 1 then [prev.add (dir.smul t)] else []
      | none => []
    else []
  crossing ++ (if keep && !isLast then [pt] else [])

/-- the `for i in 0..polygon.len()` loop (after an iteration `last_keep = keep(pt)` in both branches) -/
def clipPolyLoop (c n : V3 K) : V3 K → Bool → List (V3 K) → List (V3 K)
  | _, _, [] => []
  | prev, lk, pt :: rest => clipVisit c n prev lk pt rest.isEmpty ++ clipPolyLoop c n pt (keepPoint c n pt) rest

/-- `clip_halfspace_polygon(center, normal, polygon, result)`: the content of `result` on return -/
def clipHalfspacePolygon (c n : V3 K) (poly : List (V3 K)) : List (V3 K) :=
  match poly.getLast? with
  | none => []
  | some last =>
    let lk := keepPoint c n last
    (if lk then [last] else []) ++ clipPolyLoop c n last lk poly

/-- `Aabb::clip_polygon` (3-D): six half-space clips, `-x, +x, -y, +y, -z, +z` -/
def Aabb3.clipPolygon (b : Aabb3 K) (pts : List (V3 K)) : List (V3 K) :=
  let ex : V3 K := ⟨1, 0, 0⟩; let ey : V3 K := ⟨0, 1, 0⟩; let ez : V3 K := ⟨0, 0, 1⟩
  let p1 := clipHalfspacePolygon b.mins ex.neg pts
  let p2 := clipHalfspacePolygon b.maxs ex p1
  let p3 := clipHalfspacePolygon b.mins ey.neg p2
  let p4 := clipHalfspacePolygon b.maxs ey p3
  let p5 := clipHalfspacePolygon b.mins ez.neg p4
  clipHalfspacePolygon b.maxs ez p5

/-! ## `clip_segment_segment` (clip_segment_segment.rs, 2-D crate) -/

/-- `ClippingPoints = (Point, Point, usize, usize)`; features: 0 = first vertex, 1 = interior, 2 = second vertex -/
structure ClipPts (K : Type) where
  p1 : V2 K
  p2 : V2 K
  f1 : Nat
  f2 : Nat

/-- `clip_segment_segment(seg1, seg2)` -/
def clipSegmentSegment (a1 b1 a2 b2 : V2 K) : Option (ClipPts K × ClipPts K) :=
  let tangent1 := b1.sub a1
  let sqn := tangent1.normSq
  let r10 : K := 0
  let r11 : K := sqn
  let r20 := (a2.sub a1).dot tangent1
  let r21 := (b2.sub a1).dot tangent1
  -- `if range1[1] < range1[0] { swap }`
  let sw1 : Bool := decide (r11 < r10)
  let (r10, r11) := if sw1 then (r11, r10) else (r10, r11)
  let (f10, f11) : Nat × Nat := if sw1 then (2, 0) else (0, 2)
  let (s10, s11) := if sw1 then (b1, a1) else (a1, b1)
  let sw2 : Bool := decide (r21 < r20)
  let (r20, r21) := if sw2 then (r21, r20) else (r20, r21)
  let (f20, f21) : Nat × Nat := if sw2 then (2, 0) else (0, 2)
  let (s20, s21) := if sw2 then (b2, a2) else (a2, b2)
  if r11 < r20 || r21 < r10 then none
  else
    let length1 := r11 - r10
    let length2 := r21 - r20
    let ca : ClipPts K :=
      if r10 < r20 then
        let bc := (r20 - r10) / length1
        ⟨s10.add (tangent1.smul bc), s20, 1, f20⟩
      else
        let bc := (r10 - r20) / length2
        ⟨s10, s20.add ((s21.sub s20).smul bc), f10, 1⟩
    let cb : ClipPts K :=
      if r21 < r11 then
        let bc := (r21 - r10) / length1
        ⟨s10.add (tangent1.smul bc), s21, 1, f21⟩
      else
        let bc := (r11 - r20) / length2
        ⟨s11, s20.add ((s21.sub s20).smul bc), f11, 1⟩
    some (ca, cb)

/-! ## World-space and canonical-axis wrappers (split_trimesh.rs, split_segment.rs)

`TriMesh::split(position, axis, bias, eps)` and `TriMesh::intersection_with_plane(position, axis, bias, eps)` only move the plane
into the mesh's local frame and call `local_split` / `intersection_with_local_plane`;
`{TriMesh, Segment}::canonical_split(i, ..)` and `TriMesh::canonical_intersection_with_plane(i, ..)` call the local function with
`Vector::ith_axis(i)`. The plane transfer is closed-form and modelled here; the local mesh functions stay oracle-only. -/

/-- `Vector::ith_axis(i)` (`Unit::new_unchecked` of the `i`-th basis vector); Rust panics for `i ≥ 3`. -/
def ithAxis (i : Fin 3) : V3 K :=
  if i.val = 0 then ⟨1, 0, 0⟩ else if i.val = 1 then ⟨0, 1, 0⟩ else ⟨0, 0, 1⟩

/-- the local plane `(local_axis, bias + added_bias)` that `TriMesh::split` and `TriMesh::intersection_with_plane` hand to the
local-space function:
`local_axis = position.inverse_transform_unit_vector(axis)` (= `rotation.inverse() * axis`),
`added_bias = -position.translation.vector.dot(axis)`. -/
def planeToLocal (pos : Iso3 K) (axis : V3 K) (bias : K) : V3 K × K :=
  let localAxis := pos.invRot axis
  let addedBias := -(pos.t.dot axis)
  (localAxis, bias + addedBias)

/-- the vertex colour of `TriMesh::local_split` / `intersection_with_local_plane`:
`let dist_to_plane = pt.coords.dot(local_axis) - bias; if dist_to_plane < -epsilon {1} else if dist_to_plane > epsilon {2} else {0}`
(0 = on the plane up to `epsilon`, 1 = negative side, 2 = positive side). -/
def vertexColour (n : V3 K) (bias eps : K) (p : V3 K) : Nat :=
  let d := p.dot n - bias
  if d < -eps then 1 else if eps < d then 2 else 0

/-- the early exit shared by `TriMesh::local_split` and `TriMesh::intersection_with_local_plane` (vertex partition loop, then
`if !found_negative { return Positive }`, `if !found_positive { return Negative }`); `.pair () ()` = the plane crosses the mesh and
the function goes on to cut it (`Pair(..)` / `Intersect(..)` for a mesh whose vertices are all used by triangles). -/
def meshVerdict (pts : List (V3 K)) (n : V3 K) (bias eps : K) : Split Unit :=
  let foundNegative := pts.any fun p => vertexColour n bias eps p == 1
  let foundPositive := pts.any fun p => vertexColour n bias eps p == 2
  if !foundNegative then .positive else if !foundPositive then .negative else .pair () ()

/-- verdict of the world-space wrappers `TriMesh::split(position, axis, bias, eps)` / `intersection_with_plane(..)` -/
def meshVerdictPos (pts : List (V3 K)) (pos : Iso3 K) (axis : V3 K) (bias eps : K) : Split Unit :=
  let (la, lb) := planeToLocal pos axis bias
  meshVerdict pts la lb eps

/-- verdict of `TriMesh::canonical_split(i, bias, eps)` / `canonical_intersection_with_plane(..)` -/
def meshVerdictCanonical (pts : List (V3 K)) (i : Fin 3) (bias eps : K) : Split Unit :=
  meshVerdict pts (ithAxis i) bias eps

namespace Segment3
/-- `Segment::canonical_split(axis, bias, epsilon)` = `local_split(&Vector::ith_axis(axis), bias, epsilon)` -/
def canonicalSplit (s : Segment3 K) (axis : Fin 3) (bias eps : K) : Split (Segment3 K) :=
  (s.localSplit (ithAxis axis) bias eps).1
end Segment3

end Model
