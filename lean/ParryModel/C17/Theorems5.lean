import ParryModel.C17.Lemmas
import ParryModel.C17.CutModel
/-!
# C17 property theorems, part 5: `clip_segment_segment_with_normal` (2-D)
-/
namespace C17
open Model

set_option linter.unusedSectionVars false
set_option linter.unusedTactic false
set_option linter.unreachableTactic false
set_option linter.style.haveILetI false
set_option linter.unusedVariables false

variable {K : Type} [Field K] [LinearOrder K] [IsStrictOrderedRing K] (sq : K → K)

/-- coordinate along the tangent `(-n.y, n.x)` of `clip_segment_segment_with_normal` -/
def tau {K : Type} [Num K] (n p : V2 K) : K := p.dot ⟨-n.y, n.x⟩

private theorem uinv_eq (v : K) : letI := fieldNum K sq; uinv v = if v = 0 then 0 else 1 / v := by
  letI : Num K := fieldNum K sq
  simp only [uinv, neq]
  by_cases h : v = 0
  · simp [h]
  · rw [if_neg h]
    rcases lt_or_gt_of_ne h with h1 | h1
    · simp [not_le.mpr h1]
    · simp [not_le.mpr h1]

/- interpolation at tangent coordinate `x ∈ [τ s0, τ s1]` with the guarded inverse: a point of the segment with `τ = x` -/
private theorem lerp_tau (n s0 s1 : V2 K) (x : K)
    (h0 : letI := fieldNum K sq; tau n s0 ≤ x) (h1 : letI := fieldNum K sq; x ≤ tau n s1) :
    letI := fieldNum K sq
    let bc := (x - tau n s0) * uinv (tau n s1 - tau n s0)
    (0 ≤ bc ∧ bc ≤ 1) ∧ tau n (s0.add ((s1.sub s0).smul bc)) = x := by
  letI : Num K := fieldNum K sq
  intro bc
  have e : tau n (s0.add ((s1.sub s0).smul bc)) = tau n s0 + bc * (tau n s1 - tau n s0) := by
    simp only [tau, V2.dot, V2.add, V2.sub, V2.smul]; ring
  rw [e]
  show (0 ≤ (x - tau n s0) * uinv (tau n s1 - tau n s0) ∧ (x - tau n s0) * uinv (tau n s1 - tau n s0) ≤ 1) ∧
    tau n s0 + (x - tau n s0) * uinv (tau n s1 - tau n s0) * (tau n s1 - tau n s0) = x
  rw [uinv_eq]
  generalize tau n s0 = A at *
  generalize tau n s1 = B at *
  by_cases hd : B - A = 0
  · rw [if_pos hd]
    have : x = A := le_antisymm (by linarith [sub_eq_zero.mp hd]) h0
    subst this
    simp
  · rw [if_neg hd]
    have hpos : 0 < B - A := lt_of_le_of_ne (by linarith) (Ne.symm hd)
    refine ⟨⟨?_, ?_⟩, ?_⟩
    · exact mul_nonneg (by linarith) (by positivity)
    · rw [mul_one_div, div_le_one hpos]; linarith
    · field_simp; ring

private theorem mem_end0 (a b : V2 K) : letI := fieldNum K sq; (Segment2.mk a b).Mem a := by
  letI : Num K := fieldNum K sq
  refine ⟨0, le_refl _, zero_le_one, ?_⟩
  obtain ⟨ax, ay⟩ := a; obtain ⟨bx, bY⟩ := b
  simp only [V2.add, V2.sub, V2.smul, V2.mk.injEq]; constructor <;> ring
private theorem mem_end1 (a b : V2 K) : letI := fieldNum K sq; (Segment2.mk a b).Mem b := by
  letI : Num K := fieldNum K sq
  refine ⟨1, zero_le_one, le_refl _, ?_⟩
  obtain ⟨ax, ay⟩ := a; obtain ⟨bx, bY⟩ := b
  simp only [V2.add, V2.sub, V2.smul, V2.mk.injEq]; constructor <;> ring
private theorem mem_swap (a b p : V2 K) (h : letI := fieldNum K sq; (Segment2.mk b a).Mem p) :
    letI := fieldNum K sq; (Segment2.mk a b).Mem p := by
  letI : Num K := fieldNum K sq
  obtain ⟨t, t0, t1, rfl⟩ := h
  refine ⟨1 - t, by linarith, by linarith, ?_⟩
  simp only [V2.add, V2.sub, V2.smul, V2.mk.injEq]
  constructor <;> ring

private theorem ssn_core_spec (n s10 s11 s20 s21 : V2 K) (f10 f11 f20 f21 : Nat)
    (h1 : letI := fieldNum K sq; tau n s10 ≤ tau n s11) (h2 : letI := fieldNum K sq; tau n s20 ≤ tau n s21) :
    letI := fieldNum K sq
    match clipSSNCore s10 s11 s20 s21 (tau n s10) (tau n s11) (tau n s20) (tau n s21) f10 f11 f20 f21 with
    | none => tau n s11 < tau n s20 ∨ tau n s21 < tau n s10
    | some (ca, cb) =>
      max (tau n s10) (tau n s20) ≤ min (tau n s11) (tau n s21) ∧
      (Segment2.mk s10 s11).Mem ca.p1 ∧ (Segment2.mk s20 s21).Mem ca.p2 ∧
      tau n ca.p1 = max (tau n s10) (tau n s20) ∧ tau n ca.p2 = max (tau n s10) (tau n s20) ∧
      (Segment2.mk s10 s11).Mem cb.p1 ∧ (Segment2.mk s20 s21).Mem cb.p2 ∧
      tau n cb.p1 = min (tau n s11) (tau n s21) ∧ tau n cb.p2 = min (tau n s11) (tau n s21) := by
  letI : Num K := fieldNum K sq
  simp only [clipSSNCore]
  split_ifs with hnone hca hcb hcb
  · simpa using hnone
  all_goals simp only [Bool.or_eq_true, decide_eq_true_eq, not_or, not_lt] at hnone
  all_goals obtain ⟨hov1, hov2⟩ := hnone
  all_goals simp only []
  · -- ca on seg1 interior, cb on seg1 interior
    obtain ⟨⟨a0, a1⟩, a2⟩ := lerp_tau sq n s10 s11 (tau n s20) hca.le hov1
    obtain ⟨⟨b0, b1⟩, b2⟩ := lerp_tau sq n s10 s11 (tau n s21) (by linarith) hcb.le
    refine ⟨by rw [max_eq_right hca.le, min_eq_right hcb.le]; exact h2, ⟨_, a0, a1, rfl⟩, mem_end0 sq _ _,
      by rw [a2, max_eq_right hca.le], by rw [max_eq_right hca.le], ⟨_, b0, b1, rfl⟩, mem_end1 sq _ _,
      by rw [b2, min_eq_right hcb.le], by rw [min_eq_right hcb.le]⟩
  · push Not at hcb
    obtain ⟨⟨a0, a1⟩, a2⟩ := lerp_tau sq n s10 s11 (tau n s20) hca.le hov1
    obtain ⟨⟨b0, b1⟩, b2⟩ := lerp_tau sq n s20 s21 (tau n s11) hov1 hcb
    refine ⟨by rw [max_eq_right hca.le, min_eq_left hcb]; exact hov1, ⟨_, a0, a1, rfl⟩, mem_end0 sq _ _,
      by rw [a2, max_eq_right hca.le], by rw [max_eq_right hca.le], mem_end1 sq _ _, ⟨_, b0, b1, rfl⟩,
      by rw [min_eq_left hcb], by rw [b2, min_eq_left hcb]⟩
  · push Not at hca
    obtain ⟨⟨a0, a1⟩, a2⟩ := lerp_tau sq n s20 s21 (tau n s10) hca hov2
    obtain ⟨⟨b0, b1⟩, b2⟩ := lerp_tau sq n s10 s11 (tau n s21) hov2 hcb.le
    refine ⟨by rw [max_eq_left hca, min_eq_right hcb.le]; exact hov2, mem_end0 sq _ _, ⟨_, a0, a1, rfl⟩,
      by rw [max_eq_left hca], by rw [a2, max_eq_left hca], ⟨_, b0, b1, rfl⟩, mem_end1 sq _ _,
      by rw [b2, min_eq_right hcb.le], by rw [min_eq_right hcb.le]⟩
  · push Not at hca hcb
    obtain ⟨⟨a0, a1⟩, a2⟩ := lerp_tau sq n s20 s21 (tau n s10) hca hov2
    obtain ⟨⟨b0, b1⟩, b2⟩ := lerp_tau sq n s20 s21 (tau n s11) hov1 hcb
    refine ⟨by rw [max_eq_left hca, min_eq_left hcb]; exact h1, mem_end0 sq _ _, ⟨_, a0, a1, rfl⟩,
      by rw [max_eq_left hca], by rw [a2, max_eq_left hca], mem_end1 sq _ _, ⟨_, b0, b1, rfl⟩,
      by rw [min_eq_left hcb], by rw [b2, min_eq_left hcb]⟩

/-- the statement of `clip_segment_segment_with_normal_spec` for a result `r` -/
def SsnSpec (a1 b1 a2 b2 n : V2 K) (r : Option (ClipPts K × ClipPts K)) : Prop :=
  letI := fieldNum K sq
  match r with
  | none => max (tau n a1) (tau n b1) < min (tau n a2) (tau n b2) ∨ max (tau n a2) (tau n b2) < min (tau n a1) (tau n b1)
  | some (ca, cb) =>
    max (min (tau n a1) (tau n b1)) (min (tau n a2) (tau n b2)) ≤ min (max (tau n a1) (tau n b1)) (max (tau n a2) (tau n b2)) ∧
    (Segment2.mk a1 b1).Mem ca.p1 ∧ (Segment2.mk a2 b2).Mem ca.p2 ∧
    tau n ca.p1 = max (min (tau n a1) (tau n b1)) (min (tau n a2) (tau n b2)) ∧
    tau n ca.p2 = max (min (tau n a1) (tau n b1)) (min (tau n a2) (tau n b2)) ∧
    (Segment2.mk a1 b1).Mem cb.p1 ∧ (Segment2.mk a2 b2).Mem cb.p2 ∧
    tau n cb.p1 = min (max (tau n a1) (tau n b1)) (max (tau n a2) (tau n b2)) ∧
    tau n cb.p2 = min (max (tau n a1) (tau n b1)) (max (tau n a2) (tau n b2))

private theorem ssn_any (n a1 b1 a2 b2 s10 s11 s20 s21 : V2 K) (f10 f11 f20 f21 : Nat)
    (e1 : (s10 = a1 ∧ s11 = b1) ∨ (s10 = b1 ∧ s11 = a1)) (e2 : (s20 = a2 ∧ s21 = b2) ∨ (s20 = b2 ∧ s21 = a2))
    (h1 : letI := fieldNum K sq; tau n s10 ≤ tau n s11) (h2 : letI := fieldNum K sq; tau n s20 ≤ tau n s21) :
    letI := fieldNum K sq
    SsnSpec sq a1 b1 a2 b2 n (clipSSNCore s10 s11 s20 s21 (tau n s10) (tau n s11) (tau n s20) (tau n s21) f10 f11 f20 f21) := by
  letI : Num K := fieldNum K sq
  have key := ssn_core_spec sq n s10 s11 s20 s21 f10 f11 f20 f21 h1 h2
  have m1 : min (tau n a1) (tau n b1) = tau n s10 ∧ max (tau n a1) (tau n b1) = tau n s11 := by
    rcases e1 with ⟨rfl, rfl⟩ | ⟨rfl, rfl⟩
    · exact ⟨min_eq_left h1, max_eq_right h1⟩
    · exact ⟨min_eq_right h1, max_eq_left h1⟩
  have m2 : min (tau n a2) (tau n b2) = tau n s20 ∧ max (tau n a2) (tau n b2) = tau n s21 := by
    rcases e2 with ⟨rfl, rfl⟩ | ⟨rfl, rfl⟩
    · exact ⟨min_eq_left h2, max_eq_right h2⟩
    · exact ⟨min_eq_right h2, max_eq_left h2⟩
  have w1 : ∀ p, (Segment2.mk s10 s11).Mem p → (Segment2.mk a1 b1).Mem p := by
    rcases e1 with ⟨rfl, rfl⟩ | ⟨rfl, rfl⟩
    · exact fun p h => h
    · exact fun p h => mem_swap sq _ _ p h
  have w2 : ∀ p, (Segment2.mk s20 s21).Mem p → (Segment2.mk a2 b2).Mem p := by
    rcases e2 with ⟨rfl, rfl⟩ | ⟨rfl, rfl⟩
    · exact fun p h => h
    · exact fun p h => mem_swap sq _ _ p h
  revert key
  cases clipSSNCore s10 s11 s20 s21 (tau n s10) (tau n s11) (tau n s20) (tau n s21) f10 f11 f20 f21 with
  | none =>
    intro key
    simp only [SsnSpec, m1.1, m1.2, m2.1, m2.2]
    exact key
  | some c =>
    obtain ⟨ca, cb⟩ := c
    intro key
    simp only [SsnSpec, m1.1, m1.2, m2.1, m2.2]
    obtain ⟨k0, k1, k2, k3, k4, k5, k6, k7, k8⟩ := key
    exact ⟨k0, w1 _ k1, w2 _ k2, k3, k4, w1 _ k5, w2 _ k6, k7, k8⟩

/-- **C17 (`clip_segment_segment_with_normal`, 2-D)**: with `τ(p) = p·(-n.y, n.x)` the coordinate along the tangent of `normal`
(any `normal`, zero and non-unit included; degenerate segments included — the guarded inverse `utils::inv` never divides by 0):
`None` exactly when the tangent ranges of the two segments are disjoint; otherwise both clipping pairs `(p1, p2)` have
`p1 ∈ seg1`, `p2 ∈ seg2`, `τ(p1) = τ(p2)`, the first pair at the lower end of the overlap of the ranges, the second at the upper. -/
theorem clip_segment_segment_with_normal_spec (a1 b1 a2 b2 n : V2 K) :
    letI := fieldNum K sq
    SsnSpec sq a1 b1 a2 b2 n (clipSegmentSegmentWithNormal a1 b1 a2 b2 n) := by
  letI : Num K := fieldNum K sq
  simp only [clipSegmentSegmentWithNormal]
  by_cases sw1 : b1.dot (⟨-n.y, n.x⟩ : V2 K) < a1.dot ⟨-n.y, n.x⟩ <;> by_cases sw2 : b2.dot (⟨-n.y, n.x⟩ : V2 K) < a2.dot ⟨-n.y, n.x⟩
  · simp only [sw1, sw2, decide_true, if_true]
    exact ssn_any sq n a1 b1 a2 b2 b1 a1 b2 a2 _ _ _ _ (Or.inr ⟨rfl, rfl⟩) (Or.inr ⟨rfl, rfl⟩) sw1.le sw2.le
  · simp only [sw1, sw2, decide_true, decide_false, if_true, Bool.false_eq_true, if_false]
    exact ssn_any sq n a1 b1 a2 b2 b1 a1 a2 b2 _ _ _ _ (Or.inr ⟨rfl, rfl⟩) (Or.inl ⟨rfl, rfl⟩) sw1.le (not_lt.mp sw2)
  · simp only [sw1, sw2, decide_true, decide_false, if_true, Bool.false_eq_true, if_false]
    exact ssn_any sq n a1 b1 a2 b2 a1 b1 b2 a2 _ _ _ _ (Or.inl ⟨rfl, rfl⟩) (Or.inr ⟨rfl, rfl⟩) (not_lt.mp sw1) sw2.le
  · simp only [sw1, sw2, decide_false, Bool.false_eq_true, if_false]
    exact ssn_any sq n a1 b1 a2 b2 a1 b1 a2 b2 _ _ _ _ (Or.inl ⟨rfl, rfl⟩) (Or.inl ⟨rfl, rfl⟩) (not_lt.mp sw1) (not_lt.mp sw2)

/-- non-vacuity: two horizontal segments, normal `(0, 1)` (tangent `(-1, 0)`): overlap `x ∈ [1, 2]` -/
example : (letI := fieldNum ℚ id; (clipSegmentSegmentWithNormal (⟨0, 0⟩ : V2 ℚ) ⟨2, 0⟩ ⟨3, 1⟩ ⟨1, 1⟩ ⟨0, 1⟩).map fun c =>
    [c.1.p1.x, c.1.p2.x, c.2.p1.x, c.2.p2.x]) = some [2, 2, 1, 1] := by
  decide +kernel
example : (letI := fieldNum ℚ id; (clipSegmentSegmentWithNormal (⟨0, 0⟩ : V2 ℚ) ⟨2, 0⟩ ⟨3, 1⟩ ⟨5, 1⟩ ⟨0, 1⟩).isNone) = true := by
  decide +kernel

end C17
