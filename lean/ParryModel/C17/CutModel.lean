import ParryModel.C17.Model
/-!
# C17 model, part 2: the cutting part of `TriMesh::local_split` (split_trimesh.rs, steps 2 and 3)

Literal transliteration of the triangle loop of `TriMesh::local_split` (feature classification of every triangle by the vertex
colours, `intersect_edge` with its `HashMap<SortedPair<u32>, u32>` de-duplication, the 1+1 and 1+2 re-triangulations) and of the
partition of the new triangles into the two halves (vertex remap, colour test, in-plane triangles by the sign of their normal).
The cap triangulation of oriented meshes (spade CDT) is *not* part of this model: for a mesh without the `ORIENTED` flag the
function modelled here is the whole of `local_split`; for an oriented mesh the real function appends the cap triangles after the
triangles computed here (vertex buffers are identical).

`HashMap` is modelled by an association list: the code only uses `entry(key).or_insert_with(..)` (look-up, insert when absent),
never iterates, so the behaviour does not depend on hashing.
Panics of the Rust code (`assert!`, `unreachable!()`, out-of-range indices) are the `none` results.
-/
namespace Model
namespace Cut
variable {K : Type} [Num K]

abbrev Tri := Nat × Nat × Nat

/-- `idx[i]` for `i ∈ {0, 1, 2}` -/
def Tri.get (t : Tri) (i : Nat) : Nat := if i = 0 then t.1 else if i = 1 then t.2.1 else t.2.2

/-- the three values of `FeatureId` the loop uses -/
inductive Feat where
  | unknown
  | vertex (i : Nat)
  | edge (i : Nat)
  deriving DecidableEq, Repr

/-- body of `for ia in 0..3 { … }` ("find where the plane intersects the triangle"):
`(1,2)|(2,1) => Edge(ia)`, `(0,_) => Vertex(ia)`, `_ => continue`; the first feature goes to `.0`, every later one overwrites `.1`. -/
def featStep (col : Nat → Nat) (idx : Tri) (f : Feat × Feat) (ia : Nat) : Feat × Feat :=
  let ib := (ia + 1) % 3
  let ca := col (idx.get ia)
  let cb := col (idx.get ib)
  if (ca = 1 ∧ cb = 2) ∨ (ca = 2 ∧ cb = 1) then
    (if f.1 = Feat.unknown then (Feat.edge ia, f.2) else (f.1, Feat.edge ia))
  else if ca = 0 then
    (if f.1 = Feat.unknown then (Feat.vertex ia, f.2) else (f.1, Feat.vertex ia))
  else f

def classify (col : Nat → Nat) (idx : Tri) : Feat × Feat :=
  featStep col idx (featStep col idx (featStep col idx (Feat.unknown, Feat.unknown) 0) 1) 2

/-- `SortedPair::new(a, b)`: `if a > b { [b, a] } else { [a, b] }` -/
def sortedPair (a b : Nat) : Nat × Nat := if b < a then (b, a) else (a, b)

/-- state of step 2: `new_vertices`, `colors`, `new_indices`, `intersections_found` -/
structure State (K : Type) where
  verts : Array (V3 K)
  colors : Array Nat
  tris : Array Tri
  found : List ((Nat × Nat) × Nat)

/-- the crossing point computed by `intersect_edge`:
`dist_a = pa·n - bias; dist_b = pb·n - bias; pa + (pb - pa) * (dist_a / (dist_a - dist_b))` -/
def crossing (n : V3 K) (bias : K) (pa pb : V3 K) : V3 K :=
  let da := pa.dot n - bias
  let db := pb.dot n - bias
  pa.add ((pb.sub pa).smul (da / (da - db)))

/-- the closure `intersect_edge(idx_a, idx_b)`: look the sorted pair up; when absent compute the crossing point of the edge
(in the argument order), push it with colour 0 and remember its index. -/
def intersectEdge (n : V3 K) (bias : K) (st : State K) (a b : Nat) : State K × Nat :=
  let key := sortedPair a b
  match st.found.lookup key with
  | some k => (st, k)
  | none =>
    let x := crossing n bias (st.verts.getD a V3.zero) (st.verts.getD b V3.zero)
    let k := st.verts.size
    ({ st with verts := st.verts.push x, colors := st.colors.push 0, found := (key, k) :: st.found }, k)

/-- one iteration of `for (tri_id, idx) in indices.iter().enumerate()`; `none` = `assert!` / `unreachable!()` fired -/
def cutTri (n : V3 K) (bias : K) (st : State K) (triId : Nat) (idx : Tri) : Option (State K) :=
  match classify (fun i => st.colors.getD i 0) idx with
  | (f0, Feat.unknown) =>
    (match f0 with
     | Feat.edge _ => none          -- assert!(Unknown | Vertex(_))
     | _ => some st)
  | (Feat.vertex _, Feat.vertex _) => some st
  | (Feat.vertex iv, Feat.edge ie) | (Feat.edge ie, Feat.vertex iv) =>
    let ia := ie
    let ib := (ie + 1) % 3
    let ic := (ie + 2) % 3
    let idxA := idx.get ia
    let idxB := idx.get ib
    let idxC := idx.get ic
    if iv ≠ ic then none else        -- assert_eq!(iv, ic)
    let (st1, x) := intersectEdge n bias st idxA idxB
    some { st1 with tris := (st1.tris.setIfInBounds triId (idxC, idxA, x)).push (idxB, idxC, x) }
  | (Feat.edge e1, Feat.edge e2) =>
    let e2' := if e2 ≠ (e1 + 1) % 3 then e1 else e2
    let ia := e2'
    let ib := (e2' + 1) % 3
    let ic := (e2' + 2) % 3
    let idxA := idx.get ia
    let idxB := idx.get ib
    let idxC := idx.get ic
    let (st1, x1) := intersectEdge n bias st idxC idxA
    let (st2, x2) := intersectEdge n bias st1 idxA idxB
    some { st2 with tris := (((st2.tris.setIfInBounds triId (idxA, x2, x1)).push (x2, idxB, idxC)).push (x2, idxC, x1)) }
  | _ => none                        -- unreachable!()

/-- the triangle loop over the *original* index buffer -/
def cutLoop (n : V3 K) (bias : K) : State K → Nat → List Tri → Option (State K)
  | st, _, [] => some st
  | st, i, t :: rest =>
    match cutTri n bias st i t with
    | none => none
    | some st' => cutLoop n bias st' (i + 1) rest

/-- step 1 + 2: colours of the input vertices, then the triangle loop -/
def cutMesh (verts : List (V3 K)) (tris : List Tri) (n : V3 K) (bias eps : K) : Option (State K) :=
  cutLoop n bias ⟨verts.toArray, (verts.map (vertexColour n bias eps)).toArray, tris.toArray, []⟩ 0 tris

/-! ## step 3: partition into the two halves -/

/-- `u32::MAX`, the "absent" remap entry -/
def u32Max : Nat := 4294967295

structure Halves (K : Type) where
  vl : Array (V3 K)
  vr : Array (V3 K)
  remap : Array (Nat × Nat)

/-- body of `for i in 0..new_vertices.len()`; `none` = `unreachable!()` (a colour other than 0, 1, 2) -/
def remapStep (h : Halves K) (p : V3 K) (c : Nat) : Option (Halves K) :=
  if c = 0 then some ⟨h.vl.push p, h.vr.push p, h.remap.push (h.vl.size, h.vr.size)⟩
  else if c = 1 then some ⟨h.vl.push p, h.vr, h.remap.push (h.vl.size, u32Max)⟩
  else if c = 2 then some ⟨h.vl, h.vr.push p, h.remap.push (u32Max, h.vr.size)⟩
  else none

def remapLoop : Halves K → List (V3 K × Nat) → Option (Halves K)
  | h, [] => some h
  | h, (p, c) :: rest => match remapStep h p c with | none => none | some h' => remapLoop h' rest

/-- `tri.scaled_normal().dot(local_axis) >= 0.0` for `tri = Triangle::new(a, b, c)` -/
def facesPositive (n a b c : V3 K) : Bool := decide (0 ≤ ((b.sub a).cross (c.sub a)).dot n)

/-- body of `for idx in new_indices`: append the triangle to `indices_lhs` or `indices_rhs`; `none` = `assert!` fired -/
def assignTri (n : V3 K) (verts : Array (V3 K)) (colors : Array Nat) (remap : Array (Nat × Nat))
    (acc : List Tri × List Tri) (t : Tri) : Option (List Tri × List Tri) :=
  let c0 := colors.getD t.1 0; let c1 := colors.getD t.2.1 0; let c2 := colors.getD t.2.2 0
  let r0 := remap.getD t.1 (0, 0); let r1 := remap.getD t.2.1 (0, 0); let r2 := remap.getD t.2.2 (0, 0)
  if c0 = 1 ∨ c1 = 1 ∨ c2 = 1 then
    (if c0 ≠ 2 ∧ c1 ≠ 2 ∧ c2 ≠ 2 then some (acc.1 ++ [(r0.1, r1.1, r2.1)], acc.2) else none)
  else if c0 = 2 ∨ c1 = 2 ∨ c2 = 2 then
    some (acc.1, acc.2 ++ [(r0.2, r1.2, r2.2)])
  else if facesPositive n (verts.getD t.1 V3.zero) (verts.getD t.2.1 V3.zero) (verts.getD t.2.2 V3.zero) then
    some (acc.1 ++ [(r0.1, r1.1, r2.1)], acc.2)
  else some (acc.1, acc.2 ++ [(r0.2, r1.2, r2.2)])

def assignLoop (n : V3 K) (verts : Array (V3 K)) (colors : Array Nat) (remap : Array (Nat × Nat)) :
    List Tri × List Tri → List Tri → Option (List Tri × List Tri)
  | acc, [] => some acc
  | acc, t :: rest => match assignTri n verts colors remap acc t with
    | none => none
    | some acc' => assignLoop n verts colors remap acc' rest

/-- a triangle mesh as (vertex buffer, index buffer) -/
abbrev MeshOut (K : Type) := List (V3 K) × List Tri

/-- every index of every triangle is a vertex index (otherwise `TriMesh::new` / the first `colors[..]` access panics) -/
def validMesh (nv : Nat) (tris : List Tri) : Bool := tris.all fun t => decide (t.1 < nv) && decide (t.2.1 < nv) && decide (t.2.2 < nv)

/-- `TriMesh::local_split(local_axis, bias, epsilon)` for a mesh without the `ORIENTED` flag (no cap triangulation):
early exit, triangle loop, partition, and the final `if indices_rhs.is_empty() { Negative } else if indices_lhs.is_empty()
{ Positive } else { Pair(..) }`. `none` = the Rust code panics. -/
def localSplitUncapped (verts : List (V3 K)) (tris : List Tri) (n : V3 K) (bias eps : K) : Option (Split (MeshOut K)) :=
  if !validMesh verts.length tris then none else
  match meshVerdict verts n bias eps with
  | .positive => some .positive
  | .negative => some .negative
  | .pair _ _ =>
    match cutMesh verts tris n bias eps with
    | none => none
    | some st =>
      match remapLoop ⟨#[], #[], #[]⟩ (st.verts.toList.zip st.colors.toList) with
      | none => none
      | some h =>
        match assignLoop n st.verts st.colors h.remap ([], []) st.tris.toList with
        | none => none
        | some (il, ir) =>
          if ir.isEmpty then some .negative
          else if il.isEmpty then some .positive
          else some (.pair (h.vl.toList, il) (h.vr.toList, ir))

/-- `TriMesh::split(position, axis, bias, epsilon)` (mesh without caps): `local_split` on the transferred plane -/
def splitUncapped (verts : List (V3 K)) (tris : List Tri) (pos : Iso3 K) (axis : V3 K) (bias eps : K) : Option (Split (MeshOut K)) :=
  let (la, lb) := planeToLocal pos axis bias
  localSplitUncapped verts tris la lb eps

/-- `TriMesh::canonical_split(axis, bias, epsilon)` (mesh without caps): `local_split(&Vector::ith_axis(axis), ..)` -/
def canonicalSplitUncapped (verts : List (V3 K)) (tris : List Tri) (i : Fin 3) (bias eps : K) : Option (Split (MeshOut K)) :=
  localSplitUncapped verts tris (ithAxis i) bias eps

end Cut

/-! ## `TriMesh::intersection_with_local_plane` (split_trimesh.rs): section polyline -/
namespace Section
variable {K : Type} [Num K]
open Cut

/-- state of step 2: `new_vertices`, `intersections_found`, `existing_vertices_found`, `index_adjacencies` -/
structure State (K : Type) where
  verts : Array (V3 K)
  found : List ((Nat × Nat) × Nat)
  existing : List (Nat × Nat)
  adj : Array (List Nat)

/-- `add_segment_adjacencies(idx_a, idx_b)`; `none` = `assert!(idx_a <= index_adjacencies.len())` fired -/
def addAdj (adj : Array (List Nat)) (a b : Nat) : Option (Array (List Nat)) :=
  if adj.size < a then none
  else if a < adj.size then some (adj.setIfInBounds a (adj.getD a [] ++ [b]))
  else some (adj.push [b])

/-- `add_segment_adjacencies_symmetric(idx_a, idx_b)` -/
def addAdjSym (adj : Array (List Nat)) (a b : Nat) : Option (Array (List Nat)) :=
  if a < b then (addAdj adj a b).bind fun adj1 => addAdj adj1 b a
  else (addAdj adj b a).bind fun adj1 => addAdj adj1 a b

/-- `intersect_edge(idx_a, idx_b)` of the section routine: the crossing point is computed from the *input* vertices -/
def intersectEdge (n : V3 K) (bias : K) (V0 : Array (V3 K)) (st : State K) (a b : Nat) : State K × Nat :=
  let key := sortedPair a b
  match st.found.lookup key with
  | some k => (st, k)
  | none =>
    let x := crossing n bias (V0.getD a V3.zero) (V0.getD b V3.zero)
    ({ st with verts := st.verts.push x, found := (key, st.verts.size) :: st.found }, st.verts.size)

/-- `*existing_vertices_found.entry(id).or_insert_with(|| { new_vertices.push(vertices[id]); new_vertices.len() - 1 })` -/
def existingVertex (V0 : Array (V3 K)) (st : State K) (id : Nat) : State K × Nat :=
  match st.existing.lookup id with
  | some k => (st, k)
  | none => ({ st with verts := st.verts.push (V0.getD id V3.zero), existing := (id, st.verts.size) :: st.existing }, st.verts.size)

/-- one iteration of `for idx in indices.iter()`; `none` = `assert!` / `unreachable!()` fired -/
def stepTri (n : V3 K) (bias : K) (V0 : Array (V3 K)) (colors : Array Nat) (st : State K) (idx : Tri) : Option (State K) :=
  match classify (fun i => colors.getD i 0) idx with
  | (f0, Feat.unknown) =>
    (match f0 with
     | Feat.edge _ => none
     | _ => some st)
  | (Feat.vertex iv1, Feat.vertex iv2) =>
    let (st1, o1) := existingVertex V0 st (idx.get iv1)
    let (st2, o2) := existingVertex V0 st1 (idx.get iv2)
    (addAdjSym st2.adj o1 o2).map fun adj => { st2 with adj := adj }
  | (Feat.vertex iv, Feat.edge ie) | (Feat.edge ie, Feat.vertex iv) =>
    let ic := (ie + 2) % 3
    if iv ≠ ic then none else
    let (st1, x) := intersectEdge n bias V0 st (idx.get ie) (idx.get ((ie + 1) % 3))
    let (st2, oc) := existingVertex V0 st1 (idx.get ic)
    (addAdjSym st2.adj oc x).map fun adj => { st2 with adj := adj }
  | (Feat.edge e1, Feat.edge e2) =>
    let e2' := if e2 ≠ (e1 + 1) % 3 then e1 else e2
    let idxA := idx.get e2'
    let idxB := idx.get ((e2' + 1) % 3)
    let idxC := idx.get ((e2' + 2) % 3)
    let (st1, x1) := intersectEdge n bias V0 st idxC idxA
    let (st2, x2) := intersectEdge n bias V0 st1 idxA idxB
    (addAdjSym st2.adj x1 x2).map fun adj => { st2 with adj := adj }
  | _ => none

def stepLoop (n : V3 K) (bias : K) (V0 : Array (V3 K)) (colors : Array Nat) : State K → List Tri → Option (State K)
  | st, [] => some st
  | st, t :: rest => match stepTri n bias V0 colors st t with
    | none => none
    | some st' => stepLoop n bias V0 colors st' rest

/-- the inner `loop { … }` of step 3: walk from `prev` to `current`, erasing the traversed adjacency entries, until stuck.
Every iteration erases at least one entry, so `fuel` = number of entries + 1 is never exhausted. -/
def walk : Nat → Array (List Nat) → List (Nat × Nat) → Nat → Nat → Bool → Array (List Nat) × List (Nat × Nat)
  | 0, adj, segs, _, _, _ => (adj, segs)
  | fuel + 1, adj, segs, prev, current, forward =>
    let adj1 := adj.setIfInBounds prev ((adj.getD prev []).filter (· != current))
    let adj2 := adj1.setIfInBounds current ((adj1.getD current []).filter (· != prev))
    let segs1 := segs ++ [if forward then (prev, current) else (current, prev)]
    match (adj2.getD current []).head? with
    | some next => walk fuel adj2 segs1 current next forward
    | none => (adj2, segs1)

/-- `while let Some(start) = index_adjacencies[first].first().copied() { …; forward = !forward }` -/
def walksFrom : Nat → Array (List Nat) → List (Nat × Nat) → Nat → Bool → Array (List Nat) × List (Nat × Nat)
  | 0, adj, segs, _, _ => (adj, segs)
  | fuel + 1, adj, segs, first, forward =>
    match (adj.getD first []).head? with
    | none => (adj, segs)
    | some start =>
      let (adj1, segs1) := walk (fuel + 1) adj segs first start forward
      walksFrom fuel adj1 segs1 first (!forward)

/-- step 3: `for first in 0..index_adjacencies.len()` -/
def orient (adj : Array (List Nat)) : List (Nat × Nat) :=
  let fuel := (adj.toList.map List.length).sum + 1
  ((List.range adj.size).foldl (fun (acc : Array (List Nat) × List (Nat × Nat)) first =>
    walksFrom fuel acc.1 acc.2 first true) (adj, [])).2

inductive Result (K : Type) where
  | negative
  | positive
  | intersect (verts : List (V3 K)) (segs : List (Nat × Nat))

/-- `TriMesh::intersection_with_local_plane(local_axis, bias, epsilon)`; `none` = the Rust code panics -/
def localSection (verts : List (V3 K)) (tris : List Tri) (n : V3 K) (bias eps : K) : Option (Result K) :=
  if !validMesh verts.length tris then none else
  match meshVerdict verts n bias eps with
  | .positive => some .positive
  | .negative => some .negative
  | .pair _ _ =>
    match stepLoop n bias verts.toArray (verts.map (vertexColour n bias eps)).toArray ⟨#[], [], [], #[]⟩ tris with
    | none => none
    | some st => some (.intersect st.verts.toList (orient st.adj))

/-- `TriMesh::intersection_with_plane(position, axis, bias, epsilon)`: the local routine on the transferred plane -/
def sectionPos (verts : List (V3 K)) (tris : List Tri) (pos : Iso3 K) (axis : V3 K) (bias eps : K) : Option (Result K) :=
  let (la, lb) := planeToLocal pos axis bias
  localSection verts tris la lb eps

/-- `TriMesh::canonical_intersection_with_plane(axis, bias, epsilon)` -/
def sectionCanonical (verts : List (V3 K)) (tris : List Tri) (i : Fin 3) (bias eps : K) : Option (Result K) :=
  localSection verts tris (ithAxis i) bias eps

end Section

/-! ## `clip_segment_segment_with_normal` (clip_segment_segment.rs, 2-D crate only) -/

/-- `utils::inv(val)`: `if val == 0.0 { 0.0 } else { 1.0 / val }` -/
def uinv {K : Type} [Num K] (v : K) : K := if neq v 0 then 0 else 1 / v

/-- the part of `clip_segment_segment_with_normal` after the two `if range[1] < range[0] { swap }` blocks: the segments
`(s10, s11)`, `(s20, s21)` with their tangent ranges `[r10, r11]`, `[r20, r21]` and feature codes `(f10, f11)`, `(f20, f21)` -/
def clipSSNCore {K : Type} [Num K] (s10 s11 s20 s21 : V2 K) (r10 r11 r20 r21 : K) (f10 f11 f20 f21 : Nat) : Option (ClipPts K × ClipPts K) :=
  if r11 < r20 || r21 < r10 then none
  else
    let ca : ClipPts K :=
      if r10 < r20 then
        let bc := (r20 - r10) * uinv (r11 - r10)
        ⟨s10.add ((s11.sub s10).smul bc), s20, 1, f20⟩
      else
        let bc := (r10 - r20) * uinv (r21 - r20)
        ⟨s10, s20.add ((s21.sub s20).smul bc), f10, 1⟩
    let cb : ClipPts K :=
      if r21 < r11 then
        let bc := (r21 - r10) * uinv (r11 - r10)
        ⟨s10.add ((s11.sub s10).smul bc), s21, 1, f21⟩
      else
        let bc := (r11 - r20) * uinv (r21 - r20)
        ⟨s11, s20.add ((s21.sub s20).smul bc), f11, 1⟩
    some (ca, cb)

/-- `clip_segment_segment_with_normal(seg1, seg2, normal)`: `tangent = normal.orthonormal_basis()[0] = (-normal.y, normal.x)`,
ranges = `coords.dot(tangent)`, each segment reordered along the tangent, then the clipping points. -/
def clipSegmentSegmentWithNormal {K : Type} [Num K] (a1 b1 a2 b2 n : V2 K) : Option (ClipPts K × ClipPts K) :=
  let tangent : V2 K := ⟨-n.y, n.x⟩
  let r10 := a1.dot tangent
  let r11 := b1.dot tangent
  let r20 := a2.dot tangent
  let r21 := b2.dot tangent
  let sw1 : Bool := decide (r11 < r10)
  let sw2 : Bool := decide (r21 < r20)
  clipSSNCore (if sw1 then b1 else a1) (if sw1 then a1 else b1) (if sw2 then b2 else a2) (if sw2 then a2 else b2)
    (if sw1 then r11 else r10) (if sw1 then r10 else r11) (if sw2 then r21 else r20) (if sw2 then r20 else r21)
    (if sw1 then 2 else 0) (if sw1 then 0 else 2) (if sw2 then 2 else 0) (if sw2 then 0 else 2)

end Model
