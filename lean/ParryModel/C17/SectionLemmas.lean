import ParryModel.C17.CutLemmas
/-!
# C17 helper lemmas (not property obligations; fu5): the triangle loop (step 2) of `TriMesh::intersection_with_local_plane`

Model: `Model.Section.localSection` (CutModel.lean). `none` of the model = an `assert!` / `unreachable!()` / out-of-range access of
the Rust routine. The only assertion that is specific to the section routine is `assert!(idx_a <= index_adjacencies.len())` in
`add_segment_adjacencies`: it holds because every triangle creates at most two new polyline vertices and immediately links them,
smallest index first (`add_segment_adjacencies_symmetric`), so `index_adjacencies.len() == new_vertices.len()` after every triangle.
Besides totality the loop invariant records *which* segment every triangle contributes (`StepRel`), used in part 10.
-/
namespace C17
open Model Model.Cut

set_option linter.unusedSectionVars false
set_option linter.unusedTactic false
set_option linter.unreachableTactic false
set_option linter.style.haveILetI false
set_option linter.unusedVariables false

variable {K : Type} [Field K] [LinearOrder K] [IsStrictOrderedRing K] (sq : K → K)

/-! ## adjacency lists -/

/-- `j` is listed in the adjacency of polyline vertex `i` -/
def AEdge (adj : Array (List Nat)) (i j : Nat) : Prop := j ∈ adj.getD i []
/-- the adjacency structure is symmetric -/
def ASym (adj : Array (List Nat)) : Prop := ∀ i j, AEdge adj i j → AEdge adj j i
/-- every adjacency entry names an existing polyline vertex (`< m`) -/
def EntriesLt (adj : Array (List Nat)) (m : Nat) : Prop := ∀ i j, AEdge adj i j → j < m

theorem getD_set (xs : Array (List Nat)) (i j : Nat) (x : List Nat) :
    (xs.setIfInBounds i x).getD j [] = if j = i ∧ i < xs.size then x else xs.getD j [] := by
  simp only [Array.getD_eq_getD_getElem?, Array.getElem?_setIfInBounds]
  by_cases h : i = j
  · subst h
    by_cases h2 : i < xs.size
    · simp [h2]
    · simp [h2]
  · have : ¬ j = i := fun e => h e.symm
    simp [h, this]

theorem aedge_lt (adj : Array (List Nat)) (i j : Nat) (h : AEdge adj i j) : i < adj.size := by
  by_contra hc
  simp only [AEdge, Array.getD_eq_getD_getElem?, Array.getElem?_eq_none (not_lt.mp hc)] at h
  simp at h

/-! ## the look-up tables and the polyline vertices -/

/-- colour of input vertex `a` -/
def vcol {K : Type} [Num K] (n : V3 K) (bias eps : K) (V0 : Array (V3 K)) (a : Nat) : Nat :=
  vertexColour n bias eps (V0.getD a V3.zero)
/-- crossing point of the input edge `a → b` -/
def xpt {K : Type} [Num K] (n : V3 K) (bias : K) (V0 : Array (V3 K)) (a b : Nat) : V3 K :=
  crossing n bias (V0.getD a V3.zero) (V0.getD b V3.zero)

/-- the two look-up tables hold indices of existing polyline vertices with the right positions: `intersections_found[{a,b}]` is
the crossing point of the crossed input edge `a–b`, `existing_vertices_found[id]` is input vertex `id` -/
def TablesOK {K : Type} [Num K] (n : V3 K) (bias eps : K) (V0 : Array (V3 K)) (st : Section.State K) : Prop :=
  (∀ key v, st.found.lookup key = some v → v < st.verts.size ∧ ∃ a b, sortedPair a b = key ∧
      OppCol (vcol n bias eps V0 a) (vcol n bias eps V0 b) ∧ st.verts.getD v V3.zero = xpt n bias V0 a b) ∧
  (∀ id v, st.existing.lookup id = some v → v < st.verts.size ∧ st.verts.getD v V3.zero = V0.getD id V3.zero) ∧
  (∀ key key' v, st.found.lookup key = some v → st.found.lookup key' = some v → key = key')

/-- `st'` is `st` after one `entry(..).or_insert_with(push)`: the adjacency lists are untouched, the returned index `o` is valid and
names a polyline vertex at position `P`; if a vertex was created it is the last one and `o` names it; older vertices are unchanged -/
def Alloc {K : Type} [Num K] (n : V3 K) (bias eps : K) (V0 : Array (V3 K)) (st st' : Section.State K) (o : Nat) (P : V3 K) : Prop :=
  st'.adj = st.adj ∧ TablesOK n bias eps V0 st' ∧ o < st'.verts.size ∧
  (st'.verts.size = st.verts.size ∨ (st'.verts.size = st.verts.size + 1 ∧ o = st.verts.size)) ∧
  (∀ j, j < st.verts.size → st'.verts.getD j V3.zero = st.verts.getD j V3.zero) ∧ st'.verts.getD o V3.zero = P ∧
  (∀ key v, st.found.lookup key = some v → st'.found.lookup key = some v)

/-- invariant of the triangle loop of the section routine -/
structure SInv {K : Type} [Num K] (n : V3 K) (bias eps : K) (V0 : Array (V3 K)) (st : Section.State K) : Prop where
  size : st.adj.size = st.verts.size
  tables : TablesOK n bias eps V0 st
  entries : EntriesLt st.adj st.verts.size
  sym : ASym st.adj

private theorem lookup_cons_P {α} [BEq α] [LawfulBEq α] (key : α) (v : Nat) (T : List (α × Nat)) (P : α → Nat → Prop)
    (hT : ∀ k w, T.lookup k = some w → P k w) (hv : P key v) :
    ∀ k w, List.lookup k ((key, v) :: T) = some w → P k w := by
  intro k w h
  simp only [List.lookup_cons] at h
  split at h
  · rename_i heq
    simp only [Option.some.injEq] at h
    have : k = key := by simpa using heq
    subst h; subst this; exact hv
  · exact hT k w h

private theorem alloc_existing (n : V3 K) (bias eps : K) (V0 : Array (V3 K)) (st : Section.State K) (id : Nat)
    (h : letI := fieldNum K sq; TablesOK n bias eps V0 st) :
    letI := fieldNum K sq
    Alloc n bias eps V0 st (Section.existingVertex V0 st id).1 (Section.existingVertex V0 st id).2 (V0.getD id V3.zero) := by
  letI : Num K := fieldNum K sq
  cases hl : st.existing.lookup id with
  | some k =>
    have e : Section.existingVertex V0 st id = (st, k) := by simp only [Section.existingVertex, hl]
    rw [e]; exact ⟨rfl, h, (h.2.1 _ _ hl).1, Or.inl rfl, fun _ _ => rfl, (h.2.1 _ _ hl).2, fun _ _ x => x⟩
  | none =>
    have e : Section.existingVertex V0 st id =
        ({ st with verts := st.verts.push (V0.getD id V3.zero), existing := (id, st.verts.size) :: st.existing }, st.verts.size) := by
      simp only [Section.existingVertex, hl]
    rw [e]
    refine ⟨rfl, ⟨?_, ?_, h.2.2⟩, by simp, Or.inr ⟨by simp, rfl⟩, ?_, ?_, fun _ _ x => x⟩
    · intro key v hk
      obtain ⟨h1, a, b, h2, h3, h4⟩ := h.1 key v hk
      refine ⟨by show v < (st.verts.push _).size; simp; omega, a, b, h2, h3, ?_⟩
      show (st.verts.push _).getD v V3.zero = _
      rw [getD_push_lt _ _ _ _ h1]; exact h4
    · apply lookup_cons_P
      · intro k w hk
        obtain ⟨h1, h2⟩ := h.2.1 k w hk
        refine ⟨by show w < (st.verts.push _).size; simp; omega, ?_⟩
        show (st.verts.push _).getD w V3.zero = _
        rw [getD_push_lt _ _ _ _ h1]; exact h2
      · refine ⟨by show st.verts.size < (st.verts.push _).size; simp, ?_⟩
        show (st.verts.push _).getD st.verts.size V3.zero = _
        rw [getD_push_eq]
    · intro j hj
      show (st.verts.push _).getD j V3.zero = _
      rw [getD_push_lt _ _ _ _ hj]
    · show (st.verts.push _).getD st.verts.size V3.zero = _
      rw [getD_push_eq]

private theorem alloc_isect (n : V3 K) (bias eps : K) (he : 0 ≤ eps) (V0 : Array (V3 K)) (st : Section.State K) (a b : Nat)
    (h : letI := fieldNum K sq; TablesOK n bias eps V0 st)
    (hab : letI := fieldNum K sq; OppCol (vcol n bias eps V0 a) (vcol n bias eps V0 b)) :
    letI := fieldNum K sq
    Alloc n bias eps V0 st (Section.intersectEdge n bias V0 st a b).1 (Section.intersectEdge n bias V0 st a b).2 (xpt n bias V0 a b) ∧
    (Section.intersectEdge n bias V0 st a b).1.found.lookup (sortedPair a b) = some (Section.intersectEdge n bias V0 st a b).2 := by
  letI : Num K := fieldNum K sq
  cases hl : st.found.lookup (sortedPair a b) with
  | some k =>
    have e : Section.intersectEdge n bias V0 st a b = (st, k) := by simp only [Section.intersectEdge, hl]
    rw [e]
    obtain ⟨h1, a', b', hk, hc, hv⟩ := h.1 _ _ hl
    refine ⟨⟨rfl, h, h1, Or.inl rfl, fun _ _ => rfl, ?_, fun _ _ x => x⟩, hl⟩
    rcases sortedPair_eq _ _ _ _ hk with ⟨rfl, rfl⟩ | ⟨rfl, rfl⟩
    · exact hv
    · show st.verts.getD k V3.zero = _
      rw [hv]
      simp only [xpt]
      apply crossing_symm sq
      have hsd := oppcol_sdist sq n bias eps he _ _ hc
      rcases hsd with ⟨h1, h2⟩ | ⟨h1, h2⟩
      · exact ne_of_lt (by linarith)
      · exact ne_of_gt (by linarith)
  | none =>
    have e : Section.intersectEdge n bias V0 st a b =
        ({ st with verts := st.verts.push (crossing n bias (V0.getD a V3.zero) (V0.getD b V3.zero)),
                   found := (sortedPair a b, st.verts.size) :: st.found }, st.verts.size) := by
      simp only [Section.intersectEdge, hl]
    rw [e]
    have hmono : ∀ key v, st.found.lookup key = some v →
        List.lookup key ((sortedPair a b, st.verts.size) :: st.found) = some v := by
      intro key v hk
      simp only [List.lookup_cons]
      split
      · rename_i heq
        have : key = sortedPair a b := by simpa using heq
        rw [this, hl] at hk; simp at hk
      · exact hk
    refine ⟨⟨rfl, ⟨?_, ?_, ?_⟩, by simp, Or.inr ⟨by simp, rfl⟩, ?_, ?_, hmono⟩, by simp [List.lookup_cons]⟩
    · intro key v hk
      show v < (st.verts.push (crossing n bias (V0.getD a V3.zero) (V0.getD b V3.zero))).size ∧
          ∃ a' b', sortedPair a' b' = key ∧ OppCol (vcol n bias eps V0 a') (vcol n bias eps V0 b') ∧
            (st.verts.push (crossing n bias (V0.getD a V3.zero) (V0.getD b V3.zero))).getD v V3.zero = xpt n bias V0 a' b'
      change List.lookup key ((sortedPair a b, st.verts.size) :: st.found) = some v at hk
      simp only [List.lookup_cons] at hk
      split at hk
      · rename_i heq
        simp only [Option.some.injEq] at hk
        subst hk
        refine ⟨by simp, a, b, ?_, hab, ?_⟩
        · simpa using (beq_iff_eq.mp heq).symm
        · rw [getD_push_eq]; rfl
      · obtain ⟨h1, a', b', h2, h3, h4⟩ := h.1 key v hk
        refine ⟨by simp; omega, a', b', h2, h3, ?_⟩
        rw [getD_push_lt _ _ _ _ h1]; exact h4
    · intro k w hk
      obtain ⟨h1, h2⟩ := h.2.1 k w hk
      refine ⟨by show w < (st.verts.push _).size; simp; omega, ?_⟩
      show (st.verts.push _).getD w V3.zero = _
      rw [getD_push_lt _ _ _ _ h1]; exact h2
    · intro key key' v hk hk'
      change List.lookup key ((sortedPair a b, st.verts.size) :: st.found) = some v at hk
      change List.lookup key' ((sortedPair a b, st.verts.size) :: st.found) = some v at hk'
      by_cases e1 : key = sortedPair a b <;> by_cases e2 : key' = sortedPair a b
      · rw [e1, e2]
      · have hv : st.verts.size = v := by rw [e1] at hk; simpa [List.lookup_cons] using hk
        have b2 : (key' == sortedPair a b) = false := by simpa using e2
        simp only [List.lookup_cons, b2] at hk'
        have := (h.1 key' _ hk').1; omega
      · have hv : st.verts.size = v := by rw [e2] at hk'; simpa [List.lookup_cons] using hk'
        have b1 : (key == sortedPair a b) = false := by simpa using e1
        simp only [List.lookup_cons, b1] at hk
        have := (h.1 key _ hk).1; omega
      · have b1 : (key == sortedPair a b) = false := by simpa using e1
        have b2 : (key' == sortedPair a b) = false := by simpa using e2
        simp only [List.lookup_cons, b1] at hk
        simp only [List.lookup_cons, b2] at hk'
        exact h.2.2 key key' v hk hk'
    · intro j hj
      show (st.verts.push _).getD j V3.zero = _
      rw [getD_push_lt _ _ _ _ hj]
    · show (st.verts.push _).getD st.verts.size V3.zero = _
      rw [getD_push_eq]; rfl

/-- the polyline vertex stored for the key of the input edge `a–b` is its crossing point (whichever way the edge was first visited) -/
theorem tables_pos (n : V3 K) (bias eps : K) (he : 0 ≤ eps) (V0 : Array (V3 K)) (st : Section.State K) (a b i : Nat)
    (h : letI := fieldNum K sq; TablesOK n bias eps V0 st) (hl : st.found.lookup (sortedPair a b) = some i) :
    letI := fieldNum K sq
    st.verts.getD i V3.zero = xpt n bias V0 a b := by
  letI : Num K := fieldNum K sq
  obtain ⟨h1, a', b', hk, hc, hv⟩ := h.1 _ _ hl
  rcases sortedPair_eq _ _ _ _ hk with ⟨rfl, rfl⟩ | ⟨rfl, rfl⟩
  · exact hv
  · rw [hv]
    simp only [xpt]
    apply crossing_symm sq
    have hsd := oppcol_sdist sq n bias eps he _ _ hc
    rcases hsd with ⟨h1, h2⟩ | ⟨h1, h2⟩
    · exact ne_of_lt (by linarith)
    · exact ne_of_gt (by linarith)

/-! ## `add_segment_adjacencies` -/

/-- `add_segment_adjacencies(a, b)` with `a ≤ len`: no assert; the list grows by one exactly when `a = len`; one entry is added -/
private theorem addAdj_ok (adj : Array (List Nat)) (a b : Nat) (ha : a ≤ adj.size) :
    ∃ adj', Section.addAdj adj a b = some adj' ∧ adj'.size = max adj.size (a + 1) ∧
      ∀ i j, AEdge adj' i j ↔ (AEdge adj i j ∨ (i = a ∧ j = b)) := by
  simp only [Section.addAdj, if_neg (not_lt.mpr ha)]
  by_cases h : a < adj.size
  · simp only [if_pos h]
    refine ⟨_, rfl, by simp; omega, ?_⟩
    intro i j
    simp only [AEdge, getD_set]
    by_cases hi : i = a
    · subst hi; simp [h, List.mem_append]
    · simp [hi]
  · simp only [if_neg h]
    have hsz : a = adj.size := by omega
    subst hsz
    refine ⟨_, rfl, by simp, ?_⟩
    intro i j
    simp only [AEdge]
    by_cases hi : i = adj.size
    · subst hi
      rw [getD_push_eq]
      have : adj.getD adj.size [] = [] := by
        simp [Array.getD_eq_getD_getElem?]
      simp [this]
    · by_cases hi2 : i < adj.size
      · rw [getD_push_lt _ _ _ _ hi2]; simp [hi]
      · have e1 : (adj.push [b]).getD i [] = [] := by
          rw [Array.getD_eq_getD_getElem?, Array.getElem?_eq_none (by simp; omega)]; rfl
        have e2 : adj.getD i [] = [] := by
          rw [Array.getD_eq_getD_getElem?, Array.getElem?_eq_none (by omega)]; rfl
        simp [e1, e2, hi]

/-- `add_segment_adjacencies_symmetric(o1, o2)` right after the (at most two) vertices `k, k+1` were created: no assert, the
adjacency list has again one entry per polyline vertex, and exactly the two entries `o1 → o2`, `o2 → o1` were added -/
private theorem addAdjSym_ok (adj : Array (List Nat)) (o1 o2 m : Nat) (h1 : o1 < m) (h2 : o2 < m)
    (hm : m = adj.size ∨ (m = adj.size + 1 ∧ (o1 = adj.size ∨ o2 = adj.size)) ∨
      (m = adj.size + 2 ∧ ((o1 = adj.size ∧ o2 = adj.size + 1) ∨ (o1 = adj.size + 1 ∧ o2 = adj.size)))) :
    ∃ adj', Section.addAdjSym adj o1 o2 = some adj' ∧ adj'.size = m ∧
      ∀ i j, AEdge adj' i j ↔ (AEdge adj i j ∨ (i = o1 ∧ j = o2) ∨ (i = o2 ∧ j = o1)) := by
  simp only [Section.addAdjSym]
  by_cases hlt : o1 < o2
  · simp only [if_pos hlt]
    obtain ⟨a1, e1, s1, E1⟩ := addAdj_ok adj o1 o2 (by omega)
    obtain ⟨a2, e2, s2, E2⟩ := addAdj_ok a1 o2 o1 (by omega)
    refine ⟨a2, by simp only [e1, Option.bind_some, e2], by omega, ?_⟩
    intro i j; rw [E2, E1]; tauto
  · simp only [if_neg hlt]
    obtain ⟨a1, e1, s1, E1⟩ := addAdj_ok adj o2 o1 (by omega)
    obtain ⟨a2, e2, s2, E2⟩ := addAdj_ok a1 o1 o2 (by omega)
    refine ⟨a2, by simp only [e1, Option.bind_some, e2], by omega, ?_⟩
    intro i j; rw [E2, E1]; tauto

/-- two allocations followed by the symmetric link keep the invariant; exactly the edge `o1 – o2` is added -/
private theorem link_ok {K : Type} [Num K] (n : V3 K) (bias eps : K) (V0 : Array (V3 K)) (st st1 st2 : Section.State K)
    (o1 o2 : Nat) (P1 P2 : V3 K) (hI : SInv n bias eps V0 st)
    (A1 : Alloc n bias eps V0 st st1 o1 P1) (A2 : Alloc n bias eps V0 st1 st2 o2 P2) (swap : Bool) :
    ∃ st', (Section.addAdjSym st2.adj (if swap then o2 else o1) (if swap then o1 else o2)).map
        (fun adj => ({ st2 with adj := adj } : Section.State K)) = some st' ∧ SInv n bias eps V0 st' ∧
      (∀ i j, AEdge st'.adj i j ↔ (AEdge st.adj i j ∨ (i = o1 ∧ j = o2) ∨ (i = o2 ∧ j = o1))) ∧
      (∀ j, j < st.verts.size → st'.verts.getD j V3.zero = st.verts.getD j V3.zero) ∧ st.verts.size ≤ st'.verts.size ∧
      st'.verts.getD o1 V3.zero = P1 ∧ st'.verts.getD o2 V3.zero = P2 ∧
      (∀ key v, st.found.lookup key = some v → st'.found.lookup key = some v) ∧ st'.found = st2.found := by
  obtain ⟨a1, t1, l1, g1, k1, v1, m1⟩ := A1
  obtain ⟨a2, t2, l2, g2, k2, v2, m2⟩ := A2
  have hs := hI.size
  have hadj : st2.adj = st.adj := by rw [a2, a1]
  have hsz : st2.adj.size = st.verts.size := by rw [hadj, hs]
  have ho1 : o1 < st2.verts.size := by omega
  have keep : ∀ j, j < st.verts.size → st2.verts.getD j V3.zero = st.verts.getD j V3.zero := by
    intro j hj; rw [k2 j (by omega), k1 j hj]
  have vo1 : st2.verts.getD o1 V3.zero = P1 := by rw [k2 o1 l1, v1]
  have fin : ∀ adj', adj'.size = st2.verts.size →
      (∀ i j, AEdge adj' i j ↔ (AEdge st2.adj i j ∨ (i = o1 ∧ j = o2) ∨ (i = o2 ∧ j = o1))) →
      SInv n bias eps V0 ({ st2 with adj := adj' } : Section.State K) ∧
      (∀ i j, AEdge adj' i j ↔ (AEdge st.adj i j ∨ (i = o1 ∧ j = o2) ∨ (i = o2 ∧ j = o1))) := by
    intro adj' s E
    rw [hadj] at E
    refine ⟨⟨s, t2, ?_, ?_⟩, E⟩
    · intro i j h
      show j < st2.verts.size
      rcases (E i j).mp h with h | ⟨_, rfl⟩ | ⟨_, rfl⟩
      · have := hI.entries i j h; omega
      · exact l2
      · exact ho1
    · intro i j h
      show AEdge adj' j i
      rcases (E i j).mp h with h | ⟨rfl, rfl⟩ | ⟨rfl, rfl⟩
      · exact (E j i).mpr (Or.inl (hI.sym i j h))
      · exact (E _ _).mpr (Or.inr (Or.inr ⟨rfl, rfl⟩))
      · exact (E _ _).mpr (Or.inr (Or.inl ⟨rfl, rfl⟩))
  cases swap
  · obtain ⟨adj', e, s, E⟩ := addAdjSym_ok st2.adj o1 o2 st2.verts.size ho1 l2 (by omega)
    obtain ⟨f1, f2⟩ := fin adj' s E
    exact ⟨{ st2 with adj := adj' }, by simp [e], f1, f2, keep, (by show st.verts.size ≤ st2.verts.size; omega), vo1, v2,
      fun key v hk => m2 key v (m1 key v hk), rfl⟩
  · obtain ⟨adj', e, s, E⟩ := addAdjSym_ok st2.adj o2 o1 st2.verts.size l2 ho1 (by omega)
    obtain ⟨f1, f2⟩ := fin adj' s (fun i j => by rw [E]; tauto)
    exact ⟨{ st2 with adj := adj' }, by simp [e], f1, f2, keep, (by show st.verts.size ≤ st2.verts.size; omega), vo1, v2,
      fun key v hk => m2 key v (m1 key v hk), rfl⟩

/-! ## one triangle -/

/-- `P` is a point where the cutting plane meets the boundary of triangle `t`: a vertex of colour 0 (within `eps` of the plane), or
the crossing point of an edge of `t` whose end points have colours 1 and 2 (beyond `eps` on opposite sides) -/
def PlanePt {K : Type} [Num K] (n : V3 K) (bias eps : K) (V0 : Array (V3 K)) (t : Tri) (P : V3 K) : Prop :=
  (∃ k, k < 3 ∧ vcol n bias eps V0 (t.get k) = 0 ∧ P = V0.getD (t.get k) V3.zero) ∨
  (∃ k, k < 3 ∧ OppCol (vcol n bias eps V0 (t.get k)) (vcol n bias eps V0 (t.get ((k + 1) % 3))) ∧
    P = xpt n bias V0 (t.get k) (t.get ((k + 1) % 3)))

/-- edge `k` of `t` is crossed by the plane -/
def CrossedEdge {K : Type} [Num K] (n : V3 K) (bias eps : K) (V0 : Array (V3 K)) (t : Tri) (k : Nat) : Prop :=
  OppCol (vcol n bias eps V0 (t.get k)) (vcol n bias eps V0 (t.get ((k + 1) % 3)))

/-- edge `k` of `t` lies in the plane (both end points of colour 0) while the opposite vertex does not -/
def InPlaneEdge {K : Type} [Num K] (n : V3 K) (bias eps : K) (V0 : Array (V3 K)) (t : Tri) (k : Nat) : Prop :=
  vcol n bias eps V0 (t.get k) = 0 ∧ vcol n bias eps V0 (t.get ((k + 1) % 3)) = 0 ∧ vcol n bias eps V0 (t.get ((k + 2) % 3)) ≠ 0

/-- the key of edge `k` of `t` in `intersections_found` -/
def edgeKey (t : Tri) (k : Nat) : Nat × Nat := sortedPair (t.get k) (t.get ((k + 1) % 3))

/-- what one iteration of the triangle loop does to the polyline: old vertices stay; either no segment is added and no edge of `t`
is crossed, or exactly one segment `o1 – o2` is added, both its end points are plane points of `t`, and the crossing point of
every crossed edge of `t` is one of them -/
def StepRel {K : Type} [Num K] (n : V3 K) (bias eps : K) (V0 : Array (V3 K)) (st st' : Section.State K) (t : Tri) : Prop :=
  (∀ j, j < st.verts.size → st'.verts.getD j V3.zero = st.verts.getD j V3.zero) ∧ st.verts.size ≤ st'.verts.size ∧
  (∀ key v, st.found.lookup key = some v → st'.found.lookup key = some v) ∧
  ((st'.adj = st.adj ∧ (∀ k, k < 3 → ¬ CrossedEdge n bias eps V0 t k) ∧ (∀ k, k < 3 → ¬ InPlaneEdge n bias eps V0 t k)) ∨
   ∃ o1 o2, (∀ i j, AEdge st'.adj i j ↔ (AEdge st.adj i j ∨ (i = o1 ∧ j = o2) ∨ (i = o2 ∧ j = o1))) ∧
     PlanePt n bias eps V0 t (st'.verts.getD o1 V3.zero) ∧ PlanePt n bias eps V0 t (st'.verts.getD o2 V3.zero) ∧
     (∀ k, k < 3 → CrossedEdge n bias eps V0 t k →
       (st'.verts.getD o1 V3.zero = xpt n bias V0 (t.get k) (t.get ((k + 1) % 3)) ∨
        st'.verts.getD o2 V3.zero = xpt n bias V0 (t.get k) (t.get ((k + 1) % 3)))) ∧
     (∀ k k', k < 3 → k' < 3 → k ≠ k' → CrossedEdge n bias eps V0 t k → CrossedEdge n bias eps V0 t k' →
       (st'.found.lookup (edgeKey t k) = some o1 ∧ st'.found.lookup (edgeKey t k') = some o2) ∨
       (st'.found.lookup (edgeKey t k) = some o2 ∧ st'.found.lookup (edgeKey t k') = some o1)) ∧
     (∀ k, k < 3 → InPlaneEdge n bias eps V0 t k →
       (st'.verts.getD o1 V3.zero = V0.getD (t.get k) V3.zero ∧ st'.verts.getD o2 V3.zero = V0.getD (t.get ((k + 1) % 3)) V3.zero) ∨
       (st'.verts.getD o1 V3.zero = V0.getD (t.get ((k + 1) % 3)) V3.zero ∧ st'.verts.getD o2 V3.zero = V0.getD (t.get k) V3.zero)))

/-- for the section routine: a `Vertex(i)` feature names a vertex of colour 0 -/
def VertexOK' (c : Nat → Nat) : Feat × Feat → Prop
  | (Feat.vertex i, Feat.vertex j) => c i = 0 ∧ c j = 0 ∧ i < 3 ∧ j < 3
  | _ => True
instance (c : Nat → Nat) (r : Feat × Feat) : Decidable (VertexOK' c r) := by
  unfold VertexOK'; split <;> infer_instance
private theorem vertex_table' : ∀ c0 c1 c2 : Fin 3,
    VertexOK' (Tri.get (c0.val, c1.val, c2.val)) (classify (Tri.get (c0.val, c1.val, c2.val)) (0, 1, 2)) := by
  decide

/-- which feature pair an in-plane edge produces -/
def InPlaneOK (c : Nat → Nat) : Feat × Feat → Prop
  | (Feat.vertex i, Feat.vertex j) => ∀ k : Fin 3, (c k.val = 0 ∧ c ((k.val + 1) % 3) = 0 ∧ c ((k.val + 2) % 3) ≠ 0) →
      ((i = k.val ∧ j = (k.val + 1) % 3) ∨ (i = (k.val + 1) % 3 ∧ j = k.val))
  | _ => ∀ k : Fin 3, ¬ (c k.val = 0 ∧ c ((k.val + 1) % 3) = 0 ∧ c ((k.val + 2) % 3) ≠ 0)
instance (c : Nat → Nat) (r : Feat × Feat) : Decidable (InPlaneOK c r) := by
  unfold InPlaneOK; split <;> infer_instance
private theorem inplane_table : ∀ c0 c1 c2 : Fin 3,
    InPlaneOK (Tri.get (c0.val, c1.val, c2.val)) (classify (Tri.get (c0.val, c1.val, c2.val)) (0, 1, 2)) := by
  decide

private theorem no_opp (c : Nat → Nat) (h : ¬ ((c 0 = 1 ∨ c 1 = 1 ∨ c 2 = 1) ∧ (c 0 = 2 ∨ c 1 = 2 ∨ c 2 = 2))) :
    ∀ k, k < 3 → ¬ OppCol (c k) (c ((k + 1) % 3)) := by
  intro k hk ho
  have hk' : k = 0 ∨ k = 1 ∨ k = 2 := by omega
  rcases hk' with rfl | rfl | rfl <;> simp only [OppCol, Nat.reduceAdd, Nat.reduceMod, Nat.zero_add] at ho <;> omega

private theorem ve_only (c : Nat → Nat) (ie k : Nat) (hie : ie < 3) (hk : k < 3) (hz : c ((ie + 2) % 3) = 0)
    (ho : OppCol (c k) (c ((k + 1) % 3))) : k = ie := by
  have hk' : k = 0 ∨ k = 1 ∨ k = 2 := by omega
  have hi' : ie = 0 ∨ ie = 1 ∨ ie = 2 := by omega
  rcases hk' with rfl | rfl | rfl <;> rcases hi' with rfl | rfl | rfl <;>
    simp only [OppCol, Nat.reduceAdd, Nat.reduceMod, Nat.zero_add] at ho hz ⊢ <;> omega

private theorem ee_only (c : Nat → Nat) (e k : Nat) (he : e < 3) (hk : k < 3) (hn : ¬ OppCol (c ((e + 1) % 3)) (c ((e + 2) % 3)))
    (ho : OppCol (c k) (c ((k + 1) % 3))) : k = (e + 2) % 3 ∨ k = e := by
  have hk' : k = 0 ∨ k = 1 ∨ k = 2 := by omega
  have he' : e = 0 ∨ e = 1 ∨ e = 2 := by omega
  rcases hk' with rfl | rfl | rfl <;> rcases he' with rfl | rfl | rfl <;>
    simp only [Nat.reduceAdd, Nat.reduceMod, Nat.zero_add] at ho hn ⊢ <;>
    first | omega | exact absurd ho hn | simp

theorem stepTri_ok (n : V3 K) (bias eps : K) (he : 0 ≤ eps) (V0 : Array (V3 K)) (colors : Array Nat) (st : Section.State K)
    (idx : Tri)
    (hc : letI := fieldNum K sq; ∀ k, colors.getD (idx.get k) 0 = vcol n bias eps V0 (idx.get k))
    (hI : letI := fieldNum K sq; SInv n bias eps V0 st) :
    letI := fieldNum K sq
    ∃ st', Section.stepTri n bias V0 colors st idx = some st' ∧ SInv n bias eps V0 st' ∧ StepRel n bias eps V0 st st' idx := by
  letI : Num K := fieldNum K sq
  have hlt : ∀ k, colors.getD (idx.get k) 0 < 3 := fun k => by rw [hc]; exact vertexColour_lt sq _ _ _ _
  have h0 : colors.getD idx.1 0 < 3 := by simpa [Tri.get] using hlt 0
  have h1 : colors.getD idx.2.1 0 < 3 := by simpa [Tri.get] using hlt 1
  have h2 : colors.getD idx.2.2 0 < 3 := by simpa [Tri.get] using hlt 2
  have hcl := classify_pos (fun i => colors.getD i 0) idx
  have hOK := classify_table ⟨_, h0⟩ ⟨_, h1⟩ ⟨_, h2⟩
  have hV := vertex_table' ⟨_, h0⟩ ⟨_, h1⟩ ⟨_, h2⟩
  have hP := inplane_table ⟨_, h0⟩ ⟨_, h1⟩ ⟨_, h2⟩
  simp only at hOK hV hP hcl
  rw [← hcl] at hOK hV hP
  have hget := get_col (fun i => colors.getD i 0) idx
  generalize Tri.get (colors.getD idx.1 0, colors.getD idx.2.1 0, colors.getD idx.2.2 0) = c at hOK hV hP hget
  have hck : ∀ k, c k = vcol n bias eps V0 (idx.get k) := fun k => by rw [hget, hc]
  simp only [Section.stepTri]
  generalize classify (fun i => colors.getD i 0) idx = r at hOK hV hP
  rcases r with ⟨f0, f1⟩
  have noplane : (∀ k : Fin 3, ¬ (c k.val = 0 ∧ c ((k.val + 1) % 3) = 0 ∧ c ((k.val + 2) % 3) ≠ 0)) →
      ∀ k, k < 3 → ¬ InPlaneEdge n bias eps V0 idx k := by
    intro h k hk hp
    simp only [InPlaneEdge, ← hck] at hp
    exact h ⟨k, hk⟩ hp
  have nocross : ¬ ((c 0 = 1 ∨ c 1 = 1 ∨ c 2 = 1) ∧ (c 0 = 2 ∨ c 1 = 2 ∨ c 2 = 2)) →
      ∀ k, k < 3 → ¬ CrossedEdge n bias eps V0 idx k := by
    intro h k hk ho
    simp only [CrossedEdge, ← hck] at ho
    exact no_opp c h k hk ho
  cases f0 <;> cases f1 <;> simp only [ClassifyOK, VertexOK', InPlaneOK] at hOK hV hP
  · exact ⟨st, rfl, hI, fun _ _ => rfl, le_refl _, fun _ _ x => x, Or.inl ⟨rfl, nocross hOK, noplane hP⟩⟩
  · exact ⟨st, rfl, hI, fun _ _ => rfl, le_refl _, fun _ _ x => x, Or.inl ⟨rfl, nocross hOK, noplane hP⟩⟩
  · rename_i iv1 iv2
    have A1 := alloc_existing sq n bias eps V0 st (idx.get iv1) hI.tables
    have A2 := alloc_existing sq n bias eps V0 (Section.existingVertex V0 st (idx.get iv1)).1 (idx.get iv2) A1.2.1
    obtain ⟨st', e, I', E, kp, sz, p1, p2, mono, _⟩ := link_ok n bias eps V0 st _ _ _ _ _ _ hI A1 A2 false
    refine ⟨st', e, I', kp, sz, mono, Or.inr ⟨_, _, E, ?_, ?_, ?_, ?_, ?_⟩⟩
    · rw [p1]; exact Or.inl ⟨iv1, hV.2.2.1, by rw [← hck]; exact hV.1, rfl⟩
    · rw [p2]; exact Or.inl ⟨iv2, hV.2.2.2, by rw [← hck]; exact hV.2.1, rfl⟩
    · intro k hk ho; exact absurd ho (nocross hOK k hk)
    · intro k k' hk hk' _ ho _; exact absurd ho (nocross hOK k hk)
    · intro k hk hp
      simp only [InPlaneEdge, ← hck] at hp
      rcases hP ⟨k, hk⟩ hp with ⟨rfl, rfl⟩ | ⟨rfl, rfl⟩
      · exact Or.inl ⟨p1, p2⟩
      · exact Or.inr ⟨p1, p2⟩
  · rename_i iv ie
    obtain ⟨hiv, hie, hcz, hopp⟩ := hOK
    subst hiv
    simp only [ne_eq, not_true_eq_false, if_false]
    have hopp' : OppCol (vcol n bias eps V0 (idx.get ie)) (vcol n bias eps V0 (idx.get ((ie + 1) % 3))) := by
      rw [← hck, ← hck]; exact hopp
    obtain ⟨A1, _⟩ := alloc_isect sq n bias eps he V0 st (idx.get ie) (idx.get ((ie + 1) % 3)) hI.tables hopp'
    have A2 := alloc_existing sq n bias eps V0 (Section.intersectEdge n bias V0 st (idx.get ie) (idx.get ((ie + 1) % 3))).1
      (idx.get ((ie + 2) % 3)) A1.2.1
    obtain ⟨st', e, I', E, kp, sz, p1, p2, mono, _⟩ := link_ok n bias eps V0 st _ _ _ _ _ _ hI A1 A2 true
    refine ⟨st', e, I', kp, sz, mono, Or.inr ⟨_, _, E, ?_, ?_, ?_, ?_, ?_⟩⟩
    · rw [p1]; exact Or.inr ⟨ie, hie, hopp', rfl⟩
    · rw [p2]; exact Or.inl ⟨(ie + 2) % 3, by omega, by rw [← hck]; exact hcz, rfl⟩
    · intro k hk ho
      simp only [CrossedEdge, ← hck] at ho
      have := ve_only c ie k hie hk hcz ho
      subst this
      left; exact p1
    · intro k k' hk hk' hne ho ho'
      simp only [CrossedEdge, ← hck] at ho ho'
      exact absurd ((ve_only c ie k hie hk hcz ho).trans (ve_only c ie k' hie hk' hcz ho').symm) hne
    · intro k hk hp; exact absurd hp (noplane hP k hk)
  · rename_i ie iv
    obtain ⟨hiv, hie, hcz, hopp⟩ := hOK
    subst hiv
    simp only [ne_eq, not_true_eq_false, if_false]
    have hopp' : OppCol (vcol n bias eps V0 (idx.get ie)) (vcol n bias eps V0 (idx.get ((ie + 1) % 3))) := by
      rw [← hck, ← hck]; exact hopp
    obtain ⟨A1, _⟩ := alloc_isect sq n bias eps he V0 st (idx.get ie) (idx.get ((ie + 1) % 3)) hI.tables hopp'
    have A2 := alloc_existing sq n bias eps V0 (Section.intersectEdge n bias V0 st (idx.get ie) (idx.get ((ie + 1) % 3))).1
      (idx.get ((ie + 2) % 3)) A1.2.1
    obtain ⟨st', e, I', E, kp, sz, p1, p2, mono, _⟩ := link_ok n bias eps V0 st _ _ _ _ _ _ hI A1 A2 true
    refine ⟨st', e, I', kp, sz, mono, Or.inr ⟨_, _, E, ?_, ?_, ?_, ?_, ?_⟩⟩
    · rw [p1]; exact Or.inr ⟨ie, hie, hopp', rfl⟩
    · rw [p2]; exact Or.inl ⟨(ie + 2) % 3, by omega, by rw [← hck]; exact hcz, rfl⟩
    · intro k hk ho
      simp only [CrossedEdge, ← hck] at ho
      have := ve_only c ie k hie hk hcz ho
      subst this
      left; exact p1
    · intro k k' hk hk' hne ho ho'
      simp only [CrossedEdge, ← hck] at ho ho'
      exact absurd ((ve_only c ie k hie hk hcz ho).trans (ve_only c ie k' hie hk' hcz ho').symm) hne
    · intro k hk hp; exact absurd hp (noplane hP k hk)
  · rename_i e1 e2
    dsimp only
    generalize (if e2 ≠ (e1 + 1) % 3 then e1 else e2) = e at hOK
    obtain ⟨hie, hca, hab, hnbc⟩ := hOK
    have hmod : ((e + 2) % 3 + 1) % 3 = e := by omega
    have hca' : OppCol (vcol n bias eps V0 (idx.get ((e + 2) % 3))) (vcol n bias eps V0 (idx.get e)) := by
      rw [← hck, ← hck]; exact hca
    have hab' : OppCol (vcol n bias eps V0 (idx.get e)) (vcol n bias eps V0 (idx.get ((e + 1) % 3))) := by
      rw [← hck, ← hck]; exact hab
    obtain ⟨A1, L1⟩ := alloc_isect sq n bias eps he V0 st (idx.get ((e + 2) % 3)) (idx.get e) hI.tables hca'
    obtain ⟨A2, L2⟩ := alloc_isect sq n bias eps he V0 (Section.intersectEdge n bias V0 st (idx.get ((e + 2) % 3)) (idx.get e)).1 (idx.get e)
      (idx.get ((e + 1) % 3)) A1.2.1 hab'
    have L1' := A2.2.2.2.2.2.2 _ _ L1
    obtain ⟨st', e', I', E, kp, sz, p1, p2, mono, hf⟩ := link_ok n bias eps V0 st _ _ _ _ _ _ hI A1 A2 false
    have K1 : st'.found.lookup (edgeKey idx ((e + 2) % 3)) = some
        (Section.intersectEdge n bias V0 st (idx.get ((e + 2) % 3)) (idx.get e)).2 := by
      rw [hf]; simp only [edgeKey, hmod]; exact L1'
    have K2 : st'.found.lookup (edgeKey idx e) = some
        (Section.intersectEdge n bias V0 (Section.intersectEdge n bias V0 st (idx.get ((e + 2) % 3)) (idx.get e)).1 (idx.get e)
          (idx.get ((e + 1) % 3))).2 := by
      rw [hf]; exact L2
    refine ⟨st', e', I', kp, sz, mono, Or.inr ⟨_, _, E, ?_, ?_, ?_, ?_, ?_⟩⟩
    · rw [p1]; exact Or.inr ⟨(e + 2) % 3, by omega, by rw [hmod]; exact hca', by rw [hmod]⟩
    · rw [p2]; exact Or.inr ⟨e, hie, hab', rfl⟩
    · intro k hk ho
      simp only [CrossedEdge, ← hck] at ho
      rcases ee_only c e k hie hk hnbc ho with rfl | rfl
      · left; rw [p1, hmod]
      · right; exact p2
    · intro k k' hk hk' hne ho ho'
      simp only [CrossedEdge, ← hck] at ho ho'
      rcases ee_only c e k hie hk hnbc ho with h1 | h1 <;> rcases ee_only c e k' hie hk' hnbc ho' with h2 | h2
      · exact absurd (h1.trans h2.symm) hne
      · rw [h1, h2]; exact Or.inl ⟨K1, K2⟩
      · rw [h1, h2]; exact Or.inr ⟨K2, K1⟩
      · exact absurd (h1.trans h2.symm) hne
    · intro k hk hp; exact absurd hp (noplane hP k hk)

/-- the triangle loop: no panic, the structural invariant, and the chain of per-triangle relations -/
theorem stepLoop_ok (n : V3 K) (bias eps : K) (he : 0 ≤ eps) (V0 : Array (V3 K)) (colors : Array Nat) (tris : List Tri)
    (hc : letI := fieldNum K sq; ∀ t ∈ tris, ∀ k, colors.getD (t.get k) 0 = vcol n bias eps V0 (t.get k)) :
    letI := fieldNum K sq
    ∀ (st : Section.State K) (Q : Section.State K → List Tri → Prop), SInv n bias eps V0 st → Q st [] →
      (∀ s s' t done, SInv n bias eps V0 s → SInv n bias eps V0 s' → Q s done → StepRel n bias eps V0 s s' t → Q s' (done ++ [t])) →
      ∃ st', Section.stepLoop n bias V0 colors st tris = some st' ∧ SInv n bias eps V0 st' ∧ Q st' tris := by
  letI : Num K := fieldNum K sq
  suffices H : ∀ (rest : List Tri), (∀ t ∈ rest, ∀ k, colors.getD (t.get k) 0 = vcol n bias eps V0 (t.get k)) →
      ∀ (st : Section.State K) (Q : Section.State K → List Tri → Prop) (done : List Tri), SInv n bias eps V0 st → Q st done →
      (∀ s s' t done, SInv n bias eps V0 s → SInv n bias eps V0 s' → Q s done → StepRel n bias eps V0 s s' t → Q s' (done ++ [t])) →
      ∃ st', Section.stepLoop n bias V0 colors st rest = some st' ∧ SInv n bias eps V0 st' ∧ Q st' (done ++ rest) by
    intro st Q hI hQ hstep
    simpa using H tris hc st Q [] hI hQ hstep
  intro rest
  induction rest with
  | nil => intro _ st Q done hI hQ _; exact ⟨st, rfl, hI, by simpa using hQ⟩
  | cons t rest ih =>
    intro hc' st Q done hI hQ hstep
    obtain ⟨st1, e1, I1, R1⟩ := stepTri_ok sq n bias eps he V0 colors st t (hc' t (by simp)) hI
    obtain ⟨st2, e2, I2, Q2⟩ := ih (fun x hx => hc' x (by simp [hx])) st1 Q (done ++ [t]) I1 (hstep st st1 t done hI I1 hQ R1) hstep
    exact ⟨st2, by simp only [Section.stepLoop, e1, e2], I2, by simpa using Q2⟩

/-- colours stored by the routine = colours of the input vertices, for triangles with valid indices -/
theorem colours_ok (verts : List (V3 K)) (tris : List Tri) (n : V3 K) (bias eps : K)
    (hv : validMesh verts.length tris = true) :
    letI := fieldNum K sq
    ∀ t ∈ tris, ∀ k, (verts.map (vertexColour n bias eps)).toArray.getD (t.get k) 0 = vcol n bias eps verts.toArray (t.get k) := by
  letI : Num K := fieldNum K sq
  intro t ht k
  simp only [validMesh, List.all_eq_true, Bool.and_eq_true, decide_eq_true_eq] at hv
  obtain ⟨⟨a, b⟩, c⟩ := hv t ht
  have hk : t.get k < verts.length := get_lt t _ k ⟨a, b, c⟩
  simp [vcol, Array.getD_eq_getD_getElem?, List.getElem?_map, List.getElem?_eq_getElem hk]

theorem sinv_init (n : V3 K) (bias eps : K) (V0 : Array (V3 K)) :
    letI := fieldNum K sq
    SInv n bias eps V0 (⟨#[], [], [], #[]⟩ : Section.State K) := by
  letI : Num K := fieldNum K sq
  refine ⟨rfl, ⟨by intro k v h; simp at h, by intro k v h; simp at h, by intro k k' v h; simp at h⟩, ?_, ?_⟩
  · intro i j h; simp [AEdge] at h
  · intro i j h; simp [AEdge] at h

end C17
