import ParryModel.C17.CutLemmas
import ParryModel.C17.Theorems2
/-!
# C17 property theorems, part 4: `TriMesh::local_split` (cutting part) — totality, sides, conservation

The theorems are about `Model.Cut.localSplitUncapped` (CutModel.lean): the triangle loop with the `HashMap` de-duplication of the
crossing points and the partition into the two halves, i.e. the whole of `local_split` for a mesh without the `ORIENTED` flag
(bit-exact against the real function: `tm_cut`). They hold for every mesh with valid indices (open, closed, non-manifold, with
repeated or unused vertices, degenerate triangles), every plane `(n, bias)` (unit normal or not) and every `eps ≥ 0`, over an
arbitrary linearly ordered field.
-/
namespace C17
open Model Model.Cut

set_option linter.unusedSectionVars false
set_option linter.unusedTactic false
set_option linter.unreachableTactic false
set_option linter.style.haveILetI false
set_option linter.unusedVariables false

variable {K : Type} [Field K] [LinearOrder K] [IsStrictOrderedRing K] (sq : K → K)

private theorem getD_map_toArray {α β} (l : List α) (f : α → β) (i : Nat) (da : α) (db : β) (h : i < l.length) :
    (l.map f).toArray.getD i db = f (l.toArray.getD i da) := by
  simp [Array.getD_eq_getD_getElem?, List.getElem?_map, List.getElem?_eq_getElem h]

private theorem valid_inrange (nv : Nat) (tris : List Tri) (h : validMesh nv tris = true) : ∀ t ∈ tris, InRange nv t := by
  intro t ht
  simp only [validMesh, List.all_eq_true, Bool.and_eq_true, decide_eq_true_eq] at h
  obtain ⟨⟨a, b⟩, c⟩ := h t ht
  exact ⟨a, b, c⟩

private theorem colour_side (n : V3 K) (bias eps : K) (he : 0 ≤ eps) (p : V3 K) :
    letI := fieldNum K sq
    (vertexColour n bias eps p ≠ 2 → sdist n bias p ≤ eps) ∧ (vertexColour n bias eps p ≠ 1 → -eps ≤ sdist n bias p) ∧
      vertexColour n bias eps p < 3 := by
  letI : Num K := fieldNum K sq
  simp only [vertexColour, sdist]
  split_ifs with h1 h2
  · exact ⟨fun _ => by linarith, fun h => absurd rfl h, by omega⟩
  · exact ⟨fun h => absurd rfl h, fun _ => by linarith, by omega⟩
  · exact ⟨fun _ => by linarith, fun _ => by linarith, by omega⟩

/-- everything the three loops of `local_split` establish, for a mesh with valid indices -/
private theorem split_core (verts : List (V3 K)) (tris : List Tri) (n : V3 K) (bias eps : K) (he : 0 ≤ eps)
    (hv : validMesh verts.length tris = true) :
    letI := fieldNum K sq
    ∃ st h il ir, cutMesh verts tris n bias eps = some st ∧
      remapLoop ⟨#[], #[], #[]⟩ (st.verts.toList.zip st.colors.toList) = some h ∧
      assignLoop n st.verts st.colors h.remap ([], []) st.tris.toList = some (il, ir) ∧
      (∀ p ∈ h.vl.toList, sdist n bias p ≤ eps) ∧ (∀ p ∈ h.vr.toList, -eps ≤ sdist n bias p) ∧
      (∀ t ∈ il, InRange h.vl.size t) ∧ (∀ t ∈ ir, InRange h.vr.size t) ∧
      ∀ g : V3 K → K, Homog g →
        (il.map fun t => g (triNT (pos h.vl t))).sum + (ir.map fun t => g (triNT (pos h.vr t))).sum =
          (tris.map fun t => g (triNT (pos verts.toArray t))).sum := by
  letI : Num K := fieldNum K sq
  have hin := valid_inrange _ _ hv
  -- the triangle loop
  have hI0 : Inv n bias eps verts.toArray ⟨verts.toArray, (verts.map (vertexColour n bias eps)).toArray, tris.toArray, []⟩ := by
    refine ⟨by simp, le_refl _, fun _ _ => rfl, ?_, ?_, ?_⟩
    · intro i hi
      exact getD_map_toArray verts _ i V3.zero 0 (by simpa using hi)
    · intro k h1 h2; exact absurd h2 (by simpa using h1)
    · intro key k hk; simp at hk
  obtain ⟨st, hcut, hI, htris, hsum⟩ := cutLoop_spec sq n bias eps he verts.toArray tris _ 0 [] [] hI0 (by simp) rfl
    (by simpa using hin) (by simp)
  -- colours of the cut mesh
  have hcol : ∀ k, k < st.verts.size → (st.colors.getD k 0 ≠ 2 → sdist n bias (st.verts.getD k V3.zero) ≤ eps) ∧
      (st.colors.getD k 0 ≠ 1 → -eps ≤ sdist n bias (st.verts.getD k V3.zero)) ∧ st.colors.getD k 0 < 3 := by
    intro k hk
    by_cases hk0 : k < verts.toArray.size
    · rw [hI.orig_c k hk0, hI.orig_v k hk0]
      exact colour_side sq n bias eps he _
    · obtain ⟨c0, d0⟩ := hI.new_c k (by omega) hk
      rw [c0, d0]
      exact ⟨fun _ => he, fun _ => by linarith, by omega⟩
  have hzip : ∀ k p c, (st.verts.toList.zip st.colors.toList)[k]? = some (p, c) →
      k < st.verts.size ∧ p = st.verts.getD k V3.zero ∧ c = st.colors.getD k 0 := by
    intro k p c hk
    rw [List.getElem?_zip_eq_some] at hk
    obtain ⟨h1, h2⟩ := hk
    simp only [Array.getElem?_toList] at h1 h2
    have hlt : k < st.verts.size := by
      by_contra hcon
      rw [Array.getElem?_eq_none (by omega)] at h1; exact absurd h1 (by simp)
    refine ⟨hlt, ?_, ?_⟩
    · rw [Array.getD_eq_getD_getElem?, h1]; rfl
    · rw [Array.getD_eq_getD_getElem?, h2]; rfl
  -- the vertex partition
  obtain ⟨h, hrem, hR⟩ := remapLoop_spec (st.verts.toList.zip st.colors.toList) ⟨#[], #[], #[]⟩ []
    ⟨rfl, by simp, by simp, by simp, by simp⟩
    (by
      intro x hx
      obtain ⟨k, hk⟩ := List.getElem?_of_mem hx
      obtain ⟨a, b, c⟩ := hzip k x.1 x.2 hk
      rw [c]; exact (hcol k a).2.2)
  simp only [List.nil_append] at hR
  have hzk : ∀ k, k < st.verts.size →
      (st.verts.toList.zip st.colors.toList)[k]? = some (st.verts.getD k V3.zero, st.colors.getD k 0) := by
    intro k hk
    rw [List.getElem?_zip_eq_some]
    have hk2 : k < st.colors.size := by rw [← hI.size_eq]; exact hk
    simp [Array.getD_eq_getD_getElem?, Array.getElem?_eq_getElem hk, Array.getElem?_eq_getElem hk2]
  have hROK : RemapOK st.verts st.colors h.remap h.vl h.vr := by
    intro k hk
    exact ⟨fun hc => hR.left k _ _ (hzk k hk) hc, fun hc => hR.right k _ _ (hzk k hk) hc⟩
  have hsideL : ∀ p ∈ h.vl.toList, sdist n bias p ≤ eps := by
    intro p hp
    obtain ⟨c, hm, hc⟩ := hR.memL p hp
    obtain ⟨k, hk⟩ := List.getElem?_of_mem hm
    obtain ⟨a, rfl, rfl⟩ := hzip k p c hk
    exact (hcol k a).1 hc
  have hsideR : ∀ p ∈ h.vr.toList, -eps ≤ sdist n bias p := by
    intro p hp
    obtain ⟨c, hm, hc⟩ := hR.memR p hp
    obtain ⟨k, hk⟩ := List.getElem?_of_mem hm
    obtain ⟨a, rfl, rfl⟩ := hzip k p c hk
    exact (hcol k a).2.1 hc
  refine ⟨st, h, ?_⟩
  -- the triangle partition, for each functional `g`
  have hA := fun F => assignLoop_spec (fieldNum K sq) n st.verts st.colors h.remap h.vl h.vr hROK F st.tris.toList ([], []) htris
    (by simp) (by simp)
  obtain ⟨acc, e0, r1, r2, _⟩ := hA (fun _ => 0)
  refine ⟨acc.1, acc.2, hcut, hrem, e0, hsideL, hsideR, r1, r2, ?_⟩
  intro g hg
  obtain ⟨acc', e1, _, _, s1⟩ := hA (fun p => g (triNT p))
  rw [e0] at e1
  obtain rfl : acc = acc' := by simpa using e1
  have s2 := hsum g hg
  simp only [List.append_nil, List.map_nil, List.sum_nil, zero_add] at s1 s2
  rw [s1, s2]

/-- **C17 (mesh split, totality)**: on a mesh whose triangles index existing vertices the cutting part of `local_split` never
reaches one of its `assert!`s / `unreachable!()`s / out-of-range accesses (the `none` results of the model), whatever the plane
and `eps ≥ 0`: every triangle classifies into one of the handled feature pairs, a crossed edge always has a partner feature,
no triangle is left with vertices on both sides. -/
theorem local_split_never_panics (verts : List (V3 K)) (tris : List Tri) (n : V3 K) (bias eps : K) (he : 0 ≤ eps)
    (hv : validMesh verts.length tris = true) :
    letI := fieldNum K sq
    (localSplitUncapped verts tris n bias eps).isSome = true := by
  letI : Num K := fieldNum K sq
  obtain ⟨st, h, il, ir, e1, e2, e3, _⟩ := split_core sq verts tris n bias eps he hv
  simp only [localSplitUncapped, hv, Bool.not_true, Bool.false_eq_true, if_false]
  cases meshVerdict verts n bias eps with
  | negative => rfl
  | positive => rfl
  | pair _ _ =>
    simp only [e1, e2, e3]
    split_ifs <;> rfl

/-- **C17 (mesh split, sides and conservation)**: when `local_split` returns `Pair(l, r)` (mesh without caps), every vertex of `l`
has signed distance `≤ eps` and every vertex of `r` has `≥ -eps` (so every point of every triangle of `l` / `r`, by convexity:
`sdist` is affine); all triangle indices of the halves are in range; and for every positively homogeneous functional `g` of the
vector area `(b-a)×(c-a)` — its norm (twice the area), its components (the vector area), … — the total of `g` over the triangles of
both halves equals the total over the input triangles: nothing is lost, duplicated, flipped or moved out of its plane
(crossing points are shared through the `SortedPair` table; triangles lying in the plane go to exactly one half). -/
theorem local_split_pair_conserves (verts : List (V3 K)) (tris : List Tri) (n : V3 K) (bias eps : K) (he : 0 ≤ eps)
    (vl vr : List (V3 K)) (il ir : List Tri)
    (hres : letI := fieldNum K sq; localSplitUncapped verts tris n bias eps = some (.pair (vl, il) (vr, ir))) :
    letI := fieldNum K sq
    (∀ p ∈ vl, sdist n bias p ≤ eps) ∧ (∀ p ∈ vr, -eps ≤ sdist n bias p) ∧
    (∀ t ∈ il, InRange vl.length t) ∧ (∀ t ∈ ir, InRange vr.length t) ∧
    ∀ g : V3 K → K, Homog g →
      (il.map fun t => g (triNT (pos vl.toArray t))).sum + (ir.map fun t => g (triNT (pos vr.toArray t))).sum =
        (tris.map fun t => g (triNT (pos verts.toArray t))).sum := by
  letI : Num K := fieldNum K sq
  by_cases hv : validMesh verts.length tris = true
  · obtain ⟨st, h, il', ir', e1, e2, e3, p1, p2, p3, p4, p5⟩ := split_core sq verts tris n bias eps he hv
    simp only [localSplitUncapped, hv, Bool.not_true, Bool.false_eq_true, if_false] at hres
    cases hm : meshVerdict verts n bias eps with
    | negative => rw [hm] at hres; simp at hres
    | positive => rw [hm] at hres; simp at hres
    | pair _ _ =>
      rw [hm] at hres
      simp only [e1, e2, e3] at hres
      split_ifs at hres
      · simp at hres
      · simp at hres
      simp only [Option.some.injEq, Split.pair.injEq, Prod.mk.injEq] at hres
      obtain ⟨⟨rfl, rfl⟩, rfl, rfl⟩ := hres
      refine ⟨p1, p2, by simpa using p3, by simpa using p4, ?_⟩
      intro g hg
      simpa using p5 g hg
  · simp [localSplitUncapped, hv] at hres

/-- **C17 (mesh split, area and vector area)**: `Pair(l, r)` conserves the total surface area
`Σ |(b-a)×(c-a)|` (twice the area; any lawful square root) and the total vector area `Σ (b-a)×(c-a)`, component by component. -/
theorem local_split_pair_area (hs : LawfulSqrt sq) (verts : List (V3 K)) (tris : List Tri) (n : V3 K) (bias eps : K) (he : 0 ≤ eps)
    (vl vr : List (V3 K)) (il ir : List Tri)
    (hres : letI := fieldNum K sq; localSplitUncapped verts tris n bias eps = some (.pair (vl, il) (vr, ir))) :
    letI := fieldNum K sq
    ((il.map fun t => (triNT (pos vl.toArray t)).norm).sum + (ir.map fun t => (triNT (pos vr.toArray t)).norm).sum =
        (tris.map fun t => (triNT (pos verts.toArray t)).norm).sum) ∧
    ((il.map fun t => (triNT (pos vl.toArray t)).x).sum + (ir.map fun t => (triNT (pos vr.toArray t)).x).sum =
        (tris.map fun t => (triNT (pos verts.toArray t)).x).sum) ∧
    ((il.map fun t => (triNT (pos vl.toArray t)).y).sum + (ir.map fun t => (triNT (pos vr.toArray t)).y).sum =
        (tris.map fun t => (triNT (pos verts.toArray t)).y).sum) ∧
    ((il.map fun t => (triNT (pos vl.toArray t)).z).sum + (ir.map fun t => (triNT (pos vr.toArray t)).z).sum =
        (tris.map fun t => (triNT (pos verts.toArray t)).z).sum) := by
  letI : Num K := fieldNum K sq
  obtain ⟨_, _, _, _, h⟩ := local_split_pair_conserves sq verts tris n bias eps he vl vr il ir hres
  refine ⟨h (fun N => N.norm) (fun N w hw => norm_smul_of_nonneg sq hs N w hw), h (fun N => N.x) ?_, h (fun N => N.y) ?_, h (fun N => N.z) ?_⟩
  · intro N w _; simp only [V3.smul]; ring
  · intro N w _; simp only [V3.smul]; ring
  · intro N w _; simp only [V3.smul]; ring

/-! ## world-space and canonical-axis wrappers: `TriMesh::split`, `TriMesh::canonical_split` -/

/-- **C17 (`TriMesh::split`, wrapper = local ∘ plane transfer)**: the world-space split never panics on a valid mesh, and when it
returns `Pair(l, r)` (vertices in the mesh's local frame, as coded) the *placed* vertices `position * p` of `l` / `r` are within
`eps` of the negative / positive side of the requested world plane `(axis, bias)` — for every pose, unit quaternion or not —
and the halves conserve every positively homogeneous functional of the vector area of the (local) triangles. -/
theorem split_world_pair (verts : List (V3 K)) (tris : List Tri) (pos : Iso3 K) (n : V3 K) (bias eps : K) (he : 0 ≤ eps) :
    letI := fieldNum K sq
    (validMesh verts.length tris = true → (splitUncapped verts tris pos n bias eps).isSome = true) ∧
    ∀ vl vr il ir, splitUncapped verts tris pos n bias eps = some (.pair (vl, il) (vr, ir)) →
      (∀ p ∈ vl, (pos.act p).dot n - bias ≤ eps) ∧ (∀ p ∈ vr, -eps ≤ (pos.act p).dot n - bias) ∧
      ∀ g : V3 K → K, Homog g →
        (il.map fun t => g (triNT (C17.pos vl.toArray t))).sum + (ir.map fun t => g (triNT (C17.pos vr.toArray t))).sum =
          (tris.map fun t => g (triNT (C17.pos verts.toArray t))).sum := by
  letI : Num K := fieldNum K sq
  refine ⟨fun hv => local_split_never_panics sq verts tris _ _ eps he hv, ?_⟩
  intro vl vr il ir hres
  obtain ⟨h1, h2, _, _, h5⟩ := local_split_pair_conserves sq verts tris _ _ eps he vl vr il ir hres
  refine ⟨fun p hp => ?_, fun p hp => ?_, h5⟩
  · rw [← plane_to_local_signed_distance sq pos n bias p]; exact h1 p hp
  · rw [← plane_to_local_signed_distance sq pos n bias p]; exact h2 p hp

/-- **C17 (`TriMesh::canonical_split`)**: same for the canonical axes, on the coordinate `p[axis]`. -/
theorem canonical_split_pair (verts : List (V3 K)) (tris : List Tri) (i : Fin 3) (bias eps : K) (he : 0 ≤ eps) :
    letI := fieldNum K sq
    (validMesh verts.length tris = true → (canonicalSplitUncapped verts tris i bias eps).isSome = true) ∧
    ∀ vl vr il ir, canonicalSplitUncapped verts tris i bias eps = some (.pair (vl, il) (vr, ir)) →
      (∀ p ∈ vl, p.get i.val - bias ≤ eps) ∧ (∀ p ∈ vr, -eps ≤ p.get i.val - bias) ∧
      ∀ g : V3 K → K, Homog g →
        (il.map fun t => g (triNT (C17.pos vl.toArray t))).sum + (ir.map fun t => g (triNT (C17.pos vr.toArray t))).sum =
          (tris.map fun t => g (triNT (C17.pos verts.toArray t))).sum := by
  letI : Num K := fieldNum K sq
  refine ⟨fun hv => local_split_never_panics sq verts tris _ _ eps he hv, ?_⟩
  intro vl vr il ir hres
  obtain ⟨h1, h2, _, _, h5⟩ := local_split_pair_conserves sq verts tris _ _ eps he vl vr il ir hres
  refine ⟨fun p hp => ?_, fun p hp => ?_, h5⟩
  · rw [← (ith_axis_dot sq i p).1]; exact h1 p hp
  · rw [← (ith_axis_dot sq i p).1]; exact h2 p hp

/-- non-vacuity: a two-triangle open sheet cut through two edges of each triangle (one crossing point shared through the
`SortedPair` table): `Pair` with 5 + 5 vertices and 3 + 3 triangles (model evaluated over `ℚ`). -/
example : (match (localSplitUncapped (K := Rat) [⟨0, 0, 0⟩, ⟨2, 0, 0⟩, ⟨2, 2, 0⟩, ⟨0, 2, 0⟩] [(0, 1, 2), (0, 2, 3)] ⟨1, 0, 0⟩ 1 0) with
  | some (.pair l r) => (l.1.length, l.2.length, r.1.length, r.2.length) | _ => (0, 0, 0, 0)) = (5, 3, 5, 3) := by decide +kernel
/-- … and with a vertex on the plane (1+1 case for the second triangle) -/
example : (match (localSplitUncapped (K := Rat) [⟨0, 0, 0⟩, ⟨2, 0, 0⟩, ⟨2, 2, 0⟩, ⟨1, 3, 0⟩] [(0, 1, 2), (0, 2, 3)] ⟨1, 0, 0⟩ 1 0) with
  | some (.pair l r) => (l.1.length, l.2.length, r.1.length, r.2.length) | _ => (0, 0, 0, 0)) = (4, 2, 5, 3) := by decide +kernel

end C17
