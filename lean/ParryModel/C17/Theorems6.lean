import ParryModel.C17.CutLemmas
import ParryModel.C17.Theorems2
/-!
# C17 property theorems, part 6: `TriMesh::intersection_with_local_plane` — the section polyline lies in the plane

Model: `Model.Section.localSection` (CutModel.lean), bit-exact against the real routine including the orientation walk (`tm_section_m`).
-/
namespace C17
open Model Model.Cut

set_option linter.unusedSectionVars false
set_option linter.unusedTactic false
set_option linter.unreachableTactic false
set_option linter.style.haveILetI false
set_option linter.unusedVariables false

variable {K : Type} [Field K] [LinearOrder K] [IsStrictOrderedRing K] (sq : K → K)

/-- for the section routine: a `Vertex(i)` feature names a vertex of colour 0 -/
def VertexOK (c : Nat → Nat) : Feat × Feat → Prop
  | (Feat.vertex i, Feat.vertex j) => c i = 0 ∧ c j = 0 ∧ i < 3 ∧ j < 3
  | _ => True
instance (c : Nat → Nat) (r : Feat × Feat) : Decidable (VertexOK c r) := by
  unfold VertexOK; split <;> infer_instance
private theorem vertex_table : ∀ c0 c1 c2 : Fin 3,
    VertexOK (Tri.get (c0.val, c1.val, c2.val)) (classify (Tri.get (c0.val, c1.val, c2.val)) (0, 1, 2)) := by
  decide

/-- every vertex of the section is within `eps` of the plane -/
def AllP {K : Type} (P : V3 K → Prop) (V : Array (V3 K)) : Prop := ∀ p ∈ V.toList, P p

private theorem colour0_near (n : V3 K) (bias eps : K) (p : V3 K)
    (h : letI := fieldNum K sq; vertexColour n bias eps p = 0) :
    letI := fieldNum K sq
    (-eps ≤ sdist n bias p ∧ sdist n bias p ≤ eps) := by
  letI : Num K := fieldNum K sq
  simp only [vertexColour, sdist] at h ⊢
  split_ifs at h with h1 h2
  exact ⟨not_lt.mp h1, not_lt.mp h2⟩

private theorem onplane_existing (P : V3 K → Prop) (V0 : Array (V3 K)) (st : Section.State K) (id : Nat)
    (hI : AllP P st.verts)
    (hc : letI := fieldNum K sq; P (V0.getD id V3.zero)) :
    letI := fieldNum K sq
    AllP P (Section.existingVertex V0 st id).1.verts := by
  letI : Num K := fieldNum K sq
  simp only [Section.existingVertex]
  cases st.existing.lookup id with
  | some k => exact hI
  | none =>
    intro p hp
    simp only [Array.toList_push, List.mem_append, List.mem_singleton] at hp
    rcases hp with hp | rfl
    · exact hI p hp
    · exact hc

private theorem onplane_isect (P : V3 K → Prop) (n : V3 K) (bias : K) (V0 : Array (V3 K)) (st : Section.State K) (a b : Nat)
    (hI : AllP P st.verts)
    (hab : letI := fieldNum K sq; P (crossing n bias (V0.getD a V3.zero) (V0.getD b V3.zero))) :
    letI := fieldNum K sq
    AllP P (Section.intersectEdge n bias V0 st a b).1.verts := by
  letI : Num K := fieldNum K sq
  simp only [Section.intersectEdge]
  cases st.found.lookup (sortedPair a b) with
  | some k => exact hI
  | none =>
    intro p hp
    simp only [Array.toList_push, List.mem_append, List.mem_singleton] at hp
    rcases hp with hp | rfl
    · exact hI p hp
    · exact hab

private theorem stepTri_onplane (P : V3 K → Prop) (n : V3 K) (bias eps : K) (V0 : Array (V3 K)) (colors : Array Nat)
    (st st' : Section.State K) (idx : Tri)
    (hc : letI := fieldNum K sq; ∀ k, colors.getD (idx.get k) 0 = vertexColour n bias eps (V0.getD (idx.get k) V3.zero))
    (hPv : letI := fieldNum K sq; ∀ k, vertexColour n bias eps (V0.getD (idx.get k) V3.zero) = 0 → P (V0.getD (idx.get k) V3.zero))
    (hPe : letI := fieldNum K sq; ∀ k, k < 3 →
      OppCol (vertexColour n bias eps (V0.getD (idx.get k) V3.zero)) (vertexColour n bias eps (V0.getD (idx.get ((k + 1) % 3)) V3.zero)) →
      P (crossing n bias (V0.getD (idx.get k) V3.zero) (V0.getD (idx.get ((k + 1) % 3)) V3.zero)))
    (hI : AllP P st.verts)
    (h : letI := fieldNum K sq; Section.stepTri n bias V0 colors st idx = some st') :
    letI := fieldNum K sq
    AllP P st'.verts := by
  letI : Num K := fieldNum K sq
  have hlt : ∀ k, colors.getD (idx.get k) 0 < 3 := fun k => by rw [hc]; exact vertexColour_lt sq _ _ _ _
  have h0 : colors.getD idx.1 0 < 3 := by simpa [Tri.get] using hlt 0
  have h1 : colors.getD idx.2.1 0 < 3 := by simpa [Tri.get] using hlt 1
  have h2 : colors.getD idx.2.2 0 < 3 := by simpa [Tri.get] using hlt 2
  have hcl := classify_pos (fun i => colors.getD i 0) idx
  have hOK := classify_table ⟨_, h0⟩ ⟨_, h1⟩ ⟨_, h2⟩
  have hV := vertex_table ⟨_, h0⟩ ⟨_, h1⟩ ⟨_, h2⟩
  simp only at hOK hV hcl
  rw [← hcl] at hOK hV
  have hget := get_col (fun i => colors.getD i 0) idx
  generalize Tri.get (colors.getD idx.1 0, colors.getD idx.2.1 0, colors.getD idx.2.2 0) = c at hOK hV hget
  simp only [Section.stepTri] at h
  generalize classify (fun i => colors.getD i 0) idx = r at hOK hV h
  rcases r with ⟨f0, f1⟩
  have vv : ∀ (i j : Nat), c i = 0 → c j = 0 →
      (Option.map (fun adj => ({ (Section.existingVertex V0 (Section.existingVertex V0 st (idx.get i)).1 (idx.get j)).1 with adj := adj } : Section.State K))
        (Section.addAdjSym (Section.existingVertex V0 (Section.existingVertex V0 st (idx.get i)).1 (idx.get j)).1.adj
          (Section.existingVertex V0 st (idx.get i)).2 (Section.existingVertex V0 (Section.existingVertex V0 st (idx.get i)).1 (idx.get j)).2)) = some st' →
      AllP P st'.verts := by
    intro i j ci cj hm
    have a1 := onplane_existing sq P V0 st (idx.get i) hI (hPv i (by rw [← hc, ← hget]; exact ci))
    have a2 := onplane_existing sq P V0 _ (idx.get j) a1 (hPv j (by rw [← hc, ← hget]; exact cj))
    rw [Option.map_eq_some_iff] at hm
    obtain ⟨adj, _, rfl⟩ := hm
    exact a2
  have ve : ∀ ie, ie < 3 → c ((ie + 2) % 3) = 0 → OppCol (c ie) (c ((ie + 1) % 3)) →
      (Option.map (fun adj => ({ (Section.existingVertex V0 (Section.intersectEdge n bias V0 st (idx.get ie) (idx.get ((ie + 1) % 3))).1 (idx.get ((ie + 2) % 3))).1 with adj := adj } : Section.State K))
        (Section.addAdjSym (Section.existingVertex V0 (Section.intersectEdge n bias V0 st (idx.get ie) (idx.get ((ie + 1) % 3))).1 (idx.get ((ie + 2) % 3))).1.adj
          (Section.existingVertex V0 (Section.intersectEdge n bias V0 st (idx.get ie) (idx.get ((ie + 1) % 3))).1 (idx.get ((ie + 2) % 3))).2
          (Section.intersectEdge n bias V0 st (idx.get ie) (idx.get ((ie + 1) % 3))).2)) = some st' →
      AllP P st'.verts := by
    intro ie hie3 cz hopp hm
    have a1 := onplane_isect sq P n bias V0 st (idx.get ie) (idx.get ((ie + 1) % 3)) hI
      (hPe ie (by assumption) (by rw [← hc, ← hc, ← hget, ← hget]; exact hopp))
    have a2 := onplane_existing sq P V0 _ (idx.get ((ie + 2) % 3)) a1 (hPv _ (by rw [← hc, ← hget]; exact cz))
    rw [Option.map_eq_some_iff] at hm
    obtain ⟨adj, _, rfl⟩ := hm
    exact a2
  cases f0 <;> cases f1 <;> simp only [ClassifyOK, VertexOK] at hOK hV
  · simp only [Option.some.injEq] at h; subst h; exact hI
  · simp only [Option.some.injEq] at h; subst h; exact hI
  · rename_i iv1 iv2
    exact vv iv1 iv2 hV.1 hV.2.1 h
  · rename_i iv ie
    obtain ⟨hiv, hie, hcz, hopp⟩ := hOK
    subst hiv
    simp only [ne_eq, not_true_eq_false, if_false] at h
    exact ve ie hie hcz hopp h
  · rename_i ie iv
    obtain ⟨hiv, hie, hcz, hopp⟩ := hOK
    subst hiv
    simp only [ne_eq, not_true_eq_false, if_false] at h
    exact ve ie hie hcz hopp h
  · rename_i e1 e2
    dsimp only at h
    generalize (if e2 ≠ (e1 + 1) % 3 then e1 else e2) = e at hOK h
    obtain ⟨hie, hca, hab, _⟩ := hOK
    have hmod : ((e + 2) % 3 + 1) % 3 = e := by omega
    have hpe1 := hPe ((e + 2) % 3) (by omega)
    rw [hmod] at hpe1
    have a1 := onplane_isect sq P n bias V0 st (idx.get ((e + 2) % 3)) (idx.get e) hI (hpe1 (by rw [← hc, ← hc, ← hget, ← hget]; exact hca))
    have a2 := onplane_isect sq P n bias V0 _ (idx.get e) (idx.get ((e + 1) % 3)) a1 (hPe e hie (by rw [← hc, ← hc, ← hget, ← hget]; exact hab))
    rw [Option.map_eq_some_iff] at h
    obtain ⟨adj, _, rfl⟩ := h
    exact a2


private theorem stepLoop_onplane (P : V3 K → Prop) (n : V3 K) (bias eps : K) (V0 : Array (V3 K)) (colors : Array Nat) (tris : List Tri)
    (hc : letI := fieldNum K sq; ∀ t ∈ tris, ∀ k, colors.getD (t.get k) 0 = vertexColour n bias eps (V0.getD (t.get k) V3.zero))
    (hPv : letI := fieldNum K sq; ∀ t ∈ tris, ∀ k, vertexColour n bias eps (V0.getD (t.get k) V3.zero) = 0 → P (V0.getD (t.get k) V3.zero))
    (hPe : letI := fieldNum K sq; ∀ t ∈ tris, ∀ k, k < 3 →
      OppCol (vertexColour n bias eps (V0.getD (t.get k) V3.zero)) (vertexColour n bias eps (V0.getD (t.get ((k + 1) % 3)) V3.zero)) →
      P (crossing n bias (V0.getD (t.get k) V3.zero) (V0.getD (t.get ((k + 1) % 3)) V3.zero))) :
    letI := fieldNum K sq
    ∀ (st st' : Section.State K), AllP P st.verts → Section.stepLoop n bias V0 colors st tris = some st' →
      AllP P st'.verts := by
  letI : Num K := fieldNum K sq
  induction tris with
  | nil => intro st st' hI h; simp only [Section.stepLoop, Option.some.injEq] at h; subst h; exact hI
  | cons t rest ih =>
    intro st st' hI h
    simp only [Section.stepLoop] at h
    cases h1 : Section.stepTri n bias V0 colors st t with
    | none => rw [h1] at h; simp at h
    | some st1 =>
      rw [h1] at h
      exact ih (fun x hx => hc x (by simp [hx])) (fun x hx => hPv x (by simp [hx])) (fun x hx => hPe x (by simp [hx])) st1 st'
        (stepTri_onplane sq P n bias eps V0 colors st st1 t (hc t (by simp)) (hPv t (by simp)) (hPe t (by simp)) hI h1) h

/-- a point of the mesh skeleton: a vertex of a triangle, or a point strictly inside an edge of a triangle -/
def OnMeshEdge {K : Type} [Num K] (V0 : Array (V3 K)) (tris : List Tri) (p : V3 K) : Prop :=
  (∃ t ∈ tris, ∃ k, p = V0.getD (t.get k) V3.zero) ∨
  (∃ t ∈ tris, ∃ k, k < 3 ∧ ∃ s : K, 0 < s ∧ s < 1 ∧
    p = (V0.getD (t.get k) V3.zero).add (((V0.getD (t.get ((k + 1) % 3)) V3.zero).sub (V0.getD (t.get k) V3.zero)).smul s))

/-- **C17 (plane section, vertices in the plane and on the mesh)**: when `intersection_with_local_plane` returns
`Intersect(polyline)`, every vertex of the polyline (1) is within `eps` of the cutting plane and (2) lies on the mesh: it is a
mesh vertex of colour 0 (`|n·v - bias| ≤ eps`) of some triangle, or the crossing point of an edge of some triangle whose end points
are beyond `eps` on opposite sides — that point lies *exactly* on the plane and strictly inside the edge.
Any mesh with valid indices, any plane, `eps ≥ 0`. -/
theorem section_vertices_in_plane (verts : List (V3 K)) (tris : List Tri) (n : V3 K) (bias eps : K) (he : 0 ≤ eps)
    (vs : List (V3 K)) (segs : List (Nat × Nat))
    (h : letI := fieldNum K sq; Section.localSection verts tris n bias eps = some (.intersect vs segs)) :
    letI := fieldNum K sq
    ∀ p ∈ vs, (-eps ≤ sdist n bias p ∧ sdist n bias p ≤ eps) ∧ OnMeshEdge verts.toArray tris p := by
  letI : Num K := fieldNum K sq
  simp only [Section.localSection] at h
  by_cases hv : validMesh verts.length tris = true
  · simp only [hv, Bool.not_true, Bool.false_eq_true, if_false] at h
    have hin : ∀ t ∈ tris, InRange verts.length t := by
      intro t ht
      simp only [validMesh, List.all_eq_true, Bool.and_eq_true, decide_eq_true_eq] at hv
      obtain ⟨⟨a, b⟩, c⟩ := hv t ht
      exact ⟨a, b, c⟩
    have hc : ∀ t ∈ tris, ∀ k, (verts.map (vertexColour n bias eps)).toArray.getD (t.get k) 0 =
        vertexColour n bias eps (verts.toArray.getD (t.get k) V3.zero) := by
      intro t ht k
      have hk : t.get k < verts.length := get_lt t _ k (hin t ht)
      simp [Array.getD_eq_getD_getElem?, List.getElem?_map, List.getElem?_eq_getElem hk]
    cases hm : meshVerdict verts n bias eps with
    | negative => rw [hm] at h; simp at h
    | positive => rw [hm] at h; simp at h
    | pair _ _ =>
      rw [hm] at h
      simp only at h
      cases hs : Section.stepLoop n bias verts.toArray (verts.map (vertexColour n bias eps)).toArray ⟨#[], [], [], #[]⟩ tris with
      | none => rw [hs] at h; simp at h
      | some st =>
        rw [hs] at h
        simp only [Option.some.injEq, Section.Result.intersect.injEq] at h
        obtain ⟨rfl, _⟩ := h
        refine stepLoop_onplane sq (fun p => (-eps ≤ sdist n bias p ∧ sdist n bias p ≤ eps) ∧ OnMeshEdge verts.toArray tris p)
          n bias eps _ _ tris hc ?_ ?_ _ st (by intro p hp; simp at hp) hs
        · intro t ht k hk0
          exact ⟨colour0_near sq n bias eps _ hk0, Or.inl ⟨t, ht, k, rfl⟩⟩
        · intro t ht k hk hopp
          obtain ⟨s, s0, s1, hcr, hpl⟩ := crossing_on_plane_and_edge sq n bias eps _ _ he (oppcol_sdist sq n bias eps he _ _ hopp)
          exact ⟨by rw [hpl]; exact ⟨by linarith, he⟩, Or.inr ⟨t, ht, k, hk, s, s0, s1, hcr⟩⟩
  · simp [hv] at h

/-- **C17 (`TriMesh::intersection_with_plane` / `canonical_intersection_with_plane`, wrapper = local ∘ plane transfer)**: the
polyline of the world-space section (expressed in the mesh's local frame, as coded) has every *placed* vertex `position * p` within
`eps` of the requested world plane, for every pose (unit quaternion or not); for the canonical axes every vertex has
`|p[axis] - bias| ≤ eps`. Both lie on the mesh. -/
theorem section_world_in_plane (verts : List (V3 K)) (tris : List Tri) (pos : Iso3 K) (n : V3 K) (i : Fin 3) (bias eps : K) (he : 0 ≤ eps)
    (vs : List (V3 K)) (segs : List (Nat × Nat)) :
    letI := fieldNum K sq
    (Section.sectionPos verts tris pos n bias eps = some (.intersect vs segs) →
      ∀ p ∈ vs, (-eps ≤ (pos.act p).dot n - bias ∧ (pos.act p).dot n - bias ≤ eps) ∧ OnMeshEdge verts.toArray tris p) ∧
    (Section.sectionCanonical verts tris i bias eps = some (.intersect vs segs) →
      ∀ p ∈ vs, (-eps ≤ p.get i.val - bias ∧ p.get i.val - bias ≤ eps) ∧ OnMeshEdge verts.toArray tris p) := by
  letI : Num K := fieldNum K sq
  constructor
  · intro h p hp
    have := section_vertices_in_plane sq verts tris _ _ eps he vs segs h p hp
    have e := plane_to_local_signed_distance sq pos n bias p
    simp only [sdist] at this
    rw [← e]; exact this
  · intro h p hp
    have := section_vertices_in_plane sq verts tris _ _ eps he vs segs h p hp
    have e := (ith_axis_dot sq i p).1
    simp only [sdist] at this
    rw [← e]; exact this

end C17
