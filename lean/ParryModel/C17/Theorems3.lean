import ParryModel.Field
import ParryModel.C17.CutModel
/-!
# C17 property theorems, part 3: the cutting part of `TriMesh::local_split`

Clause: "Splitting a TriMesh by a plane yields pieces that lie in their own closed half-space (within epsilon) and whose total
surface area equals the original's".  The model is `Model.Cut` (CutModel.lean), bit-exact against the real `local_split` on meshes
without caps (`tm_cut`).

Area is stated through the *vector area* `triN a b c = (b-a)×(c-a)` (twice the area times the unit normal): a piece `p` of a
triangle `T` satisfies `triN p = λ_p • triN T` with `λ_p ≥ 0` and `Σ λ_p = 1`; since the norm is positively homogeneous this is
area conservation `Σ area p = area T` *and* says that every piece lies in the plane of `T` with the orientation of `T`
(`pieces_area_of_weights` turns the weights into the statement on norms for any lawful square root).
-/
namespace C17
open Model Model.Cut

set_option linter.unusedSectionVars false
set_option linter.unusedTactic false
set_option linter.unreachableTactic false
set_option linter.style.haveILetI false
set_option linter.unusedVariables false

variable {K : Type} [Field K] [LinearOrder K] [IsStrictOrderedRing K] (sq : K → K)

/-- twice the vector area of the triangle `(a, b, c)`: `(b - a) × (c - a)` (= `Triangle::scaled_normal`) -/
def triN {K : Type} [Num K] (a b c : V3 K) : V3 K := (b.sub a).cross (c.sub a)

/-- signed distance to the cutting plane as the code computes it -/
def sdist {K : Type} [Num K] (n : V3 K) (bias : K) (p : V3 K) : K := p.dot n - bias

/-! ## the crossing point of `intersect_edge` -/

/-- **C17 (mesh cut, crossing points)**: when the end points of an edge have colours 1 and 2 (signed distances beyond `eps` on
opposite sides, either order) the point pushed by `intersect_edge` is `a + t (b - a)` with `0 < t < 1` (strictly inside the edge)
and lies exactly on the cutting plane. -/
theorem crossing_on_plane_and_edge (n : V3 K) (bias eps : K) (a b : V3 K) (he : 0 ≤ eps)
    (h : letI := fieldNum K sq
         (sdist n bias a < -eps ∧ eps < sdist n bias b) ∨ (eps < sdist n bias a ∧ sdist n bias b < -eps)) :
    letI := fieldNum K sq
    ∃ t : K, 0 < t ∧ t < 1 ∧ crossing n bias a b = a.add ((b.sub a).smul t) ∧ sdist n bias (crossing n bias a b) = 0 := by
  letI : Num K := fieldNum K sq
  refine ⟨sdist n bias a / (sdist n bias a - sdist n bias b), ?_, ?_, rfl, ?_⟩
  · rcases h with ⟨h1, h2⟩ | ⟨h1, h2⟩
    · exact div_pos_of_neg_of_neg (by linarith) (by linarith)
    · exact div_pos (by linarith) (by linarith)
  · rcases h with ⟨h1, h2⟩ | ⟨h1, h2⟩
    · rw [div_lt_one_of_neg (by linarith)]; linarith
    · rw [div_lt_one (by linarith)]; linarith
  · have hne : sdist n bias a - sdist n bias b ≠ 0 := by
      rcases h with ⟨h1, h2⟩ | ⟨h1, h2⟩
      · exact ne_of_lt (by linarith)
      · exact ne_of_gt (by linarith)
    have e : sdist n bias (crossing n bias a b) =
        sdist n bias a + (sdist n bias b - sdist n bias a) * (sdist n bias a / (sdist n bias a - sdist n bias b)) := by
      simp only [sdist, crossing, V3.dot, V3.add, V3.sub, V3.smul]
      ring
    rw [e]
    generalize sdist n bias a = da at hne ⊢
    generalize sdist n bias b = db at hne ⊢
    field_simp
    ring

/-- **C17 (mesh cut, shared crossing points)**: the crossing point does not depend on the direction in which the edge is visited
(`intersect_edge(a, b)` from one triangle, `intersect_edge(b, a)` from its neighbour): re-using the point found first — the
`HashMap<SortedPair, u32>` de-duplication — does not move any piece. -/
theorem crossing_symm (n : V3 K) (bias : K) (a b : V3 K)
    (h : letI := fieldNum K sq; sdist n bias a ≠ sdist n bias b) :
    letI := fieldNum K sq
    crossing n bias a b = crossing n bias b a := by
  letI : Num K := fieldNum K sq
  have h1 : sdist n bias a - sdist n bias b ≠ 0 := sub_ne_zero.mpr h
  have h2 : sdist n bias b - sdist n bias a ≠ 0 := sub_ne_zero.mpr (Ne.symm h)
  have key : sdist n bias b / (sdist n bias b - sdist n bias a) = 1 - sdist n bias a / (sdist n bias a - sdist n bias b) := by
    field_simp
    ring
  simp only [sdist] at key
  simp only [crossing, key, V3.add, V3.sub, V3.smul, V3.mk.injEq]
  refine ⟨?_, ?_, ?_⟩ <;> ring

/-! ## the two re-triangulations -/

/-- **C17 (mesh cut, 1+1 case, area)**: a triangle `(a, b, c)` whose vertex `c` is on the plane and whose edge `a b` is crossed at
`x = a + t (b - a)` is replaced by `[c, a, x]` and `[b, c, x]`; their vector areas are `t` and `1 - t` times the triangle's. -/
theorem cut_vertex_edge_area (a b c : V3 K) (t : K) :
    letI := fieldNum K sq
    let x := a.add ((b.sub a).smul t)
    triN c a x = (triN a b c).smul t ∧ triN b c x = (triN a b c).smul (1 - t) := by
  letI : Num K := fieldNum K sq
  simp only [triN, V3.cross, V3.add, V3.sub, V3.smul, V3.mk.injEq]
  refine ⟨⟨?_, ?_, ?_⟩, ⟨?_, ?_, ?_⟩⟩ <;> ring

/-- **C17 (mesh cut, 1+2 case, area)**: a triangle `(a, b, c)` whose edges `c a` and `a b` are crossed at `x1 = c + s (a - c)` and
`x2 = a + t (b - a)` is replaced by `[a, x2, x1]`, `[x2, b, c]`, `[x2, c, x1]`; their vector areas are `t (1 - s)`, `1 - t` and
`t s` times the triangle's (sum 1). -/
theorem cut_edge_edge_area (a b c : V3 K) (s t : K) :
    letI := fieldNum K sq
    let x1 := c.add ((a.sub c).smul s)
    let x2 := a.add ((b.sub a).smul t)
    triN a x2 x1 = (triN a b c).smul (t * (1 - s)) ∧ triN x2 b c = (triN a b c).smul (1 - t) ∧
      triN x2 c x1 = (triN a b c).smul (t * s) := by
  letI : Num K := fieldNum K sq
  simp only [triN, V3.cross, V3.add, V3.sub, V3.smul, V3.mk.injEq]
  refine ⟨⟨?_, ?_, ?_⟩, ⟨?_, ?_, ?_⟩, ⟨?_, ?_, ?_⟩⟩ <;> ring

/-- the vector area does not depend on which vertex the triangle is listed from -/
theorem triN_rotate (a b c : V3 K) :
    letI := fieldNum K sq
    triN b c a = triN a b c ∧ triN c a b = triN a b c := by
  letI : Num K := fieldNum K sq
  simp only [triN, V3.cross, V3.sub, V3.mk.injEq]
  refine ⟨⟨?_, ?_, ?_⟩, ⟨?_, ?_, ?_⟩⟩ <;> ring

/-- the norm is positively homogeneous (for any lawful square root): `|w • N| = w |N|` for `w ≥ 0` -/
theorem norm_smul_of_nonneg (hs : LawfulSqrt sq) (N : V3 K) (w : K) (hw0 : 0 ≤ w) :
    letI := fieldNum K sq
    (N.smul w).norm = w * N.norm := by
  letI : Num K := fieldNum K sq
  simp only [V3.norm, V3.normSq, V3.dot, V3.smul, fieldNum_sqrt]
  have e : N.x * w * (N.x * w) + N.y * w * (N.y * w) + N.z * w * (N.z * w) = w ^ 2 * (N.x * N.x + N.y * N.y + N.z * N.z) := by ring
  have hnn : 0 ≤ N.x * N.x + N.y * N.y + N.z * N.z := by nlinarith [mul_self_nonneg N.x, mul_self_nonneg N.y, mul_self_nonneg N.z]
  rw [e]
  have h1 := hs.nonneg (N.x * N.x + N.y * N.y + N.z * N.z) hnn
  have h2 := hs.sq_mul (N.x * N.x + N.y * N.y + N.z * N.z) hnn
  have h3 := hs.nonneg (w ^ 2 * (N.x * N.x + N.y * N.y + N.z * N.z)) (by positivity)
  have h4 := hs.sq_mul (w ^ 2 * (N.x * N.x + N.y * N.y + N.z * N.z)) (by positivity)
  nlinarith [mul_nonneg hw0 h1, mul_nonneg h3 (mul_nonneg hw0 h1)]

/-- **C17 (weights ⇒ areas)**: pieces whose vector areas are `λ_i • N` with `λ_i ≥ 0`, `Σ λ_i = 1` have areas `|λ_i • N| = λ_i |N|`
that add up to `|N|` (for any lawful square root): conservation of the scalar area. -/
theorem pieces_area_of_weights (hs : LawfulSqrt sq) (N : V3 K) (ws : List K) (hw : ∀ w ∈ ws, 0 ≤ w) (hsum : ws.sum = 1) :
    letI := fieldNum K sq
    (ws.map fun w => (N.smul w).norm).sum = N.norm := by
  letI : Num K := fieldNum K sq
  have : ∀ (l : List K), (∀ w ∈ l, 0 ≤ w) → (l.map fun w => (N.smul w).norm).sum = l.sum * N.norm := by
    intro l
    induction l with
    | nil => intro _; simp
    | cons w l ih =>
      intro h
      simp only [List.map_cons, List.sum_cons]
      rw [norm_smul_of_nonneg sq hs N w (h w (by simp)), ih (fun v hv => h v (by simp [hv]))]
      ring
  rw [this ws hw, hsum, one_mul]

end C17
