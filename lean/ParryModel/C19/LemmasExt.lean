import ParryModel.Field
import ParryModel.C19.Model
/-! helper lemmas shared by Theorems.lean and Theorems4.lean -/
namespace C19
open Model
variable {K : Type} [Field K] [LinearOrder K] [IsStrictOrderedRing K] (sq : K → K)

theorem neq_iff (a b : K) : letI := fieldNum K sq; neq a b = true ↔ a = b := by
  simp only [neq, Bool.and_eq_true, decide_eq_true_eq]
  exact ⟨fun h => le_antisymm h.1 h.2, fun h => ⟨h.le, h.ge⟩⟩

end C19
