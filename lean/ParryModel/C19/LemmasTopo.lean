import Mathlib.Data.List.Perm.Basic
import Mathlib.Data.List.Nodup
import Mathlib.Data.List.Count
import Mathlib.Data.List.Range
import Mathlib.Tactic.CasesM
import Mathlib.Tactic.Ring
import ParryModel.C19.ModelTopo
/-!
# C19 — vocabulary and generic list lemmas for the topological theorems (Theorems2.lean)

`edges T` is the list of *directed* edges of a face list: the face `(a, b, c)` contributes `(a, b), (b, c), (c, a)`.
`ClosedOriented T nv` says that `T` is, combinatorially, a closed consistently oriented surface on the vertices
`0..nv-1`: indices in range, no degenerate edge, every directed edge occurs exactly once (`Nodup`: no two faces
traverse an edge in the same direction — consistent orientation, at most two faces per edge) and the multiset of
directed edges is invariant under reversal (`Perm`: every edge has its opposite twin — no boundary).
-/
namespace C19
open Model.Topo

abbrev Edge := Nat × Nat

/-- the three directed edges of a face -/
def triEdges (t : Tri) : List Edge := [(t.1, t.2.1), (t.2.1, t.2.2), (t.2.2, t.1)]
/-- all directed edges of a face list, in face order -/
def edges (T : List Tri) : List Edge := T.flatMap triEdges

/-- closed, consistently oriented triangulated surface on the vertex set `0..nv-1` (combinatorial statement) -/
structure ClosedOriented (T : List Tri) (nv : Nat) : Prop where
  /-- (i) every index is a valid vertex -/
  index_lt : ∀ t ∈ T, t.1 < nv ∧ t.2.1 < nv ∧ t.2.2 < nv
  /-- no face has a repeated vertex -/
  nondegenerate : ∀ e ∈ edges T, e.1 ≠ e.2
  /-- (ii-a) every directed edge occurs exactly once -/
  nodup : (edges T).Nodup
  /-- (ii-b) the directed edges are, as a multiset, closed under reversal: every edge has exactly one opposite twin -/
  perm_swap : (edges T).Perm ((edges T).map Prod.swap)

/-- try to close a goal that is a disjunction of linear-arithmetic facts by proving one disjunct with `omega` -/
syntax "pick_omega" : tactic
macro_rules
  | `(tactic| pick_omega) => `(tactic| first | (left; omega) | (right; pick_omega) | omega)

theorem edges_nil : edges [] = [] := rfl
theorem edges_append (l₁ l₂ : List Tri) : edges (l₁ ++ l₂) = edges l₁ ++ edges l₂ := by
  simp [edges]
theorem edges_cons (t : Tri) (l : List Tri) : edges (t :: l) = triEdges t ++ edges l := by
  simp [edges]
theorem edges_flatMap_range (g : Nat → List Tri) (k : Nat) :
    edges ((List.range k).flatMap g) = (List.range k).flatMap fun i => edges (g i) := by
  simp [edges, List.flatMap_assoc]

theorem swap_inj : Function.Injective (Prod.swap : Edge → Edge) := by
  rintro ⟨a, b⟩ ⟨c, d⟩ h
  simp only [Prod.swap_prod_mk, Prod.mk.injEq] at h
  simp [h.1, h.2]

theorem nodup_flatMap_range {α : Type} (f : Nat → List α) (k : Nat)
    (h1 : ∀ i, i < k → (f i).Nodup)
    (h2 : ∀ i j, i < j → j < k → ∀ x, x ∈ f i → x ∈ f j → False) : ((List.range k).flatMap f).Nodup := by
  rw [List.nodup_flatMap]
  refine ⟨fun i hi => h1 i (List.mem_range.mp hi), ?_⟩
  refine (List.pairwise_lt_range (n := k)).imp_of_mem ?_
  intro i j _ hj hij
  simp only [Function.onFun, List.disjoint_left]
  intro x hx hy
  exact h2 i j hij (List.mem_range.mp hj) x hx hy

theorem nodup_append_of {α : Type} {l₁ l₂ : List α} (h1 : l₁.Nodup) (h2 : l₂.Nodup)
    (h3 : ∀ x, x ∈ l₁ → x ∈ l₂ → False) : (l₁ ++ l₂).Nodup := by
  rw [List.nodup_append]
  exact ⟨h1, h2, fun a ha b hb hab => h3 a ha (hab ▸ hb)⟩

/-- the workhorse: range of the first components, no loop edge, no duplicate, and a symmetric edge *set* give
`ClosedOriented` (the `Perm` follows from `Nodup` + symmetric membership). -/
theorem closedOriented_of {T : List Tri} {nv : Nat}
    (hlt : ∀ a b, (a, b) ∈ edges T → a < nv)
    (hne : ∀ a b, (a, b) ∈ edges T → a ≠ b)
    (hnd : (edges T).Nodup)
    (hsym : ∀ a b, (a, b) ∈ edges T → (b, a) ∈ edges T) : ClosedOriented T nv := by
  refine ⟨?_, ?_, hnd, ?_⟩
  · intro t ht
    have h : ∀ e ∈ triEdges t, e ∈ edges T := fun e he => List.mem_flatMap.mpr ⟨t, ht, he⟩
    refine ⟨hlt t.1 t.2.1 (h _ ?_), hlt t.2.1 t.2.2 (h _ ?_), hlt t.2.2 t.1 (h _ ?_)⟩ <;> simp [triEdges]
  · rintro ⟨a, b⟩ he; exact hne a b he
  · rw [List.perm_ext_iff_of_nodup hnd (hnd.map swap_inj)]
    rintro ⟨a, b⟩
    simp only [List.mem_map, Prod.exists, Prod.swap_prod_mk, Prod.mk.injEq]
    constructor
    · intro h; exact ⟨b, a, hsym a b h, rfl, rfl⟩
    · rintro ⟨x, y, h, rfl, rfl⟩; exact hsym _ _ h

/-- consequence used to read `ClosedOriented`: each directed edge occurs exactly once and so does its opposite -/
theorem ClosedOriented.count_eq_one {T : List Tri} {nv : Nat} (h : ClosedOriented T nv) {e : Edge} (he : e ∈ edges T) :
    (edges T).count e = 1 ∧ (edges T).count e.swap = 1 := by
  have h1 : (edges T).count e = 1 := List.count_eq_one_of_mem h.nodup he
  refine ⟨h1, ?_⟩
  have h2 := h.perm_swap.count_eq e.swap
  rw [List.count_map_of_injective _ _ swap_inj] at h2
  omega

/-! ## edge-set vocabulary -/

/-- `(a, b)` is an edge of the discretized circle `base .. base+n-1` traversed *backwards*:
`(base+i+1, base+i)` or the wrap-around `(base, base+n-1)` -/
def Bwd (base n a b : Nat) : Prop := (base ≤ b ∧ a = b + 1 ∧ a < base + n) ∨ (a = base ∧ b = base + n - 1)

/-- edges of a fan `push_degenerate_top_ring_indices(bc, pt, n)`: spokes up, spokes down, the circle backwards -/
def FanEdge (bc pt n a b : Nat) : Prop :=
  (bc ≤ a ∧ a < bc + n ∧ b = pt) ∨ (a = pt ∧ bc ≤ b ∧ b < bc + n) ∨ Bwd bc n a b

/-- edges of `push_filled_circle_indices(bc, n)`: diagonals from `bc` (both ways inside, one way at the two ends) and
the circle forwards -/
def FilledEdge (bc n a b : Nat) : Prop :=
  (a = bc ∧ bc + 1 ≤ b ∧ b + 1 < bc + n) ∨ (bc + 1 ≤ a ∧ a + 1 < bc + n ∧ b = a + 1) ∨
  (b = bc ∧ bc + 2 ≤ a ∧ a < bc + n)

/-- edges of `push_ring_indices(bl, bu, n)`: verticals down and up at every column, lower circle backwards, upper
circle forwards, diagonals up and down -/
def RingEdge (bl bu n a b : Nat) : Prop :=
  (bu ≤ a ∧ a < bu + n ∧ a + bl = b + bu) ∨
  (bl ≤ a ∧ a < bl + n ∧ a + bu = b + bl) ∨
  Bwd bl n a b ∨ Bwd bu n b a ∨
  ((bl ≤ a ∧ a + 1 < bl + n ∧ b + bl = a + bu + 1) ∨ (a = bl + n - 1 ∧ b = bu)) ∨
  ((bl ≤ b ∧ b + 1 < bl + n ∧ a + bl = b + bu + 1) ∨ (b = bl + n - 1 ∧ a = bu))

/-! ## which edges of each piece lack their twin (the oriented boundary of the piece) -/

/-- a ring is closed up to its two circles: the lower one is traversed backwards, the upper one forwards -/
theorem ringEdge_swap {bl bu n a b : Nat} (h : RingEdge bl bu n a b) :
    RingEdge bl bu n b a ∨ Bwd bl n a b ∨ Bwd bu n b a := by
  simp only [RingEdge, Bwd] at h ⊢
  rcases h with h | h | h | h | h | h
  · left; right; left; omega
  · left; left; omega
  · right; left; exact h
  · right; right; exact h
  · left; right; right; right; right; right; exact h
  · left; right; right; right; right; left; exact h
theorem ringEdge_of_bwd_lower {bl bu n a b : Nat} (h : Bwd bl n a b) : RingEdge bl bu n a b :=
  Or.inr (Or.inr (Or.inl h))
theorem ringEdge_of_fwd_upper {bl bu n a b : Nat} (h : Bwd bu n b a) : RingEdge bl bu n a b :=
  Or.inr (Or.inr (Or.inr (Or.inl h)))

/-- a fan is closed up to its circle, traversed backwards -/
theorem fanEdge_swap {bc pt n a b : Nat} (h : FanEdge bc pt n a b) : FanEdge bc pt n b a ∨ Bwd bc n a b := by
  simp only [FanEdge] at h ⊢
  rcases h with h | h | h
  · left; right; left; omega
  · left; left; omega
  · right; exact h
theorem fanEdge_of_bwd {bc pt n a b : Nat} (h : Bwd bc n a b) : FanEdge bc pt n a b := Or.inr (Or.inr h)

/-- a filled circle is closed up to its circle, traversed forwards -/
theorem filledEdge_swap {bc n a b : Nat} (h : FilledEdge bc n a b) : FilledEdge bc n b a ∨ Bwd bc n b a := by
  simp only [FilledEdge, Bwd] at h ⊢
  rcases h with h | h | h
  · by_cases h' : b = bc + 1
    · right; left; omega
    · left; right; right; omega
  · right; left; omega
  · by_cases h' : a = bc + n - 1
    · right; right; omega
    · left; left; omega
theorem filledEdge_of_fwd {bc n a b : Nat} (hn : 3 ≤ n) (h : Bwd bc n b a) : FilledEdge bc n a b := by
  simp only [FilledEdge, Bwd] at h ⊢
  rcases h with h | h
  · by_cases h' : a = bc
    · left; omega
    · right; left; omega
  · right; right; omega

/-- the vertices of a ring edge lie on its two circles -/
theorem ringEdge_bounds {bl bu n a b : Nat} (hn : 1 ≤ n) (h : RingEdge bl bu n a b) :
    ((bl ≤ a ∧ a < bl + n) ∨ (bu ≤ a ∧ a < bu + n)) ∧ ((bl ≤ b ∧ b < bl + n) ∨ (bu ≤ b ∧ b < bu + n)) := by
  simp only [RingEdge, Bwd] at h
  omega

/-! ## a stack of `k` rings on the circles `c, c+nt, …, c+k·nt` (the body of `unit_sphere` / `unit_hemisphere`) -/

def ringStack (c nt k : Nat) : List Tri :=
  (List.range k).flatMap fun i => ring (c + i * nt) (c + (i + 1) * nt) nt

def StackEdge (c nt k a b : Nat) : Prop := ∃ i, i < k ∧ RingEdge (c + i * nt) (c + (i + 1) * nt) nt a b

/-- a stack of rings is closed up to its lowest circle (backwards) and its highest circle (forwards) -/
theorem stackEdge_swap {c nt k a b : Nat} (h : StackEdge c nt k a b) :
    StackEdge c nt k b a ∨ Bwd c nt a b ∨ Bwd (c + k * nt) nt b a := by
  obtain ⟨i, hi, h⟩ := h
  rcases ringEdge_swap h with h | h | h
  · exact Or.inl ⟨i, hi, h⟩
  · rcases i with _ | j
    · right; left; simpa using h
    · left; exact ⟨j, by omega, ringEdge_of_fwd_upper h⟩
  · by_cases hk : i + 1 < k
    · left; exact ⟨i + 1, hk, ringEdge_of_bwd_lower h⟩
    · have : i + 1 = k := by omega
      subst this; right; right; exact h

theorem stackEdge_of_bwd {c nt k a b : Nat} (hk : 1 ≤ k) (h : Bwd c nt a b) : StackEdge c nt k a b :=
  ⟨0, hk, ringEdge_of_bwd_lower (by simpa using h)⟩

theorem stackEdge_of_fwd {c nt k a b : Nat} (hk : 1 ≤ k) (h : Bwd (c + k * nt) nt b a) : StackEdge c nt k a b := by
  obtain ⟨j, rfl⟩ : ∃ j, k = j + 1 := ⟨k - 1, by omega⟩
  exact ⟨j, by omega, ringEdge_of_fwd_upper h⟩

theorem stackEdge_bounds {c nt k a b : Nat} (hn : 2 ≤ nt) (h : StackEdge c nt k a b) :
    c ≤ a ∧ a < c + k * nt + nt ∧ c ≤ b ∧ b < c + k * nt + nt ∧ a ≠ b := by
  obtain ⟨i, hi, h⟩ := h
  have h1 : (i + 1) * nt ≤ k * nt := Nat.mul_le_mul_right nt hi
  simp only [Nat.add_mul, Nat.one_mul] at h h1
  simp only [RingEdge, Bwd] at h
  omega

/-- the only stack edges inside the lowest circle are that circle's backward edges -/
theorem stackEdge_low {c nt k a b : Nat} (h : StackEdge c nt k a b) (ha : a < c + nt) (hb : b < c + nt) :
    Bwd c nt a b := by
  obtain ⟨i, hi, h⟩ := h
  rcases i with _ | j
  · simp only [Nat.zero_mul, Nat.add_zero, Nat.zero_add, Nat.one_mul] at h
    simp only [RingEdge, Bwd] at h ⊢
    omega
  · simp only [Nat.add_mul, Nat.one_mul] at h
    simp only [RingEdge, Bwd] at h
    omega

/-- the only stack edges inside the highest circle are that circle's forward edges -/
theorem stackEdge_high {c nt k a b : Nat} (hn : 1 ≤ nt) (h : StackEdge c nt k a b) (ha : c + k * nt ≤ a) (hb : c + k * nt ≤ b) :
    Bwd (c + k * nt) nt b a := by
  obtain ⟨i, hi, h⟩ := h
  by_cases hk : i + 1 < k
  · have h1 : (i + 1 + 1) * nt ≤ k * nt := Nat.mul_le_mul_right nt hk
    simp only [Nat.add_mul, Nat.one_mul] at h h1
    simp only [RingEdge, Bwd] at h
    omega
  · have : k = i + 1 := by omega
    subst this
    simp only [Nat.add_mul, Nat.one_mul] at h ha hb ⊢
    simp only [RingEdge, Bwd] at h ⊢
    omega

/-! ## hemisphere: a stack of rings from the equator (circle `0`) closed by the polar fan -/

/-- edges of `unit_hemisphere(ntheta, p)`: a stack of `p - 1` rings from the equator (circle `0`) and the polar fan -/
def HemiEdge (nt p a b : Nat) : Prop :=
  StackEdge 0 nt (p - 1) a b ∨ FanEdge ((p - 1) * nt) ((p - 1) * nt + nt) nt a b

/-- the hemisphere is closed up to its equator, traversed backwards -/
theorem hemiEdge_swap {nt p a b : Nat} (h : HemiEdge nt p a b) : HemiEdge nt p b a ∨ Bwd 0 nt a b := by
  rcases h with h | h
  · rcases stackEdge_swap h with h | h | h
    · exact Or.inl (Or.inl h)
    · exact Or.inr h
    · left; right; exact fanEdge_of_bwd (by simpa using h)
  · rcases fanEdge_swap h with h | h
    · exact Or.inl (Or.inr h)
    · rcases hq : p - 1 with _ | q
      · rw [hq] at h; right; simpa using h
      · left; left; rw [hq] at h ⊢; exact stackEdge_of_fwd (by omega) (by simpa using h)

theorem hemiEdge_of_bwd {nt p a b : Nat} (h : Bwd 0 nt a b) : HemiEdge nt p a b := by
  rcases hq : p - 1 with _ | q
  · right; rw [hq]; exact fanEdge_of_bwd (by simpa using h)
  · left; rw [hq]; exact stackEdge_of_bwd (by omega) h

theorem hemiEdge_bounds {nt p a b : Nat} (hn : 3 ≤ nt) (h : HemiEdge nt p a b) :
    a < (p - 1) * nt + nt + 1 ∧ b < (p - 1) * nt + nt + 1 ∧ a ≠ b := by
  rcases h with h | h
  · have := stackEdge_bounds (by omega) h; omega
  · simp only [FanEdge, Bwd] at h; omega

/-- the only hemisphere edges inside the equator are the equator's backward edges -/
theorem hemiEdge_low {nt p a b : Nat} (h : HemiEdge nt p a b) (ha : a < nt) (hb : b < nt) : Bwd 0 nt a b := by
  rcases h with h | h
  · exact stackEdge_low h (by omega) (by omega)
  · rcases hq : p - 1 with _ | q
    · rw [hq] at h; simp only [FanEdge, Nat.zero_mul, Nat.zero_add] at h
      rcases h with h | h | h
      · omega
      · omega
      · exact h
    · rw [hq] at h; simp only [FanEdge, Bwd, Nat.add_mul, Nat.one_mul] at h; omega

end C19
