import ParryModel.Proto
import ParryModel.C19.ModelTopo
import ParryModel.C19.Model
import Std.Data.HashMap
/-! C19 protocol handlers for the index generators (`transformation/utils.rs`) and the index buffers of the
discretized primitives.  Model output: the list of faces, compared token for token with what the real code pushed.
Oracles: independent combinatorial judgements of the *implementation's* buffer (hash-map edge counts, Euler
characteristic, connectivity) — they never call the model functions. -/
namespace C19.TopoDriver
open Model Model.Topo Proto

abbrev Tri := Nat × Nat × Nat
abbrev Edge := Nat × Nat

def fmtTris (l : List Tri) : String :=
  l.foldl (fun s (a, b, c) => s ++ s!" {a} {b} {c}") s!"{l.length}"

def ptris : P (List Tri) := plist (do let a ← pnat; let b ← pnat; let c ← pnat; pure (a, b, c))

def edgesOf (tris : List Tri) : List Edge := tris.flatMap fun (a, b, c) => [(a, b), (b, c), (c, a)]

def edgeCounts (es : List Edge) : Std.HashMap Edge Nat :=
  es.foldl (fun m e => m.insert e (m.getD e 0 + 1)) {}

/-- no directed edge is used twice, no face is degenerate -/
def orientedNoDup (tris : List Tri) : Bool :=
  let es := edgesOf tris
  let m := edgeCounts es
  es.all fun (a, b) => a != b && m.getD (a, b) 0 == 1

/-- directed edges whose opposite is absent (the oriented boundary of the piece) -/
def boundaryEdges (tris : List Tri) : List Edge :=
  let es := edgesOf tris
  let m := edgeCounts es
  es.filter fun (a, b) => m.getD (b, a) 0 == 0

/-- closed + consistently oriented: every directed edge occurs exactly once and so does its reverse -/
def closedOriented (tris : List Tri) : Bool :=
  orientedNoDup tris && (boundaryEdges tris).isEmpty

/-- `es` is exactly the directed cycle `base+0 → base+1 → … → base+n-1 → base+0` (`fwd`) or its reversal -/
def isCycle (es : List Edge) (base n : Nat) (fwd : Bool) : Bool :=
  es.length == n &&
  (List.range n).all fun i =>
    let e : Edge := if fwd then (base + i, base + (i + 1) % n) else (base + (i + 1) % n, base + i)
    es.contains e

def inCircle (base n x : Nat) : Bool := base ≤ x && x < base + n

/-- number of connected components of the vertex set `0..nv-1` under the faces (naive label propagation) -/
def connected (nv : Nat) (tris : List Tri) : Bool :=
  let step (lab : Array Nat) : Array Nat :=
    tris.foldl (fun lab (a, b, c) =>
      let m := min (lab[a]?.getD 0) (min (lab[b]?.getD 0) (lab[c]?.getD 0))
      ((lab.setIfInBounds a m).setIfInBounds b m).setIfInBounds c m) lab
  let rec go (fuel : Nat) (lab : Array Nat) : Array Nat :=
    match fuel with
    | 0 => lab
    | f + 1 => let lab' := step lab; if lab' == lab then lab else go f lab'
  (go (nv + 2) (Array.range nv)).all (· == 0)

/-- closed oriented genus-0 surface on exactly the vertices `0..nv-1` -/
def sphereOracle (nv : Nat) (tris : List Tri) : String :=
  if tris.any (fun (a, b, c) => a ≥ nv || b ≥ nv || c ≥ nv) then "fail index-out-of-range" else
  if tris.isEmpty then "fail empty-mesh" else
  if !orientedNoDup tris then "fail directed-edge-used-twice-or-degenerate-face" else
  if !(boundaryEdges tris).isEmpty then "fail not-closed" else
  if !connected nv tris then "fail not-connected-or-unused-vertex" else
  -- Euler: V - E + F = 2 with 2E = 3F
  if 2 * nv != tris.length + 4 then s!"fail euler-characteristic V={nv} F={tris.length}" else "pass"

def meshIdxHandler (nverts : List Nat → Option Nat) (model : List Nat → Option (List Tri)) (valid : List Nat → Bool) : Handler := {
  model := fun a =>
    let xs := a.filterMap String.toNat?
    match nverts xs, model xs with
    | some nv, some t => some s!"{nv} {fmtTris t}"
    | _, _ => none
  oracle := fun a o =>
    let xs := a.filterMap String.toNat?
    if !valid xs then "skip subdivision-count-outside-the-domain" else
    match o with
    | "panic" :: _ => "fail panic"
    | _ => match run (do let nv ← pnat; let t ← ptris; pend; pure (nv, t)) o with
      | some (nv, t) => sphereOracle nv t
      | none => "fail unparsable-output" }

def genHandler (model : List Nat → Option (List Tri)) (oracle : List Nat → List Tri → String) : Handler := {
  model := fun a => (model (a.filterMap String.toNat?)).map fmtTris
  oracle := fun a o => match o with
    | "panic" :: _ => "fail panic"
    | _ => match run (do let t ← ptris; pend; pure t) o with
      | some t => oracle (a.filterMap String.toNat?) t
      | none => "fail unparsable-output" }

def disjointCircles (bl bu n : Nat) : Bool := bl + n ≤ bu || bu + n ≤ bl

def handler (fn : String) : Option Handler :=
  match fn with
  | "rect_idx" => some <| genHandler
      (fun | [ul, ur, dl, dr] => some (rectangle ul ur dl dr) | _ => none)
      (fun a t => match a with
        | [ul, ur, dl, dr] =>
          if !([ul, ur, dl, dr].eraseDups.length == 4) then "skip corners-not-distinct" else
          -- two counterclockwise triangles covering the quad ul → dl → dr → ur
          if t.length != 2 then "fail face-count" else
          if !orientedNoDup t then "fail directed-edge-used-twice" else
          let bd := boundaryEdges t
          if bd.length == 4 && [(ul, dl), (dl, dr), (dr, ur), (ur, ul)].all bd.contains then "pass" else "fail boundary-is-not-the-quad"
        | _ => "skip bad-args")
  | "open_ring_idx" => some <| genHandler
      (fun | [bl, bu, n] => some (openRing bl bu n) | _ => none)
      (fun a t => match a with
        | [bl, bu, n] =>
          if !disjointCircles bl bu n then "skip circles-overlap" else
          if t.length != 2 * (n - 1) then "fail face-count" else
          if t.any (fun (a, b, c) => [a, b, c].any fun x => !(inCircle bl n x || inCircle bu n x)) then "fail index-outside-circles" else
          if !orientedNoDup t then "fail directed-edge-used-twice" else
          -- boundary: the two open chains and the two end segments: 2(n-1)+2 edges (n ≥ 2)
          let bd := boundaryEdges t
          if n ≥ 2 && bd.length != 2 * (n - 1) + 2 then "fail boundary-size" else
          if (List.range (n - 1)).all (fun i => bd.contains (bl + i + 1, bl + i) && bd.contains (bu + i, bu + i + 1)) then "pass"
          else "fail boundary-chains"
        | _ => "skip bad-args")
  | "ring_idx" => some <| genHandler
      (fun | [bl, bu, n] => some (ring bl bu n) | _ => none)
      (fun a t => match a with
        | [bl, bu, n] =>
          if !disjointCircles bl bu n then "skip circles-overlap" else
          if n < 3 then "skip fewer-than-3-subdivisions" else
          if t.length != 2 * n then "fail face-count" else
          if t.any (fun (a, b, c) => [a, b, c].any fun x => !(inCircle bl n x || inCircle bu n x)) then "fail index-outside-circles" else
          if !orientedNoDup t then "fail directed-edge-used-twice" else
          let bd := boundaryEdges t
          let lo := bd.filter fun (x, _) => inCircle bl n x
          let up := bd.filter fun (x, _) => inCircle bu n x
          if bd.length != 2 * n then "fail boundary-size" else
          if isCycle lo bl n false && isCycle up bu n true then "pass" else "fail boundary-is-not-the-two-circles"
        | _ => "skip bad-args")
  | "deg_open_top_idx" => some <| genHandler
      (fun | [bc, pt, n] => some (degOpenTopRing bc pt n) | _ => none)
      (fun a t => match a with
        | [bc, pt, n] =>
          if inCircle bc n pt then "skip apex-on-circle" else
          if t.length != n - 1 then "fail face-count" else
          if !orientedNoDup t then "fail directed-edge-used-twice" else
          let bd := boundaryEdges t
          if (List.range (n - 1)).all (fun i => bd.contains (bc + i + 1, bc + i)) && (n < 2 || bd.length == n - 1 + 2) then "pass"
          else "fail boundary-chain"
        | _ => "skip bad-args")
  | "deg_top_idx" => some <| genHandler
      (fun | [bc, pt, n] => some (degTopRing bc pt n) | _ => none)
      (fun a t => match a with
        | [bc, pt, n] =>
          if inCircle bc n pt then "skip apex-on-circle" else
          if n < 3 then "skip fewer-than-3-subdivisions" else
          if t.length != n then "fail face-count" else
          if t.any (fun (a, b, c) => [a, b, c].any fun x => !(inCircle bc n x || x == pt)) then "fail index-outside-circle" else
          if !orientedNoDup t then "fail directed-edge-used-twice" else
          if isCycle (boundaryEdges t) bc n false then "pass" else "fail boundary-is-not-the-circle"
        | _ => "skip bad-args")
  | "filled_circle_idx" => some <| genHandler
      (fun | [bc, n] => some (filledCircle bc n) | _ => none)
      (fun a t => match a with
        | [bc, n] =>
          if n < 3 then (if t.isEmpty then "pass" else "fail faces-for-degenerate-circle") else
          if t.length != n - 2 then "fail face-count" else
          if t.any (fun (a, b, c) => [a, b, c].any fun x => !inCircle bc n x) then "fail index-outside-circle" else
          if !orientedNoDup t then "fail directed-edge-used-twice" else
          if isCycle (boundaryEdges t) bc n true then "pass" else "fail boundary-is-not-the-circle"
        | _ => "skip bad-args")
  | "reverse_cw_idx" => some {
      model := fun a => (run (do let t ← ptris; pend; pure t) a).map fun t => fmtTris (reverseClockwising t)
      oracle := fun a o => match run (do let t ← ptris; pend; pure t) a, run (do let t ← ptris; pend; pure t) o with
        | some t, some t' =>
          if t.length != t'.length then "fail face-count" else
          -- every face keeps its vertices and gets the opposite cyclic order
          if (t.zip t').all fun ((a, b, c), f) => f == (b, a, c) || f == (a, c, b) || f == (c, b, a) then "pass"
          else "fail face-not-reversed"
        | _, _ => "fail unparsable-output" }
  | "push_circle" => some {
      model := fun a => run (do
        let r ← pf; let n ← pnat; let dt ← pf; let y ← pf; let _full ← pbool
        let pts := pushCircle (fun θ => (Float.cos θ, Float.sin θ)) r n dt y
        pure (pts.foldl (fun s p => s ++ " " ++ fv3 p) s!"{pts.length}")) a
      oracle := fun a o => match run (do let r ← pf; let n ← pnat; let dt ← pf; let y ← pf; let full ← pbool; pure (r, n, dt, y, full)) a with
        | some (r, n, _dt, y, full) => (match o with
          | "panic" :: _ => "fail panic"
          | _ => match run (do let pts ← plist (do let x ← pfo; let y ← pfo; let z ← pfo; pure (⟨x, y, z⟩ : V3 Float)); pend; pure pts) o with
            | some pts =>
              if pts.length != n then "fail vertex-count" else
              if !(pts.all finite3) then "fail nonfinite-vertex" else
              let R := q r; let Y := q y
              let P0 := (pts.map q3).toArray
              let P : Nat → V3 Rat := fun i => P0[i]?.getD ⟨0, 0, 0⟩
              let near (a b : Rat) : Bool := rabs (a - b) ≤ (1 / 1000000000 : Rat) * (1 + rabs a + rabs b)
              -- every vertex on the circle of radius r at height y (the statement of `pushCircle_on_boundary`)
              if !(P0.all fun p => p.y == Y && near (p.x * p.x + p.z * p.z) (R * R)) then "fail vertex-off-circle" else
              if n == 0 then "pass" else
              -- first vertex at angle 0
              if !(near (P (0)).x R && near (P (0)).z 0) then "fail first-vertex-not-at-angle-0" else
              if n == 1 then "pass" else
              -- consecutive directions differ by one fixed rotation (c, s) = direction of vertex 1: the hypothesis of the
              -- outward-orientation theorems (Theorems3.lean)
              let c := (P (1)).x / R; let s := (P (1)).z / R
              let rotOk := (List.range (n - 1)).all fun i =>
                let u := P (i); let v := P (i + 1)
                near v.x (u.x * c - u.z * s) && near v.z (u.z * c + u.x * s)
              if !rotOk then "fail not-a-constant-rotation-step" else
              if !full then "pass" else
              -- dtheta = 2π/n: one full counterclockwise turn, closed by the same rotation, sin Δ > 0 for n ≥ 3
              let u := P (n - 1)
              if !(near R (u.x * c - u.z * s) && near 0 (u.z * c + u.x * s)) then "fail circle-not-closed" else
              if n ≥ 3 && !(s > 0) then "fail step-not-counterclockwise" else
              -- single winding: vertices 0 < i < n/2 lie strictly on the z > 0 side, n/2 < i < n on the z < 0 side
              let windOk := (List.range n).all fun i =>
                let z := (P (i)).z / R
                if 0 < i && 2 * i < n then z > 0 else if n < 2 * i then z < 0 else true
              if windOk then "pass" else "fail more-than-one-turn"
            | none => "fail unparsable-output")
        | none => "skip bad-args" }
  | "cone_indices" => some <| meshIdxHandler
      (fun | [n] => some (coneNumVertices n) | _ => none)
      (fun | [n] => some (coneIndices n) | _ => none)
      (fun | [n] => n ≥ 3 | _ => false)
  | "cyl_indices" => some <| meshIdxHandler
      (fun | [n] => some (cylinderNumVertices n) | _ => none)
      (fun | [n] => some (cylinderIndices n) | _ => none)
      (fun | [n] => n ≥ 3 | _ => false)
  | "ball_indices" => some <| meshIdxHandler
      (fun | [nt, np] => some (sphereNumVertices nt np) | _ => none)
      (fun | [nt, np] => some (sphereIndices nt np) | _ => none)
      (fun | [nt, np] => nt ≥ 3 && np ≥ 2 | _ => false)
  | "capsule_indices" => some <| meshIdxHandler
      (fun | [nt, np] => some (capsuleNumVertices nt np) | _ => none)
      (fun | [nt, np] => some (capsuleIndices nt np) | _ => none)
      (fun | [nt, np] => nt ≥ 3 && np ≥ 2 | _ => false)
  | _ => none

end C19.TopoDriver
