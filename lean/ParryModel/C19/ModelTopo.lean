/-!
# C19 topological model: the index generators of `src/transformation/utils.rs` and the index-buffer assembly of
`unit_cone`, `unit_cylinder`, `unit_sphere`, `unit_hemisphere`, `canonical_capsule` (src/transformation/to_trimesh/*.rs).

Import-free.  A triangle `[u32; 3]` is a triple of naturals; `&mut Vec<[u32; 3]>` → returned list (what is pushed).
`u32` arithmetic is modelled by `Nat` arithmetic (truncated subtraction): faithful as long as no intermediate value
reaches `2^32` and no subtraction underflows (the code would panic in debug builds); for the assembled meshes this holds
for every subdivision count `≥ 3` (resp. `ntheta ≥ 3, nphi ≥ 2`) whose vertex count is below `2^32`.
-/
namespace Model.Topo

abbrev Tri := Nat × Nat × Nat

/-- `push_rectangle_indices(ul, ur, dl, dr)` -/
def rectangle (ul ur dl dr : Nat) : List Tri := [(ul, dl, dr), (dr, ur, ul)]

/-- `push_open_ring_indices(base_lower_circle, base_upper_circle, nsubdiv)`: `for i in 0..nsubdiv - 1` -/
def openRing (bl bu n : Nat) : List Tri :=
  (List.range (n - 1)).flatMap fun i =>
    let bli := bl + i
    let bui := bu + i
    rectangle (bui + 1) bui (bli + 1) bli

/-- `push_ring_indices(base_lower_circle, base_upper_circle, nsubdiv)` -/
def ring (bl bu n : Nat) : List Tri :=
  openRing bl bu n ++ rectangle bu (bu + n - 1) bl (bl + n - 1)

/-- `push_degenerate_open_top_ring_indices(base_circle, point, nsubdiv)`: `for i in 0..nsubdiv - 1` -/
def degOpenTopRing (bc pt n : Nat) : List Tri :=
  (List.range (n - 1)).map fun i => (bc + i, pt, bc + i + 1)

/-- `push_degenerate_top_ring_indices(base_circle, point, nsubdiv)` -/
def degTopRing (bc pt n : Nat) : List Tri :=
  degOpenTopRing bc pt n ++ [(bc + n - 1, pt, bc)]

/-- `push_filled_circle_indices(base_circle, nsubdiv)`: `for i in base_circle + 1..base_circle + nsubdiv - 1` -/
def filledCircle (bc n : Nat) : List Tri :=
  (List.range (bc + n - 1 - (bc + 1))).map fun k =>
    let i := bc + 1 + k
    (bc, i, i + 1)

/-- `reverse_clockwising`: `idx.swap(0, 1)` on every face -/
def reverseClockwising (l : List Tri) : List Tri := l.map fun (a, b, c) => (b, a, c)

/-- index buffer of `unit_cone(nsubdiv)`; the vertex buffer has `nsubdiv + 1` entries (`coords.len() - 1 = nsubdiv`) -/
def coneIndices (n : Nat) : List Tri :=
  let coordsLen := n + 1
  degTopRing 0 (coordsLen - 1) n ++ filledCircle 0 n
def coneNumVertices (n : Nat) : Nat := n + 1

/-- index buffer of `unit_cylinder(nsubdiv)`: the last `nsubdiv - 2` faces are re-oriented in place -/
def cylinderIndices (n : Nat) : List Tri :=
  let indices := ring 0 n n ++ filledCircle 0 n ++ filledCircle n n
  let len := indices.length
  let bottomStartId := len - (n - 2)
  indices.take bottomStartId ++ reverseClockwising (indices.drop bottomStartId)
def cylinderNumVertices (n : Nat) : Nat := n + n

/-- number of vertices of `unit_sphere`: south pole, `nphi - 1` circles, north pole -/
def sphereNumVertices (ntheta nphi : Nat) : Nat := 1 + (nphi - 1) * ntheta + 1

/-- index buffer of `unit_sphere(ntheta_subdiv, nphi_subdiv)` -/
def sphereIndices (ntheta nphi : Nat) : List Tri :=
  let coordsLen := sphereNumVertices ntheta nphi
  reverseClockwising (degTopRing 1 0 ntheta)
  ++ ((List.range (nphi - 2)).flatMap fun i => ring (1 + i * ntheta) (1 + (i + 1) * ntheta) ntheta)
  ++ degTopRing (coordsLen - 1 - ntheta) (coordsLen - 1) ntheta

/-- number of vertices of `unit_hemisphere(ntheta, nphi)`: `nphi` circles and the pole -/
def hemisphereNumVertices (ntheta nphi : Nat) : Nat := nphi * ntheta + 1

/-- index buffer of `unit_hemisphere(ntheta_subdiv, nphi_subdiv)` -/
def hemisphereIndices (ntheta nphi : Nat) : List Tri :=
  let coordsLen := hemisphereNumVertices ntheta nphi
  ((List.range (nphi - 1)).flatMap fun i => ring (i * ntheta) ((i + 1) * ntheta) ntheta)
  ++ degTopRing ((nphi - 1) * ntheta) (coordsLen - 1) ntheta

/-- `idx[k] += base` on every face -/
def shiftIndices (base : Nat) (l : List Tri) : List Tri := l.map fun (a, b, c) => (a + base, b + base, c + base)

def capsuleNumVertices (ntheta nphi : Nat) : Nat := 2 * hemisphereNumVertices ntheta (nphi / 2)

/-- index buffer of `canonical_capsule(_, _, ntheta_subdiv, nphi_subdiv)` -/
def capsuleIndices (ntheta nphi : Nat) : List Tri :=
  let indices := hemisphereIndices ntheta (nphi / 2)
  let bottomIndices := reverseClockwising indices
  let baseTopCoords := hemisphereNumVertices ntheta (nphi / 2)
  let topIndices := shiftIndices baseTopCoords indices
  bottomIndices ++ topIndices ++ ring 0 baseTopCoords ntheta

end Model.Topo
