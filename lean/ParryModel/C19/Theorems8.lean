import ParryModel.Field
import ParryModel.C19.ModelHf2
/-!
# C19 theorems, part 8 (round fu5): `HeightField::map_elements_in_local_aabb` (2-D) on a scaled / mirrored field

`hf2_elemsInAabb_complete`: the corrected enumeration (query box divided by the scale, corners RE-ORDERED component-wise, clamped
floor / ceiling of the x range, height filter) reports every existing cell that has a point strictly between the x bounds and
within the y bounds of the query box — for every non-zero scale of ANY sign.  (The pinned tree skips the re-ordering; under a
negative factor its index range is empty: `fixes/C19-heightfield-elements-in-aabb-negative-scale.diff`.)
`hf2_elemsInAabb_sound`: every reported pair is an existing cell with its own segment.
-/
namespace C19
open Model

variable {K : Type} [Field K] [LinearOrder K] [IsStrictOrderedRing K] (sq : K → K)

private theorem lit_nat' (c : Nat) : @Model.lit K (fieldNum K sq) ((c : Nat) : Int) 1 = (c : K) := by
  rw [fieldNum_lit]; simp [Rat.mkRat_one]

private theorem div_between (l p h s : K) (hs : s ≠ 0) (h1 : l < p) (h2 : p < h) :
    min (l / s) (h / s) < p / s ∧ p / s < max (l / s) (h / s) := by
  simp only [div_eq_mul_inv]
  rcases lt_or_gt_of_ne hs with hneg | hpos
  · have hinv : s⁻¹ < 0 := inv_lt_zero.2 hneg
    exact ⟨lt_of_le_of_lt (min_le_right _ _) (mul_lt_mul_of_neg_right h2 hinv),
      lt_of_lt_of_le (mul_lt_mul_of_neg_right h1 hinv) (le_max_left _ _)⟩
  · have hinv : 0 < s⁻¹ := inv_pos.2 hpos
    exact ⟨lt_of_le_of_lt (min_le_left _ _) (mul_lt_mul_of_pos_right h1 hinv),
      lt_of_lt_of_le (mul_lt_mul_of_pos_right h2 hinv) (le_max_right _ _)⟩

private theorem div_between_le (l p h s : K) (hs : s ≠ 0) (h1 : l ≤ p) (h2 : p ≤ h) :
    min (l / s) (h / s) ≤ p / s ∧ p / s ≤ max (l / s) (h / s) := by
  simp only [div_eq_mul_inv]
  rcases lt_or_gt_of_ne hs with hneg | hpos
  · have hinv : s⁻¹ ≤ 0 := (inv_lt_zero.2 hneg).le
    exact ⟨le_trans (min_le_right _ _) (mul_le_mul_of_nonpos_right h2 hinv),
      le_trans (mul_le_mul_of_nonpos_right h1 hinv) (le_max_left _ _)⟩
  · have hinv : 0 ≤ s⁻¹ := (inv_pos.2 hpos).le
    exact ⟨le_trans (min_le_left _ _) (mul_le_mul_of_nonneg_right h1 hinv),
      le_trans (mul_le_mul_of_nonneg_right h2 hinv) (le_max_right _ _)⟩

private theorem convex_le_max (a b t : K) (h0 : 0 ≤ t) (h1 : t ≤ 1) : a + t * (b - a) ≤ max a b := by
  rcases le_total a b with h | h
  · rw [max_eq_right h]
    have := mul_le_mul_of_nonneg_right h1 (sub_nonneg.2 h)
    linarith
  · rw [max_eq_left h]
    have := mul_nonneg h0 (sub_nonneg.2 h)
    linarith

private theorem min_le_convex (a b t : K) (h0 : 0 ≤ t) (h1 : t ≤ 1) : min a b ≤ a + t * (b - a) := by
  rcases le_total a b with h | h
  · rw [min_eq_left h]
    have := mul_nonneg h0 (sub_nonneg.2 h)
    linarith
  · rw [min_eq_right h]
    have := mul_le_mul_of_nonneg_right h1 (sub_nonneg.2 h)
    linarith

private theorem filter_len_le (N i : Nat) (p : Nat → Bool) (hp : ∀ k, p k = true → 1 ≤ k ∧ k ≤ i) :
    ((List.range N).filter p).length ≤ i := by
  have hnd : ((List.range N).filter p).Nodup := List.Nodup.filter _ List.nodup_range
  have hsub : (List.range N).filter p ⊆ List.range' 1 i := by
    intro k hk
    rw [List.mem_filter] at hk
    have := hp k hk.2
    rw [List.mem_range']
    exact ⟨k - 1, by omega, by omega⟩
  have := (List.subperm_of_subset hnd hsub).length_le
  simpa using this

private theorem filter_len_gt (N i : Nat) (p : Nat → Bool) (hi : i < N) (hp : ∀ j, j ≤ i → p j = true) :
    i < ((List.range N).filter p).length := by
  have hsub : List.range (i + 1) ⊆ (List.range N).filter p := by
    intro k hk
    rw [List.mem_range] at hk
    rw [List.mem_filter, List.mem_range]
    exact ⟨by omega, hp k (by omega)⟩
  have := (List.subperm_of_subset List.nodup_range hsub).length_le
  simp at this
  omega

/-- **completeness of the corrected `map_elements_in_local_aabb` (2-D), every sign of the scale**: if cell `i` exists (in range, not
removed) and the point of parameter `t ∈ [0,1]` of its segment lies strictly between the x bounds and within the y bounds of the
query box, then `(i, segment i)` is handed to the callback.  At least two heights, non-zero scale components. -/
theorem hf2_elemsInAabb_complete (h : HeightField2 K) (lo hi : V2 K) (i : Nat) (g : Segment2 K) (t : K)
    (hn : 2 ≤ h.hs.size) (hsx : h.sc.x ≠ 0) (hsy : h.sc.y ≠ 0) (ht0 : 0 ≤ t) (ht1 : t ≤ 1) :
    letI := fieldNum K sq
    h.segmentAt i = some g →
    lo.x < g.a.x + t * (g.b.x - g.a.x) → g.a.x + t * (g.b.x - g.a.x) < hi.x →
    lo.y ≤ g.a.y + t * (g.b.y - g.a.y) → g.a.y + t * (g.b.y - g.a.y) ≤ hi.y →
    (i, g) ∈ Hf2S.elemsInAabb h lo hi := by
  letI := fieldNum K sq
  intro hg hx1 hx2 hy1 hy2
  have hg' := hg
  simp only [HeightField2.segmentAt] at hg'
  split_ifs at hg' with hc
  push Not at hc
  obtain ⟨hi1, _⟩ := hc
  simp only [Option.some.injEq] at hg'
  have hnK : (2 : K) ≤ (h.hs.size : K) := by exact_mod_cast hn
  have hw : (0 : K) < 1 / ((h.hs.size : K) - 1) := by
    have : (0 : K) < (h.hs.size : K) - 1 := by linarith
    positivity
  have hiN : ((i : K) + 1) ≤ (h.hs.size : K) - 1 := by
    have : i + 1 ≤ h.hs.size - 1 := by simp only [HeightField2.numCells] at hi1; omega
    have h2 : ((i + 1 : Nat) : K) ≤ ((h.hs.size - 1 : Nat) : K) := by exact_mod_cast this
    have h3 : ((h.hs.size - 1 : Nat) : K) = (h.hs.size : K) - 1 := by
      rw [Nat.cast_sub (by omega)]; simp
    rw [h3] at h2; push_cast at h2; exact h2
  -- the point in the unscaled frame
  have hlit : @Model.lit K (fieldNum K sq) 1 2 = (1 / 2 : K) := by rw [fieldNum_lit]; norm_num
  obtain ⟨w, hwdef⟩ : ∃ w : K, w = 1 / ((h.hs.size : K) - 1) := ⟨_, rfl⟩
  rw [← hwdef] at hw
  have hga : g.a.x = (-(1 / 2 : K) + w * (i : K)) * h.sc.x := by
    rw [← hg']; simp only [HeightField2.ucw, lit_nat', hlit, ← hwdef]
  have hgb : g.b.x = (-(1 / 2 : K) + w * (i : K) + w) * h.sc.x := by
    rw [← hg']; simp only [HeightField2.ucw, lit_nat', hlit, ← hwdef]
  have hgay : g.a.y = h.hs.getD i 0 * h.sc.y := by rw [← hg']
  have hgby : g.b.y = h.hs.getD (i + 1) 0 * h.sc.y := by rw [← hg']
  set u : K := -(1 / 2 : K) + w * ((i : K) + t) with hu
  have hpx : g.a.x + t * (g.b.x - g.a.x) = u * h.sc.x := by rw [hga, hgb, hu]; ring
  set v : K := h.hs.getD i 0 + t * (h.hs.getD (i + 1) 0 - h.hs.getD i 0) with hv
  have hpy : g.a.y + t * (g.b.y - g.a.y) = v * h.sc.y := by rw [hgay, hgby, hv]; ring
  rw [hpx] at hx1 hx2; rw [hpy] at hy1 hy2
  have bx := div_between lo.x (u * h.sc.x) hi.x h.sc.x hsx hx1 hx2
  have by' := div_between_le lo.y (v * h.sc.y) hi.y h.sc.y hsy hy1 hy2
  rw [mul_div_cancel_right₀ _ hsx] at bx
  rw [mul_div_cancel_right₀ _ hsy] at by'
  simp only [Hf2S.elemsInAabb, Hf2S.refBox, V2.inf, V2.sup, fieldNum_nmin, fieldNum_nmax]
  rw [hlit]
  have hu_lo : -(1 / 2 : K) ≤ u := by
    rw [hu]; have : 0 ≤ w * ((i : K) + t) := mul_nonneg hw.le (by positivity); linarith
  have hu_hi : u ≤ 1 / 2 := by
    rw [hu]
    have h1 : w * ((i : K) + t) ≤ w * ((h.hs.size : K) - 1) := mul_le_mul_of_nonneg_left (by linarith) hw.le
    have hne : (h.hs.size : K) - 1 ≠ 0 := ne_of_gt (by linarith)
    have h2 : w * ((h.hs.size : K) - 1) = 1 := by rw [hwdef, one_div, inv_mul_cancel₀ hne]
    linarith
  rw [if_neg (by push Not; exact ⟨by linarith [bx.2], by linarith [bx.1]⟩)]
  rw [List.mem_filterMap]
  refine ⟨i, ?_, ?_⟩
  · rw [List.mem_filter, List.mem_range]
    constructor
    · -- i < maxX
      apply filter_len_gt _ _ _ (by simp only [HeightField2.numCells] at hi1 ⊢; omega)
      intro j hj
      simp only [decide_eq_true_eq, lit_nat', HeightField2.ucw, hlit]
      rw [← hwdef, lt_div_iff₀ hw]
      have hjK : (j : K) ≤ (i : K) := by exact_mod_cast hj
      have : (j : K) * w ≤ w * ((i : K) + t) := by nlinarith
      linarith [bx.2]
    · -- minX ≤ i
      simp only [decide_eq_true_eq]
      apply filter_len_le
      intro k hk
      simp only [Bool.and_eq_true, decide_eq_true_eq, lit_nat', HeightField2.ucw, hlit] at hk
      refine ⟨hk.1, ?_⟩
      have h2 := hk.2
      rw [← hwdef, le_div_iff₀ hw] at h2
      have : (k : K) * w < w * ((i : K) + 1) := by nlinarith [bx.1]
      have h3 : (k : K) < (i : K) + 1 := by
        by_contra hcon; push Not at hcon
        have := mul_le_mul_of_nonneg_right hcon hw.le
        linarith
      have : k < i + 1 := by exact_mod_cast h3
      omega
  · rw [hg]
    simp only
    rw [if_neg]
    push Not
    constructor
    · intro h1
      by_contra h2; push Not at h2
      have h3 : max (lo.y / h.sc.y) (hi.y / h.sc.y) < min (h.hs.getD i 0) (h.hs.getD (i + 1) 0) := lt_min h1 h2
      have h4 := min_le_convex (h.hs.getD i 0) (h.hs.getD (i + 1) 0) t ht0 ht1
      rw [← hv] at h4
      linarith [by'.2]
    · intro h1
      by_contra h2; push Not at h2
      have h3 : max (h.hs.getD i 0) (h.hs.getD (i + 1) 0) < min (lo.y / h.sc.y) (hi.y / h.sc.y) := max_lt h1 h2
      have h4 := convex_le_max (h.hs.getD i 0) (h.hs.getD (i + 1) 0) t ht0 ht1
      rw [← hv] at h4
      linarith [by'.1]

/-- **soundness**: everything the enumeration reports is an existing cell together with its own segment -/
theorem hf2_elemsInAabb_sound (h : HeightField2 K) (lo hi : V2 K) (i : Nat) (g : Segment2 K) :
    letI := fieldNum K sq
    (i, g) ∈ Hf2S.elemsInAabb h lo hi → h.segmentAt i = some g := by
  letI := fieldNum K sq
  intro hm
  simp only [Hf2S.elemsInAabb] at hm
  split_ifs at hm with hc
  · simp at hm
  · rw [List.mem_filterMap] at hm
    obtain ⟨j, _, hj⟩ := hm
    rcases hs : @HeightField2.segmentAt K (fieldNum K sq) h j with _ | g'
    · rw [hs] at hj; simp at hj
    · rw [hs] at hj
      simp only at hj
      split_ifs at hj
      simp only [Option.some.injEq, Prod.mk.injEq] at hj
      obtain ⟨rfl, rfl⟩ := hj
      exact hs

/-- non-vacuity of the hypotheses of `hf2_elemsInAabb_complete`: heights (0, 1), scale (−2, 1) (mirrored): the only cell runs from
(1, 0) to (−1, 1); its middle (0, 1/2) is strictly inside the box [−1/2, 1/2] × [0, 1] -/
example : letI := fieldNum ℚ (fun x => x)
    (HeightField2.mk (K := ℚ) #[0, 1] ⟨-2, 1⟩ []).segmentAt 0 = some ⟨⟨1, 0⟩, ⟨-1, 1⟩⟩ ∧
    (-1 / 2 : ℚ) < 1 + 1 / 2 * (-1 - 1) ∧ (1 : ℚ) + 1 / 2 * (-1 - 1) < 1 / 2 := by
  letI := fieldNum ℚ (fun x => x)
  refine ⟨?_, by norm_num, by norm_num⟩
  simp [HeightField2.segmentAt, HeightField2.numCells, HeightField2.ucw, fieldNum_lit]
  norm_num

end C19
