import ParryModel.Field
import ParryModel.C19.ModelHf2
/-!
# C19 theorems, part 8 (round fu5): `HeightField::map_elements_in_local_aabb` (2-D) on a scaled / mirrored field

`hf2_elemsInAabb_complete`: the corrected enumeration (query box divided by the scale, corners RE-ORDERED component-wise, clamped
floor / ceiling of the x range, height filter) reports every existing cell that has a point strictly between the x bounds and
within the y bounds of the query box — for every non-zero scale of ANY sign.  (The pinned tree skips the re-ordering; under a
negative factor its index range is empty: `fixes/C19-heightfield-elements-in-aabb-negative-scale.diff`.)
`hf2_elemsInAabb_sound`: every reported pair is an existing cell with its own segment.
`hf2_elemsPinned_range_empty`: the pinned rule refuted in general (negative x scale, box over a vertex line: empty index range).
`quantizeFloor_spec`, `hf2_startCell_contains`: the clamped floor written as a count is the floor; the start cell of the 2-D ray cast
encloses the unscaled abscissa of the clip point, for every sign of the x scale.
-/
namespace C19
open Model

variable {K : Type} [Field K] [LinearOrder K] [IsStrictOrderedRing K] (sq : K → K)

private theorem lit_nat' (c : Nat) : @Model.lit K (fieldNum K sq) ((c : Nat) : Int) 1 = (c : K) := by
  rw [fieldNum_lit]; simp [Rat.mkRat_one]

private theorem div_between (l p h s : K) (hs : s ≠ 0) (h1 : l < p) (h2 : p < h) :
    min (l / s) (h / s) < p / s ∧ p / s < max (l / s) (h / s) := by
  simp only [div_eq_mul_inv]
  rcases lt_or_gt_of_ne hs with hneg | hpos
  · have hinv : s⁻¹ < 0 := inv_lt_zero.2 hneg
    exact ⟨lt_of_le_of_lt (min_le_right _ _) (mul_lt_mul_of_neg_right h2 hinv),
      lt_of_lt_of_le (mul_lt_mul_of_neg_right h1 hinv) (le_max_left _ _)⟩
  · have hinv : 0 < s⁻¹ := inv_pos.2 hpos
    exact ⟨lt_of_le_of_lt (min_le_left _ _) (mul_lt_mul_of_pos_right h1 hinv),
      lt_of_lt_of_le (mul_lt_mul_of_pos_right h2 hinv) (le_max_right _ _)⟩

private theorem div_between_le (l p h s : K) (hs : s ≠ 0) (h1 : l ≤ p) (h2 : p ≤ h) :
    min (l / s) (h / s) ≤ p / s ∧ p / s ≤ max (l / s) (h / s) := by
  simp only [div_eq_mul_inv]
  rcases lt_or_gt_of_ne hs with hneg | hpos
  · have hinv : s⁻¹ ≤ 0 := (inv_lt_zero.2 hneg).le
    exact ⟨le_trans (min_le_right _ _) (mul_le_mul_of_nonpos_right h2 hinv),
      le_trans (mul_le_mul_of_nonpos_right h1 hinv) (le_max_left _ _)⟩
  · have hinv : 0 ≤ s⁻¹ := (inv_pos.2 hpos).le
    exact ⟨le_trans (min_le_left _ _) (mul_le_mul_of_nonneg_right h1 hinv),
      le_trans (mul_le_mul_of_nonneg_right h2 hinv) (le_max_right _ _)⟩

private theorem convex_le_max (a b t : K) (h0 : 0 ≤ t) (h1 : t ≤ 1) : a + t * (b - a) ≤ max a b := by
  rcases le_total a b with h | h
  · rw [max_eq_right h]
    have := mul_le_mul_of_nonneg_right h1 (sub_nonneg.2 h)
    linarith
  · rw [max_eq_left h]
    have := mul_nonneg h0 (sub_nonneg.2 h)
    linarith

private theorem min_le_convex (a b t : K) (h0 : 0 ≤ t) (h1 : t ≤ 1) : min a b ≤ a + t * (b - a) := by
  rcases le_total a b with h | h
  · rw [min_eq_left h]
    have := mul_nonneg h0 (sub_nonneg.2 h)
    linarith
  · rw [min_eq_right h]
    have := mul_le_mul_of_nonneg_right h1 (sub_nonneg.2 h)
    linarith

private theorem filter_len_le (N i : Nat) (p : Nat → Bool) (hp : ∀ k, p k = true → 1 ≤ k ∧ k ≤ i) :
    ((List.range N).filter p).length ≤ i := by
  have hnd : ((List.range N).filter p).Nodup := List.Nodup.filter _ List.nodup_range
  have hsub : (List.range N).filter p ⊆ List.range' 1 i := by
    intro k hk
    rw [List.mem_filter] at hk
    have := hp k hk.2
    rw [List.mem_range']
    exact ⟨k - 1, by omega, by omega⟩
  have := (List.subperm_of_subset hnd hsub).length_le
  simpa using this

private theorem filter_len_gt (N i : Nat) (p : Nat → Bool) (hi : i < N) (hp : ∀ j, j ≤ i → p j = true) :
    i < ((List.range N).filter p).length := by
  have hsub : List.range (i + 1) ⊆ (List.range N).filter p := by
    intro k hk
    rw [List.mem_range] at hk
    rw [List.mem_filter, List.mem_range]
    exact ⟨by omega, hp k (by omega)⟩
  have := (List.subperm_of_subset List.nodup_range hsub).length_le
  simp at this
  omega

/-- **completeness of the corrected `map_elements_in_local_aabb` (2-D), every sign of the scale**: if cell `i` exists (in range, not
removed) and the point of parameter `t ∈ [0,1]` of its segment lies strictly between the x bounds and within the y bounds of the
query box, then `(i, segment i)` is handed to the callback.  At least two heights, non-zero scale components. -/
theorem hf2_elemsInAabb_complete (h : HeightField2 K) (lo hi : V2 K) (i : Nat) (g : Segment2 K) (t : K)
    (hn : 2 ≤ h.hs.size) (hsx : h.sc.x ≠ 0) (hsy : h.sc.y ≠ 0) (ht0 : 0 ≤ t) (ht1 : t ≤ 1) :
    letI := fieldNum K sq
    h.segmentAt i = some g →
    lo.x < g.a.x + t * (g.b.x - g.a.x) → g.a.x + t * (g.b.x - g.a.x) < hi.x →
    lo.y ≤ g.a.y + t * (g.b.y - g.a.y) → g.a.y + t * (g.b.y - g.a.y) ≤ hi.y →
    (i, g) ∈ Hf2S.elemsInAabb h lo hi := by
  letI := fieldNum K sq
  intro hg hx1 hx2 hy1 hy2
  have hg' := hg
  simp only [HeightField2.segmentAt] at hg'
  split_ifs at hg' with hc
  push Not at hc
  obtain ⟨hi1, _⟩ := hc
  simp only [Option.some.injEq] at hg'
  have hnK : (2 : K) ≤ (h.hs.size : K) := by exact_mod_cast hn
  have hw : (0 : K) < 1 / ((h.hs.size : K) - 1) := by
    have : (0 : K) < (h.hs.size : K) - 1 := by linarith
    positivity
  have hiN : ((i : K) + 1) ≤ (h.hs.size : K) - 1 := by
    have : i + 1 ≤ h.hs.size - 1 := by simp only [HeightField2.numCells] at hi1; omega
    have h2 : ((i + 1 : Nat) : K) ≤ ((h.hs.size - 1 : Nat) : K) := by exact_mod_cast this
    have h3 : ((h.hs.size - 1 : Nat) : K) = (h.hs.size : K) - 1 := by
      rw [Nat.cast_sub (by omega)]; simp
    rw [h3] at h2; push_cast at h2; exact h2
  -- the point in the unscaled frame
  have hlit : @Model.lit K (fieldNum K sq) 1 2 = (1 / 2 : K) := by rw [fieldNum_lit]; norm_num
  obtain ⟨w, hwdef⟩ : ∃ w : K, w = 1 / ((h.hs.size : K) - 1) := ⟨_, rfl⟩
  rw [← hwdef] at hw
  have hga : g.a.x = (-(1 / 2 : K) + w * (i : K)) * h.sc.x := by
    rw [← hg']; simp only [HeightField2.ucw, lit_nat', hlit, ← hwdef]
  have hgb : g.b.x = (-(1 / 2 : K) + w * (i : K) + w) * h.sc.x := by
    rw [← hg']; simp only [HeightField2.ucw, lit_nat', hlit, ← hwdef]
  have hgay : g.a.y = h.hs.getD i 0 * h.sc.y := by rw [← hg']
  have hgby : g.b.y = h.hs.getD (i + 1) 0 * h.sc.y := by rw [← hg']
  set u : K := -(1 / 2 : K) + w * ((i : K) + t) with hu
  have hpx : g.a.x + t * (g.b.x - g.a.x) = u * h.sc.x := by rw [hga, hgb, hu]; ring
  set v : K := h.hs.getD i 0 + t * (h.hs.getD (i + 1) 0 - h.hs.getD i 0) with hv
  have hpy : g.a.y + t * (g.b.y - g.a.y) = v * h.sc.y := by rw [hgay, hgby, hv]; ring
  rw [hpx] at hx1 hx2; rw [hpy] at hy1 hy2
  have bx := div_between lo.x (u * h.sc.x) hi.x h.sc.x hsx hx1 hx2
  have by' := div_between_le lo.y (v * h.sc.y) hi.y h.sc.y hsy hy1 hy2
  rw [mul_div_cancel_right₀ _ hsx] at bx
  rw [mul_div_cancel_right₀ _ hsy] at by'
  simp only [Hf2S.elemsInAabb, Hf2S.refBox, V2.inf, V2.sup, fieldNum_nmin, fieldNum_nmax]
  rw [hlit]
  have hu_lo : -(1 / 2 : K) ≤ u := by
    rw [hu]; have : 0 ≤ w * ((i : K) + t) := mul_nonneg hw.le (by positivity); linarith
  have hu_hi : u ≤ 1 / 2 := by
    rw [hu]
    have h1 : w * ((i : K) + t) ≤ w * ((h.hs.size : K) - 1) := mul_le_mul_of_nonneg_left (by linarith) hw.le
    have hne : (h.hs.size : K) - 1 ≠ 0 := ne_of_gt (by linarith)
    have h2 : w * ((h.hs.size : K) - 1) = 1 := by rw [hwdef, one_div, inv_mul_cancel₀ hne]
    linarith
  rw [if_neg (by push Not; exact ⟨by linarith [bx.2], by linarith [bx.1]⟩)]
  rw [List.mem_filterMap]
  refine ⟨i, ?_, ?_⟩
  · rw [List.mem_filter, List.mem_range]
    constructor
    · -- i < maxX
      apply filter_len_gt _ _ _ (by simp only [HeightField2.numCells] at hi1 ⊢; omega)
      intro j hj
      simp only [decide_eq_true_eq, lit_nat', HeightField2.ucw, hlit]
      rw [← hwdef, lt_div_iff₀ hw]
      have hjK : (j : K) ≤ (i : K) := by exact_mod_cast hj
      have : (j : K) * w ≤ w * ((i : K) + t) := by nlinarith
      linarith [bx.2]
    · -- minX ≤ i
      simp only [decide_eq_true_eq]
      apply filter_len_le
      intro k hk
      simp only [Bool.and_eq_true, decide_eq_true_eq, lit_nat', HeightField2.ucw, hlit] at hk
      refine ⟨hk.1, ?_⟩
      have h2 := hk.2
      rw [← hwdef, le_div_iff₀ hw] at h2
      have : (k : K) * w < w * ((i : K) + 1) := by nlinarith [bx.1]
      have h3 : (k : K) < (i : K) + 1 := by
        by_contra hcon; push Not at hcon
        have := mul_le_mul_of_nonneg_right hcon hw.le
        linarith
      have : k < i + 1 := by exact_mod_cast h3
      omega
  · rw [hg]
    simp only
    rw [if_neg]
    push Not
    constructor
    · intro h1
      by_contra h2; push Not at h2
      have h3 : max (lo.y / h.sc.y) (hi.y / h.sc.y) < min (h.hs.getD i 0) (h.hs.getD (i + 1) 0) := lt_min h1 h2
      have h4 := min_le_convex (h.hs.getD i 0) (h.hs.getD (i + 1) 0) t ht0 ht1
      rw [← hv] at h4
      linarith [by'.2]
    · intro h1
      by_contra h2; push Not at h2
      have h3 : max (h.hs.getD i 0) (h.hs.getD (i + 1) 0) < min (lo.y / h.sc.y) (hi.y / h.sc.y) := max_lt h1 h2
      have h4 := convex_le_max (h.hs.getD i 0) (h.hs.getD (i + 1) 0) t ht0 ht1
      rw [← hv] at h4
      linarith [by'.1]

/-- **soundness**: everything the enumeration reports is an existing cell together with its own segment -/
theorem hf2_elemsInAabb_sound (h : HeightField2 K) (lo hi : V2 K) (i : Nat) (g : Segment2 K) :
    letI := fieldNum K sq
    (i, g) ∈ Hf2S.elemsInAabb h lo hi → h.segmentAt i = some g := by
  letI := fieldNum K sq
  intro hm
  simp only [Hf2S.elemsInAabb] at hm
  split_ifs at hm with hc
  · simp at hm
  · rw [List.mem_filterMap] at hm
    obtain ⟨j, _, hj⟩ := hm
    rcases hs : @HeightField2.segmentAt K (fieldNum K sq) h j with _ | g'
    · rw [hs] at hj; simp at hj
    · rw [hs] at hj
      simp only at hj
      split_ifs at hj
      simp only [Option.some.injEq, Prod.mk.injEq] at hj
      obtain ⟨rfl, rfl⟩ := hj
      exact hs

/-- non-vacuity of the hypotheses of `hf2_elemsInAabb_complete`: heights (0, 1), scale (−2, 1) (mirrored): the only cell runs from
(1, 0) to (−1, 1); its middle (0, 1/2) is strictly inside the box [−1/2, 1/2] × [0, 1] -/
example : letI := fieldNum ℚ (fun x => x)
    (HeightField2.mk (K := ℚ) #[0, 1] ⟨-2, 1⟩ []).segmentAt 0 = some ⟨⟨1, 0⟩, ⟨-1, 1⟩⟩ ∧
    (-1 / 2 : ℚ) < 1 + 1 / 2 * (-1 - 1) ∧ (1 : ℚ) + 1 / 2 * (-1 - 1) < 1 / 2 := by
  letI := fieldNum ℚ (fun x => x)
  refine ⟨?_, by norm_num, by norm_num⟩
  simp [HeightField2.segmentAt, HeightField2.numCells, HeightField2.ucw, fieldNum_lit]
  norm_num

/-! ## the start cell of the 2-D cast -/

private theorem lit_nat3 (c : Nat) : @Model.lit K (fieldNum K sq) ((c : Nat) : Int) 1 = (c : K) := by
  rw [fieldNum_lit]; simp [Rat.mkRat_one]

private theorem filter_len_le' (N i : Nat) (p : Nat → Bool) (hp : ∀ k, k < N → p k = true → 1 ≤ k ∧ k ≤ i) :
    ((List.range N).filter p).length ≤ i := by
  have hnd : ((List.range N).filter p).Nodup := List.Nodup.filter _ List.nodup_range
  have hsub : (List.range N).filter p ⊆ List.range' 1 i := by
    intro k hk
    rw [List.mem_filter, List.mem_range] at hk
    have := hp k hk.1 hk.2
    rw [List.mem_range']
    exact ⟨k - 1, by omega, by omega⟩
  have := (List.subperm_of_subset hnd hsub).length_le
  simpa using this

private theorem filter_len_ge' (N m : Nat) (p : Nat → Bool) (hm : m < N) (hp : ∀ j, 1 ≤ j → j ≤ m → p j = true) :
    m ≤ ((List.range N).filter p).length := by
  have hsub : List.range' 1 m ⊆ (List.range N).filter p := by
    intro k hk
    rw [List.mem_range'] at hk
    obtain ⟨i, hi, rfl⟩ := hk
    rw [List.mem_filter, List.mem_range]
    exact ⟨by omega, hp _ (by omega) (by omega)⟩
  have := (List.subperm_of_subset (List.nodup_range' (s := 1) (n := m)) hsub).length_le
  simpa using this

/-- **the clamped floor is the floor**: for `x = (val + 1/2) / w`, `c = quantize_floor(val, w, N)` satisfies `c ≤ N − 1`, `c ≤ x`
when `c ≥ 1`, and `x < c + 1` unless the clamp at `N − 1` is active -/
theorem quantizeFloor_spec (val w : K) (N : Nat) :
    letI := fieldNum K sq
    let c := HeightField3.quantizeFloor val w N
    c ≤ N - 1 ∧ (1 ≤ c → (c : K) ≤ (val + 1 / 2) / w) ∧ (c + 1 ≤ N - 1 → (val + 1 / 2) / w < (c : K) + 1) := by
  letI := fieldNum K sq
  have hlit : @Model.lit K (fieldNum K sq) 1 2 = (1 / 2 : K) := by rw [fieldNum_lit]; norm_num
  simp only [HeightField3.quantizeFloor, hlit, lit_nat3]
  obtain ⟨p, hp⟩ : ∃ p : Nat → Bool, p = fun (k : Nat) => decide (1 ≤ k) && decide ((k : K) ≤ (val + 1 / 2) / w) := ⟨_, rfl⟩
  rw [← hp]
  have hpk : ∀ k, p k = true ↔ (1 ≤ k ∧ (k : K) ≤ (val + 1 / 2) / w) := by
    intro k; rw [hp]; simp only [Bool.and_eq_true, decide_eq_true_eq]
  obtain ⟨L, hL⟩ : ∃ L, L = ((List.range N).filter p).length := ⟨_, rfl⟩
  rw [← hL]
  refine ⟨?_, ?_, ?_⟩
  · rw [hL]
    apply filter_len_le'
    intro k hk hq
    exact ⟨((hpk k).1 hq).1, by omega⟩
  · intro hc
    by_contra hcon; push Not at hcon
    have : L ≤ L - 1 := by
      rw [hL]
      apply filter_len_le'
      intro k _ hq
      refine ⟨((hpk k).1 hq).1, ?_⟩
      have h1 : (k : K) < (((List.range N).filter p).length : K) := by rw [← hL]; exact lt_of_le_of_lt ((hpk k).1 hq).2 hcon
      have h2 : k < ((List.range N).filter p).length := by exact_mod_cast h1
      omega
    omega
  · intro hc
    by_contra hcon; push Not at hcon
    have := filter_len_ge' N (L + 1) p (by omega)
      (by
        intro j hj1 hj2
        rw [hpk]
        refine ⟨hj1, le_trans ?_ hcon⟩
        have h1 : (j : K) ≤ ((L + 1 : Nat) : K) := by exact_mod_cast hj2
        push_cast at h1; exact h1)
    omega

/-- **the start cell of the cast contains the clip point, mirrored or not**: for a point whose unscaled abscissa
`u = pt.x / scale.x` lies in `[−1/2, 1/2]`, the cell `c` the cast starts from exists and `u` lies between the unscaled abscissae of
its two vertices, `−1/2 + c/(n−1) ≤ u ≤ −1/2 + (c+1)/(n−1)` (any sign of `scale.x`: the division undoes the mirror). -/
theorem hf2_startCell_contains (h : HeightField2 K) (pt : V2 K) (ox : K) (hn : 2 ≤ h.hs.size)
    (hu1 : -(1 / 2 : K) ≤ pt.x / h.sc.x) (hu2 : pt.x / h.sc.x ≤ 1 / 2) :
    letI := fieldNum K sq
    let c := Hf2S.startCell h pt ox
    c < h.numCells ∧ -(1 / 2 : K) + (c : K) / ((h.hs.size : K) - 1) ≤ pt.x / h.sc.x ∧
      pt.x / h.sc.x ≤ -(1 / 2 : K) + ((c : K) + 1) / ((h.hs.size : K) - 1) := by
  letI := fieldNum K sq
  have hlit : @Model.lit K (fieldNum K sq) 1 2 = (1 / 2 : K) := by rw [fieldNum_lit]; norm_num
  have hnK : (2 : K) ≤ (h.hs.size : K) := by exact_mod_cast hn
  have hpos : (0 : K) < (h.hs.size : K) - 1 := by linarith
  have hucw : @HeightField2.ucw K (fieldNum K sq) h = 1 / ((h.hs.size : K) - 1) := by
    simp only [HeightField2.ucw, lit_nat3]
  simp only [Hf2S.startCell, HeightField2.startCell, hlit]
  rw [if_neg (by push Not; exact ⟨hu1, hu2⟩), hucw]
  obtain ⟨h1, h2, h3⟩ := quantizeFloor_spec sq (pt.x / h.sc.x) (1 / ((h.hs.size : K) - 1)) (@HeightField2.numCells K h)
  have hN : h.numCells = h.hs.size - 1 := rfl
  have hx : (pt.x / h.sc.x + 1 / 2) / (1 / ((h.hs.size : K) - 1)) = (pt.x / h.sc.x + 1 / 2) * ((h.hs.size : K) - 1) := by
    rw [div_div_eq_mul_div, div_one]
  rw [hx] at h2 h3
  obtain ⟨c, hc⟩ : ∃ c, c = @HeightField3.quantizeFloor K (fieldNum K sq) (pt.x / h.sc.x) (1 / ((h.hs.size : K) - 1)) h.numCells := ⟨_, rfl⟩
  rw [← hc] at h1 h2 h3 ⊢
  refine ⟨by omega, ?_, ?_⟩
  · rcases Nat.eq_zero_or_pos c with h0 | h0
    · rw [h0]; simp only [Nat.cast_zero, zero_div, add_zero]; exact hu1
    · have h4 := h2 h0
      have h5 : (c : K) / ((h.hs.size : K) - 1) ≤ pt.x / h.sc.x + 1 / 2 := by rw [div_le_iff₀ hpos]; exact h4
      linarith
  · rcases Nat.lt_or_ge (c + 1) h.numCells with hlt | hge
    · have h4 := h3 (by omega)
      have h5 : pt.x / h.sc.x + 1 / 2 < ((c : K) + 1) / ((h.hs.size : K) - 1) := by rw [lt_div_iff₀ hpos]; exact h4
      linarith
    · have hce : c + 1 = h.hs.size - 1 := by omega
      have h4 : ((c : K) + 1) = (h.hs.size : K) - 1 := by
        have h6 : ((c + 1 : Nat) : K) = ((h.hs.size - 1 : Nat) : K) := by rw [hce]
        rw [Nat.cast_sub (by omega)] at h6; push_cast at h6; exact h6
      rw [h4, div_self (ne_of_gt hpos)]; linarith


/-! ## refutation of the pinned enumeration -/
private theorem lit_nat4 (c : Nat) : @Model.lit K (fieldNum K sq) ((c : Nat) : Int) 1 = (c : K) := by
  rw [fieldNum_lit]; simp [Rat.mkRat_one]

private theorem filter_len_ge4 (N m : Nat) (p : Nat → Bool) (hm : m < N) (hp : ∀ j, 1 ≤ j → j ≤ m → p j = true) :
    m ≤ ((List.range N).filter p).length := by
  have hsub : List.range' 1 m ⊆ (List.range N).filter p := by
    intro k hk
    rw [List.mem_range'] at hk
    obtain ⟨i, hi, rfl⟩ := hk
    rw [List.mem_filter, List.mem_range]
    exact ⟨by omega, hp _ (by omega) (by omega)⟩
  have := (List.subperm_of_subset (List.nodup_range' (s := 1) (n := m)) hsub).length_le
  simpa using this

private theorem filter_len_le4 (N m : Nat) (p : Nat → Bool) (hp : ∀ j, p j = true → j < m) :
    ((List.range N).filter p).length ≤ m := by
  have hnd : ((List.range N).filter p).Nodup := List.Nodup.filter _ List.nodup_range
  have hsub : (List.range N).filter p ⊆ List.range m := by
    intro k hk
    rw [List.mem_filter] at hk
    rw [List.mem_range]
    exact hp k hk.2
  have := (List.subperm_of_subset hnd hsub).length_le
  simpa using this

/-- **refutation of the pinned enumeration under a mirrored field**: negative x scale, a query box with `lo.x < hi.x` that contains
the vertical line through a vertex `v ≤ num_cells − 1` strictly inside its x range — so it meets both cells
`v − 1` and `v` — gets the index range `min_x..max_x` with `max_x ≤ v ≤ min_x`: EMPTY, nothing is reported. -/
theorem hf2_elemsPinned_range_empty (h : HeightField2 K) (lo hi : V2 K) (v : Nat) (hn : 2 ≤ h.hs.size) (hs : h.sc.x < 0)
    (hv2 : v ≤ h.numCells - 1)
    (hlo : lo.x < (-(1 / 2 : K) + (v : K) / ((h.hs.size : K) - 1)) * h.sc.x)
    (hhi : (-(1 / 2 : K) + (v : K) / ((h.hs.size : K) - 1)) * h.sc.x < hi.x) :
    letI := fieldNum K sq
    (Hf2S.elemsPinnedRange h lo hi).2 ≤ v ∧ v ≤ (Hf2S.elemsPinnedRange h lo hi).1 := by
  letI := fieldNum K sq
  have hlit : @Model.lit K (fieldNum K sq) 1 2 = (1 / 2 : K) := by rw [fieldNum_lit]; norm_num
  have hnK : (2 : K) ≤ (h.hs.size : K) := by exact_mod_cast hn
  have hpos : (0 : K) < (h.hs.size : K) - 1 := by linarith
  have hN : h.numCells = h.hs.size - 1 := rfl
  -- the box corners in the unscaled frame: swapped by the negative scale
  have h1 : -(1 / 2 : K) + (v : K) / ((h.hs.size : K) - 1) < lo.x / h.sc.x := by
    rw [lt_div_iff_of_neg hs]; exact hlo
  have h2 : hi.x / h.sc.x < -(1 / 2 : K) + (v : K) / ((h.hs.size : K) - 1) := by
    rw [div_lt_iff_of_neg hs]; exact hhi
  have e (y : K) : (y + 1 / 2) / (1 / ((h.hs.size : K) - 1)) = (y + 1 / 2) * ((h.hs.size : K) - 1) := by
    rw [div_div_eq_mul_div, div_one]
  have hvm : (v : K) / ((h.hs.size : K) - 1) * ((h.hs.size : K) - 1) = (v : K) := div_mul_cancel₀ _ (ne_of_gt hpos)
  simp only [Hf2S.elemsPinnedRange, Hf2S.quantizeCeil, HeightField3.quantizeFloor, HeightField2.ucw, lit_nat4, hlit, e]
  constructor
  · apply filter_len_le4
    intro j hj
    simp only [decide_eq_true_eq] at hj
    have : (j : K) < (v : K) := by
      have : (hi.x / h.sc.x + 1 / 2) * ((h.hs.size : K) - 1) < (v : K) := by
        have := mul_lt_mul_of_pos_right (show hi.x / h.sc.x + 1 / 2 < (v : K) / ((h.hs.size : K) - 1) by linarith) hpos
        rw [hvm] at this; exact this
      linarith
    exact_mod_cast this
  · apply filter_len_ge4 _ _ _ (by omega)
    intro j hj1 hj2
    simp only [Bool.and_eq_true, decide_eq_true_eq]
    refine ⟨hj1, ?_⟩
    have hjK : (j : K) ≤ (v : K) := by exact_mod_cast hj2
    have : (v : K) < (lo.x / h.sc.x + 1 / 2) * ((h.hs.size : K) - 1) := by
      have := mul_lt_mul_of_pos_right (show (v : K) / ((h.hs.size : K) - 1) < lo.x / h.sc.x + 1 / 2 by linarith) hpos
      rw [hvm] at this; exact this
    linarith


end C19
