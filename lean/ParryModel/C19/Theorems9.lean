import ParryModel.Field
import ParryModel.C19.ModelHf2
/-!
# C19 theorems, part 9 (round fu5): `HeightField::map_elements_in_local_aabb` (3-D) on a scaled / mirrored field

`hf3_elemsInAabb_complete_left` / `_right`: the corrected 3-D enumeration (model `Hf3S.elemsInAabb`, bit-exact: query box divided by the
scale, corners RE-ORDERED component-wise, clamped floor / ceiling of the column and row ranges, four-corner height filter, triangle
ids) reports the left / right triangle of every cell that keeps it, as soon as the cell has a point whose image lies strictly
inside the x and z ranges of the box and a level between its corner heights whose image lies within the y range — for every
non-zero scale of ANY sign.  (Pinned tree: empty ranges under a negative factor,
`fixes/C19-heightfield-elements-in-aabb-negative-scale.diff`.)
-/
namespace C19
open Model
variable {K : Type} [Field K] [LinearOrder K] [IsStrictOrderedRing K] (sq : K → K)

private theorem lit_nat5 (c : Nat) : @Model.lit K (fieldNum K sq) ((c : Nat) : Int) 1 = (c : K) := by
  rw [fieldNum_lit]; simp [Rat.mkRat_one]

private theorem div_between5 (l p h s : K) (hs : s ≠ 0) (h1 : l < p) (h2 : p < h) :
    min (l / s) (h / s) < p / s ∧ p / s < max (l / s) (h / s) := by
  simp only [div_eq_mul_inv]
  rcases lt_or_gt_of_ne hs with hneg | hpos
  · have hinv : s⁻¹ < 0 := inv_lt_zero.2 hneg
    exact ⟨lt_of_le_of_lt (min_le_right _ _) (mul_lt_mul_of_neg_right h2 hinv),
      lt_of_lt_of_le (mul_lt_mul_of_neg_right h1 hinv) (le_max_left _ _)⟩
  · have hinv : 0 < s⁻¹ := inv_pos.2 hpos
    exact ⟨lt_of_le_of_lt (min_le_left _ _) (mul_lt_mul_of_pos_right h1 hinv),
      lt_of_lt_of_le (mul_lt_mul_of_pos_right h2 hinv) (le_max_right _ _)⟩

private theorem div_between_le5 (l p h s : K) (hs : s ≠ 0) (h1 : l ≤ p) (h2 : p ≤ h) :
    min (l / s) (h / s) ≤ p / s ∧ p / s ≤ max (l / s) (h / s) := by
  simp only [div_eq_mul_inv]
  rcases lt_or_gt_of_ne hs with hneg | hpos
  · have hinv : s⁻¹ ≤ 0 := (inv_lt_zero.2 hneg).le
    exact ⟨le_trans (min_le_right _ _) (mul_le_mul_of_nonpos_right h2 hinv),
      le_trans (mul_le_mul_of_nonpos_right h1 hinv) (le_max_left _ _)⟩
  · have hinv : 0 ≤ s⁻¹ := (inv_pos.2 hpos).le
    exact ⟨le_trans (min_le_left _ _) (mul_le_mul_of_nonneg_right h1 hinv),
      le_trans (mul_le_mul_of_nonneg_right h2 hinv) (le_max_right _ _)⟩

private theorem filter_len_le5 (N i : Nat) (p : Nat → Bool) (hp : ∀ k, p k = true → 1 ≤ k ∧ k ≤ i) :
    ((List.range N).filter p).length ≤ i := by
  have hnd : ((List.range N).filter p).Nodup := List.Nodup.filter _ List.nodup_range
  have hsub : (List.range N).filter p ⊆ List.range' 1 i := by
    intro k hk
    rw [List.mem_filter] at hk
    have := hp k hk.2
    rw [List.mem_range']
    exact ⟨k - 1, by omega, by omega⟩
  have := (List.subperm_of_subset hnd hsub).length_le
  simpa using this

private theorem filter_len_gt5 (N i : Nat) (p : Nat → Bool) (hi : i < N) (hp : ∀ j, j ≤ i → p j = true) :
    i < ((List.range N).filter p).length := by
  have hsub : List.range (i + 1) ⊆ (List.range N).filter p := by
    intro k hk
    rw [List.mem_range] at hk
    rw [List.mem_filter, List.mem_range]
    exact ⟨by omega, hp k (by omega)⟩
  have := (List.subperm_of_subset List.nodup_range hsub).length_le
  simp at this
  omega


/-- **completeness of the corrected 3-D `map_elements_in_local_aabb`, every sign of the scale** (left triangle; unit-frame form):
cell `(i, j)` exists and keeps its left triangle; `(u, w)` is a point of the unit-frame rectangle of the cell whose image
`(u·sx, w·sz)` lies strictly inside the x and z ranges of the query box; `yv` lies between the smallest and the largest corner height
of the cell and `yv·sy` within the y range of the box.  Then the left triangle of the cell (id `j·(nrows−1) + i`) is reported. -/
theorem hf3_elemsInAabb_complete_left (h : HeightField3 K) (lo hi : V3 K) (i j : Nat) (u w yv : K)
    (hnc : 2 ≤ h.nc) (hnr : 2 ≤ h.nr) (hsx : h.sc.x ≠ 0) (hsy : h.sc.y ≠ 0) (hsz : h.sc.z ≠ 0)
    (hi' : i < h.nr - 1) (hj' : j < h.nc - 1) (hleft : ¬ ((h.status i j / 2) % 2 = 1))
    (hu1 : -(1 / 2 : K) + (j : K) / ((h.nc : K) - 1) ≤ u) (hu2 : u ≤ -(1 / 2 : K) + ((j : K) + 1) / ((h.nc : K) - 1))
    (hw1 : -(1 / 2 : K) + (i : K) / ((h.nr : K) - 1) ≤ w) (hw2 : w ≤ -(1 / 2 : K) + ((i : K) + 1) / ((h.nr : K) - 1))
    (hx1 : lo.x < u * h.sc.x) (hx2 : u * h.sc.x < hi.x) (hz1 : lo.z < w * h.sc.z) (hz2 : w * h.sc.z < hi.z)
    (hy1 : lo.y ≤ yv * h.sc.y) (hy2 : yv * h.sc.y ≤ hi.y) :
    letI := fieldNum K sq
    (h.height i j ≤ yv ∨ h.height (i + 1) j ≤ yv ∨ h.height i (j + 1) ≤ yv ∨ h.height (i + 1) (j + 1) ≤ yv) →
    (yv ≤ h.height i j ∨ yv ≤ h.height (i + 1) j ∨ yv ≤ h.height i (j + 1) ∨ yv ≤ h.height (i + 1) (j + 1)) →
    ∃ t, (j * (h.nr - 1) + i, t) ∈ Hf3S.elemsInAabb h lo hi := by
  letI := fieldNum K sq
  intro hlow hhigh
  have hlit : @Model.lit K (fieldNum K sq) 1 2 = (1 / 2 : K) := by rw [fieldNum_lit]; norm_num
  have hncK : (2 : K) ≤ (h.nc : K) := by exact_mod_cast hnc
  have hnrK : (2 : K) ≤ (h.nr : K) := by exact_mod_cast hnr
  have hpc : (0 : K) < (h.nc : K) - 1 := by linarith
  have hpr : (0 : K) < (h.nr : K) - 1 := by linarith
  have hjK : ((j : K) + 1) ≤ (h.nc : K) - 1 := by
    have h2 : ((j + 1 : Nat) : K) ≤ ((h.nc - 1 : Nat) : K) := by exact_mod_cast (show j + 1 ≤ h.nc - 1 by omega)
    rw [Nat.cast_sub (by omega)] at h2; push_cast at h2; exact h2
  have hiK : ((i : K) + 1) ≤ (h.nr : K) - 1 := by
    have h2 : ((i + 1 : Nat) : K) ≤ ((h.nr - 1 : Nat) : K) := by exact_mod_cast (show i + 1 ≤ h.nr - 1 by omega)
    rw [Nat.cast_sub (by omega)] at h2; push_cast at h2; exact h2
  have bx := div_between5 lo.x (u * h.sc.x) hi.x h.sc.x hsx hx1 hx2
  have bz := div_between5 lo.z (w * h.sc.z) hi.z h.sc.z hsz hz1 hz2
  have by' := div_between_le5 lo.y (yv * h.sc.y) hi.y h.sc.y hsy hy1 hy2
  rw [mul_div_cancel_right₀ _ hsx] at bx
  rw [mul_div_cancel_right₀ _ hsz] at bz
  rw [mul_div_cancel_right₀ _ hsy] at by'
  -- the unit-frame point in cell units
  have hU1 : (j : K) ≤ (u + 1 / 2) * ((h.nc : K) - 1) := by
    have := mul_le_mul_of_nonneg_right (show (j : K) / ((h.nc : K) - 1) ≤ u + 1 / 2 by linarith) hpc.le
    rwa [div_mul_cancel₀ _ (ne_of_gt hpc)] at this
  have hU2 : (u + 1 / 2) * ((h.nc : K) - 1) ≤ (j : K) + 1 := by
    have := mul_le_mul_of_nonneg_right (show u + 1 / 2 ≤ ((j : K) + 1) / ((h.nc : K) - 1) by linarith) hpc.le
    rwa [div_mul_cancel₀ _ (ne_of_gt hpc)] at this
  have hW1 : (i : K) ≤ (w + 1 / 2) * ((h.nr : K) - 1) := by
    have := mul_le_mul_of_nonneg_right (show (i : K) / ((h.nr : K) - 1) ≤ w + 1 / 2 by linarith) hpr.le
    rwa [div_mul_cancel₀ _ (ne_of_gt hpr)] at this
  have hW2 : (w + 1 / 2) * ((h.nr : K) - 1) ≤ (i : K) + 1 := by
    have := mul_le_mul_of_nonneg_right (show w + 1 / 2 ≤ ((i : K) + 1) / ((h.nr : K) - 1) by linarith) hpr.le
    rwa [div_mul_cancel₀ _ (ne_of_gt hpr)] at this
  have hu_lo : -(1 / 2 : K) ≤ u := by
    have : (0 : K) ≤ (j : K) / ((h.nc : K) - 1) := by positivity
    linarith
  have hu_hi : u ≤ 1 / 2 := by
    have : ((j : K) + 1) / ((h.nc : K) - 1) ≤ 1 := by rw [div_le_one hpc]; exact hjK
    linarith
  have hw_lo : -(1 / 2 : K) ≤ w := by
    have : (0 : K) ≤ (i : K) / ((h.nr : K) - 1) := by positivity
    linarith
  have hw_hi : w ≤ 1 / 2 := by
    have : ((i : K) + 1) / ((h.nr : K) - 1) ≤ 1 := by rw [div_le_one hpr]; exact hiK
    linarith
  have e (y m : K) : (y + 1 / 2) / (1 / m) = (y + 1 / 2) * m := by rw [div_div_eq_mul_div, div_one]
  simp only [Hf3S.elemsInAabb, V3.inf, V3.sup, fieldNum_nmin, fieldNum_nmax, hlit]
  rw [if_neg (by
    push Not
    exact ⟨by linarith [bx.2], by linarith [bz.2], by linarith [bx.1], by linarith [bz.1]⟩)]
  apply Exists.intro
  rw [List.mem_flatMap]
  refine ⟨j, ?_, ?_⟩
  · rw [List.mem_filter, List.mem_range]
    constructor
    · apply filter_len_gt5 _ _ _ hj'
      intro j2 hj2
      simp only [decide_eq_true_eq, lit_nat5, HeightField3.ucw, hlit, e]
      have : (j2 : K) ≤ (j : K) := by exact_mod_cast hj2
      have h3 := mul_lt_mul_of_pos_right (show u + 1 / 2 < max (lo.x / h.sc.x) (hi.x / h.sc.x) + 1 / 2 by linarith [bx.2]) hpc
      linarith
    · simp only [decide_eq_true_eq]
      apply filter_len_le5
      intro k hk
      simp only [Bool.and_eq_true, decide_eq_true_eq, lit_nat5, HeightField3.ucw, hlit, e] at hk
      refine ⟨hk.1, ?_⟩
      have h3 := mul_lt_mul_of_pos_right (show min (lo.x / h.sc.x) (hi.x / h.sc.x) + 1 / 2 < u + 1 / 2 by linarith [bx.1]) hpc
      have h4 : (k : K) < (j : K) + 1 := by linarith [hk.2]
      have : k < j + 1 := by exact_mod_cast h4
      omega
  · rw [List.mem_flatMap]
    refine ⟨i, ?_, ?_⟩
    · rw [List.mem_filter, List.mem_range]
      constructor
      · apply filter_len_gt5 _ _ _ hi'
        intro i2 hi2
        simp only [decide_eq_true_eq, lit_nat5, HeightField3.uch, hlit, e]
        have : (i2 : K) ≤ (i : K) := by exact_mod_cast hi2
        have h3 := mul_lt_mul_of_pos_right (show w + 1 / 2 < max (lo.z / h.sc.z) (hi.z / h.sc.z) + 1 / 2 by linarith [bz.2]) hpr
        linarith
      · simp only [decide_eq_true_eq]
        apply filter_len_le5
        intro k hk
        simp only [Bool.and_eq_true, decide_eq_true_eq, lit_nat5, HeightField3.uch, hlit, e] at hk
        refine ⟨hk.1, ?_⟩
        have h3 := mul_lt_mul_of_pos_right (show min (lo.z / h.sc.z) (hi.z / h.sc.z) + 1 / 2 < w + 1 / 2 by linarith [bz.1]) hpr
        have h4 : (k : K) < (i : K) + 1 := by linarith [hk.2]
        have : k < i + 1 := by exact_mod_cast h4
        omega
    · have hl : decide ((h.status i j / 2) % 2 = 1) = false := by simp [hleft]
      simp only [hl, Bool.false_and, Bool.false_eq_true, if_false]
      rw [if_neg (by
        push Not
        constructor
        · intro a1 a2 a3
          rcases hlow with q | q | q | q <;> linarith [by'.2]
        · intro a1 a2 a3
          rcases hhigh with q | q | q | q <;> linarith [by'.1])]
      exact List.mem_append_left _ (List.mem_singleton.2 rfl)

/-- **completeness of the corrected 3-D `map_elements_in_local_aabb`, every sign of the scale** (right triangle; unit-frame form):
cell `(i, j)` exists and keeps its right triangle; `(u, w)` is a point of the unit-frame rectangle of the cell whose image
`(u·sx, w·sz)` lies strictly inside the x and z ranges of the query box; `yv` lies between the smallest and the largest corner height
of the cell and `yv·sy` within the y range of the box.  Then the right triangle of the cell (id `j·(nrows−1) + i + num_triangles/2`) is reported. -/
theorem hf3_elemsInAabb_complete_right (h : HeightField3 K) (lo hi : V3 K) (i j : Nat) (u w yv : K)
    (hnc : 2 ≤ h.nc) (hnr : 2 ≤ h.nr) (hsx : h.sc.x ≠ 0) (hsy : h.sc.y ≠ 0) (hsz : h.sc.z ≠ 0)
    (hi' : i < h.nr - 1) (hj' : j < h.nc - 1) (hright : ¬ ((h.status i j / 4) % 2 = 1))
    (hu1 : -(1 / 2 : K) + (j : K) / ((h.nc : K) - 1) ≤ u) (hu2 : u ≤ -(1 / 2 : K) + ((j : K) + 1) / ((h.nc : K) - 1))
    (hw1 : -(1 / 2 : K) + (i : K) / ((h.nr : K) - 1) ≤ w) (hw2 : w ≤ -(1 / 2 : K) + ((i : K) + 1) / ((h.nr : K) - 1))
    (hx1 : lo.x < u * h.sc.x) (hx2 : u * h.sc.x < hi.x) (hz1 : lo.z < w * h.sc.z) (hz2 : w * h.sc.z < hi.z)
    (hy1 : lo.y ≤ yv * h.sc.y) (hy2 : yv * h.sc.y ≤ hi.y) :
    letI := fieldNum K sq
    (h.height i j ≤ yv ∨ h.height (i + 1) j ≤ yv ∨ h.height i (j + 1) ≤ yv ∨ h.height (i + 1) (j + 1) ≤ yv) →
    (yv ≤ h.height i j ∨ yv ≤ h.height (i + 1) j ∨ yv ≤ h.height i (j + 1) ∨ yv ≤ h.height (i + 1) (j + 1)) →
    ∃ t, (j * (h.nr - 1) + i + (h.nr - 1) * (h.nc - 1) * 2 / 2, t) ∈ Hf3S.elemsInAabb h lo hi := by
  letI := fieldNum K sq
  intro hlow hhigh
  have hlit : @Model.lit K (fieldNum K sq) 1 2 = (1 / 2 : K) := by rw [fieldNum_lit]; norm_num
  have hncK : (2 : K) ≤ (h.nc : K) := by exact_mod_cast hnc
  have hnrK : (2 : K) ≤ (h.nr : K) := by exact_mod_cast hnr
  have hpc : (0 : K) < (h.nc : K) - 1 := by linarith
  have hpr : (0 : K) < (h.nr : K) - 1 := by linarith
  have hjK : ((j : K) + 1) ≤ (h.nc : K) - 1 := by
    have h2 : ((j + 1 : Nat) : K) ≤ ((h.nc - 1 : Nat) : K) := by exact_mod_cast (show j + 1 ≤ h.nc - 1 by omega)
    rw [Nat.cast_sub (by omega)] at h2; push_cast at h2; exact h2
  have hiK : ((i : K) + 1) ≤ (h.nr : K) - 1 := by
    have h2 : ((i + 1 : Nat) : K) ≤ ((h.nr - 1 : Nat) : K) := by exact_mod_cast (show i + 1 ≤ h.nr - 1 by omega)
    rw [Nat.cast_sub (by omega)] at h2; push_cast at h2; exact h2
  have bx := div_between5 lo.x (u * h.sc.x) hi.x h.sc.x hsx hx1 hx2
  have bz := div_between5 lo.z (w * h.sc.z) hi.z h.sc.z hsz hz1 hz2
  have by' := div_between_le5 lo.y (yv * h.sc.y) hi.y h.sc.y hsy hy1 hy2
  rw [mul_div_cancel_right₀ _ hsx] at bx
  rw [mul_div_cancel_right₀ _ hsz] at bz
  rw [mul_div_cancel_right₀ _ hsy] at by'
  -- the unit-frame point in cell units
  have hU1 : (j : K) ≤ (u + 1 / 2) * ((h.nc : K) - 1) := by
    have := mul_le_mul_of_nonneg_right (show (j : K) / ((h.nc : K) - 1) ≤ u + 1 / 2 by linarith) hpc.le
    rwa [div_mul_cancel₀ _ (ne_of_gt hpc)] at this
  have hU2 : (u + 1 / 2) * ((h.nc : K) - 1) ≤ (j : K) + 1 := by
    have := mul_le_mul_of_nonneg_right (show u + 1 / 2 ≤ ((j : K) + 1) / ((h.nc : K) - 1) by linarith) hpc.le
    rwa [div_mul_cancel₀ _ (ne_of_gt hpc)] at this
  have hW1 : (i : K) ≤ (w + 1 / 2) * ((h.nr : K) - 1) := by
    have := mul_le_mul_of_nonneg_right (show (i : K) / ((h.nr : K) - 1) ≤ w + 1 / 2 by linarith) hpr.le
    rwa [div_mul_cancel₀ _ (ne_of_gt hpr)] at this
  have hW2 : (w + 1 / 2) * ((h.nr : K) - 1) ≤ (i : K) + 1 := by
    have := mul_le_mul_of_nonneg_right (show w + 1 / 2 ≤ ((i : K) + 1) / ((h.nr : K) - 1) by linarith) hpr.le
    rwa [div_mul_cancel₀ _ (ne_of_gt hpr)] at this
  have hu_lo : -(1 / 2 : K) ≤ u := by
    have : (0 : K) ≤ (j : K) / ((h.nc : K) - 1) := by positivity
    linarith
  have hu_hi : u ≤ 1 / 2 := by
    have : ((j : K) + 1) / ((h.nc : K) - 1) ≤ 1 := by rw [div_le_one hpc]; exact hjK
    linarith
  have hw_lo : -(1 / 2 : K) ≤ w := by
    have : (0 : K) ≤ (i : K) / ((h.nr : K) - 1) := by positivity
    linarith
  have hw_hi : w ≤ 1 / 2 := by
    have : ((i : K) + 1) / ((h.nr : K) - 1) ≤ 1 := by rw [div_le_one hpr]; exact hiK
    linarith
  have e (y m : K) : (y + 1 / 2) / (1 / m) = (y + 1 / 2) * m := by rw [div_div_eq_mul_div, div_one]
  simp only [Hf3S.elemsInAabb, V3.inf, V3.sup, fieldNum_nmin, fieldNum_nmax, hlit]
  rw [if_neg (by
    push Not
    exact ⟨by linarith [bx.2], by linarith [bz.2], by linarith [bx.1], by linarith [bz.1]⟩)]
  apply Exists.intro
  rw [List.mem_flatMap]
  refine ⟨j, ?_, ?_⟩
  · rw [List.mem_filter, List.mem_range]
    constructor
    · apply filter_len_gt5 _ _ _ hj'
      intro j2 hj2
      simp only [decide_eq_true_eq, lit_nat5, HeightField3.ucw, hlit, e]
      have : (j2 : K) ≤ (j : K) := by exact_mod_cast hj2
      have h3 := mul_lt_mul_of_pos_right (show u + 1 / 2 < max (lo.x / h.sc.x) (hi.x / h.sc.x) + 1 / 2 by linarith [bx.2]) hpc
      linarith
    · simp only [decide_eq_true_eq]
      apply filter_len_le5
      intro k hk
      simp only [Bool.and_eq_true, decide_eq_true_eq, lit_nat5, HeightField3.ucw, hlit, e] at hk
      refine ⟨hk.1, ?_⟩
      have h3 := mul_lt_mul_of_pos_right (show min (lo.x / h.sc.x) (hi.x / h.sc.x) + 1 / 2 < u + 1 / 2 by linarith [bx.1]) hpc
      have h4 : (k : K) < (j : K) + 1 := by linarith [hk.2]
      have : k < j + 1 := by exact_mod_cast h4
      omega
  · rw [List.mem_flatMap]
    refine ⟨i, ?_, ?_⟩
    · rw [List.mem_filter, List.mem_range]
      constructor
      · apply filter_len_gt5 _ _ _ hi'
        intro i2 hi2
        simp only [decide_eq_true_eq, lit_nat5, HeightField3.uch, hlit, e]
        have : (i2 : K) ≤ (i : K) := by exact_mod_cast hi2
        have h3 := mul_lt_mul_of_pos_right (show w + 1 / 2 < max (lo.z / h.sc.z) (hi.z / h.sc.z) + 1 / 2 by linarith [bz.2]) hpr
        linarith
      · simp only [decide_eq_true_eq]
        apply filter_len_le5
        intro k hk
        simp only [Bool.and_eq_true, decide_eq_true_eq, lit_nat5, HeightField3.uch, hlit, e] at hk
        refine ⟨hk.1, ?_⟩
        have h3 := mul_lt_mul_of_pos_right (show min (lo.z / h.sc.z) (hi.z / h.sc.z) + 1 / 2 < w + 1 / 2 by linarith [bz.1]) hpr
        have h4 : (k : K) < (i : K) + 1 := by linarith [hk.2]
        have : k < i + 1 := by exact_mod_cast h4
        omega
    · have hl : decide ((h.status i j / 4) % 2 = 1) = false := by simp [hright]
      simp only [hl, Bool.and_false, Bool.false_eq_true, if_false]
      rw [if_neg (by
        push Not
        constructor
        · intro a1 a2 a3
          rcases hlow with q | q | q | q <;> linarith [by'.2]
        · intro a1 a2 a3
          rcases hhigh with q | q | q | q <;> linarith [by'.1])]
      exact List.mem_append_right _ (List.mem_singleton.2 rfl)


/-- non-vacuity: the flat 2x2 field mirrored in x (scale (−1,1,1)), box [−1/4,1/4]×[−1,1]×[−1/4,1/4] around its centre -/
example : letI := fieldNum ℚ (fun x => x)
    ∃ t, (0 * (2 - 1) + 0, t) ∈ Hf3S.elemsInAabb (⟨2, 2, #[0, 0, 0, 0], ⟨-1, 1, 1⟩, []⟩ : HeightField3 ℚ) ⟨-1 / 4, -1, -1 / 4⟩ ⟨1 / 4, 1, 1 / 4⟩ := by
  letI := fieldNum ℚ (fun x => x)
  exact hf3_elemsInAabb_complete_left (K := ℚ) (fun x => x) ⟨2, 2, #[0, 0, 0, 0], ⟨-1, 1, 1⟩, []⟩ ⟨-1 / 4, -1, -1 / 4⟩ ⟨1 / 4, 1, 1 / 4⟩
    0 0 0 0 0 (by norm_num) (by norm_num) (by norm_num) (by norm_num) (by norm_num) (by norm_num) (by norm_num)
    (by simp [HeightField3.status]) (by norm_num) (by norm_num) (by norm_num) (by norm_num)
    (by norm_num) (by norm_num) (by norm_num) (by norm_num) (by norm_num) (by norm_num)
    (Or.inl (by simp [HeightField3.height])) (Or.inl (by simp [HeightField3.height]))

end C19
