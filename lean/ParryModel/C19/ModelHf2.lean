import ParryModel.C04.ModelHf2
/-!
# C19 model, round fu5: the SCALED 2-D `HeightField` (`src/shape/heightfield2.rs` `set_scale` / `scaled`) and the ray cast of
the scaled field (`src/query/ray/ray_heightfield.rs`, `#[cfg(feature = "dim2")]`).

The unscaled pieces (`segment_at`, `cast_on_cell`, the `while` loop, `clip_aabb_line`) are the bit-exact C04 model
(`C04/ModelHf2.lean`, read-only).  New here:
* `setScale` / `scaled`: the bounding box is NOT recomputed from the heights, it is the old box multiplied by
  `new_scale / old_scale` and re-sorted;
* `castScaled`: the cast on a field that carries such a box, with the CORRECTED direction of the walk.  A negative x scale
  mirrors the field, its cells then run towards −x, so the walk moves to higher cell indices exactly when `dir.x * scale.x > 0`
  (the pinned tree tests `dir.x > 0` and walks away from the ray under a negative x scale:
  `fixes/C19-heightfield2-raycast-negative-scale.diff`); the fallback start cell for a clip point that rounding put outside
  the field follows the same rule (`origin.x * scale.x > 0`).
-/
namespace Model
variable {K : Type} [Num K]

namespace Hf2S

/-- a 2-D heightfield together with the box it stores -/
structure Scaled (K : Type) where
  h : HeightField2 K
  box : RcAabb2 K

/-- `HeightField::new` -/
def new (hs : Array K) (sc : V2 K) (removed : List Nat) : Scaled K :=
  let h : HeightField2 K := ⟨hs, sc, removed⟩
  ⟨h, h.aabb⟩

/-- `HeightField::set_scale` -/
def setScale (f : Scaled K) (newScale : V2 K) : Scaled K :=
  let ratio : V2 K := ⟨newScale.x / f.h.sc.x, newScale.y / f.h.sc.y⟩
  let a := f.box.mins.cmul ratio
  let b := f.box.maxs.cmul ratio
  ⟨{ f.h with sc := newScale }, ⟨a.inf b, a.sup b⟩⟩

/-- `HeightField::scaled` -/
def scaled (f : Scaled K) (s : V2 K) : Scaled K := setScale f (f.h.sc.cmul s)

/-- the start cell: `cell_at_point(clip point)` with the corrected fallback (`origin.x * scale.x > 0`) -/
def startCell (h : HeightField2 K) (pt : V2 K) (ox : K) : Nat := h.startCell pt (ox * h.sc.x)

/-- the corrected direction of the walk in index space -/
def walkRight (h : HeightField2 K) (ray : Ray2 K) : Bool := decide (0 < ray.d.x * h.sc.x)

/-- `HeightField::cast_local_ray_and_get_normal` (2-D) on a field with a stored box, corrected walk direction -/
def castScaled [UlpsEq K] (big : K) (f : Scaled K) (ray : Ray2 K) (maxToi : K) (solid : Bool) : Option (Hit2 K) :=
  match clipAabbLine2 big f.box ray.o ray.d with
  | .none => none
  | .some near far =>
    if far.t < 0 then none else
    let minT := nmax near.t 0
    if maxToi < minT then none else
    let maxT := nmin far.t maxToi
    let curr := startCell f.h (ray.pointAt minT) ray.o.x
    match f.h.castOnCell ray maxToi solid curr with
    | some inter => some inter
    | none =>
      if neq ray.d.x 0 then none
      else f.h.walk ray maxToi solid maxT (walkRight f.h ray) (f.h.numCells + 1) curr

/-- the pinned-tree rule, for the refutation: `right = dir.x > 0`, fallback `origin.x > 0` -/
def castPinned [UlpsEq K] (big : K) (f : Scaled K) (ray : Ray2 K) (maxToi : K) (solid : Bool) : Option (Hit2 K) :=
  match clipAabbLine2 big f.box ray.o ray.d with
  | .none => none
  | .some near far =>
    if far.t < 0 then none else
    let minT := nmax near.t 0
    if maxToi < minT then none else
    let maxT := nmin far.t maxToi
    let curr := f.h.startCell (ray.pointAt minT) ray.o.x
    match f.h.castOnCell ray maxToi solid curr with
    | some inter => some inter
    | none =>
      if neq ray.d.x 0 then none
      else f.h.walk ray maxToi solid maxT (decide (0 < ray.d.x)) (f.h.numCells + 1) curr

/-- the x coordinate of vertex `c` (`cell_width * c + start_x`), as the walk computes it -/
def vertexX (h : HeightField2 K) (c : Nat) : K := h.ucw * h.sc.x * lit ((c : Nat) : Int) + h.sc.x * lit (-1) 2

/-- the ray parameter at which the ray crosses the vertical line through vertex `c` -/
def vertexParam (h : HeightField2 K) (ray : Ray2 K) (c : Nat) : K := (vertexX h c - ray.o.x) / ray.d.x

/-! ## `map_elements_in_local_aabb` (2-D), corrected for mirrored fields

The query box is carried to the unscaled frame by a component-wise division; under a negative scale factor the two corners
swap on that axis.  The pinned tree keeps them as they are (`ref_mins > ref_maxs`: empty index range, inverted height test) and
reports nothing; the corrected code re-orders them component-wise (`fixes/C19-heightfield-elements-in-aabb-negative-scale.diff`). -/

/-- `quantize_ceil(val, seg_length) = clamp(((val + 0.5) / seg_length).ceil(), 0, num_cells) as usize`.  For an integer `j`,
`ceil x > j ⇔ x > j`, so the clamped ceiling is the number of `j ∈ {0, …, num_cells − 1}` with `j < x` (`NaN` gives 0). -/
def quantizeCeil (val cellSize : K) (numCells : Nat) : Nat :=
  let x := (val + lit 1 2) / cellSize
  ((List.range numCells).filter fun (j : Nat) => decide (lit ((j : Nat) : Int) < x)).length

/-- the box in the unscaled frame, corners re-ordered -/
def refBox (h : HeightField2 K) (lo hi : V2 K) : V2 K × V2 K :=
  let ra : V2 K := ⟨lo.x / h.sc.x, lo.y / h.sc.y⟩
  let rb : V2 K := ⟨hi.x / h.sc.x, hi.y / h.sc.y⟩
  (ra.inf rb, ra.sup rb)

/-- `HeightField::map_elements_in_local_aabb` (2-D): the `(index, segment)` pairs handed to the callback, in order -/
def elemsInAabb (h : HeightField2 K) (lo hi : V2 K) : List (Nat × Segment2 K) :=
  let rmin := (refBox h lo hi).1
  let rmax := (refBox h lo hi).2
  if rmax.x < -(lit 1 2) ∨ lit 1 2 < rmin.x then [] else
  let minX := HeightField3.quantizeFloor rmin.x h.ucw h.numCells
  let maxX := quantizeCeil rmax.x h.ucw h.numCells
  ((List.range maxX).filter fun i => decide (minX ≤ i)).filterMap fun i =>
    match h.segmentAt i with
    | none => none
    | some g =>
      let y0 := h.hs.getD i 0
      let y1 := h.hs.getD (i + 1) 0
      if (rmax.y < y0 ∧ rmax.y < y1) ∨ (y0 < rmin.y ∧ y1 < rmin.y) then none else some (i, g)

/-- the index range `min_x..max_x` of the PINNED `map_elements_in_local_aabb` (corners not re-ordered), for the refutation -/
def elemsPinnedRange (h : HeightField2 K) (lo hi : V2 K) : Nat × Nat :=
  (HeightField3.quantizeFloor (lo.x / h.sc.x) h.ucw h.numCells, quantizeCeil (hi.x / h.sc.x) h.ucw h.numCells)

end Hf2S

/-! ## `map_elements_in_local_aabb` (3-D), corrected for mirrored fields (same re-ordering of the corners) -/
namespace Hf3S

/-- `HeightField::map_elements_in_local_aabb` (3-D): the `(triangle id, triangle)` pairs handed to the callback, in order
(columns `j` outside, rows `i` inside; left triangle before right triangle).  Note `x1 = x0 + cell_width`, `z1 = z0 + cell_height`
(not the `x_at(j + 1)` of `triangles_at`). -/
def elemsInAabb (h : HeightField3 K) (lo hi : V3 K) : List (Nat × Triangle3 K) :=
  let ra : V3 K := ⟨lo.x / h.sc.x, lo.y / h.sc.y, lo.z / h.sc.z⟩
  let rb : V3 K := ⟨hi.x / h.sc.x, hi.y / h.sc.y, hi.z / h.sc.z⟩
  let rmin := ra.inf rb
  let rmax := ra.sup rb
  let half : K := lit 1 2
  if rmax.x ≤ -half ∨ rmax.z ≤ -half ∨ half ≤ rmin.x ∨ half ≤ rmin.z then [] else
  let ncx := h.nc - 1
  let ncz := h.nr - 1
  let minX := HeightField3.quantizeFloor rmin.x h.ucw ncx
  let minZ := HeightField3.quantizeFloor rmin.z h.uch ncz
  let maxX := Hf2S.quantizeCeil rmax.x h.ucw ncx
  let maxZ := Hf2S.quantizeCeil rmax.z h.uch ncz
  let js := (List.range maxX).filter fun j => decide (minX ≤ j)
  let is := (List.range maxZ).filter fun i => decide (minZ ≤ i)
  js.flatMap fun j => is.flatMap fun i =>
    let bits := h.status i j
    let zig : Bool := bits % 2 = 1
    let leftRemoved : Bool := (bits / 2) % 2 = 1
    let rightRemoved : Bool := (bits / 4) % 2 = 1
    if leftRemoved && rightRemoved then [] else
    let z0 := -half + h.uch * lit (i : Int)
    let z1 := z0 + h.uch
    let x0 := -half + h.ucw * lit (j : Int)
    let x1 := x0 + h.ucw
    let y00 := h.height i j
    let y10 := h.height (i + 1) j
    let y01 := h.height i (j + 1)
    let y11 := h.height (i + 1) (j + 1)
    if (rmax.y < y00 ∧ rmax.y < y10 ∧ rmax.y < y01 ∧ rmax.y < y11) ∨ (y00 < rmin.y ∧ y10 < rmin.y ∧ y01 < rmin.y ∧ y11 < rmin.y) then [] else
    let p00 : V3 K := ⟨x0 * h.sc.x, y00 * h.sc.y, z0 * h.sc.z⟩
    let p10 : V3 K := ⟨x0 * h.sc.x, y10 * h.sc.y, z1 * h.sc.z⟩
    let p01 : V3 K := ⟨x1 * h.sc.x, y01 * h.sc.y, z0 * h.sc.z⟩
    let p11 : V3 K := ⟨x1 * h.sc.x, y11 * h.sc.y, z1 * h.sc.z⟩
    let numTri := (h.nr - 1) * (h.nc - 1) * 2
    let tid := j * (h.nr - 1) + i
    (if leftRemoved then [] else [(tid, (if zig then ⟨p00, p10, p11⟩ else ⟨p00, p10, p01⟩ : Triangle3 K))]) ++
    (if rightRemoved then [] else [(tid + numTri / 2, (if zig then ⟨p00, p11, p01⟩ else ⟨p10, p11, p01⟩ : Triangle3 K))])

/-- `HeightField::triangles()`: cells column by column, left triangle before right triangle -/
def triangles (h : HeightField3 K) : List (Triangle3 K) :=
  (List.range (h.nc - 1)).flatMap fun j => (List.range (h.nr - 1)).flatMap fun i =>
    let t := h.trianglesAt i j
    t.1.toList ++ t.2.toList

end Hf3S
end Model
