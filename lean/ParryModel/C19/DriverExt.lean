import ParryModel.Proto
import ParryModel.C19.Model
import ParryModel.C19.ModelExt
import Std.Data.HashMap
/-!
# C19 protocol handlers, growth round 2

* `scale_dyn3` / `scale_dyn2`: `Shape::scale_dyn` of every shape kind through a shape-descriptor protocol (see
  `harness/src/c19_ext.rs`).  Oracle: exact (`Rat`) membership transfer judged in world space on sample grids that include
  points near the apex / base / rim of every part: `p ∈ S ⇒ s∘p ∈ S'` and `p ∉ S ⇒ s∘p ∉ S'`, with a relative band of 1e-6
  around the boundaries for the exact branches and the discretisation error for the polyhedral fallbacks (whose vertices must
  all lie on the scaled boundary); the data-level rule (vertices scaled, indices kept) for the non-solid kinds.
* `cone_scaled`: the general dispatch of `Cone::scaled`, both branches, bit-exact against `Model.Cone.scaledFull`.
* discretizations: `to_trimesh` / `to_outline` / `to_polyline` of capsules with arbitrary axes, balls, cylinders, cones,
  cuboids, round shapes, convex polyhedra and heightfields with removed cells: every vertex on the boundary, every edge /
  triangle within the discretisation error of the boundary, heightfield edges / triangles are exactly the active cells.
The oracles never call the model functions.
-/
namespace C19.Ext
open Model Proto

abbrev Q3 := V3 Rat
abbrev Q2 := V2 Rat

instance {α : Type} : Inhabited (P α) := ⟨fun _ => none⟩

/-- finite float token (rejects `nan`, `inf`) -/
def pfin : P Float := do
  let t ← tok
  match FloatIO.ofHex? t with
  | some x => if FloatIO.isFinite x then pure x else failure
  | none => failure
def pq : P Rat := do let x ← pfin; pure (q x)
def pq3 : P Q3 := do let x ← pq; let y ← pq; let z ← pq; pure ⟨x, y, z⟩
def pq2 : P Q2 := do let x ← pq; let y ← pq; pure ⟨x, y⟩
def pmany {α} (p : P α) : Nat → P (List α)
  | 0 => pure []
  | k + 1 => do let x ← p; let xs ← pmany p k; pure (x :: xs)
def ptri : P (Nat × Nat × Nat) := do let a ← pnat; let b ← pnat; let c ← pnat; pure (a, b, c)
def pedge : P (Nat × Nat) := do let a ← pnat; let b ← pnat; pure (a, b)

def tolR : Rat := 1 / 1000000000
def near (a b : Rat) : Bool := rabs (a - b) ≤ tolR * (1 + rabs a + rabs b)
def near3 (p w : Q3) : Bool := near p.x w.x && near p.y w.y && near p.z w.z
def near2 (p w : Q2) : Bool := near p.x w.x && near p.y w.y
def rmax (a b : Rat) : Rat := if a < b then b else a
def rmin (a b : Rat) : Rat := if b < a then b else a
def sqr (x : Rat) : Rat := x * x
def fmt3 (p : Q3) : String := s!"({p.x},{p.y},{p.z})"
def fmt2 (p : Q2) : String := s!"({p.x},{p.y})"

/-- rational lower bound of `cos x` for `x = π / m` (`cos x ≥ 1 - x²/2`, `π < 3.1416`); `m` may be rational -/
def cosLB (m : Rat) : Rat := if m ≤ 0 then -1 else 1 - sqr ((31416 : Rat) / 10000 / m) / 2

/-- squared distance from `w` to the segment `[a, b]` (exact) -/
def d2seg3 (a b w : Q3) : Rat :=
  let ab := b.sub a; let l2 := ab.normSq
  let t := if l2 = 0 then 0 else rmax 0 (rmin 1 ((w.sub a).dot ab / l2))
  (w.sub (a.add (ab.smul t))).normSq
def d2seg2 (a b w : Q2) : Rat :=
  let ab := b.sub a; let l2 := ab.normSq
  let t := if l2 = 0 then 0 else rmax 0 (rmin 1 ((w.sub a).dot ab / l2))
  (w.sub (a.add (ab.smul t))).normSq

/-! ## shape descriptors -/

inductive Sh3 where
  | ball (r : Rat)
  | cuboid (he : Q3)
  | capsule (a b : Q3) (r : Rat)
  | cone (hh r : Rat)
  | cyl (hh r : Rat)
  | seg (a b : Q3)
  | tri (a b c : Q3)
  | hs (n : Q3)
  | poly (pts : List Q3)
  | polyh (pts : List Q3) (tris : List (Nat × Nat × Nat)) (normals : List (Nat × Q3))
  | trimesh (vs : List Q3) (tris : List (Nat × Nat × Nat))
  | polyline (vs : List Q3) (es : List (Nat × Nat))
  | hf (nr nc : Nat) (hs : List Rat) (sc : Q3) (st : List Nat) (tris : Option (List (Q3 × Q3 × Q3)))
  | round (inner : Sh3) (br : Rat)
  | compound (parts : List (Iso3 Rat × Sh3))
  deriving Inhabited

def Sh3.kind : Sh3 → String
  | .ball .. => "ball" | .cuboid .. => "cuboid" | .capsule .. => "capsule" | .cone .. => "cone" | .cyl .. => "cyl"
  | .seg .. => "seg" | .tri .. => "tri" | .hs .. => "hs" | .poly .. => "poly" | .polyh .. => "polyh"
  | .trimesh .. => "trimesh" | .polyline .. => "polyline" | .hf .. => "hf" | .round .. => "round" | .compound .. => "compound"

def piso3q : P (Iso3 Rat) := do
  let i ← pq; let j ← pq; let k ← pq; let w ← pq; let t ← pq3; pure ⟨i, j, k, w, t⟩

def ppolyhBody : P Sh3 := do
  let k ← pnat; let pts ← pmany pq3 k
  let nt ← pnat; let tris ← pmany ptri nt
  let nf ← pnat; let ns ← pmany (do let i ← pnat; let n ← pq3; pure (i, n)) nf
  pure (.polyh pts tris ns)

def phfBody (withTris : Bool) : P Sh3 := do
  let nr ← pnat; let nc ← pnat
  let hs ← pmany pq (nr * nc)
  let sc ← pq3
  let ns ← pnat; let st ← pmany pnat ns
  if withTris then do
    let nt ← pnat
    let ts ← pmany (do let a ← pq3; let b ← pq3; let c ← pq3; pure (a, b, c)) nt
    pure (.hf nr nc hs sc st (some ts))
  else pure (.hf nr nc hs sc st none)

partial def psh3 : P Sh3 := do
  let t ← tok
  match t with
  | "ball" => do let r ← pq; pure (.ball r)
  | "cuboid" => do let h ← pq3; pure (.cuboid h)
  | "capsule" => do let a ← pq3; let b ← pq3; let r ← pq; pure (.capsule a b r)
  | "cone" => do let hh ← pq; let r ← pq; pure (.cone hh r)
  | "cyl" => do let hh ← pq; let r ← pq; pure (.cyl hh r)
  | "seg" => do let a ← pq3; let b ← pq3; pure (.seg a b)
  | "tri" => do let a ← pq3; let b ← pq3; let c ← pq3; pure (.tri a b c)
  | "hs" => do let n ← pq3; pure (.hs n)
  | "poly" => do let k ← pnat; let pts ← pmany pq3 k; pure (.poly pts)
  | "polyh" => ppolyhBody
  | "trimesh" => do let nv ← pnat; let vs ← pmany pq3 nv; let nt ← pnat; let ts ← pmany ptri nt; pure (.trimesh vs ts)
  | "polyline" => do let nv ← pnat; let vs ← pmany pq3 nv; let ne ← pnat; let es ← pmany pedge ne; pure (.polyline vs es)
  | "hf" => phfBody false
  | "hfo" => phfBody true
  | "rcuboid" => do let h ← pq3; let br ← pq; pure (.round (.cuboid h) br)
  | "rcyl" => do let hh ← pq; let r ← pq; let br ← pq; pure (.round (.cyl hh r) br)
  | "rcone" => do let hh ← pq; let r ← pq; let br ← pq; pure (.round (.cone hh r) br)
  | "rtri" => do let a ← pq3; let b ← pq3; let c ← pq3; let br ← pq; pure (.round (.tri a b c) br)
  | "rpolyh" => do let br ← pq; let p ← ppolyhBody; pure (.round p br)
  | "compound" => do
      let k ← pnat
      let parts ← pmany (do let m ← piso3q; let s ← psh3; pure (m, s)) k
      pure (.compound parts)
  | _ => failure

/-! ## solids as exact membership predicates (generic in the point type) -/

structure VOps (V : Type) where
  add : V → V → V
  sub : V → V → V
  smul : V → Rat → V
  cmul : V → V → V
  cdiv : V → V → V
  l1 : V → Rat
  fmt : V → String

def ops3 : VOps Q3 := ⟨V3.add, V3.sub, V3.smul, V3.cmul, fun a b => ⟨a.x / b.x, a.y / b.y, a.z / b.z⟩,
  fun a => rabs a.x + rabs a.y + rabs a.z, fmt3⟩
def ops2 : VOps Q2 := ⟨V2.add, V2.sub, V2.smul, V2.cmul, fun a b => ⟨a.x / b.x, a.y / b.y⟩,
  fun a => rabs a.x + rabs a.y, fmt2⟩

inductive Cls where | inn | near | out
  deriving BEq, Repr

/-- a solid in its local frame -/
structure Solid (V : Type) where
  /-- exact membership (closed set) -/
  mem : V → Bool
  /-- a centre the solid is star-shaped about -/
  c : V
  /-- local sample points (grid over the bounding box, stretched past it) -/
  samples : List V
  /-- curved boundary: a polyhedral image is a discretization -/
  curved : Bool
  /-- vertices, when polyhedral -/
  verts : List V
  polyhedral : Bool
  /-- half-space: classified by the signed distance to the plane (the homothety about any boundary point fixes it) -/
  plane : Option (V → Rat)
  /-- well-formed (non-negative extents …) -/
  valid : Bool

def band : Rat := 1 / 1000000

/-- inside / outside by more than a relative band of 1e-6, or near the boundary -/
def Solid.cls {V} (o : VOps V) (S : Solid V) (p : V) (e : Rat := band) : Cls :=
  match S.plane with
  | some d =>
    let x := d p
    if x < -(e * (1 + o.l1 p)) then .inn else if x > e * (1 + o.l1 p) then .out else .near
  | none =>
    let grow (f : Rat) := o.add S.c (o.smul (o.sub p S.c) f)
    if S.mem (grow (1 + e)) then .inn else if !S.mem (grow (1 - e)) then .out else .near

/-- inside the copy of the solid shrunk by `lam` about its centre -/
def Solid.deep {V} (o : VOps V) (S : Solid V) (p : V) (lam : Rat) : Bool :=
  lam > 0 && S.mem (o.add S.c (o.smul (o.sub p S.c) (1 / lam)))

structure Part (V : Type) where
  toWorld : V → V
  toLocal : V → V
  solid : Solid V

/-- sample multipliers; none is exactly ±1 so that no sample lies on a face of the bounding box -/
def grid7 : List Rat := [-5/4, -15/16, -1/2, 0, 1/3, 15/16, 9/8]
def grid5 : List Rat := [-9/8, -15/16, 1/5, 7/8, 5/4]
def gridPts3 (g : List Rat) (c h : Q3) : List Q3 :=
  g.flatMap fun a => g.flatMap fun b => g.map fun d => (⟨c.x + a * h.x, c.y + b * h.y, c.z + d * h.z⟩ : Q3)
def gridPts2 (g : List Rat) (c h : Q2) : List Q2 :=
  g.flatMap fun a => g.map fun b => (⟨c.x + a * h.x, c.y + b * h.y⟩ : Q2)

/-- the generic transfer judgement in world space.
`ins[i]` ↦ `outs[i]`; part `i` is *discretized* when the input is curved and the output polyhedral. -/
def transfer {V} (o : VOps V) (ins outs : List (Part V)) (s : V) (lam : Rat) : String :=
  if ins.length != outs.length then s!"fail part-count {ins.length}->{outs.length}" else
  if outs.any (fun p => !p.solid.valid) then "fail negative-or-degenerate-extent" else
  let pairs := ins.zip outs
  let disc (io : Part V × Part V) : Bool := io.1.solid.curved && io.2.solid.polyhedral
  -- (1) every vertex of a polyhedral fallback lies on the scaled boundary of its part
  let badVert := pairs.findSome? fun io =>
    if !disc io then none else
    io.2.solid.verts.findSome? fun v =>
      let w := o.cdiv (io.2.toWorld v) s
      match io.1.solid.cls o (io.1.toLocal w) with
      | .near => none
      | _ => some (o.fmt v)
  match badVert with
  | some v => s!"fail fallback-vertex-off-the-scaled-boundary v={v}"
  | none =>
  -- (2) membership transfer on the samples of every part
  let samples := ins.flatMap fun p => p.solid.samples.map p.toWorld
  let bad := samples.findSome? fun w =>
    let w' := o.cmul w s
    let cin := pairs.map fun io => (io.1.solid.cls o (io.1.toLocal w), disc io, io.1.solid.deep o (io.1.toLocal w) lam)
    let cout := outs.map fun p => p.solid.cls o (p.toLocal w')
    let inDeep := cin.any fun (c, d, dp) => if d then dp else c == .inn
    let inOut := cin.all fun (c, _, _) => c == .out
    let outIn := cout.any (· == .inn)
    let outOut := cout.all (· == .out)
    if inDeep && outOut then some s!"inside-point-mapped-outside p={o.fmt w}"
    else if inOut && outIn then some s!"outside-point-mapped-inside p={o.fmt w}"
    else none
  match bad with
  | some m => s!"fail membership-not-preserved {m}"
  | none => "pass"

/-! ### 3-D solids -/

def box3 (h : Q3) (p : Q3) : Bool := rabs p.x ≤ h.x && rabs p.y ≤ h.y && rabs p.z ≤ h.z

structure Plane3 where
  n : Q3
  d : Rat
  /-- sign of the centroid side -/
  sgn : Rat

def planesOf (pts : Array Q3) (tris : List (Nat × Nat × Nat)) (cen : Q3) : List Plane3 :=
  tris.filterMap fun (a, b, c) =>
    match pts[a]?, pts[b]?, pts[c]? with
    | some pa, some pb, some pc =>
      let n := (pb.sub pa).cross (pc.sub pa)
      let d := n.dot pa
      let sc := n.dot cen - d
      if sc = 0 then none else some ⟨n, d, if sc > 0 then 1 else -1⟩
    | _, _, _ => none

def centroid3 (pts : List Q3) : Q3 :=
  if pts.isEmpty then V3.zero else (pts.foldl V3.add V3.zero).smul (1 / (pts.length : Rat))
def centroid2 (pts : List Q2) : Q2 :=
  if pts.isEmpty then V2.zero else (pts.foldl V2.add V2.zero).smul (1 / (pts.length : Rat))

def spread3 (c : Q3) (pts : List Q3) : Q3 :=
  pts.foldl (fun h p => ⟨rmax h.x (rabs (p.x - c.x)), rmax h.y (rabs (p.y - c.y)), rmax h.z (rabs (p.z - c.z))⟩) ⟨0, 0, 0⟩
def spread2 (c : Q2) (pts : List Q2) : Q2 :=
  pts.foldl (fun h p => ⟨rmax h.x (rabs (p.x - c.x)), rmax h.y (rabs (p.y - c.y))⟩) ⟨0, 0⟩

def solid3 : Sh3 → Option (Solid Q3)
  | .ball r => some { mem := fun p => p.normSq ≤ r * r, c := V3.zero, samples := gridPts3 grid7 V3.zero ⟨r, r, r⟩,
                      curved := true, verts := [], polyhedral := false, plane := none, valid := r ≥ 0 }
  | .cuboid h => some { mem := box3 h, c := V3.zero, samples := gridPts3 grid7 V3.zero h,
                        curved := false, verts := [], polyhedral := false, plane := none, valid := h.x ≥ 0 && h.y ≥ 0 && h.z ≥ 0 }
  | .capsule a b r =>
      let c := (a.add b).smul (1 / 2)
      let h : Q3 := ⟨rabs (b.x - a.x) / 2 + r, rabs (b.y - a.y) / 2 + r, rabs (b.z - a.z) / 2 + r⟩
      some { mem := fun p => d2seg3 a b p ≤ r * r, c := c, samples := gridPts3 grid7 c h,
             curved := true, verts := [], polyhedral := false, plane := none, valid := r ≥ 0 }
  | .cone hh r =>
      some { mem := fun p => rabs p.y ≤ hh && (p.x * p.x + p.z * p.z) * sqr (2 * hh) ≤ r * r * sqr (hh - p.y),
             c := V3.zero,
             -- the grid (incl. points at 15/16 of the apex / base height and of the rim radius) + points next to the apex,
             -- under the base rim and above the rim height on both sides of the lateral surface
             samples := gridPts3 grid7 V3.zero ⟨r, hh, r⟩ ++
               [⟨0, hh * 31 / 32, 0⟩, ⟨r / 64, hh * 31 / 32, 0⟩, ⟨r / 8, hh * 31 / 32, 0⟩, ⟨0, -hh * 31 / 32, 0⟩,
                ⟨r * 7 / 8, -hh * 31 / 32, 0⟩, ⟨0, -hh * 31 / 32, -r * 7 / 8⟩, ⟨r * 3 / 5, -hh * 31 / 32, r * 3 / 5⟩,
                ⟨r * 7 / 8, hh * 31 / 32, 0⟩, ⟨r * 3 / 8, 0, r * 3 / 8⟩, ⟨r * 5 / 8, hh / 4, 0⟩, ⟨r * 5 / 8, -hh / 4, 0⟩],
             curved := true, verts := [], polyhedral := false, plane := none, valid := hh ≥ 0 && r ≥ 0 }
  | .cyl hh r =>
      some { mem := fun p => rabs p.y ≤ hh && p.x * p.x + p.z * p.z ≤ r * r, c := V3.zero,
             samples := gridPts3 grid7 V3.zero ⟨r, hh, r⟩, curved := true, verts := [], polyhedral := false, plane := none,
             valid := hh ≥ 0 && r ≥ 0 }
  | .hs n => some { mem := fun p => n.dot p ≤ 0, c := V3.zero, samples := gridPts3 grid7 V3.zero ⟨2, 2, 2⟩,
                    curved := false, verts := [], polyhedral := false, plane := some (fun p => n.dot p), valid := near n.normSq 1 }
  | .polyh pts tris _ =>
      let cen := centroid3 pts
      let P := pts.toArray
      let planes := planesOf P tris cen
      let h := spread3 cen pts
      let g := if tris.length > 80 then grid5 else grid7
      some { mem := fun p => planes.all fun pl => (pl.n.dot p - pl.d) * pl.sgn ≥ 0,
             c := cen, samples := gridPts3 g cen h, curved := false, verts := pts, polyhedral := true, plane := none,
             valid := pts.length ≥ 4 && !planes.isEmpty && tris.all fun (a, b, c) => a < P.size && b < P.size && c < P.size }
  | _ => none

def rotQuat (m : Iso3 Rat) (v : Q3) : Q3 :=
  -- exact rotation by the (possibly not exactly unit) quaternion: q v q⁻¹
  let n2 := m.qi * m.qi + m.qj * m.qj + m.qk * m.qk + m.qw * m.qw
  if n2 = 0 then v else
  let qv : Q3 := ⟨m.qi, m.qj, m.qk⟩
  let t := (qv.cross v).smul 2
  v.add (((t.smul m.qw).add (qv.cross t)).sdiv n2)
def invRotQuat (m : Iso3 Rat) (v : Q3) : Q3 := rotQuat ⟨-m.qi, -m.qj, -m.qk, m.qw, m.t⟩ v

def mkPart3 (m : Iso3 Rat) (S : Solid Q3) : Part Q3 :=
  ⟨fun p => (rotQuat m p).add m.t, fun w => invRotQuat m (w.sub m.t), S⟩

def idIso3 : Iso3 Rat := ⟨0, 0, 0, 1, V3.zero⟩

/-- the solid parts of a shape (a compound of solids, or one solid) -/
def parts3 : Sh3 → Option (List (Part Q3))
  | .compound ps => ps.mapM fun (m, s) => (solid3 s).map (mkPart3 m)
  | s => (solid3 s).map fun S => [mkPart3 idIso3 S]

/-- shrink factor below which a curved solid is inside its discretization with `n` subdivisions
(`μ = cos(π/(n-1))` bounds every ring; two nested rings for the sphere; the cone needs `μ/(2-μ)`) -/
def lamOf (n : Nat) : Rat :=
  let mu := cosLB ((n : Rat) - 1)
  if mu ≤ 0 then 0 else mu * mu / (2 - mu * mu) - 1 / 100

def closedOriented (tris : List (Nat × Nat × Nat)) : Bool :=
  let edges := tris.flatMap fun (a, b, c) => [(a, b), (b, c), (c, a)]
  let m : Std.HashMap (Nat × Nat) Nat := edges.foldl (fun m e => m.insert e (m.getD e 0 + 1)) {}
  edges.all fun (a, b) => a != b && m.getD (a, b) 0 == 1 && m.getD (b, a) 0 == 1

/-- structural well-formedness of a convex polyhedron produced by the code: closed consistently oriented faces, every face
plane supporting (all vertices on one side), unit face normals pointing away from the centroid -/
def polyhWellFormed (pts : List Q3) (tris : List (Nat × Nat × Nat)) (normals : List (Nat × Q3)) : Option String :=
  let P := pts.toArray
  if tris.any (fun (a, b, c) => a ≥ P.size || b ≥ P.size || c ≥ P.size) then some "face-index-out-of-range" else
  if !closedOriented tris then some "faces-not-closed-or-not-consistently-oriented" else
  let cen := centroid3 pts
  let h := spread3 cen pts
  let scale := 1 + h.x + h.y + h.z
  let notSupporting := tris.any fun (a, b, c) =>
    match P[a]?, P[b]?, P[c]? with
    | some pa, some pb, some pc =>
      let n := (pb.sub pa).cross (pc.sub pa)
      let sc := n.dot (cen.sub pa)
      let t := band * scale * scale * scale
      pts.any fun p => let x := n.dot (p.sub pa); if sc > 0 then x < -t else x > t
    | _, _, _ => true
  if notSupporting then some "face-plane-not-supporting" else
  -- outward orientation of the triangulated faces: positive signed volume about the centroid
  let vol6 := tris.foldl (fun acc (a, b, c) =>
    match P[a]?, P[b]?, P[c]? with
    | some pa, some pb, some pc => acc + (pa.sub cen).dot ((pb.sub cen).cross (pc.sub cen))
    | _, _, _ => acc) (0 : Rat)
  if vol6 ≤ 0 then some "faces-inward-oriented" else
  let badNormal := normals.findSome? fun (i, n) =>
    match P[i]? with
    | none => some "normal-vertex-index-out-of-range"
    | some p =>
      if !(rabs (n.normSq - 1) ≤ band) then some "face-normal-not-unit"
      else if n.dot (cen.sub p) > 0 then some "face-normal-points-inward"
      -- the plane through the face's first vertex with the stored normal supports the polyhedron and contains a face
      else if pts.any (fun v => n.dot (v.sub p) > band * scale) then some "face-normal-not-orthogonal-to-its-face"
      else if (pts.filter fun v => rabs (n.dot (v.sub p)) ≤ band * scale).length < 3 then some "face-normal-not-orthogonal-to-its-face"
      else none
  badNormal

/-- expected triangles of a 3-D heightfield (the documented semantics: vertex `(i, j)` at
`x = (-1/2 + j/(nc-1))·sx`, `z = (-1/2 + i/(nr-1))·sz`, height `h(i,j)·sy`; cell status bits zigzag=1, left removed=2,
right removed=4), in the order of `HeightField::triangles()` (column by column) -/
def hfExpected (nr nc : Nat) (hs : List Rat) (sc : Q3) (st : List Nat) : List (Q3 × Q3 × Q3) :=
  let H := hs.toArray; let S := st.toArray
  let node (i j : Nat) : Q3 :=
    ⟨(-(1/2 : Rat) + (j : Rat) / ((nc : Rat) - 1)) * sc.x, (H[i * nc + j]?).getD 0 * sc.y,
     (-(1/2 : Rat) + (i : Rat) / ((nr : Rat) - 1)) * sc.z⟩
  (List.range (nc - 1)).flatMap fun j => (List.range (nr - 1)).flatMap fun i =>
    let s := (S[i * (nc - 1) + j]?).getD 0
    let zig := s % 2 == 1; let l := (s / 2) % 2 == 1; let r := (s / 4) % 2 == 1
    let p00 := node i j; let p10 := node (i + 1) j; let p01 := node i (j + 1); let p11 := node (i + 1) (j + 1)
    if l && r then [] else
    if zig then (if l then [] else [(p00, p10, p11)]) ++ (if r then [] else [(p00, p11, p01)])
    else (if l then [] else [(p00, p10, p01)]) ++ (if r then [] else [(p10, p11, p01)])

def nearTri (t u : Q3 × Q3 × Q3) : Bool := near3 t.1 u.1 && near3 t.2.1 u.2.1 && near3 t.2.2 u.2.2

partial def judge3 (S S' : Sh3) (s : Q3) (n : Nat) : String :=
  let sc (p : Q3) : Q3 := p.cmul s
  match S, S' with
  | .round i br, .round i' br' =>
      -- the border radius is kept by design (it cannot be scaled non-uniformly); the inner shape is judged
      if br != br' then "fail border-radius-changed" else judge3 i i' s n
  | .seg a b, .seg a' b' => if near3 a' (sc a) && near3 b' (sc b) then "pass" else "fail vertices-not-scaled"
  | .tri a b c, .tri a' b' c' =>
      if near3 a' (sc a) && near3 b' (sc b) && near3 c' (sc c) then "pass" else "fail vertices-not-scaled"
  | .trimesh vs ts, .trimesh vs' ts' =>
      if ts != ts' then "fail index-buffer-changed" else
      if vs.length != vs'.length then "fail vertex-count-changed" else
      if (vs.zip vs').all fun (v, v') => near3 v' (sc v) then "pass" else "fail vertices-not-scaled"
  | .polyline vs es, .polyline vs' es' =>
      if es != es' then "fail index-buffer-changed" else
      if vs.length != vs'.length then "fail vertex-count-changed" else
      if (vs.zip vs').all fun (v, v') => near3 v' (sc v) then "pass" else "fail vertices-not-scaled"
  | .hf nr nc hs sc0 st _, .hf nr' nc' hs' sc' st' (some tris) =>
      if nr != nr' || nc != nc' || hs != hs' then "fail heights-changed" else
      if st != st' then "fail cell-status-changed" else
      if !near3 sc' (sc0.cmul s) then "fail scale-not-multiplied" else
      let exp := (hfExpected nr nc hs sc0 st).map fun (a, b, c) => (sc a, sc b, sc c)
      if exp.length != tris.length then s!"fail triangle-count {tris.length} expected {exp.length}" else
      if (exp.zip tris).all fun (e, t) => nearTri e t then "pass" else "fail triangles-not-the-scaled-triangles"
  | .poly pts, .polyh pts' tris _ =>
      -- the hull of the input points (all in convex position) scaled: same vertex set, well-formed faces
      if !(pts'.all fun p' => pts.any fun p => near3 p' (sc p)) then "fail vertex-not-a-scaled-input-vertex" else
      if !(pts.all fun p => pts'.any fun p' => near3 p' (sc p)) then "fail scaled-input-vertex-missing" else
      if closedOriented tris then "pass" else "fail faces-not-closed-or-not-consistently-oriented"
  | _, _ =>
    match parts3 S, parts3 S' with
    | some ins, some outs =>
      let rotated := (match S with
        | .compound ps => ps.any fun ((m, _) : Iso3 Rat × Sh3) => m.qi != 0 || m.qj != 0 || m.qk != 0
        | _ => false)
      let v := transfer ops3 ins outs s (lamOf n)
      -- `Compound::scale_dyn` scales every part in the part's own frame: exact only when the rotation commutes with the scale
      if rotated && !(s.x = s.y && s.y = s.z) && v.startsWith "fail" then
        "fail compound-rotated-part-under-nonuniform-scale " ++ (v.drop 5).toString else v
    | _, _ => s!"fail kind {S.kind}->{S'.kind}"

/-- well-formedness of every convex polyhedron in the output (normals, orientation) -/
partial def wf3 : Sh3 → Option String
  | .polyh pts tris normals => some ((polyhWellFormed pts tris normals).getD "")
  | .round i _ => wf3 i
  | .compound ps =>
      let rs := ps.filterMap fun ((_, p) : Iso3 Rat × Sh3) => wf3 p
      if rs.isEmpty then none else some ((rs.find? (· != "")).getD "")
  | _ => none

/-! ### 2-D -/

inductive Sh2 where
  | ball (r : Rat)
  | cuboid (he : Q2)
  | capsule (a b : Q2) (r : Rat)
  | seg (a b : Q2)
  | tri (a b c : Q2)
  | hs (n : Q2)
  | polygon (pts : List Q2)
  | polygono (pts : List Q2) (normals : List Q2)
  | polyline (vs : List Q2) (es : List (Nat × Nat))
  | hf (hs : List Rat) (sc : Q2) (removed : List Bool) (segs : Option (List (Q2 × Q2)))
  | round (inner : Sh2) (br : Rat)
  | compound (parts : List (Iso2 Rat × Sh2))
  deriving Inhabited

def Sh2.kind : Sh2 → String
  | .ball .. => "ball" | .cuboid .. => "cuboid" | .capsule .. => "capsule" | .seg .. => "seg" | .tri .. => "tri"
  | .hs .. => "hs" | .polygon .. => "polygon" | .polygono .. => "polygono" | .polyline .. => "polyline" | .hf .. => "hf"
  | .round .. => "round" | .compound .. => "compound"

def piso2q : P (Iso2 Rat) := do let re ← pq; let im ← pq; let t ← pq2; pure ⟨re, im, t⟩

def ppolygonoBody : P Sh2 := do
  let k ← pnat; let pts ← pmany pq2 k
  let kn ← pnat; let ns ← pmany pq2 kn
  pure (.polygono pts ns)

def phf2Body (withSegs : Bool) : P Sh2 := do
  let n ← pnat; let hs ← pmany pq n
  let sc ← pq2
  let ns ← pnat; let rm ← pmany pbool ns
  if withSegs then do
    let k ← pnat
    let segs ← pmany (do let a ← pq2; let b ← pq2; pure (a, b)) k
    pure (.hf hs sc rm (some segs))
  else pure (.hf hs sc rm none)

partial def psh2 : P Sh2 := do
  let t ← tok
  match t with
  | "ball" => do let r ← pq; pure (.ball r)
  | "cuboid" => do let h ← pq2; pure (.cuboid h)
  | "capsule" => do let a ← pq2; let b ← pq2; let r ← pq; pure (.capsule a b r)
  | "seg" => do let a ← pq2; let b ← pq2; pure (.seg a b)
  | "tri" => do let a ← pq2; let b ← pq2; let c ← pq2; pure (.tri a b c)
  | "hs" => do let n ← pq2; pure (.hs n)
  | "polygon" => do let k ← pnat; let pts ← pmany pq2 k; pure (.polygon pts)
  | "polygono" => ppolygonoBody
  | "polyline" => do let nv ← pnat; let vs ← pmany pq2 nv; let ne ← pnat; let es ← pmany pedge ne; pure (.polyline vs es)
  | "hf" => phf2Body false
  | "hfo" => phf2Body true
  | "rcuboid" => do let h ← pq2; let br ← pq; pure (.round (.cuboid h) br)
  | "rpolygono" => do let br ← pq; let p ← ppolygonoBody; pure (.round p br)
  | "compound" => do
      let k ← pnat
      let parts ← pmany (do let m ← piso2q; let s ← psh2; pure (m, s)) k
      pure (.compound parts)
  | _ => failure

def cross2 (a b : Q2) : Rat := a.x * b.y - a.y * b.x

/-- edges `(p_i, p_{i+1})` of a closed polygon -/
def cyc {α} (l : List α) : List (α × α) :=
  match l with
  | [] => []
  | x :: _ => l.zip (l.drop 1 ++ [x])

def solid2 : Sh2 → Option (Solid Q2)
  | .ball r => some { mem := fun p => p.normSq ≤ r * r, c := V2.zero, samples := gridPts2 grid7 V2.zero ⟨r, r⟩,
                      curved := true, verts := [], polyhedral := false, plane := none, valid := r ≥ 0 }
  | .cuboid h => some { mem := fun p => rabs p.x ≤ h.x && rabs p.y ≤ h.y, c := V2.zero, samples := gridPts2 grid7 V2.zero h,
                        curved := false, verts := [], polyhedral := false, plane := none, valid := h.x ≥ 0 && h.y ≥ 0 }
  | .capsule a b r =>
      let c := (a.add b).smul (1 / 2)
      let h : Q2 := ⟨rabs (b.x - a.x) / 2 + r, rabs (b.y - a.y) / 2 + r⟩
      some { mem := fun p => d2seg2 a b p ≤ r * r, c := c, samples := gridPts2 grid7 c h,
             curved := true, verts := [], polyhedral := false, plane := none, valid := r ≥ 0 }
  | .hs n => some { mem := fun p => n.dot p ≤ 0, c := V2.zero, samples := gridPts2 grid7 V2.zero ⟨2, 2⟩,
                    curved := false, verts := [], polyhedral := false, plane := some (fun p => n.dot p), valid := near n.normSq 1 }
  | .polygono pts _ =>
      let cen := centroid2 pts
      let es := (cyc pts).filterMap fun (a, b) =>
        let sc := cross2 (b.sub a) (cen.sub a)
        if sc = 0 then none else some (a, b, if sc > 0 then (1 : Rat) else -1)
      some { mem := fun p => es.all fun (a, b, sg) => cross2 (b.sub a) (p.sub a) * sg ≥ 0,
             c := cen, samples := gridPts2 grid7 cen (spread2 cen pts), curved := false, verts := pts, polyhedral := true,
             plane := none, valid := pts.length ≥ 3 && !es.isEmpty }
  | _ => none

def mkPart2 (m : Iso2 Rat) (S : Solid Q2) : Part Q2 :=
  let n2 := m.re * m.re + m.im * m.im
  ⟨fun p => (if n2 = 0 then p else (m.rot p)).add m.t,
   fun w => let v := w.sub m.t; if n2 = 0 then v else (m.invRot v).sdiv n2, S⟩

def parts2 : Sh2 → Option (List (Part Q2))
  | .compound ps => ps.mapM fun (m, s) => (solid2 s).map (mkPart2 m)
  | s => (solid2 s).map fun S => [mkPart2 ⟨1, 0, V2.zero⟩ S]

/-- well-formedness of a convex polygon produced by the code: convex, counter-clockwise, every normal unit, orthogonal to
its edge `(p_i, p_{i+1})` and pointing away from the centroid -/
def polygonWellFormed (pts normals : List Q2) : Option String :=
  if pts.length < 3 then some "fewer-than-3-vertices" else
  if normals.length != pts.length then some "normal-count" else
  let cen := centroid2 pts
  let h := spread2 cen pts
  let scale := 1 + h.x + h.y
  let es := cyc pts
  if es.any (fun (a, b) => pts.any fun p => cross2 (b.sub a) (p.sub a) < -(band * scale * scale)) then some "not-convex-or-not-counterclockwise" else
  (es.zip normals).findSome? fun ((a, b), n) =>
    if !(rabs (n.normSq - 1) ≤ band) then some "normal-not-unit"
    else if !(rabs (n.dot (b.sub a)) ≤ band * scale) then some "normal-not-orthogonal-to-its-edge"
    else if n.dot (cen.sub a) > 0 then some "normal-points-inward" else none

/-- expected segments of a 2-D heightfield: vertex `i` at `x = (-1/2 + i/(n-1))·sx`, height `h_i·sy` -/
def hf2Expected (hs : List Rat) (sc : Q2) (removed : List Bool) : List (Q2 × Q2) :=
  let H := hs.toArray; let R := removed.toArray
  let n := hs.length
  let node (i : Nat) : Q2 := ⟨(-(1/2 : Rat) + (i : Rat) / ((n : Rat) - 1)) * sc.x, (H[i]?).getD 0 * sc.y⟩
  (List.range (n - 1)).filterMap fun i => if (R[i]?).getD true then none else some (node i, node (i + 1))

partial def judge2 (S S' : Sh2) (s : Q2) (n : Nat) : String :=
  let sc (p : Q2) : Q2 := p.cmul s
  match S, S' with
  | .round i br, .round i' br' => if br != br' then "fail border-radius-changed" else judge2 i i' s n
  | .seg a b, .seg a' b' => if near2 a' (sc a) && near2 b' (sc b) then "pass" else "fail vertices-not-scaled"
  | .tri a b c, .tri a' b' c' =>
      if near2 a' (sc a) && near2 b' (sc b) && near2 c' (sc c) then "pass" else "fail vertices-not-scaled"
  | .polyline vs es, .polyline vs' es' =>
      if es != es' then "fail index-buffer-changed" else
      if vs.length != vs'.length then "fail vertex-count-changed" else
      if (vs.zip vs').all fun (v, v') => near2 v' (sc v) then "pass" else "fail vertices-not-scaled"
  | .hf hs sc0 rm _, .hf hs' sc' rm' (some segs) =>
      if hs != hs' then "fail heights-changed" else
      if rm != rm' then "fail removed-flags-changed" else
      if !near2 sc' (sc0.cmul s) then "fail scale-not-multiplied" else
      let exp := (hf2Expected hs sc0 rm).map fun (a, b) => (sc a, sc b)
      if exp.length != segs.length then s!"fail segment-count {segs.length} expected {exp.length}" else
      if (exp.zip segs).all fun (e, t) => near2 e.1 t.1 && near2 e.2 t.2 then "pass" else "fail segments-not-the-scaled-segments"
  | .polygon pts, .polygono pts' _ =>
      if !(pts'.all fun p' => pts.any fun p => near2 p' (sc p)) then "fail vertex-not-a-scaled-input-vertex" else
      if !(pts.all fun p => pts'.any fun p' => near2 p' (sc p)) then "fail scaled-input-vertex-missing" else
      "pass"
  | _, _ =>
    match parts2 S, parts2 S' with
    | some ins, some outs =>
      let rotated := (match S with
        | .compound ps => ps.any fun ((m, _) : Iso2 Rat × Sh2) => m.im != 0
        | _ => false)
      let v := transfer ops2 ins outs s (lamOf n)
      if rotated && !(s.x = s.y) && v.startsWith "fail" then
        "fail compound-rotated-part-under-nonuniform-scale " ++ (v.drop 5).toString else v
    | _, _ => s!"fail kind {S.kind}->{S'.kind}"

partial def wf2 : Sh2 → Option String
  | .polygono pts normals => some ((polygonWellFormed pts normals).getD "")
  | .round i _ => wf2 i
  | .compound ps =>
      let rs := ps.filterMap fun ((_, p) : Iso2 Rat × Sh2) => wf2 p
      if rs.isEmpty then none else some ((rs.find? (· != "")).getD "")
  | _ => none

/-! ## handlers: scaling -/

def twoPiF : Float := 3.14159265358979323846 + 3.14159265358979323846
def csF (t : Float) : Float × Float := (Float.cos t, Float.sin t)

def fpts3 (l : List (V3 Float)) : String := l.foldl (fun s p => s ++ " " ++ fv3 p) s!"{l.length}"

def handlerScale (fn : String) : Option Handler :=
  match fn with
  | "scale_dyn3" => some {
      model := fun _ => some "-"
      oracle := fun a o =>
        match run (do let S ← psh3; let s ← pq3; let n ← pnat; pure (S, s, n)) a with
        | none => "skip bad-args"
        | some (S, s, n) =>
          if s.x = 0 || s.y = 0 || s.z = 0 then "skip degenerate-scale" else
          match o with
          | "panic" :: _ => "fail panic"
          | ["none"] => "fail none-for-a-non-degenerate-scale"
          | _ => match run (do let S' ← psh3; pend; pure S') o with
            | none => "fail unparsable-or-nonfinite-output"
            | some S' => judge3 S S' s n }
  | "scale_dyn2" => some {
      model := fun _ => some "-"
      oracle := fun a o =>
        match run (do let S ← psh2; let s ← pq2; let n ← pnat; pure (S, s, n)) a with
        | none => "skip bad-args"
        | some (S, s, n) =>
          if s.x = 0 || s.y = 0 then "skip degenerate-scale" else
          match o with
          | "panic" :: _ => "fail panic"
          | ["none"] => "fail none-for-a-non-degenerate-scale"
          | _ => match run (do let S' ← psh2; pend; pure S') o with
            | none => "fail unparsable-or-nonfinite-output"
            | some S' => judge2 S S' s n }
  | "scale_dyn3_wf" => some {
      model := fun _ => some "-"
      oracle := fun a o =>
        match run (do let S ← psh3; let s ← pq3; let n ← pnat; pure (S, s, n)) a with
        | none => "skip bad-args"
        | some (_, s, _) =>
          if s.x = 0 || s.y = 0 || s.z = 0 then "skip degenerate-scale" else
          match o with
          | "panic" :: _ => "fail panic"
          | ["none"] => "skip none"
          | _ => match run (do let S' ← psh3; pend; pure S') o with
            | none => "fail unparsable-or-nonfinite-output"
            | some S' => match wf3 S' with
              | none => "skip output-has-no-convex-polyhedron"
              | some "" => "pass"
              | some m => s!"fail {m}" }
  | "scale_dyn2_wf" => some {
      model := fun _ => some "-"
      oracle := fun a o =>
        match run (do let S ← psh2; let s ← pq2; let n ← pnat; pure (S, s, n)) a with
        | none => "skip bad-args"
        | some (_, s, _) =>
          if s.x = 0 || s.y = 0 then "skip degenerate-scale" else
          match o with
          | "panic" :: _ => "fail panic"
          | ["none"] => "skip none"
          | _ => match run (do let S' ← psh2; pend; pure S') o with
            | none => "fail unparsable-or-nonfinite-output"
            | some S' => match wf2 S' with
              | none => "skip output-has-no-convex-polygon"
              | some "" => "pass"
              | some m => s!"fail {m}" }
  | "cone_scaled" => some {
      model := fun a => run (do
        let hh ← pf; let r ← pf; let s ← pv3; let n ← pnat
        pure (match Cone.scaledFull csF twoPiF (Float.ofNat n) (Cone.mk hh r) s n with
          | .inl c => s!"cone {ff c.hh} {ff c.r}"
          | .inr pts => s!"poly {fpts3 pts}")) a
      oracle := fun a o =>
        match run (do let hh ← pq; let r ← pq; let s ← pq3; let n ← pnat; pure (hh, r, s, n)) a with
        | none => "skip bad-args"
        | some (hh, r, s, n) =>
          if s.x = 0 || s.y = 0 || s.z = 0 then "skip degenerate-scale" else
          match o with
          | "panic" :: _ => "fail panic"
          | ["none"] => "fail none-for-a-non-degenerate-scale"
          | ["cone", _, _] =>
            (match run (do let S' ← psh3; pend; pure S') o with
             | some S' => judge3 (.cone hh r) S' s n
             | none => "fail unparsable-or-nonfinite-output")
          | "poly" :: rest =>
            (match run (do let k ← pnat; let pts ← pmany pq3 k; pend; pure pts) rest with
             | none => "fail unparsable-or-nonfinite-output"
             | some pts =>
               -- the fallback: base ring of `n` vertices + the apex, all on the scaled boundary; the apex and the ring are where
               -- the scaled cone has them (a mirrored cone has its apex at `-hh·|sy|`)
               if pts.length != n + 1 then s!"fail vertex-count {pts.length}" else
               let un (p : Q3) : Q3 := ⟨p.x / s.x, p.y / s.y, p.z / s.z⟩
               let apexOK := pts.any fun p => let u := un p; near u.y hh && near u.x 0 && near u.z 0
               let ring := pts.filter fun p => let u := un p; near u.y (-hh) && near (u.x * u.x + u.z * u.z) (r * r)
               if !apexOK then "fail apex-missing-or-misplaced" else
               if ring.length != n then s!"fail base-ring-vertices {ring.length} of {n}" else
               -- coverage: every direction of the base plane is within half a step of a ring vertex
               let lb := cosLB ((n : Rat) - 1 / 2)
               let dirs : List (Rat × Rat) := [(1, 0), (0, 1), (-1, 0), (0, -1), (3/5, 4/5), (-4/5, 3/5), (-3/5, -4/5), (4/5, -3/5)]
               let uncovered := dirs.filter fun (dx, dz) => !(ring.any fun p => let u := un p; u.x * dx + u.z * dz ≥ r * lb - tolR)
               if n ≥ 3 && !uncovered.isEmpty then "fail base-ring-does-not-go-around" else "pass")
          | _ => "fail unparsable-output" }
  | _ => none


/-! ## discretizations -/

/-- the boundary of a (possibly rounded) solid as "points at distance `br` from the inner solid" -/
structure Surf (V : Type) where
  /-- closed inner solid -/
  inside : V → Bool
  /-- squared distance to the boundary of the inner solid -/
  d2 : V → Rat
  br : Rat
  c : V
  /-- the ball of this radius about `c` is inside the solid -/
  rin : Rat
  /-- the solid is inside the ball of this radius about `c` -/
  rout : Rat

def Surf.t {V} (S : Surf V) : Rat := tolR * (1 + S.rout)
def Surf.on {V} (S : Surf V) (p : V) : Bool :=
  let t := S.t
  if S.br = 0 then S.d2 p ≤ t * t
  else !S.inside p && S.d2 p ≤ sqr (S.br + t) && S.d2 p ≥ sqr (rmax (S.br - t) 0)
def Surf.inOrOn {V} (S : Surf V) (p : V) : Bool := S.inside p || S.d2 p ≤ sqr (S.br + S.t)
def Surf.outOrOn {V} (S : Surf V) (p : V) : Bool :=
  if S.br = 0 then !S.inside p || S.d2 p ≤ sqr S.t else !S.inside p && S.d2 p ≥ sqr (rmax (S.br - S.t) 0)
/-- `p` is in the solid and no deeper than a chord of half-angle `acos mu0` of a circle of radius `rout` can be -/
def Surf.within {V} (o : VOps V) (S : Surf V) (mu0 : Rat) (p : V) : Bool :=
  -- a chord midpoint is at depth ≤ (1-mu0)·rout; the points of the solid shrunk by 1/g about `c` are at depth ≥ (1-1/g)·rin
  let k := if S.rin ≤ 0 then 1 else (1 - mu0) * S.rout / S.rin
  if k ≥ 1 then S.inOrOn p else
  let g := 1 / (1 - k) + band
  S.inOrOn p && S.outOrOn (o.add S.c (o.smul (o.sub p S.c) g))

def l1of (v : Q3) : Rat := rabs v.x + rabs v.y + rabs v.z

def surfBall3 (r : Rat) : Surf Q3 := ⟨fun _ => false, fun p => p.normSq, r, V3.zero, r, r⟩
def surfCapsule3 (a b : Q3) (r : Rat) : Surf Q3 :=
  ⟨fun _ => false, d2seg3 a b, r, (a.add b).smul (1 / 2), r, r + l1of (b.sub a) / 2⟩
def surfCuboid3 (h : Q3) (br : Rat) : Surf Q3 :=
  ⟨box3 h,
   fun p =>
     let ex := rabs p.x - h.x; let ey := rabs p.y - h.y; let ez := rabs p.z - h.z
     if ex ≤ 0 && ey ≤ 0 && ez ≤ 0 then sqr (rmin (-ex) (rmin (-ey) (-ez)))
     else sqr (rmax ex 0) + sqr (rmax ey 0) + sqr (rmax ez 0),
   br, V3.zero, rmin h.x (rmin h.y h.z) + br, h.x + h.y + h.z + br⟩

/-- solid of revolution about `y` of a convex profile polygon in the half-plane `(ρ, y)`, `ρ ≥ 0`: `prof` lists the boundary
polyline from the bottom of the axis to its top, counter-clockwise (the axis itself is not part of the boundary) -/
def surfRev (prof : List Q2) (br rin rout : Rat) : Surf Q3 :=
  let closed := cyc prof
  let edges := prof.zip (prof.drop 1)
  let rho (p : Q3) : Rat := (Rat.sqrtExact? (p.x * p.x + p.z * p.z)).getD (Rat.sqrtApprox (p.x * p.x + p.z * p.z))
  ⟨fun p => let w : Q2 := ⟨rho p, p.y⟩; closed.all fun (a, b) => cross2 (b.sub a) (w.sub a) ≥ 0,
   fun p => let w : Q2 := ⟨rho p, p.y⟩; edges.foldl (fun m (a, b) => rmin m (d2seg2 a b w)) (d2seg2 (prof.headD V2.zero) (prof.headD V2.zero) w),
   br, V3.zero, rin, rout⟩
def surfCyl (hh r br : Rat) : Surf Q3 :=
  surfRev [⟨0, -hh⟩, ⟨r, -hh⟩, ⟨r, hh⟩, ⟨0, hh⟩] br (rmin hh r + br) (hh + r + br)
def surfCone (hh r br : Rat) : Surf Q3 :=
  surfRev [⟨0, -hh⟩, ⟨r, -hh⟩, ⟨0, hh⟩] br (r * hh / (r + 2 * hh) + br) (hh + r + br)

def surfBall2 (r : Rat) : Surf Q2 := ⟨fun _ => false, fun p => p.normSq, r, V2.zero, r, r⟩
def surfCapsule2 (a b : Q2) (r : Rat) : Surf Q2 :=
  ⟨fun _ => false, d2seg2 a b, r, (a.add b).smul (1 / 2), r, r + (rabs (b.x - a.x) + rabs (b.y - a.y)) / 2⟩
/-- convex counter-clockwise polygon, rounded by `br` -/
def surfPolygon2 (pts : List Q2) (br : Rat) : Surf Q2 :=
  let es := cyc pts
  let cen := centroid2 pts
  let h := spread2 cen pts
  -- inradius about the centroid: smallest distance to an edge line (squared, via the exact segment distance) — a lower bound
  let rin2 := es.foldl (fun m (a, b) => rmin m (d2seg2 a b cen)) (sqr (h.x + h.y))
  ⟨fun p => es.all fun (a, b) => cross2 (b.sub a) (p.sub a) ≥ 0,
   fun p => es.foldl (fun m (a, b) => rmin m (d2seg2 a b p)) (d2seg2 (pts.headD V2.zero) (pts.headD V2.zero) p),
   br, cen, Rat.sqrtApprox rin2 * (99 / 100) + br, h.x + h.y + br⟩
def surfCuboid2 (h : Q2) (br : Rat) : Surf Q2 :=
  surfPolygon2 [⟨-h.x, -h.y⟩, ⟨h.x, -h.y⟩, ⟨h.x, h.y⟩, ⟨-h.x, h.y⟩] br

def pmesh3 : P (List Q3 × List (Nat × Nat × Nat)) := do
  let k ← pnat; let pts ← pmany pq3 k; let nt ← pnat; let tris ← pmany ptri nt; pend; pure (pts, tris)
def poutline3 : P (List Q3 × List (Nat × Nat)) := do
  let k ← pnat; let pts ← pmany pq3 k; let ne ← pnat; let es ← pmany pedge ne; pend; pure (pts, es)

def mid3 (a b : Q3) : Q3 := (a.add b).smul (1 / 2)
def mid2 (a b : Q2) : Q2 := (a.add b).smul (1 / 2)

/-- closed, consistently outward-oriented triangle mesh whose vertices lie on the surface and whose triangles stay within the
discretisation error of it (centroid and edge midpoints of every triangle) -/
def meshJudge (S : Surf Q3) (mu0 : Rat) (pts : List Q3) (tris : List (Nat × Nat × Nat)) : String :=
  let P := pts.toArray
  if tris.isEmpty then "fail empty-mesh" else
  if tris.any (fun (a, b, c) => a ≥ P.size || b ≥ P.size || c ≥ P.size) then "fail index-out-of-range" else
  if !closedOriented tris then "fail not-closed-or-not-consistently-oriented" else
  match pts.find? (fun p => !S.on p) with
  | some p => s!"fail vertex-off-boundary {fmt3 p}"
  | none =>
  let tr (i : Nat) : Q3 := ((P[i]?).getD V3.zero).sub S.c
  let vol6 := tris.foldl (fun acc (a, b, c) => acc + (tr a).dot ((tr b).cross (tr c))) (0 : Rat)
  if vol6 ≤ 0 then "fail inward-oriented" else
  if tris.any (fun (a, b, c) => ((tr b).sub (tr a)).cross ((tr c).sub (tr a)) |>.dot (tr a) |> (· < -(tolR * (1 + S.rout * S.rout * S.rout))))
    then "fail face-normal-points-inward" else
  let bad := tris.findSome? fun (a, b, c) =>
    let pa := (P[a]?).getD V3.zero; let pb := (P[b]?).getD V3.zero; let pc := (P[c]?).getD V3.zero
    let cands := [((pa.add pb).add pc).smul (1 / 3), mid3 pa pb, mid3 pb pc, mid3 pc pa]
    cands.find? fun m => !S.within ops3 mu0 m
  match bad with
  | some m => s!"fail triangle-farther-than-the-discretisation-error {fmt3 m}"
  | none => "pass"

def outlineJudge (S : Surf Q3) (mu0 : Rat) (pts : List Q3) (es : List (Nat × Nat)) : String :=
  let P := pts.toArray
  if es.isEmpty then "fail empty-outline" else
  if es.any (fun (a, b) => a ≥ P.size || b ≥ P.size) then "fail index-out-of-range" else
  match pts.find? (fun p => !S.on p) with
  | some p => s!"fail vertex-off-boundary {fmt3 p}"
  | none =>
  match es.findSome? (fun (a, b) =>
      let m := mid3 ((P[a]?).getD V3.zero) ((P[b]?).getD V3.zero)
      if S.within ops3 mu0 m then none else some m) with
  | some m => s!"fail edge-farther-than-the-discretisation-error {fmt3 m}"
  | none =>
  -- every vertex is used by an edge
  let used : Std.HashMap Nat Unit := es.foldl (fun m (a, b) => (m.insert a ()).insert b ()) {}
  if (List.range P.size).any (fun i => !used.contains i) then "fail vertex-not-on-any-edge" else "pass"

/-- closed counter-clockwise polyline: vertices on the curve, edge midpoints within the discretisation error -/
def polylineJudge (S : Surf Q2) (mu0 : Rat) (pts : List Q2) : String :=
  if pts.length < 3 then "fail fewer-than-3-vertices" else
  match pts.find? (fun p => !S.on p) with
  | some p => s!"fail vertex-off-boundary {fmt2 p}"
  | none =>
  let es := cyc pts
  let area2 := es.foldl (fun acc (a, b) => acc + cross2 (a.sub S.c) (b.sub S.c)) (0 : Rat)
  if area2 ≤ 0 then "fail not-counterclockwise" else
  match es.findSome? (fun (a, b) => let m := mid2 a b; if S.within ops2 mu0 m then none else some m) with
  | some m => s!"fail edge-farther-than-the-discretisation-error {fmt2 m}"
  | none =>
  -- convex: no vertex strictly to the right of an edge
  if es.any (fun (a, b) => pts.any fun p => cross2 (b.sub a) (p.sub a) < -(tolR * (1 + S.rout * S.rout))) then "fail not-convex" else "pass"

def trigF : Trig Float := ⟨Float.acos, Float.atan2, fun x => (Float.sin x, Float.cos x)⟩
def epsF : Float := (Num.ofRat (1 / 4503599627370496 : Rat) : Float)

def fpts2 (l : List (V2 Float)) : String := l.foldl (fun s p => s ++ " " ++ fv2 p) s!"{l.length}"

def muSteps (halfAngles : List Rat) : Rat :=
  -- lower bound of the cosine of the largest half step (each given as π/m by its m)
  halfAngles.foldl (fun m a => rmin m (cosLB a)) 1

def withOut {α} (o : List String) (p : P α) (k : α → String) : String :=
  match o with
  | "panic" :: _ => "fail panic"
  | _ => match run p o with
    | none => "fail unparsable-or-nonfinite-output"
    | some x => k x

def handlerDisc (fn : String) : Option Handler :=
  match fn with
  | "capsule3_rot" => some {
      model := fun a => run (do
        let p ← pv3; let p' ← pv3
        let (v, w) := Capsule3.rotationWrtY trigF epsF (Capsule3.mk p p' 1.0)
        pure s!"{ff v.x} {ff v.y} {ff v.z} {ff w}") a
      oracle := fun a o => match run (do let p ← pq3; let p' ← pq3; pure (p, p')) a with
        | none => "skip bad-args"
        | some (p, p') => withOut o (do let i ← pq; let j ← pq; let k ← pq; let w ← pq; pend; pure (i, j, k, w)) fun (i, j, k, w) =>
          let dir := p'.sub p
          if dir.normSq = 0 then "skip zero-length-axis" else
          if !(rabs (i * i + j * j + k * k + w * w - 1) ≤ band) then "fail quaternion-not-unit" else
          let y := rotQuat ⟨i, j, k, w, V3.zero⟩ ⟨0, 1, 0⟩
          -- `r * Y` collinear with `b - a`
          let c := y.cross dir
          if c.normSq ≤ sqr (1 / 10000000 : Rat) * dir.normSq then "pass" else "fail rotated-Y-not-collinear-with-the-axis" }
  | "capsule2_rot" => some {
      model := fun a => run (do
        let p ← pv2; let p' ← pv2
        let (re, im) := Capsule2.rotationWrtY trigF (Capsule2.mk p p' 1.0)
        pure s!"{ff re} {ff im}") a
      oracle := fun a o => match run (do let p ← pq2; let p' ← pq2; pure (p, p')) a with
        | none => "skip bad-args"
        | some (p, p') => withOut o (do let re ← pq; let im ← pq; pend; pure (re, im)) fun (re, im) =>
          let dir := p'.sub p
          if dir.normSq = 0 then "skip zero-length-axis" else
          if !(rabs (re * re + im * im - 1) ≤ band) then "fail complex-not-unit" else
          let y : Q2 := ⟨-im, re⟩
          if sqr (cross2 y dir) ≤ sqr (1 / 10000000 : Rat) * dir.normSq then "pass" else "fail rotated-Y-not-collinear-with-the-axis" }
  | "capsule3_trimesh" => some {
      model := fun _ => some "-"
      oracle := fun a o => match run (do let p ← pq3; let p' ← pq3; let r ← pq; let nt ← pnat; let np ← pnat; pure (p, p', r, nt, np)) a with
        | none => "skip bad-args"
        | some (p, p', r, nt, np) =>
          if nt < 3 || np < 2 then "skip subdivision-count-outside-the-domain" else
          withOut o pmesh3 fun (pts, tris) =>
            -- longitude step 2π/nt, latitude step (π/2)/(np/2): half-diagonal of a patch
            let a1 : Rat := 31416 / 10000 / nt; let a2 : Rat := 31416 / 10000 / (4 * (np / 2 : Nat))
            let mu0 := 1 - (sqr a1 + sqr a2) / 2
            meshJudge (surfCapsule3 p p' r) mu0 pts tris }
  | "capsule3_outline" => some {
      model := fun _ => some "-"
      oracle := fun a o => match run (do let p ← pq3; let p' ← pq3; let r ← pq; let n ← pnat; pure (p, p', r, n)) a with
        | none => "skip bad-args"
        | some (p, p', r, n) =>
          if n < 4 then "skip subdivision-count-outside-the-domain" else
          withOut o poutline3 fun (pts, es) =>
            outlineJudge (surfCapsule3 p p' r) (muSteps [(n : Rat), 2 * ((n / 2 : Nat) : Rat)]) pts es }
  | "ball_outline" => some {
      model := fun _ => some "-"
      oracle := fun a o => match run (do let r ← pq; let n ← pnat; pure (r, n)) a with
        | none => "skip bad-args"
        | some (r, n) => if n < 3 then "skip subdivision-count-outside-the-domain" else
          withOut o poutline3 fun (pts, es) => outlineJudge (surfBall3 r) (muSteps [(n : Rat)]) pts es }
  | "cyl_outline" => some {
      model := fun _ => some "-"
      oracle := fun a o => match run (do let hh ← pq; let r ← pq; let n ← pnat; pure (hh, r, n)) a with
        | none => "skip bad-args"
        | some (hh, r, n) => if n < 4 then "skip subdivision-count-outside-the-domain" else
          withOut o poutline3 fun (pts, es) => outlineJudge (surfCyl hh r 0) (muSteps [(n : Rat)]) pts es }
  | "cone_outline" => some {
      model := fun _ => some "-"
      oracle := fun a o => match run (do let hh ← pq; let r ← pq; let n ← pnat; pure (hh, r, n)) a with
        | none => "skip bad-args"
        | some (hh, r, n) => if n < 4 then "skip subdivision-count-outside-the-domain" else
          withOut o poutline3 fun (pts, es) => outlineJudge (surfCone hh r 0) (muSteps [(n : Rat)]) pts es }
  | "cuboid_outline" => some {
      model := fun _ => some "-"
      oracle := fun a o => match run pq3 a with
        | none => "skip bad-args"
        | some he => withOut o poutline3 fun (pts, es) =>
            -- the 12 edges of the box: 8 corners, every edge along one axis
            if pts.length != 8 || es.length != 12 then "fail not-8-vertices-12-edges" else
            let P := pts.toArray
            if !(pts.all fun p => near (rabs p.x) he.x && near (rabs p.y) he.y && near (rabs p.z) he.z) then "fail vertex-not-a-corner" else
            if es.any (fun (a, b) => match P[a]?, P[b]? with
                | some pa, some pb => let d := pb.sub pa
                  ((if near d.x 0 then 0 else 1) + (if near d.y 0 then 0 else 1) + (if near d.z 0 then 0 else 1) : Nat) != 1
                | _, _ => true) then "fail edge-not-an-edge-of-the-box" else
            outlineJudge (surfCuboid3 he 0) 1 pts es }
  | "rcyl_outline" => some {
      model := fun _ => some "-"
      oracle := fun a o => match run (do let hh ← pq; let r ← pq; let br ← pq; let n ← pnat; let bn ← pnat; pure (hh, r, br, n, bn)) a with
        | none => "skip bad-args"
        | some (hh, r, br, n, bn) => if n < 4 || bn < 1 then "skip subdivision-count-outside-the-domain" else
          withOut o poutline3 fun (pts, es) => outlineJudge (surfCyl hh r br) (muSteps [(n : Rat), 4 * (bn : Rat)]) pts es }
  | "rcone_outline" => some {
      model := fun _ => some "-"
      oracle := fun a o => match run (do let hh ← pq; let r ← pq; let br ← pq; let n ← pnat; let bn ← pnat; pure (hh, r, br, n, bn)) a with
        | none => "skip bad-args"
        | some (hh, r, br, n, bn) => if n < 4 || bn < 1 then "skip subdivision-count-outside-the-domain" else
          withOut o poutline3 fun (pts, es) => outlineJudge (surfCone hh r br) (muSteps [(n : Rat), 2 * (bn : Rat)]) pts es }
  | "rcuboid_outline" => some {
      model := fun _ => some "-"
      oracle := fun a o => match run (do let he ← pq3; let br ← pq; let n ← pnat; pure (he, br, n)) a with
        | none => "skip bad-args"
        | some (he, br, n) => if n < 1 then "skip subdivision-count-outside-the-domain" else
          withOut o poutline3 fun (pts, es) => outlineJudge (surfCuboid3 he br) (muSteps [4 * (n : Rat)]) pts es }
  | "ball_trimesh_e" => some {
      model := fun _ => some "-"
      oracle := fun a o => match run (do let r ← pq; let nt ← pnat; let np ← pnat; pure (r, nt, np)) a with
        | none => "skip bad-args"
        | some (r, nt, np) => if nt < 3 || np < 2 then "skip subdivision-count-outside-the-domain" else
          withOut o pmesh3 fun (pts, tris) =>
            let a1 : Rat := 31416 / 10000 / nt; let a2 : Rat := 31416 / 10000 / (2 * np)
            meshJudge (surfBall3 r) (1 - (sqr a1 + sqr a2) / 2) pts tris }
  | "cyl_trimesh_e" => some {
      model := fun _ => some "-"
      oracle := fun a o => match run (do let hh ← pq; let r ← pq; let n ← pnat; pure (hh, r, n)) a with
        | none => "skip bad-args"
        | some (hh, r, n) => if n < 3 then "skip subdivision-count-outside-the-domain" else
          withOut o pmesh3 fun (pts, tris) => meshJudge (surfCyl hh r 0) (muSteps [(n : Rat)]) pts tris }
  | "cone_trimesh_e" => some {
      model := fun _ => some "-"
      oracle := fun a o => match run (do let hh ← pq; let r ← pq; let n ← pnat; pure (hh, r, n)) a with
        | none => "skip bad-args"
        | some (hh, r, n) => if n < 3 then "skip subdivision-count-outside-the-domain" else
          withOut o pmesh3 fun (pts, tris) => meshJudge (surfCone hh r 0) (muSteps [(n : Rat)]) pts tris }
  | "cuboid_trimesh_e" => some {
      model := fun _ => some "-"
      oracle := fun a o => match run pq3 a with
        | none => "skip bad-args"
        | some he => withOut o pmesh3 fun (pts, tris) => meshJudge (surfCuboid3 he 0) 1 pts tris }
  | "points_scaled3" => some {
      model := fun a => run (do
        let k ← pnat; let pts ← pmany pv3 k; let s ← pv3
        let r := scalePoints3 pts s
        pure s!"{fpts3 r} {fpts3 r}") a
      oracle := fun a o => match run (do let k ← pnat; let pts ← pmany pq3 k; let s ← pq3; pure (pts, s)) a with
        | none => "skip bad-args"
        | some (pts, s) =>
          withOut o (do let k ← pnat; let p1 ← pmany pq3 k; let k2 ← pnat; let p2 ← pmany pq3 k2; pend; pure (p1, p2)) fun (p1, p2) =>
            if p1.length != pts.length || p2.length != pts.length then "fail vertex-count-changed" else
            if (pts.zip p1).all (fun (p, w) => near3 w (p.cmul s)) && (pts.zip p2).all (fun (p, w) => near3 w (p.cmul s)) then "pass"
            else "fail vertices-not-scaled" }
  | "poly_trimesh" => some {
      model := fun _ => some "-"
      oracle := fun a o => match run (do let k ← pnat; let pts ← pmany pq3 k; pure pts) a with
        | none => "skip bad-args"
        | some inp => withOut o pmesh3 fun (pts, tris) =>
            if !(pts.all fun p => inp.any (near3 p)) then "fail vertex-not-an-input-point" else
            if !(inp.all fun p => pts.any (near3 p)) then "fail hull-vertex-missing" else
            match polyhWellFormed pts tris [] with
            | some m => s!"fail {m}"
            | none => "pass" }
  | "hf3_trimesh" => some {
      model := fun _ => some "-"
      oracle := fun a o => match run (phfBody false) a with
        | some (.hf nr nc hs sc st _) => withOut o pmesh3 fun (pts, tris) =>
            let exp := hfExpected nr nc hs sc st
            let P := pts.toArray
            if tris.any (fun (a, b, c) => a ≥ P.size || b ≥ P.size || c ≥ P.size) then "fail index-out-of-range" else
            let got := tris.map fun (a, b, c) => ((P[a]?).getD V3.zero, (P[b]?).getD V3.zero, (P[c]?).getD V3.zero)
            -- every output triangle is a triangle of an active cell and every active triangle is output, once
            if got.length != exp.length then s!"fail triangle-count {got.length} expected {exp.length}" else
            match got.find? (fun t => !(exp.any (nearTri t))) with
            | some t => s!"fail triangle-not-in-the-heightfield {fmt3 t.1} {fmt3 t.2.1} {fmt3 t.2.2}"
            | none => if exp.all (fun t => got.any (nearTri t)) then (if exp.isEmpty then "skip every-cell-removed" else "pass") else "fail heightfield-triangle-missing"
        | _ => "skip bad-args" }
  | "hf2_polyline" => some {
      model := fun a => run (do
        let n ← pnat; let hs ← pmany pf n; let sc ← pv2; let ns ← pnat; let rm ← pmany pbool ns
        let (vs, idx) := hf2ToPolyline hs.toArray sc rm.toArray
        pure (idx.foldl (fun s (i, j) => s ++ s!" {i} {j}") (fpts2 vs ++ s!" {idx.length}"))) a
      oracle := fun a o => match run (phf2Body false) a with
        | some (.hf hs sc rm _) =>
          withOut o (do let k ← pnat; let pts ← pmany pq2 k; let ne ← pnat; let es ← pmany pedge ne; pend; pure (pts, es)) fun (pts, es) =>
            let exp := hf2Expected hs sc rm
            let P := pts.toArray
            if es.any (fun (a, b) => a ≥ P.size || b ≥ P.size) then "fail index-out-of-range" else
            let got := es.map fun (a, b) => ((P[a]?).getD V2.zero, (P[b]?).getD V2.zero)
            -- every output edge is a segment of the heightfield, every active segment is output, once
            match got.find? (fun e => !(exp.any fun x => near2 e.1 x.1 && near2 e.2 x.2)) with
            | some e => s!"fail edge-not-a-segment-of-the-heightfield {fmt2 e.1} {fmt2 e.2}"
            | none =>
              if got.length != exp.length then s!"fail edge-count {got.length} expected {exp.length}" else
              if !(exp.all fun x => got.any fun e => near2 e.1 x.1 && near2 e.2 x.2) then "fail heightfield-segment-missing" else
              let used : Std.HashMap Nat Unit := es.foldl (fun m (a, b) => (m.insert a ()).insert b ()) {}
              if (List.range P.size).any (fun i => !used.contains i) then "fail vertex-not-on-any-edge" else
              if exp.isEmpty then "skip every-segment-removed" else "pass"
        | _ => "skip bad-args" }
  | "capsule2_polyline" => some {
      model := fun _ => some "-"
      oracle := fun a o => match run (do let p ← pq2; let p' ← pq2; let r ← pq; let n ← pnat; pure (p, p', r, n)) a with
        | none => "skip bad-args"
        | some (p, p', r, n) => if n < 2 then "skip subdivision-count-outside-the-domain" else
          withOut o (do let k ← pnat; let pts ← pmany pq2 k; pend; pure pts) fun pts =>
            if pts.length != 2 * n then s!"fail vertex-count {pts.length}" else
            -- arcs of step π/n; the last vertex of each arc is one step short of the half turn, so the flank chord spans a step too
            polylineJudge (surfCapsule2 p p' r) (muSteps [(n : Rat)]) pts }
  | "ball2_polyline" => some {
      model := fun _ => some "-"
      oracle := fun a o => match run (do let r ← pq; let n ← pnat; pure (r, n)) a with
        | none => "skip bad-args"
        | some (r, n) => if n < 3 then "skip subdivision-count-outside-the-domain" else
          withOut o (do let k ← pnat; let pts ← pmany pq2 k; pend; pure pts) fun pts =>
            if pts.length != n then s!"fail vertex-count {pts.length}" else polylineJudge (surfBall2 r) (muSteps [(n : Rat)]) pts }
  | "cuboid2_polyline" => some {
      model := fun _ => some "-"
      oracle := fun a o => match run pq2 a with
        | none => "skip bad-args"
        | some he => withOut o (do let k ← pnat; let pts ← pmany pq2 k; pend; pure pts) fun pts =>
            if pts.length != 4 then "fail not-4-vertices" else
            if !(pts.all fun p => near (rabs p.x) he.x && near (rabs p.y) he.y) then "fail vertex-not-a-corner" else
            polylineJudge (surfCuboid2 he 0) 1 pts }
  | "rcuboid2_polyline" => some {
      model := fun _ => some "-"
      oracle := fun a o => match run (do let he ← pq2; let br ← pq; let n ← pnat; pure (he, br, n)) a with
        | none => "skip bad-args"
        | some (he, br, n) => if n < 1 then "skip subdivision-count-outside-the-domain" else
          withOut o (do let k ← pnat; let pts ← pmany pq2 k; pend; pure pts) fun pts =>
            polylineJudge (surfCuboid2 he br) (muSteps [4 * (n : Rat)]) pts }
  | "rpolygon2_scaled_polyline" => some {
      model := fun _ => some "-"
      oracle := fun a o => match run (do let k ← pnat; let inp ← pmany pq2 k; let br ← pq; let s ← pq2; let n ← pnat; pure (inp, br, s, n)) a with
        | none => "skip bad-args"
        | some (inp, br, s, n) => if n < 1 || s.x = 0 || s.y = 0 then "skip outside-the-domain" else
          match o with
          | ["none"] => "fail none-for-a-non-degenerate-scale"
          | _ =>
          withOut o (do let k ← pnat; let pts ← pmany pq2 k; let kh ← pnat; let hull ← pmany pq2 kh; pend; pure (pts, hull)) fun (pts, hull) =>
            let sinp := inp.map (·.cmul s)
            if !(hull.all fun p => sinp.any (near2 p)) || !(sinp.all fun p => hull.any (near2 p)) then "fail inner-polygon-is-not-the-scaled-polygon" else
            -- the boundary of the round shape the code returned: the scaled polygon (counter-clockwise) offset by the kept border radius
            let area2 := (cyc hull).foldl (fun acc (a, b) => acc + cross2 a b) (0 : Rat)
            let ccw := if area2 < 0 then hull.reverse else hull
            polylineJudge (surfPolygon2 ccw br) (muSteps [2 * (n : Rat)]) (if area2 < 0 then pts.reverse else pts) }
  | "rpolygon2_polyline" => some {
      model := fun _ => some "-"
      oracle := fun a o => match run (do let k ← pnat; let inp ← pmany pq2 k; let br ← pq; let n ← pnat; pure (inp, br, n)) a with
        | none => "skip bad-args"
        | some (inp, br, n) => if n < 1 then "skip subdivision-count-outside-the-domain" else
          withOut o (do let k ← pnat; let pts ← pmany pq2 k; let kh ← pnat; let hull ← pmany pq2 kh; pend; pure (pts, hull)) fun (pts, hull) =>
            -- the inner polygon is the hull the code built from the input points (all in convex position)
            if !(hull.all fun p => inp.any (near2 p)) || !(inp.all fun p => hull.any (near2 p)) then "skip hull-dropped-or-added-points" else
            -- an arc turns by at most π (exterior angle) in n steps
            polylineJudge (surfPolygon2 hull br) (muSteps [2 * (n : Rat)]) pts }
  | _ => none

def handler (fn : String) : Option Handler :=
  match handlerScale fn with
  | some h => some h
  | none => handlerDisc fn

end C19.Ext
