import Mathlib.Analysis.SpecialFunctions.Trigonometric.Bounds
import Mathlib.Analysis.Real.Pi.Bounds
/-!
# C19 theorems, part 6 (round fu4): convergence of the circle discretization, over ℝ

`push_circle(r, n, 2π/n, y)` pushes the vertices `v_i = (r cos(iΔ), y, r sin(iΔ))`, `Δ = 2π/n` (Theorems3: they lie on the
circle).  Every circular section of `Ball/Cylinder/Cone/Capsule::to_trimesh`, `to_outline` and of the 2-D `to_polyline` is such
a regular `n`-gon.  Here, with the real `cos`/`sin` of Mathlib:

* every point of the chord `[v_i, v_{i+1}]` is at distance between `r cos(π/n)` and `r` from the axis
  (`chord_point_normSq_ge`, `chord_point_normSq_le`): the polygon lies between the inscribed circle of radius `r cos(π/n)` and
  the circle, so the radial gap (the Hausdorff distance between the polygon and the circle) is the sagitta `r (1 - cos(π/n))`;
* the sagitta is at most `r π² / (2 n²)` (`sagitta_le`): **the discretization error is O(1/n²)** and tends to 0
  (`sagitta_tendsto_zero`);
* the oracle's rational lower bound of `cos(π/m)` (`cosLB` in DriverExt: `1 - (3.1416/m)²/2`) is sound (`cosLB_sound`).
-/
namespace C19.Conv
open Real

/-- the `i`-th vertex of the regular `n`-gon of radius `r` (the pair `(x, z)` of `push_circle`) -/
noncomputable def vtx (r : ℝ) (n : ℕ) (i : ℕ) : ℝ × ℝ := (r * cos (i * (2 * π / n)), r * sin (i * (2 * π / n)))

/-- a point of the chord `[v_i, v_{i+1}]` -/
noncomputable def chordPt (r : ℝ) (n i : ℕ) (t : ℝ) : ℝ × ℝ :=
  ((1 - t) * (vtx r n i).1 + t * (vtx r n (i + 1)).1, (1 - t) * (vtx r n i).2 + t * (vtx r n (i + 1)).2)

/-- the unit direction of the middle of the `i`-th sector -/
noncomputable def midDir (n i : ℕ) : ℝ × ℝ := (cos ((i + 1 / 2) * (2 * π / n)), sin ((i + 1 / 2) * (2 * π / n)))

private theorem vtx_dot_mid (r : ℝ) (n i : ℕ) :
    (vtx r n i).1 * (midDir n i).1 + (vtx r n i).2 * (midDir n i).2 = r * cos (π / n) := by
  simp only [vtx, midDir]
  have h : cos (π / n) = cos ((i + 1 / 2) * (2 * π / n) - i * (2 * π / n)) := by
    congr 1; ring
  rw [h, cos_sub]; ring

private theorem vtx_succ_dot_mid (r : ℝ) (n i : ℕ) :
    (vtx r n (i + 1)).1 * (midDir n i).1 + (vtx r n (i + 1)).2 * (midDir n i).2 = r * cos (π / n) := by
  simp only [vtx, midDir]
  have h : cos (π / n) = cos (((i + 1 : ℕ) : ℝ) * (2 * π / n) - (i + 1 / 2) * (2 * π / n)) := by
    congr 1; push_cast; ring
  rw [h, cos_sub]; ring

/-- every chord point has the same projection `r cos(π/n)` on the middle direction: the chord is the tangent segment of the
inscribed circle -/
theorem chordPt_dot_mid (r : ℝ) (n i : ℕ) (t : ℝ) :
    (chordPt r n i t).1 * (midDir n i).1 + (chordPt r n i t).2 * (midDir n i).2 = r * cos (π / n) := by
  have h1 := vtx_dot_mid r n i
  have h2 := vtx_succ_dot_mid r n i
  simp only [chordPt]
  linear_combination (1 - t) * h1 + t * h2

/-- **inner bound**: a chord point is at least `r cos(π/n)` away from the axis (squared form: no sign condition needed) -/
theorem chord_point_normSq_ge (r : ℝ) (n i : ℕ) (t : ℝ) :
    (r * cos (π / n)) ^ 2 ≤ (chordPt r n i t).1 ^ 2 + (chordPt r n i t).2 ^ 2 := by
  have h := chordPt_dot_mid r n i t
  have hm : (midDir n i).1 ^ 2 + (midDir n i).2 ^ 2 = 1 := by simp only [midDir]; exact cos_sq_add_sin_sq _
  rw [← h]
  nlinarith [sq_nonneg ((chordPt r n i t).1 * (midDir n i).2 - (chordPt r n i t).2 * (midDir n i).1)]

/-- **outer bound**: a chord point (`0 ≤ t ≤ 1`) is inside the circle -/
theorem chord_point_normSq_le (r : ℝ) (n i : ℕ) (t : ℝ) (h0 : 0 ≤ t) (h1 : t ≤ 1) :
    (chordPt r n i t).1 ^ 2 + (chordPt r n i t).2 ^ 2 ≤ r ^ 2 := by
  simp only [chordPt, vtx]
  set a := (i : ℝ) * (2 * π / n)
  set b := ((i + 1 : ℕ) : ℝ) * (2 * π / n)
  have ha := cos_sq_add_sin_sq a
  have hb := cos_sq_add_sin_sq b
  have hc : cos a * cos b + sin a * sin b ≤ 1 := by rw [← cos_sub]; exact cos_le_one _
  have key : ((1 - t) * (r * cos a) + t * (r * cos b)) ^ 2 + ((1 - t) * (r * sin a) + t * (r * sin b)) ^ 2
      = r ^ 2 * ((1 - t) ^ 2 * (cos a ^ 2 + sin a ^ 2) + t ^ 2 * (cos b ^ 2 + sin b ^ 2) + 2 * t * (1 - t) * (cos a * cos b + sin a * sin b)) := by ring
  rw [key, ha, hb]
  have : (1 - t) ^ 2 * 1 + t ^ 2 * 1 + 2 * t * (1 - t) * (cos a * cos b + sin a * sin b) ≤ 1 := by
    nlinarith [mul_nonneg h0 (sub_nonneg.mpr h1)]
  nlinarith [sq_nonneg r]

/-- **the sagitta is O(1/n²)**: `r (1 - cos(π/n)) ≤ r π² / (2 n²)` -/
theorem sagitta_le (r : ℝ) (n : ℕ) (hr : 0 ≤ r) (hn : 0 < n) :
    r * (1 - cos (π / n)) ≤ r * π ^ 2 / (2 * (n : ℝ) ^ 2) := by
  have h := one_sub_sq_div_two_le_cos (x := π / n)
  have hn' : (0 : ℝ) < n := Nat.cast_pos.mpr hn
  have e : r * π ^ 2 / (2 * (n : ℝ) ^ 2) = r * ((π / n) ^ 2 / 2) := by
    field_simp
  rw [e]
  apply mul_le_mul_of_nonneg_left _ hr
  linarith

/-- the sagitta is non-negative (the polygon is inscribed) -/
theorem sagitta_nonneg (r : ℝ) (n : ℕ) (hr : 0 ≤ r) : 0 ≤ r * (1 - cos (π / n)) :=
  mul_nonneg hr (sub_nonneg.mpr (cos_le_one _))

/-- **convergence**: the discretization error of the regular `n`-gon tends to 0 as the subdivision count grows -/
theorem sagitta_tendsto_zero (r : ℝ) :
    Filter.Tendsto (fun n : ℕ => r * (1 - cos (π / n))) Filter.atTop (nhds 0) := by
  have hlim : Filter.Tendsto (fun n : ℕ => π / (n : ℝ)) Filter.atTop (nhds 0) :=
    tendsto_const_div_atTop_nhds_zero_nat π
  have hcos : Filter.Tendsto (fun n : ℕ => cos (π / (n : ℝ))) Filter.atTop (nhds (cos 0)) :=
    (continuous_cos.tendsto 0).comp hlim
  have : Filter.Tendsto (fun n : ℕ => r * (1 - cos (π / (n : ℝ)))) Filter.atTop (nhds (r * (1 - cos 0))) :=
    (tendsto_const_nhds.sub hcos).const_mul r
  simpa using this

/-- the rational lower bound of `cos(π/m)` used by the discretization oracles (`cosLB`) is sound -/
theorem cosLB_sound (m : ℝ) (hm : 0 < m) : 1 - ((31416 : ℝ) / 10000 / m) ^ 2 / 2 ≤ cos (π / m) := by
  have h := one_sub_sq_div_two_le_cos (x := π / m)
  have hpi : π < 31416 / 10000 := by
    have := pi_lt_d4  -- π < 3.1416
    norm_num at this ⊢; linarith
  have h1 : π / m ≤ 31416 / 10000 / m := by
    apply div_le_div_of_nonneg_right hpi.le hm.le
  have h0 : 0 ≤ π / m := div_nonneg pi_pos.le hm.le
  have : (π / m) ^ 2 ≤ (31416 / 10000 / m) ^ 2 := by
    apply pow_le_pow_left₀ h0 h1
  linarith

/-- non-vacuity: the hexagon of radius 2, middle of the first chord -/
example : (2 * cos (π / (6 : ℕ))) ^ 2 ≤ (chordPt 2 6 0 (1 / 2)).1 ^ 2 + (chordPt 2 6 0 (1 / 2)).2 ^ 2 ∧
    (chordPt 2 6 0 (1 / 2)).1 ^ 2 + (chordPt 2 6 0 (1 / 2)).2 ^ 2 ≤ 2 ^ 2 :=
  ⟨chord_point_normSq_ge 2 6 0 (1 / 2), chord_point_normSq_le 2 6 0 (1 / 2) (by norm_num) (by norm_num)⟩

end C19.Conv
