import ParryModel.C19.Model
/-!
# C19 model, growth round 2: the vertices of the polyhedral fallback of `Cone::scaled`, the 2-D
`HeightField::to_polyline` (with removed segments), and `Capsule::rotation_wrt_y` (2-D and 3-D).
Import-free.  Trigonometric primitives are parameters (`libm` at `Float`, any functions in the theorems).
-/
namespace Model
variable {K : Type} [Num K]

/-! ### `Cone::to_trimesh` vertices and the fallback of `Cone::scaled` -/

/-- vertices of `Cone::to_trimesh(nsubdiv)`: `unit_cone` (`push_circle(0.5, n, 2π/n, -0.5)` then the apex `(0, 0.5, 0)`)
scaled component-wise by `(2r, 2hh, 2r)`.  `twoPi` is `Real::two_pi()`, `nK` is `nsubdiv as Real`. -/
def Cone.trimeshVerts (cs : K → K × K) (twoPi nK : K) (c : Cone K) (nsubdiv : Nat) : List (V3 K) :=
  let diameter := c.r * two
  let height := c.hh * two
  let scale : V3 K := ⟨diameter, height, diameter⟩
  let dtheta := twoPi / nK
  let coords := pushCircle cs (lit 1 2) nsubdiv dtheta (-(lit 1 2)) ++ [(⟨0, lit 1 2, 0⟩ : V3 K)]
  coords.map (fun p => p.cmul scale)

/-- `Cone::scaled`, general dispatch, both branches: the cone (`scale.x == scale.z` and `scale.y >= 0`) or the points of
the convex polyhedron built from the scaled `to_trimesh` vertices (`pt.coords.component_mul(scale)`). -/
def Cone.scaledFull (cs : K → K × K) (twoPi nK : K) (c : Cone K) (s : V3 K) (nsubdiv : Nat) :
    Cone K ⊕ List (V3 K) :=
  match c.scaled s with
  | some c' => .inl c'
  | none => .inr ((c.trimeshVerts cs twoPi nK nsubdiv).map (fun p => p.cmul s))

/-! ### point buffers -/

/-- the point buffer of `Polyline::scaled`, `TriMesh::scaled`, `ConvexPolyhedron::scaled`, `ConvexPolygon::scaled`:
`pt.coords.component_mul_assign(scale)` on every point -/
def scalePoints3 (pts : List (V3 K)) (s : V3 K) : List (V3 K) := pts.map (fun p => p.cmul s)

/-! ### 2-D `HeightField::segment_at`, `segments`, `to_polyline` -/

/-- `p != q` on `Point2<f64>` -/
def V2.ne (p q : V2 K) : Bool := !(neq p.x q.x && neq p.y q.y)

/-- `segment_at(i)` for `i < num_cells`, not removed: `nK = heights.len() as Real`, `iK = i as Real`,
`y0 = heights[i]`, `y1 = heights[i+1]` -/
def hf2Segment (nK iK y0 y1 : K) (scale : V2 K) : Segment2 K :=
  let segLength := (1 : K) / (nK - 1)
  let x0 := -(lit 1 2) + segLength * iK
  let x1 := x0 + segLength
  ⟨(⟨x0, y0⟩ : V2 K).cmul scale, (⟨x1, y1⟩ : V2 K).cmul scale⟩

/-- `segments()`: the non-removed cells in increasing order. `removed[i]` beyond the list counts as removed
(the Rust indexes `status[i]`, which has exactly `num_cells` entries). -/
def hf2Segments (heights : Array K) (scale : V2 K) (removed : Array Bool) : List (Segment2 K) :=
  (List.range (heights.size - 1)).filterMap fun i =>
    match heights[i]?, heights[i + 1]?, removed[i]? with
    | some y0, some y1, some false =>
      some (hf2Segment (lit (Int.ofNat heights.size)) (lit (Int.ofNat i)) y0 y1 scale)
    | _, _, _ => none

/-- one iteration of the loop of `HeightField::to_polyline` -/
def polylineStep (acc : List (V2 K) × List (Nat × Nat)) (seg : Segment2 K) : List (V2 K) × List (Nat × Nat) :=
  let baseId := acc.1.length
  match acc.1.getLast? with
  | some pt =>
    if V2.ne seg.a pt then (acc.1 ++ [seg.a, seg.b], acc.2 ++ [(baseId, baseId + 1)])
    else (acc.1 ++ [seg.b], acc.2 ++ [(baseId - 1, baseId)])
  | none => (acc.1 ++ [seg.a, seg.b], acc.2 ++ [(baseId, baseId + 1)])

/-- `HeightField::to_polyline` (2-D): vertex buffer and index buffer -/
def polylineOfSegments (segs : List (Segment2 K)) : List (V2 K) × List (Nat × Nat) :=
  segs.foldl polylineStep ([], [])

def hf2ToPolyline (heights : Array K) (scale : V2 K) (removed : Array Bool) : List (V2 K) × List (Nat × Nat) :=
  polylineOfSegments (hf2Segments heights scale removed)

/-- the edges of an indexed polyline, resolved through the vertex buffer -/
def resolveEdges (p : List (V2 K) × List (Nat × Nat)) : List (Option (V2 K) × Option (V2 K)) :=
  p.2.map fun (i, j) => (p.1[i]?, p.1[j]?)

/-! ### `Capsule::rotation_wrt_y` -/

/-- trigonometric primitives used by nalgebra's `rotation_between` -/
structure Trig (K : Type) where
  acos : K → K
  atan2 : K → K → K
  /-- `simd_sin_cos`: `(sin, cos)` -/
  sinCos : K → K × K

/-- `Unit::try_new(v, eps)` -/
def tryNormalizeEps3 (v : V3 K) (eps : K) : Option (V3 K) :=
  let sqn := v.normSq
  if eps * eps < sqn then some (v.sdiv (Num.sqrt sqn)) else none

/-- unit quaternion as `(vector part, scalar part)` -/
abbrev Quat (K : Type) := V3 K × K
def Quat.identity : Quat K := (V3.zero, 1)

/-- `UnitQuaternion::scaled_rotation_between_axis(na, nb, 1)`; `eps` is `f64::EPSILON` -/
def rotationBetweenAxis3 (T : Trig K) (eps : K) (na nb : V3 K) : Option (Quat K) :=
  let c := na.cross nb
  match tryNormalizeEps3 c eps with
  | some axis =>
    let cos := na.dot nb
    if cos ≤ -1 then none
    else if 1 ≤ cos then some Quat.identity
    else
      let sc := T.sinCos (T.acos cos * 1 / two)
      some (axis.smul sc.1, sc.2)
  | none => if na.dot nb < 0 then none else some Quat.identity

/-- `UnitQuaternion::rotation_between(a, b)` -/
def rotationBetween3 (T : Trig K) (eps : K) (a b : V3 K) : Option (Quat K) :=
  match tryNormalize3 a, tryNormalize3 b with
  | some na, some nb => rotationBetweenAxis3 T eps na nb
  | _, _ => some Quat.identity

/-- `Capsule::rotation_wrt_y` (3-D): `dir = b - a`, flipped when `dir.y < 0`;
`rotation_between(Y, dir).unwrap_or(identity)` -/
def Capsule3.rotationWrtY (T : Trig K) (eps : K) (c : Capsule3 K) : Quat K :=
  let dir0 := c.b.sub c.a
  let dir := if dir0.y < 0 then dir0.neg else dir0
  (rotationBetween3 T eps ⟨0, 1, 0⟩ dir).getD Quat.identity

/-- `UnitComplex::rotation_between(a, b)`: `(re, im)` -/
def rotationBetween2 (T : Trig K) (a b : V2 K) : K × K :=
  match tryNormalize2 a, tryNormalize2 b with
  | some na, some nb =>
    let sang := na.perp nb
    let cang := na.dot nb
    let sc := T.sinCos (T.atan2 sang cang * 1)
    (sc.2, sc.1)
  | _, _ => (1, 0)

/-- `Capsule::rotation_wrt_y` (2-D) -/
def Capsule2.rotationWrtY (T : Trig K) (c : Capsule2 K) : K × K :=
  let dir0 := c.b.sub c.a
  let dir := if dir0.y < 0 then dir0.neg else dir0
  rotationBetween2 T ⟨0, 1⟩ dir

end Model
