import ParryModel.Proto
import ParryModel.C19.Model
import ParryModel.C19.DriverTopo
import ParryModel.C19.DriverExt
import ParryModel.C19.DriverAcc
import ParryModel.C19.DriverHf2
import Std.Data.HashMap
/-! C19 protocol handlers. -/
namespace C19
open Model Proto

/-- sample multipliers; none is exactly ±1 so that no sample lies on the boundary (where rounding decides) -/
def grid : List Rat := [-5/4, -15/16, -1/2, 0, 1/3, 15/16, 9/8]
def grid3 (h : V3 Rat) : List (V3 Rat) :=
  grid.flatMap fun a => grid.flatMap fun b => grid.map fun c => ⟨a * h.x, b * h.y, c * h.z⟩

def pmeshOut : P (List (V3 Float) × List (Nat × Nat × Nat)) := do
  let pts ← plist (do let x ← pfo; let y ← pfo; let z ← pfo; pure (⟨x, y, z⟩ : V3 Float))
  let tris ← plist (do let a ← pnat; let b ← pnat; let c ← pnat; pure (a, b, c))
  pure (pts, tris)

/-- closed + consistently oriented: every directed edge occurs exactly once and so does its reverse -/
def closedOriented (tris : List (Nat × Nat × Nat)) : Bool :=
  let edges := tris.flatMap fun (a, b, c) => [(a, b), (b, c), (c, a)]
  let m : Std.HashMap (Nat × Nat) Nat := edges.foldl (fun m e => m.insert e (m.getD e 0 + 1)) {}
  edges.all fun (a, b) => a != b && m.getD (a, b) 0 == 1 && m.getD (b, a) 0 == 1

def signedVol6 (P : Array (V3 Rat)) (tris : List (Nat × Nat × Nat)) : Rat :=
  tris.foldl (fun acc (a, b, c) =>
    match P[a]?, P[b]?, P[c]? with
    | some pa, some pb, some pc => acc + pa.dot (pb.cross pc)
    | _, _, _ => acc) 0

/-- generic mesh oracle: indices valid, closed, oriented, positive volume, each face's outward normal points away
from the origin (all the primitives are star-shaped around it), vertices satisfy `onBoundary` -/
def meshOracle (pts : List (V3 Float)) (tris : List (Nat × Nat × Nat)) (onBoundary : V3 Rat → Bool) : String :=
  if !(pts.all finite3) then "fail nonfinite-vertex" else
  let P := pts.toArray.map q3
  if tris.any (fun (a, b, c) => a ≥ P.size || b ≥ P.size || c ≥ P.size) then "fail index-out-of-range" else
  if tris.isEmpty then "fail empty-mesh" else
  if !closedOriented tris then "fail not-closed-or-not-consistently-oriented" else
  if signedVol6 P tris ≤ 0 then "fail inward-oriented" else
  let badFace := tris.any fun (a, b, c) =>
    match P[a]?, P[b]?, P[c]? with
    | some pa, some pb, some pc =>
      let n := (pb.sub pa).cross (pc.sub pa)
      n.dot pa < -(1 / 1000000000 : Rat)
    | _, _, _ => true
  if badFace then "fail face-normal-points-inward" else
  match (pts.map q3).filter (fun p => !onBoundary p) with
  | p :: _ => s!"fail vertex-off-boundary ({p.x},{p.y},{p.z})"
  | [] => "pass"

def near (a b : Rat) : Bool := rabs (a - b) ≤ (1 / 1000000000 : Rat) * (1 + rabs a + rabs b)

def handler (fn : String) : Option Handler :=
  match fn with
  | "cuboid_scaled" => some {
      model := fun a => run (do let he ← pv3; let s ← pv3; pure (fv3 ((Cuboid3.mk he).scaled s).he)) a
      oracle := fun a o => match run (do let he ← pv3; let s ← pv3; pure (he, s)) a with
        | some (he, s) => (match o with
          | "panic" :: _ => "fail panic"
          | _ => match run (do let x ← pfo; let y ← pfo; let z ← pfo; pure (⟨x, y, z⟩ : V3 Float)) o with
            | some he' =>
              if !finite3 he' then "fail nonfinite-output" else
              let H := q3 he; let H' := q3 he'; let S := q3 s
              let inB (h p : V3 Rat) : Bool := rabs p.x ≤ h.x && rabs p.y ≤ h.y && rabs p.z ≤ h.z
              match (grid3 H).filter (fun p => inB H' (p.cmul S) != inB H p) with
              | [] => "pass"
              | p :: _ => s!"fail membership-not-preserved p=({p.x},{p.y},{p.z})"
            | none => "fail unparsable-output")
        | none => "skip bad-args" }
  | "halfspace_scaled" => some {
      model := fun a => run (do let n ← pv3; let s ← pv3
                                pure (match (HalfSpace3.mk n).scaled s with | none => "none" | some h => "some " ++ fv3 h.n)) a
      oracle := fun a o => match run (do let n ← pv3; let s ← pv3; pure (n, s)) a with
        | some (n, s) => (match o with
          | "panic" :: _ => "fail panic"
          | ["none"] => "fail none-for-nonzero-normal"
          | "some" :: rest => match run (do let x ← pfo; let y ← pfo; let z ← pfo; pure (⟨x, y, z⟩ : V3 Float)) rest with
            | some n' =>
              if !finite3 n' then "fail nonfinite-output" else
              let N := q3 n; let N' := q3 n'; let S := q3 s
              if !near N'.normSq 1 then "fail normal-not-unit" else
              let pts := grid3 ⟨2, 2, 2⟩
              -- skip points within tolerance of the plane
              let bad := pts.filter fun p =>
                let d := N.dot p
                let d' := N'.dot (p.cmul S)
                rabs d > (1 / 1000000 : Rat) && (decide (d ≤ 0) != decide (d' ≤ 0))
              (match bad with
              | [] => "pass"
              | p :: _ => s!"fail membership-not-preserved p=({p.x},{p.y},{p.z})")
            | none => "fail unparsable-output"
          | _ => "fail unparsable-output")
        | none => "skip bad-args" }
  | "halfspace2_scaled" => some {
      model := fun a => run (do let n ← pv2; let s ← pv2
                                pure (match (HalfSpace2.mk n).scaled s with | none => "none" | some h => "some " ++ fv2 h.n)) a
      oracle := fun a o => match run (do let n ← pv2; let s ← pv2; pure (n, s)) a with
        | some (n, s) => (match o with
          | "panic" :: _ => "fail panic"
          | ["none"] => "fail none-for-nonzero-normal"
          | "some" :: rest => match run (do let x ← pfo; let y ← pfo; pure (⟨x, y⟩ : V2 Float)) rest with
            | some n' =>
              let N := q2 n; let N' := q2 n'; let S := q2 s
              if !near N'.normSq 1 then "fail normal-not-unit" else
              let pts : List (V2 Rat) := grid.flatMap fun a => grid.map fun b => ⟨2 * a, 2 * b⟩
              let bad := pts.filter fun p =>
                let d := N.dot p
                let d' := N'.dot (p.cmul S)
                rabs d > (1 / 1000000 : Rat) && (decide (d ≤ 0) != decide (d' ≤ 0))
              (match bad with
              | [] => "pass"
              | p :: _ => s!"fail membership-not-preserved p=({p.x},{p.y})")
            | none => "fail unparsable-output"
          | _ => "fail unparsable-output")
        | none => "skip bad-args" }
  | "segment_scaled" => some {
      model := fun a => run (do let p ← pv3; let p' ← pv3; let s ← pv3
                                let g := (Segment3.mk p p').scaled s; pure s!"{fv3 g.a} {fv3 g.b}") a
      oracle := fun a o => match run (do let p ← pv3; let p' ← pv3; let s ← pv3; pure (p, p', s)) a with
        | some (p, p', s) => (match run (do let x ← pv3; let y ← pv3; pure (x, y)) o with
          | some (x, y) =>
            let S := q3 s
            if (near (q3 x).x ((q3 p).x * S.x) && near (q3 x).y ((q3 p).y * S.y) && near (q3 x).z ((q3 p).z * S.z)
                && near (q3 y).x ((q3 p').x * S.x) && near (q3 y).y ((q3 p').y * S.y) && near (q3 y).z ((q3 p').z * S.z))
            then "pass" else "fail vertices-not-scaled"
          | none => "fail unparsable-output")
        | none => "skip bad-args" }
  | "triangle_scaled" => some {
      model := fun a => run (do let p ← pv3; let p' ← pv3; let p'' ← pv3; let s ← pv3
                                let g := (Triangle3.mk p p' p'').scaled s; pure s!"{fv3 g.a} {fv3 g.b} {fv3 g.c}") a
      oracle := fun a o => match run (do let p ← pv3; let p' ← pv3; let p'' ← pv3; let s ← pv3; pure ([p, p', p''], s)) a with
        | some (ps, s) => (match run (do let x ← pv3; let y ← pv3; let z ← pv3; pure [x, y, z]) o with
          | some xs =>
            let S := q3 s
            if (ps.zip xs).all fun (p, x) => near (q3 x).x ((q3 p).x * S.x) && near (q3 x).y ((q3 p).y * S.y) && near (q3 x).z ((q3 p).z * S.z)
            then "pass" else "fail vertices-not-scaled"
          | none => "fail unparsable-output")
        | none => "skip bad-args" }
  | "ball_scaled_u" => some {
      model := fun a => run (do let r ← pf; let s ← pf; pure s!"ball {ff ((Ball.mk r).scaledUniform s).r}") a
      oracle := fun a o => match run (do let r ← pf; let s ← pf; pure (r, s)) a with
        | some (r, s) => (match o with
          | ["ball", x] => match FloatIO.ofHex? x with
            | some r' => if near (q r') (q r * rabs (q s)) then "pass" else "fail wrong-radius"
            | none => "fail unparsable-output"
          | "panic" :: _ => "fail panic"
          | _ => "fail not-a-ball")
        | none => "skip bad-args" }
  | "capsule_scaled_u" => some {
      model := fun a => run (do let p ← pv3; let p' ← pv3; let r ← pf; let s ← pf
                                let c := (Capsule3.mk p p' r).scaledUniform s; pure s!"capsule {fv3 c.a} {fv3 c.b} {ff c.r}") a
      oracle := fun a o => match run (do let p ← pv3; let p' ← pv3; let r ← pf; let s ← pf; pure (p, p', r, s)) a with
        | some (p, p', r, s) => (match o with
          | "capsule" :: rest => match run (do let x ← pv3; let y ← pv3; let r' ← pfo; pure (x, y, r')) rest with
            | some (x, y, r') =>
              let S := q s
              if near (q r') (q r * rabs S) && near (q3 x).x ((q3 p).x * S) && near (q3 x).y ((q3 p).y * S) && near (q3 x).z ((q3 p).z * S)
                && near (q3 y).x ((q3 p').x * S) && near (q3 y).y ((q3 p').y * S) && near (q3 y).z ((q3 p').z * S) then "pass" else "fail wrong-capsule"
            | none => "fail unparsable-output"
          | "panic" :: _ => "fail panic"
          | _ => "fail not-a-capsule")
        | none => "skip bad-args" }
  | "cylinder_scaled_xz" => some {
      model := fun a => run (do let hh ← pf; let r ← pf; let sx ← pf; let sy ← pf
                                let c := (Cylinder.mk hh r).scaledXZ sx sy; pure s!"cyl {ff c.hh} {ff c.r}") a
      oracle := fun a o => match run (do let hh ← pf; let r ← pf; let sx ← pf; let sy ← pf; pure (hh, r, sx, sy)) a with
        | some (hh, r, sx, sy) => (match o with
          | ["cyl", x, y] => match FloatIO.ofHex? x, FloatIO.ofHex? y with
            | some hh', some r' =>
              if near (q hh') (q hh * rabs (q sy)) && near (q r') (q r * rabs (q sx)) then "pass" else "fail wrong-cylinder"
            | _, _ => "fail unparsable-output"
          | "panic" :: _ => "fail panic"
          | _ => "fail not-a-cylinder")
        | none => "skip bad-args" }
  | "cone_scaled_xz" => some {
      model := fun a => run (do let hh ← pf; let r ← pf; let sx ← pf; let sy ← pf
                                let c := (Cone.mk hh r).scaledXZ sx sy; pure s!"cone {ff c.hh} {ff c.r}") a
      oracle := fun a o => match run (do let hh ← pf; let r ← pf; let sx ← pf; let sy ← pf; pure (hh, r, sx, sy)) a with
        | some (hh, r, sx, sy) => (match o with
          | ["cone", x, y] => match FloatIO.ofHex? x, FloatIO.ofHex? y with
            | some hh', some r' =>
              if near (q hh') (q hh * q sy) && near (q r') (q r * rabs (q sx)) then "pass" else "fail wrong-cone"
            | _, _ => "fail unparsable-output"
          | "panic" :: _ => "fail panic"
          | _ => "fail not-a-cone")
        | none => "skip bad-args" }
  | "capsule_scaled" => some {
      model := fun a => run (do let p ← pv3; let p' ← pv3; let r ← pf; let s ← pv3
                                pure (match (Capsule3.mk p p' r).scaled s with
                                  | some c => s!"capsule {fv3 c.a} {fv3 c.b} {ff c.r}" | none => "poly")) a
      oracle := fun a o => match run (do let p ← pv3; let p' ← pv3; let r ← pf; let s ← pv3; pure (p, p', r, s)) a with
        | some (p, p', r, s) => (match o with
          | "capsule" :: rest => match run (do let x ← pv3; let y ← pv3; let r' ← pfo; pure (x, y, r')) rest with
            | some (x, y, r') =>
              -- exact membership transfer on a grid around the capsule
              let A := q3 p; let B := q3 p'; let R := q r; let S := q3 s
              let A' := q3 x; let B' := q3 y; let R' := q r'
              let d2seg (a b w : V3 Rat) : Rat :=
                let ab := b.sub a; let l2 := ab.normSq
                let t := if l2 = 0 then 0 else max 0 (min 1 ((w.sub a).dot ab / l2))
                (w.sub (a.add (ab.smul t))).normSq
              let pts := (grid3 ⟨1, 1, 1⟩).map fun g => (V3.center A B).add ⟨g.x * (R + rabs (B.x - A.x)), g.y * (R + rabs (B.y - A.y)), g.z * (R + rabs (B.z - A.z))⟩
              let bad := pts.filter fun w =>
                let din := d2seg A B w; let dout := d2seg A' B' (w.cmul S)
                -- skip samples within a relative band of either boundary
                let nb (d rr : Rat) : Bool := rabs (d - rr * rr) ≤ (1 / 1000000 : Rat) * (1 + rr * rr)
                !(nb din R) && !(nb dout R') && (decide (din ≤ R * R) != decide (dout ≤ R' * R'))
              (match bad with
              | [] => "pass"
              | w :: _ => s!"fail membership-not-preserved p=({w.x},{w.y},{w.z})")
            | none => "fail unparsable-output"
          | ["poly"] => "pass"
          | "panic" :: _ => "fail panic"
          | _ => "fail unparsable-output")
        | none => "skip bad-args" }
  | "cylinder_scaled" => some {
      model := fun a => run (do let hh ← pf; let r ← pf; let s ← pv3
                                pure (match (Cylinder.mk hh r).scaled s with | some c => s!"cyl {ff c.hh} {ff c.r}" | none => "poly")) a
      oracle := fun a o => match run (do let hh ← pf; let r ← pf; let s ← pv3; pure (hh, r, s)) a with
        | some (hh, r, s) => (match o with
          | ["cyl", x, y] => match FloatIO.ofHex? x, FloatIO.ofHex? y with
            | some hh', some r' =>
              let S := q3 s
              let inC (h rr : Rat) (w : V3 Rat) : Bool := rabs w.y ≤ h && w.x * w.x + w.z * w.z ≤ rr * rr
              let pts := grid3 ⟨q r, q hh, q r⟩
              (match pts.filter (fun w => inC (q hh') (q r') (w.cmul S) != inC (q hh) (q r) w) with
              | [] => "pass"
              | w :: _ => s!"fail membership-not-preserved p=({w.x},{w.y},{w.z})")
            | _, _ => "fail unparsable-output"
          | ["poly"] => "pass"
          | "panic" :: _ => "fail panic"
          | _ => "fail unparsable-output")
        | none => "skip bad-args" }
  | "hf_triangles_at" => some {
      model := fun a => run (do
        let nr ← pnat; let nc ← pnat; let i ← pnat; let j ← pnat
        let hs ← plist pf; let sc ← pv3; let zig ← pbool; let l ← pbool; let r ← pbool
        let h (ii jj : Nat) : Float := (hs[ii * nc + jj]?).getD 0.0
        if i + 1 ≥ nr || j + 1 ≥ nc then pure "none none" else
        let (t1, t2) := hfTrianglesAt (Float.ofNat nr) (Float.ofNat nc) (Float.ofNat i) (Float.ofNat j)
          (h i j) (h (i + 1) j) (h i (j + 1)) (h (i + 1) (j + 1)) sc ⟨zig, l, r⟩
        let ft (t : Option (Triangle3 Float)) := match t with | none => "none" | some t => s!"t {fv3 t.a} {fv3 t.b} {fv3 t.c}"
        pure s!"{ft t1} {ft t2}") a
      oracle := fun a o => match run (do
          let nr ← pnat; let nc ← pnat; let i ← pnat; let j ← pnat
          let hs ← plist pf; let sc ← pv3; let zig ← pbool; let l ← pbool; let r ← pbool
          pure (nr, nc, i, j, hs, sc, zig, l, r)) a with
        | some (nr, nc, i, j, hs, sc, _zig, l, r) =>
          if i + 1 ≥ nr || j + 1 ≥ nc then (if o = ["none", "none"] then "pass" else "fail triangle-outside-grid") else
          let ptri : P (Option (List (V3 Float))) := do
            let t ← tok
            if t = "none" then pure none else do let a ← pv3; let b ← pv3; let c ← pv3; pure (some [a, b, c])
          (match o with
          | "panic" :: _ => "fail panic"
          | _ => match run (do let t1 ← ptri; let t2 ← ptri; pure (t1, t2)) o with
            | none => "fail unparsable-output"
            | some (t1, t2) =>
              if l && r then (if t1.isNone && t2.isNone then "pass" else "fail removed-cell-has-triangles") else
              if (l && t1.isSome) || (r && t2.isSome) then "fail removed-triangle-present" else
              if (!l && t1.isNone) || (!r && t2.isNone) then "fail triangle-missing" else
              let S := q3 sc
              let xAt (jj : Nat) : Rat := (-(1/2 : Rat) + (jj : Rat) / ((nc : Rat) - 1)) * S.x
              let zAt (ii : Nat) : Rat := (-(1/2 : Rat) + (ii : Rat) / ((nr : Rat) - 1)) * S.z
              let hAt (ii jj : Nat) : Rat := q ((hs[ii * nc + jj]?).getD 0.0) * S.y
              let nodes : List (V3 Rat) := [(i, j), (i + 1, j), (i, j + 1), (i + 1, j + 1)].map fun (ii, jj) => ⟨xAt jj, hAt ii jj, zAt ii⟩
              let near3 (p w : V3 Rat) : Bool := near p.x w.x && near p.y w.y && near p.z w.z
              let tris := ([t1, t2].filterMap id).map (·.map q3)
              if tris.any (fun t => t.any fun p => !(nodes.any (near3 p))) then "fail vertex-not-on-the-height-surface" else
              -- coverage of the cell by the projections (exact barycentric test), only when both triangles are present
              if l || r then "pass" else
              let inProj (t : List (V3 Rat)) (x z : Rat) : Bool :=
                match t with
                | [a, b, c] =>
                  let d := (b.x - a.x) * (c.z - a.z) - (c.x - a.x) * (b.z - a.z)
                  if d = 0 then false else
                  let wb := ((x - a.x) * (c.z - a.z) - (c.x - a.x) * (z - a.z)) / d
                  let wc := ((b.x - a.x) * (z - a.z) - (x - a.x) * (b.z - a.z)) / d
                  let e : Rat := 1 / 1000000
                  wb ≥ -e && wc ≥ -e && wb + wc ≤ 1 + e
                | _ => false
              let x0 := xAt j; let x1 := xAt (j + 1); let z0 := zAt i; let z1 := zAt (i + 1)
              let us : List Rat := [1/8, 1/2, 7/8]
              let bad := us.flatMap fun u => us.filterMap fun v =>
                let x := x0 + u * (x1 - x0); let z := z0 + v * (z1 - z0)
                if tris.any (fun t => inProj t x z) then none else some (u, v)
              (match bad with
              | [] => "pass"
              | (u, v) :: _ => s!"fail cell-point-not-covered u={u} v={v}"))
        | none => "skip bad-args" }
  | "ball_scaled_nu" => some {
      model := fun _ => some "-"
      oracle := fun a o => match run (do let r ← pf; let s ← pv3; pure (r, s)) a with
        | some (r, s) => (match o with
          | "poly" :: rest => match run (plist (do let x ← pfo; let y ← pfo; let z ← pfo; pure (⟨x, y, z⟩ : V3 Float))) rest with
            | some pts =>
              let S := q3 s; let R := q r
              if pts.length < 4 then "fail too-few-vertices" else
              if pts.all fun p => let P := q3 p
                  near ((P.x / S.x) * (P.x / S.x) + (P.y / S.y) * (P.y / S.y) + (P.z / S.z) * (P.z / S.z)) (R * R)
              then "pass" else "fail vertex-off-ellipsoid"
            | none => "fail unparsable-output"
          | "panic" :: _ => "fail panic"
          | _ => "fail not-a-polyhedron")
        | none => "skip bad-args" }
  | "cyl_trimesh" => some {
      model := fun _ => some "-"
      oracle := fun a o => match run (do let hh ← pf; let r ← pf; pure (hh, r)) a, o with
        | _, "panic" :: _ => "fail panic"
        | some (hh, r), _ => (match run pmeshOut o with
          | some (pts, tris) => meshOracle pts tris fun p =>
              near (p.x * p.x + p.z * p.z) (q r * q r) && near (rabs p.y) (q hh)
          | none => "fail unparsable-output")
        | none, _ => "skip bad-args" }
  | "cone_trimesh" => some {
      model := fun _ => some "-"
      oracle := fun a o => match run (do let hh ← pf; let r ← pf; pure (hh, r)) a, o with
        | _, "panic" :: _ => "fail panic"
        | some (hh, r), _ => (match run pmeshOut o with
          | some (pts, tris) => meshOracle pts tris fun p =>
              (near (p.x * p.x + p.z * p.z) (q r * q r) && near p.y (-(q hh))) ||
              (near p.x 0 && near p.z 0 && near p.y (q hh))
          | none => "fail unparsable-output")
        | none, _ => "skip bad-args" }
  | "ball_trimesh" => some {
      model := fun _ => some "-"
      oracle := fun a o => match run pf a, o with
        | _, "panic" :: _ => "fail panic"
        | some r, _ => (match run pmeshOut o with
          | some (pts, tris) => meshOracle pts tris fun p => near p.normSq (q r * q r)
          | none => "fail unparsable-output")
        | none, _ => "skip bad-args" }
  | "capsule_trimesh" => some {
      model := fun _ => some "-"
      oracle := fun a o => match run (do let hh ← pf; let r ← pf; pure (hh, r)) a, o with
        | _, "panic" :: _ => "fail panic"
        | some (hh, r), _ => (match run pmeshOut o with
          | some (pts, tris) => meshOracle pts tris fun p =>
              let H := q hh; let R := q r
              let dy := if p.y > H then p.y - H else if p.y < -H then p.y + H else 0
              near (p.x * p.x + dy * dy + p.z * p.z) (R * R)
          | none => "fail unparsable-output")
        | none, _ => "skip bad-args" }
  | "cuboid_trimesh" => some {
      model := fun _ => some "-"
      oracle := fun a o => match run pv3 a, o with
        | _, "panic" :: _ => "fail panic"
        | some he, _ => (match run pmeshOut o with
          | some (pts, tris) => meshOracle pts tris fun p =>
              let H := q3 he
              near (rabs p.x) H.x && near (rabs p.y) H.y && near (rabs p.z) H.z
          | none => "fail unparsable-output")
        | none, _ => "skip bad-args" }
  | _ => match TopoDriver.handler fn with
    | some h => some h
    | none => match Ext.handler fn with
      | some h => some h
      | none => match Acc.handler fn with
        | some h => some h
        | none => Hf2.handler fn

end C19
