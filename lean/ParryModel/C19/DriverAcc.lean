import ParryModel.Proto
import ParryModel.C19.DriverExt
import ParryModel.C11.Model
import ParryModel.C19.ModelAcc
/-!
# C19 protocol handlers, round fu4: the SCALED composite shape behaves as a shape

`acc3` / `acc2` (see `harness/src/c19_acc.rs`): a TriMesh (any flags) / Polyline / HeightField is scaled through `scaled` or
`Shape::scale_dyn`; the harness dumps the primitives of the result, every node of its QBVH and the answers of BVH-driven
queries on the scaled shape.  The oracle (exact `Rat`, never calls a model function):

* data: the primitives are the scaled primitives (`v ∘ s`, bit for bit for meshes / polylines);
* acceleration structure: every primitive is a leaf exactly once, every lane box of every node reachable from the root
  contains all the primitives below it, the root box contains everything (exact comparisons, no tolerance);
* queries = brute force over the scaled primitives: `cast_local_ray` (between the earliest loose hit and the earliest robust
  hit), `project_local_point` (the answer lies on the shape and is as close as the closest primitive),
  `Qbvh::intersect_aabb` (exactly the primitives whose exact box meets the query box);
* containment (ORIENTED closed meshes): `is_inside` / `contains_local_point` of `p ∘ s` on the scaled mesh equal the exact
  ray-parity of `p ∘ s` w.r.t. the scaled triangles, which equals the parity of `p` w.r.t. the original triangles.

`aabb_scaled3` / `aabb_scaled2`: `Aabb::scaled`, bit-exact against `Model.TM.aabbScaled3/2`; oracle: the result is the tight box of
the scaled corners.
-/
namespace C19.Acc
open Model Proto C19.Ext

def umax : Nat := 4294967295
/-- for messages only -/
def rf (x : Rat) : Float := Float.ofInt x.num / Float.ofNat x.den

/-- a point of dimension `dim` (2 or 3), embedded with `z = 0` -/
def pqd (dim : Nat) : P Q3 := do
  let x ← pq; let y ← pq
  if dim = 3 then do let z ← pq; pure ⟨x, y, z⟩ else pure ⟨x, y, 0⟩
def pfd (dim : Nat) : P (V3 Float) := do
  let x ← pf; let y ← pf
  if dim = 3 then do let z ← pf; pure ⟨x, y, z⟩ else pure ⟨x, y, 0.0⟩

structure Node where
  leaf : Bool
  ch : List Nat
  data : List Nat
  boxes : List (V3 Float × V3 Float)
  deriving Inhabited

def pnode (dim : Nat) : P Node := do
  let l ← pnat
  let ch ← pmany pnat 4
  let data ← pmany pnat 4
  let boxes ← pmany (do let lo ← pfd dim; let hi ← pfd dim; pure (lo, hi)) 4
  pure ⟨l == 1, ch, data, boxes⟩

structure Out where
  prims : List (List Q3)
  primToks : List String
  bvh : Option ((Q3 × Q3) × Array Node)
  rays : List (Option Rat)
  pts : List (Q3 × Q3 × Bool × Bool)
  boxes : Option (List (List Nat))

def ptokens : Nat → P (List String)
  | 0 => pure []
  | k + 1 => do let t ← tok; let ts ← ptokens k; pure (t :: ts)

def peek : P (List String) := fun s => some (s, s)

def pout (dim : Nat) : P Out := do
  let _ ← tok                      -- "prims"
  let kind ← tok
  let arity := if kind = "tri" then 3 else 2
  let n ← pnat
  let rest ← peek
  let prims ← pmany (pmany (pqd dim) arity) n
  let primToks := rest.take (n * arity * dim)
  let _ ← tok                      -- "bvh"
  let nx ← peek
  let bvh ← (match nx with
    | "none" :: _ => do let _ ← tok; pure none
    | _ => do
      let lo ← pqd dim; let hi ← pqd dim
      let nn ← pnat
      let nodes ← pmany (pnode dim) nn
      pure (some ((lo, hi), nodes.toArray)))
  let _ ← tok                      -- "rays"
  let nr ← pnat
  let rays ← pmany (do let t ← tok; if t = "none" then pure none else do let x ← pq; pure (some x)) nr
  let _ ← tok                      -- "pts"
  let np ← pnat
  let pts ← pmany (do let qp ← pqd dim; let w ← pqd dim; let i ← pbool; let c ← pbool; pure (qp, w, i, c)) np
  let _ ← tok                      -- "boxes"
  let nx ← peek
  let boxes ← (match nx with
    | "none" :: _ => do let _ ← tok; pure none
    | _ => do
      let nb ← pnat
      let bs ← pmany (do let k ← pnat; pmany pnat k) nb
      pure (some bs))
  pend
  pure ⟨prims, primToks, bvh, rays, pts, boxes⟩

/-! ## exact geometry -/

def inBox (lo hi p : Q3) : Bool := lo.x ≤ p.x && p.x ≤ hi.x && lo.y ≤ p.y && p.y ≤ hi.y && lo.z ≤ p.z && p.z ≤ hi.z
def fbox? (b : V3 Float × V3 Float) : Option (Q3 × Q3) := if finite3 b.1 && finite3 b.2 then some (q3 b.1, q3 b.2) else none
def primBox (p : List Q3) : Q3 × Q3 :=
  match p with
  | [] => (V3.zero, V3.zero)
  | v :: vs => vs.foldl (fun (lo, hi) w => (⟨rmin lo.x w.x, rmin lo.y w.y, rmin lo.z w.z⟩, ⟨rmax hi.x w.x, rmax hi.y w.y, rmax hi.z w.z⟩)) (v, v)
def boxesMeet (a b : Q3 × Q3) : Bool :=
  a.1.x ≤ b.2.x && b.1.x ≤ a.2.x && a.1.y ≤ b.2.y && b.1.y ≤ a.2.y && a.1.z ≤ b.2.z && b.1.z ≤ a.2.z

/-- exact squared distance from `p` to a primitive (triangle or segment) -/
def d2prim (prim : List Q3) (p : Q3) : Rat :=
  match prim with
  | [a, b] => d2seg3 a b p
  | [a, b, c] =>
    let n := (b.sub a).cross (c.sub a); let nn := n.normSq
    let edges := rmin (d2seg3 a b p) (rmin (d2seg3 b c p) (d2seg3 c a p))
    if nn = 0 then edges else
    let t := (p.sub a).dot n
    let h := p.sub (n.smul (t / nn))
    if ((b.sub a).cross (h.sub a)).dot n ≥ 0 && ((c.sub b).cross (h.sub b)).dot n ≥ 0 && ((a.sub c).cross (h.sub c)).dot n ≥ 0
    then t * t / nn else edges
  | _ => 0
def d2shape (prims : List (List Q3)) (p : Q3) : Rat :=
  match prims with
  | [] => 0
  | x :: xs => xs.foldl (fun m y => rmin m (d2prim y p)) (d2prim x p)

/-- ray `o + t d` against a triangle: `none` = no crossing of the supporting plane at `t ≥ -slack`; otherwise `(t, m, cond)`:
`m` = the smallest normalised barycentric coordinate of the hit point, `cond` = `(n·d)² / (|n|²|d|²)` -/
def rayTri (o d a b c : Q3) : Option (Rat × Rat × Rat) :=
  let n := (b.sub a).cross (c.sub a); let nn := n.normSq
  let den := n.dot d
  if nn = 0 || den = 0 then none else
  let t := ((a.sub o).dot n) / den
  let h := o.add (d.smul t)
  let wa := ((c.sub b).cross (h.sub b)).dot n / nn
  let wb := ((a.sub c).cross (h.sub c)).dot n / nn
  let wc := ((b.sub a).cross (h.sub a)).dot n / nn
  some (t, rmin wa (rmin wb wc), den * den / (nn * d.normSq))
/-- 2-D ray against a segment (points embedded with z = 0): `(t, m, cond)` with `m = min(u, 1-u)` -/
def raySeg2 (o d a b : Q3) : Option (Rat × Rat × Rat) :=
  let e := b.sub a
  let den := d.x * e.y - d.y * e.x
  if den = 0 || e.normSq = 0 then none else
  let ao := a.sub o
  let t := (ao.x * e.y - ao.y * e.x) / den
  let u := (ao.x * d.y - ao.y * d.x) / den
  some (t, rmin u (1 - u), den * den / (e.normSq * d.normSq))

def epsB : Rat := 1 / 10000000
def rayJudge (dim : Nat) (prims : List (List Q3)) (o d : Q3) (ans : Option Rat) : Option String :=
  if d.normSq = 0 then none else
  let hits := prims.filterMap fun p => match p, dim with
    | [a, b, c], _ => rayTri o d a b c
    | [a, b], 2 => raySeg2 o d a b
    | _, _ => none
  -- a 2-D ray collinear with a segment: the answer depends on a convention; not judged
  if dim = 2 && (prims.any fun p => match p with
      | [a, b] => let e := b.sub a; let ao := a.sub o; d.x * e.y - d.y * e.x = 0 && ao.x * d.y - ao.y * d.x = 0
      | _ => false) then none else
  let loose := hits.filter fun (t, m, _) => t ≥ -epsB && m ≥ -epsB
  let robust := hits.filter fun (t, m, cnd) => t ≥ epsB && m ≥ epsB && cnd ≥ 1 / 1000000000000
  match ans with
  | none => match robust with
    | [] => none
    | (t, _, _) :: _ => some s!"ray-missed-a-primitive-hit-at-t={rf t}"
  | some t =>
    let tol := epsB * (1 + rabs t)
    if !(loose.any fun (l, _, _) => rabs (l - t) ≤ tol) then some s!"ray-toi-{rf t}-is-not-a-hit-of-any-primitive" else
    match robust.find? fun (s, _, _) => s + epsB * (1 + rabs s) < t with
    | some (s, _, _) => some s!"ray-toi-{rf t}-but-a-primitive-is-hit-earlier-at-{rf s}"
    | none => none

/-- exact parity of the number of crossings of the ray `o + t d`, `t > 0`, with the triangles; `none` when the ray meets an
edge / a vertex / a coplanar triangle or starts on the surface (try another direction) -/
def crossings (o d : Q3) (tris : List (List Q3)) : Option Nat :=
  tris.foldl (fun acc tr => match acc, tr with
    | none, _ => none
    | some k, [a, b, c] =>
      let n := (b.sub a).cross (c.sub a)
      if n.normSq = 0 then some k else
      let den := n.dot d; let num := (a.sub o).dot n
      if den = 0 then (if num = 0 then none else some k) else
      let t := num / den
      if t < 0 then some k else if t = 0 then none else
      let h := o.add (d.smul t)
      let s1 := ((b.sub a).cross (h.sub a)).dot n; let s2 := ((c.sub b).cross (h.sub b)).dot n; let s3 := ((a.sub c).cross (h.sub c)).dot n
      if s1 < 0 || s2 < 0 || s3 < 0 then some k else
      if s1 = 0 || s2 = 0 || s3 = 0 then none else some (k + 1)
    | some k, _ => some k) (some 0)
def parityDirs : List Q3 := [⟨1, 3/7, 2/11⟩, ⟨-2/5, 1, 5/13⟩, ⟨3/17, -4/19, 1⟩, ⟨-1, -7/23, 3/29⟩, ⟨5/31, 1, -9/37⟩]
def insideParity (o : Q3) (tris : List (List Q3)) : Option Bool :=
  parityDirs.findSome? fun d => (crossings o d tris).map fun k => k % 2 == 1

/-! ## the acceleration structure -/

partial def visit (prims : Array (List Q3)) (nodes : Array Node) (i : Nat) (fuel : Nat) : Except String (List Nat) :=
  if fuel = 0 then .error "bvh-cycle" else
  match nodes[i]? with
  | none => .error s!"bvh-child-{i}-out-of-range"
  | some nd =>
    (List.range 4).foldlM (fun acc k => do
      let c := nd.ch.getD k umax
      if c = umax then pure acc else
      let below ← (if nd.leaf then
          (let dta := nd.data.getD k umax
           if dta < prims.size then pure [dta] else .error s!"bvh-leaf-{i}/{k}-has-no-primitive")
        else visit prims nodes c (fuel - 1))
      -- a child node without any primitive below it keeps an invalid lane box: nothing to bound
      if below.isEmpty then pure acc else
      match fbox? (nd.boxes.getD k (⟨0.0, 0.0, 0.0⟩, ⟨0.0, 0.0, 0.0⟩)) with
      | none => .error s!"bvh-node-{i}/{k}-box-not-finite"
      | some (lo, hi) =>
        match below.find? fun dta => !((prims[dta]?).getD []).all (inBox lo hi) with
        | some dta => .error s!"bvh-node-{i}/{k}-box-does-not-contain-primitive-{dta}"
        | none => pure (acc ++ below)) []

def bvhJudge (prims : Array (List Q3)) (root : Q3 × Q3) (nodes : Array Node) : Option String :=
  if !(prims.all fun p => p.all (inBox root.1 root.2)) then some "root-aabb-does-not-contain-the-scaled-primitives" else
  if prims.size = 0 then none else
  match visit prims nodes 0 (nodes.size + 1) with
  | .error e => some e
  | .ok ids =>
    let sorted := ids.toArray.qsort (· < ·) |>.toList
    if sorted != List.range prims.size then some s!"bvh-leaves-{sorted}-are-not-every-primitive-once" else none

/-! ## the whole judgement -/

structure In where
  kind : String
  /-- original primitives (exact) -/
  prims : List (List Q3)
  /-- the expected tokens of the scaled primitives, bit for bit (meshes and polylines) -/
  expToks : Option (List String)
  oriented : Bool
  s : Q3
  rays : List (Q3 × Q3)
  pts : List Q3
  boxes : List (Q3 × Q3)
  /-- heightfields: the field's own scale (the columns / rows run towards -x / -z when own scale × applied scale is negative) -/
  hfScale : Option Q3 := none

def fvd (dim : Nat) (v : V3 Float) : List String := if dim = 3 then [ff v.x, ff v.y, ff v.z] else [ff v.x, ff v.y]

def pin (dim : Nat) (hasKind : Bool) : P In := do
  let kind ← (if hasKind then tok else pure "polyline")
  let (prims, raw, oriented, hfs) ← (match kind with
    | "trimesh" => do
        let nv ← pnat; let vs ← pmany (pfd dim) nv
        let nt ← pnat; let ts ← pmany ptri nt
        let fl ← pnat
        let V := vs.toArray
        let g (i : Nat) : V3 Float := (V[i]?).getD ⟨0.0, 0.0, 0.0⟩
        let raw := ts.map fun (a, b, c) => [g a, g b, g c]
        pure (raw.map (·.map q3), some raw, (fl / 8) % 2 == 1 && closedOriented ts, (none : Option Q3))
    | "polyline" => do
        let nv ← pnat; let vs ← pmany (pfd dim) nv
        let ne ← pnat; let es ← pmany pedge ne
        let V := vs.toArray
        let g (i : Nat) : V3 Float := (V[i]?).getD ⟨0.0, 0.0, 0.0⟩
        let raw := es.map fun (a, b) => [g a, g b]
        pure (raw.map (·.map q3), some raw, false, none)
    | "hf" => do
        let h ← phfBody false
        match h with
        | .hf nr nc hs sc st _ => pure ((hfExpected nr nc hs sc st).map fun (a, b, c) => [a, b, c], none, false, some sc)
        | _ => failure
    | _ => failure)
  let sF ← pfd dim
  let _via ← pnat
  let nr ← pnat; let rays ← pmany (do let o ← pqd dim; let d ← pqd dim; pure (o, d)) nr
  let np ← pnat; let pts ← pmany (pqd dim) np
  let nb ← pnat; let boxes ← pmany (do let lo ← pqd dim; let hi ← pqd dim; pure (lo, hi)) nb
  pend
  let expToks := raw.map fun r => r.flatMap fun p => p.flatMap fun v => fvd dim ⟨v.x * sF.x, v.y * sF.y, v.z * sF.z⟩
  let s : Q3 := if dim = 3 then q3 sF else ⟨q sF.x, q sF.y, 1⟩
  pure ⟨kind, prims, expToks, oriented, s, rays, pts, boxes, hfs⟩

def firstSome (l : List (Unit → Option String)) : Option String := l.findSome? fun f => f ()

partial def chunks {α} (k : Nat) (l : List α) : List (List α) :=
  if k = 0 || l.isEmpty then [] else l.take k :: chunks k (l.drop k)
def rotations {α} (l : List α) : List (List α) := (List.range l.length).map fun i => l.drop i ++ l.take i

def judge (dim : Nat) (I : In) (O : Out) : String :=
  let sc (p : Q3) : Q3 := p.cmul I.s
  let size : Rat := O.prims.foldl (fun m p => p.foldl (fun m v => rmax m (rmax (rabs v.x) (rmax (rabs v.y) (rabs v.z)))) m) 1
  let P := O.prims.toArray
  let mirrored : Bool := I.s.x * I.s.y * I.s.z < 0
  let r := firstSome [
    -- data
    fun _ => if O.prims.length != I.prims.length then some s!"primitive-count-{O.prims.length}-expected-{I.prims.length}" else none,
    fun _ => match I.expToks with
      | some e =>
        if e == O.primToks then none else
        -- triangles: the same scaled vertices bit for bit, winding kept (any rotation) — only a mirroring scale may reverse it
        if I.kind != "trimesh" || e.length != O.primToks.length then some "vertices-not-the-scaled-vertices-bit-for-bit" else
        let ok := ((chunks (3 * dim) e).zip (chunks (3 * dim) O.primToks)).all fun (te, tx) =>
          let ve := chunks dim te; let vo := chunks dim tx
          (rotations ve).contains vo || (mirrored && (rotations ve.reverse).contains vo)
        if ok then none else some "vertices-not-the-scaled-vertices-bit-for-bit(or-winding-reversed-by-a-non-mirroring-scale)"
      | none => if (I.prims.zip O.prims).all fun (a, b) => a.length == b.length && (a.zip b).all fun (v, w) => near3 w (sc v) then none
                else some "primitives-not-the-scaled-primitives",
    -- acceleration structure
    fun _ => match O.bvh with
      | none => none
      | some (root, nodes) => bvhJudge P root nodes,
    -- rays
    fun _ => ((I.rays.zip O.rays).findSome? fun ((o, d), a) => rayJudge dim O.prims o d a).map fun e =>
      -- a heightfield whose columns / rows run backwards (negative total x / z scale): one verdict
      match I.hfScale with
      | some h => if h.x * I.s.x < 0 || h.z * I.s.z < 0 then "heightfield-negative-xz-scale:" ++ e else e
      | none => e,
    -- projections
    fun _ => (O.pts.findSome? fun (qp, w, _, _) =>
      let dm := d2shape O.prims qp
      let di := (qp.sub w).normSq
      let t := epsB * size
      if d2shape O.prims w > t * t then some s!"projection-of-{fmt3 qp}-is-not-on-the-scaled-shape" else
      if di > dm * (1 + 1 / 1000000) + t * t then some s!"projection-of-{fmt3 qp}-at-squared-distance-{rf di}-but-a-primitive-is-at-{rf dm}" else none),
    -- boxes
    fun _ => match O.boxes with
      | none => none
      | some ans => (I.boxes.zip ans).findSome? fun (bx, ids) =>
          let exp := (List.range O.prims.length).filter fun i => boxesMeet (primBox ((P[i]?).getD [])) bx
          if exp != ids then some s!"intersect_aabb-returned-{ids}-expected-{exp}" else none,
    -- containment
    fun _ => if !I.oriented then none else
      ((I.pts.zip O.pts).findSome? fun (p, (qp, _, ins, con)) =>
        let t := (1 / 1000000 : Rat) * size
        if d2shape O.prims qp ≤ t * t then none else
        match insideParity qp O.prims, insideParity p I.prims with
        | some e, some e0 =>
          if e != e0 then none else     -- `p ∘ s` was rounded across the surface: not judged
          -- the whole solid inverted by a mirroring scale: one verdict (the winding of an ORIENTED mesh must be reversed)
          if mirrored && ins != e && con != e then some s!"oriented-mesh-inside-out-under-mirror-scale:is_inside={ins}-for-{fmt3 qp}-which-is-{if e then "inside" else "outside"}-the-scaled-solid" else
          if ins != e then some s!"is_inside={ins}-for-{fmt3 qp}-but-the-point-is-{if e then "inside" else "outside"}-the-scaled-solid(original-point-{fmt3 p})" else
          if con != e then some s!"contains_local_point={con}-for-{fmt3 qp}-but-the-point-is-{if e then "inside" else "outside"}-the-scaled-solid" else none
        | _, _ => none) ]
  match r with
  | some e => s!"fail {I.kind} {e}"
  | none => "pass"

def accHandler (dim : Nat) : Handler := {
  model := fun _ => some "-"
  oracle := fun a o =>
    match run (pin dim (dim == 3)) a with
    | none => "skip bad-args"
    | some I =>
      if I.s.x = 0 || I.s.y = 0 || I.s.z = 0 then "skip degenerate-scale" else
      match o with
      | "panic" :: _ => "fail panic"
      | ["none"] => "fail none-for-a-non-degenerate-scale"
      | _ => match run (pout dim) o with
        | none => "fail unparsable-or-nonfinite-output"
        | some O => judge dim I O }

def fbx3 (b : V3 Float × V3 Float) : String := s!"{fv3 b.1} {fv3 b.2}"
def fbx2 (b : V2 Float × V2 Float) : String := s!"{fv2 b.1} {fv2 b.2}"

/-! ## routing of `scale_dyn` -/
open Model.Acc in
partial def kindOf : Sh3 → Kind3
  | .ball .. => .ball | .cuboid .. => .cuboid | .capsule .. => .capsule | .cone .. => .cone | .cyl .. => .cyl
  | .seg .. => .seg | .tri .. => .tri | .hs .. => .hs | .poly .. => .polyh | .polyh .. => .polyh
  | .trimesh .. => .trimesh | .polyline .. => .polyline | .hf .. => .hf
  | .round (.cuboid ..) _ => .rcuboid | .round (.cyl ..) _ => .rcyl | .round (.cone ..) _ => .rcone
  | .round (.tri ..) _ => .rtri | .round _ _ => .rpolyh
  | .compound ps => .compound (ps.map fun ((_, p) : Iso3 Rat × Sh3) => kindOf p)
open Model.Acc in
partial def fkind : Kind3 → String
  | .ball => "ball" | .cuboid => "cuboid" | .capsule => "capsule" | .cone => "cone" | .cyl => "cyl" | .seg => "seg" | .tri => "tri"
  | .hs => "hs" | .polyh => "polyh" | .trimesh => "trimesh" | .polyline => "polyline" | .hf => "hf" | .rcuboid => "rcuboid"
  | .rcyl => "rcyl" | .rcone => "rcone" | .rtri => "rtri" | .rpolyh => "rpolyh"
  | .compound ps => ps.foldl (fun s p => s ++ " " ++ fkind p) s!"compound {ps.length}"

open Model.Acc in
partial def kindOf2 : Sh2 → Kind2
  | .ball .. => .ball | .cuboid .. => .cuboid | .capsule .. => .capsule | .seg .. => .seg | .tri .. => .tri | .hs .. => .hs
  | .polygon .. => .polygon | .polygono .. => .polygon | .polyline .. => .polyline | .hf .. => .hf
  | .round (.cuboid ..) _ => .rcuboid | .round _ _ => .rpolygon
  | .compound ps => .compound (ps.map fun ((_, p) : Iso2 Rat × Sh2) => kindOf2 p)
open Model.Acc in
partial def fkind2 : Kind2 → String
  | .ball => "ball" | .cuboid => "cuboid" | .capsule => "capsule" | .seg => "seg" | .tri => "tri" | .hs => "hs" | .polygon => "polygon"
  | .polyline => "polyline" | .hf => "hf" | .rcuboid => "rcuboid" | .rpolygon => "rpolygon"
  | .compound ps => ps.foldl (fun s p => s ++ " " ++ fkind2 p) s!"compound {ps.length}"

def handler (fn : String) : Option Handler :=
  match fn with
  | "scale_dyn_kind2" => some {
      model := fun a => (run (do let S ← psh2; let s ← pv2; let _n ← pnat; pure (S, s)) a).map fun (S, s) =>
        fkind2 (Model.Acc.scaleDynKind2 s (kindOf2 S))
      oracle := fun a o =>
        match run (do let S ← psh2; let s ← pq2; let n ← pnat; pure (S, s, n)) a with
        | none => "skip bad-args"
        | some (_, s, n) =>
          if s.x = 0 || s.y = 0 then "skip degenerate-scale" else
          if n < 3 then "skip fewer-than-3-subdivisions" else
          match o with
          | "panic" :: _ => "fail panic"
          | ["none"] => "fail none-for-a-non-degenerate-scale"
          | "unknown-shape" :: _ => "fail unknown-shape"
          | _ => "pass" }
  | "scale_dyn_kind3" => some {
      -- the scale is compared at `Float` (`==`), the descriptor only contributes its kind
      model := fun a => (run (do let S ← psh3; let s ← pv3; let _n ← pnat; pure (S, s)) a).map fun (S, s) =>
        fkind (Model.Acc.scaleDynKind s (kindOf S))
      oracle := fun a o =>
        match run (do let S ← psh3; let s ← pq3; let n ← pnat; pure (S, s, n)) a with
        | none => "skip bad-args"
        | some (_, s, n) =>
          if s.x = 0 || s.y = 0 || s.z = 0 then "skip degenerate-scale" else
          if n < 3 then "skip fewer-than-3-subdivisions" else
          match o with
          | "panic" :: _ => "fail panic"
          | ["none"] => "fail none-for-a-non-degenerate-scale"
          | "unknown-shape" :: _ => "fail unknown-shape"
          | _ => "pass" }
  | "rpolyh_outline" => some {
      model := fun _ => some "-"
      oracle := fun a o => match run (do let k ← pnat; let pts ← pmany pq3 k; let br ← pq; let n ← pnat; pure (pts, br, n)) a with
        | none => "skip bad-args"
        | some (_, br, n) => if n < 2 then "skip subdivision-count-outside-the-domain" else
          withOut o (do let k ← pnat; let pts ← pmany pq3 k; let ne ← pnat; let es ← pmany pedge ne; let m ← pmesh3; pure ((pts, es), m)) fun ((pts, es), (hv, ht)) =>
            -- the rounded hull: points at distance `br` of the convex polyhedron the code built (exact planes / triangle distances);
            -- an arc between two face normals at a vertex turns by less than π in `n` steps
            let cen := centroid3 hv
            let planes := planesOf hv.toArray ht cen
            let tris := ht.filterMap fun (i, j, k) => match hv.toArray[i]?, hv.toArray[j]?, hv.toArray[k]? with
              | some x, some y, some z => some [x, y, z] | _, _, _ => none
            if planes.isEmpty || tris.isEmpty then "skip degenerate-hull" else
            let inside (p : Q3) : Bool := planes.all fun pl => (pl.n.dot p - pl.d) * pl.sgn ≥ 0
            let rout := hv.foldl (fun m v => rmax m (l1of (v.sub cen))) 0
            let S : Surf Q3 := ⟨inside, d2shape tris, br, cen, br, br + rout⟩
            outlineJudge S (muSteps [2 * (n : Rat)]) pts es }
  | "trimesh_scaled_idx" => some {
      model := fun a => (run (do
          let nv ← pnat; let _vs ← pmany pv3 nv; let nt ← pnat; let ts ← pmany ptri nt; let fl ← pnat; let s ← pv3; pure (ts, fl, s)) a).map
        fun (ts, fl, s) =>
          (Model.Acc.trimeshScaledIdx ((fl / 8) % 2 == 1) s ts).foldl (fun o (i, j, k) => o ++ s!" {i} {j} {k}") s!"{ts.length}"
      oracle := fun a o =>
        match run (do let nv ← pnat; let vs ← pmany pq3 nv; let nt ← pnat; let ts ← pmany ptri nt; let fl ← pnat; let s ← pq3; pure (vs, ts, fl, s)) a,
              run (do let nt ← pnat; let ts ← pmany ptri nt; pend; pure ts) o with
        | some (vs, ts, fl, s), some ts' =>
          if s.x = 0 || s.y = 0 || s.z = 0 then "skip degenerate-scale" else
          if (fl / 8) % 2 != 1 || !closedOriented ts then "skip not-an-oriented-closed-mesh" else
          -- six times the enclosed signed volume (positive for outward winding), exact
          let V := vs.toArray
          let vol (vv : Array Q3) (tt : List (Nat × Nat × Nat)) : Rat := tt.foldl (fun acc (i, j, k) =>
            match vv[i]?, vv[j]?, vv[k]? with
            | some x, some y, some z => acc + x.dot (y.cross z)
            | _, _, _ => acc) 0
          let v0 := vol V ts
          if v0 ≤ 0 then "skip input-not-outward-wound" else
          if ts'.length != ts.length then "fail triangle-count-changed" else
          if vol (V.map fun p => p.cmul s) ts' > 0 then "pass" else "fail oriented-mesh-inside-out-under-mirror-scale:the-scaled-mesh-encloses-a-negative-volume"
        | _, _ => "fail unparsable-output" }
  | "acc3" => some (accHandler 3)
  | "acc2" => some (accHandler 2)
  | "aabb_scaled3" => some {
      model := fun a => run (do let lo ← pv3; let hi ← pv3; let s ← pv3; pure (fbx3 (TM.aabbScaled3 (lo, hi) s))) a
      oracle := fun a o =>
        match run (do let lo ← pq3; let hi ← pq3; let s ← pq3; pure (lo, hi, s)) a, run (do let lo ← pq3; let hi ← pq3; pend; pure (lo, hi)) o with
        | some (lo, hi, s), some (lo', hi') =>
          if !(lo.x ≤ hi.x && lo.y ≤ hi.y && lo.z ≤ hi.z) then "skip improper-box" else
          -- tight box of the scaled corners: contains both, every bound is attained by one of them
          let a := lo.cmul s; let b := hi.cmul s
          let ax (l h x y : Rat) : Bool := near l (rmin x y) && near h (rmax x y)
          if ax lo'.x hi'.x a.x b.x && ax lo'.y hi'.y a.y b.y && ax lo'.z hi'.z a.z b.z then "pass"
          else "fail scaled-box-is-not-the-box-of-the-scaled-corners"
        | _, _ => "fail unparsable-or-nonfinite-output" }
  | "aabb_scaled2" => some {
      model := fun a => run (do let lo ← pv2; let hi ← pv2; let s ← pv2; pure (fbx2 (TM.aabbScaled2 (lo, hi) s))) a
      oracle := fun a o =>
        match run (do let lo ← pq2; let hi ← pq2; let s ← pq2; pure (lo, hi, s)) a, run (do let lo ← pq2; let hi ← pq2; pend; pure (lo, hi)) o with
        | some (lo, hi, s), some (lo', hi') =>
          if !(lo.x ≤ hi.x && lo.y ≤ hi.y) then "skip improper-box" else
          let a := lo.cmul s; let b := hi.cmul s
          let ax (l h x y : Rat) : Bool := near l (rmin x y) && near h (rmax x y)
          if ax lo'.x hi'.x a.x b.x && ax lo'.y hi'.y a.y b.y then "pass"
          else "fail scaled-box-is-not-the-box-of-the-scaled-corners"
        | _, _ => "fail unparsable-or-nonfinite-output" }
  | _ => none

end C19.Acc
