import ParryModel.Field
import ParryModel.C19.ModelHf2
import ParryModel.C04.Theorems4
/-!
# C19 theorems, part 7 (round fu5): the SCALED 2-D HeightField, every sign of the scale

* `HeightField::scaled` (2-D) is exact: segment `i` of the scaled field is `s ∘` segment `i` of the original, removed cells
  stay removed (`hf2Scaled_segmentAt`); a point lies on segment `i` exactly when `s ∘` it lies on the scaled segment
  (`hf2Scaled_segment_mem`).
* the box stored by `set_scale` (old box times `new/old`, re-sorted) is, in exact arithmetic, the box `HeightField::new` computes
  for the product scale (`hf2Scaled_box_eq_new`) and bounds the scaled points of everything the old box bounded
  (`hf2SetScale_box_contains`).
* the direction of the cell walk of the ray cast: the ray meets the vertex lines of the field in INCREASING index order exactly
  when `dir.x * scale.x > 0` (`hf2_vertexParam_lt_iff`), which is the corrected rule `walkRight` (`hf2_walkRight_iff`); under a
  negative x scale the pinned rule `dir.x > 0` moves to cells whose vertex lines the ray has already left behind
  (`hf2_pinned_rule_walks_backwards`).
* the corrected cast on a scaled field only reports hits of existing cells (`hf2_castScaled_sound`) and its walk skips no cell
  ahead of the ray before the `max_t` exit, for either sign of the x scale (`hf2_castScaled_walk_complete_up`, `_down`).
* the 3-D field: column / row lines are met in increasing index order exactly when `dir.x * scale.x > 0` / `dir.z * scale.z > 0`
  (`hf3_colParam_lt_iff`, `hf3_rowParam_lt_iff`) — the rule of the corrected 3-D walk (fix 079c635).
-/
namespace C19
open Model

variable {K : Type} [Field K] [LinearOrder K] [IsStrictOrderedRing K] (sq : K → K)

/-! ## `scaled` is exact -/

/-- **`HeightField::scaled` (2-D) scales every segment**: cell `i` of the scaled field is the image of cell `i` under `p ↦ s∘p`
(removed or out-of-range cells stay absent), for every scale of any sign. -/
theorem hf2Scaled_segmentAt (f : Hf2S.Scaled K) (s : V2 K) (i : Nat) :
    letI := fieldNum K sq
    (Hf2S.scaled f s).h.segmentAt i = (f.h.segmentAt i).map fun seg => ⟨seg.a.cmul s, seg.b.cmul s⟩ := by
  simp only [HeightField2.segmentAt]
  split_ifs with h1 h2 h2
  · rfl
  · exact absurd h1 h2
  · exact absurd h2 h1
  · show some _ = some _
    congr 1
    simp only [Hf2S.scaled, Hf2S.setScale, HeightField2.ucw, V2.cmul, Segment2.mk.injEq, V2.mk.injEq]
    exact ⟨⟨by ring, by ring⟩, by ring, by ring⟩

/-- `p` lies on the segment `[a, b]` -/
def OnSeg2 (g : Segment2 K) (p : V2 K) : Prop := ∃ t : K, 0 ≤ t ∧ t ≤ 1 ∧ p.x = g.a.x + t * (g.b.x - g.a.x) ∧ p.y = g.a.y + t * (g.b.y - g.a.y)

/-- **membership transfers, both directions**: for a non-degenerate scale, `s∘p` lies on cell `i` of the scaled field exactly
when `p` lies on cell `i` of the original -/
theorem hf2Scaled_segment_mem (f : Hf2S.Scaled K) (s p : V2 K) (i : Nat) (hx : s.x ≠ 0) (hy : s.y ≠ 0) :
    letI := fieldNum K sq
    (∃ g, (Hf2S.scaled f s).h.segmentAt i = some g ∧ OnSeg2 g (p.cmul s)) ↔ (∃ g, f.h.segmentAt i = some g ∧ OnSeg2 g p) := by
  letI := fieldNum K sq
  rw [hf2Scaled_segmentAt]
  constructor
  · rintro ⟨g, hg, t, h0, h1, ex, ey⟩
    rcases hseg : f.h.segmentAt i with _ | g0
    · rw [hseg] at hg; simp at hg
    · rw [hseg] at hg
      simp only [Option.map_some, Option.some.injEq] at hg
      subst hg
      simp only [V2.cmul] at ex ey
      refine ⟨g0, rfl, t, h0, h1, ?_, ?_⟩
      · have : (p.x - (g0.a.x + t * (g0.b.x - g0.a.x))) * s.x = 0 := by linear_combination ex
        rcases mul_eq_zero.1 this with h | h
        · linarith
        · exact absurd h hx
      · have : (p.y - (g0.a.y + t * (g0.b.y - g0.a.y))) * s.y = 0 := by linear_combination ey
        rcases mul_eq_zero.1 this with h | h
        · linarith
        · exact absurd h hy
  · rintro ⟨g, hg, t, h0, h1, ex, ey⟩
    refine ⟨⟨g.a.cmul s, g.b.cmul s⟩, by rw [hg]; rfl, t, h0, h1, ?_, ?_⟩
    · simp only [V2.cmul]; rw [ex]; ring
    · simp only [V2.cmul]; rw [ey]; ring

/-- non-vacuity: the field with heights (0, 1) and scale (2, 1) has the cell (−1,0)–(1,1); (0, 1/2) is its middle -/
example : letI := fieldNum ℚ (fun x => x)
    ∃ g, (Hf2S.new (K := ℚ) #[0, 1] ⟨2, 1⟩ []).h.segmentAt 0 = some g ∧ OnSeg2 g ⟨0, 1 / 2⟩ := by
  letI := fieldNum ℚ (fun x => x)
  refine ⟨⟨⟨-1, 0⟩, ⟨1, 1⟩⟩, ?_, 1 / 2, by norm_num, by norm_num, by norm_num, by norm_num⟩
  simp [Hf2S.new, HeightField2.segmentAt, HeightField2.numCells, HeightField2.ucw, fieldNum_lit]
  norm_num

/-! ## the stored box -/

private theorem min_sorted_mul (a b s : K) : min (min a b * s) (max a b * s) = min (a * s) (b * s) := by
  rcases le_total a b with h | h
  · rw [min_eq_left h, max_eq_right h]
  · rw [min_eq_right h, max_eq_left h, min_comm]
private theorem max_sorted_mul (a b s : K) : max (min a b * s) (max a b * s) = max (a * s) (b * s) := by
  rcases le_total a b with h | h
  · rw [min_eq_left h, max_eq_right h]
  · rw [min_eq_right h, max_eq_left h, max_comm]

/-- **the box kept by `scaled` is the box of the product scale**: for a field with non-zero scale, `new(h, sc).scaled(s)` stores
exactly the box that `new(h, sc∘s)` computes (exact arithmetic; every sign of `sc` and `s`). -/
theorem hf2Scaled_box_eq_new (hs : Array K) (sc s : V2 K) (rm : List Nat) (hx : sc.x ≠ 0) (hy : sc.y ≠ 0) :
    letI := fieldNum K sq
    (Hf2S.scaled (Hf2S.new hs sc rm) s).box = (Hf2S.new hs (sc.cmul s) rm).box := by
  simp only [Hf2S.scaled, Hf2S.setScale, Hf2S.new, HeightField2.aabb, V2.cmul, V2.inf, V2.sup, fieldNum_nmin, fieldNum_nmax,
    HeightField2.maxH, HeightField2.minH]
  have e1 : sc.x * s.x / sc.x = s.x := by field_simp
  have e2 : sc.y * s.y / sc.y = s.y := by field_simp
  rw [e1, e2]
  simp only [min_sorted_mul, max_sorted_mul]
  congr 1 <;> (congr 1 <;> (congr 1 <;> ring))

private theorem axis_mem' (l h s x : K) (h1 : l ≤ x) (h2 : x ≤ h) : min (l * s) (h * s) ≤ x * s ∧ x * s ≤ max (l * s) (h * s) := by
  rcases le_total 0 s with hs | hs
  · exact ⟨le_trans (min_le_left _ _) (mul_le_mul_of_nonneg_right h1 hs), le_trans (mul_le_mul_of_nonneg_right h2 hs) (le_max_right _ _)⟩
  · exact ⟨le_trans (min_le_right _ _) (mul_le_mul_of_nonpos_right h2 hs), le_trans (mul_le_mul_of_nonpos_right h1 hs) (le_max_left _ _)⟩

/-- **`set_scale` keeps a bounding box**: whatever the stored box bounded, the new box bounds its image under the change of
scale `p ↦ p ∘ (new/old)`, for every sign of the ratio -/
theorem hf2SetScale_box_contains (f : Hf2S.Scaled K) (nw p : V2 K)
    (hp : f.box.mins.x ≤ p.x ∧ p.x ≤ f.box.maxs.x ∧ f.box.mins.y ≤ p.y ∧ p.y ≤ f.box.maxs.y) :
    letI := fieldNum K sq
    let g := Hf2S.setScale f nw
    let r : V2 K := ⟨nw.x / f.h.sc.x, nw.y / f.h.sc.y⟩
    g.box.mins.x ≤ p.x * r.x ∧ p.x * r.x ≤ g.box.maxs.x ∧ g.box.mins.y ≤ p.y * r.y ∧ p.y * r.y ≤ g.box.maxs.y := by
  obtain ⟨h1, h2, h3, h4⟩ := hp
  simp only [Hf2S.setScale, V2.cmul, V2.inf, V2.sup, fieldNum_nmin, fieldNum_nmax]
  exact ⟨(axis_mem' _ _ _ _ h1 h2).1, (axis_mem' _ _ _ _ h1 h2).2, (axis_mem' _ _ _ _ h3 h4).1, (axis_mem' _ _ _ _ h3 h4).2⟩

/-! ## the direction of the walk -/

private theorem lit_nat (c : Nat) : @Model.lit K (fieldNum K sq) ((c : Nat) : Int) 1 = (c : K) := by
  rw [fieldNum_lit]; simp [Rat.mkRat_one]

/-- **the ray meets the vertex lines in increasing index order exactly when `dir.x * scale.x > 0`** (at least two heights,
non-zero x scale, a ray that is not vertical): for `c < c'` the parameter at which the ray crosses the vertical line through
vertex `c` is smaller than the one of vertex `c'` iff `dir.x * scale.x > 0`. -/
theorem hf2_vertexParam_lt_iff (h : HeightField2 K) (ray : Ray2 K) (hn : 2 ≤ h.hs.size) (hd : ray.d.x ≠ 0) (c c' : Nat) (hc : c < c') :
    letI := fieldNum K sq
    Hf2S.vertexParam h ray c < Hf2S.vertexParam h ray c' ↔ 0 < ray.d.x * h.sc.x := by
  simp only [Hf2S.vertexParam, Hf2S.vertexX, HeightField2.ucw, lit_nat]
  have hn' : (0 : K) < (h.hs.size : K) - 1 := by
    have : (2 : K) ≤ (h.hs.size : K) := by exact_mod_cast hn
    linarith
  have hcc : (0 : K) < (c' : K) - (c : K) := by
    have : (c : K) < (c' : K) := by exact_mod_cast hc
    linarith
  have hd2 : 0 < ray.d.x ^ 2 := by positivity
  have key : (1 / ((h.hs.size : K) - 1) * h.sc.x * (c' : K) + h.sc.x * @Model.lit K (fieldNum K sq) (-1) 2 - ray.o.x) / ray.d.x
      - (1 / ((h.hs.size : K) - 1) * h.sc.x * (c : K) + h.sc.x * @Model.lit K (fieldNum K sq) (-1) 2 - ray.o.x) / ray.d.x
      = (((c' : K) - (c : K)) / ((h.hs.size : K) - 1) / ray.d.x ^ 2) * (ray.d.x * h.sc.x) := by
    field_simp
    ring
  have kpos : 0 < ((c' : K) - (c : K)) / ((h.hs.size : K) - 1) / ray.d.x ^ 2 := by positivity
  rw [← sub_pos, key]
  exact ⟨fun hh => (pos_iff_pos_of_mul_pos hh).1 kpos, fun hh => mul_pos kpos hh⟩

/-- **the corrected rule is the direction of travel**: `walkRight` holds exactly when the ray meets vertex `c` before vertex
`c + 1`, for every `c` -/
theorem hf2_walkRight_iff (h : HeightField2 K) (ray : Ray2 K) (hn : 2 ≤ h.hs.size) (hd : ray.d.x ≠ 0) (c : Nat) :
    letI := fieldNum K sq
    Hf2S.walkRight h ray = true ↔ Hf2S.vertexParam h ray c < Hf2S.vertexParam h ray (c + 1) := by
  letI := fieldNum K sq
  rw [hf2_vertexParam_lt_iff sq h ray hn hd c (c + 1) (Nat.lt_succ_self c)]
  simp [Hf2S.walkRight]

/-- **refutation of the pinned rule under a mirrored field**: with a negative x scale and `dir.x > 0` the pinned tree walks to
HIGHER cell indices, but every vertex line with a higher index is met EARLIER by the ray than the current one — the walk moves
away from the ray and never casts the cells ahead of it. -/
theorem hf2_pinned_rule_walks_backwards (h : HeightField2 K) (ray : Ray2 K) (hn : 2 ≤ h.hs.size) (hd : 0 < ray.d.x) (hs : h.sc.x < 0)
    (c c' : Nat) (hc : c < c') :
    letI := fieldNum K sq
    Hf2S.vertexParam h ray c' < Hf2S.vertexParam h ray c ∧ Hf2S.walkRight h ray = false := by
  letI := fieldNum K sq
  have hneg : ray.d.x * h.sc.x < 0 := mul_neg_of_pos_of_neg hd hs
  have h1 := hf2_vertexParam_lt_iff sq h ray hn (ne_of_gt hd) c c' hc
  have hne : Hf2S.vertexParam h ray c ≠ Hf2S.vertexParam h ray c' := by
    intro heq
    simp only [Hf2S.vertexParam, Hf2S.vertexX, HeightField2.ucw, lit_nat] at heq
    have hn' : (0 : K) < (h.hs.size : K) - 1 := by
      have : (2 : K) ≤ (h.hs.size : K) := by exact_mod_cast hn
      linarith
    have hcc : (c : K) < (c' : K) := by exact_mod_cast hc
    have h2 := (div_left_inj' (ne_of_gt hd)).1 heq
    have h3 : 1 / ((h.hs.size : K) - 1) * h.sc.x * ((c' : K) - (c : K)) = 0 := by linear_combination -h2
    have : 1 / ((h.hs.size : K) - 1) * h.sc.x * ((c' : K) - (c : K)) < 0 := by
      have : 0 < 1 / ((h.hs.size : K) - 1) := by positivity
      have : 1 / ((h.hs.size : K) - 1) * h.sc.x < 0 := mul_neg_of_pos_of_neg this hs
      exact mul_neg_of_neg_of_pos this (by linarith)
    linarith
  refine ⟨lt_of_le_of_ne (not_lt.1 fun hlt => absurd (h1.1 hlt) (not_lt.2 hneg.le)) (Ne.symm hne), ?_⟩
  simp only [Hf2S.walkRight, decide_eq_false_iff_not, not_lt]
  exact hneg.le

/-! ## the corrected cast -/

/-- **soundness of the corrected cast on a scaled field**: every reported hit is the `cast_on_cell` result of an existing cell
(hence, by `C04.hf2_castOnCell_from_segment`, a hit of that cell's — scaled — segment with `toi ≤ max_toi`). -/
theorem hf2_castScaled_sound (big : K) (f : Hf2S.Scaled K) (ray : Ray2 K) (max : K) (solid : Bool) (r : Hit2 K) :
    letI := fieldNum K sq
    letI := C04.fieldUlps K
    Hf2S.castScaled big f ray max solid = some r → ∃ cell, f.h.castOnCell ray max solid cell = some r := by
  simp only [Hf2S.castScaled]
  rcases @clipAabbLine2 K (fieldNum K sq) big f.box ray.o ray.d with _ | ⟨near, far⟩
  · simp
  · simp only
    split_ifs
    · simp
    · simp
    all_goals
      intro hw
      split at hw
      · rename_i inter heq
        simp only [Option.some.injEq] at hw
        subst hw; exact ⟨_, heq⟩
      · first
        | (simp at hw; done)
        | exact C04.hf2_walk_sound sq f.h ray max solid _ _ r _ _ hw

/-- **the corrected walk skips nothing, mirrored or not (upwards)**: when `dir.x * scale.x > 0` the walk goes to higher indices;
if it reports nothing, every cell `c > curr` whose vertex lines `curr < c' ≤ c` are crossed before `max_t` has been cast and
reported nothing. -/
theorem hf2_castScaled_walk_complete_up (h : HeightField2 K) (ray : Ray2 K) (max : K) (solid : Bool) (maxT : K) (curr : Nat)
    (hdir : 0 < ray.d.x * h.sc.x) :
    letI := fieldNum K sq
    letI := C04.fieldUlps K
    h.walk ray max solid maxT (Hf2S.walkRight h ray) (h.numCells + 1) curr = none →
      ∀ c, curr < c → c ≤ h.numCells → (∀ c', curr < c' → c' ≤ c → Hf2S.vertexParam h ray c' < maxT) →
        h.castOnCell ray max solid c = none := by
  letI := fieldNum K sq
  letI := C04.fieldUlps K
  intro hw c hc1 hc2 hpar
  have hr : Hf2S.walkRight h ray = true := by simp [Hf2S.walkRight, hdir]
  rw [hr] at hw
  exact C04.hf2_walk_right_complete sq h ray max solid maxT (h.numCells + 1) curr (by omega) hw c hc1 hc2
    (fun c' a b => by simpa [Hf2S.vertexParam, Hf2S.vertexX] using hpar c' a b)

/-- **… and downwards**: when `dir.x * scale.x < 0` the walk goes to lower indices with the exit test exactly as coded
(`(origin.x − x_{c'}) / dir.x ≥ max_t`, i.e. MINUS the crossing parameter); if it reports nothing, every cell `c < curr` such
that the coded expression stays below `max_t` for `c < c' ≤ curr` has been cast and reported nothing. -/
theorem hf2_castScaled_walk_complete_down (h : HeightField2 K) (ray : Ray2 K) (max : K) (solid : Bool) (maxT : K) (curr : Nat)
    (hdir : ray.d.x * h.sc.x < 0) (hcur : curr ≤ h.numCells) :
    letI := fieldNum K sq
    letI := C04.fieldUlps K
    h.walk ray max solid maxT (Hf2S.walkRight h ray) (h.numCells + 1) curr = none →
      ∀ c, c < curr → (∀ c', c < c' → c' ≤ curr → -Hf2S.vertexParam h ray c' < maxT) →
        h.castOnCell ray max solid c = none := by
  letI := fieldNum K sq
  letI := C04.fieldUlps K
  intro hw c hc1 hpar
  have hr : Hf2S.walkRight h ray = false := by simp [Hf2S.walkRight, not_lt.2 hdir.le]
  rw [hr] at hw
  refine C04.hf2_walk_left_complete sq h ray max solid maxT (h.numCells + 1) curr (by omega) hw c hc1 (fun c' a b => ?_)
  have := hpar c' a b
  simp only [Hf2S.vertexParam, Hf2S.vertexX] at this
  have e : (ray.o.x - h.ucw * h.sc.x * lit ((c' : Nat) : Int) - h.sc.x * lit (-1) 2) / ray.d.x
      = -((h.ucw * h.sc.x * lit ((c' : Nat) : Int) + h.sc.x * lit (-1) 2 - ray.o.x) / ray.d.x) := by
    rw [← neg_div]; congr 1; ring
  rw [e]; exact this

/-! ## the 3-D walk (fix 079c635): direction in index space = sign of `dir * scale` -/

private theorem lit_nat'' (c : Nat) : @Model.lit K (fieldNum K sq) ((c : Nat) : Int) 1 = (c : K) := by
  rw [fieldNum_lit]; simp [Rat.mkRat_one]

private theorem param_lt_iff (w s o d a b : K) (hw : 0 < w) (hd : d ≠ 0) (hab : a < b) :
    ((-(1 / 2 : K) + w * a) * s - o) / d < ((-(1 / 2 : K) + w * b) * s - o) / d ↔ 0 < d * s := by
  have hd2 : 0 < d ^ 2 := by positivity
  have key : ((-(1 / 2 : K) + w * b) * s - o) / d - ((-(1 / 2 : K) + w * a) * s - o) / d = (w * (b - a) / d ^ 2) * (d * s) := by
    field_simp
    ring
  have kpos : 0 < w * (b - a) / d ^ 2 := by
    have : 0 < b - a := by linarith
    positivity
  rw [← sub_pos, key]
  exact ⟨fun hh => (pos_iff_pos_of_mul_pos hh).1 kpos, fun hh => mul_pos kpos hh⟩

/-- **3-D HeightField, columns**: a ray with `dir.x ≠ 0` meets the column lines `x = x_at(j)` in increasing index order exactly when
`dir.x * scale.x > 0` — the rule of the corrected 3-D walk (`dir_j = ray.dir.x * scale.x`, fix 079c635). -/
theorem hf3_colParam_lt_iff (h : HeightField3 K) (ox dx : K) (hn : 2 ≤ h.nc) (hd : dx ≠ 0) (j j' : Nat) (hj : j < j') :
    letI := fieldNum K sq
    (h.xAt j - ox) / dx < (h.xAt j' - ox) / dx ↔ 0 < dx * h.sc.x := by
  have hlit : @Model.lit K (fieldNum K sq) 1 2 = (1 / 2 : K) := by rw [fieldNum_lit]; norm_num
  simp only [HeightField3.xAt, HeightField3.ucw, lit_nat'', hlit]
  have hn' : (0 : K) < (h.nc : K) - 1 := by
    have : (2 : K) ≤ (h.nc : K) := by exact_mod_cast hn
    linarith
  exact param_lt_iff _ _ _ _ _ _ (by positivity) hd (by exact_mod_cast hj)

/-- **3-D HeightField, rows**: likewise for the row lines `z = z_at(i)` and `dir.z * scale.z` -/
theorem hf3_rowParam_lt_iff (h : HeightField3 K) (oz dz : K) (hn : 2 ≤ h.nr) (hd : dz ≠ 0) (i i' : Nat) (hi : i < i') :
    letI := fieldNum K sq
    (h.zAt i - oz) / dz < (h.zAt i' - oz) / dz ↔ 0 < dz * h.sc.z := by
  have hlit : @Model.lit K (fieldNum K sq) 1 2 = (1 / 2 : K) := by rw [fieldNum_lit]; norm_num
  simp only [HeightField3.zAt, HeightField3.uch, lit_nat'', hlit]
  have hn' : (0 : K) < (h.nr : K) - 1 := by
    have : (2 : K) ≤ (h.nr : K) := by exact_mod_cast hn
    linarith
  exact param_lt_iff _ _ _ _ _ _ (by positivity) hd (by exact_mod_cast hi)


end C19
