import ParryModel.Proto
import ParryModel.C04.Composite
import ParryModel.C19.ModelHf2
import ParryModel.C19.DriverExt
/-!
# C19 protocol handlers, round fu5: ray cast and bounding box of a SCALED 2-D HeightField.

`hf2_scaled_ray`: model = `Hf2S.castScaled` on `new(heights, scale).scaled(s)` (VIA 0 / 1) or `new(heights, scale∘s)` (VIA 2),
bit-exact.  Oracle = exact brute force over the segments the property prescribes for the scaled shape: `s ∘` (the documented
segments of the original field), in `Rat` (C04's `segsOracle`, which knows nothing of boxes, cells or walks).
`hf2_scaled_box`: model = the stored box, bit-exact; oracle: the box contains every vertex of the scaled field and each of its
four bounds is attained (within rounding).
-/
namespace C19.Hf2
open Model Proto C19.Ext

structure In where
  hf : C04.Hf2Args
  s : V2 Float
  via : Nat

def pin : P In := do let h ← C04.phf2; let s ← pv2; let via ← pnat; pure ⟨h, s, via⟩

def In.model (I : In) : Hf2S.Scaled Float :=
  if I.via = 2 then Hf2S.new I.hf.hs (I.hf.sc.cmul I.s) I.hf.removed
  else Hf2S.scaled (Hf2S.new I.hf.hs I.hf.sc I.hf.removed) I.s

/-- the scaled shape by the property: every point of the original field multiplied by `s` (exact) -/
def In.segments (I : In) : List (V2 Rat × V2 Rat) :=
  let S := q2 I.s
  I.hf.segments.map fun (a, b) => (a.cmul S, b.cmul S)

def In.inDomain (I : In) : Option String :=
  let fin (x : Float) : Bool := FloatIO.isFinite x
  if !(fin I.s.x && fin I.s.y && fin I.hf.sc.x && fin I.hf.sc.y && I.hf.hs.all fin) then some "skip non-finite-input" else
  if I.s.x == 0 || I.s.y == 0 || I.hf.sc.x == 0 || I.hf.sc.y == 0 then some "skip degenerate-scale" else
  if I.hf.hs.size < 2 then some "skip fewer-than-2-heights" else none

/-! ### `map_elements_in_local_aabb` of a scaled field (2-D and 3-D): models `Hf2S.elemsInAabb` / `Hf3S.elemsInAabb` (bit-exact) + oracle

The primitives of the scaled field are read from the implementation's own `segments()` / `triangles()` (judged elsewhere:
`hf2_polyline`, `acc3`).  For every query box: a primitive with a sample point (vertices, edge midpoints, centroid) STRICTLY inside
the box (margin 1e-6 of the box size) must be reported; every reported primitive must be one of the field's primitives. -/
abbrev Prim := List (V3 Rat)

def ppt (dim : Nat) : P (V3 Rat) := do
  let x ← C19.Ext.pq; let y ← C19.Ext.pq
  if dim = 3 then do let z ← C19.Ext.pq; pure ⟨x, y, z⟩ else pure ⟨x, y, 0⟩
def pprim (dim : Nat) : P Prim := C19.Ext.pmany (ppt dim) dim

structure ElemOut where
  prims : List Prim
  boxes : List (List (Nat × Prim))

def pelems (dim : Nat) : P ElemOut := do
  let _ ← tok; let _ ← (if dim = 3 then tok else pure "")
  let n ← pnat; let prims ← C19.Ext.pmany (pprim dim) n
  let _ ← tok; let nb ← pnat
  let boxes ← C19.Ext.pmany (do let k ← pnat; C19.Ext.pmany (do let i ← pnat; let p ← pprim dim; pure (i, p)) k) nb
  pend
  pure ⟨prims, boxes⟩

def samples (p : Prim) : List (V3 Rat) :=
  let mid (a b : V3 Rat) : V3 Rat := (a.add b).smul (1 / 2)
  match p with
  | [a, b] => [a, b, mid a b, mid a (mid a b), mid b (mid a b)]
  | [a, b, c] => [a, b, c, mid a b, mid b c, mid c a, ((a.add b).add c).smul (1 / 3)]
  | _ => []

def samePrim (x y : Prim) : Bool :=
  x.length == y.length && (x.zip y).all fun (a, b) =>
    let d := a.sub b
    let m := 1 + Proto.rabs a.x + Proto.rabs a.y + Proto.rabs a.z
    decide (Proto.rabs d.x ≤ m / 1000000000) && decide (Proto.rabs d.y ≤ m / 1000000000) && decide (Proto.rabs d.z ≤ m / 1000000000)

def elemsJudge (dim : Nat) (qboxes : List (V3 Rat × V3 Rat)) (O : ElemOut) (mirrored : Bool) : String :=
  if qboxes.length != O.boxes.length then "fail box-count" else
  let r := (qboxes.zip O.boxes).findSome? fun ((lo, hi), got) =>
    if !(lo.x ≤ hi.x && lo.y ≤ hi.y && lo.z ≤ hi.z) then none else
    let e := hi.sub lo
    let mg (w : Rat) : Rat := w / 1000000
    let strictly (p : V3 Rat) : Bool :=
      decide (lo.x + mg e.x < p.x) && decide (p.x < hi.x - mg e.x) && decide (lo.y + mg e.y < p.y) && decide (p.y < hi.y - mg e.y) &&
      (dim == 2 || (decide (lo.z + mg e.z < p.z) && decide (p.z < hi.z - mg e.z)))
    match got.find? fun (_, g) => !(O.prims.any fun p => samePrim p g) with
    | some (i, _) => some s!"element-{i}-reported-is-not-a-primitive-of-the-scaled-field"
    | none =>
      match O.prims.find? fun p => (samples p).any strictly && !(got.any fun (_, g) => samePrim p g) with
      | some _ => some "a-primitive-with-a-point-strictly-inside-the-box-is-not-reported"
      | none => none
  match r with
  | some w => if mirrored then s!"fail heightfield-negative-scale-elements:{w}" else s!"fail {w}"
  | none => "pass"

/-- the model side of `hf2_scaled_elems`: `segments()` of the scaled field, then `elemsInAabb` per box -/
def elems2Model (a : List String) : Option String :=
  run (do
    let I ← pin; let nb ← pnat
    let bs ← C19.Ext.pmany (do let lo ← pv2; let hi ← pv2; pure (lo, hi)) nb
    let f := I.model
    let segs := (List.range f.h.numCells).filterMap fun i => f.h.segmentAt i
    let fseg (g : Segment2 Float) : String := s!"{fv2 g.a} {fv2 g.b}"
    let head := segs.foldl (fun o g => o ++ " " ++ fseg g) s!"segs {segs.length}"
    let body := bs.foldl (fun o (lo, hi) =>
      let got := Hf2S.elemsInAabb f.h lo hi
      got.foldl (fun o (i, g) => o ++ s!" {i} " ++ fseg g) (o ++ s!" {got.length}")) s!"{head} boxes {nb}"
    pure body) a

/-- the model side of `hf3_scaled_elems` (wire: `nr nc h[nr*nc] (row-major) hsc(3) NS status* s(3) VIA NB (lo(3) hi(3))*`) -/
def elems3Model (a : List String) : Option String :=
  run (do
    let nr ← pnat; let nc ← pnat; let hs ← C19.Ext.pmany pf (nr * nc)
    let hsc ← pv3; let ns ← pnat; let st ← C19.Ext.pmany pnat ns
    let s ← pv3; let _via ← pnat; let nb ← pnat
    let bs ← C19.Ext.pmany (do let lo ← pv3; let hi ← pv3; pure (lo, hi)) nb
    let H := hs.toArray
    -- column-major heights, status list `(i, j, bits)` (the wire lists the cells row by row)
    let col : Array Float := ((List.range nc).flatMap fun j => (List.range nr).map fun i => H.getD (i * nc + j) 0).toArray
    let stl : List (Nat × Nat × Nat) := (List.range (nr - 1)).flatMap fun i => (List.range (nc - 1)).map fun j => (i, j, (st.toArray.getD (i * (nc - 1) + j) 0) % 8)
    let h : HeightField3 Float := ⟨nr, nc, col, hsc.cmul s, stl⟩
    let ftri (t : Triangle3 Float) : String := s!"{fv3 t.a} {fv3 t.b} {fv3 t.c}"
    let tris := Hf3S.triangles h
    let head := tris.foldl (fun o t => o ++ " " ++ ftri t) s!"prims tri {tris.length}"
    let body := bs.foldl (fun o (lo, hi) =>
      let got := Hf3S.elemsInAabb h lo hi
      got.foldl (fun o (i, t) => o ++ s!" {i} " ++ ftri t) (o ++ s!" {got.length}")) s!"{head} boxes {nb}"
    pure body) a

def elemsHandler (dim : Nat) : Handler := {
  model := fun a => if dim = 2 then elems2Model a else elems3Model a
  oracle := fun a o =>
    let pargs : P (Bool × List (V3 Rat × V3 Rat)) :=
      if dim = 2 then do
        let I ← pin; let nb ← pnat
        let bs ← C19.Ext.pmany (do let lo ← ppt 2; let hi ← ppt 2; pure (lo, hi)) nb
        let fin (x : Float) : Bool := FloatIO.isFinite x && x != 0
        if !(fin I.s.x && fin I.s.y && fin I.hf.sc.x && fin I.hf.sc.y) then failure else
        pure (decide ((q2 I.hf.sc).x * (q2 I.s).x < 0) || decide ((q2 I.hf.sc).y * (q2 I.s).y < 0), bs)
      else do
        let nr ← pnat; let nc ← pnat; let _ ← C19.Ext.pmany C19.Ext.pq (nr * nc)
        let hsc ← ppt 3; let ns ← pnat; let _ ← C19.Ext.pmany pnat ns
        let s ← ppt 3; let _via ← pnat; let nb ← pnat
        let bs ← C19.Ext.pmany (do let lo ← ppt 3; let hi ← ppt 3; pure (lo, hi)) nb
        if hsc.x = 0 || hsc.y = 0 || hsc.z = 0 || s.x = 0 || s.y = 0 || s.z = 0 then failure else
        pure (decide (hsc.x * s.x < 0) || decide (hsc.y * s.y < 0) || decide (hsc.z * s.z < 0), bs)
    match run pargs a with
    | none => "skip bad-args-or-degenerate-scale"
    | some (mir, bs) =>
      match o with
      | "panic" :: _ => "fail panic"
      | _ => match run (pelems dim) o with
        | none => "fail unparsable-or-nonfinite-output"
        | some O => elemsJudge dim bs O mir }

def handler (fn : String) : Option Handler :=
  match fn with
  | "hf2_scaled_elems" => some (elemsHandler 2)
  | "hf3_scaled_elems" => some (elemsHandler 3)
  | "hf2_scaled_ray" => some {
      model := fun a => run (do let I ← pin; let ra ← C04.pray2
                                pure (C04.fhit2d (Hf2S.castScaled C04.bigF I.model ⟨ra.o, ra.d⟩ ra.max ra.solid))) a
      oracle := fun a o => C04.withArgs (do let I ← pin; let ra ← C04.pray2; pure (I, ra)) a fun (I, ra) =>
        match I.inDomain with
        | some w => w
        | none =>
          match o with
          | ["noshape"] => "fail no-shape-for-a-non-degenerate-scale"
          | _ =>
            let r := C04.segsOracle I.segments false (q2 ra.o) (q2 ra.d) ra.maxQ (C04.parseOut2 o)
            -- the verdict names the sign of the total x scale: a mirrored field is where the cell walk can go the wrong way
            if r.startsWith "fail" && (q2 I.hf.sc).x * (q2 I.s).x < 0 then "fail heightfield2-negative-x-scale:" ++ (r.drop 5).replace " " "-" else r }
  | "hf2_scaled_box" => some {
      model := fun a => run (do let I ← pin; let f := I.model; pure s!"{fv2 f.box.mins} {fv2 f.box.maxs}") a
      oracle := fun a o => C04.withArgs pin a fun I =>
        match I.inDomain with
        | some w => w
        | none =>
          match run (do let lo ← pq2; let hi ← pq2; pend; pure (lo, hi)) o with
          | none => "fail unparsable-or-nonfinite-box"
          | some (lo, hi) =>
            let vs := I.segments.foldl (fun acc (a, b) => a :: b :: acc) []
            -- removed segments do not shrink the box: all vertices count
            let S := (q2 I.hf.sc).cmul (q2 I.s)
            let n := I.hf.hs.size
            let all := (List.range n).map fun (i : Nat) => (⟨(-(1 / 2 : Rat) + (i : Rat) / ((n - 1 : Nat) : Rat)) * S.x, q (I.hf.hs.getD i 0) * S.y⟩ : V2 Rat)
            let tolr (x : Rat) : Rat := (1 / 1000000000 : Rat) * (1 + Proto.rabs x)
            let inside := (vs ++ all).all fun p => decide (lo.x - tolr lo.x ≤ p.x) && decide (p.x ≤ hi.x + tolr hi.x) && decide (lo.y - tolr lo.y ≤ p.y) && decide (p.y ≤ hi.y + tolr hi.y)
            if !inside then "fail scaled-heightfield-box-misses-a-vertex" else
            let att (f : V2 Rat → Rat) (bnd : Rat) : Bool := all.any fun p => decide (Proto.rabs (f p - bnd) ≤ tolr bnd)
            if att (·.x) lo.x && att (·.x) hi.x && att (·.y) lo.y && att (·.y) hi.y then "pass"
            else "fail scaled-heightfield-box-is-not-tight" }
  | _ => none

end C19.Hf2
