import ParryModel.Shapes
/-!
# C19 model: `scaled` of the primitive shapes (as corrected by the `fix:` commits listed in KNOWN_FINDINGS.txt)
and the vertex generator `push_circle`.
-/
namespace Model
variable {K : Type} [Num K]

/-- `Cuboid::scaled`: `|half_extents ∘ scale|` -/
def Cuboid3.scaled (c : Cuboid3 K) (s : V3 K) : Cuboid3 K := ⟨(c.he.cmul s).abs⟩

/-- `Unit::try_new(v, 0.0)` -/
def tryNormalize3 (v : V3 K) : Option (V3 K) :=
  let sqn := v.normSq
  if (0 : K) * 0 < sqn then some (v.sdiv (Num.sqrt sqn)) else none
def tryNormalize2 (v : V2 K) : Option (V2 K) :=
  let sqn := v.normSq
  if (0 : K) * 0 < sqn then some (v.sdiv (Num.sqrt sqn)) else none

/-- `HalfSpace::scaled`: the normal transforms by the inverse (transpose) of the scaling -/
def HalfSpace3.scaled (h : HalfSpace3 K) (s : V3 K) : Option (HalfSpace3 K) :=
  (tryNormalize3 (⟨h.n.x / s.x, h.n.y / s.y, h.n.z / s.z⟩ : V3 K)).map HalfSpace3.mk
def HalfSpace2.scaled (h : HalfSpace2 K) (s : V2 K) : Option (HalfSpace2 K) :=
  (tryNormalize2 (⟨h.n.x / s.x, h.n.y / s.y⟩ : V2 K)).map HalfSpace2.mk

/-- `Segment::scaled` (`na::Scale * point` = component-wise product, scale on the left) -/
def Segment3.scaled (g : Segment3 K) (s : V3 K) : Segment3 K := ⟨s.cmul g.a, s.cmul g.b⟩
def Triangle3.scaled (t : Triangle3 K) (s : V3 K) : Triangle3 K := ⟨s.cmul t.a, s.cmul t.b, s.cmul t.c⟩

/-- `Ball::scaled`, uniform branch -/
def Ball.scaledUniform (b : Ball K) (s : K) : Ball K := ⟨b.r * nabs s⟩
/-- `Capsule::scaled`, uniform branch -/
def Capsule3.scaledUniform (c : Capsule3 K) (s : K) : Capsule3 K := ⟨c.a.smul s, c.b.smul s, c.r * nabs s⟩
/-- `Cylinder::scaled`, `scale.x == scale.z` branch -/
def Cylinder.scaledXZ (c : Cylinder K) (sx sy : K) : Cylinder K := ⟨nabs (c.hh * sy), nabs (c.r * sx)⟩
/-- `Cone::scaled`, `scale.x == scale.z ∧ scale.y ≥ 0` branch -/
def Cone.scaledXZ (c : Cone K) (sx sy : K) : Cone K := ⟨c.hh * sy, nabs (c.r * sx)⟩

/-- one vertex of `push_circle(radius, _, _, y)` at angle with cosine `c` and sine `s` -/
def circlePoint (radius y c s : K) : V3 K := ⟨c * radius, y, s * radius⟩

end Model
