import ParryModel.Shapes
/-!
# C19 model: `scaled` of the primitive shapes (as corrected by the `fix:` commits listed in KNOWN_FINDINGS.txt)
and the vertex generator `push_circle`.
-/
namespace Model
variable {K : Type} [Num K]

/-- `Cuboid::scaled`: `|half_extents ∘ scale|` -/
def Cuboid3.scaled (c : Cuboid3 K) (s : V3 K) : Cuboid3 K := ⟨(c.he.cmul s).abs⟩

/-- `Unit::try_new(v, 0.0)` -/
def tryNormalize3 (v : V3 K) : Option (V3 K) :=
  let sqn := v.normSq
  if (0 : K) * 0 < sqn then some (v.sdiv (Num.sqrt sqn)) else none
def tryNormalize2 (v : V2 K) : Option (V2 K) :=
  let sqn := v.normSq
  if (0 : K) * 0 < sqn then some (v.sdiv (Num.sqrt sqn)) else none

/-- `HalfSpace::scaled`: the normal transforms by the inverse (transpose) of the scaling -/
def HalfSpace3.scaled (h : HalfSpace3 K) (s : V3 K) : Option (HalfSpace3 K) :=
  (tryNormalize3 (⟨h.n.x / s.x, h.n.y / s.y, h.n.z / s.z⟩ : V3 K)).map HalfSpace3.mk
def HalfSpace2.scaled (h : HalfSpace2 K) (s : V2 K) : Option (HalfSpace2 K) :=
  (tryNormalize2 (⟨h.n.x / s.x, h.n.y / s.y⟩ : V2 K)).map HalfSpace2.mk

/-- `Segment::scaled` (`na::Scale * point` = component-wise product, scale on the left) -/
def Segment3.scaled (g : Segment3 K) (s : V3 K) : Segment3 K := ⟨s.cmul g.a, s.cmul g.b⟩
def Triangle3.scaled (t : Triangle3 K) (s : V3 K) : Triangle3 K := ⟨s.cmul t.a, s.cmul t.b, s.cmul t.c⟩

/-- `Ball::scaled`, uniform branch -/
def Ball.scaledUniform (b : Ball K) (s : K) : Ball K := ⟨b.r * nabs s⟩
/-- `Capsule::scaled`, uniform branch -/
def Capsule3.scaledUniform (c : Capsule3 K) (s : K) : Capsule3 K := ⟨c.a.smul s, c.b.smul s, c.r * nabs s⟩
/-- `Cylinder::scaled`, `scale.x == scale.z` branch -/
def Cylinder.scaledXZ (c : Cylinder K) (sx sy : K) : Cylinder K := ⟨nabs (c.hh * sy), nabs (c.r * sx)⟩
/-- `Cone::scaled`, `scale.x == scale.z ∧ scale.y ≥ 0` branch -/
def Cone.scaledXZ (c : Cone K) (sx sy : K) : Cone K := ⟨c.hh * sy, nabs (c.r * sx)⟩

/-- dispatch of `Ball/Capsule::scaled` (3-D): the shape-preserving branch is taken iff the three scale components are equal
(`!=` on floats) -/
def uniformScale (s : V3 K) : Bool := neq s.x s.y && neq s.x s.z && neq s.y s.z
def Capsule3.scaled (c : Capsule3 K) (s : V3 K) : Option (Capsule3 K) :=
  if uniformScale s then some (c.scaledUniform s.x) else none
def Ball.scaled (b : Ball K) (s : V3 K) : Option (Ball K) :=
  if uniformScale s then some (b.scaledUniform s.x) else none
/-- `Cylinder::scaled`: cylinder iff `scale.x == scale.z` -/
def Cylinder.scaled (c : Cylinder K) (s : V3 K) : Option (Cylinder K) :=
  if neq s.x s.z then some (c.scaledXZ s.x s.y) else none
/-- `Cone::scaled`: cone iff `scale.x == scale.z && scale.y >= 0` -/
def Cone.scaled (c : Cone K) (s : V3 K) : Option (Cone K) :=
  if !(neq s.x s.z) || decide (s.y < 0) then none else some (c.scaledXZ s.x s.y)

/-! ### heightfield discretization: `HeightField::triangles_at` (3-D) -/
structure CellStatus where
  zigzag : Bool
  leftRemoved : Bool
  rightRemoved : Bool

/-- `triangles_at(i, j)`: heights of the four cell corners are given (`y00 = heights[(i,j)]`, `y10 = heights[(i+1,j)]`,
`y01 = heights[(i,j+1)]`, `y11 = heights[(i+1,j+1)]`); `nrows`, `ncols` as scalars. -/
def hfTrianglesAt (nrows ncols : K) (i j : K) (y00 y10 y01 y11 : K) (scale : V3 K) (st : CellStatus) :
    Option (Triangle3 K) × Option (Triangle3 K) :=
  if st.leftRemoved && st.rightRemoved then (none, none) else
  let cw := (1 : K) / (ncols - 1)
  let ch := (1 : K) / (nrows - 1)
  let z0 := -(lit 1 2) + ch * i
  let z1 := -(lit 1 2) + ch * (i + 1)
  let x0 := -(lit 1 2) + cw * j
  let x1 := -(lit 1 2) + cw * (j + 1)
  let p00 := (⟨x0, y00, z0⟩ : V3 K).cmul scale
  let p10 := (⟨x0, y10, z1⟩ : V3 K).cmul scale
  let p01 := (⟨x1, y01, z0⟩ : V3 K).cmul scale
  let p11 := (⟨x1, y11, z1⟩ : V3 K).cmul scale
  if st.zigzag then
    (if st.leftRemoved then none else some ⟨p00, p10, p11⟩, if st.rightRemoved then none else some ⟨p00, p11, p01⟩)
  else
    (if st.leftRemoved then none else some ⟨p00, p10, p01⟩, if st.rightRemoved then none else some ⟨p10, p11, p01⟩)

/-- one vertex of `push_circle(radius, _, _, y)` at angle with cosine `c` and sine `s` -/
def circlePoint (radius y c s : K) : V3 K := ⟨c * radius, y, s * radius⟩

/-- loop of `push_circle`: `k` more vertices, current angle `θ` (`curr_theta += dtheta` after each push);
`cs θ = (cos θ, sin θ)` is the trigonometric primitive (libm at `Float`, any function in the theorems) -/
def pushCircleAux (cs : K → K × K) (radius dtheta y : K) : Nat → K → List (V3 K)
  | 0, _ => []
  | k + 1, θ => circlePoint radius y (cs θ).1 (cs θ).2 :: pushCircleAux cs radius dtheta y k (θ + dtheta)

/-- `push_circle(radius, nsubdiv, dtheta, y)`: what is pushed to `out` -/
def pushCircle (cs : K → K × K) (radius : K) (nsubdiv : Nat) (dtheta y : K) : List (V3 K) :=
  pushCircleAux cs radius dtheta y nsubdiv 0

end Model
