import ParryModel.C19.Theorems
#print axioms C19.cuboid_scaled_mem
#print axioms C19.halfspace3_scaled_mem
#print axioms C19.halfspace2_scaled_mem
#print axioms C19.halfspace_mul_rule_refuted
#print axioms C19.segment_scaled_mem
#print axioms C19.segment_scaled_mem_conv
#print axioms C19.triangle_scaled_mem
#print axioms C19.triangle_scaled_mem_conv
#print axioms C19.ball_scaled_mem
#print axioms C19.cylinder_scaled_mem
#print axioms C19.cone_scaled_mem
#print axioms C19.hf_cell_covered
#print axioms C19.circlePoint_on_boundary
