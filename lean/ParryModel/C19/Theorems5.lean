import ParryModel.Field
import ParryModel.C19.ModelAcc
import ParryModel.C19.LemmasExt
/-!
# C19 theorems, part 5 (round fu4): the acceleration structure and the orientation of a SCALED composite shape

* `Aabb::scaled` for every sign of the scale: the scaled box is the sorted image of the box (`aabbScaled3_sorted`), it contains
  `s∘p` exactly when the box contains `p` (`aabbScaled3_contains`, `aabbScaled3_contains_iff`; 2-D likewise), hence after
  `Qbvh::scaled` every lane box bounds the scaled primitives it bounded before (`qbvhScaled_bounds`, `qbvhScaled_root`).
* Refutation of "scale the node boxes by `|scale|`": a lane box on the positive side of a mirrored axis contains NONE of the
  mirrored points (`abs_scaled_box_misses_mirrored`, instance `qbvhScaledAbs_refuted`).
* Orientation: the signed volume is multiplied by `sx·sy·sz` (`vol6_scaled`): an outward-wound face stays outward for
  `det > 0` and becomes inward for a mirroring scale (`winding_kept_of_pos`, `mirror_reverses_winding`), exchanging two indices
  restores it (`mirror_swap_restores`); membership in a tetrahedron described by orientation signs transfers for every
  non-degenerate scale (`tet_scaled_mem`).
* Normals: the normal of the scaled triangle is the cofactor image of the normal (`triNormal_scaled`), so the side of a point
  w.r.t. a scaled face must be judged with the recomputed normal; keeping the unscaled (stale) normal misclassifies a concrete
  point under an orientation-preserving non-uniform scale (`stale_normal_refuted`).
-/
namespace C19
open Model Model.TM Model.Acc

variable {K : Type} [Field K] [LinearOrder K] [IsStrictOrderedRing K] (sq : K → K)

/-- `p` lies in the closed box `(mins, maxs)` -/
def BoxMem3 (b : V3 K × V3 K) (p : V3 K) : Prop :=
  b.1.x ≤ p.x ∧ p.x ≤ b.2.x ∧ b.1.y ≤ p.y ∧ p.y ≤ b.2.y ∧ b.1.z ≤ p.z ∧ p.z ≤ b.2.z
def BoxMem2 (b : V2 K × V2 K) (p : V2 K) : Prop :=
  b.1.x ≤ p.x ∧ p.x ≤ b.2.x ∧ b.1.y ≤ p.y ∧ p.y ≤ b.2.y
def ProperBox3 (b : V3 K × V3 K) : Prop := b.1.x ≤ b.2.x ∧ b.1.y ≤ b.2.y ∧ b.1.z ≤ b.2.z

private theorem axis_mem (l h s x : K) (h1 : l ≤ x) (h2 : x ≤ h) : min (l * s) (h * s) ≤ x * s ∧ x * s ≤ max (l * s) (h * s) := by
  rcases le_total 0 s with hs | hs
  · exact ⟨le_trans (min_le_left _ _) (mul_le_mul_of_nonneg_right h1 hs), le_trans (mul_le_mul_of_nonneg_right h2 hs) (le_max_right _ _)⟩
  · exact ⟨le_trans (min_le_right _ _) (mul_le_mul_of_nonpos_right h2 hs), le_trans (mul_le_mul_of_nonpos_right h1 hs) (le_max_left _ _)⟩

private theorem axis_mem_conv (l h s x : K) (hs : s ≠ 0) (hlh : l ≤ h)
    (h1 : min (l * s) (h * s) ≤ x * s) (h2 : x * s ≤ max (l * s) (h * s)) : l ≤ x ∧ x ≤ h := by
  rcases lt_or_gt_of_ne hs with hneg | hpos
  · have e1 : min (l * s) (h * s) = h * s := min_eq_right (mul_le_mul_of_nonpos_right hlh hneg.le)
    have e2 : max (l * s) (h * s) = l * s := max_eq_left (mul_le_mul_of_nonpos_right hlh hneg.le)
    rw [e1] at h1; rw [e2] at h2
    exact ⟨by nlinarith, by nlinarith⟩
  · have e1 : min (l * s) (h * s) = l * s := min_eq_left (mul_le_mul_of_nonneg_right hlh hpos.le)
    have e2 : max (l * s) (h * s) = h * s := max_eq_right (mul_le_mul_of_nonneg_right hlh hpos.le)
    rw [e1] at h1; rw [e2] at h2
    exact ⟨by nlinarith, by nlinarith⟩

/-- **`Aabb::scaled` bounds the scaled points, for every sign of the scale**: `p ∈ box ⇒ s∘p ∈ box.scaled(s)` (3-D) -/
theorem aabbScaled3_contains (b : V3 K × V3 K) (s p : V3 K) (h : BoxMem3 b p) :
    letI := fieldNum K sq
    BoxMem3 (aabbScaled3 b s) (p.cmul s) := by
  obtain ⟨h1, h2, h3, h4, h5, h6⟩ := h
  simp only [BoxMem3, aabbScaled3, V3.cmul, V3.inf, V3.sup, fieldNum_nmin, fieldNum_nmax]
  exact ⟨(axis_mem _ _ _ _ h1 h2).1, (axis_mem _ _ _ _ h1 h2).2, (axis_mem _ _ _ _ h3 h4).1, (axis_mem _ _ _ _ h3 h4).2,
    (axis_mem _ _ _ _ h5 h6).1, (axis_mem _ _ _ _ h5 h6).2⟩

/-- the same in 2-D -/
theorem aabbScaled2_contains (b : V2 K × V2 K) (s p : V2 K) (h : BoxMem2 b p) :
    letI := fieldNum K sq
    BoxMem2 (aabbScaled2 b s) (p.cmul s) := by
  obtain ⟨h1, h2, h3, h4⟩ := h
  simp only [BoxMem2, aabbScaled2, V2.cmul, V2.inf, V2.sup, fieldNum_nmin, fieldNum_nmax]
  exact ⟨(axis_mem _ _ _ _ h1 h2).1, (axis_mem _ _ _ _ h1 h2).2, (axis_mem _ _ _ _ h3 h4).1, (axis_mem _ _ _ _ h3 h4).2⟩

/-- **exactness**: for a non-degenerate scale and a proper box the scaled box contains `s∘p` exactly when the box contains `p`
(the scaled box is not larger than the image of the box) -/
theorem aabbScaled3_contains_iff (b : V3 K × V3 K) (s p : V3 K) (hb : ProperBox3 b)
    (hx : s.x ≠ 0) (hy : s.y ≠ 0) (hz : s.z ≠ 0) :
    letI := fieldNum K sq
    BoxMem3 (aabbScaled3 b s) (p.cmul s) ↔ BoxMem3 b p := by
  letI := fieldNum K sq
  refine ⟨fun h => ?_, aabbScaled3_contains sq b s p⟩
  simp only [BoxMem3, aabbScaled3, V3.cmul, V3.inf, V3.sup, fieldNum_nmin, fieldNum_nmax] at h
  obtain ⟨h1, h2, h3, h4, h5, h6⟩ := h
  obtain ⟨a1, a2⟩ := axis_mem_conv _ _ _ _ hx hb.1 h1 h2
  obtain ⟨a3, a4⟩ := axis_mem_conv _ _ _ _ hy hb.2.1 h3 h4
  obtain ⟨a5, a6⟩ := axis_mem_conv _ _ _ _ hz hb.2.2 h5 h6
  exact ⟨a1, a2, a3, a4, a5, a6⟩

/-- non-vacuity: a proper box, a scale with two negative components, a point of the box -/
example :
    letI := fieldNum ℚ id
    let b : V3 ℚ × V3 ℚ := (⟨1, -1, 0⟩, ⟨2, 3, 5⟩); let s : V3 ℚ := ⟨-2, 1/4, -3⟩; let p : V3 ℚ := ⟨3/2, 0, 5⟩
    ProperBox3 b ∧ BoxMem3 b p ∧ aabbScaled3 b s = (⟨-4, -1/4, -15⟩, ⟨-2, 3/4, 0⟩) ∧ BoxMem3 (aabbScaled3 b s) (p.cmul s) := by
  simp only [ProperBox3, BoxMem3, aabbScaled3, V3.cmul, V3.inf, V3.sup, fieldNum_nmin, fieldNum_nmax]
  norm_num

/-- **the scaled box is the sorted image of the box**: per axis `(lo·s, hi·s)` for `s ≥ 0`, `(hi·s, lo·s)` for `s ≤ 0` -/
theorem aabbScaled3_sorted (b : V3 K × V3 K) (s : V3 K) (hb : ProperBox3 b) :
    letI := fieldNum K sq
    aabbScaled3 b s =
      (⟨if 0 ≤ s.x then b.1.x * s.x else b.2.x * s.x, if 0 ≤ s.y then b.1.y * s.y else b.2.y * s.y, if 0 ≤ s.z then b.1.z * s.z else b.2.z * s.z⟩,
       ⟨if 0 ≤ s.x then b.2.x * s.x else b.1.x * s.x, if 0 ≤ s.y then b.2.y * s.y else b.1.y * s.y, if 0 ≤ s.z then b.2.z * s.z else b.1.z * s.z⟩) := by
  have ax : ∀ l h t : K, l ≤ h → min (l * t) (h * t) = (if 0 ≤ t then l * t else h * t) ∧ max (l * t) (h * t) = (if 0 ≤ t then h * t else l * t) := by
    intro l h t hlh
    split_ifs with ht
    · exact ⟨min_eq_left (mul_le_mul_of_nonneg_right hlh ht), max_eq_right (mul_le_mul_of_nonneg_right hlh ht)⟩
    · push Not at ht
      exact ⟨min_eq_right (mul_le_mul_of_nonpos_right hlh ht.le), max_eq_left (mul_le_mul_of_nonpos_right hlh ht.le)⟩
  simp only [aabbScaled3, V3.cmul, V3.inf, V3.sup, fieldNum_nmin, fieldNum_nmax, Prod.mk.injEq, V3.mk.injEq]
  exact ⟨⟨(ax _ _ _ hb.1).1, (ax _ _ _ hb.2.1).1, (ax _ _ _ hb.2.2).1⟩, ⟨(ax _ _ _ hb.1).2, (ax _ _ _ hb.2.1).2, (ax _ _ _ hb.2.2).2⟩⟩

/-! ### `Qbvh::scaled` -/

/-- **after `Qbvh::scaled` every lane box still bounds what it bounded**: if lane `k` of node `i` contains `p`, then lane `k` of
node `i` of the scaled tree contains `s∘p` — every sign pattern -/
theorem qbvhScaled_bounds (q : QBoxes K) (s : V3 K) (i k : Nat) (lanes : List (V3 K × V3 K)) (b : V3 K × V3 K) (p : V3 K)
    (hi : q.nodes[i]? = some lanes) (hk : lanes[k]? = some b) (hp : BoxMem3 b p) :
    letI := fieldNum K sq
    ∃ lanes' b', (qbvhScaled q s).nodes[i]? = some lanes' ∧ lanes'[k]? = some b' ∧ BoxMem3 b' (p.cmul s) := by
  letI := fieldNum K sq
  refine ⟨lanes.map fun b => aabbScaled3 b s, aabbScaled3 b s, ?_, ?_, aabbScaled3_contains sq b s p hp⟩
  · simp [qbvhScaled, List.getElem?_map, hi]
  · simp [List.getElem?_map, hk]

/-- the root box (`local_aabb()` of the scaled shape) bounds every scaled point the root box bounded -/
theorem qbvhScaled_root (q : QBoxes K) (s p : V3 K) (hp : BoxMem3 q.root p) :
    letI := fieldNum K sq
    BoxMem3 (qbvhScaled q s).root (p.cmul s) := by
  letI := fieldNum K sq
  exact aabbScaled3_contains sq q.root s p hp

/-- **scaling a box by `|scale|` loses the mirrored points**: if the x-axis is mirrored (`s.x < 0`) and the box lies strictly on
the positive side of that axis, NO point of the box is mapped into the box scaled by `|s|` -/
theorem abs_scaled_box_misses_mirrored (b : V3 K × V3 K) (s p : V3 K) (hs : s.x < 0) (hb : 0 < b.1.x) (hp : BoxMem3 b p) :
    letI := fieldNum K sq
    ¬ BoxMem3 (aabbScaled3 b s.abs) (p.cmul s) := by
  simp only [BoxMem3, aabbScaled3, V3.cmul, V3.abs, V3.inf, V3.sup, fieldNum_nmin, fieldNum_nmax, fieldNum_nabs]
  rintro ⟨h1, -⟩
  have hpx : 0 < p.x := lt_of_lt_of_le hb hp.1
  have hneg : p.x * s.x < 0 := mul_neg_of_pos_of_neg hpx hs
  have habs : 0 < |s.x| := abs_pos.mpr hs.ne
  have hbx : b.1.x ≤ b.2.x := le_trans hp.1 hp.2.1
  have : 0 < min (b.1.x * |s.x|) (b.2.x * |s.x|) := lt_min (mul_pos hb habs) (mul_pos (lt_of_lt_of_le hb hbx) habs)
  linarith

/-- refutation example at the level of the tree: one node, one lane box `[1,2]×[0,1]×[0,1]`, scale `(-1, 1, 1)`:
`Qbvh::scaled` bounds the mirrored corner `(-1, 0, 0)`, the `|scale|` rule does not (while its root box does: the tree
disagrees with its own root) -/
theorem qbvhScaledAbs_refuted :
    letI := fieldNum ℚ id
    let b : V3 ℚ × V3 ℚ := (⟨1, 0, 0⟩, ⟨2, 1, 1⟩); let q : QBoxes ℚ := ⟨b, [[b]]⟩; let s : V3 ℚ := ⟨-1, 1, 1⟩; let p : V3 ℚ := ⟨1, 0, 0⟩
    BoxMem3 b p ∧ (qbvhScaled q s).nodes = [[(⟨-2, 0, 0⟩, ⟨-1, 1, 1⟩)]] ∧ BoxMem3 (⟨-2, 0, 0⟩, ⟨-1, 1, 1⟩) (p.cmul s) ∧
    (qbvhScaledAbs q s).nodes = [[b]] ∧ ¬ BoxMem3 b (p.cmul s) ∧ BoxMem3 (qbvhScaledAbs q s).root (p.cmul s) := by
  simp only [qbvhScaled, qbvhScaledAbs, BoxMem3, aabbScaled3, V3.cmul, V3.abs, V3.inf, V3.sup, fieldNum_nmin, fieldNum_nmax, fieldNum_nabs,
    List.map_cons, List.map_nil]
  norm_num

/-! ### orientation under a scale -/

/-- **the signed volume is multiplied by the determinant `sx·sy·sz`** -/
theorem vol6_scaled (s a b c d : V3 K) :
    letI := fieldNum K sq
    vol6 (scalePt s a) (scalePt s b) (scalePt s c) (scalePt s d) = s.x * s.y * s.z * vol6 a b c d := by
  simp only [vol6, scalePt, V3.cmul, V3.sub, V3.cross, V3.dot]
  ring

/-- an outward-wound face (inner point `d` on the negative side) stays outward-wound under an orientation-preserving scale,
uniform or not -/
theorem winding_kept_of_pos (s a b c d : V3 K) (hdet : 0 < s.x * s.y * s.z) (h : @vol6 K (fieldNum K sq) a b c d < 0) :
    letI := fieldNum K sq
    vol6 (scalePt s a) (scalePt s b) (scalePt s c) (scalePt s d) < 0 := by
  rw [vol6_scaled]
  exact mul_neg_of_pos_of_neg hdet h

/-- **a mirroring scale reverses the winding**: the same index triple now has the inner point on its positive side — an
ORIENTED mesh whose index buffer is kept describes the complement of the scaled solid -/
theorem mirror_reverses_winding (s a b c d : V3 K) (hdet : s.x * s.y * s.z < 0) (h : @vol6 K (fieldNum K sq) a b c d < 0) :
    letI := fieldNum K sq
    0 < vol6 (scalePt s a) (scalePt s b) (scalePt s c) (scalePt s d) := by
  rw [vol6_scaled]
  exact mul_pos_of_neg_of_neg hdet h

/-- exchanging two indices of every triangle (`TriMesh::reverse`) restores the outward winding after a mirroring scale -/
theorem mirror_swap_restores (s a b c d : V3 K) (hdet : s.x * s.y * s.z < 0) (h : @vol6 K (fieldNum K sq) a b c d < 0) :
    letI := fieldNum K sq
    vol6 (scalePt s b) (scalePt s a) (scalePt s c) (scalePt s d) < 0 := by
  have hm := mirror_reverses_winding sq s a b c d hdet h
  have e : @vol6 K (fieldNum K sq) (@scalePt K (fieldNum K sq) s b) (@scalePt K (fieldNum K sq) s a) (@scalePt K (fieldNum K sq) s c) (@scalePt K (fieldNum K sq) s d)
      = - @vol6 K (fieldNum K sq) (@scalePt K (fieldNum K sq) s a) (@scalePt K (fieldNum K sq) s b) (@scalePt K (fieldNum K sq) s c) (@scalePt K (fieldNum K sq) s d) := by
    simp only [vol6, scalePt, V3.cmul, V3.sub, V3.cross, V3.dot]
    ring
  rw [e]; linarith

/-- non-vacuity: the face `(0,0,0) (0,1,0) (1,0,0)` of the unit tetrahedron (inner point `(0,0,1)`) is outward-wound; under
`(-2, 1/2, 3)` it is inward-wound, with two indices exchanged it is outward-wound again -/
example :
    letI := fieldNum ℚ id
    let a : V3 ℚ := ⟨0, 0, 0⟩; let b : V3 ℚ := ⟨0, 1, 0⟩; let c : V3 ℚ := ⟨1, 0, 0⟩; let d : V3 ℚ := ⟨0, 0, 1⟩; let s : V3 ℚ := ⟨-2, 1/2, 3⟩
    vol6 a b c d < 0 ∧ s.x * s.y * s.z < 0 ∧ 0 < vol6 (scalePt s a) (scalePt s b) (scalePt s c) (scalePt s d) ∧
      vol6 (scalePt s b) (scalePt s a) (scalePt s c) (scalePt s d) < 0 := by
  simp only [vol6, scalePt, V3.cmul, V3.sub, V3.cross, V3.dot]
  norm_num

/-- **containment transfers through `scaled`, every non-degenerate scale, any sign**: `s∘p` is in the scaled tetrahedron exactly
when `p` is in the tetrahedron (the signed-volume oracle of the harness, as a theorem) -/
theorem tet_scaled_mem (s a b c d p : V3 K) (hx : s.x ≠ 0) (hy : s.y ≠ 0) (hz : s.z ≠ 0) :
    letI := fieldNum K sq
    InTet (scalePt s a) (scalePt s b) (scalePt s c) (scalePt s d) (scalePt s p) ↔ InTet a b c d p := by
  letI := fieldNum K sq
  have hdet : s.x * s.y * s.z ≠ 0 := mul_ne_zero (mul_ne_zero hx hy) hz
  have hpos : 0 < (s.x * s.y * s.z) * (s.x * s.y * s.z) := mul_self_pos.mpr hdet
  have key : ∀ u v : K, 0 ≤ (s.x * s.y * s.z * u) * (s.x * s.y * s.z * v) ↔ 0 ≤ u * v := by
    intro u v
    have e : (s.x * s.y * s.z * u) * (s.x * s.y * s.z * v) = ((s.x * s.y * s.z) * (s.x * s.y * s.z)) * (u * v) := by ring
    rw [e]
    exact ⟨fun h => by
      by_contra hn; push Not at hn
      have := mul_neg_of_pos_of_neg hpos hn
      linarith, fun h => mul_nonneg hpos.le h⟩
  simp only [InTet, vol6_scaled, key]

/-- non-vacuity: the centroid of a tetrahedron is inside, a far point is outside; scale with one negative component -/
example :
    letI := fieldNum ℚ id
    let a : V3 ℚ := ⟨0, 0, 0⟩; let b : V3 ℚ := ⟨4, 0, 0⟩; let c : V3 ℚ := ⟨0, 4, 0⟩; let d : V3 ℚ := ⟨0, 0, 4⟩
    InTet a b c d ⟨1, 1, 1⟩ ∧ ¬ InTet a b c d ⟨3, 3, 3⟩ ∧
      InTet (scalePt ⟨-2, 1/2, 3⟩ a) (scalePt ⟨-2, 1/2, 3⟩ b) (scalePt ⟨-2, 1/2, 3⟩ c) (scalePt ⟨-2, 1/2, 3⟩ d) ⟨-2, 1/2, 3⟩ := by
  simp only [InTet, vol6, scalePt, V3.cmul, V3.sub, V3.cross, V3.dot]
  norm_num

/-! ### normals under a scale -/

/-- **the normal of the scaled triangle is the cofactor image of the normal** (`det · S⁻ᵀ n`), not `n` and not `s∘n` -/
theorem triNormal_scaled (s a b c : V3 K) :
    letI := fieldNum K sq
    triNormal (scalePt s a) (scalePt s b) (scalePt s c) = cofNormal s (triNormal a b c) := by
  simp only [triNormal, cofNormal, scalePt, V3.cmul, V3.sub, V3.cross, V3.mk.injEq]
  refine ⟨by ring, by ring, by ring⟩

/-- the recomputed normal classifies the scaled points exactly as the normal classified the points (up to the sign of the
determinant): `(s∘p - s∘a) · n' = det · ((p - a) · n)` -/
theorem side_scaled (s a b c p : V3 K) :
    letI := fieldNum K sq
    ((scalePt s p).sub (scalePt s a)).dot (triNormal (scalePt s a) (scalePt s b) (scalePt s c))
      = s.x * s.y * s.z * ((p.sub a).dot (triNormal a b c)) := by
  simp only [triNormal, scalePt, V3.cmul, V3.sub, V3.cross, V3.dot]
  ring

/-- **a stale normal misclassifies**: triangle `(0,0,0) (1,-1,0) (0,0,1)` (normal `(-1,-1,0)`), orientation-preserving scale
`(4, 1/4, 1)`; the point `p = (1, -2, 0)` is on the positive (outer) side, and so is `s∘p` for the recomputed normal, but the
stale normal puts `s∘p` on the negative (inner) side -/
theorem stale_normal_refuted :
    letI := fieldNum ℚ id
    let a : V3 ℚ := ⟨0, 0, 0⟩; let b : V3 ℚ := ⟨1, -1, 0⟩; let c : V3 ℚ := ⟨0, 0, 1⟩; let s : V3 ℚ := ⟨4, 1/4, 1⟩; let p : V3 ℚ := ⟨1, -2, 0⟩
    0 < s.x * s.y * s.z ∧ 0 < (p.sub a).dot (triNormal a b c) ∧
      0 < ((scalePt s p).sub (scalePt s a)).dot (triNormal (scalePt s a) (scalePt s b) (scalePt s c)) ∧
      ((scalePt s p).sub (scalePt s a)).dot (triNormal a b c) < 0 := by
  simp only [triNormal, scalePt, V3.cmul, V3.sub, V3.cross, V3.dot]
  norm_num

/-! ### routing of `Shape::scale_dyn` -/

private theorem neqb (a b : K) : letI := fieldNum K sq; (!(neq a b)) = true ↔ a ≠ b := by
  letI := fieldNum K sq
  rw [Bool.not_eq_true', ← Bool.not_eq_true, neq_iff sq]

/-- a ball stays a `Ball` exactly under a uniform scale (any sign); otherwise it becomes a convex polyhedron -/
theorem scaleDynKind_ball_iff (s : V3 K) :
    letI := fieldNum K sq
    scaleDynKind s .ball = .ball ↔ (s.x = s.y ∧ s.x = s.z) := by
  letI := fieldNum K sq
  simp only [scaleDynKind]
  split_ifs with h
  · simp only [Bool.or_eq_true, neqb sq] at h
    simp only [reduceCtorEq, false_iff, not_and]
    intro hxy hxz
    rcases h with (h | h) | h
    · exact h hxy
    · exact h hxz
    · exact h (hxy.symm.trans hxz)
  · simp only [Bool.or_eq_true, neqb sq, not_or, not_not] at h
    simp only [true_iff]
    exact ⟨h.1.1, h.1.2⟩

/-- a capsule stays a `Capsule` exactly under a uniform scale -/
theorem scaleDynKind_capsule_iff (s : V3 K) :
    letI := fieldNum K sq
    scaleDynKind s .capsule = .capsule ↔ (s.x = s.y ∧ s.x = s.z) := by
  letI := fieldNum K sq
  simp only [scaleDynKind]
  split_ifs with h
  · simp only [Bool.or_eq_true, neqb sq] at h
    simp only [reduceCtorEq, false_iff, not_and]
    intro hxy hxz
    rcases h with (h | h) | h
    · exact h hxy
    · exact h hxz
    · exact h (hxy.symm.trans hxz)
  · simp only [Bool.or_eq_true, neqb sq, not_or, not_not] at h
    simp only [true_iff]
    exact ⟨h.1.1, h.1.2⟩

/-- a (round) cylinder stays a (round) cylinder exactly when `scale.x = scale.z` (any `scale.y`, any sign) -/
theorem scaleDynKind_cyl_iff (s : V3 K) :
    letI := fieldNum K sq
    (scaleDynKind s .cyl = .cyl ↔ s.x = s.z) ∧ (scaleDynKind s .rcyl = .rcyl ↔ s.x = s.z) := by
  letI := fieldNum K sq
  simp only [scaleDynKind]
  constructor <;>
  · split_ifs with h
    · rw [neqb sq] at h
      simp only [reduceCtorEq, false_iff]; exact h
    · rw [neqb sq, not_not] at h
      simp only [true_iff]; exact h

/-- a (round) cone stays a (round) cone exactly when `scale.x = scale.z` and `scale.y ≥ 0` -/
theorem scaleDynKind_cone_iff (s : V3 K) :
    letI := fieldNum K sq
    (scaleDynKind s .cone = .cone ↔ (s.x = s.z ∧ 0 ≤ s.y)) ∧ (scaleDynKind s .rcone = .rcone ↔ (s.x = s.z ∧ 0 ≤ s.y)) := by
  letI := fieldNum K sq
  simp only [scaleDynKind]
  constructor <;>
  · split_ifs with h
    · simp only [Bool.or_eq_true, neqb sq, decide_eq_true_eq] at h
      simp only [reduceCtorEq, false_iff, not_and, not_le]
      intro hxz
      rcases h with h | h
      · exact absurd hxz h
      · exact h
    · simp only [Bool.or_eq_true, neqb sq, decide_eq_true_eq, not_or, not_not, not_lt] at h
      simp only [true_iff]; exact h

/-- every other variant comes back as the same variant, whatever the scale -/
theorem scaleDynKind_fixed (s : V3 K) :
    letI := fieldNum K sq
    scaleDynKind s .cuboid = .cuboid ∧ scaleDynKind s .seg = .seg ∧ scaleDynKind s .tri = .tri ∧ scaleDynKind s .hs = .hs ∧
    scaleDynKind s .polyh = .polyh ∧ scaleDynKind s .trimesh = .trimesh ∧ scaleDynKind s .polyline = .polyline ∧
    scaleDynKind s .hf = .hf ∧ scaleDynKind s .rcuboid = .rcuboid ∧ scaleDynKind s .rtri = .rtri ∧ scaleDynKind s .rpolyh = .rpolyh := by
  simp only [scaleDynKind, and_self]

/-- a compound comes back as a compound with the same number of parts, each part routed on its own -/
theorem scaleDynKind_compound (s : V3 K) (ps : List Kind3) :
    letI := fieldNum K sq
    ∃ qs, scaleDynKind s (.compound ps) = .compound qs ∧ qs.length = ps.length ∧
      ∀ (i : Nat) (p : Kind3), ps[i]? = some p → qs[i]? = some (scaleDynKind s p) := by
  letI := fieldNum K sq
  refine ⟨scaleDynKinds s ps, by simp only [scaleDynKind], ?_, ?_⟩
  · induction ps with
    | nil => simp [scaleDynKinds]
    | cons p ps ih => simp [scaleDynKinds, ih]
  · induction ps with
    | nil => intro i p h; simp at h
    | cons p0 ps ih =>
      intro i p h
      cases i with
      | zero => simp only [List.getElem?_cons_zero, Option.some.injEq] at h; simp [scaleDynKinds, h]
      | succ j => simp only [List.getElem?_cons_succ] at h; simp only [scaleDynKinds, List.getElem?_cons_succ]; exact ih j p h

/-! ### `TriMesh::scaled` keeps an ORIENTED mesh outward-wound (corrected behaviour) -/

private theorem mirrors_iff (s : V3 K) (hx : s.x ≠ 0) (hy : s.y ≠ 0) (hz : s.z ≠ 0) :
    letI := fieldNum K sq
    (mirrors s = true ↔ s.x * s.y * s.z < 0) ∧ (mirrors s = false ↔ 0 < s.x * s.y * s.z) := by
  letI := fieldNum K sq
  rcases lt_or_gt_of_ne hx with hx' | hx' <;> rcases lt_or_gt_of_ne hy with hy' | hy' <;> rcases lt_or_gt_of_ne hz with hz' | hz'
  · have : s.x * s.y * s.z < 0 := mul_neg_of_pos_of_neg (mul_pos_of_neg_of_neg hx' hy') hz'
    simp [mirrors, hx', hy', hz', this, not_lt.mpr this.le]
  · have : 0 < s.x * s.y * s.z := mul_pos (mul_pos_of_neg_of_neg hx' hy') hz'
    simp [mirrors, hx', hy', not_lt.mpr hz'.le, this, not_lt.mpr this.le]
  · have : 0 < s.x * s.y * s.z := mul_pos_of_neg_of_neg (mul_neg_of_neg_of_pos hx' hy') hz'
    simp [mirrors, hx', hz', not_lt.mpr hy'.le, this, not_lt.mpr this.le]
  · have : s.x * s.y * s.z < 0 := mul_neg_of_neg_of_pos (mul_neg_of_neg_of_pos hx' hy') hz'
    simp [mirrors, hx', not_lt.mpr hy'.le, not_lt.mpr hz'.le, this, not_lt.mpr this.le]
  · have : 0 < s.x * s.y * s.z := mul_pos_of_neg_of_neg (mul_neg_of_pos_of_neg hx' hy') hz'
    simp [mirrors, hy', hz', not_lt.mpr hx'.le, this, not_lt.mpr this.le]
  · have : s.x * s.y * s.z < 0 := mul_neg_of_neg_of_pos (mul_neg_of_pos_of_neg hx' hy') hz'
    simp [mirrors, hy', not_lt.mpr hx'.le, not_lt.mpr hz'.le, this, not_lt.mpr this.le]
  · have : s.x * s.y * s.z < 0 := mul_neg_of_pos_of_neg (mul_pos hx' hy') hz'
    simp [mirrors, hz', not_lt.mpr hx'.le, not_lt.mpr hy'.le, this, not_lt.mpr this.le]
  · have : 0 < s.x * s.y * s.z := mul_pos (mul_pos hx' hy') hz'
    simp [mirrors, not_lt.mpr hx'.le, not_lt.mpr hy'.le, not_lt.mpr hz'.le, this, not_lt.mpr this.le]

/-- **the scaled ORIENTED mesh is still outward-wound, for every non-degenerate scale of any sign**: a face `(a, b, c)` with
the inner point `d` on its negative side is mapped by `TriMesh::scaled` (vertices scaled, winding reversed exactly when the
number of negative factors is odd) to a face with `s∘d` on its negative side -/
theorem trimeshScaled_keeps_outward (s a b c d : V3 K) (hx : s.x ≠ 0) (hy : s.y ≠ 0) (hz : s.z ≠ 0)
    (h : @vol6 K (fieldNum K sq) a b c d < 0) :
    letI := fieldNum K sq
    vol6 (Acc.rewind true s (scalePt s a) (scalePt s b) (scalePt s c)).1 (Acc.rewind true s (scalePt s a) (scalePt s b) (scalePt s c)).2.1
      (Acc.rewind true s (scalePt s a) (scalePt s b) (scalePt s c)).2.2 (scalePt s d) < 0 := by
  letI := fieldNum K sq
  obtain ⟨hm, hn⟩ := mirrors_iff sq s hx hy hz
  cases hmir : mirrors s with
  | true =>
    simp only [Acc.rewind, hmir, Bool.and_self, if_true]
    exact mirror_swap_restores sq s a b c d (hm.mp hmir) h
  | false =>
    simp only [Acc.rewind, hmir, Bool.and_false, Bool.false_eq_true, if_false]
    exact winding_kept_of_pos sq s a b c d (hn.mp hmir) h

/-- the pinned-tree rule "keep the index buffer" is refuted: unit tetrahedron face, scale `(-1, 1, 1)` -/
theorem keep_indices_refuted :
    letI := fieldNum ℚ id
    let a : V3 ℚ := ⟨0, 0, 0⟩; let b : V3 ℚ := ⟨0, 1, 0⟩; let c : V3 ℚ := ⟨1, 0, 0⟩; let d : V3 ℚ := ⟨0, 0, 1⟩; let s : V3 ℚ := ⟨-1, 1, 1⟩
    vol6 a b c d < 0 ∧ mirrors s = true ∧ ¬ vol6 (scalePt s a) (scalePt s b) (scalePt s c) (scalePt s d) < 0 ∧
      trimeshScaledIdx true s [(0, 1, 2)] = [(1, 0, 2)] ∧ trimeshScaledIdx false s [(0, 1, 2)] = [(0, 1, 2)] := by
  simp only [vol6, scalePt, mirrors, trimeshScaledIdx, V3.cmul, V3.sub, V3.cross, V3.dot]
  norm_num
  rfl

/-- 2-D routing: a ball / capsule stays itself exactly when `scale.x = scale.y`; every other variant keeps its variant -/
theorem scaleDynKind2_iff (s : V2 K) :
    letI := fieldNum K sq
    (scaleDynKind2 s .ball = .ball ↔ s.x = s.y) ∧ (scaleDynKind2 s .capsule = .capsule ↔ s.x = s.y) ∧
    scaleDynKind2 s .cuboid = .cuboid ∧ scaleDynKind2 s .seg = .seg ∧ scaleDynKind2 s .tri = .tri ∧ scaleDynKind2 s .hs = .hs ∧
    scaleDynKind2 s .polygon = .polygon ∧ scaleDynKind2 s .polyline = .polyline ∧ scaleDynKind2 s .hf = .hf ∧
    scaleDynKind2 s .rcuboid = .rcuboid ∧ scaleDynKind2 s .rpolygon = .rpolygon := by
  letI := fieldNum K sq
  simp only [scaleDynKind2, and_self, and_true]
  constructor <;>
  · split_ifs with h
    · rw [neqb sq] at h
      simp only [reduceCtorEq, false_iff]; exact h
    · rw [neqb sq, not_not] at h
      simp only [true_iff]; exact h

end C19
