import ParryModel.Field
import ParryModel.C19.Model
/-!
# C19 theorems, part 3: the faces pushed by the index generators point outwards.

Every discretized primitive (cone, cylinder, ball, capsule) is star-shaped around the origin of its local frame, so a
face `(a, b, c)` is outward oriented iff the signed volume `6·vol(0, p_a, p_b, p_c) = p_a · (p_b × p_c)` is positive.
The vertices of a circle are `push_circle`'s `circlePoint radius y cos sin`; in exact arithmetic consecutive
directions differ by the rotation of angle `Δ = 2π/n`, i.e. if `(ci, si)` is the direction of vertex `i` and
`(c, s) = (cos Δ, sin Δ)`, vertex `i+1` has direction `(ci·c − si·s, si·c + ci·s)`.  The only facts used are
`ci² + si² = 1` and `s = sin Δ > 0` (`n ≥ 3` ⇒ `0 < Δ < π`); for the filled-circle fans the half-angle values
(`sin(iΔ/2) > 0` for `0 < i < n`).  The theorems below cover ALL faces of every family (generic `i`), the families
being the four index generators; which family/heights/radii each primitive uses is listed in each docstring.
-/
namespace C19
open Model

/-- `p_a · (p_b × p_c)`: six times the signed volume of the tetrahedron `(0, p_a, p_b, p_c)` -/
def sixVol {K : Type} [Num K] (a b c : V3 K) : K := a.dot (b.cross c)

variable {K : Type} [Field K] [LinearOrder K] [IsStrictOrderedRing K] (sq : K → K)

/-- **`push_circle`, whole loop, every `nsubdiv`**: every vertex pushed lies on the circle of the given radius at height
`y`, whatever the angle step, provided the trigonometric primitive satisfies `cos² + sin² = 1`; and exactly `nsubdiv`
vertices are pushed. -/
theorem pushCircle_on_boundary (cs : K → K × K) (hcs : ∀ θ, (cs θ).1 * (cs θ).1 + (cs θ).2 * (cs θ).2 = 1)
    (radius dtheta y : K) (n : Nat) :
    letI := fieldNum K sq
    (pushCircle cs radius n dtheta y).length = n ∧
    ∀ p ∈ pushCircle cs radius n dtheta y, p.x * p.x + p.z * p.z = radius * radius ∧ p.y = y := by
  have aux : ∀ (k : Nat) (θ : K),
      (@pushCircleAux K (fieldNum K sq) cs radius dtheta y k θ).length = k ∧
      ∀ p ∈ @pushCircleAux K (fieldNum K sq) cs radius dtheta y k θ, p.x * p.x + p.z * p.z = radius * radius ∧ p.y = y := by
    intro k
    induction k with
    | zero => intro θ; simp [pushCircleAux]
    | succ k ih =>
      intro θ
      simp only [pushCircleAux, List.length_cons, List.mem_cons]
      refine ⟨by rw [(ih _).1], ?_⟩
      rintro p (rfl | hp)
      · simp only [circlePoint]
        exact ⟨by linear_combination (radius * radius) * hcs θ, trivial⟩
      · exact (ih _).2 p hp
  exact aux n 0

example : ∀ θ : ℚ, ((fun _ => ((3/5 : ℚ), (4/5 : ℚ))) θ).1 * ((fun _ => ((3/5 : ℚ), (4/5 : ℚ))) θ).1
    + ((fun _ => ((3/5 : ℚ), (4/5 : ℚ))) θ).2 * ((fun _ => ((3/5 : ℚ), (4/5 : ℚ))) θ).2 = 1 := by intro; norm_num

/-! ### closed forms of the signed volumes (pure polynomial identities) -/

private theorem fan_vol (R Y H c s ci si : K) :
    letI := fieldNum K sq
    sixVol (circlePoint R Y ci si) ⟨0, H, 0⟩ (circlePoint R Y (ci * c - si * s) (si * c + ci * s))
      = H * (R * R) * s * (ci * ci + si * si) := by
  simp only [sixVol, circlePoint, V3.dot, V3.cross]; ring

private theorem reversed_fan_vol (R Y H c s ci si : K) :
    letI := fieldNum K sq
    sixVol ⟨0, H, 0⟩ (circlePoint R Y ci si) (circlePoint R Y (ci * c - si * s) (si * c + ci * s))
      = (-H) * (R * R) * s * (ci * ci + si * si) := by
  simp only [sixVol, circlePoint, V3.dot, V3.cross]; ring

private theorem ring_vol (R Y R' Y' c s ci si : K) :
    letI := fieldNum K sq
    sixVol (circlePoint R' Y' (ci * c - si * s) (si * c + ci * s)) (circlePoint R Y (ci * c - si * s) (si * c + ci * s))
        (circlePoint R Y ci si) = R * s * (Y' * R - R' * Y) * (ci * ci + si * si) ∧
    sixVol (circlePoint R Y ci si) (circlePoint R' Y' ci si) (circlePoint R' Y' (ci * c - si * s) (si * c + ci * s))
      = R' * s * (Y' * R - R' * Y) * (ci * ci + si * si) := by
  simp only [sixVol, circlePoint, V3.dot, V3.cross]; constructor <;> ring

private theorem mirrored_ring_vol (R Y R' Y' c s ci si : K) :
    letI := fieldNum K sq
    sixVol (circlePoint R (-Y) (ci * c - si * s) (si * c + ci * s)) (circlePoint R' (-Y') (ci * c - si * s) (si * c + ci * s))
        (circlePoint R (-Y) ci si) = R * s * (Y' * R - R' * Y) * (ci * ci + si * si) ∧
    sixVol (circlePoint R' (-Y') ci si) (circlePoint R (-Y) ci si) (circlePoint R' (-Y') (ci * c - si * s) (si * c + ci * s))
      = R' * s * (Y' * R - R' * Y) * (ci * ci + si * si) := by
  simp only [sixVol, circlePoint, V3.dot, V3.cross]; constructor <;> ring

private theorem filled_vol (R Y c s ci si : K) :
    letI := fieldNum K sq
    sixVol (circlePoint R Y 1 0) (circlePoint R Y ci si) (circlePoint R Y (ci * c - si * s) (si * c + ci * s))
      = (-Y) * (R * R) * ((1 - ci) * s + si * (1 - c) + s * (ci * ci + si * si - 1)) ∧
    sixVol (circlePoint R Y ci si) (circlePoint R Y 1 0) (circlePoint R Y (ci * c - si * s) (si * c + ci * s))
      = Y * (R * R) * ((1 - ci) * s + si * (1 - c) + s * (ci * ci + si * si - 1)) := by
  simp only [sixVol, circlePoint, V3.dot, V3.cross]; constructor <;> ring

/-- **fan faces** `(bc+i, pt, bc+i+1)` of `push_degenerate_top_ring_indices`, apex `(0, H, 0)` above the circle's
centre (`H > 0`): cone side (`H = half_height`, circle at `-half_height`), north cap of the ball (`H = radius`), top
pole of the capsule.  Signed volume `= H·R²·sin Δ > 0`. -/
theorem fan_face_outward (R Y H c s ci si : K) (hu : ci * ci + si * si = 1) (hs : 0 < s) (hR : R ≠ 0) (hH : 0 < H) :
    letI := fieldNum K sq
    0 < sixVol (circlePoint R Y ci si) ⟨0, H, 0⟩ (circlePoint R Y (ci * c - si * s) (si * c + ci * s)) := by
  rw [fan_vol, hu]
  have : 0 < R * R := mul_self_pos.mpr hR
  positivity

example : (3/5 : ℚ) * (3/5) + (4/5) * (4/5) = 1 ∧ (0 : ℚ) < 4/5 ∧ (2 : ℚ) ≠ 0 := by norm_num

/-- **re-oriented fan faces** `(pt, bc+i, bc+i+1)` (`reverse_clockwising` of the above) with the apex `(0, H, 0)`
*below* the centre (`H < 0`): south cap of the ball, bottom pole of the capsule.  Signed volume `= −H·R²·sin Δ > 0`. -/
theorem reversed_fan_face_outward (R Y H c s ci si : K) (hu : ci * ci + si * si = 1) (hs : 0 < s) (hR : R ≠ 0)
    (hH : H < 0) :
    letI := fieldNum K sq
    0 < sixVol ⟨0, H, 0⟩ (circlePoint R Y ci si) (circlePoint R Y (ci * c - si * s) (si * c + ci * s)) := by
  rw [reversed_fan_vol, hu]
  have : 0 < R * R := mul_self_pos.mpr hR
  have : 0 < -H := by linarith
  positivity

/-- **ring faces** of `push_ring_indices` between a lower circle (radius `R`, height `Y`) and an upper circle
(radius `R'`, height `Y'`): both faces of the quad at column `i`, `(ul, dl, dr) = (up(i+1), low(i+1), low(i))` and
`(dr, ur, ul) = (low(i), up(i), up(i+1))`, are outward as soon as the profile `(R, Y) → (R', Y')` turns
counterclockwise around the origin of the (radius, height) half-plane: `Y'·R − R'·Y > 0`
(cylinder side: `R = R' = r`, `Y = −h`, `Y' = h`; ball and capsule caps: `ρ² sin(Δφ)`; capsule's joining ring).
Signed volumes `= R·sin Δ·(Y'R − R'Y)` and `R'·sin Δ·(Y'R − R'Y)`. -/
theorem ring_faces_outward (R Y R' Y' c s ci si : K) (hu : ci * ci + si * si = 1) (hs : 0 < s)
    (hR : 0 < R) (hR' : 0 < R') (hw : 0 < Y' * R - R' * Y) :
    letI := fieldNum K sq
    0 < sixVol (circlePoint R' Y' (ci * c - si * s) (si * c + ci * s)) (circlePoint R Y (ci * c - si * s) (si * c + ci * s))
        (circlePoint R Y ci si) ∧
    0 < sixVol (circlePoint R Y ci si) (circlePoint R' Y' ci si) (circlePoint R' Y' (ci * c - si * s) (si * c + ci * s)) := by
  obtain ⟨e1, e2⟩ := ring_vol sq R Y R' Y' c s ci si
  rw [e1, e2, hu]
  constructor <;> positivity

example : (0 : ℚ) < 1 * 2 - 2 * (-1) := by norm_num

/-- **cylinder side** (`Cylinder::to_trimesh`, radius `r > 0`, half-height `h > 0`): both faces of every side quad are
outward (instance of `ring_faces_outward`). -/
theorem cylinder_side_faces_outward (r h c s ci si : K) (hu : ci * ci + si * si = 1) (hs : 0 < s)
    (hr : 0 < r) (hh : 0 < h) :
    letI := fieldNum K sq
    0 < sixVol (circlePoint r h (ci * c - si * s) (si * c + ci * s)) (circlePoint r (-h) (ci * c - si * s) (si * c + ci * s))
        (circlePoint r (-h) ci si) ∧
    0 < sixVol (circlePoint r (-h) ci si) (circlePoint r h ci si) (circlePoint r h (ci * c - si * s) (si * c + ci * s)) :=
  ring_faces_outward sq r (-h) r h c s ci si hu hs hr hr (by nlinarith [mul_pos hh hr])

/-- **ball, between two latitudes** (`Ball::to_trimesh`, radius `ρ > 0`): latitude circles of radius `ρ·C`, `ρ·C'` at
heights `ρ·S`, `ρ·S'` with `(C, S) = (cos φ, sin φ)`, `(C', S') = (cos φ', sin φ')`, `C, C' > 0` (no circle is a pole) and
`sin(φ' − φ) = S'C − C'S > 0`: both faces of every quad are outward (instance of `ring_faces_outward`). -/
theorem sphere_ring_faces_outward (ρ C S C' S' c s ci si : K) (hu : ci * ci + si * si = 1) (hs : 0 < s)
    (hρ : 0 < ρ) (hC : 0 < C) (hC' : 0 < C') (hd : 0 < S' * C - C' * S) :
    letI := fieldNum K sq
    0 < sixVol (circlePoint (ρ * C') (ρ * S') (ci * c - si * s) (si * c + ci * s))
        (circlePoint (ρ * C) (ρ * S) (ci * c - si * s) (si * c + ci * s)) (circlePoint (ρ * C) (ρ * S) ci si) ∧
    0 < sixVol (circlePoint (ρ * C) (ρ * S) ci si) (circlePoint (ρ * C') (ρ * S') ci si)
        (circlePoint (ρ * C') (ρ * S') (ci * c - si * s) (si * c + ci * s)) :=
  ring_faces_outward sq (ρ * C) (ρ * S) (ρ * C') (ρ * S') c s ci si hu hs (by positivity) (by positivity)
    (by have : ρ * S' * (ρ * C) - ρ * C' * (ρ * S) = ρ * ρ * (S' * C - C' * S) := by ring
        rw [this]; positivity)

/-- **re-oriented, mirrored ring faces**: the bottom hemisphere of the capsule is the top one mirrored (`y ↦ −y`) with
`reverse_clockwising` applied: faces `(dl, ul, dr)` and `(ur, dr, ul)` on the mirrored circles are outward under the same
profile condition. -/
theorem mirrored_ring_faces_outward (R Y R' Y' c s ci si : K) (hu : ci * ci + si * si = 1) (hs : 0 < s)
    (hR : 0 < R) (hR' : 0 < R') (hw : 0 < Y' * R - R' * Y) :
    letI := fieldNum K sq
    0 < sixVol (circlePoint R (-Y) (ci * c - si * s) (si * c + ci * s)) (circlePoint R' (-Y') (ci * c - si * s) (si * c + ci * s))
        (circlePoint R (-Y) ci si) ∧
    0 < sixVol (circlePoint R' (-Y') ci si) (circlePoint R (-Y) ci si) (circlePoint R' (-Y') (ci * c - si * s) (si * c + ci * s)) := by
  obtain ⟨e1, e2⟩ := mirrored_ring_vol sq R Y R' Y' c s ci si
  rw [e1, e2, hu]
  constructor <;> positivity

/-- **filled-circle faces** `(bc, bc+i, bc+i+1)` of `push_filled_circle_indices` on a circle of radius `R` whose first
vertex has direction `(1, 0)`.  Half-angle parametrisation: `(a, b) = (cos(iΔ/2), sin(iΔ/2))`, `(c', s') = (cos(Δ/2),
sin(Δ/2))`; vertex `i` has direction `(a²−b², 2ab)` and vertex `i+1` is obtained by the rotation of angle `Δ`.  For
`0 < i < i+1 < n` the three sines `s'`, `b`, `b·c' + a·s' = sin((i+1)Δ/2)` are positive.  Then
* at height `Y < 0` the face as pushed is outward (cone base and the cylinder cap at `−half_height`), and
* at height `Y > 0` the re-oriented face `(bc+i, bc, bc+i+1)` is outward (the cylinder cap at `+half_height`, the one
  `unit_cylinder` passes through `reverse_clockwising`).
Signed volume `= ∓Y·R²·4·sin(Δ/2)·sin(iΔ/2)·sin((i+1)Δ/2)`. -/
theorem filled_circle_faces_outward (R Y c' s' a b : K) (hu : a * a + b * b = 1) (hu' : c' * c' + s' * s' = 1)
    (hs' : 0 < s') (hb : 0 < b) (hb' : 0 < b * c' + a * s') (hR : R ≠ 0) :
    letI := fieldNum K sq
    (Y < 0 → 0 < sixVol (circlePoint R Y 1 0) (circlePoint R Y (a * a - b * b) (2 * a * b))
      (circlePoint R Y ((a * a - b * b) * (c' * c' - s' * s') - 2 * a * b * (2 * c' * s'))
        (2 * a * b * (c' * c' - s' * s') + (a * a - b * b) * (2 * c' * s')))) ∧
    (0 < Y → 0 < sixVol (circlePoint R Y (a * a - b * b) (2 * a * b)) (circlePoint R Y 1 0)
      (circlePoint R Y ((a * a - b * b) * (c' * c' - s' * s') - 2 * a * b * (2 * c' * s'))
        (2 * a * b * (c' * c' - s' * s') + (a * a - b * b) * (2 * c' * s')))) := by
  obtain ⟨e1, e2⟩ := filled_vol sq R Y (c' * c' - s' * s') (2 * c' * s') (a * a - b * b) (2 * a * b)
  rw [e1, e2]
  have hRR : 0 < R * R := mul_self_pos.mpr hR
  have key : (1 - (a * a - b * b)) * (2 * c' * s') + 2 * a * b * (1 - (c' * c' - s' * s'))
      + 2 * c' * s' * ((a * a - b * b) * (a * a - b * b) + 2 * a * b * (2 * a * b) - 1)
      = 4 * s' * b * (b * c' + a * s') := by
    have h1 : 1 - (a * a - b * b) = 2 * (b * b) := by linear_combination (-1 : K) * hu
    have h2 : 1 - (c' * c' - s' * s') = 2 * (s' * s') := by linear_combination (-1 : K) * hu'
    have h3 : (a * a - b * b) * (a * a - b * b) + 2 * a * b * (2 * a * b) - 1 = 0 := by
      linear_combination (a * a + b * b + 1) * hu
    rw [h1, h2, h3]; ring
  rw [key]
  constructor
  · intro hY
    have : 0 < -Y := by linarith
    positivity
  · intro hY
    positivity

/-- hypotheses of `filled_circle_faces_outward` are satisfiable: `Δ/2` with `(cos, sin) = (4/5, 3/5)`, `i = 1` -/
example : (4/5 : ℚ) * (4/5) + (3/5) * (3/5) = 1 ∧ (0 : ℚ) < 3/5 ∧ (0 : ℚ) < 3/5 * (4/5) + 4/5 * (3/5) := by norm_num

end C19
