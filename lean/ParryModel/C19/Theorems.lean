import ParryModel.Field
import ParryModel.C19.Model
import ParryModel.C19.Theorems2
import ParryModel.C19.Theorems3
import ParryModel.C19.Theorems4
import ParryModel.C19.Theorems5
import ParryModel.C19.Theorems6
import ParryModel.C19.Theorems7
import ParryModel.C19.Theorems8
import ParryModel.C19.Theorems9
/-!
# C19 theorems: `scaled` is exact — the scaled shape contains `s∘p` exactly when the original contains `p`,
for every non-degenerate scale vector of any sign.
-/
namespace C19
open Model

variable {K : Type} [Field K] [LinearOrder K] [IsStrictOrderedRing K] (sq : K → K)

private theorem abs_scale_iff (h s x : K) (hs : s ≠ 0) :
    (-|h * s| ≤ x * s ∧ x * s ≤ |h * s|) ↔ (-|h| ≤ x ∧ x ≤ |h|) := by
  rw [← abs_le, ← abs_le, abs_mul, abs_mul]
  have : 0 < |s| := abs_pos.mpr hs
  constructor
  · intro h1; exact le_of_mul_le_mul_right h1 this
  · intro h1; exact mul_le_mul_of_nonneg_right h1 this.le

/-- **cuboid**: any sign of scale; half-extents need not be assumed non-negative (|·| is applied to both). -/
theorem cuboid_scaled_mem (c : Cuboid3 K) (s p : V3 K) (hx : s.x ≠ 0) (hy : s.y ≠ 0) (hz : s.z ≠ 0)
    (hc : 0 ≤ c.he.x ∧ 0 ≤ c.he.y ∧ 0 ≤ c.he.z) :
    letI := fieldNum K sq
    (c.scaled s).Mem (p.cmul s) ↔ c.Mem p := by
  simp only [Cuboid3.scaled, Cuboid3.Mem, V3.cmul, V3.abs, fieldNum_nabs]
  rw [abs_scale_iff _ _ _ hx, abs_scale_iff _ _ _ hy, abs_scale_iff _ _ _ hz,
      abs_of_nonneg hc.1, abs_of_nonneg hc.2.1, abs_of_nonneg hc.2.2]

example : (0:ℚ) ≤ 1 ∧ (0:ℚ) ≤ 2 ∧ (0:ℚ) ≤ 3 ∧ (-2:ℚ) ≠ 0 := by norm_num

private theorem sq_pos_of_pos (hsq : LawfulSqrt sq) (N : K) (hpos : 0 < N) : 0 < sq N := by
  have h1 := hsq.nonneg N hpos.le
  have h2 := hsq.sq_mul N hpos.le
  rcases h1.lt_or_eq with h3 | h3
  · exact h3
  · rw [← h3] at h2; simp at h2; linarith

/-- **half-space (3-D)**: the scaled half-space exists for every non-zero normal and non-degenerate scale, and
contains `s∘p` iff the original contains `p`. -/
theorem halfspace3_scaled_mem (h : HalfSpace3 K) (s p : V3 K) (hsq : LawfulSqrt sq)
    (hx : s.x ≠ 0) (hy : s.y ≠ 0) (hz : s.z ≠ 0)
    (hn : h.n.x ≠ 0 ∨ h.n.y ≠ 0 ∨ h.n.z ≠ 0) :
    letI := fieldNum K sq
    ∃ h', h.scaled s = some h' ∧ (h'.Mem (p.cmul s) ↔ h.Mem p) := by
  simp only [HalfSpace3.scaled, tryNormalize3, V3.normSq, V3.dot, V3.sdiv, HalfSpace3.Mem, V3.cmul, fieldNum_sqrt]
  have hpos : 0 < h.n.x / s.x * (h.n.x / s.x) + h.n.y / s.y * (h.n.y / s.y) + h.n.z / s.z * (h.n.z / s.z) := by
    have a := mul_self_nonneg (h.n.x / s.x); have b := mul_self_nonneg (h.n.y / s.y); have c := mul_self_nonneg (h.n.z / s.z)
    rcases hn with e | e | e
    · have : 0 < h.n.x / s.x * (h.n.x / s.x) := mul_self_pos.mpr (div_ne_zero e hx); linarith
    · have : 0 < h.n.y / s.y * (h.n.y / s.y) := mul_self_pos.mpr (div_ne_zero e hy); linarith
    · have : 0 < h.n.z / s.z * (h.n.z / s.z) := mul_self_pos.mpr (div_ne_zero e hz); linarith
  have hroot := sq_pos_of_pos sq hsq _ hpos
  have hcond : (0:K) * 0 < h.n.x / s.x * (h.n.x / s.x) + h.n.y / s.y * (h.n.y / s.y) + h.n.z / s.z * (h.n.z / s.z) := by simpa using hpos
  refine ⟨_, congrArg (Option.map HalfSpace3.mk) (if_pos hcond), ?_⟩
  · simp only []
    have e : h.n.x / s.x / sq (h.n.x / s.x * (h.n.x / s.x) + h.n.y / s.y * (h.n.y / s.y) + h.n.z / s.z * (h.n.z / s.z)) * (p.x * s.x)
        + h.n.y / s.y / sq (h.n.x / s.x * (h.n.x / s.x) + h.n.y / s.y * (h.n.y / s.y) + h.n.z / s.z * (h.n.z / s.z)) * (p.y * s.y)
        + h.n.z / s.z / sq (h.n.x / s.x * (h.n.x / s.x) + h.n.y / s.y * (h.n.y / s.y) + h.n.z / s.z * (h.n.z / s.z)) * (p.z * s.z)
        = (h.n.x * p.x + h.n.y * p.y + h.n.z * p.z) / sq (h.n.x / s.x * (h.n.x / s.x) + h.n.y / s.y * (h.n.y / s.y) + h.n.z / s.z * (h.n.z / s.z)) := by
      field_simp
    rw [e, div_le_iff₀ hroot, zero_mul]

theorem halfspace2_scaled_mem (h : HalfSpace2 K) (s p : V2 K) (hsq : LawfulSqrt sq)
    (hx : s.x ≠ 0) (hy : s.y ≠ 0) (hn : h.n.x ≠ 0 ∨ h.n.y ≠ 0) :
    letI := fieldNum K sq
    ∃ h', h.scaled s = some h' ∧ (h'.Mem (p.cmul s) ↔ h.Mem p) := by
  simp only [HalfSpace2.scaled, tryNormalize2, V2.normSq, V2.dot, V2.sdiv, HalfSpace2.Mem, V2.cmul, fieldNum_sqrt]
  have hpos : 0 < h.n.x / s.x * (h.n.x / s.x) + h.n.y / s.y * (h.n.y / s.y) := by
    have a := mul_self_nonneg (h.n.x / s.x); have b := mul_self_nonneg (h.n.y / s.y)
    rcases hn with e | e
    · have : 0 < h.n.x / s.x * (h.n.x / s.x) := mul_self_pos.mpr (div_ne_zero e hx); linarith
    · have : 0 < h.n.y / s.y * (h.n.y / s.y) := mul_self_pos.mpr (div_ne_zero e hy); linarith
  have hroot := sq_pos_of_pos sq hsq _ hpos
  have hcond : (0:K) * 0 < h.n.x / s.x * (h.n.x / s.x) + h.n.y / s.y * (h.n.y / s.y) := by simpa using hpos
  refine ⟨_, congrArg (Option.map HalfSpace2.mk) (if_pos hcond), ?_⟩
  · simp only []
    have e : h.n.x / s.x / sq (h.n.x / s.x * (h.n.x / s.x) + h.n.y / s.y * (h.n.y / s.y)) * (p.x * s.x)
        + h.n.y / s.y / sq (h.n.x / s.x * (h.n.x / s.x) + h.n.y / s.y * (h.n.y / s.y)) * (p.y * s.y)
        = (h.n.x * p.x + h.n.y * p.y) / sq (h.n.x / s.x * (h.n.x / s.x) + h.n.y / s.y * (h.n.y / s.y)) := by
      field_simp
    rw [e, div_le_iff₀ hroot, zero_mul]

/-- the pinned-tree rule (`normal ∘ scale`) is wrong: witness from the property text. -/
theorem halfspace_mul_rule_refuted :
    ∃ (n s p : V2 ℚ), (n.x * p.x + n.y * p.y ≤ 0) ∧ ¬ ((n.x * s.x) * (p.x * s.x) + (n.y * s.y) * (p.y * s.y) ≤ 0) :=
  ⟨⟨1, 1⟩, ⟨2, 1⟩, ⟨1, -3/2⟩, by norm_num, by norm_num⟩

/-- **segment**: `q ∈ scaled g s ↔ q = s∘p` for some `p ∈ g` (direction ⇐ needs no condition on `s`). -/
theorem segment_scaled_mem (g : Segment3 K) (s p : V3 K) :
    letI := fieldNum K sq
    g.Mem p → (g.scaled s).Mem (s.cmul p) := by
  rintro ⟨t, h0, h1, rfl⟩
  refine ⟨t, h0, h1, ?_⟩
  simp only [Segment3.scaled, V3.cmul, V3.add, V3.sub, V3.smul]
  congr 1 <;> ring

theorem segment_scaled_mem_conv (g : Segment3 K) (s q : V3 K) :
    letI := fieldNum K sq
    (g.scaled s).Mem q → ∃ p, g.Mem p ∧ q = s.cmul p := by
  rintro ⟨t, h0, h1, rfl⟩
  refine ⟨_, ⟨t, h0, h1, rfl⟩, ?_⟩
  simp only [Segment3.scaled, V3.cmul, V3.add, V3.sub, V3.smul]
  congr 1 <;> ring

theorem triangle_scaled_mem (t : Triangle3 K) (s p : V3 K) :
    letI := fieldNum K sq
    t.Mem p → (t.scaled s).Mem (s.cmul p) := by
  rintro ⟨u, v, h0, h1, h2, rfl⟩
  refine ⟨u, v, h0, h1, h2, ?_⟩
  simp only [Triangle3.scaled, V3.cmul, V3.add, V3.sub, V3.smul]
  congr 1 <;> ring

theorem triangle_scaled_mem_conv (t : Triangle3 K) (s q : V3 K) :
    letI := fieldNum K sq
    (t.scaled s).Mem q → ∃ p, t.Mem p ∧ q = s.cmul p := by
  rintro ⟨u, v, h0, h1, h2, rfl⟩
  refine ⟨_, ⟨u, v, h0, h1, h2, rfl⟩, ?_⟩
  simp only [Triangle3.scaled, V3.cmul, V3.add, V3.sub, V3.smul]
  congr 1 <;> ring

/-- **ball**, uniform scale of any sign -/
theorem ball_scaled_mem (b : Ball K) (s : K) (p : V3 K) (hs : s ≠ 0) :
    letI := fieldNum K sq
    (b.scaledUniform s).Mem3 (p.smul s) ↔ b.Mem3 p := by
  simp only [Ball.scaledUniform, Ball.Mem3, V3.normSq, V3.dot, V3.smul, fieldNum_nabs]
  have h2 : 0 < s * s := mul_self_pos.mpr hs
  have e1 : p.x * s * (p.x * s) + p.y * s * (p.y * s) + p.z * s * (p.z * s) = (p.x * p.x + p.y * p.y + p.z * p.z) * (s * s) := by ring
  have e2 : b.r * |s| * (b.r * |s|) = b.r * b.r * (s * s) := by rw [← abs_mul_abs_self s]; ring
  rw [e1, e2]
  exact mul_le_mul_iff_of_pos_right h2

/-- **cylinder**, `scale.x = scale.z`, any signs -/
theorem cylinder_scaled_mem (c : Cylinder K) (sx sy : K) (p : V3 K) (hx : sx ≠ 0) (hy : sy ≠ 0)
    (hc : 0 ≤ c.hh ∧ 0 ≤ c.r) :
    letI := fieldNum K sq
    (c.scaledXZ sx sy).Mem ⟨p.x * sx, p.y * sy, p.z * sx⟩ ↔ c.Mem p := by
  simp only [Cylinder.scaledXZ, Cylinder.Mem, fieldNum_nabs]
  have h2 : 0 < sx * sx := mul_self_pos.mpr hx
  rw [abs_scale_iff _ _ _ hy, abs_of_nonneg hc.1]
  have e1 : p.x * sx * (p.x * sx) + p.z * sx * (p.z * sx) = (p.x * p.x + p.z * p.z) * (sx * sx) := by ring
  have e2 : |c.r * sx| * |c.r * sx| = c.r * c.r * (sx * sx) := by rw [abs_mul_abs_self]; ring
  rw [e1, e2, mul_le_mul_iff_of_pos_right h2]

/-- **cone**, `scale.x = scale.z` of any sign, `scale.y > 0` (the branch that stays a cone) -/
theorem cone_scaled_mem (c : Cone K) (sx sy : K) (p : V3 K) (hx : sx ≠ 0) (hy : 0 < sy) :
    letI := fieldNum K sq
    (c.scaledXZ sx sy).Mem ⟨p.x * sx, p.y * sy, p.z * sx⟩ ↔ c.Mem p := by
  simp only [Cone.scaledXZ, Cone.Mem, fieldNum_nabs, fieldNum_two]
  have h2 : 0 < sx * sx := mul_self_pos.mpr hx
  have h3 : 0 < sy * sy := mul_self_pos.mpr hy.ne'
  have a1 : (-(c.hh * sy) ≤ p.y * sy ∧ p.y * sy ≤ c.hh * sy) ↔ (-c.hh ≤ p.y ∧ p.y ≤ c.hh) := by
    constructor
    · rintro ⟨h, h'⟩; exact ⟨le_of_mul_le_mul_right (by linarith) hy, le_of_mul_le_mul_right h' hy⟩
    · rintro ⟨h, h'⟩; exact ⟨by nlinarith, by nlinarith⟩
  rw [a1]
  have e1 : (p.x * sx * (p.x * sx) + p.z * sx * (p.z * sx)) * (2 * (c.hh * sy) * (2 * (c.hh * sy)))
      = ((p.x * p.x + p.z * p.z) * (2 * c.hh * (2 * c.hh))) * ((sx * sx) * (sy * sy)) := by ring
  have e2 : |c.r * sx| * |c.r * sx| * ((c.hh * sy - p.y * sy) * (c.hh * sy - p.y * sy))
      = (c.r * c.r * ((c.hh - p.y) * (c.hh - p.y))) * ((sx * sx) * (sy * sy)) := by rw [abs_mul_abs_self]; ring
  rw [e1, e2, mul_le_mul_iff_of_pos_right (mul_pos h2 h3)]

/-- point of the (x,z)-projection of a triangle: barycentric coordinates -/
def ProjMem (t : Triangle3 K) (x z : K) : Prop :=
  ∃ a b c : K, 0 ≤ a ∧ 0 ≤ b ∧ 0 ≤ c ∧ a + b + c = 1 ∧
    x = a * t.a.x + b * t.b.x + c * t.c.x ∧ z = a * t.a.z + b * t.b.z + c * t.c.z

/-- **heightfield discretization covers every cell**: for both subdivision patterns (default and ZIGZAG) and every
cell with no removed triangle, every point of the cell rectangle `[x0,x1]×[z0,z1]` (any scale signs) lies in the projection of
one of the two triangles returned by `triangles_at` — no quarter of the cell is left uncovered. -/
theorem hf_cell_covered (nrows ncols i j y00 y10 y01 y11 : K) (scale : V3 K) (zig : Bool) (u v : K)
    (hu0 : 0 ≤ u) (hu1 : u ≤ 1) (hv0 : 0 ≤ v) (hv1 : v ≤ 1) :
    letI := fieldNum K sq
    match hfTrianglesAt nrows ncols i j y00 y10 y01 y11 scale ⟨zig, false, false⟩ with
    | (some t1, some t2) =>
      let x0 := (-(1/2) + 1 / (ncols - 1) * j) * scale.x
      let x1 := (-(1/2) + 1 / (ncols - 1) * (j + 1)) * scale.x
      let z0 := (-(1/2) + 1 / (nrows - 1) * i) * scale.z
      let z1 := (-(1/2) + 1 / (nrows - 1) * (i + 1)) * scale.z
      ProjMem t1 (x0 + u * (x1 - x0)) (z0 + v * (z1 - z0)) ∨ ProjMem t2 (x0 + u * (x1 - x0)) (z0 + v * (z1 - z0))
    | _ => False := by
  have hl : ((mkRat 1 2 : Rat) : K) = 1/2 := by norm_num
  cases zig
  · -- default pattern: diagonal p10–p01
    simp only [hfTrianglesAt, Bool.false_and, Bool.false_eq_true, if_false, V3.cmul, fieldNum_lit, hl, ProjMem]
    rcases le_total (u + v) 1 with h | h
    · left; exact ⟨1 - u - v, v, u, by linarith, hv0, hu0, by ring, by ring, by ring⟩
    · right; exact ⟨1 - u, u + v - 1, 1 - v, by linarith, by linarith, by linarith, by ring, by ring, by ring⟩
  · -- zigzag pattern: diagonal p00–p11
    simp only [hfTrianglesAt, Bool.false_and, Bool.false_eq_true, if_false, if_true, V3.cmul, fieldNum_lit, hl, ProjMem]
    rcases le_total u v with h | h
    · left; exact ⟨1 - v, v - u, u, by linarith, by linarith, hu0, by ring, by ring, by ring⟩
    · right; exact ⟨1 - u, v, u - v, by linarith, hv0, by linarith, by ring, by ring, by ring⟩

/-- every vertex emitted by `push_circle` lies on the circle of that radius at height `y`
(the only trigonometric fact used is `cos² + sin² = 1`). -/
theorem circlePoint_on_boundary (radius y c s : K) (h : c * c + s * s = 1) :
    letI := fieldNum K sq
    let p := circlePoint radius y c s
    p.x * p.x + p.z * p.z = radius * radius ∧ p.y = y := by
  simp only [circlePoint]
  constructor
  · linear_combination (radius * radius) * h
  · trivial

/-! ### `Cone::scaled`: the whole dispatch -/

/-- **`Cone::scaled`, whole dispatch, every sign pattern**: whenever the function returns a `Cone` (it does so exactly when
`scale.x == scale.z` and `scale.y >= 0`), that cone contains `s∘p` iff the original contains `p` — for every scale with
non-zero components of any sign.  In particular a negative `scale.y` never yields a `Cone`. -/
theorem cone_scaled_dispatch_mem (c : Cone K) (s p : V3 K) (c' : Cone K)
    (hx : s.x ≠ 0) (hy : s.y ≠ 0) :
    letI := fieldNum K sq
    c.scaled s = some c' → (0 < s.y ∧ s.x = s.z ∧ (c'.Mem (p.cmul s) ↔ c.Mem p)) := by
  intro h
  simp only [Cone.scaled] at h
  split_ifs at h with hc
  simp only [Bool.or_eq_true, Bool.not_eq_true', decide_eq_true_eq, not_or, Bool.not_eq_false, not_lt] at hc
  have hxz : s.x = s.z := (neq_iff sq _ _).mp hc.1
  have hpos : 0 < s.y := lt_of_le_of_ne hc.2 (Ne.symm hy)
  refine ⟨hpos, hxz, ?_⟩
  have := cone_scaled_mem sq c s.x s.y p hx hpos
  simp only [Option.some.injEq] at h
  subst h
  simpa only [V3.cmul, ← hxz] using this

example : @Cone.scaled ℚ (fieldNum ℚ id) ⟨1, 1⟩ ⟨-2, 3, -2⟩ = some ⟨3, 2⟩ := by
  simp [Cone.scaled, Cone.scaledXZ, neq, nabs]

/-- the dispatch returns a cone for every scale with `scale.x = scale.z`, `scale.y > 0` (so the theorem above is not
vacuous) and never for `scale.y < 0` -/
theorem cone_scaled_dispatch_iff (c : Cone K) (s : V3 K) :
    letI := fieldNum K sq
    (c.scaled s).isSome = true ↔ (s.x = s.z ∧ 0 ≤ s.y) := by
  simp only [Cone.scaled]
  split_ifs with hc
  · simp only [Bool.or_eq_true, Bool.not_eq_true', decide_eq_true_eq] at hc
    simp only [Option.isSome_none, Bool.false_eq_true, false_iff, not_and, not_le]
    intro hxz
    rcases hc with h | h
    · have := (neq_iff sq s.x s.z).mpr hxz
      rw [h] at this; exact absurd this (by simp)
    · exact h
  · simp only [Bool.or_eq_true, Bool.not_eq_true', decide_eq_true_eq, not_or, Bool.not_eq_false, not_lt] at hc
    simp only [Option.isSome_some, true_iff]
    exact ⟨(neq_iff sq _ _).mp hc.1, hc.2⟩

/-! ### the other dispatches -/

/-- **`Cylinder::scaled`, whole dispatch**: whenever a `Cylinder` is returned (exactly when `scale.x == scale.z`), it
contains `s∘p` iff the original contains `p`, for every sign pattern (a cylinder is symmetric under `y ↦ -y`, so
`|scale.y|` is right here). -/
theorem cylinder_scaled_dispatch_mem (c : Cylinder K) (s p : V3 K) (c' : Cylinder K)
    (hx : s.x ≠ 0) (hy : s.y ≠ 0) (hc : 0 ≤ c.hh ∧ 0 ≤ c.r) :
    letI := fieldNum K sq
    c.scaled s = some c' → (s.x = s.z ∧ (c'.Mem (p.cmul s) ↔ c.Mem p)) := by
  intro h
  simp only [Cylinder.scaled] at h
  split_ifs at h with hxz
  have hxz' : s.x = s.z := (neq_iff sq _ _).mp hxz
  refine ⟨hxz', ?_⟩
  have := cylinder_scaled_mem sq c s.x s.y p hx hy hc
  simp only [Option.some.injEq] at h
  subst h
  simpa only [V3.cmul, ← hxz'] using this

/-- **`Capsule::scaled` / `Ball::scaled` (3-D), whole dispatch**: a capsule / ball is returned exactly for
`scale.x == scale.y == scale.z`, and then contains `s∘p` iff the original contains `p`. -/
theorem capsule_scaled_dispatch_mem (c : Capsule3 K) (s p : V3 K) (c' : Capsule3 K) (hx : s.x ≠ 0) :
    letI := fieldNum K sq
    c.scaled s = some c' → (s.x = s.y ∧ s.x = s.z ∧ (c'.Mem (p.cmul s) ↔ c.Mem p)) := by
  letI := fieldNum K sq
  intro h
  simp only [Capsule3.scaled] at h
  by_cases hu : uniformScale s = true
  swap
  · rw [if_neg hu] at h; exact absurd h (by simp)
  rw [if_pos hu] at h
  simp only [uniformScale, Bool.and_eq_true] at hu
  have hxy : s.x = s.y := (neq_iff sq _ _).mp hu.1.1
  have hxz : s.x = s.z := (neq_iff sq _ _).mp hu.1.2
  refine ⟨hxy, hxz, ?_⟩
  simp only [Option.some.injEq] at h
  subst h
  have := capsule_scaled_mem sq c s.x p hx
  simpa only [V3.cmul, V3.smul, ← hxy, ← hxz] using this

theorem ball_scaled_dispatch_mem (b : Ball K) (s p : V3 K) (b' : Ball K) (hx : s.x ≠ 0) :
    letI := fieldNum K sq
    b.scaled s = some b' → (s.x = s.y ∧ s.x = s.z ∧ (b'.Mem3 (p.cmul s) ↔ b.Mem3 p)) := by
  letI := fieldNum K sq
  intro h
  simp only [Ball.scaled] at h
  by_cases hu : uniformScale s = true
  swap
  · rw [if_neg hu] at h; exact absurd h (by simp)
  rw [if_pos hu] at h
  simp only [uniformScale, Bool.and_eq_true] at hu
  have hxy : s.x = s.y := (neq_iff sq _ _).mp hu.1.1
  have hxz : s.x = s.z := (neq_iff sq _ _).mp hu.1.2
  refine ⟨hxy, hxz, ?_⟩
  simp only [Option.some.injEq] at h
  subst h
  have := ball_scaled_mem sq b s.x p hx
  simpa only [V3.cmul, V3.smul, ← hxy, ← hxz] using this

end C19
