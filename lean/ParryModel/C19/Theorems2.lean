import ParryModel.C19.LemmasTopo
/-!
# C19 theorems, part 2: the generated index buffers are closed, consistently oriented surfaces for EVERY
subdivision count.

For the index generators of `transformation/utils.rs` (modelled in `ModelTopo.lean`): an exact, quantifier-free
arithmetic description of the set of directed edges each one pushes, and `Nodup` of that edge list.
For the assembled buffers of `unit_cone`, `unit_cylinder` (all `n ≥ 3`), `unit_sphere` and `canonical_capsule`
(all `ntheta ≥ 3`, `nphi ≥ 2`): `ClosedOriented` (LemmasTopo.lean) — every index is a vertex, no degenerate edge,
every directed edge occurs exactly once and so does its opposite.
-/
namespace C19
open Model.Topo

/-! ## the generators -/

private theorem edges_rectangle (ul ur dl dr : Nat) : edges (rectangle ul ur dl dr) =
    [(ul, dl), (dl, dr), (dr, ul), (dr, ur), (ur, ul), (ul, dr)] := by
  simp [edges, rectangle, triEdges]

private theorem edges_openRing (bl bu n : Nat) : edges (openRing bl bu n) = (List.range (n - 1)).flatMap fun i =>
    [(bu + i + 1, bl + i + 1), (bl + i + 1, bl + i), (bl + i, bu + i + 1),
     (bl + i, bu + i), (bu + i, bu + i + 1), (bu + i + 1, bl + i)] := by
  simp [edges, openRing, rectangle, triEdges, List.flatMap_assoc]

/-- **`push_ring_indices`**: exact description of the directed edges pushed (any bases, `n ≥ 1`). -/
theorem mem_edges_ring (bl bu n a b : Nat) (hn : 1 ≤ n) :
    (a, b) ∈ edges (ring bl bu n) ↔ RingEdge bl bu n a b := by
  simp only [ring, edges_append, edges_openRing, edges_rectangle, List.mem_append,
    List.mem_flatMap, List.mem_range, List.mem_cons, Prod.mk.injEq, List.not_mem_nil, or_false, RingEdge, Bwd]
  constructor
  · rintro (⟨i, hi, h | h | h | h | h | h⟩ | h | h | h | h | h | h) <;> pick_omega
  · rintro (h | h | (h | h) | (h | h) | (h | h) | (h | h))
    · by_cases h' : a = bu
      · right; left; omega
      · left; exact ⟨a - bu - 1, by omega, Or.inl (by omega)⟩
    · by_cases h' : a = bl + n - 1
      · right; right; right; right; left; omega
      · left; exact ⟨a - bl, by omega, Or.inr (Or.inr (Or.inr (Or.inl (by omega))))⟩
    · left; exact ⟨b - bl, by omega, Or.inr (Or.inl (by omega))⟩
    · right; right; left; omega
    · left; exact ⟨a - bu, by omega, Or.inr (Or.inr (Or.inr (Or.inr (Or.inl (by omega)))))⟩
    · right; right; right; right; right; left; omega
    · left; exact ⟨a - bl, by omega, Or.inr (Or.inr (Or.inl (by omega)))⟩
    · right; right; right; left; omega
    · left; exact ⟨b - bl, by omega, Or.inr (Or.inr (Or.inr (Or.inr (Or.inr (by omega)))))⟩
    · right; right; right; right; right; right; omega

/-- **`push_ring_indices`**: with two disjoint circles of `n ≥ 3` points no directed edge is pushed twice. -/
theorem nodup_edges_ring (bl bu n : Nat) (hn : 3 ≤ n) (hd : bl + n ≤ bu ∨ bu + n ≤ bl) :
    (edges (ring bl bu n)).Nodup := by
  simp only [ring, edges_append, edges_openRing, edges_rectangle]
  apply nodup_append_of
  · apply nodup_flatMap_range
    · intro i hi
      simp
      omega
    · intro i j hij hj x
      simp only [List.mem_cons, List.not_mem_nil, or_false]
      rintro (rfl | rfl | rfl | rfl | rfl | rfl) <;> simp <;> omega
  · simp; omega
  · rintro ⟨a, b⟩
    simp only [List.mem_flatMap, List.mem_range, List.mem_cons, Prod.mk.injEq, List.not_mem_nil, or_false]
    rintro ⟨i, hi, h⟩ h'
    omega

/-- **`push_degenerate_top_ring_indices`**: exact description of the directed edges pushed. -/
theorem mem_edges_degTopRing (bc pt n a b : Nat) (hn : 1 ≤ n) :
    (a, b) ∈ edges (degTopRing bc pt n) ↔ FanEdge bc pt n a b := by
  simp only [edges, degTopRing, degOpenTopRing, triEdges, List.flatMap_append, List.flatMap_map, List.mem_append,
    List.mem_flatMap, List.mem_range, List.mem_cons, Prod.mk.injEq, List.flatMap_cons, List.flatMap_nil,
    List.append_nil, List.not_mem_nil, or_false, FanEdge, Bwd]
  constructor
  · rintro (⟨i, hi, h | h | h⟩ | h | h | h) <;> pick_omega
  · rintro (h | h | h | h)
    · by_cases h' : a = bc + n - 1
      · right; left; omega
      · left; exact ⟨a - bc, by omega, Or.inl (by omega)⟩
    · by_cases h' : b = bc
      · right; right; left; omega
      · left; exact ⟨b - bc - 1, by omega, Or.inr (Or.inl (by omega))⟩
    · left; exact ⟨b - bc, by omega, Or.inr (Or.inr (by omega))⟩
    · right; right; right; omega

/-- **`push_degenerate_top_ring_indices`**: apex off the circle, `n ≥ 3`: no directed edge is pushed twice. -/
theorem nodup_edges_degTopRing (bc pt n : Nat) (hn : 3 ≤ n) (hpt : pt < bc ∨ bc + n ≤ pt) :
    (edges (degTopRing bc pt n)).Nodup := by
  simp only [edges, degTopRing, degOpenTopRing, triEdges, List.flatMap_append, List.flatMap_map,
     List.flatMap_cons, List.flatMap_nil, List.append_nil]
  apply nodup_append_of
  · apply nodup_flatMap_range
    · intro i hi
      simp
      omega
    · intro i j hij hj x
      simp only [List.mem_cons, List.not_mem_nil, or_false]
      rintro (rfl | rfl | rfl) <;> simp <;> omega
  · simp; omega
  · rintro ⟨a, b⟩
    simp only [List.mem_flatMap, List.mem_range, List.mem_cons, Prod.mk.injEq, List.not_mem_nil, or_false]
    rintro ⟨i, hi, h⟩ h'
    omega

/-- **`push_filled_circle_indices`**: exact description of the directed edges pushed (any `n`). -/
theorem mem_edges_filledCircle (bc n a b : Nat) :
    (a, b) ∈ edges (filledCircle bc n) ↔ FilledEdge bc n a b := by
  simp only [edges, filledCircle, triEdges, List.flatMap_map,
    List.mem_flatMap, List.mem_range, List.mem_cons, Prod.mk.injEq, List.not_mem_nil, or_false, FilledEdge]
  constructor
  · rintro ⟨i, hi, h | h | h⟩ <;> pick_omega
  · rintro (h | h | h)
    · exact ⟨b - bc - 1, by omega, Or.inl (by omega)⟩
    · exact ⟨a - bc - 1, by omega, Or.inr (Or.inl (by omega))⟩
    · exact ⟨a - bc - 2, by omega, Or.inr (Or.inr (by omega))⟩

/-- **`push_filled_circle_indices`**: no directed edge is pushed twice. -/
theorem nodup_edges_filledCircle (bc n : Nat) : (edges (filledCircle bc n)).Nodup := by
  simp only [edges, filledCircle, triEdges, List.flatMap_map]
  apply nodup_flatMap_range
  · intro i hi
    simp
    omega
  · intro i j hij hj x
    simp only [List.mem_cons, List.not_mem_nil, or_false]
    rintro (rfl | rfl | rfl) <;> simp <;> omega

/-- **`reverse_clockwising`** reverses every directed edge: the edge list of the result is a permutation of the
swapped edge list. -/
theorem edges_reverse_perm (T : List Tri) :
    (edges (reverseClockwising T)).Perm ((edges T).map Prod.swap) := by
  induction T with
  | nil => simp [edges, reverseClockwising]
  | cons t T ih =>
    obtain ⟨x, y, z⟩ := t
    simp only [edges, reverseClockwising, List.map_cons, List.flatMap_cons, List.map_append, triEdges] at ih ⊢
    refine List.Perm.append ?_ ih
    simp only [Prod.swap_prod_mk, List.map_nil]
    exact List.Perm.cons _ (List.Perm.swap _ _ _)

theorem mem_edges_reverse (T : List Tri) (a b : Nat) :
    (a, b) ∈ edges (reverseClockwising T) ↔ (b, a) ∈ edges T := by
  rw [(edges_reverse_perm T).mem_iff]
  simp only [List.mem_map, Prod.exists, Prod.swap_prod_mk, Prod.mk.injEq]
  constructor
  · rintro ⟨x, y, h, rfl, rfl⟩; exact h
  · intro h; exact ⟨b, a, h, rfl, rfl⟩

theorem nodup_edges_reverse (T : List Tri) (h : (edges T).Nodup) : (edges (reverseClockwising T)).Nodup :=
  (edges_reverse_perm T).nodup_iff.mpr (h.map swap_inj)

/-! ## cone -/

/-- the model's cone buffer is not vacuous: `unit_cone(3)` is the tetrahedron -/
example : coneIndices 3 = [(0, 3, 1), (1, 3, 2), (2, 3, 0), (0, 1, 2)] := by decide

theorem mem_edges_cone (n a b : Nat) (hn : 1 ≤ n) :
    (a, b) ∈ edges (coneIndices n) ↔ FanEdge 0 n n a b ∨ FilledEdge 0 n a b := by
  simp only [coneIndices, edges_append, List.mem_append, mem_edges_filledCircle, Nat.add_sub_cancel]
  rw [mem_edges_degTopRing _ _ _ _ _ hn]

/-- **`unit_cone` / `Cone::to_trimesh`, every `nsubdiv ≥ 3`**: the index buffer is a closed, consistently oriented
surface on its `nsubdiv + 1` vertices. -/
theorem cone_closedOriented (n : Nat) (hn : 3 ≤ n) : ClosedOriented (coneIndices n) (coneNumVertices n) := by
  have hm := fun a b => mem_edges_cone n a b (by omega)
  apply closedOriented_of
  · intro a b h; rw [hm] at h; simp only [FanEdge, FilledEdge, Bwd] at h; simp only [coneNumVertices]; omega
  · intro a b h; rw [hm] at h; simp only [FanEdge, FilledEdge, Bwd] at h; omega
  · simp only [coneIndices, edges_append, Nat.add_sub_cancel]
    apply nodup_append_of (nodup_edges_degTopRing _ _ _ hn (by omega)) (nodup_edges_filledCircle _ _)
    rintro ⟨a, b⟩ h1 h2
    rw [mem_edges_degTopRing _ _ _ _ _ (by omega)] at h1
    rw [mem_edges_filledCircle] at h2
    simp only [FanEdge, FilledEdge, Bwd] at h1 h2
    omega
  · intro a b h; rw [hm] at h ⊢
    rcases h with h | h
    · rcases fanEdge_swap h with h | h
      · exact Or.inl h
      · exact Or.inr (filledEdge_of_fwd hn h)
    · rcases filledEdge_swap h with h | h
      · exact Or.inr h
      · exact Or.inl (fanEdge_of_bwd h)

example : ClosedOriented (coneIndices 3) 4 := cone_closedOriented 3 (by omega)

/-! ## cylinder -/

example : cylinderIndices 3 =
    [(4, 1, 0), (0, 3, 4), (5, 2, 1), (1, 4, 5), (3, 0, 2), (2, 5, 3), (0, 1, 2), (4, 3, 5)] := by decide

/-- the in-place re-orientation of the last `nsubdiv - 2` faces hits exactly the second filled circle -/
theorem cylinderIndices_eq (n : Nat) :
    cylinderIndices n = ring 0 n n ++ filledCircle 0 n ++ reverseClockwising (filledCircle n n) := by
  have hl : (filledCircle n n).length = n - 2 := by simp [filledCircle]; omega
  simp only [cylinderIndices]
  rw [List.length_append, hl, Nat.add_sub_cancel, List.take_left' rfl, List.drop_left' rfl]

theorem mem_edges_cylinder (n a b : Nat) (hn : 1 ≤ n) :
    (a, b) ∈ edges (cylinderIndices n) ↔ RingEdge 0 n n a b ∨ FilledEdge 0 n a b ∨ FilledEdge n n b a := by
  rw [cylinderIndices_eq]
  simp only [edges_append, List.mem_append, mem_edges_filledCircle, mem_edges_reverse, mem_edges_ring _ _ _ _ _ hn,
    or_assoc]

/-- **`unit_cylinder` / `Cylinder::to_trimesh`, every `nsubdiv ≥ 3`**: the index buffer is a closed, consistently
oriented surface on its `2 nsubdiv` vertices. -/
theorem cylinder_closedOriented (n : Nat) (hn : 3 ≤ n) :
    ClosedOriented (cylinderIndices n) (cylinderNumVertices n) := by
  have hm := fun a b => mem_edges_cylinder n a b (by omega)
  apply closedOriented_of
  · intro a b h; rw [hm] at h; simp only [RingEdge, FilledEdge, Bwd] at h; simp only [cylinderNumVertices]; omega
  · intro a b h; rw [hm] at h; simp only [RingEdge, FilledEdge, Bwd] at h; omega
  · rw [cylinderIndices_eq]
    simp only [edges_append]
    apply nodup_append_of
    · apply nodup_append_of (nodup_edges_ring _ _ _ hn (by omega)) (nodup_edges_filledCircle _ _)
      rintro ⟨a, b⟩ h1 h2
      rw [mem_edges_ring _ _ _ _ _ (by omega)] at h1
      rw [mem_edges_filledCircle] at h2
      simp only [RingEdge, FilledEdge, Bwd] at h1 h2
      omega
    · exact nodup_edges_reverse _ (nodup_edges_filledCircle _ _)
    · rintro ⟨a, b⟩ h1 h2
      rw [List.mem_append, mem_edges_ring _ _ _ _ _ (by omega), mem_edges_filledCircle] at h1
      rw [mem_edges_reverse, mem_edges_filledCircle] at h2
      simp only [RingEdge, FilledEdge, Bwd] at h1 h2
      omega
  · intro a b h; rw [hm] at h ⊢
    rcases h with h | h | h
    · rcases ringEdge_swap h with h | h | h
      · exact Or.inl h
      · exact Or.inr (Or.inl (filledEdge_of_fwd hn h))
      · exact Or.inr (Or.inr (filledEdge_of_fwd hn h))
    · rcases filledEdge_swap h with h | h
      · exact Or.inr (Or.inl h)
      · exact Or.inl (ringEdge_of_bwd_lower h)
    · rcases filledEdge_swap h with h | h
      · exact Or.inr (Or.inr h)
      · exact Or.inl (ringEdge_of_fwd_upper h)

example : ClosedOriented (cylinderIndices 3) 6 := cylinder_closedOriented 3 (by omega)

/-! ## stacks of rings, sphere -/

/-- edges of a stack of rings -/
theorem mem_edges_ringStack (c nt k a b : Nat) (hn : 1 ≤ nt) :
    (a, b) ∈ edges (ringStack c nt k) ↔ StackEdge c nt k a b := by
  simp only [ringStack, edges_flatMap_range, List.mem_flatMap, List.mem_range, mem_edges_ring _ _ _ _ _ hn, StackEdge]

/-- a stack of rings (`ntheta ≥ 3`) never pushes a directed edge twice -/
theorem nodup_edges_ringStack (c nt k : Nat) (hn : 3 ≤ nt) : (edges (ringStack c nt k)).Nodup := by
  simp only [ringStack, edges_flatMap_range]
  apply nodup_flatMap_range
  · intro i _
    apply nodup_edges_ring _ _ _ hn
    left; simp only [Nat.add_mul, Nat.one_mul]; omega
  · rintro i j hij hj ⟨a, b⟩ h1 h2
    rw [mem_edges_ring _ _ _ _ _ (by omega)] at h1 h2
    obtain ⟨d, rfl⟩ : ∃ d, j = i + 1 + d := ⟨j - (i + 1), by omega⟩
    rcases d with _ | e
    · simp only [Nat.add_mul, Nat.one_mul, Nat.add_zero] at h1 h2
      simp only [RingEdge, Bwd] at h1 h2
      omega
    · simp only [Nat.add_mul, Nat.one_mul] at h1 h2
      have hb := ringEdge_bounds (by omega) h1
      have hb' := ringEdge_bounds (by omega) h2
      omega

example : sphereIndices 3 2 = [(0, 1, 2), (0, 2, 3), (0, 3, 1), (1, 4, 2), (2, 4, 3), (3, 4, 1)] := by decide

theorem sphereIndices_eq (nt np : Nat) (hnp : 2 ≤ np) :
    sphereIndices nt np = reverseClockwising (degTopRing 1 0 nt) ++ ringStack 1 nt (np - 2)
      ++ degTopRing (1 + (np - 2) * nt) (1 + (np - 2) * nt + nt) nt := by
  obtain ⟨m, rfl⟩ : ∃ m, np = m + 2 := ⟨np - 2, by omega⟩
  have h2 : sphereNumVertices nt (m + 2) - 1 = 1 + m * nt + nt := by
    simp only [sphereNumVertices, show m + 2 - 1 = m + 1 by omega, Nat.add_mul, Nat.one_mul]; omega
  simp only [sphereIndices, h2, Nat.add_sub_cancel]
  rfl

theorem mem_edges_sphere (nt np a b : Nat) (hnt : 1 ≤ nt) (hnp : 2 ≤ np) :
    (a, b) ∈ edges (sphereIndices nt np) ↔
      FanEdge 1 0 nt b a ∨ StackEdge 1 nt (np - 2) a b ∨ FanEdge (1 + (np - 2) * nt) (1 + (np - 2) * nt + nt) nt a b := by
  rw [sphereIndices_eq nt np hnp]
  simp only [edges_append, List.mem_append, mem_edges_reverse, mem_edges_degTopRing _ _ _ _ _ hnt,
    mem_edges_ringStack _ _ _ _ _ hnt, or_assoc]

/-- **`unit_sphere` / `Ball::to_trimesh`, every `ntheta_subdiv ≥ 3` and `nphi_subdiv ≥ 2`**: the index buffer is a
closed, consistently oriented surface on its `(nphi - 1)·ntheta + 2` vertices. -/
theorem sphere_closedOriented (nt np : Nat) (hnt : 3 ≤ nt) (hnp : 2 ≤ np) :
    ClosedOriented (sphereIndices nt np) (sphereNumVertices nt np) := by
  have hm := fun a b => mem_edges_sphere nt np a b (by omega) hnp
  obtain ⟨m, rfl⟩ : ∃ m, np = m + 2 := ⟨np - 2, by omega⟩
  simp only [Nat.add_sub_cancel] at hm
  have hV : sphereNumVertices nt (m + 2) = m * nt + nt + 2 := by
    simp only [sphereNumVertices, show m + 2 - 1 = m + 1 by omega, Nat.add_mul, Nat.one_mul]; omega
  apply closedOriented_of
  · intro a b h; rw [hm] at h; rw [hV]
    rcases h with h | h | h
    · simp only [FanEdge, Bwd] at h; omega
    · have := stackEdge_bounds (by omega) h; omega
    · simp only [FanEdge, Bwd] at h; omega
  · intro a b h; rw [hm] at h
    rcases h with h | h | h
    · simp only [FanEdge, Bwd] at h; omega
    · exact (stackEdge_bounds (by omega) h).2.2.2.2
    · simp only [FanEdge, Bwd] at h; omega
  · rw [sphereIndices_eq nt (m + 2) hnp]
    simp only [edges_append, Nat.add_sub_cancel]
    apply nodup_append_of
    · apply nodup_append_of (nodup_edges_reverse _ (nodup_edges_degTopRing _ _ _ hnt (by omega)))
        (nodup_edges_ringStack _ _ _ hnt)
      rintro ⟨a, b⟩ h1 h2
      rw [mem_edges_reverse, mem_edges_degTopRing _ _ _ _ _ (by omega)] at h1
      rw [mem_edges_ringStack _ _ _ _ _ (by omega)] at h2
      have hb := stackEdge_bounds (by omega) h2
      have hl := stackEdge_low h2
      simp only [FanEdge, Bwd] at h1 hl
      omega
    · exact nodup_edges_degTopRing _ _ _ hnt (by omega)
    · rintro ⟨a, b⟩ h1 h2
      rw [mem_edges_degTopRing _ _ _ _ _ (by omega)] at h2
      rw [List.mem_append, mem_edges_reverse, mem_edges_degTopRing _ _ _ _ _ (by omega),
        mem_edges_ringStack _ _ _ _ _ (by omega)] at h1
      rcases h1 with h1 | h1
      · rcases m with _ | m'
        · simp only [Nat.zero_mul, Nat.add_zero] at h2
          simp only [FanEdge, Bwd] at h1 h2
          omega
        · simp only [Nat.add_mul, Nat.one_mul] at h2
          simp only [FanEdge, Bwd] at h1 h2
          omega
      · have hb := stackEdge_bounds (by omega) h1
        have hh := stackEdge_high (by omega) h1
        simp only [FanEdge, Bwd] at h2 hh
        omega
  · intro a b h; rw [hm] at h ⊢
    rcases h with h | h | h
    · rcases fanEdge_swap h with h | h
      · exact Or.inl h
      · -- the south cap's circle, forwards: its twin is in the first ring, or in the north cap when there is no ring
        rcases m with _ | m'
        · right; right; simpa using fanEdge_of_bwd h
        · right; left; exact stackEdge_of_bwd (by omega) h
    · rcases stackEdge_swap h with h | h | h
      · exact Or.inr (Or.inl h)
      · exact Or.inl (fanEdge_of_bwd h)
      · exact Or.inr (Or.inr (fanEdge_of_bwd h))
    · rcases fanEdge_swap h with h | h
      · exact Or.inr (Or.inr h)
      · rcases m with _ | m'
        · left; simpa using fanEdge_of_bwd h
        · right; left; exact stackEdge_of_fwd (by omega) h

example : ClosedOriented (sphereIndices 3 2) 5 := sphere_closedOriented 3 2 (by omega) (by omega)
example : ClosedOriented (sphereIndices 7 5) 30 := sphere_closedOriented 7 5 (by omega) (by omega)

/-! ## hemisphere (a surface whose boundary is its equator), capsule -/

/-- **index shift** (`idx[k] += base`): edges are shifted -/
theorem mem_edges_shift (base : Nat) (T : List Tri) (a b : Nat) :
    (a, b) ∈ edges (shiftIndices base T) ↔ base ≤ a ∧ base ≤ b ∧ (a - base, b - base) ∈ edges T := by
  induction T with
  | nil => simp [edges, shiftIndices]
  | cons t T ih =>
    obtain ⟨x, y, z⟩ := t
    simp only [shiftIndices, List.map_cons, edges_cons, List.mem_append] at ih ⊢
    rw [ih]
    simp only [triEdges, List.mem_cons, Prod.mk.injEq, List.not_mem_nil, or_false]
    constructor
    · rintro ((h | h | h) | h)
      · exact ⟨by omega, by omega, Or.inl (Or.inl (by omega))⟩
      · exact ⟨by omega, by omega, Or.inl (Or.inr (Or.inl (by omega)))⟩
      · exact ⟨by omega, by omega, Or.inl (Or.inr (Or.inr (by omega)))⟩
      · exact ⟨h.1, h.2.1, Or.inr h.2.2⟩
    · rintro ⟨h1, h2, (h | h | h) | h⟩
      · exact Or.inl (Or.inl (by omega))
      · exact Or.inl (Or.inr (Or.inl (by omega)))
      · exact Or.inl (Or.inr (Or.inr (by omega)))
      · exact Or.inr ⟨h1, h2, h⟩

private theorem edges_shift (base : Nat) (T : List Tri) :
    edges (shiftIndices base T) = (edges T).map fun e => (e.1 + base, e.2 + base) := by
  induction T with
  | nil => simp [edges, shiftIndices]
  | cons t T ih =>
    obtain ⟨x, y, z⟩ := t
    simp only [shiftIndices, List.map_cons, edges_cons, List.map_append] at ih ⊢
    rw [ih]; simp [triEdges]

theorem nodup_edges_shift (base : Nat) (T : List Tri) (h : (edges T).Nodup) :
    (edges (shiftIndices base T)).Nodup := by
  rw [edges_shift]
  apply h.map
  rintro ⟨a, b⟩ ⟨c, d⟩ h
  simp only [Prod.mk.injEq] at h ⊢
  omega

theorem hemisphereIndices_eq (nt p : Nat) (hp : 1 ≤ p) :
    hemisphereIndices nt p = ringStack 0 nt (p - 1) ++ degTopRing ((p - 1) * nt) ((p - 1) * nt + nt) nt := by
  obtain ⟨q, rfl⟩ : ∃ q, p = q + 1 := ⟨p - 1, by omega⟩
  simp only [hemisphereIndices, hemisphereNumVertices, ringStack, Nat.zero_add, Nat.add_sub_cancel, Nat.add_mul,
    Nat.one_mul]

theorem mem_edges_hemisphere (nt p a b : Nat) (hnt : 1 ≤ nt) (hp : 1 ≤ p) :
    (a, b) ∈ edges (hemisphereIndices nt p) ↔ HemiEdge nt p a b := by
  rw [hemisphereIndices_eq nt p hp]
  simp only [edges_append, List.mem_append, mem_edges_degTopRing _ _ _ _ _ hnt, mem_edges_ringStack _ _ _ _ _ hnt,
    HemiEdge]

theorem nodup_edges_hemisphere (nt p : Nat) (hnt : 3 ≤ nt) (hp : 1 ≤ p) : (edges (hemisphereIndices nt p)).Nodup := by
  rw [hemisphereIndices_eq nt p hp, edges_append]
  apply nodup_append_of (nodup_edges_ringStack _ _ _ hnt) (nodup_edges_degTopRing _ _ _ hnt (by omega))
  rintro ⟨a, b⟩ h1 h2
  rw [mem_edges_ringStack _ _ _ _ _ (by omega)] at h1
  rw [mem_edges_degTopRing _ _ _ _ _ (by omega)] at h2
  have hb := stackEdge_bounds (by omega) h1
  have hh := stackEdge_high (by omega) h1
  simp only [FanEdge, Bwd, Nat.zero_add] at h2 hh
  omega

example : capsuleIndices 3 2 = [(3, 0, 1), (3, 1, 2), (3, 2, 0), (4, 7, 5), (5, 7, 6), (6, 7, 4),
    (5, 1, 0), (0, 4, 5), (6, 2, 1), (1, 5, 6), (4, 0, 2), (2, 6, 4)] := by decide

theorem mem_edges_capsule (nt np a b : Nat) (hnt : 1 ≤ nt) (hnp : 2 ≤ np) :
    (a, b) ∈ edges (capsuleIndices nt np) ↔
      HemiEdge nt (np / 2) b a ∨
      (hemisphereNumVertices nt (np / 2) ≤ a ∧ hemisphereNumVertices nt (np / 2) ≤ b ∧
        HemiEdge nt (np / 2) (a - hemisphereNumVertices nt (np / 2)) (b - hemisphereNumVertices nt (np / 2))) ∨
      RingEdge 0 (hemisphereNumVertices nt (np / 2)) nt a b := by
  have hp : 1 ≤ np / 2 := by omega
  simp only [capsuleIndices, edges_append, List.mem_append, mem_edges_reverse, mem_edges_shift,
    mem_edges_hemisphere _ _ _ _ hnt hp, mem_edges_ring _ _ _ _ _ hnt, or_assoc]

/-- **`canonical_capsule` / `Capsule::to_trimesh`, every `ntheta_subdiv ≥ 3` and `nphi_subdiv ≥ 2`**: the index buffer
(two hemispheres of `nphi/2` circles each, the bottom one re-oriented, the top one index-shifted, joined by one ring)
is a closed, consistently oriented surface on its `2·((nphi/2)·ntheta + 1)` vertices. -/
theorem capsule_closedOriented (nt np : Nat) (hnt : 3 ≤ nt) (hnp : 2 ≤ np) :
    ClosedOriented (capsuleIndices nt np) (capsuleNumVertices nt np) := by
  have hm := fun a b => mem_edges_capsule nt np a b (by omega) hnp
  have hp : 1 ≤ np / 2 := by omega
  have hB : hemisphereNumVertices nt (np / 2) = (np / 2 - 1) * nt + nt + 1 := by
    obtain ⟨q, hq⟩ : ∃ q, np / 2 = q + 1 := ⟨np / 2 - 1, by omega⟩
    rw [hq]; simp only [hemisphereNumVertices, Nat.add_sub_cancel, Nat.add_mul, Nat.one_mul]
  show ClosedOriented _ (2 * hemisphereNumVertices nt (np / 2))
  apply closedOriented_of
  · intro a b h; rw [hm] at h
    rcases h with h | ⟨h1, h2, h⟩ | h
    · have := hemiEdge_bounds hnt h; omega
    · have := hemiEdge_bounds hnt h; omega
    · have := ringEdge_bounds (by omega) h; omega
  · intro a b h; rw [hm] at h
    rcases h with h | ⟨h1, h2, h⟩ | h
    · have := hemiEdge_bounds hnt h; omega
    · have := hemiEdge_bounds hnt h; omega
    · simp only [RingEdge, Bwd] at h; omega
  · simp only [capsuleIndices, edges_append]
    apply nodup_append_of
    · apply nodup_append_of (nodup_edges_reverse _ (nodup_edges_hemisphere _ _ hnt hp))
        (nodup_edges_shift _ _ (nodup_edges_hemisphere _ _ hnt hp))
      rintro ⟨a, b⟩ h1 h2
      rw [mem_edges_reverse, mem_edges_hemisphere _ _ _ _ (by omega) hp] at h1
      rw [mem_edges_shift] at h2
      have := hemiEdge_bounds hnt h1; omega
    · exact nodup_edges_ring _ _ _ hnt (by left; rw [hB]; omega)
    · rintro ⟨a, b⟩ h1 h2
      rw [mem_edges_ring _ _ _ _ _ (by omega)] at h2
      rw [List.mem_append, mem_edges_reverse, mem_edges_shift, mem_edges_hemisphere _ _ _ _ (by omega) hp,
        mem_edges_hemisphere _ _ _ _ (by omega) hp] at h1
      have hr := ringEdge_bounds (by omega) h2
      rcases h1 with h1 | ⟨ha, hb, h1⟩
      · have hb := hemiEdge_bounds hnt h1
        have hl := hemiEdge_low h1 (by omega) (by omega)
        simp only [RingEdge, Bwd] at h2 hl; omega
      · have hb' := hemiEdge_bounds hnt h1
        have hl := hemiEdge_low h1 (by omega) (by omega)
        simp only [RingEdge, Bwd] at h2 hl; omega
  · intro a b h; rw [hm] at h ⊢
    rcases h with h | ⟨ha, hb, h⟩ | h
    · rcases hemiEdge_swap h with h | h
      · exact Or.inl h
      · exact Or.inr (Or.inr (ringEdge_of_bwd_lower h))
    · rcases hemiEdge_swap h with h | h
      · exact Or.inr (Or.inl ⟨hb, ha, h⟩)
      · right; right; apply ringEdge_of_fwd_upper; simp only [Bwd] at h ⊢; omega
    · rcases ringEdge_swap h with h | h | h
      · exact Or.inr (Or.inr h)
      · exact Or.inl (hemiEdge_of_bwd h)
      · right; left; refine ⟨?_, ?_, hemiEdge_of_bwd ?_⟩ <;> simp only [Bwd] at h ⊢ <;> omega

example : ClosedOriented (capsuleIndices 3 2) 8 := capsule_closedOriented 3 2 (by omega) (by omega)
example : ClosedOriented (capsuleIndices 5 7) 32 := capsule_closedOriented 5 7 (by omega) (by omega)

/-! ## face counts: Euler characteristic 2 -/

private theorem length_ring (bl bu n : Nat) (hn : 1 ≤ n) : (ring bl bu n).length = 2 * n := by
  simp [ring, openRing, rectangle, List.length_flatMap]
  omega

private theorem length_degTopRing (bc pt n : Nat) (hn : 1 ≤ n) : (degTopRing bc pt n).length = n := by
  simp [degTopRing, degOpenTopRing]; omega

private theorem length_filledCircle (bc n : Nat) : (filledCircle bc n).length = n - 2 := by
  simp [filledCircle]; omega

private theorem length_ringStack (c nt k : Nat) (hn : 1 ≤ nt) : (ringStack c nt k).length = 2 * (k * nt) := by
  simp [ringStack, List.length_flatMap, length_ring _ _ _ hn]
  ring

/-- **Euler characteristic 2** (`V − E + F = 2` with `2E = 3F`, i.e. `2V = F + 4`): together with `ClosedOriented` the
cone buffer is combinatorially a sphere, not some other closed surface. -/
theorem cone_euler (n : Nat) (hn : 3 ≤ n) : 2 * coneNumVertices n = (coneIndices n).length + 4 := by
  simp only [coneIndices, coneNumVertices, List.length_append, length_degTopRing _ _ _ (by omega : 1 ≤ n),
    length_filledCircle]
  omega

theorem cylinder_euler (n : Nat) (hn : 3 ≤ n) : 2 * cylinderNumVertices n = (cylinderIndices n).length + 4 := by
  rw [cylinderIndices_eq]
  simp only [cylinderNumVertices, List.length_append, length_ring _ _ _ (by omega : 1 ≤ n), length_filledCircle,
    reverseClockwising, List.length_map]
  omega

theorem sphere_euler (nt np : Nat) (hnt : 3 ≤ nt) (hnp : 2 ≤ np) :
    2 * sphereNumVertices nt np = (sphereIndices nt np).length + 4 := by
  rw [sphereIndices_eq nt np hnp]
  obtain ⟨m, rfl⟩ : ∃ m, np = m + 2 := ⟨np - 2, by omega⟩
  simp only [sphereNumVertices, List.length_append, length_degTopRing _ _ _ (by omega : 1 ≤ nt),
    length_ringStack _ _ _ (by omega : 1 ≤ nt), reverseClockwising, List.length_map, Nat.add_sub_cancel,
    show m + 2 - 1 = m + 1 by omega, Nat.add_mul, Nat.one_mul, Nat.mul_add]
  omega

theorem capsule_euler (nt np : Nat) (hnt : 3 ≤ nt) (hnp : 2 ≤ np) :
    2 * capsuleNumVertices nt np = (capsuleIndices nt np).length + 4 := by
  have hp : 1 ≤ np / 2 := by omega
  simp only [capsuleIndices, capsuleNumVertices, List.length_append, reverseClockwising, shiftIndices, List.length_map,
    hemisphereIndices_eq nt _ hp, length_degTopRing _ _ _ (by omega : 1 ≤ nt), length_ringStack _ _ _ (by omega : 1 ≤ nt),
    length_ring _ _ _ (by omega : 1 ≤ nt), hemisphereNumVertices]
  obtain ⟨q, hq⟩ : ∃ q, np / 2 = q + 1 := ⟨np / 2 - 1, by omega⟩
  rw [hq]
  simp only [Nat.add_sub_cancel, Nat.add_mul, Nat.one_mul, Nat.mul_add]
  omega

end C19
