import ParryModel.Field
import ParryModel.C19.Model
import ParryModel.C19.ModelExt
import ParryModel.C19.Theorems3
import ParryModel.C19.LemmasExt
/-!
# C19 theorems, part 4: the general dispatch of `scaled` (every sign pattern), the polyhedral fallback of `Cone::scaled`,
the 2-D `HeightField::to_polyline` with removed segments, and `Capsule::rotation_wrt_y`.
-/
namespace C19
open Model

variable {K : Type} [Field K] [LinearOrder K] [IsStrictOrderedRing K] (sq : K → K)

/-! ### `Cone::scaled`: a mirrored cone is not a cone -/

/-- **a mirrored cone is not a `Cone`**: for `scale.y < 0` (and a proper cone: `hh > 0`, `r > 0`) NO value of the `Cone`
structure represents the scaled set — whatever half-height and radius are chosen, some point's membership is wrong.
This is why `Cone::scaled` must send a negative `scale.y` to the polyhedral fallback; in particular the "take `|scale.y|`"
rule (as used by `Cylinder::scaled`, correct there by symmetry) is wrong for cones. -/
theorem cone_mirror_not_a_cone (c : Cone K) (s : V3 K) (hh : 0 < c.hh) (hr : 0 < c.r) (hy : s.y < 0) :
    letI := fieldNum K sq
    ¬ ∃ c' : Cone K, ∀ p : V3 K, c'.Mem (p.cmul s) ↔ c.Mem p := by
  rintro ⟨c', h⟩
  -- the base rim point `(r, -hh, 0)` belongs to the cone; its image is `(r sx, hh |sy|, 0)`
  have hA := (h ⟨c.r, -c.hh, 0⟩).mpr (by
    simp only [Cone.Mem, fieldNum_two]
    refine ⟨⟨le_refl _, by linarith⟩, ?_⟩
    have : c.hh - -c.hh = 2 * c.hh := by ring
    rw [this]; nlinarith [mul_pos hr hr, mul_pos hh hh])
  -- the point `(r, hh, 0)` (beside the apex) does not; its image is `(r sx, -hh |sy|, 0)`
  have hB := (h ⟨c.r, c.hh, 0⟩).not.mpr (by
    simp only [Cone.Mem, fieldNum_two]
    rintro ⟨-, h2⟩
    have : c.hh - c.hh = 0 := by ring
    rw [this] at h2
    nlinarith [mul_pos (mul_pos hr hr) (mul_pos hh hh)])
  apply hB
  simp only [Cone.Mem, V3.cmul, fieldNum_two] at hA ⊢
  obtain ⟨⟨hA1, hA2⟩, hA3⟩ := hA
  have hY : 0 < -c.hh * s.y := by nlinarith
  refine ⟨⟨by nlinarith, by nlinarith⟩, ?_⟩
  -- radial bound at height `-Y` is implied by the one at height `+Y` (`Y = -hh·sy > 0`, `|Y| ≤ hh'`)
  have hh' : 0 ≤ c'.hh := by nlinarith
  have key : (c'.hh - -c.hh * s.y) * (c'.hh - -c.hh * s.y) ≤ (c'.hh - c.hh * s.y) * (c'.hh - c.hh * s.y) := by
    nlinarith [mul_nonneg hh' hY.le]
  have hr2 : 0 ≤ c'.r * c'.r := mul_self_nonneg _
  calc (c.r * s.x * (c.r * s.x) + 0 * s.z * (0 * s.z)) * (2 * c'.hh * (2 * c'.hh))
      ≤ c'.r * c'.r * ((c'.hh - -c.hh * s.y) * (c'.hh - -c.hh * s.y)) := hA3
    _ ≤ c'.r * c'.r * ((c'.hh - c.hh * s.y) * (c'.hh - c.hh * s.y)) := mul_le_mul_of_nonneg_left key hr2

example : (0:ℚ) < 1 ∧ (-1:ℚ) < 0 := by norm_num

/-- the witness of the seeded change: with the `|scale.y|` rule, `Cone(1, 1)` scaled by `(1, -1, 1)` would stay `Cone(1, 1)`;
`p = (4/5, -9/10, 0)` is in the cone but `s∘p = (4/5, 9/10, 0)` is not. -/
theorem cone_abs_rule_refuted :
    letI := fieldNum ℚ id
    ∃ (c : Cone ℚ) (s p : V3 ℚ), s.y < 0 ∧ s.x = s.z ∧ c.Mem p ∧
      ¬ (Cone.mk (c.hh * |s.y|) (c.r * |s.x|)).Mem (p.cmul s) := by
  refine ⟨⟨1, 1⟩, ⟨1, -1, 1⟩, ⟨4/5, -9/10, 0⟩, by norm_num, rfl, ?_, ?_⟩
  · simp only [Cone.Mem, fieldNum_two]; norm_num
  · simp only [Cone.Mem, V3.cmul, fieldNum_two]; norm_num

/-- **capsule**, uniform scale of any sign: the scaled capsule contains `s·p` iff the original contains `p` -/
theorem capsule_scaled_mem (c : Capsule3 K) (s : K) (p : V3 K) (hs : s ≠ 0) :
    letI := fieldNum K sq
    (c.scaledUniform s).Mem (p.smul s) ↔ c.Mem p := by
  letI := fieldNum K sq
  have h2 : 0 < s * s := mul_self_pos.mpr hs
  have key : ∀ q : V3 K, ((p.smul s).sub (q.smul s)).normSq = (p.sub q).normSq * (s * s) := by
    intro q; simp only [V3.normSq, V3.dot, V3.sub, V3.smul]; ring
  have hr : c.r * |s| * (c.r * |s|) = c.r * c.r * (s * s) := by rw [← abs_mul_abs_self s]; ring
  constructor
  · rintro ⟨q', ⟨t, h0, h1, rfl⟩, hd⟩
    refine ⟨c.a.add ((c.b.sub c.a).smul t), ⟨t, h0, h1, rfl⟩, ?_⟩
    have e : (c.scaledUniform s).a.add (((c.scaledUniform s).b.sub (c.scaledUniform s).a).smul t)
        = (c.a.add ((c.b.sub c.a).smul t)).smul s := by
      simp only [Capsule3.scaledUniform, V3.add, V3.sub, V3.smul]; congr 1 <;> ring
    simp only [] at hd
    rw [e, key] at hd
    simp only [Capsule3.scaledUniform, fieldNum_nabs, hr] at hd
    exact le_of_mul_le_mul_right hd h2
  · rintro ⟨q, ⟨t, h0, h1, rfl⟩, hd⟩
    refine ⟨(c.a.add ((c.b.sub c.a).smul t)).smul s, ⟨t, h0, h1, ?_⟩, ?_⟩
    · simp only [Capsule3.scaledUniform, V3.add, V3.sub, V3.smul]; congr 1 <;> ring
    · rw [key]
      simp only [Capsule3.scaledUniform, fieldNum_nabs, hr]
      exact mul_le_mul_of_nonneg_right hd h2.le


/-! ### the polyhedral fallback of `Cone::scaled` -/

/-- the boundary points of a cone that its discretization uses: the apex or a point of the base rim -/
def OnConeRimOrApex {K : Type} [Num K] (c : Cone K) (p : V3 K) : Prop :=
  (p.x = 0 ∧ p.y = c.hh ∧ p.z = 0) ∨ (p.y = -c.hh ∧ p.x * p.x + p.z * p.z = c.r * c.r)

private theorem lit_half : letI := fieldNum K sq; (lit 1 2 : K) = 1 / 2 := by
  simp only [fieldNum_lit]; norm_num

/-- **vertices of `Cone::to_trimesh`** (every `nsubdiv`): `nsubdiv + 1` vertices, each the apex or on the base rim, and
each in the (closed) cone — given only `cos² + sin² = 1`. -/
theorem cone_trimesh_vertices (cs : K → K × K) (hcs : ∀ θ, (cs θ).1 * (cs θ).1 + (cs θ).2 * (cs θ).2 = 1)
    (twoPi nK : K) (c : Cone K) (n : Nat) (hh : 0 ≤ c.hh) :
    letI := fieldNum K sq
    (c.trimeshVerts cs twoPi nK n).length = n + 1 ∧
    ∀ p ∈ c.trimeshVerts cs twoPi nK n, OnConeRimOrApex c p ∧ c.Mem p := by
  letI := fieldNum K sq
  have hc := pushCircle_on_boundary sq cs hcs (lit 1 2) (twoPi / nK) (-(lit 1 2)) n
  have hl := lit_half sq (K := K)
  constructor
  · simp only [Cone.trimeshVerts, List.length_map, List.length_append, hc.1, List.length_cons, List.length_nil]
  · intro p hp
    simp only [Cone.trimeshVerts, List.mem_map, List.mem_append, List.mem_cons, List.not_mem_nil, or_false] at hp
    obtain ⟨u, hu, rfl⟩ := hp
    rcases hu with hu | rfl
    · obtain ⟨h1, h2⟩ := hc.2 u hu
      rw [hl] at h1 h2
      have hy : (u.cmul ⟨c.r * two, c.hh * two, c.r * two⟩).y = -c.hh := by
        simp only [V3.cmul, h2, fieldNum_two]; ring
      have hr : (u.cmul ⟨c.r * two, c.hh * two, c.r * two⟩).x * (u.cmul ⟨c.r * two, c.hh * two, c.r * two⟩).x
          + (u.cmul ⟨c.r * two, c.hh * two, c.r * two⟩).z * (u.cmul ⟨c.r * two, c.hh * two, c.r * two⟩).z = c.r * c.r := by
        simp only [V3.cmul, fieldNum_two]; linear_combination (4 * c.r * c.r) * h1
      refine ⟨Or.inr ⟨hy, hr⟩, ?_⟩
      simp only [Cone.Mem]
      rw [hy, hr]
      simp only [fieldNum_two]
      refine ⟨⟨le_refl _, by linarith⟩, le_of_eq (by ring)⟩
    · refine ⟨Or.inl ?_, ?_⟩
      · simp only [V3.cmul, hl, fieldNum_two]; refine ⟨by ring, by ring, by ring⟩
      · simp only [Cone.Mem, V3.cmul, hl, fieldNum_two]
        refine ⟨⟨by linarith, by linarith⟩, ?_⟩
        have e : c.hh - 1 / 2 * (c.hh * 2) = 0 := by ring
        rw [e]; simp

/-- **the polyhedral fallback of `Cone::scaled`** (taken for `scale.x ≠ scale.z` or `scale.y < 0`, any signs): its
`nsubdiv + 1` points are the images `s∘p` of the apex and of points `p` of the base rim of the original cone — so the mirrored
cone's polyhedron has its apex at `(0, hh·sy, 0)`, below the base when `sy < 0`, and every point of its hull is `s∘` a point
of the cone. -/
theorem cone_fallback_vertices (cs : K → K × K) (hcs : ∀ θ, (cs θ).1 * (cs θ).1 + (cs θ).2 * (cs θ).2 = 1)
    (twoPi nK : K) (c : Cone K) (s : V3 K) (n : Nat) (hh : 0 ≤ c.hh) (pts : List (V3 K)) :
    letI := fieldNum K sq
    c.scaledFull cs twoPi nK s n = .inr pts →
      pts.length = n + 1 ∧ ∀ v ∈ pts, ∃ p, v = p.cmul s ∧ OnConeRimOrApex c p ∧ c.Mem p := by
  letI := fieldNum K sq
  intro h
  have hv := cone_trimesh_vertices sq cs hcs twoPi nK c n hh
  simp only [Cone.scaledFull] at h
  split at h
  · exact absurd h (by simp)
  · simp only [Sum.inr.injEq] at h
    subst h
    refine ⟨by simp only [List.length_map]; exact hv.1, ?_⟩
    intro v hvm
    simp only [List.mem_map] at hvm
    obtain ⟨p, hp, rfl⟩ := hvm
    exact ⟨p, rfl, hv.2 p hp⟩

example : ∀ θ : ℚ, ((fun _ => ((3/5 : ℚ), (4/5 : ℚ))) θ).1 * ((fun _ => ((3/5 : ℚ), (4/5 : ℚ))) θ).1
    + ((fun _ => ((3/5 : ℚ), (4/5 : ℚ))) θ).2 * ((fun _ => ((3/5 : ℚ), (4/5 : ℚ))) θ).2 = 1 := by intro; norm_num


/-! ### 2-D `HeightField::to_polyline` with removed segments -/

/-- every index of the index buffer is inside the vertex buffer -/
def IdxOK {K : Type} (acc : List (V2 K) × List (Nat × Nat)) : Prop :=
  ∀ e ∈ acc.2, e.1 < acc.1.length ∧ e.2 < acc.1.length

private theorem resolve_append {K : Type} [Num K] (vs l : List (V2 K)) (idx : List (Nat × Nat))
    (h : ∀ e ∈ idx, e.1 < vs.length ∧ e.2 < vs.length) :
    resolveEdges (vs ++ l, idx) = resolveEdges (vs, idx) := by
  simp only [resolveEdges]
  apply List.map_congr_left
  intro e he
  obtain ⟨h1, h2⟩ := h e he
  rw [List.getElem?_append_left h1, List.getElem?_append_left h2]

private theorem v2_eq_of_not_ne (a b : V2 K) : letI := fieldNum K sq; ¬ (V2.ne a b = true) → a = b := by
  letI := fieldNum K sq
  intro h
  simp only [V2.ne, Bool.not_eq_true', Bool.not_eq_false, Bool.and_eq_true] at h
  have hx := (neq_iff sq _ _).mp h.1
  have hy := (neq_iff sq _ _).mp h.2
  cases a; cases b; simp_all

private theorem push_two {K : Type} [Num K] (vs : List (V2 K)) (idx : List (Nat × Nat)) (a b : V2 K) (h : IdxOK (vs, idx)) :
    IdxOK (vs ++ [a, b], idx ++ [(vs.length, vs.length + 1)]) ∧
    resolveEdges (vs ++ [a, b], idx ++ [(vs.length, vs.length + 1)]) = resolveEdges (vs, idx) ++ [(some a, some b)] := by
  constructor
  · intro e he
    simp only [List.mem_append, List.mem_singleton] at he
    simp only [List.length_append, List.length_cons, List.length_nil]
    rcases he with he | rfl
    · have := h e he; simp only at this; omega
    · simp only; omega
  · have := resolve_append vs [a, b] idx h
    simp only [resolveEdges, List.map_append, List.map_cons, List.map_nil] at this ⊢
    rw [this]
    congr 1
    simp

private theorem step_spec (acc : List (V2 K) × List (Nat × Nat)) (g : Segment2 K) (h : IdxOK acc) :
    letI := fieldNum K sq
    IdxOK (polylineStep acc g) ∧ resolveEdges (polylineStep acc g) = resolveEdges acc ++ [(some g.a, some g.b)] := by
  letI := fieldNum K sq
  obtain ⟨vs, idx⟩ := acc
  simp only [polylineStep]
  cases hlast : vs.getLast? with
  | none => exact push_two vs idx g.a g.b h
  | some pt =>
    simp only []
    by_cases hne : V2.ne g.a pt = true
    · rw [if_pos hne]; exact push_two vs idx g.a g.b h
    · rw [if_neg hne]
      have hap : g.a = pt := v2_eq_of_not_ne sq _ _ hne
      have hlen : 0 < vs.length := by
        cases vs with
        | nil => simp at hlast
        | cons x xs => simp
      constructor
      · intro e he
        simp only [List.mem_append, List.mem_singleton] at he
        simp only [List.length_append, List.length_cons, List.length_nil]
        rcases he with he | rfl
        · have := h e he; simp only at this; omega
        · simp only; omega
      · have := resolve_append vs [g.b] idx h
        simp only [resolveEdges, List.map_append, List.map_cons, List.map_nil] at this ⊢
        rw [this]
        congr 1
        have h1 : (vs ++ [g.b])[vs.length - 1]? = some g.a := by
          rw [List.getElem?_append_left (by omega), ← List.getLast?_eq_getElem?, hlast, hap]
        have h2 : (vs ++ [g.b])[vs.length]? = some g.b := by
          simp
        simp only [h1, h2]

/-- **`HeightField::to_polyline` (2-D), any list of active segments**: the index buffer only refers to pushed vertices, and the
edges it describes — resolved through the vertex buffer — are exactly the active segments `(seg.a, seg.b)`, once each and in
order.  In particular after a removed cell the next edge starts at that cell's own first vertex (the last pushed vertex is
reused only when it IS `seg.a`), so no edge bridges a hole. -/
theorem polyline_edges_are_segments (segs : List (Segment2 K)) :
    letI := fieldNum K sq
    IdxOK (polylineOfSegments segs) ∧
    resolveEdges (polylineOfSegments segs) = segs.map (fun g => (some g.a, some g.b)) := by
  letI := fieldNum K sq
  have aux : ∀ (segs : List (Segment2 K)) (acc : List (V2 K) × List (Nat × Nat)), IdxOK acc →
      IdxOK (segs.foldl polylineStep acc) ∧
      resolveEdges (segs.foldl polylineStep acc) = resolveEdges acc ++ segs.map (fun g => (some g.a, some g.b)) := by
    intro segs
    induction segs with
    | nil => intro acc h; simp [h]
    | cons g gs ih =>
      intro acc h
      obtain ⟨h1, h2⟩ := step_spec sq acc g h
      obtain ⟨h3, h4⟩ := ih _ h1
      refine ⟨h3, ?_⟩
      simp only [List.foldl_cons, List.map_cons]
      rw [h4, h2, List.append_assoc]; rfl
  have := aux segs ([], []) (by intro e he; simp at he)
  simpa [polylineOfSegments, resolveEdges] using this

/-- the active segments of a 2-D heightfield: cell `i` contributes `segment_at(i)` iff it is not removed -/
theorem hf2_segments_mem (heights : Array K) (scale : V2 K) (removed : Array Bool) (g : Segment2 K) :
    letI := fieldNum K sq
    g ∈ hf2Segments heights scale removed ↔
      ∃ i y0 y1, i < heights.size - 1 ∧ heights[i]? = some y0 ∧ heights[i + 1]? = some y1 ∧ removed[i]? = some false ∧
        g = hf2Segment (lit (Int.ofNat heights.size)) (lit (Int.ofNat i)) y0 y1 scale := by
  letI := fieldNum K sq
  simp only [hf2Segments, List.mem_filterMap, List.mem_range]
  constructor
  · rintro ⟨i, hi, h⟩
    split at h
    · rename_i y0 y1 h0 h1 hr
      exact ⟨i, y0, y1, hi, h0, h1, hr, by simpa using h.symm⟩
    · exact absurd h (by simp)
  · rintro ⟨i, y0, y1, hi, h0, h1, hr, rfl⟩
    exact ⟨i, hi, by rw [h0, h1, hr]⟩

/-- **2-D `HeightField::to_polyline`**: every edge of the output is the segment of a non-removed cell and every non-removed
cell's segment is output, once, in increasing order of the cells. -/
theorem hf2_polyline_edges (heights : Array K) (scale : V2 K) (removed : Array Bool) :
    letI := fieldNum K sq
    IdxOK (hf2ToPolyline heights scale removed) ∧
    resolveEdges (hf2ToPolyline heights scale removed)
      = (hf2Segments heights scale removed).map (fun g => (some g.a, some g.b)) :=
  polyline_edges_are_segments sq _

/-- non-vacuity and the hole case: heights `0,1,0,2`, the middle cell removed: two edges, four vertices, no bridging edge -/
example : @hf2ToPolyline ℚ (fieldNum ℚ id) #[0, 1, 0, 2] ⟨3, 1⟩ #[false, true, false]
    = ([⟨-3/2, 0⟩, ⟨-1/2, 1⟩, ⟨1/2, 0⟩, ⟨3/2, 2⟩], [(0, 1), (2, 3)]) := by
  simp [hf2ToPolyline, hf2Segments, polylineOfSegments, polylineStep, hf2Segment, V2.ne, V2.cmul, neq, lit, List.range,
    List.range.loop]
  norm_num [Num.ofRat]


/-! ### `Capsule::rotation_wrt_y` -/

/-- the only fact about `atan2`, `sin`, `cos` used in 2-D: `(sin, cos)(atan2(s, c)) = (s, c)` on the right half of the unit
circle (`rotation_wrt_y` flips the axis so that it points upwards, hence `c ≥ 0`) -/
structure LawfulAtan2 {K : Type} [Field K] [LinearOrder K] (T : Trig K) : Prop where
  sincos_atan2 : ∀ s c : K, s * s + c * c = 1 → 0 ≤ c → T.sinCos (T.atan2 s c * 1) = (s, c)

/-- the hypothesis is satisfiable over `ℚ`: half-angle tangent parametrisation -/
example : LawfulAtan2 (K := ℚ) ⟨fun x => x, fun s c => s / (1 + c), fun t => (2 * t / (1 + t * t), (1 - t * t) / (1 + t * t))⟩ := by
  constructor
  intro s c h hc
  have h1 : (1 + c) ≠ 0 := by positivity
  have h2 : (1 + c) ^ 2 + s ^ 2 ≠ 0 := by positivity
  simp only [mul_one, Prod.mk.injEq]
  constructor
  · field_simp
    linear_combination (-s) * h
  · field_simp
    linear_combination (-(1 + c)) * h

private theorem sq_one (hsq : LawfulSqrt sq) : sq 1 = 1 := by
  have h1 := hsq.nonneg 1 zero_le_one
  have h2 := hsq.sq_mul 1 zero_le_one
  have h3 : (sq 1 - 1) * (sq 1 + 1) = 0 := by ring_nf; linarith
  rcases mul_eq_zero.mp h3 with h | h <;> linarith

private theorem sq_pos' (hsq : LawfulSqrt sq) (N : K) (hpos : 0 < N) : 0 < sq N := by
  have h1 := hsq.nonneg N hpos.le
  have h2 := hsq.sq_mul N hpos.le
  rcases h1.lt_or_eq with h3 | h3
  · exact h3
  · rw [← h3] at h2; simp at h2; linarith

/-- **`UnitComplex::rotation_between(Y, d)`** maps `Y` onto the unit vector `d/|d|` and is a unit complex number -/
theorem rotationBetween2_maps_Y (T : Trig K) (hT : LawfulAtan2 T) (hsq : LawfulSqrt sq) (d : V2 K)
    (hd : 0 < d.x * d.x + d.y * d.y) (hdy : 0 ≤ d.y) :
    letI := fieldNum K sq
    (Iso2.mk (rotationBetween2 T ⟨0, 1⟩ d).1 (rotationBetween2 T ⟨0, 1⟩ d).2 V2.zero).rot ⟨0, 1⟩
        = d.sdiv (sq (d.x * d.x + d.y * d.y)) ∧
      (rotationBetween2 T ⟨0, 1⟩ d).1 * (rotationBetween2 T ⟨0, 1⟩ d).1
        + (rotationBetween2 T ⟨0, 1⟩ d).2 * (rotationBetween2 T ⟨0, 1⟩ d).2 = 1 := by
  letI := fieldNum K sq
  have hρ := sq_pos' sq hsq _ hd
  have hρ2 := hsq.sq_mul _ hd.le
  have h1 : (0 : K) * 0 < (0 : K) * 0 + 1 * 1 := by norm_num
  have h2 : (0 : K) * 0 < d.x * d.x + d.y * d.y := by simpa using hd
  have e1 : sq ((0 : K) * 0 + 1 * 1) = 1 := by
    have : (0 : K) * 0 + 1 * 1 = 1 := by ring
    rw [this]; exact sq_one sq hsq
  simp only [rotationBetween2, tryNormalize2, V2.normSq, V2.dot, V2.sdiv, V2.perp, fieldNum_sqrt, h1, h2, ↓reduceIte, e1]
  set ρ := sq (d.x * d.x + d.y * d.y) with hρdef
  have hunit : (0 / 1 * (d.y / ρ) - 1 / 1 * (d.x / ρ)) * (0 / 1 * (d.y / ρ) - 1 / 1 * (d.x / ρ))
      + (0 / 1 * (d.x / ρ) + 1 / 1 * (d.y / ρ)) * (0 / 1 * (d.x / ρ) + 1 / 1 * (d.y / ρ)) = 1 := by
    have : ρ ≠ 0 := ne_of_gt hρ
    field_simp
    linear_combination -hρ2
  have hc : 0 ≤ 0 / 1 * (d.x / ρ) + 1 / 1 * (d.y / ρ) := by
    have : 0 ≤ d.y / ρ := div_nonneg hdy hρ.le
    linarith
  rw [hT.sincos_atan2 _ _ hunit hc]
  simp only [Iso2.rot]
  refine ⟨?_, ?_⟩
  · congr 1 <;> ring
  · linear_combination hunit

/-- **`Capsule::rotation_wrt_y` (2-D)**: for a capsule with distinct end points the returned rotation `r` is a unit complex
number and `r * Y` is the unit vector along the axis `b - a` (flipped to point upwards), i.e. collinear with `b - a`:
the canonical capsule is laid along the axis, not along its mirror image. -/
theorem capsule2_rotation_wrt_y (T : Trig K) (hT : LawfulAtan2 T) (hsq : LawfulSqrt sq) (c : Capsule2 K) :
    letI := fieldNum K sq
    0 < (c.b.sub c.a).x * (c.b.sub c.a).x + (c.b.sub c.a).y * (c.b.sub c.a).y →
    let d := if (c.b.sub c.a).y < 0 then (c.b.sub c.a).neg else c.b.sub c.a
    (Iso2.mk (c.rotationWrtY T).1 (c.rotationWrtY T).2 V2.zero).rot ⟨0, 1⟩ = d.sdiv (sq (d.x * d.x + d.y * d.y)) ∧
      (c.rotationWrtY T).1 * (c.rotationWrtY T).1 + (c.rotationWrtY T).2 * (c.rotationWrtY T).2 = 1 := by
  letI := fieldNum K sq
  intro hne
  simp only [Capsule2.rotationWrtY]
  apply rotationBetween2_maps_Y sq T hT hsq
  · split_ifs
    · simp only [V2.neg]; nlinarith
    · exact hne
  · split_ifs with h
    · simp only [V2.neg]; linarith
    · exact not_lt.mp h


/-- **`UnitQuaternion::rotation_between_axis(Y, nb)`** for a unit vector `nb` that is not (numerically) parallel to `Y` and
points upwards: a rotation is returned, it is a unit quaternion, and it maps `Y` onto `nb` (not onto its mirror image: the
argument order `rotation_between(Y, dir)` matters).  The only trigonometric facts used are the half-angle identities of
`θ = acos(nb.y)`: `cos²(θ/2) - sin²(θ/2) = nb.y`, `cos² + sin² = 1`, both non-negative. -/
theorem rotationBetweenAxis3_maps_Y (T : Trig K) (eps : K) (hsq : LawfulSqrt sq) (nb : V3 K)
    (hunit : nb.x * nb.x + nb.y * nb.y + nb.z * nb.z = 1) (hy : 0 ≤ nb.y)
    (hnp : eps * eps < nb.x * nb.x + nb.z * nb.z)
    (hT : (T.sinCos (T.acos nb.y * 1 / 2)).2 * (T.sinCos (T.acos nb.y * 1 / 2)).2
            - (T.sinCos (T.acos nb.y * 1 / 2)).1 * (T.sinCos (T.acos nb.y * 1 / 2)).1 = nb.y ∧
          (T.sinCos (T.acos nb.y * 1 / 2)).2 * (T.sinCos (T.acos nb.y * 1 / 2)).2
            + (T.sinCos (T.acos nb.y * 1 / 2)).1 * (T.sinCos (T.acos nb.y * 1 / 2)).1 = 1 ∧
          0 ≤ (T.sinCos (T.acos nb.y * 1 / 2)).1 ∧ 0 ≤ (T.sinCos (T.acos nb.y * 1 / 2)).2) :
    letI := fieldNum K sq
    ∃ v w, rotationBetweenAxis3 T eps ⟨0, 1, 0⟩ nb = some (v, w) ∧ Iso3.rotQ v w ⟨0, 1, 0⟩ = nb ∧
      v.x * v.x + v.y * v.y + v.z * v.z + w * w = 1 := by
  letI := fieldNum K sq
  obtain ⟨hT1, hT2, hT3, hT4⟩ := hT
  set sh := (T.sinCos (T.acos nb.y * 1 / 2)).1 with hsh
  set ch := (T.sinCos (T.acos nb.y * 1 / 2)).2 with hch
  have hN : (1 * nb.z - 0 * nb.y) * (1 * nb.z - 0 * nb.y) + (0 * nb.x - 0 * nb.z) * (0 * nb.x - 0 * nb.z)
      + (0 * nb.y - 1 * nb.x) * (0 * nb.y - 1 * nb.x) = nb.x * nb.x + nb.z * nb.z := by ring
  have hpos : 0 < nb.x * nb.x + nb.z * nb.z := lt_of_le_of_lt (mul_self_nonneg eps) hnp
  have hR := sq_pos' sq hsq _ hpos
  have hR2 := hsq.sq_mul _ hpos.le
  have hdot : (0 : K) * nb.x + 1 * nb.y + 0 * nb.z = nb.y := by ring
  have hy1 : nb.y < 1 := by nlinarith
  have hc1 : ¬ (nb.y ≤ -1) := by linarith
  have hc2 : ¬ (1 ≤ nb.y) := by linarith
  simp only [rotationBetweenAxis3, tryNormalizeEps3, V3.cross, V3.normSq, V3.dot, V3.sdiv, V3.smul, fieldNum_sqrt, hN, hnp,
    ↓reduceIte, hdot, hc1, hc2, fieldNum_two]
  simp only [← hsh, ← hch]
  obtain ⟨R, hRdef⟩ : ∃ R, R = sq (nb.x * nb.x + nb.z * nb.z) := ⟨_, rfl⟩
  rw [← hRdef] at hR hR2 ⊢
  -- 2 sh ch = R : both are non-negative and have the same square
  have h4 : (2 * sh * ch) * (2 * sh * ch) = R * R := by
    rw [hR2]; nlinarith [hT1, hT2, hunit]
  have h2 : R = 2 * sh * ch := by
    have hnn : 0 ≤ 2 * sh * ch := by positivity
    have h5 : (2 * sh * ch - R) * (2 * sh * ch + R) = 0 := by ring_nf; ring_nf at h4; linarith
    rcases mul_eq_zero.mp h5 with h | h
    · linarith
    · linarith
  clear hRdef
  subst h2
  have hne : sh * ch ≠ 0 := by intro h; rw [show 2 * sh * ch = 2 * (sh * ch) by ring, h] at hR; simp at hR
  have hsh0 : sh ≠ 0 := left_ne_zero_of_mul hne
  have hch0 : ch ≠ 0 := right_ne_zero_of_mul hne
  refine ⟨_, _, rfl, ?_, ?_⟩
  · simp only [Iso3.rotQ, V3.cross, V3.smul, V3.add, fieldNum_two]
    obtain ⟨nx, ny, nz⟩ := nb
    simp only [V3.mk.injEq]
    simp only [] at hunit hT1 hR2
    refine ⟨?_, ?_, ?_⟩
    · field_simp
      ring
    · field_simp
      linear_combination hR2 + 2 * ch ^ 2 * (hT1 - hT2)
    · field_simp
      ring
  · simp only []
    field_simp
    linear_combination (-1) * hR2 + 4 * ch ^ 2 * hT2

/-- the half-angle hypothesis is satisfiable over `ℚ`: `nb = (24/25, 7/25, 0)`, `cos θ = 7/25`, `cos(θ/2) = 4/5`,
`sin(θ/2) = 3/5` -/
example : ((24 / 25 : ℚ) * (24 / 25) + (7 / 25) * (7 / 25) + 0 * 0 = 1) ∧
    ((4 / 5 : ℚ) * (4 / 5) - (3 / 5) * (3 / 5) = 7 / 25) ∧ ((4 / 5 : ℚ) * (4 / 5) + (3 / 5) * (3 / 5) = 1) := by norm_num

/-- **`Capsule::rotation_wrt_y` (3-D)**, axis oblique or perpendicular to `Y`: with `d` the axis `b - a` flipped to point
upwards, the returned quaternion is unit and rotates `Y` onto `d/|d|` — the canonical capsule is laid along the axis. -/
theorem capsule3_rotation_wrt_y (T : Trig K) (eps : K) (hsq : LawfulSqrt sq) (c : Capsule3 K) :
    letI := fieldNum K sq
    let d := if (c.b.sub c.a).y < 0 then (c.b.sub c.a).neg else c.b.sub c.a
    let N := d.x * d.x + d.y * d.y + d.z * d.z
    0 < N → eps * eps < (d.x * d.x + d.z * d.z) / N →
    ((T.sinCos (T.acos (d.y / sq N) * 1 / 2)).2 * (T.sinCos (T.acos (d.y / sq N) * 1 / 2)).2
        - (T.sinCos (T.acos (d.y / sq N) * 1 / 2)).1 * (T.sinCos (T.acos (d.y / sq N) * 1 / 2)).1 = d.y / sq N ∧
      (T.sinCos (T.acos (d.y / sq N) * 1 / 2)).2 * (T.sinCos (T.acos (d.y / sq N) * 1 / 2)).2
        + (T.sinCos (T.acos (d.y / sq N) * 1 / 2)).1 * (T.sinCos (T.acos (d.y / sq N) * 1 / 2)).1 = 1 ∧
      0 ≤ (T.sinCos (T.acos (d.y / sq N) * 1 / 2)).1 ∧ 0 ≤ (T.sinCos (T.acos (d.y / sq N) * 1 / 2)).2) →
    Iso3.rotQ (c.rotationWrtY T eps).1 (c.rotationWrtY T eps).2 ⟨0, 1, 0⟩ = d.sdiv (sq N) ∧
      (c.rotationWrtY T eps).1.x * (c.rotationWrtY T eps).1.x + (c.rotationWrtY T eps).1.y * (c.rotationWrtY T eps).1.y
        + (c.rotationWrtY T eps).1.z * (c.rotationWrtY T eps).1.z
        + (c.rotationWrtY T eps).2 * (c.rotationWrtY T eps).2 = 1 := by
  letI := fieldNum K sq
  intro d N hN hnp hT
  have hdy : 0 ≤ d.y := by
    simp only [d]; split_ifs with h
    · simp only [V3.neg]; linarith
    · exact not_lt.mp h
  have hρ := sq_pos' sq hsq N hN
  have hρ2 := hsq.sq_mul N hN.le
  have hρne : sq N ≠ 0 := ne_of_gt hρ
  have hNne : N ≠ 0 := ne_of_gt hN
  -- the normalized axis
  have hunit : (d.sdiv (sq N)).x * (d.sdiv (sq N)).x + (d.sdiv (sq N)).y * (d.sdiv (sq N)).y
      + (d.sdiv (sq N)).z * (d.sdiv (sq N)).z = 1 := by
    simp only [V3.sdiv]; field_simp; linear_combination -hρ2
  have hy' : 0 ≤ (d.sdiv (sq N)).y := div_nonneg hdy hρ.le
  have hnp' : eps * eps < (d.sdiv (sq N)).x * (d.sdiv (sq N)).x + (d.sdiv (sq N)).z * (d.sdiv (sq N)).z := by
    have e : (d.sdiv (sq N)).x * (d.sdiv (sq N)).x + (d.sdiv (sq N)).z * (d.sdiv (sq N)).z = (d.x * d.x + d.z * d.z) / N := by
      simp only [V3.sdiv]
      have e' : (d.x * d.x + d.z * d.z) / N = (d.x * d.x + d.z * d.z) / (sq N * sq N) := by rw [hρ2]
      rw [e']; field_simp
    rw [e]; exact hnp
  obtain ⟨v, w, hvw, hrot, hq⟩ := rotationBetweenAxis3_maps_Y sq T eps hsq (d.sdiv (sq N)) hunit hy' hnp' hT
  have h1 : (0 : K) * 0 < (0 : K) * 0 + 1 * 1 + 0 * 0 := by norm_num
  have h2 : (0 : K) * 0 < d.x * d.x + d.y * d.y + d.z * d.z := by simpa using hN
  have e1 : sq ((0 : K) * 0 + 1 * 1 + 0 * 0) = 1 := by
    have : (0 : K) * 0 + 1 * 1 + 0 * 0 = 1 := by ring
    rw [this]; exact sq_one sq hsq
  have eY : (⟨0 / 1, 1 / 1, 0 / 1⟩ : V3 K) = ⟨0, 1, 0⟩ := by simp
  have key : c.rotationWrtY T eps = (v, w) := by
    simp only [Capsule3.rotationWrtY, rotationBetween3, tryNormalize3, V3.normSq, V3.dot, fieldNum_sqrt]
    show (match (if (0 : K) * 0 < 0 * 0 + 1 * 1 + 0 * 0 then some ((⟨0, 1, 0⟩ : V3 K).sdiv (sq (0 * 0 + 1 * 1 + 0 * 0))) else none),
        (if (0 : K) * 0 < d.x * d.x + d.y * d.y + d.z * d.z then some (d.sdiv (sq (d.x * d.x + d.y * d.y + d.z * d.z))) else none) with
      | some na, some nb => rotationBetweenAxis3 T eps na nb
      | _, _ => some Quat.identity).getD Quat.identity = (v, w)
    rw [if_pos h1, if_pos h2, e1]
    simp only [V3.sdiv, eY]
    simp only [V3.sdiv] at hvw
    rw [hvw]; rfl
  rw [key]
  exact ⟨hrot, hq⟩


/-! ### convex polytopes: the point buffer -/

private theorem fold_scaled (s : V3 K) :
    letI := fieldNum K sq
    ∀ (pts : List (V3 K)) (w : List K) (acc : V3 K),
      (List.zipWith (fun q x => q.smul x) (pts.map (fun p => p.cmul s)) w).foldl V3.add (acc.cmul s)
        = ((List.zipWith (fun q x => q.smul x) pts w).foldl V3.add acc).cmul s := by
  letI := fieldNum K sq
  intro pts
  induction pts with
  | nil => intro w acc; simp
  | cons q qs ih =>
    intro w acc
    cases w with
    | nil => simp
    | cons x xs =>
      simp only [List.map_cons, List.zipWith_cons_cons, List.foldl_cons]
      have e : (acc.cmul s).add ((q.cmul s).smul x) = (acc.add (q.smul x)).cmul s := by
        simp only [V3.cmul, V3.add, V3.smul]; congr 1 <;> ring
      rw [e]; exact ih xs _

/-- **convex polytopes (`ConvexPolyhedron::scaled`, and the hulls of `TriMesh` / `Polyline` vertices)**: the convex hull of the
scaled point buffer contains `s∘p` whenever the hull of the original points contains `p` — any scale, any signs. -/
theorem hull_scaled_mem (pts : List (V3 K)) (s p : V3 K) :
    letI := fieldNum K sq
    hullMem3 pts p → hullMem3 (scalePoints3 pts s) (p.cmul s) := by
  letI := fieldNum K sq
  show _ → hullMem3 (pts.map (fun q => q.cmul s)) (p.cmul s)
  rintro ⟨w, hl, hnn, hsum, rfl⟩
  refine ⟨w, by simpa using hl, hnn, hsum, ?_⟩
  have := fold_scaled sq s pts w V3.zero
  have hz : (V3.zero : V3 K).cmul s = V3.zero := by simp [V3.cmul, V3.zero]
  rw [hz] at this
  exact this.symm

/-- … and conversely for a non-degenerate scale: the scaled polytope contains `s∘p` exactly when the original contains `p` -/
theorem hull_scaled_mem_conv (pts : List (V3 K)) (s p : V3 K) (hx : s.x ≠ 0) (hy : s.y ≠ 0) (hz : s.z ≠ 0) :
    letI := fieldNum K sq
    hullMem3 (scalePoints3 pts s) (p.cmul s) → hullMem3 pts p := by
  letI := fieldNum K sq
  intro h
  have h' : hullMem3 ((pts.map (fun q => q.cmul s)).map (fun q => q.cmul ⟨1 / s.x, 1 / s.y, 1 / s.z⟩))
      ((p.cmul s).cmul ⟨1 / s.x, 1 / s.y, 1 / s.z⟩) :=
    hull_scaled_mem sq (pts.map (fun q => q.cmul s)) ⟨1 / s.x, 1 / s.y, 1 / s.z⟩ (p.cmul s) h
  have e1 : (pts.map (fun q => q.cmul s)).map (fun q => q.cmul ⟨1 / s.x, 1 / s.y, 1 / s.z⟩) = pts := by
    rw [List.map_map]
    conv_rhs => rw [← List.map_id pts]
    apply List.map_congr_left
    intro q _
    simp only [Function.comp, V3.cmul, id]
    cases q; simp only [V3.mk.injEq]; refine ⟨?_, ?_, ?_⟩ <;> field_simp
  have e2 : (p.cmul s).cmul ⟨1 / s.x, 1 / s.y, 1 / s.z⟩ = p := by
    simp only [V3.cmul]; cases p; simp only [V3.mk.injEq]; refine ⟨?_, ?_, ?_⟩ <;> field_simp
  rw [e1, e2] at h'
  exact h'

example : (2:ℚ) ≠ 0 ∧ (-3:ℚ) ≠ 0 ∧ (1/4:ℚ) ≠ 0 := by norm_num

end C19
