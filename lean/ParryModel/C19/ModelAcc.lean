import ParryModel.Vec
import ParryModel.C11.Model
/-!
# C19 model, round fu4: `Qbvh::scaled` on the boxes of the tree, orientation volumes, scaled normals

`Aabb::scaled` is `Model.TM.aabbScaled3/2` of the C11 model (imported read-only; tied bit-exactly to the code by the
protocol functions `aabb_scaled3/2`).  `Qbvh::scaled(scale)`:

```rust
self.root_aabb = self.root_aabb.scaled(scale);
for node in &mut self.nodes { node.simd_aabb = node.simd_aabb.scaled(&Vector::splat(*scale)); }
```
i.e. `Aabb::scaled(scale)` on the root box and on each of the four lane boxes of every node; children, leaf data and flags are
untouched.
-/
namespace Model.Acc
open Model Model.TM

variable {K : Type} [Num K]

/-- the boxes of a `Qbvh`: the root box and, per node, the four lane boxes -/
structure QBoxes (K : Type) where
  root : V3 K × V3 K
  nodes : List (List (V3 K × V3 K))

/-- `Qbvh::scaled` -/
def qbvhScaled (q : QBoxes K) (s : V3 K) : QBoxes K :=
  ⟨aabbScaled3 q.root s, q.nodes.map fun lanes => lanes.map fun b => aabbScaled3 b s⟩

/-- the mutated rule "node boxes by `|scale|`, root box by `scale`" (refuted in Theorems5) -/
def qbvhScaledAbs (q : QBoxes K) (s : V3 K) : QBoxes K :=
  ⟨aabbScaled3 q.root s, q.nodes.map fun lanes => lanes.map fun b => aabbScaled3 b s.abs⟩

/-- six times the signed volume of the tetrahedron `(a, b, c, d)`: `((b-a) × (c-a)) · (d-a)`.  A face `(a, b, c)` of a solid
that has `d` on its inner side is outward-wound iff this is negative. -/
def vol6 (a b c d : V3 K) : K := ((b.sub a).cross (c.sub a)).dot (d.sub a)

/-- `TriMesh::scaled` on one triangle / `Polyline::scaled` on one point: `pt.coords.component_mul_assign(scale)` -/
def scalePt (s p : V3 K) : V3 K := p.cmul s

/-- the (unnormalised) normal of the triangle `(a, b, c)`: `Triangle::scaled_normal` -/
def triNormal (a b c : V3 K) : V3 K := (b.sub a).cross (c.sub a)

/-- the inverse-transpose image of a normal, up to the factor `det = sx·sy·sz`: `(sy·sz·nx, sz·sx·ny, sx·sy·nz)` -/
def cofNormal (s n : V3 K) : V3 K := ⟨s.y * s.z * n.x, s.z * s.x * n.y, s.x * s.y * n.z⟩

/-- membership in the (closed) tetrahedron `(a, b, c, d)` by orientation signs, independent of its winding: replacing any
vertex by `p` does not change the sign of the volume -/
def InTet (a b c d p : V3 K) : Prop :=
  0 ≤ vol6 a b c d * vol6 p b c d ∧ 0 ≤ vol6 a b c d * vol6 a p c d ∧ 0 ≤ vol6 a b c d * vol6 a b p d ∧ 0 ≤ vol6 a b c d * vol6 a b c p


/-! ### routing of `Shape::scale_dyn` (shape.rs): which `TypedShape` variant comes back

Transliteration of the `scale_dyn` bodies and of the tests at the head of `Ball/Capsule/Cylinder/Cone::scaled` (3-D); the
polyhedral fallbacks (`ConvexPolyhedron::from_convex_mesh(..)?`) are modelled as succeeding, which the correspondence checks on
every explored input (`num_subdivisions ≥ 3`, no zero scale component). -/
inductive Kind3 where
  | ball | cuboid | capsule | cone | cyl | seg | tri | hs | polyh | trimesh | polyline | hf
  | rcuboid | rcyl | rcone | rtri | rpolyh
  | compound (parts : List Kind3)
  deriving Repr, Inhabited

/-- `neq a b` is Rust `a == b`; `!=` is its negation -/
def uniform3 (s : V3 K) : Bool := !(!(neq s.x s.y) || !(neq s.x s.z) || !(neq s.y s.z))

mutual
def scaleDynKind (s : V3 K) : Kind3 → Kind3
  | .ball => if !(neq s.x s.y) || !(neq s.x s.z) || !(neq s.y s.z) then .polyh else .ball
  | .capsule => if !(neq s.x s.y) || !(neq s.x s.z) || !(neq s.y s.z) then .polyh else .capsule
  | .cyl => if !(neq s.x s.z) then .polyh else .cyl
  | .cone => if !(neq s.x s.z) || s.y < 0 then .polyh else .cone
  | .rcyl => if !(neq s.x s.z) then .rpolyh else .rcyl
  | .rcone => if !(neq s.x s.z) || s.y < 0 then .rpolyh else .rcone
  | .compound ps => .compound (scaleDynKinds s ps)
  | k => k
def scaleDynKinds (s : V3 K) : List Kind3 → List Kind3
  | [] => []
  | k :: ks => scaleDynKind s k :: scaleDynKinds s ks
end


/-! ### the index buffer of `TriMesh::scaled` (with `fixes/C19-trimesh-scaled-mirror-winding.diff`: the CORRECTED behaviour)

```rust
if self.flags.contains(TriMeshFlags::ORIENTED) && scale.iter().filter(|s| **s < 0.0).count() % 2 == 1 { self.reverse(); }
```
`reverse` exchanges the first two indices of every triangle.  On the pinned tree the index buffer is always kept. -/
def mirrors (s : V3 K) : Bool :=
  ((if s.x < 0 then 1 else 0) + (if s.y < 0 then 1 else 0) + (if s.z < 0 then 1 else 0) : Nat) % 2 == 1
def swap01 (t : Nat × Nat × Nat) : Nat × Nat × Nat := (t.2.1, t.1, t.2.2)
def trimeshScaledIdx (oriented : Bool) (s : V3 K) (idx : List (Nat × Nat × Nat)) : List (Nat × Nat × Nat) :=
  if oriented && mirrors s then idx.map swap01 else idx
/-- the same on the three (scaled) corners of one triangle -/
def rewind (oriented : Bool) (s : V3 K) (a b c : V3 K) : V3 K × V3 K × V3 K :=
  if oriented && mirrors s then (b, a, c) else (a, b, c)


/-! ### routing of `Shape::scale_dyn`, 2-D (`Ball/Capsule::scaled` test `scale.x != scale.y`) -/
inductive Kind2 where
  | ball | cuboid | capsule | seg | tri | hs | polygon | polyline | hf | rcuboid | rpolygon
  | compound (parts : List Kind2)
  deriving Repr, Inhabited

mutual
def scaleDynKind2 (s : V2 K) : Kind2 → Kind2
  | .ball => if !(neq s.x s.y) then .polygon else .ball
  | .capsule => if !(neq s.x s.y) then .polygon else .capsule
  | .compound ps => .compound (scaleDynKinds2 s ps)
  | k => k
def scaleDynKinds2 (s : V2 K) : List Kind2 → List Kind2
  | [] => []
  | k :: ks => scaleDynKind2 s k :: scaleDynKinds2 s ks
end

end Model.Acc
