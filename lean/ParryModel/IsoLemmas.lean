import ParryModel.Field
import ParryModel.Vec
/-!
# Shared lemmas about the isometry model at the lawful instance (unit quaternion ⇒ rotation).
-/
namespace IsoLemmas
open Model
variable {K : Type} [Field K] [LinearOrder K] [IsStrictOrderedRing K] (sq : K → K)

/-- a unit quaternion's sandwich product preserves dot products -/
theorem rot_dot (m : Iso3 K) (u v : V3 K)
    (hq : m.qi * m.qi + m.qj * m.qj + m.qk * m.qk + m.qw * m.qw = 1) :
    letI := fieldNum K sq
    (m.rot u).dot (m.rot v) = u.dot v := by
  simp only [Iso3.rot, Iso3.rotQ, Iso3.qv, V3.dot, V3.add, V3.smul, V3.cross, fieldNum_two]
  linear_combination (4 * (-u.x * m.qi * m.qj * v.y - u.x * m.qi * m.qk * v.z + u.x * m.qj ^ 2 * v.x + u.x * m.qk ^ 2 * v.x
    + u.y * m.qi ^ 2 * v.y - u.y * m.qi * m.qj * v.x - u.y * m.qj * m.qk * v.z + u.y * m.qk ^ 2 * v.y
    + u.z * m.qi ^ 2 * v.z - u.z * m.qi * m.qk * v.x + u.z * m.qj ^ 2 * v.z - u.z * m.qj * m.qk * v.y)) * hq

theorem rot_normSq (m : Iso3 K) (v : V3 K)
    (hq : m.qi * m.qi + m.qj * m.qj + m.qk * m.qk + m.qw * m.qw = 1) :
    letI := fieldNum K sq
    (m.rot v).normSq = v.normSq := rot_dot sq m v v hq

/-- `m • p - m • q = R (p - q)` (no unit hypothesis needed: the sandwich is linear) -/
theorem act_sub (m : Iso3 K) (p q : V3 K) :
    letI := fieldNum K sq
    (m.act p).sub (m.act q) = m.rot (p.sub q) := by
  simp only [Iso3.act, Iso3.rot, Iso3.rotQ, Iso3.qv, V3.add, V3.sub, V3.smul, V3.cross, fieldNum_two]
  congr 1 <;> ring

/-- an isometry with a unit quaternion preserves squared distances -/
theorem act_dist (m : Iso3 K) (p q : V3 K)
    (hq : m.qi * m.qi + m.qj * m.qj + m.qk * m.qk + m.qw * m.qw = 1) :
    letI := fieldNum K sq
    ((m.act p).sub (m.act q)).normSq = (p.sub q).normSq := by
  rw [act_sub]; exact rot_normSq sq m _ hq

end IsoLemmas
