import ParryModel.Vec
/-!
# C15 model: 2-D predicates
`utils/segments_intersection.rs`, `Triangle::orientation2d` (`shape/triangle.rs`), `utils/point_in_poly2d.rs`,
`utils/point_in_triangle.rs`.  Literal transliteration (same branch order, comparison strictness and
floating-point operation order).  Everything lives in `Model.C15` so that it cannot clash with other properties.

**Corrected behaviour** (genuine defects on the pinned tree):
* `segments_intersection2d` tests `s == denom` / `t == denom` where `== 1.0` is meant; the model has `== 1`
  (`fixes/C15-segments-onvertex.diff`);
* `convex_polygons_intersection*`: when neither boundary crosses the other and the two polygons enclose each other
  (identical regions) both containment tests succeed and the polygon is output twice; the model stops after the first
  (`fixes/C15-convex-intersection-identical.diff`).
-/
namespace Model.C15
open Model
variable {K : Type} [Num K]

/-- `TriangleOrientation` -/
inductive TriOrient where
  | ccw | cw | degenerate
deriving DecidableEq, Repr

/-- `Triangle::orientation2d(a, b, c, epsilon)`: sign of `(b - a).perp(c - a)` with dead-band `epsilon`. -/
def orientation2d (a b c : V2 K) (eps : K) : TriOrient :=
  let area2 := (b.sub a).perp (c.sub a)
  if eps < area2 then .ccw
  else if area2 < -eps then .cw
  else .degenerate

/-- `Triangle::orientation(&self, epsilon)` (`dim2`): the method has its own copy of the body of `orientation2d` -/
def triOrientation (a b c : V2 K) (eps : K) : TriOrient :=
  let area2 := (b.sub a).perp (c.sub a)
  if eps < area2 then .ccw
  else if area2 < -eps then .cw
  else .degenerate

/-- `SegmentPointLocation` -/
inductive SegLoc (K : Type) where
  | onVertex (i : Nat)
  | onEdge (u v : K)
deriving Repr

/-- `SegmentsIntersection` -/
inductive SegInter (K : Type) where
  | point (loc1 loc2 : SegLoc K)
  | segment (first1 first2 second1 second2 : SegLoc K)
deriving Repr

/-- `f64::EPSILON` = 2⁻⁵² (`DEFAULT_EPSILON` of `approx` for `f64`) -/
@[inline] def epsMach : K := lit 1 4503599627370496

/-- `ulps_eq!(x, 0.0)` (approx 0.5.1, default epsilon `f64::EPSILON`, `max_ulps = 4`):
`abs_diff_eq` first (`|x - 0| <= EPSILON`, computed as `if x > 0 {x - 0} else {0 - x}`); otherwise, if the signs
differ → false; otherwise the bit patterns differ by at most 4 — which for `other = +0.0` means `x ≤ 4` sub-normal
ulps, already covered by the first test.  Hence exactly the first test. -/
@[inline] def ulpsEqZero (x : K) : Bool :=
  let d := if 0 < x then x - 0 else 0 - x
  decide (d ≤ epsMach)

/-- `between(a, b, c)`: location of `c` on `[a, b]`, assuming the three points are collinear. -/
def between (a b c : V2 K) : Option (SegLoc K) :=
  if !(neq a.x b.x) then
    if decide (a.x ≤ c.x) && decide (c.x ≤ b.x) then
      let bcoord := (c.x - a.x) / (b.x - a.x)
      some (.onEdge (1 - bcoord) bcoord)
    else if decide (c.x ≤ a.x) && decide (b.x ≤ c.x) then
      let bcoord := (c.x - b.x) / (a.x - b.x)
      some (.onEdge bcoord (1 - bcoord))
    else none
  else if !(neq a.y b.y) then
    if decide (a.y ≤ c.y) && decide (c.y ≤ b.y) then
      let bcoord := (c.y - a.y) / (b.y - a.y)
      some (.onEdge (1 - bcoord) bcoord)
    else if decide (c.y ≤ a.y) && decide (b.y ≤ c.y) then
      let bcoord := (c.y - b.y) / (a.y - b.y)
      some (.onEdge bcoord (1 - bcoord))
    else none
  else if neq a.x c.x && neq a.y c.y then some (.onVertex 0)
  else none

/-- `parallel_intersection` -/
def parallelIntersection (a b c d : V2 K) (eps : K) : Option (SegInter K) :=
  if orientation2d a b c eps ≠ .degenerate then none else
  let ab_c := between a b c
  let ab_d := between a b d
  match ab_c, ab_d with
  | some loc1, some loc2 => some (.segment loc1 (.onVertex 0) loc2 (.onVertex 1))
  | _, _ =>
  let cd_a := between c d a
  let cd_b := between c d b
  match cd_a, cd_b with
  | some loc1, some loc2 => some (.segment (.onVertex 0) loc1 (.onVertex 1) loc2)
  | _, _ =>
  match ab_c, cd_b with
  | some loc1, some loc2 => some (.segment loc1 (.onVertex 0) (.onVertex 1) loc2)
  | _, _ =>
  match ab_c, cd_a with
  | some loc1, some loc2 => some (.segment loc1 (.onVertex 0) (.onVertex 0) loc2)
  | _, _ =>
  match ab_d, cd_b with
  | some loc1, some loc2 => some (.segment loc1 (.onVertex 1) (.onVertex 1) loc2)
  | _, _ =>
  match ab_d, cd_a with
  | some loc1, some loc2 => some (.segment loc1 (.onVertex 1) (.onVertex 0) loc2)
  | _, _ => none

/-- the `denom` of `segments_intersection2d` (= `(b-a) × (d-c)` in exact arithmetic) -/
@[inline] def segDenom (a b c d : V2 K) : K :=
  a.x * (d.y - c.y) + b.x * (c.y - d.y) + d.x * (b.y - a.y) + c.x * (a.y - b.y)

/-- location tag from a parameter in `[0,1]`.  **Corrected**: the pinned tree compares with `denom` instead of `1`. -/
@[inline] def locOfParam (s : K) : SegLoc K :=
  if neq s 0 then .onVertex 0
  else if neq s 1 then .onVertex 1
  else .onEdge (1 - s) s

/-- `segments_intersection2d(a, b, c, d, epsilon)` -/
def segmentsIntersection2d (a b c d : V2 K) (eps : K) : Option (SegInter K) :=
  let denom := segDenom a b c d
  if decide (nabs denom < eps) || ulpsEqZero denom then parallelIntersection a b c d eps else
  let num := a.x * (d.y - c.y) + c.x * (a.y - d.y) + d.x * (c.y - a.y)
  let s := num / denom
  let num' := -(a.x * (c.y - b.y) + b.x * (a.y - c.y) + c.x * (b.y - a.y))
  let t := num' / denom
  if decide (s < 0) || decide (1 < s) || decide (t < 0) || decide (1 < t) then none
  else some (.point (locOfParam s) (locOfParam t))

/-! ## polygons as vertex lists; the closing edge is implicit -/

/-- directed edges `(poly[i], poly[(i+1) % n])`, `i = 0 … n-1` -/
def polyEdges {α : Type} : List α → List (α × α)
  | [] => []
  | p :: ps => List.zip (p :: ps) (ps ++ [p])

/-- `dpt.perp(&seg_dir)` with `dpt = pt - a`, `seg_dir = b - a` -/
@[inline] def edgePerp (pt : V2 K) (e : V2 K × V2 K) : K :=
  let seg_dir := e.2.sub e.1
  let dpt := pt.sub e.1
  dpt.perp seg_dir

/-- loop of `point_in_convex_poly2d` with the running `sign` -/
def convexLoop (pt : V2 K) : List (V2 K × V2 K) → K → Bool
  | [], _ => true
  | e :: es, sign =>
    let perp := edgePerp pt e
    if neq sign 0 then convexLoop pt es perp
    else if sign * perp < 0 then false
    else convexLoop pt es sign

/-- `point_in_convex_poly2d(pt, poly)` -/
def pointInConvexPoly2d (pt : V2 K) (poly : List (V2 K)) : Bool :=
  if poly.isEmpty then false else convexLoop pt (polyEdges poly) 0

/-- contribution of one edge to `winding` in `point_in_poly2d` -/
def windingStep (pt : V2 K) (e : V2 K × V2 K) : Nat :=
  let a := e.1
  let b := e.2
  let seg_dir := b.sub a
  let dpt := pt.sub a
  let perp := dpt.perp seg_dir
  match decide (0 ≤ dpt.y), decide (pt.y < b.y) with
  | true, true => if perp < 0 then 1 else 0
  | false, false => if 0 < perp then 1 else 0
  | _, _ => 0

/-- the `winding` counter after the loop -/
def windingCount (pt : V2 K) (es : List (V2 K × V2 K)) : Nat :=
  es.foldl (fun w e => w + windingStep pt e) 0

/-- `point_in_poly2d(pt, poly)` -/
def pointInPoly2d (pt : V2 K) (poly : List (V2 K)) : Bool :=
  if poly.isEmpty then false else decide (windingCount pt (polyEdges poly) % 2 = 1)

/-! ## `utils/point_in_triangle.rs` -/

/-- `Orientation`; `nan` stands for the `expect("Found NaN …")` panic of `corner_direction`. -/
inductive Orient where
  | ccw | cw | none | nan
deriving DecidableEq, Repr

/-- `corner_direction(p1, p2, p3)` -/
def cornerDirection (p1 p2 p3 : V2 K) : Orient :=
  let v1 := p1.sub p2
  let v2 := p3.sub p2
  let cross := v1.perp v2
  if cross < 0 then .ccw
  else if neq cross 0 then .none
  else if 0 < cross then .cw
  else .nan

/-- result of `is_point_in_triangle`: `Some(b)`, `None` (degenerate), or the NaN panic -/
inductive InTri where
  | some (b : Bool) | invalid | panic
deriving DecidableEq, Repr

/-- `is_point_in_triangle(p, v1, v2, v3)` -/
def isPointInTriangle (p v1 v2 v3 : V2 K) : InTri :=
  let d1 := cornerDirection p v1 v2
  let d2 := cornerDirection p v2 v3
  let d3 := cornerDirection p v3 v1
  if d1 = .nan ∨ d2 = .nan ∨ d3 = .nan then .panic else
  let has_cw := d1 = .cw ∨ d2 = .cw ∨ d3 = .cw
  let has_ccw := d1 = .ccw ∨ d2 = .ccw ∨ d3 = .ccw
  if d1 = .none ∧ d2 = .none ∧ d3 = .none then .invalid
  else .some (!(decide has_cw && decide has_ccw))


/-! ## `Triangle::contains_point` (2-D, `shape/triangle.rs`) -/

/-- `f64::signum`: `1.0` for positive numbers **and `+0.0`**, `-1.0` for negative numbers **and `-0.0`** (NaN not modelled).
The sign of a zero is read off `1 / x` (`1 / -0.0 = -∞ < 0`, `1 / +0.0 = +∞`); in a field `1 / 0 = 0`, i.e. `signum 0 = 1`,
the value Rust gives for the `+0.0` an exact computation would produce. -/
def signum (x : K) : K :=
  if x < 0 then -1 else if 0 < x then 1 else if 1 / x < 0 then -1 else 1

/-- `Triangle::contains_point(&self, p)` for `dim2` -/
def triContainsPoint (a b c p : V2 K) : Bool :=
  let ab := b.sub a
  let bc := c.sub b
  let ca := a.sub c
  let sgn1 := ab.perp (p.sub a)
  let sgn2 := bc.perp (p.sub b)
  let sgn3 := ca.perp (p.sub c)
  decide (0 ≤ signum sgn1 * signum sgn2) && decide (0 ≤ signum sgn1 * signum sgn3)
    && decide (0 ≤ signum sgn2 * signum sgn3)

/-! ## `transformation/polygon_intersection.rs`: convex polygons (O'Rourke's advance rule) -/

/-- `PolylinePointLocation` -/
inductive PolyLoc (K : Type) where
  | onVertex (i : Nat)
  | onEdge (i j : Nat) (u v : K)
deriving Repr

/-- `InFlag` -/
inductive InFlag where
  | poly1IsInside | poly2IsInside | unknown
deriving DecidableEq, Repr

@[inline] def ppt (pts : Array (V2 K)) (i : Nat) : V2 K := pts.getD i ⟨0, 0⟩

/-- `PolylinePointLocation::from_segment_point_location(a, b, loc)` (`OnVertex(_)` with index > 1 is `unreachable!`) -/
def PolyLoc.ofSegLoc (a b : Nat) : SegLoc K → PolyLoc K
  | .onVertex i => if i = 0 then .onVertex a else .onVertex b
  | .onEdge u v => .onEdge a b u v

/-- `PolylinePointLocation::to_point(pts)`: `pts[i1] * bcoords[0] + pts[i2].coords * bcoords[1]` -/
def PolyLoc.toPoint (pts : Array (V2 K)) : PolyLoc K → V2 K
  | .onVertex i => ppt pts i
  | .onEdge i j u v => ((ppt pts i).smul u).add ((ppt pts j).smul v)

abbrev OutPair (K : Type) := Option (PolyLoc K) × Option (PolyLoc K)

/-- loop state of `convex_polygons_intersection_with_tolerances` -/
structure CvxState (K : Type) where
  i1 : Nat
  i2 : Nat
  nsteps1 : Nat
  nsteps2 : Nat
  inflag : InFlag
  firstPointFound : Bool
  out : Array (OutPair K)

/-- the edge `(a, b)` of a polygon of `len` vertices looked at when the advance index is `i`
(`rev`: the polygon is clockwise and is walked backwards) -/
@[inline] def cvxEdge (rev : Bool) (len i : Nat) : Nat × Nat :=
  if rev then ((len - i) % len, len - i - 1) else ((i + len - 1) % len, i)

/-- the loop condition "Quit when both adv. indices have cycled, or one has cycled twice." -/
@[inline] def cvxCond (len1 len2 : Nat) (st : CvxState K) : Bool :=
  (decide (st.nsteps1 < len1) || decide (st.nsteps2 < len2)) && decide (st.nsteps1 < 2 * len1)
    && decide (st.nsteps2 < 2 * len2)

/-- `advance(i1, &mut nsteps1, len1)` -/
@[inline] def cvxAdv1 (len1 : Nat) (st : CvxState K) : CvxState K :=
  { st with nsteps1 := st.nsteps1 + 1, i1 := (st.i1 + 1) % len1 }
/-- `advance(i2, &mut nsteps2, len2)` -/
@[inline] def cvxAdv2 (len2 : Nat) (st : CvxState K) : CvxState K :=
  { st with nsteps2 := st.nsteps2 + 1, i2 := (st.i2 + 1) % len2 }
/-- `if inflag == Poly1IsInside { out(Some(OnVertex(b1)), None) }` -/
@[inline] def cvxEmit1 (b1 : Nat) (st : CvxState K) : CvxState K :=
  if st.inflag = .poly1IsInside then { st with out := st.out.push (some (.onVertex b1), none) } else st
/-- `if inflag == Poly2IsInside { out(None, Some(OnVertex(b2))) }` -/
@[inline] def cvxEmit2 (b2 : Nat) (st : CvxState K) : CvxState K :=
  if st.inflag = .poly2IsInside then { st with out := st.out.push (none, some (.onVertex b2)) } else st

/-- the `if let Some(inter) = segments_intersection2d(..)` block of one iteration: new state and `true` if it `return`s -/
def cvxInter (poly1 poly2 : Array (V2 K)) (eps : K) (a1 b1 a2 b2 : Nat) (st : CvxState K) : CvxState K × Bool :=
  let dirEdge1 := (ppt poly1 b1).sub (ppt poly1 a1)
  let dirEdge2 := (ppt poly2 b2).sub (ppt poly2 a2)
  let a2_b2_b1 := orientation2d (ppt poly2 a2) (ppt poly2 b2) (ppt poly1 b1) eps
  let a1_b1_b2 := orientation2d (ppt poly1 a1) (ppt poly1 b1) (ppt poly2 b2) eps
  match segmentsIntersection2d (ppt poly1 a1) (ppt poly1 b1) (ppt poly2 a2) (ppt poly2 b2) eps with
  | some (.point loc1 loc2) =>
    if a2_b2_b1 ≠ .degenerate ∧ a1_b1_b2 ≠ .degenerate then
      let st := { st with out := st.out.push (some (PolyLoc.ofSegLoc a1 b1 loc1), some (PolyLoc.ofSegLoc a2 b2 loc2)) }
      let st := if st.inflag = .unknown ∧ st.firstPointFound = false then
                  { st with nsteps1 := 0, nsteps2 := 0, firstPointFound := true } else st
      let st := if a2_b2_b1 = .ccw then { st with inflag := .poly1IsInside }
                else if a1_b1_b2 = .ccw then { st with inflag := .poly2IsInside } else st
      (st, false)
    else (st, false)
  | some (.segment f1 f2 s1 s2) =>
    if dirEdge1.dot dirEdge2 < 0 then
      let st := { st with out := (st.out.push (some (PolyLoc.ofSegLoc a1 b1 f1), some (PolyLoc.ofSegLoc a2 b2 f2))).push
                                    (some (PolyLoc.ofSegLoc a1 b1 s1), some (PolyLoc.ofSegLoc a2 b2 s2)) }
      (st, true)
    else (st, false)
  | none => (st, false)

/-- one iteration of the `while` loop: `inl` = next state, `inr (st, returned)` = the loop is left
(`returned = true`: the function `return`ed from inside the loop) -/
def cvxStep (poly1 poly2 : Array (V2 K)) (eps : K) (rev1 rev2 : Bool) (st : CvxState K) :
    Sum (CvxState K) (CvxState K × Bool) :=
  let len1 := poly1.size
  let len2 := poly2.size
  if !(cvxCond len1 len2 st) then .inr (st, false) else
  let (a1, b1) := cvxEdge rev1 len1 st.i1
  let (a2, b2) := cvxEdge rev2 len2 st.i2
  let dirEdge1 := (ppt poly1 b1).sub (ppt poly1 a1)
  let dirEdge2 := (ppt poly2 b2).sub (ppt poly2 a2)
  let cross := orientation2d (⟨0, 0⟩ : V2 K) dirEdge1 dirEdge2 eps
  let a2_b2_b1 := orientation2d (ppt poly2 a2) (ppt poly2 b2) (ppt poly1 b1) eps
  let a1_b1_b2 := orientation2d (ppt poly1 a1) (ppt poly1 b1) (ppt poly2 b2) eps
  -- If edge1 & edge2 intersect, update inflag.
  let r := cvxInter poly1 poly2 eps a1 b1 a2 b2 st
  if r.2 then .inr r else
  let st := r.1
  -- Special case: edge1 & edge2 parallel and separated.
  if cross = .degenerate ∧ a2_b2_b1 = .cw ∧ a1_b1_b2 = .cw then .inr (st, true)
  -- Special case: edge1 & edge2 collinear.
  else if cross = .degenerate ∧ a2_b2_b1 = .degenerate ∧ a1_b1_b2 = .degenerate then
    .inl (if st.inflag = .poly1IsInside then cvxAdv2 len2 st else cvxAdv1 len1 st)
  -- Generic cases.
  else if cross = .ccw then
    if a1_b1_b2 = .ccw then .inl (cvxAdv1 len1 (cvxEmit1 b1 st))
    else .inl (cvxAdv2 len2 (cvxEmit2 b2 st))
  else
    if a2_b2_b1 = .ccw then .inl (cvxAdv2 len2 (cvxEmit2 b2 st))
    else .inl (cvxAdv1 len1 (cvxEmit1 b1 st))

/-- the `while` loop; returns the state and `true` if the function `return`ed from inside the loop.
Every iteration advances `nsteps1` or `nsteps2` (reset once to 0), so `4(len1+len2)+4` iterations of fuel suffice
(theorem `C15.cvxLoop_fuel_sufficient`). -/
def cvxLoop (poly1 poly2 : Array (V2 K)) (eps : K) (rev1 rev2 : Bool) : Nat → CvxState K → CvxState K × Bool
  | 0, st => (st, false)
  | fuel + 1, st =>
    match cvxStep poly1 poly2 eps rev1 rev2 st with
    | .inl st' => cvxLoop poly1 poly2 eps rev1 rev2 fuel st'
    | .inr r => r

/-- inner loop of the containment test (with its `break`): the points of `polyB` against the edge `(u, v)` of `polyA`;
state `(orient, ok)` -/
def containInner (u v : V2 K) (eps : K) : List (V2 K) → TriOrient × Bool → TriOrient × Bool
  | [], acc => acc
  | p :: ps, (orient, ok) =>
    let newOrient := orientation2d u v p eps
    if orient = .degenerate then containInner u v eps ps (newOrient, ok)
    else if newOrient ≠ orient ∧ newOrient ≠ .degenerate then (orient, false)
    else containInner u v eps ps (orient, ok)

/-- the O(n²) containment test: `ok` after scanning every edge of `polyA` against every point of `polyB`
(the `break` leaves only the inner loop; `ok` is never set back to `true`) -/
def containScan (polyA polyB : Array (V2 K)) (eps : K) : Bool :=
  let lenA := polyA.size
  let r := (List.range lenA).foldl (fun (acc : TriOrient × Bool) a =>
    let aMinus1 := (a + lenA - 1) % lenA
    containInner (ppt polyA aMinus1) (ppt polyA a) eps polyB.toList acc) (TriOrient.degenerate, true)
  r.2

/-- `convex_polygons_intersection_with_tolerances(poly1, poly2, tolerances, out)`: the emitted location pairs -/
def convexPolygonsIntersection (poly1 poly2 : Array (V2 K)) (eps : K) : Array (OutPair K) :=
  let len1 := poly1.size
  let len2 := poly2.size
  let rev1 := decide (2 < len1) && decide (orientation2d (ppt poly1 0) (ppt poly1 1) (ppt poly1 2) eps = .cw)
  let rev2 := decide (2 < len2) && decide (orientation2d (ppt poly2 0) (ppt poly2 1) (ppt poly2 2) eps = .cw)
  let st0 : CvxState K := ⟨0, 0, 0, 0, .unknown, false, #[]⟩
  let (st, returned) := cvxLoop poly1 poly2 eps rev1 rev2 (4 * (len1 + len2) + 4) st0
  if returned then st.out else
  if st.firstPointFound then st.out else
  -- No intersection: test if one polygon completely encloses the other.
  let out := st.out
  if containScan poly1 poly2 eps then
    -- **corrected**: the pinned tree falls through to the symmetric test and, for polygons that enclose each other
    -- (identical regions), outputs the polygon twice
    (List.range len2).foldl (fun (o : Array (OutPair K)) b =>
      o.push (none, some (.onVertex (if rev2 then len2 - b - 1 else b)))) out
  else if containScan poly2 poly1 eps then
    (List.range len1).foldl (fun (o : Array (OutPair K)) a =>
      o.push (some (.onVertex (if rev1 then len1 - a - 1 else a)), none)) out
  else out

/-- `PolygonIntersectionTolerances::default().collinearity_epsilon = f64::EPSILON * 100` -/
@[inline] def defaultCollinearityEps : K := epsMach * lit 100

/-- `convex_polygons_intersection_points_with_tolerances(poly1, poly2, tolerances, out)` -/
def convexPolygonsIntersectionPoints (poly1 poly2 : Array (V2 K)) (eps : K) : Array (V2 K) :=
  (convexPolygonsIntersection poly1 poly2 eps).filterMap fun (l1, l2) =>
    match l1, l2 with
    | some l, _ => some (l.toPoint poly1)
    | none, some l => some (l.toPoint poly2)
    | none, none => none

/-! ## `transformation/polygon_intersection.rs`: non-convex polygons (`polygons_intersection`)

Intersection-point graph (`compute_sorted_edge_intersections`), `visited` bookkeeping, component traversal and the
fully-inside fall-backs.

Modelling decisions (each a faithful abstraction, none changes an observable result):
* the two `HashMap<EdgeId, Vec<IntersectionPoint>>` are the function `onEdge I p e` = the intersections whose edge on
  polygon `p` is `e`, in enumeration (push) order, then **stably** sorted by `centered_bcoords` (`sort_by_key` is a
  stable merge sort; a stable sort is unique, so insertion sort gives the same list).  An absent key and an empty
  vector are the same thing (`entry().or_default().push()` never leaves an empty vector, and the code reads with
  `.get().unwrap_or(&empty)`).
* the iteration order of `intersections[0].values()` is the order of a randomly seeded hash map (hashbrown + foldhash):
  it is the parameter `order` (a list of edge ids of `poly1`).  Theorems are stated for **every** order; the driver
  evaluates at the ascending order and compares outputs up to rotation of each component and order of components.
* `visited: Vec<bool>` is the list of visited ids (ids are always in range).
* `OrderedFloat` orders NaN above everything; keys are never NaN on finite inputs (|denom| ≥ eps) — not modelled.
-/

/-- `IntersectionPoint` -/
structure IPoint (K : Type) where
  id : Nat
  e1 : Nat
  e2 : Nat
  loc1 : PolyLoc K
  loc2 : PolyLoc K
deriving Repr

/-- `inter.edges[p]` -/
@[inline] def IPoint.edge (ip : IPoint K) (p : Nat) : Nat := if p = 0 then ip.e1 else ip.e2
/-- `inter.locs[p]` -/
@[inline] def IPoint.loc (ip : IPoint K) (p : Nat) : PolyLoc K := if p = 0 then ip.loc1 else ip.loc2

/-- `PolylinePointLocation::centered_bcoords([e0, (e0 + 1) % len])` (the `assert_eq!` on `OnEdge` holds by construction) -/
def centeredBcoords : PolyLoc K → Nat → K
  | .onVertex vid, e0 => if vid = e0 then 0 else 1
  | .onEdge _ _ _ v, _ => v

/-- insertion after every element whose key is `≤` the new key (stable) -/
def insertByKey {α : Type} (key : α → K) (x : α) : List α → List α
  | [] => [x]
  | y :: ys => if key x < key y then x :: y :: ys else y :: insertByKey key x ys

/-- `sort_by_key` (stable) -/
def sortByKey {α : Type} (key : α → K) (l : List α) : List α :=
  l.foldl (fun acc x => insertByKey key x acc) []

/-- the `Point` intersections of edge `i1` of `poly1` with every edge of `poly2`, in the order of the inner loop
(`Segment` results are dropped: "Collinear segment-segment intersections not properly handled yet") -/
def edgeRow (poly1 poly2 : Array (V2 K)) (eps : K) (i1 : Nat) : List (Nat × Nat × PolyLoc K × PolyLoc K) :=
  let len1 := poly1.size
  let len2 := poly2.size
  let j1 := (i1 + 1) % len1
  (List.range len2).filterMap fun i2 =>
    let j2 := (i2 + 1) % len2
    match segmentsIntersection2d (ppt poly1 i1) (ppt poly1 j1) (ppt poly2 i2) (ppt poly2 j2) eps with
    | some (.point loc1 loc2) => some (i1, i2, PolyLoc.ofSegLoc i1 j1 loc1, PolyLoc.ofSegLoc i2 j2 loc2)
    | _ => none

/-- numbering of the crossings: `id` = position in the enumeration -/
def numberFrom : Nat → List (Nat × Nat × PolyLoc K × PolyLoc K) → List (IPoint K)
  | _, [] => []
  | n, (i1, i2, l1, l2) :: rest => ⟨n, i1, i2, l1, l2⟩ :: numberFrom (n + 1) rest

/-- all intersection points of `compute_sorted_edge_intersections`, in the order they receive their ids -/
def intersections (poly1 poly2 : Array (V2 K)) (eps : K) : List (IPoint K) :=
  numberFrom 0 ((List.range poly1.size).flatMap (edgeRow poly1 poly2 eps))

/-- `intersections[p].get(&e)`: the sorted intersections lying on edge `e` of polygon `p` -/
def onEdge (I : List (IPoint K)) (p e : Nat) : List (IPoint K) :=
  sortByKey (fun ip => centeredBcoords (ip.loc p) (ip.edge p)) (I.filter fun ip => ip.edge p == e)

/-- what the `out` closure receives -/
inductive Emit (K : Type) where
  /-- `out(Some(inter.locs[0]), Some(inter.locs[1]))` -/
  | inter (ip : IPoint K)
  /-- `out(Some(OnVertex(v)), None)` for `poly = 0`, `out(None, Some(OnVertex(v)))` for `poly = 1` -/
  | vtx (poly v : Nat)
  /-- `out(None, None)`: one component is complete -/
  | fin
deriving Repr

def Emit.toPair : Emit K → OutPair K
  | .inter ip => (some ip.loc1, some ip.loc2)
  | .vtx p v => if p = 0 then (some (.onVertex v), none) else (none, some (.onVertex v))
  | .fin => (none, none)

/-- `TraversalStatus` -/
inductive TStatus where
  | onVertex
  | onInter (id : Nat)
deriving Repr

/-- `to_traverse`, `status`, `visited` and everything emitted so far -/
structure Walk (K : Type) where
  poly : Nat
  edge : Nat
  status : TStatus
  visited : List Nat
  trace : List (Emit K)

/-- how the `for loop_id in 0..` loop ends: `break` (component closed), `Err(InfiniteLoop)`, or the
`.find(..).unwrap_or_else(|| unreachable!())` panic -/
inductive WalkEnd where
  | closed | infiniteLoop | unreachable
deriving DecidableEq, Repr

/-- `edge_inters.iter().enumerate().find(|(_, inter)| inter.id == inter_id)`, positions counted from `n` -/
def findPosFrom (id : Nat) : Nat → List (IPoint K) → Option (Nat × IPoint K)
  | _, [] => none
  | n, ip :: rest => if ip.id = id then some (n, ip) else findPosFrom id (n + 1) rest

def findPos (l : List (IPoint K)) (id : Nat) : Option (Nat × IPoint K) := findPosFrom id 0 l

/-- number of vertices of polygon `p` (`polys[p].len()`) -/
@[inline] def plen (len1 len2 p : Nat) : Nat := if p = 0 then len1 else len2

/-- one iteration of the traversal loop: `inl` = continue with the new state, `inr` = the loop is left -/
def walkStep (I : List (IPoint K)) (len1 len2 : Nat) (st : Walk K) : Sum (Walk K) (Walk K × WalkEnd) :=
  let edgeInters := onEdge I st.poly st.edge
  match st.status with
  | .onInter id =>
    match findPos edgeInters id with
    | none => .inr (st, .unreachable)
    | some (pos, cur) =>
      if st.visited.contains cur.id then
        -- We already saw this intersection: we looped back to the start of the intersection polygon.
        .inr ({ st with trace := st.trace ++ [Emit.fin] }, .closed)
      else
        let tr := st.trace ++ [Emit.inter cur]
        let vis := cur.id :: st.visited
        match edgeInters[pos + 1]? with
        | some next =>
          -- move forward to the next intersection point and move on to traversing the other polygon
          let p' := (st.poly + 1) % 2
          .inl { poly := p', edge := next.edge p', status := .onInter next.id, visited := vis, trace := tr }
        | none =>
          -- this was the last intersection, move to the next vertex on the same polygon
          .inl { poly := st.poly, edge := (st.edge + 1) % plen len1 len2 st.poly, status := .onVertex,
                 visited := vis, trace := tr }
  | .onVertex =>
    let tr := st.trace ++ [Emit.vtx st.poly st.edge]
    match edgeInters.head? with
    | some first =>
      -- jump on the first intersection and move on to the other polygon
      let p' := (st.poly + 1) % 2
      .inl { poly := p', edge := first.edge p', status := .onInter first.id, visited := st.visited, trace := tr }
    | none =>
      -- move forward to the next vertex/edge on the same polygon
      .inl { poly := st.poly, edge := (st.edge + 1) % plen len1 len2 st.poly, status := .onVertex,
             visited := st.visited, trace := tr }

/-- the traversal loop.  `fuel` = number of iterations still allowed: the code errors when `loop_id > len1 * len2`, i.e.
it runs at most `len1 * len2 + 1` iterations. -/
def walk (I : List (IPoint K)) (len1 len2 : Nat) : Nat → Walk K → Walk K × WalkEnd
  | 0, st => (st, .infiniteLoop)
  | fuel + 1, st =>
    match walkStep I len1 len2 st with
    | .inl st' => walk I len1 len2 fuel st'
    | .inr r => r

/-- `poly_to_traverse` at the start of a component: the polygon whose edge heads to the left of the other edge -/
def startPoly (poly1 poly2 : Array (V2 K)) (eps : K) (ip : IPoint K) : Nat :=
  let a1 := ppt poly1 ip.e1
  let b1 := ppt poly1 ((ip.e1 + 1) % poly1.size)
  let a2 := ppt poly2 ip.e2
  let b2 := ppt poly2 ((ip.e2 + 1) % poly2.size)
  match orientation2d a1 b1 a2 eps with
  | .cw => 1
  | .ccw => 0
  | .degenerate =>
    match orientation2d a1 b1 b2 eps with
    | .cw => 0
    | .ccw => 1
    | .degenerate => 0

/-- the two nested `for` loops over `intersections[0]`, flattened (`continue` on a visited intersection); stops at the
first traversal that does not close -/
def outerLoop (poly1 poly2 : Array (V2 K)) (eps : K) (I : List (IPoint K)) :
    List (IPoint K) → List Nat × List (Emit K) → (List Nat × List (Emit K)) × Option WalkEnd
  | [], s => (s, none)
  | ip :: rest, (vis, tr) =>
    if vis.contains ip.id then outerLoop poly1 poly2 eps I rest (vis, tr) else
    let p := startPoly poly1 poly2 eps ip
    let r := walk I poly1.size poly2.size (poly1.size * poly2.size + 1) ⟨p, ip.edge p, .onInter ip.id, vis, tr⟩
    match r.2 with
    | .closed => outerLoop poly1 poly2 eps I rest (r.1.visited, r.1.trace)
    | e => ((r.1.visited, r.1.trace), some e)

/-- result of `polygons_intersection`: what was emitted, and `Ok(())` / `Err(InfiniteLoop)` / a panic
(`unreachable!()`, or `poly1[0]` / `poly2[0]` on an empty polygon) -/
inductive PIStatus where
  | ok | err | panic
deriving DecidableEq, Repr

structure PIResult (K : Type) where
  trace : List (Emit K)
  visited : List Nat
  status : PIStatus

/-- `polygons_intersection(poly1, poly2, out)` when the hash map iterates the edges of `poly1` in the order `order` -/
def polygonsIntersectionOrd (order : List Nat) (poly1 poly2 : Array (V2 K)) : PIResult K :=
  let eps : K := defaultCollinearityEps
  let I := intersections poly1 poly2 eps
  let starts := order.flatMap fun e => onEdge I 0 e
  let r := outerLoop poly1 poly2 eps I starts ([], [])
  match r.2 with
  | some .infiniteLoop => ⟨r.1.2, r.1.1, .err⟩
  | some _ => ⟨r.1.2, r.1.1, .panic⟩
  | none =>
    let tr := r.1.2
    -- If there are no intersection, check if one polygon is inside the other.
    if I.isEmpty then
      if poly1.size = 0 then ⟨tr, r.1.1, .panic⟩
      else if pointInPoly2d (ppt poly1 0) poly2.toList then
        ⟨tr ++ (List.range poly1.size).map (Emit.vtx 0) ++ [.fin], r.1.1, .ok⟩
      else if poly2.size = 0 then ⟨tr, r.1.1, .panic⟩
      else if pointInPoly2d (ppt poly2 0) poly1.toList then
        ⟨tr ++ (List.range poly2.size).map (Emit.vtx 1) ++ [.fin], r.1.1, .ok⟩
      else ⟨tr, r.1.1, .ok⟩
    else ⟨tr, r.1.1, .ok⟩

/-- `polygons_intersection` with the edges of `poly1` visited in ascending order -/
def polygonsIntersection (poly1 poly2 : Array (V2 K)) : PIResult K :=
  polygonsIntersectionOrd (List.range poly1.size) poly1 poly2

/-- the closure of `polygons_intersection_points`: `(result, curr_poly)` after one more call -/
def splitStep (poly1 poly2 : Array (V2 K)) (acc : List (List (V2 K)) × List (V2 K)) : Emit K → List (List (V2 K)) × List (V2 K)
  | .inter ip => (acc.1, acc.2 ++ [ip.loc1.toPoint poly1])
  | .vtx p v => (acc.1, acc.2 ++ [ppt (if p = 0 then poly1 else poly2) v])
  | .fin => if acc.2.isEmpty then acc else (acc.1 ++ [acc.2], [])

/-- split the emission stream at the `fin` markers (an empty current polygon is not pushed) -/
def splitComponents (poly1 poly2 : Array (V2 K)) (tr : List (Emit K)) : List (List (V2 K)) :=
  (tr.foldl (splitStep poly1 poly2) ([], [])).1

/-- `polygons_intersection_points(poly1, poly2)`: status `err` = `Err(InfiniteLoop)` -/
def polygonsIntersectionPoints (poly1 poly2 : Array (V2 K)) : PIStatus × List (List (V2 K)) :=
  let r := polygonsIntersection poly1 poly2
  (r.status, if r.status = .ok then splitComponents poly1 poly2 r.trace else [])

end Model.C15
