import ParryModel.Field
import ParryModel.C15.Model
import ParryModel.C15.WalkLemmas
/-!
# C15, non-convex `polygons_intersection`: helper definitions and lemmas for `walk_follows_boundaries`
(`Follows` = "is emitted right after, inside a component", chained lists, the loop invariant).  The property theorems are
in `Theorems3.lean`.  Every `Num` scalar type.
-/
namespace C15
open Model Model.C15
set_option linter.unusedSectionVars false

section follow
variable {K : Type} [Num K]

/-- `y` is what the traversal emits right after `x` inside a component: the next registered intersection on the same edge
(`interInter`), the end vertex of the edge when `x` is its last intersection (`interVtx`), the first intersection of the
edge that starts at the vertex (`vtxInter`), or the next vertex when that edge carries no intersection (`vtxVtx`). -/
inductive Follows (I : List (IPoint K)) (len1 len2 : Nat) : Emit K → Emit K → Prop where
  | interInter (p e pos : Nat) (X Y : IPoint K) (hp : p < 2) (hX : (onEdge I p e)[pos]? = some X)
      (hY : (onEdge I p e)[pos + 1]? = some Y) : Follows I len1 len2 (.inter X) (.inter Y)
  | interVtx (p e pos : Nat) (X : IPoint K) (hp : p < 2) (hX : (onEdge I p e)[pos]? = some X)
      (hY : (onEdge I p e)[pos + 1]? = none) : Follows I len1 len2 (.inter X) (.vtx p ((e + 1) % plen len1 len2 p))
  | vtxInter (p v : Nat) (Y : IPoint K) (hp : p < 2) (hY : (onEdge I p v).head? = some Y) :
      Follows I len1 len2 (.vtx p v) (.inter Y)
  | vtxVtx (p v : Nat) (hp : p < 2) (hY : (onEdge I p v).head? = none) :
      Follows I len1 len2 (.vtx p v) (.vtx p ((v + 1) % plen len1 len2 p))

/-- the adjacency relation checked along the emission stream: the `(None, None)` markers separate components -/
def Adj (I : List (IPoint K)) (len1 len2 : Nat) (x y : Emit K) : Prop :=
  (∀ ip, x = .inter ip → y ≠ .fin → Follows I len1 len2 x y) ∧ (∀ p v, x = .vtx p v → y ≠ .fin → Follows I len1 len2 x y)

/-- every two consecutive elements are related -/
def Chained {α : Type} (R : α → α → Prop) : List α → Prop
  | [] => True
  | [_] => True
  | x :: y :: rest => R x y ∧ Chained R (y :: rest)

theorem chained_snoc {α : Type} (R : α → α → Prop) (l : List α) (y : α) :
    Chained R (l ++ [y]) ↔ Chained R l ∧ ∀ z, l.getLast? = some z → R z y := by
  induction l with
  | nil => simp [Chained]
  | cons a t ih =>
    cases t with
    | nil => simp [Chained]
    | cons b t' =>
      have : (a :: b :: t') ++ [y] = a :: b :: (t' ++ [y]) := rfl
      rw [this]
      simp only [Chained]
      have ih' : Chained R (b :: (t' ++ [y])) ↔ Chained R (b :: t') ∧ ∀ z, (b :: t').getLast? = some z → R z y := ih
      rw [ih']
      simp only [List.getLast?_cons_cons]
      tauto

theorem chained_append {α : Type} (R : α → α → Prop) (l m : List α) (hl : Chained R l) (hm : Chained R m)
    (hj : ∀ z w, l.getLast? = some z → m.head? = some w → R z w) : Chained R (l ++ m) := by
  induction m generalizing l with
  | nil => simpa using hl
  | cons w rest ih =>
    have : l ++ w :: rest = (l ++ [w]) ++ rest := by simp
    rw [this]
    apply ih
    · exact (chained_snoc R l w).2 ⟨hl, fun z hz => hj z w hz rfl⟩
    · cases rest with
      | nil => trivial
      | cons w' r' => exact hm.2
    · intro z w' hz hw'
      simp only [List.getLast?_append, List.getLast?_singleton, Option.some_or] at hz
      cases hz
      cases rest with
      | nil => simp at hw'
      | cons w'' r' => simp only [List.head?_cons, Option.some.injEq] at hw'; subst hw'; exact hm.1

/-- ids identify the registered intersection points -/
def IdsInj (I : List (IPoint K)) : Prop := ∀ a ∈ I, ∀ b ∈ I, a.id = b.id → a = b

/-- what the state promises about the next emission, relative to the last emitted item -/
def Pend (I : List (IPoint K)) (len1 len2 : Nat) (st : Walk K) : Prop :=
  ∀ z, st.trace.getLast? = some z → z ≠ .fin →
    match st.status with
    | .onInter id => ∃ Y ∈ I, Y.id = id ∧ Follows I len1 len2 z (.inter Y)
    | .onVertex => Follows I len1 len2 z (.vtx st.poly st.edge)

/-- loop invariant: polygon index in range, the stream so far is chained, and the pending promise -/
def FollowInv (I : List (IPoint K)) (len1 len2 : Nat) (st : Walk K) : Prop :=
  st.poly < 2 ∧ Chained (Adj I len1 len2) st.trace ∧ Pend I len1 len2 st

theorem adj_of_follows {I : List (IPoint K)} {len1 len2 : Nat} {x y : Emit K}
    (h : x ≠ .fin → y ≠ .fin → Follows I len1 len2 x y) : Adj I len1 len2 x y :=
  ⟨fun ip hx hy => h (by rw [hx]; simp) hy, fun p v hx hy => h (by rw [hx]; simp) hy⟩

theorem adj_fin_right {I : List (IPoint K)} {len1 len2 : Nat} (x : Emit K) : Adj I len1 len2 x .fin :=
  ⟨fun _ _ h => absurd rfl h, fun _ _ _ h => absurd rfl h⟩

theorem adj_fin_left {I : List (IPoint K)} {len1 len2 : Nat} (y : Emit K) : Adj I len1 len2 .fin y :=
  ⟨fun _ h _ => (by cases h), fun _ _ h _ => (by cases h)⟩

theorem walkStep_follow (I : List (IPoint K)) (len1 len2 : Nat) (hinj : IdsInj I) (st : Walk K)
    (h : FollowInv I len1 len2 st) :
    (∀ st', walkStep I len1 len2 st = .inl st' → FollowInv I len1 len2 st') ∧
    (∀ r, walkStep I len1 len2 st = .inr r → Chained (Adj I len1 len2) r.1.trace) := by
  obtain ⟨hp, hch, hpend⟩ := h
  have hp' : (st.poly + 1) % 2 < 2 := Nat.mod_lt _ (by decide)
  -- the item about to be emitted follows the last one
  have hnext_inter : ∀ id pos cur, st.status = .onInter id → findPos (onEdge I st.poly st.edge) id = some (pos, cur) →
      ∀ z, st.trace.getLast? = some z → Adj I len1 len2 z (.inter cur) := by
    intro id pos cur hs hf z hz
    apply adj_of_follows
    intro hzf _
    have := hpend z hz hzf
    rw [hs] at this
    obtain ⟨Y, hY, hid, hfol⟩ := this
    obtain ⟨_, hcid, hcur⟩ := findPos_some _ _ _ _ hf
    have hcI : cur ∈ I := ((mem_onEdge I _ _ cur).1 hcur).1
    have : Y = cur := hinj Y hY cur hcI (by rw [hid, hcid])
    rw [← this]; exact hfol
  have hnext_vtx : st.status = .onVertex → ∀ z, st.trace.getLast? = some z → Adj I len1 len2 z (.vtx st.poly st.edge) := by
    intro hs z hz
    apply adj_of_follows
    intro hzf _
    have := hpend z hz hzf
    rw [hs] at this
    exact this
  cases walkStep_cases I len1 len2 st with
  | unreach id hs hf hw => rw [hw]; exact ⟨fun _ e => (by cases e), fun r e => (by cases e; exact hch)⟩
  | close id pos cur hs hf hv hw =>
    rw [hw]; refine ⟨fun _ e => (by cases e), fun r e => ?_⟩
    cases e
    exact (chained_snoc _ _ _).2 ⟨hch, fun z _ => adj_fin_right z⟩
  | interNext id pos cur nxt hs hf hv hn hw =>
    rw [hw]; refine ⟨fun st' e => ?_, fun _ e => (by cases e)⟩
    cases e
    obtain ⟨hpos, _, _⟩ := findPos_some _ _ _ _ hf
    refine ⟨hp', (chained_snoc _ _ _).2 ⟨hch, hnext_inter id pos cur hs hf⟩, ?_⟩
    intro z hz _
    simp only [List.getLast?_append, List.getLast?_singleton, Option.some_or, Option.some.injEq] at hz
    subst hz
    have hnI : nxt ∈ I := ((mem_onEdge I _ _ nxt).1 (List.mem_of_getElem? hn)).1
    exact ⟨nxt, hnI, rfl, .interInter st.poly st.edge pos cur nxt hp hpos hn⟩
  | interLast id pos cur hs hf hv hn hw =>
    rw [hw]; refine ⟨fun st' e => ?_, fun _ e => (by cases e)⟩
    cases e
    obtain ⟨hpos, _, _⟩ := findPos_some _ _ _ _ hf
    refine ⟨hp, (chained_snoc _ _ _).2 ⟨hch, hnext_inter id pos cur hs hf⟩, ?_⟩
    intro z hz _
    simp only [List.getLast?_append, List.getLast?_singleton, Option.some_or, Option.some.injEq] at hz
    subst hz
    exact .interVtx st.poly st.edge pos cur hp hpos hn
  | vtxFirst first hs hh hw =>
    rw [hw]; refine ⟨fun st' e => ?_, fun _ e => (by cases e)⟩
    cases e
    refine ⟨hp', (chained_snoc _ _ _).2 ⟨hch, hnext_vtx hs⟩, ?_⟩
    intro z hz _
    simp only [List.getLast?_append, List.getLast?_singleton, Option.some_or, Option.some.injEq] at hz
    subst hz
    have hfI : first ∈ I := ((mem_onEdge I _ _ first).1 (List.mem_of_mem_head? hh)).1
    exact ⟨first, hfI, rfl, .vtxInter st.poly st.edge first hp hh⟩
  | vtxNext hs hh hw =>
    rw [hw]; refine ⟨fun st' e => ?_, fun _ e => (by cases e)⟩
    cases e
    refine ⟨hp, (chained_snoc _ _ _).2 ⟨hch, hnext_vtx hs⟩, ?_⟩
    intro z hz _
    simp only [List.getLast?_append, List.getLast?_singleton, Option.some_or, Option.some.injEq] at hz
    subst hz
    exact .vtxVtx st.poly st.edge hp hh

theorem walk_follow (I : List (IPoint K)) (len1 len2 : Nat) (hinj : IdsInj I) :
    ∀ (fuel : Nat) (st : Walk K), FollowInv I len1 len2 st → Chained (Adj I len1 len2) (walk I len1 len2 fuel st).1.trace := by
  intro fuel
  induction fuel with
  | zero => intro st h; simpa [walk] using h.2.1
  | succ n ih =>
    intro st h
    unfold walk
    cases hw : walkStep I len1 len2 st with
    | inl st' => exact ih st' ((walkStep_follow I len1 len2 hinj st h).1 st' hw)
    | inr r => exact (walkStep_follow I len1 len2 hinj st h).2 r hw

/-- a traversal that closes ends its stream with the `(None, None)` marker -/
theorem walk_closed_last (I : List (IPoint K)) (len1 len2 : Nat) :
    ∀ (fuel : Nat) (st : Walk K), (walk I len1 len2 fuel st).2 = .closed →
      (walk I len1 len2 fuel st).1.trace.getLast? = some .fin := by
  intro fuel
  induction fuel with
  | zero => intro st h; simp [walk] at h
  | succ n ih =>
    intro st h
    unfold walk at h ⊢
    cases walkStep_cases I len1 len2 st with
    | unreach id hs hf hw => rw [hw] at h; simp at h
    | close id pos cur hs hf hv hw => rw [hw]; simp
    | interNext id pos cur nxt hs hf hv hn hw => rw [hw] at h ⊢; exact ih _ h
    | interLast id pos cur hs hf hv hn hw => rw [hw] at h ⊢; exact ih _ h
    | vtxFirst first hs hh hw => rw [hw] at h ⊢; exact ih _ h
    | vtxNext hs hh hw => rw [hw] at h ⊢; exact ih _ h

theorem outerLoop_follow (poly1 poly2 : Array (V2 K)) (eps : K) (I : List (IPoint K)) (hinj : IdsInj I) :
    ∀ (starts : List (IPoint K)) (vis : List Nat) (tr : List (Emit K)),
      Chained (Adj I poly1.size poly2.size) tr → (∀ z, tr.getLast? = some z → z = .fin) →
      Chained (Adj I poly1.size poly2.size) (outerLoop poly1 poly2 eps I starts (vis, tr)).1.2 ∧
      ((outerLoop poly1 poly2 eps I starts (vis, tr)).2 = none →
        ∀ z, (outerLoop poly1 poly2 eps I starts (vis, tr)).1.2.getLast? = some z → z = .fin) := by
  intro starts
  induction starts with
  | nil => intro vis tr h hl; simp only [outerLoop]; exact ⟨h, fun _ => hl⟩
  | cons ip rest ih =>
    intro vis tr hch hlast
    unfold outerLoop
    by_cases hv : ip.id ∈ vis
    · simp only [List.contains_iff_mem, hv, ↓reduceIte]
      exact ih vis tr hch hlast
    · simp only [List.contains_iff_mem, hv, ↓reduceIte]
      set p := startPoly poly1 poly2 eps ip with hp
      set st0 : Walk K := ⟨p, ip.edge p, .onInter ip.id, vis, tr⟩ with hst0
      have hinv0 : FollowInv I poly1.size poly2.size st0 :=
        ⟨startPoly_lt poly1 poly2 eps ip, hch, fun z hz hzf => absurd (hlast z hz) hzf⟩
      have hw := walk_follow I poly1.size poly2.size hinj (poly1.size * poly2.size + 1) st0 hinv0
      set w := walk I poly1.size poly2.size (poly1.size * poly2.size + 1) st0 with hwd
      cases hend : w.2 with
      | closed =>
        simp only
        refine ih w.1.visited w.1.trace hw ?_
        intro z hz
        have := walk_closed_last I poly1.size poly2.size _ st0 hend
        rw [this] at hz; cases hz; rfl
      | infiniteLoop => exact ⟨hw, fun hn => by simp at hn⟩
      | unreachable => exact ⟨hw, fun hn => by simp at hn⟩

theorem chained_vertices (I : List (IPoint K)) (len1 len2 p : Nat) (hp : p < 2) (hI : I = []) :
    ∀ (m a : Nat), a + m ≤ plen len1 len2 p → Chained (Adj I len1 len2) ((List.range' a m).map (Emit.vtx (K := K) p)) := by
  intro m
  induction m with
  | zero => intro a _; simp [Chained]
  | succ n ih =>
    intro a ha
    cases n with
    | zero => simp [Chained]
    | succ k =>
      have h2 : List.range' a (k + 1 + 1) = a :: (a + 1) :: List.range' (a + 1 + 1) k := by
        simp [List.range'_succ]
      have ih' := ih (a + 1) (by omega)
      have h3 : List.range' (a + 1) (k + 1) = (a + 1) :: List.range' (a + 1 + 1) k := by simp [List.range'_succ]
      rw [h3] at ih'
      rw [h2]
      simp only [List.map_cons] at ih' ⊢
      refine ⟨?_, ih'⟩
      apply adj_of_follows
      intro _ _
      have hm : (a + 1) % plen len1 len2 p = a + 1 := Nat.mod_eq_of_lt (by omega)
      have := Follows.vtxVtx (I := I) (len1 := len1) (len2 := len2) p a hp (by subst hI; simp [onEdge, sortByKey])
      rw [hm] at this
      exact this

end follow
end C15
