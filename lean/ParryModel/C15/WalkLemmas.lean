import ParryModel.Field
import ParryModel.C15.Model
/-!
# C15, non-convex `polygons_intersection`: helper lemmas about the intersection graph and the component walk
(sorting is a permutation, `find`, one-iteration case analysis, loop invariants).  The property theorems that use them
are in `Theorems2.lean`.  Everything here holds for every scalar type with a `Num` structure (no field law is used).
-/
namespace C15
open Model Model.C15
set_option linter.unusedSectionVars false

section graph
variable {K : Type} [Num K]

set_option linter.unusedSectionVars false

/-! ## the sorted per-edge lists are the intersections of that edge -/

theorem insertByKey_perm {α : Type} (key : α → K) (x : α) (l : List α) :
    (insertByKey key x l).Perm (x :: l) := by
  induction l with
  | nil => simp [insertByKey]
  | cons y ys ih =>
    unfold insertByKey
    split_ifs
    · exact List.Perm.refl _
    · exact (List.Perm.cons y ih).trans (List.Perm.swap x y ys)

theorem foldl_insert_perm {α : Type} (key : α → K) (l acc : List α) :
    (l.foldl (fun acc x => insertByKey key x acc) acc).Perm (acc ++ l) := by
  induction l generalizing acc with
  | nil => simp
  | cons x xs ih =>
    simp only [List.foldl_cons]
    refine (ih _).trans ?_
    refine ((insertByKey_perm key x acc).append_right xs).trans ?_
    simpa using (List.perm_middle (l₁ := acc) (l₂ := xs) (a := x)).symm

/-- `sort_by_key` returns a permutation of its input -/
theorem sortByKey_perm {α : Type} (key : α → K) (l : List α) : (sortByKey key l).Perm l := by
  simpa [sortByKey] using foldl_insert_perm key l []

/-! ## `find` -/

/-- **per-edge lists**: `intersections[p][e]` contains exactly the intersection points whose edge on polygon `p` is `e` -/
theorem mem_onEdge (I : List (IPoint K)) (p e : Nat) (ip : IPoint K) :
    ip ∈ onEdge I p e ↔ ip ∈ I ∧ ip.edge p = e := by
  unfold onEdge
  rw [(sortByKey_perm _ _).mem_iff]
  simp [List.mem_filter]

theorem findPosFrom_some (id : Nat) (l : List (IPoint K)) (n pos : Nat) (cur : IPoint K)
    (h : findPosFrom id n l = some (pos, cur)) : n ≤ pos ∧ l[pos - n]? = some cur ∧ cur.id = id := by
  induction l generalizing n with
  | nil => simp [findPosFrom] at h
  | cons ip rest ih =>
    unfold findPosFrom at h
    split_ifs at h with hid
    · simp only [Option.some.injEq, Prod.mk.injEq] at h
      obtain ⟨rfl, rfl⟩ := h
      simp [hid]
    · obtain ⟨h1, h2, h3⟩ := ih (n + 1) h
      refine ⟨by omega, ?_, h3⟩
      have : pos - n = (pos - (n + 1)) + 1 := by omega
      rw [this]; simpa using h2

theorem findPos_some (l : List (IPoint K)) (id pos : Nat) (cur : IPoint K) (h : findPos l id = some (pos, cur)) :
    l[pos]? = some cur ∧ cur.id = id ∧ cur ∈ l := by
  obtain ⟨_, h2, h3⟩ := findPosFrom_some id l 0 pos cur h
  simp only [Nat.sub_zero] at h2
  exact ⟨h2, h3, List.mem_of_getElem? h2⟩

theorem findPosFrom_isSome (id : Nat) (l : List (IPoint K)) (n : Nat) (h : ∃ ip ∈ l, ip.id = id) :
    (findPosFrom id n l).isSome := by
  induction l generalizing n with
  | nil => simp at h
  | cons ip rest ih =>
    unfold findPosFrom
    split_ifs with hid
    · simp
    · apply ih
      obtain ⟨jp, hj, hjid⟩ := h
      rcases List.mem_cons.mp hj with rfl | hj
      · exact absurd hjid hid
      · exact ⟨jp, hj, hjid⟩

theorem findPos_isSome (l : List (IPoint K)) (id : Nat) (h : ∃ ip ∈ l, ip.id = id) : (findPos l id).isSome :=
  findPosFrom_isSome id l 0 h

/-! ## one iteration of the walk, case by case -/

/-- the six ways an iteration of the traversal loop can go (a one-time unfolding of `walkStep`) -/
inductive StepCase (I : List (IPoint K)) (len1 len2 : Nat) (st : Walk K) : Prop where
  /-- `.find(..)` fails: the `unreachable!()` -/
  | unreach (id : Nat) (hs : st.status = .onInter id) (hf : findPos (onEdge I st.poly st.edge) id = none)
      (h : walkStep I len1 len2 st = .inr (st, .unreachable))
  /-- back on a visited intersection: the component is closed -/
  | close (id pos : Nat) (cur : IPoint K) (hs : st.status = .onInter id)
      (hf : findPos (onEdge I st.poly st.edge) id = some (pos, cur)) (hv : cur.id ∈ st.visited)
      (h : walkStep I len1 len2 st =
        .inr (Walk.mk st.poly st.edge st.status st.visited (st.trace ++ [Emit.fin]), .closed))
  /-- emit the intersection, jump to the next one on the same edge, switch polygon -/
  | interNext (id pos : Nat) (cur nxt : IPoint K) (hs : st.status = .onInter id)
      (hf : findPos (onEdge I st.poly st.edge) id = some (pos, cur)) (hv : cur.id ∉ st.visited)
      (hn : (onEdge I st.poly st.edge)[pos + 1]? = some nxt)
      (h : walkStep I len1 len2 st =
        .inl (Walk.mk ((st.poly + 1) % 2) (nxt.edge ((st.poly + 1) % 2)) (.onInter nxt.id) (cur.id :: st.visited)
               (st.trace ++ [Emit.inter cur])))
  /-- emit the intersection, it was the last one of the edge: go to the end vertex of the edge -/
  | interLast (id pos : Nat) (cur : IPoint K) (hs : st.status = .onInter id)
      (hf : findPos (onEdge I st.poly st.edge) id = some (pos, cur)) (hv : cur.id ∉ st.visited)
      (hn : (onEdge I st.poly st.edge)[pos + 1]? = none)
      (h : walkStep I len1 len2 st =
        .inl (Walk.mk st.poly ((st.edge + 1) % plen len1 len2 st.poly) .onVertex (cur.id :: st.visited)
               (st.trace ++ [Emit.inter cur])))
  /-- emit the vertex, jump on the first intersection of its edge, switch polygon -/
  | vtxFirst (first : IPoint K) (hs : st.status = .onVertex) (hh : (onEdge I st.poly st.edge).head? = some first)
      (h : walkStep I len1 len2 st =
        .inl (Walk.mk ((st.poly + 1) % 2) (first.edge ((st.poly + 1) % 2)) (.onInter first.id) st.visited
               (st.trace ++ [Emit.vtx st.poly st.edge])))
  /-- emit the vertex, no intersection on its edge: next vertex -/
  | vtxNext (hs : st.status = .onVertex) (hh : (onEdge I st.poly st.edge).head? = none)
      (h : walkStep I len1 len2 st =
        .inl (Walk.mk st.poly ((st.edge + 1) % plen len1 len2 st.poly) .onVertex st.visited
               (st.trace ++ [Emit.vtx st.poly st.edge])))

theorem walkStep_cases (I : List (IPoint K)) (len1 len2 : Nat) (st : Walk K) : StepCase I len1 len2 st := by
  cases hs : st.status with
  | onInter id =>
    cases hf : findPos (onEdge I st.poly st.edge) id with
    | none => exact .unreach id hs hf (by simp [walkStep, hs, hf])
    | some pc =>
      obtain ⟨pos, cur⟩ := pc
      by_cases hv : cur.id ∈ st.visited
      · exact .close id pos cur hs hf hv (by simp [walkStep, hs, hf, hv])
      · cases hn : (onEdge I st.poly st.edge)[pos + 1]? with
        | some nxt => exact .interNext id pos cur nxt hs hf hv hn (by simp [walkStep, hs, hf, hv, hn])
        | none => exact .interLast id pos cur hs hf hv hn (by simp [walkStep, hs, hf, hv, hn])
  | onVertex =>
    cases hh : (onEdge I st.poly st.edge).head? with
    | some first => exact .vtxFirst first hs hh (by simp [walkStep, hs, hh])
    | none => exact .vtxNext hs hh (by simp [walkStep, hs, hh])

/-- an invariant of every iteration is an invariant of the whole loop -/
theorem walk_inv (I : List (IPoint K)) (len1 len2 : Nat) (P : Walk K → Prop)
    (hl : ∀ st st', P st → walkStep I len1 len2 st = .inl st' → P st')
    (hr : ∀ st r, P st → walkStep I len1 len2 st = .inr r → P r.1) :
    ∀ (fuel : Nat) (st : Walk K), P st → P (walk I len1 len2 fuel st).1 := by
  intro fuel
  induction fuel with
  | zero => intro st h; simpa [walk] using h
  | succ n ih =>
    intro st h
    unfold walk
    cases hw : walkStep I len1 len2 st with
    | inl st' => exact ih st' (hl st st' h hw)
    | inr r => exact hr st r h hw

/-! ## bookkeeping: an intersection is emitted exactly when it becomes visited -/

/-- how many times the intersection point number `id` is handed to the `out` closure in the emission stream `tr` -/
def cntInter (id : Nat) (tr : List (Emit K)) : Nat :=
  tr.countP fun e => match e with
    | .inter ip => ip.id == id
    | _ => false

theorem cntInter_fin (id : Nat) (tr : List (Emit K)) : cntInter id (tr ++ [Emit.fin]) = cntInter id tr := by
  simp [cntInter, List.countP_append]

theorem cntInter_vtx (id p v : Nat) (tr : List (Emit K)) :
    cntInter id (tr ++ [Emit.vtx p v]) = cntInter id tr := by
  simp [cntInter, List.countP_append]

theorem cntInter_inter (id : Nat) (ip : IPoint K) (tr : List (Emit K)) :
    cntInter id (tr ++ [Emit.inter ip]) = cntInter id tr + (if ip.id = id then 1 else 0) := by
  simp [cntInter, List.countP_append, List.countP_cons]

/-- the bookkeeping invariant: every visited intersection has been emitted exactly once, every other one never -/
def CntInv (st : Walk K) : Prop := ∀ id, cntInter id st.trace = if id ∈ st.visited then 1 else 0

theorem cntInv_push (vis : List Nat) (tr : List (Emit K)) (cur : IPoint K)
    (h : ∀ id, cntInter id tr = if id ∈ vis then 1 else 0) (hv : cur.id ∉ vis) :
    ∀ id, cntInter id (tr ++ [Emit.inter cur]) = if id ∈ cur.id :: vis then 1 else 0 := by
  intro id
  rw [cntInter_inter, h id]
  by_cases e : cur.id = id
  · subst e; simp [hv]
  · have : id ≠ cur.id := fun h => e h.symm
    simp [e, this]

theorem walkStep_cntInv (I : List (IPoint K)) (len1 len2 : Nat) (st : Walk K) (h : CntInv st) :
    (∀ st', walkStep I len1 len2 st = .inl st' → CntInv st') ∧
    (∀ r, walkStep I len1 len2 st = .inr r → CntInv r.1) := by
  cases walkStep_cases I len1 len2 st with
  | unreach id hs hf hw => rw [hw]; exact ⟨fun _ e => (by cases e), fun r e => (by cases e; exact h)⟩
  | close id pos cur hs hf hv hw =>
    rw [hw]; refine ⟨fun _ e => (by cases e), fun r e => ?_⟩
    cases e; intro j; simp only [cntInter_fin]; exact h j
  | interNext id pos cur nxt hs hf hv hn hw =>
    rw [hw]; refine ⟨fun st' e => ?_, fun _ e => (by cases e)⟩
    cases e; exact cntInv_push _ _ cur h hv
  | interLast id pos cur hs hf hv hn hw =>
    rw [hw]; refine ⟨fun st' e => ?_, fun _ e => (by cases e)⟩
    cases e; exact cntInv_push _ _ cur h hv
  | vtxFirst first hs hh hw =>
    rw [hw]; refine ⟨fun st' e => ?_, fun _ e => (by cases e)⟩
    cases e; intro j; simp only [cntInter_vtx]; exact h j
  | vtxNext hs hh hw =>
    rw [hw]; refine ⟨fun st' e => ?_, fun _ e => (by cases e)⟩
    cases e; intro j; simp only [cntInter_vtx]; exact h j

theorem walk_cntInv (I : List (IPoint K)) (len1 len2 fuel : Nat) (st : Walk K) (h : CntInv st) :
    CntInv (walk I len1 len2 fuel st).1 :=
  walk_inv I len1 len2 CntInv (fun st st' h e => (walkStep_cntInv I len1 len2 st h).1 st' e)
    (fun st r h e => (walkStep_cntInv I len1 len2 st h).2 r e) fuel st h

/-- `visited` only grows -/
theorem walk_visited_mono (I : List (IPoint K)) (len1 len2 fuel : Nat) (st : Walk K) (id : Nat) (h : id ∈ st.visited) :
    id ∈ (walk I len1 len2 fuel st).1.visited := by
  refine walk_inv I len1 len2 (fun s => id ∈ s.visited) ?_ ?_ fuel st h
  · intro st st' h e
    cases walkStep_cases I len1 len2 st with
    | unreach id hs hf hw => rw [hw] at e; cases e
    | close id pos cur hs hf hv hw => rw [hw] at e; cases e
    | interNext id pos cur nxt hs hf hv hn hw => rw [hw] at e; cases e; exact List.mem_cons_of_mem _ h
    | interLast id pos cur hs hf hv hn hw => rw [hw] at e; cases e; exact List.mem_cons_of_mem _ h
    | vtxFirst first hs hh hw => rw [hw] at e; cases e; exact h
    | vtxNext hs hh hw => rw [hw] at e; cases e; exact h
  · intro st r h e
    cases walkStep_cases I len1 len2 st with
    | unreach id hs hf hw => rw [hw] at e; cases e; exact h
    | close id pos cur hs hf hv hw => rw [hw] at e; cases e; exact h
    | interNext id pos cur nxt hs hf hv hn hw => rw [hw] at e; cases e
    | interLast id pos cur hs hf hv hn hw => rw [hw] at e; cases e
    | vtxFirst first hs hh hw => rw [hw] at e; cases e
    | vtxNext hs hh hw => rw [hw] at e; cases e

/-- a traversal started on an intersection of the current edge that closes has visited that intersection -/
theorem walk_start_visited (I : List (IPoint K)) (len1 len2 fuel : Nat) (st : Walk K) (ip : IPoint K)
    (hs : st.status = .onInter ip.id) (hm : ip ∈ onEdge I st.poly st.edge)
    (hc : (walk I len1 len2 fuel st).2 = .closed) : ip.id ∈ (walk I len1 len2 fuel st).1.visited := by
  cases fuel with
  | zero => simp [walk] at hc
  | succ n =>
    have hsome := findPos_isSome (onEdge I st.poly st.edge) ip.id ⟨ip, hm, rfl⟩
    unfold walk at hc ⊢
    cases walkStep_cases I len1 len2 st with
    | unreach id hs' hf hw =>
      rw [hs] at hs'; cases hs'; rw [hf] at hsome; simp at hsome
    | close id pos cur hs' hf hv hw =>
      rw [hs] at hs'; cases hs'
      rw [hw]; obtain ⟨_, hid, _⟩ := findPos_some _ _ _ _ hf
      simpa [hid] using hv
    | interNext id pos cur nxt hs' hf hv hn hw =>
      rw [hs] at hs'; cases hs'
      rw [hw]; obtain ⟨_, hid, _⟩ := findPos_some _ _ _ _ hf
      exact walk_visited_mono I len1 len2 n _ _ (by simp [hid])
    | interLast id pos cur hs' hf hv hn hw =>
      rw [hs] at hs'; cases hs'
      rw [hw]; obtain ⟨_, hid, _⟩ := findPos_some _ _ _ _ hf
      exact walk_visited_mono I len1 len2 n _ _ (by simp [hid])
    | vtxFirst first hs' hh hw => rw [hs] at hs'; cases hs'
    | vtxNext hs' hh hw => rw [hs] at hs'; cases hs'

/-! ## the enumeration of the intersection points -/

theorem mem_numberFrom (n : Nat) (l : List (Nat × Nat × PolyLoc K × PolyLoc K)) (ip : IPoint K)
    (h : ip ∈ numberFrom n l) : (ip.e1, ip.e2, ip.loc1, ip.loc2) ∈ l ∧ n ≤ ip.id ∧ ip.id < n + l.length := by
  induction l generalizing n with
  | nil => simp [numberFrom] at h
  | cons q rest ih =>
    obtain ⟨i1, i2, l1, l2⟩ := q
    simp only [numberFrom, List.mem_cons] at h
    rcases h with rfl | h
    · simp
    · obtain ⟨h1, h2, h3⟩ := ih (n + 1) h
      exact ⟨List.mem_cons_of_mem _ h1, by omega, by simp only [List.length_cons]; omega⟩

theorem numberFrom_ids (n : Nat) (l : List (Nat × Nat × PolyLoc K × PolyLoc K)) :
    (numberFrom n l).map (·.id) = List.range' n l.length := by
  induction l generalizing n with
  | nil => simp [numberFrom]
  | cons q rest ih =>
    obtain ⟨i1, i2, l1, l2⟩ := q
    simp [numberFrom, ih (n + 1), List.range'_succ]

theorem of_mem_numberFrom (n : Nat) (l : List (Nat × Nat × PolyLoc K × PolyLoc K))
    (q : Nat × Nat × PolyLoc K × PolyLoc K) (h : q ∈ l) :
    ∃ ip ∈ numberFrom n l, (ip.e1, ip.e2, ip.loc1, ip.loc2) = q := by
  induction l generalizing n with
  | nil => simp at h
  | cons q' rest ih =>
    obtain ⟨i1, i2, l1, l2⟩ := q'
    rcases List.mem_cons.mp h with rfl | h
    · exact ⟨⟨n, i1, i2, l1, l2⟩, by simp [numberFrom], rfl⟩
    · obtain ⟨ip, hm, he⟩ := ih (n + 1) h
      exact ⟨ip, by simp [numberFrom, hm], he⟩

/-- the two end points of edge `e` of a polygon -/
def edgeA (poly : Array (V2 K)) (e : Nat) : V2 K := ppt poly e

def edgeB (poly : Array (V2 K)) (e : Nat) : V2 K := ppt poly ((e + 1) % poly.size)

/-! ## the outer loop: every intersection starts or has joined a component -/

theorem outerLoop_spec (poly1 poly2 : Array (V2 K)) (eps : K) (I : List (IPoint K)) :
    ∀ (starts : List (IPoint K)) (vis : List Nat) (tr : List (Emit K)),
      (∀ ip ∈ starts, ip ∈ I) → (∀ id, cntInter id tr = if id ∈ vis then 1 else 0) →
      (∀ id, cntInter id (outerLoop poly1 poly2 eps I starts (vis, tr)).1.2 =
              if id ∈ (outerLoop poly1 poly2 eps I starts (vis, tr)).1.1 then 1 else 0) ∧
      (∀ id ∈ vis, id ∈ (outerLoop poly1 poly2 eps I starts (vis, tr)).1.1) ∧
      ((outerLoop poly1 poly2 eps I starts (vis, tr)).2 = none →
          ∀ ip ∈ starts, ip.id ∈ (outerLoop poly1 poly2 eps I starts (vis, tr)).1.1) := by
  intro starts
  induction starts with
  | nil =>
    intro vis tr _ h
    simp only [outerLoop]
    exact ⟨h, fun _ hid => hid, fun _ jp hj => by simp at hj⟩
  | cons ip rest ih =>
    intro vis tr hsub hinv
    have hrest : ∀ jp ∈ rest, jp ∈ I := fun jp hj => hsub jp (List.mem_cons_of_mem _ hj)
    unfold outerLoop
    by_cases hv : ip.id ∈ vis
    · simp only [List.contains_iff_mem, hv, ↓reduceIte]
      obtain ⟨a, b, c⟩ := ih vis tr hrest hinv
      refine ⟨a, b, fun hn jp hj => ?_⟩
      rcases List.mem_cons.mp hj with rfl | hj
      · exact b _ hv
      · exact c hn jp hj
    · simp only [List.contains_iff_mem, hv, ↓reduceIte]
      set p := startPoly poly1 poly2 eps ip with hp
      set st0 : Walk K := ⟨p, ip.edge p, .onInter ip.id, vis, tr⟩ with hst0
      set w := walk I poly1.size poly2.size (poly1.size * poly2.size + 1) st0 with hw
      have hcnt : CntInv w.1 := walk_cntInv I _ _ _ st0 hinv
      have hmono : ∀ id ∈ vis, id ∈ w.1.visited := fun id hid => walk_visited_mono I _ _ _ st0 id hid
      cases hend : w.2 with
      | closed =>
        simp only
        have hin : ip.id ∈ w.1.visited :=
          walk_start_visited I _ _ _ st0 ip rfl ((mem_onEdge I p (ip.edge p) ip).2 ⟨hsub ip (List.mem_cons_self ..), rfl⟩) hend
        obtain ⟨a, b, c⟩ := ih w.1.visited w.1.trace hrest hcnt
        refine ⟨a, fun id hid => b id (hmono id hid), fun hn jp hj => ?_⟩
        rcases List.mem_cons.mp hj with rfl | hj
        · exact b _ hin
        · exact c hn jp hj
      | infiniteLoop => exact ⟨hcnt, hmono, fun hn => by simp at hn⟩
      | unreachable => exact ⟨hcnt, hmono, fun hn => by simp at hn⟩

/-! ## well-formed emission stream, and the `unreachable!()` is unreachable -/

/-- an emitted item refers to a registered intersection point or to an existing vertex -/
def GoodEmit (I : List (IPoint K)) (len1 len2 : Nat) : Emit K → Prop
  | .inter ip => ip ∈ I
  | .vtx p v => p < 2 ∧ v < plen len1 len2 p
  | .fin => True

/-- state invariant of the walk: the polygon index is 0 or 1; on an intersection, that intersection is in the list of the
current edge; on a vertex, the vertex exists; everything emitted so far is well formed -/
def WF (I : List (IPoint K)) (len1 len2 : Nat) (st : Walk K) : Prop :=
  st.poly < 2 ∧
  (match st.status with
   | .onInter id => ∃ ip ∈ onEdge I st.poly st.edge, ip.id = id
   | .onVertex => st.edge < plen len1 len2 st.poly) ∧
  ∀ e ∈ st.trace, GoodEmit I len1 len2 e

theorem plen_pos {len1 len2 p : Nat} (h1 : 0 < len1) (h2 : 0 < len2) : 0 < plen len1 len2 p := by
  unfold plen; split_ifs <;> assumption

theorem good_append {I : List (IPoint K)} {len1 len2 : Nat} {tr : List (Emit K)} {e : Emit K}
    (h : ∀ x ∈ tr, GoodEmit I len1 len2 x) (he : GoodEmit I len1 len2 e) : ∀ x ∈ tr ++ [e], GoodEmit I len1 len2 x := by
  intro x hx
  rcases List.mem_append.mp hx with hx | hx
  · exact h x hx
  · simp only [List.mem_singleton] at hx; subst hx; exact he

theorem onEdge_switch {I : List (IPoint K)} {p e : Nat} {ip : IPoint K} (h : ip ∈ onEdge I p e) (p' : Nat) :
    ∃ jp ∈ onEdge I p' (ip.edge p'), jp.id = ip.id :=
  ⟨ip, (mem_onEdge I p' _ ip).2 ⟨((mem_onEdge I p e ip).1 h).1, rfl⟩, rfl⟩

theorem walkStep_WF (I : List (IPoint K)) (len1 len2 : Nat) (h1 : 0 < len1) (h2 : 0 < len2) (st : Walk K)
    (h : WF I len1 len2 st) :
    (∀ st', walkStep I len1 len2 st = .inl st' → WF I len1 len2 st') ∧
    (∀ r, walkStep I len1 len2 st = .inr r → WF I len1 len2 r.1 ∧ r.2 ≠ .unreachable) := by
  obtain ⟨hp, hst, htr⟩ := h
  have hp' : (st.poly + 1) % 2 < 2 := Nat.mod_lt _ (by decide)
  cases walkStep_cases I len1 len2 st with
  | unreach id hs hf hw =>
    exfalso
    rw [hs] at hst
    have := findPos_isSome _ _ hst
    rw [hf] at this; simp at this
  | close id pos cur hs hf hv hw =>
    rw [hw]; refine ⟨fun _ e => (by cases e), fun r e => ?_⟩
    cases e
    refine ⟨⟨hp, ?_, good_append htr trivial⟩, by simp⟩
    simpa using hst
  | interNext id pos cur nxt hs hf hv hn hw =>
    rw [hw]; refine ⟨fun st' e => ?_, fun _ e => (by cases e)⟩
    cases e
    obtain ⟨_, _, hcur⟩ := findPos_some _ _ _ _ hf
    refine ⟨hp', onEdge_switch (List.mem_of_getElem? hn) _, good_append htr ?_⟩
    exact ((mem_onEdge I _ _ cur).1 hcur).1
  | interLast id pos cur hs hf hv hn hw =>
    rw [hw]; refine ⟨fun st' e => ?_, fun _ e => (by cases e)⟩
    cases e
    obtain ⟨_, _, hcur⟩ := findPos_some _ _ _ _ hf
    refine ⟨hp, Nat.mod_lt _ (plen_pos h1 h2), good_append htr ?_⟩
    exact ((mem_onEdge I _ _ cur).1 hcur).1
  | vtxFirst first hs hh hw =>
    rw [hw]; refine ⟨fun st' e => ?_, fun _ e => (by cases e)⟩
    cases e
    rw [hs] at hst
    refine ⟨hp', onEdge_switch (List.mem_of_mem_head? hh) _, good_append htr ⟨hp, hst⟩⟩
  | vtxNext hs hh hw =>
    rw [hw]; refine ⟨fun st' e => ?_, fun _ e => (by cases e)⟩
    cases e
    rw [hs] at hst
    exact ⟨hp, Nat.mod_lt _ (plen_pos h1 h2), good_append htr ⟨hp, hst⟩⟩

theorem walk_WF (I : List (IPoint K)) (len1 len2 : Nat) (h1 : 0 < len1) (h2 : 0 < len2) :
    ∀ (fuel : Nat) (st : Walk K), WF I len1 len2 st →
      WF I len1 len2 (walk I len1 len2 fuel st).1 ∧ (walk I len1 len2 fuel st).2 ≠ .unreachable := by
  intro fuel
  induction fuel with
  | zero => intro st h; simp [walk, h]
  | succ n ih =>
    intro st h
    unfold walk
    cases hw : walkStep I len1 len2 st with
    | inl st' => exact ih st' ((walkStep_WF I len1 len2 h1 h2 st h).1 st' hw)
    | inr r => exact (walkStep_WF I len1 len2 h1 h2 st h).2 r hw

theorem startPoly_lt (poly1 poly2 : Array (V2 K)) (eps : K) (ip : IPoint K) : startPoly poly1 poly2 eps ip < 2 := by
  unfold startPoly
  dsimp only
  split <;> try decide
  split <;> decide

theorem outerLoop_WF (poly1 poly2 : Array (V2 K)) (eps : K) (I : List (IPoint K))
    (hpos : I ≠ [] → 0 < poly1.size ∧ 0 < poly2.size) :
    ∀ (starts : List (IPoint K)) (vis : List Nat) (tr : List (Emit K)),
      (∀ ip ∈ starts, ip ∈ I) → (∀ e ∈ tr, GoodEmit I poly1.size poly2.size e) →
      (∀ e ∈ (outerLoop poly1 poly2 eps I starts (vis, tr)).1.2, GoodEmit I poly1.size poly2.size e) ∧
      (outerLoop poly1 poly2 eps I starts (vis, tr)).2 ≠ some .unreachable := by
  intro starts
  induction starts with
  | nil => intro vis tr _ h; simp only [outerLoop]; exact ⟨h, by simp⟩
  | cons ip rest ih =>
    intro vis tr hsub hgood
    have hrest : ∀ jp ∈ rest, jp ∈ I := fun jp hj => hsub jp (List.mem_cons_of_mem _ hj)
    have hipI : ip ∈ I := hsub ip (List.mem_cons_self ..)
    obtain ⟨h1, h2⟩ := hpos (List.ne_nil_of_mem hipI)
    unfold outerLoop
    by_cases hv : ip.id ∈ vis
    · simp only [List.contains_iff_mem, hv, ↓reduceIte]
      exact ih vis tr hrest hgood
    · simp only [List.contains_iff_mem, hv, ↓reduceIte]
      set p := startPoly poly1 poly2 eps ip with hp
      set st0 : Walk K := ⟨p, ip.edge p, .onInter ip.id, vis, tr⟩ with hst0
      have hwf0 : WF I poly1.size poly2.size st0 :=
        ⟨startPoly_lt poly1 poly2 eps ip, ⟨ip, (mem_onEdge I p (ip.edge p) ip).2 ⟨hipI, rfl⟩, rfl⟩, hgood⟩
      obtain ⟨hwf, hne⟩ := walk_WF I _ _ h1 h2 (poly1.size * poly2.size + 1) st0 hwf0
      set w := walk I poly1.size poly2.size (poly1.size * poly2.size + 1) st0 with hw
      cases hend : w.2 with
      | closed => simp only; exact ih w.1.visited w.1.trace hrest hwf.2.2
      | infiniteLoop => exact ⟨hwf.2.2, by simp⟩
      | unreachable => exact absurd hend hne

theorem outerLoop_ne_closed (poly1 poly2 : Array (V2 K)) (eps : K) (I : List (IPoint K)) :
    ∀ (st : List (IPoint K)) (s : List Nat × List (Emit K)), (outerLoop poly1 poly2 eps I st s).2 ≠ some .closed := by
  intro st
  induction st with
  | nil => intro s; simp [outerLoop]
  | cons ip rest ih =>
    intro s
    obtain ⟨vis, tr⟩ := s
    unfold outerLoop
    split_ifs
    · exact ih _
    · dsimp only
      split
      · exact ih _
      · rename_i e' hne'
        simp only [ne_eq, Option.some.injEq]
        intro hc
        exact hne' (by rw [hc])

end graph
end C15
