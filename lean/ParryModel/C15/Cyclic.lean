import ParryModel.Field
import ParryModel.C15.Model
import Mathlib.Data.List.Rotate
import Mathlib.Algebra.BigOperators.Group.List.Basic
/-! Cyclic-list toolkit: `polyEdges` under rotation / map, path decomposition, cyclic sums. Core + Mathlib list lemmas only. -/
namespace C15
open Model Model.C15

section lists
variable {α β : Type}

theorem polyEdges_eq_zip_rotate (l : List α) : polyEdges l = l.zip (l.rotate 1) := by
  cases l with
  | nil => simp [polyEdges]
  | cons p ps => simp [polyEdges, List.rotate_cons_succ]

theorem polyEdges_rotate (l : List α) (k : Nat) : polyEdges (l.rotate k) = (polyEdges l).rotate k := by
  rw [polyEdges_eq_zip_rotate, polyEdges_eq_zip_rotate, List.rotate_rotate, Nat.add_comm, ← List.rotate_rotate]
  simp only [List.zip]
  rw [List.zipWith_rotate_distrib]
  simp

theorem polyEdges_map (f : α → β) (l : List α) : polyEdges (l.map f) = (polyEdges l).map (Prod.map f f) := by
  rw [polyEdges_eq_zip_rotate, polyEdges_eq_zip_rotate, ← List.map_rotate, List.zip_map]

theorem length_polyEdges (l : List α) : (polyEdges l).length = l.length := by
  rw [polyEdges_eq_zip_rotate]; simp

/-- consecutive pairs of an open path -/
def pathEdges (l : List α) : List (α × α) := l.zip l.tail

theorem zip_tail_append (l : List α) (hl : l ≠ []) (x : α) :
    l.zip (l.tail ++ [x]) = pathEdges l ++ [(l.getLast hl, x)] := by
  induction l with
  | nil => exact absurd rfl hl
  | cons a t ih =>
    cases t with
    | nil => simp [pathEdges]
    | cons b t' =>
      have := ih (by simp)
      simp only [List.tail_cons] at this ⊢
      simp only [pathEdges, List.tail_cons] at this ⊢
      rw [List.cons_append, List.zip_cons_cons, this]
      simp

/-- closed cycle = open path + closing edge -/
theorem polyEdges_eq_path (l : List α) (hl : l ≠ []) :
    polyEdges l = pathEdges l ++ [(l.getLast hl, l.head hl)] := by
  cases l with
  | nil => exact absurd rfl hl
  | cons p ps =>
    simp only [polyEdges]
    have := zip_tail_append (p :: ps) (by simp) p
    simpa using this

theorem pathEdges_cons_cons (a b : α) (t : List α) : pathEdges (a :: b :: t) = (a, b) :: pathEdges (b :: t) := by
  simp [pathEdges]

theorem pathEdges_append (l₁ l₂ : List α) (h1 : l₁ ≠ []) (h2 : l₂ ≠ []) :
    pathEdges (l₁ ++ l₂) = pathEdges l₁ ++ (l₁.getLast h1, l₂.head h2) :: pathEdges l₂ := by
  induction l₁ with
  | nil => exact absurd rfl h1
  | cons a t ih =>
    cases t with
    | nil =>
      cases l₂ with
      | nil => exact absurd rfl h2
      | cons b t2 => simp [pathEdges]
    | cons b t' =>
      have := ih (by simp)
      rw [List.cons_append, List.cons_append, pathEdges_cons_cons, ← List.cons_append, this]
      simp [pathEdges_cons_cons]
end lists

section sums
variable {K : Type} [Field K] {α : Type}

/-- twice the signed area of the triangle `(a, b, c)`: `(b - a) × (c - a)`; positive = counter-clockwise -/
def area2 (a b c : V2 K) : K := (b.x - a.x) * (c.y - a.y) - (b.y - a.y) * (c.x - a.x)

/-- `a × b` -/
def cross (a b : V2 K) : K := a.x * b.y - a.y * b.x

/-- Σ over directed edges of `f u × f v` -/
def edgeSum (f : α → V2 K) (es : List (α × α)) : K := (es.map fun e => cross (f e.1) (f e.2)).sum

/-- twice the signed area of a closed polygon (shoelace formula) -/
def shoelace2 (poly : List (V2 K)) : K := edgeSum id (polyEdges poly)

theorem edgeSum_append (f : α → V2 K) (l₁ l₂ : List (α × α)) :
    edgeSum f (l₁ ++ l₂) = edgeSum f l₁ + edgeSum f l₂ := by simp [edgeSum]

theorem edgeSum_cons (f : α → V2 K) (e : α × α) (l : List (α × α)) :
    edgeSum f (e :: l) = cross (f e.1) (f e.2) + edgeSum f l := by simp [edgeSum]

theorem edgeSum_nil (f : α → V2 K) : edgeSum f ([] : List (α × α)) = 0 := by simp [edgeSum]

theorem edgeSum_perm (f : α → V2 K) {l₁ l₂ : List (α × α)} (h : l₁.Perm l₂) : edgeSum f l₁ = edgeSum f l₂ := by
  unfold edgeSum; exact (h.map _).sum_eq

theorem edgeSum_rotate (f : α → V2 K) (l : List α) (k : Nat) :
    edgeSum f (polyEdges (l.rotate k)) = edgeSum f (polyEdges l) := by
  rw [polyEdges_rotate]; exact edgeSum_perm f (List.rotate_perm _ _)

theorem edgeSum_map (f : α → V2 K) (l : List α) :
    edgeSum id (polyEdges (l.map f)) = edgeSum f (polyEdges l) := by
  rw [polyEdges_map]; simp [edgeSum, Function.comp_def]

theorem shoelace2_rotate (poly : List (V2 K)) (k : Nat) : shoelace2 (poly.rotate k) = shoelace2 poly :=
  edgeSum_rotate id poly k

/-- clipping the head of a cycle: `[e, w, …, u]` → `[w, …, u]` removes exactly the triangle `(u, e, w)` -/
theorem edgeSum_clip (f : α → V2 K) (e : α) (rest : List α) (h : rest ≠ []) :
    edgeSum f (polyEdges (e :: rest)) =
      edgeSum f (polyEdges rest) + area2 (f (rest.getLast h)) (f e) (f (rest.head h)) := by
  have h1 : polyEdges (e :: rest) = (e, rest.head h) :: (pathEdges rest ++ [(rest.getLast h, e)]) := by
    have := zip_tail_append rest h e
    cases rest with
    | nil => exact absurd rfl h
    | cons r rs =>
      simp only [polyEdges, List.tail_cons] at this ⊢
      rw [List.cons_append, List.zip_cons_cons, this]; simp
  rw [h1, polyEdges_eq_path rest h, edgeSum_cons, edgeSum_append, edgeSum_append, edgeSum_cons, edgeSum_cons,
    edgeSum_nil]
  simp only [cross, area2]; ring

/-- a 3-cycle `[i, w, u]` is the triangle `(u, i, w)` -/
theorem edgeSum_triangle (f : α → V2 K) (i w u : α) :
    edgeSum f (polyEdges [i, w, u]) = area2 (f u) (f i) (f w) := by
  simp only [polyEdges, List.cons_append, List.nil_append, List.zip_cons_cons, List.zip_nil_right, edgeSum,
    List.map_cons, List.map_nil, List.sum_cons, List.sum_nil, cross, area2]
  ring
end sums
end C15
