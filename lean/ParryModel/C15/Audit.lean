import ParryModel.C15.Theorems
#print axioms C15.orientation2d_spec
#print axioms C15.segDenom_eq
#print axioms C15.segments_nonparallel
#print axioms C15.pinned_onvertex_rule_refuted
#print axioms C15.edgePerp_eq
#print axioms C15.point_in_convex_poly2d_iff
#print axioms C15.point_in_poly2d_iff
#print axioms C15.corner_direction_spec
#print axioms C15.is_point_in_triangle_iff
#print axioms C15.sum_area2_edges
#print axioms C15.point_in_convex_poly2d_ccw
#print axioms C15.crossingNumber_rotate
#print axioms C15.point_in_poly2d_rotate
#print axioms C15.polyEdges_reverse_perm
#print axioms C15.crosses_symm
#print axioms C15.crossingNumber_reverse
#print axioms C15.point_in_poly2d_reverse
