import ParryModel.C15.Theorems
#print axioms C15.orientation2d_spec
