import ParryModel.Field
import ParryModel.C15.Model
/-!
# C15, convex `convex_polygons_intersection_with_tolerances`: the O'Rourke advance loop, the containment fall-backs,
and the accumulator of `polygons_intersection_points`

* `cvxLoop_fuel_sufficient` — **termination within the cap**: the `while` loop of the real code leaves by its own
  condition / a `return` after at most `4 (len1 + len2)` iterations (the model's fuel `4 (len1 + len2) + 4` is never the
  reason the loop stops): every scalar type, every input, every tolerance.
* `cvx_items_wellformed` — every pair handed to `out` by the loop is an intersection of an **existing edge** of `poly1`
  with an existing edge of `poly2` reported by `segments_intersection2d` (a `Point`, or one of the two ends of a
  `Segment`), or an existing vertex of `poly1` / `poly2`.
* (`Theorems.lean`: `cvx_items_on_both_boundaries_partial`, `onSeg_in_convex`, `convex_fallback_sound` — the geometric readings.)
* `containScan_iff`, `convex_fallback_sound` — the O(n²) containment test is `true` exactly when no two
  (edge, point) orientations are opposite; then every vertex of the emitted polygon is on the closed inner side
  (dead-band `eps`) of every edge of the other polygon.
* `splitComponents_runs` — the accumulator of `polygons_intersection_points` (`mem::take`): the result is exactly the list
  of the non-empty maximal marker-free runs of the emission stream, each run once.
-/
namespace C15
open Model Model.C15
set_option linter.unusedSectionVars false

section cvx
variable {K : Type} [Num K]

/-! ## termination of the advance loop -/

/-- potential of the loop state: number of iterations still possible -/
def cvxMu (len1 len2 : Nat) (st : CvxState K) : Nat :=
  (bif st.firstPointFound then 0 else 2 * len1 + 2 * len2) + (2 * len1 - st.nsteps1) + (2 * len2 - st.nsteps2)

private theorem cvxInter_mu (poly1 poly2 : Array (V2 K)) (eps : K) (a1 b1 a2 b2 : Nat) (st : CvxState K)
    (len1 len2 : Nat) :
    cvxMu len1 len2 (cvxInter poly1 poly2 eps a1 b1 a2 b2 st).1 ≤ cvxMu len1 len2 st ∧
    (cvxInter poly1 poly2 eps a1 b1 a2 b2 st).1.nsteps1 ≤ st.nsteps1 ∧
    (cvxInter poly1 poly2 eps a1 b1 a2 b2 st).1.nsteps2 ≤ st.nsteps2 := by
  unfold cvxInter
  simp only
  split
  · split_ifs <;> simp_all [cvxMu] <;> omega
  · split_ifs <;> simp [cvxMu]
  · simp [cvxMu]

private theorem mu_adv1 (len1 len2 : Nat) (st : CvxState K) (h : st.nsteps1 < 2 * len1) :
    cvxMu len1 len2 (cvxAdv1 len1 st) < cvxMu len1 len2 st := by
  simp only [cvxMu, cvxAdv1]; omega

private theorem mu_adv2 (len1 len2 : Nat) (st : CvxState K) (h : st.nsteps2 < 2 * len2) :
    cvxMu len1 len2 (cvxAdv2 len2 st) < cvxMu len1 len2 st := by
  simp only [cvxMu, cvxAdv2]; omega

private theorem emit1_fields (b : Nat) (st : CvxState K) :
    (cvxEmit1 b st).nsteps1 = st.nsteps1 ∧ (cvxEmit1 b st).nsteps2 = st.nsteps2 ∧
    (cvxEmit1 b st).firstPointFound = st.firstPointFound ∧ (cvxEmit1 b st).i1 = st.i1 ∧ (cvxEmit1 b st).i2 = st.i2 := by
  unfold cvxEmit1; split_ifs <;> simp

private theorem emit2_fields (b : Nat) (st : CvxState K) :
    (cvxEmit2 b st).nsteps1 = st.nsteps1 ∧ (cvxEmit2 b st).nsteps2 = st.nsteps2 ∧
    (cvxEmit2 b st).firstPointFound = st.firstPointFound ∧ (cvxEmit2 b st).i1 = st.i1 ∧ (cvxEmit2 b st).i2 = st.i2 := by
  unfold cvxEmit2; split_ifs <;> simp

private theorem mu_emit1 (len1 len2 b : Nat) (st : CvxState K) :
    cvxMu len1 len2 (cvxEmit1 b st) = cvxMu len1 len2 st := by
  obtain ⟨h1, h2, h3, _⟩ := emit1_fields b st
  simp only [cvxMu, h1, h2, h3]

private theorem mu_emit2 (len1 len2 b : Nat) (st : CvxState K) :
    cvxMu len1 len2 (cvxEmit2 b st) = cvxMu len1 len2 st := by
  obtain ⟨h1, h2, h3, _⟩ := emit2_fields b st
  simp only [cvxMu, h1, h2, h3]

private theorem cvxCond_true (len1 len2 : Nat) (st : CvxState K) (h : cvxCond len1 len2 st = true) :
    st.nsteps1 < 2 * len1 ∧ st.nsteps2 < 2 * len2 := by
  simp only [cvxCond, Bool.and_eq_true, Bool.or_eq_true, decide_eq_true_eq] at h
  exact ⟨h.1.2, h.2⟩

/-- every iteration that does not leave the loop decreases the potential -/
theorem cvxStep_decreases (poly1 poly2 : Array (V2 K)) (eps : K) (rev1 rev2 : Bool) (st st' : CvxState K)
    (h : cvxStep poly1 poly2 eps rev1 rev2 st = .inl st') :
    cvxMu poly1.size poly2.size st' < cvxMu poly1.size poly2.size st := by
  unfold cvxStep at h
  simp only at h
  split at h
  · cases h
  · rename_i hc
    obtain ⟨hc1, hc2⟩ := cvxCond_true _ _ _ (by simpa using hc)
    obtain ⟨r, hr⟩ : ∃ r, cvxInter poly1 poly2 eps (cvxEdge rev1 poly1.size st.i1).1 (cvxEdge rev1 poly1.size st.i1).2
      (cvxEdge rev2 poly2.size st.i2).1 (cvxEdge rev2 poly2.size st.i2).2 st = r := ⟨_, rfl⟩
    rw [hr] at h
    obtain ⟨hm, hn1, hn2⟩ := cvxInter_mu poly1 poly2 eps (cvxEdge rev1 poly1.size st.i1).1 (cvxEdge rev1 poly1.size st.i1).2
      (cvxEdge rev2 poly2.size st.i2).1 (cvxEdge rev2 poly2.size st.i2).2 st poly1.size poly2.size
    rw [hr] at hm hn1 hn2
    have k1 : r.1.nsteps1 < 2 * poly1.size := by omega
    have k2 : r.1.nsteps2 < 2 * poly2.size := by omega
    have A1 := mu_adv1 poly1.size poly2.size r.1 k1
    have A2 := mu_adv2 poly1.size poly2.size r.1 k2
    have E1 := fun b => emit1_fields b r.1
    have E2 := fun b => emit2_fields b r.1
    split_ifs at h <;> cases h
    all_goals first
      | omega
      | (refine lt_of_lt_of_le (mu_adv1 _ _ _ (by rw [(E1 _).1]; exact k1)) ?_; rw [mu_emit1]; exact hm)
      | (refine lt_of_lt_of_le (mu_adv2 _ _ _ (by rw [(E2 _).2.1]; exact k2)) ?_; rw [mu_emit2]; exact hm)

private theorem cvxStep_stop (poly1 poly2 : Array (V2 K)) (eps : K) (rev1 rev2 : Bool) (st : CvxState K)
    (h : cvxMu poly1.size poly2.size st = 0) : cvxStep poly1 poly2 eps rev1 rev2 st = .inr (st, false) := by
  have hc : cvxCond poly1.size poly2.size st = false := by
    simp only [cvxMu] at h
    simp only [cvxCond, Bool.and_eq_false_imp, Bool.and_eq_true, Bool.or_eq_true, decide_eq_true_eq,
      decide_eq_false_iff_not]
    intro h1; omega
  unfold cvxStep
  simp [hc]

/-- if the potential fits in the fuel, more fuel changes nothing: the loop never stops *because of* the fuel -/
theorem cvxLoop_fuel_mono (poly1 poly2 : Array (V2 K)) (eps : K) (rev1 rev2 : Bool) :
    ∀ (fuel : Nat) (st : CvxState K), cvxMu poly1.size poly2.size st ≤ fuel → ∀ k,
      cvxLoop poly1 poly2 eps rev1 rev2 (fuel + k) st = cvxLoop poly1 poly2 eps rev1 rev2 fuel st
  | 0, st, h, k => by
    cases k with
    | zero => rfl
    | succ k =>
      rw [show 0 + (k + 1) = k + 1 by omega]
      simp only [cvxLoop]
      rw [cvxStep_stop poly1 poly2 eps rev1 rev2 st (by omega)]
  | fuel + 1, st, h, k => by
    rw [show fuel + 1 + k = (fuel + k) + 1 by omega]
    simp only [cvxLoop]
    cases hs : cvxStep poly1 poly2 eps rev1 rev2 st with
    | inl st' =>
      simp only
      have := cvxStep_decreases poly1 poly2 eps rev1 rev2 st st' hs
      exact cvxLoop_fuel_mono poly1 poly2 eps rev1 rev2 fuel st' (by omega) k
    | inr r => rfl

/-- **termination of the O'Rourke advance loop within the cap** (every scalar type — also `Float` —, every input, every
tolerance, both orientations).  Started from the initial state of `convex_polygons_intersection_with_tolerances`
(`i1 = i2 = nsteps1 = nsteps2 = 0`, `inflag = Unknown`, `first_point_found = false`) the `while` loop leaves through its own
condition or a `return` after at most `4 (len1 + len2)` iterations: any larger fuel gives the same final state, in
particular the model's `4 (len1 + len2) + 4`.  Reason: every iteration advances `nsteps1` or `nsteps2` by one, both are
bounded by `2 len` by the loop condition, and they are reset to `0` at most once (`first_point_found` flips only once). -/
theorem cvxLoop_fuel_sufficient (poly1 poly2 : Array (V2 K)) (eps : K) (rev1 rev2 : Bool) (fuel : Nat)
    (hf : 4 * (poly1.size + poly2.size) ≤ fuel) :
    cvxLoop poly1 poly2 eps rev1 rev2 fuel ⟨0, 0, 0, 0, .unknown, false, #[]⟩ =
      cvxLoop poly1 poly2 eps rev1 rev2 (4 * (poly1.size + poly2.size)) ⟨0, 0, 0, 0, .unknown, false, #[]⟩ := by
  obtain ⟨k, rfl⟩ := Nat.exists_eq_add_of_le hf
  exact cvxLoop_fuel_mono poly1 poly2 eps rev1 rev2 _ _ (by simp only [cvxMu, cond_false]; omega) k

/-! ## what the loop hands to `out` -/

/-- `(a, b)` is an edge of a `len`-gon, in one of the two directions -/
def IsPolyEdge (len a b : Nat) : Prop := a < len ∧ b < len ∧ (b = (a + 1) % len ∨ a = (b + 1) % len)

/-- what a pair handed to `out` by `convex_polygons_intersection` is -/
def CvxItemOK (poly1 poly2 : Array (V2 K)) (eps : K) (it : OutPair K) : Prop :=
  (∃ a1 b1 a2 b2 l1 l2, IsPolyEdge poly1.size a1 b1 ∧ IsPolyEdge poly2.size a2 b2 ∧
      it = (some (PolyLoc.ofSegLoc a1 b1 l1), some (PolyLoc.ofSegLoc a2 b2 l2)) ∧
      (segmentsIntersection2d (ppt poly1 a1) (ppt poly1 b1) (ppt poly2 a2) (ppt poly2 b2) eps = some (.point l1 l2) ∨
       (∃ s1 s2, segmentsIntersection2d (ppt poly1 a1) (ppt poly1 b1) (ppt poly2 a2) (ppt poly2 b2) eps
                   = some (.segment l1 l2 s1 s2)) ∨
       (∃ f1 f2, segmentsIntersection2d (ppt poly1 a1) (ppt poly1 b1) (ppt poly2 a2) (ppt poly2 b2) eps
                   = some (.segment f1 f2 l1 l2))))
  ∨ (∃ b, b < poly1.size ∧ it = (some (.onVertex b), none))
  ∨ (∃ b, b < poly2.size ∧ it = (none, some (.onVertex b)))

private theorem cvxEdge_ok (rev : Bool) (len i : Nat) (hi : i < len) :
    IsPolyEdge len (cvxEdge rev len i).1 (cvxEdge rev len i).2 := by
  unfold cvxEdge IsPolyEdge
  have hl : 0 < len := by omega
  cases rev
  · simp only [Bool.false_eq_true, if_false]
    refine ⟨Nat.mod_lt _ hl, hi, Or.inl ?_⟩
    rcases Nat.eq_zero_or_pos i with h0 | h0
    · subst h0
      rw [Nat.zero_add, Nat.mod_eq_of_lt (by omega : len - 1 < len), show len - 1 + 1 = len by omega, Nat.mod_self]
    · rw [show i + len - 1 = (i - 1) + len by omega, Nat.add_mod_right, Nat.mod_eq_of_lt (by omega : i - 1 < len),
        show i - 1 + 1 = i by omega, Nat.mod_eq_of_lt hi]
  · simp only [if_true]
    refine ⟨Nat.mod_lt _ hl, by omega, Or.inr ?_⟩
    rw [show len - i - 1 + 1 = len - i by omega]

/-- **how a clockwise input is handled**: walking a clockwise polygon backwards (`rev = true`) looks, at every advance
index `i`, at the same directed edge — the same two points — as walking the reversed (counter-clockwise) vertex list forwards.
So the orientation tests of the advance rule (`cross`, `a2_b2_b1`, `a1_b1_b2`, `segments_intersection2d`) receive identical
arguments for an input and for its reversal; only the vertex indices reported to `out` differ (`b ↦ len - 1 - b`).
(Building block of the orientation independence of the property; the loop-level statement is not proved — the
correspondence + oracle run every family in both orientations.) -/
theorem cvxEdge_reverse (poly : Array (V2 K)) (i : Nat) (hi : i < poly.size) :
    ppt poly (cvxEdge true poly.size i).1 = ppt poly.reverse (cvxEdge false poly.size i).1 ∧
    ppt poly (cvxEdge true poly.size i).2 = ppt poly.reverse (cvxEdge false poly.size i).2 := by
  have hl : 0 < poly.size := by omega
  unfold cvxEdge ppt
  simp only [if_true, Bool.false_eq_true, if_false]
  constructor
  · rcases Nat.eq_zero_or_pos i with h0 | h0
    · subst h0
      have e1 : (poly.size - 0) % poly.size = 0 := by simp
      have e2 : (0 + poly.size - 1) % poly.size = poly.size - 1 := by
        rw [Nat.zero_add]; exact Nat.mod_eq_of_lt (by omega)
      rw [e1, e2]
      simp [Array.getD, hl, Array.getElem_reverse]
    · have e1 : (poly.size - i) % poly.size = poly.size - i := Nat.mod_eq_of_lt (by omega)
      have e2 : (i + poly.size - 1) % poly.size = i - 1 := by
        rw [show i + poly.size - 1 = (i - 1) + poly.size by omega, Nat.add_mod_right]; exact Nat.mod_eq_of_lt (by omega)
      rw [e1, e2]
      have h1 : poly.size - i < poly.size := by omega
      have h2 : i - 1 < poly.size := by omega
      simp [Array.getD, h1, h2, Array.getElem_reverse]
      congr 1; omega
  · have h1 : poly.size - i - 1 < poly.size := by omega
    simp [Array.getD, h1, hi, Array.getElem_reverse]
    congr 1; omega

/-- loop invariant: the items emitted so far are well-formed and the two advance indices are in range -/
def CvxInv (poly1 poly2 : Array (V2 K)) (eps : K) (st : CvxState K) : Prop :=
  (∀ it ∈ st.out, CvxItemOK poly1 poly2 eps it) ∧ (0 < poly1.size → st.i1 < poly1.size) ∧
    (0 < poly2.size → st.i2 < poly2.size)

private theorem cvxInter_inv (poly1 poly2 : Array (V2 K)) (eps : K) (a1 b1 a2 b2 : Nat) (st : CvxState K)
    (he1 : IsPolyEdge poly1.size a1 b1) (he2 : IsPolyEdge poly2.size a2 b2) (h : CvxInv poly1 poly2 eps st) :
    CvxInv poly1 poly2 eps (cvxInter poly1 poly2 eps a1 b1 a2 b2 st).1 := by
  obtain ⟨ho, hi1, hi2⟩ := h
  unfold cvxInter
  simp only
  split
  · rename_i l1 l2 hseg
    have hnew : CvxItemOK poly1 poly2 eps (some (PolyLoc.ofSegLoc a1 b1 l1), some (PolyLoc.ofSegLoc a2 b2 l2)) :=
      Or.inl ⟨a1, b1, a2, b2, l1, l2, he1, he2, rfl, Or.inl hseg⟩
    have hall : ∀ it ∈ st.out.push (some (PolyLoc.ofSegLoc a1 b1 l1), some (PolyLoc.ofSegLoc a2 b2 l2)),
        CvxItemOK poly1 poly2 eps it := by
      intro it hit
      rcases Array.mem_push.mp hit with h | h
      · exact ho it h
      · rw [h]; exact hnew
    split_ifs <;> first | exact ⟨hall, hi1, hi2⟩ | exact ⟨ho, hi1, hi2⟩
  · rename_i f1 f2 s1 s2 hseg
    split_ifs
    · refine ⟨?_, hi1, hi2⟩
      intro it hit
      simp only at hit
      rcases Array.mem_push.mp hit with h | h
      · rcases Array.mem_push.mp h with h | h
        · exact ho it h
        · rw [h]; exact Or.inl ⟨a1, b1, a2, b2, f1, f2, he1, he2, rfl, Or.inr (Or.inl ⟨s1, s2, hseg⟩)⟩
      · rw [h]; exact Or.inl ⟨a1, b1, a2, b2, s1, s2, he1, he2, rfl, Or.inr (Or.inr ⟨f1, f2, hseg⟩)⟩
    · exact ⟨ho, hi1, hi2⟩
  · exact ⟨ho, hi1, hi2⟩

private theorem adv1_inv (poly1 poly2 : Array (V2 K)) (eps : K) (st : CvxState K) (h : CvxInv poly1 poly2 eps st) :
    CvxInv poly1 poly2 eps (cvxAdv1 poly1.size st) :=
  ⟨h.1, fun hl => Nat.mod_lt _ hl, h.2.2⟩

private theorem adv2_inv (poly1 poly2 : Array (V2 K)) (eps : K) (st : CvxState K) (h : CvxInv poly1 poly2 eps st) :
    CvxInv poly1 poly2 eps (cvxAdv2 poly2.size st) :=
  ⟨h.1, h.2.1, fun hl => Nat.mod_lt _ hl⟩

private theorem emit1_inv (poly1 poly2 : Array (V2 K)) (eps : K) (b : Nat) (hb : b < poly1.size) (st : CvxState K)
    (h : CvxInv poly1 poly2 eps st) : CvxInv poly1 poly2 eps (cvxEmit1 b st) := by
  unfold cvxEmit1
  split_ifs
  · refine ⟨?_, h.2.1, h.2.2⟩
    intro it hit
    rcases Array.mem_push.mp hit with h' | h'
    · exact h.1 it h'
    · rw [h']; exact Or.inr (Or.inl ⟨b, hb, rfl⟩)
  · exact h

private theorem emit2_inv (poly1 poly2 : Array (V2 K)) (eps : K) (b : Nat) (hb : b < poly2.size) (st : CvxState K)
    (h : CvxInv poly1 poly2 eps st) : CvxInv poly1 poly2 eps (cvxEmit2 b st) := by
  unfold cvxEmit2
  split_ifs
  · refine ⟨?_, h.2.1, h.2.2⟩
    intro it hit
    rcases Array.mem_push.mp hit with h' | h'
    · exact h.1 it h'
    · rw [h']; exact Or.inr (Or.inr ⟨b, hb, rfl⟩)
  · exact h

private theorem cvxStep_inv (poly1 poly2 : Array (V2 K)) (eps : K) (rev1 rev2 : Bool) (st : CvxState K)
    (h : CvxInv poly1 poly2 eps st) :
    match cvxStep poly1 poly2 eps rev1 rev2 st with
    | .inl st' => CvxInv poly1 poly2 eps st'
    | .inr r => CvxInv poly1 poly2 eps r.1 := by
  unfold cvxStep
  simp only
  split_ifs with hc
  · exact h
  all_goals
    obtain ⟨hc1, hc2⟩ := cvxCond_true _ _ _ (by simpa using hc)
    have he1 := cvxEdge_ok rev1 poly1.size st.i1 (h.2.1 (by omega))
    have he2 := cvxEdge_ok rev2 poly2.size st.i2 (h.2.2 (by omega))
    have hr := cvxInter_inv poly1 poly2 eps _ _ _ _ st he1 he2 h
    first
      | exact hr
      | exact adv1_inv _ _ _ _ (emit1_inv _ _ _ _ he1.2.1 _ hr)
      | exact adv2_inv _ _ _ _ (emit2_inv _ _ _ _ he2.2.1 _ hr)
      | exact adv1_inv _ _ _ _ hr
      | exact adv2_inv _ _ _ _ hr

private theorem cvxLoop_inv (poly1 poly2 : Array (V2 K)) (eps : K) (rev1 rev2 : Bool) :
    ∀ (fuel : Nat) (st : CvxState K), CvxInv poly1 poly2 eps st →
      CvxInv poly1 poly2 eps (cvxLoop poly1 poly2 eps rev1 rev2 fuel st).1
  | 0, st, h => h
  | fuel + 1, st, h => by
    have hs := cvxStep_inv poly1 poly2 eps rev1 rev2 st h
    simp only [cvxLoop]
    cases hx : cvxStep poly1 poly2 eps rev1 rev2 st with
    | inl st' => rw [hx] at hs; exact cvxLoop_inv poly1 poly2 eps rev1 rev2 fuel st' hs
    | inr r => rw [hx] at hs; exact hs

private theorem foldl_push_mem {α β : Type} (g : β → α) (l : List β) (out : Array α) (x : α) :
    x ∈ l.foldl (fun o b => o.push (g b)) out ↔ x ∈ out ∨ ∃ b ∈ l, x = g b := by
  induction l generalizing out with
  | nil => simp
  | cons b l ih =>
    simp only [List.foldl_cons, ih, Array.mem_push, List.mem_cons, exists_eq_or_imp]
    tauto

/-- **well-formed output of `convex_polygons_intersection_with_tolerances`** (every scalar type, every input, every
tolerance): every pair handed to `out` is
* `(Some(loc1), Some(loc2))` where `loc1`, `loc2` are the two locations of a `Point` answer — or of one of the two ends
  of a `Segment` answer — of `segments_intersection2d` on an **existing edge** of `poly1` and an existing edge of `poly2`
  (consecutive vertices, indices in range), or
* `(Some(OnVertex(b)), None)` with `b` an existing vertex of `poly1`, or `(None, Some(OnVertex(b)))` with `b` an existing
  vertex of `poly2` (from the advance rule or from the containment fall-backs).
No index is out of range (no panic on `poly[b]`). -/
theorem cvx_items_wellformed (poly1 poly2 : Array (V2 K)) (eps : K) :
    ∀ it ∈ convexPolygonsIntersection poly1 poly2 eps, CvxItemOK poly1 poly2 eps it := by
  intro it hit
  unfold convexPolygonsIntersection at hit
  simp only at hit
  have h0 : CvxInv poly1 poly2 eps (⟨0, 0, 0, 0, .unknown, false, #[]⟩ : CvxState K) :=
    ⟨by simp, fun h => h, fun h => h⟩
  have hinv := fun r1 r2 => cvxLoop_inv poly1 poly2 eps r1 r2 (4 * (poly1.size + poly2.size) + 4) _ h0
  generalize hL : cvxLoop poly1 poly2 eps _ _ _ _ = L at hit
  have hst : CvxInv poly1 poly2 eps L.1 := by rw [← hL]; exact hinv _ _
  split_ifs at hit
  all_goals first
    | exact hst.1 it hit
    | (rcases (foldl_push_mem _ _ _ _).mp hit with h | ⟨b, hb, rfl⟩
       · exact hst.1 it h
       · have := List.mem_range.mp hb
         first
           | exact Or.inr (Or.inr ⟨_, by omega, rfl⟩)
           | exact Or.inr (Or.inl ⟨_, by omega, rfl⟩))

/-! ## no crossing found: what reaches the containment fall-backs -/

/-- as long as no intersection point was accepted, nothing has been emitted and `inflag` is still `Unknown` -/
def CvxQuiet (st : CvxState K) : Prop := st.firstPointFound = false → st.inflag = .unknown ∧ st.out = #[]

private theorem cvxInter_quiet (poly1 poly2 : Array (V2 K)) (eps : K) (a1 b1 a2 b2 : Nat) (st : CvxState K)
    (h : CvxQuiet st) (hr : (cvxInter poly1 poly2 eps a1 b1 a2 b2 st).2 = false) :
    CvxQuiet (cvxInter poly1 poly2 eps a1 b1 a2 b2 st).1 := by
  unfold cvxInter at hr ⊢
  simp only at hr ⊢
  split
  · split_ifs with c1 c2 c3 c4 <;> first | exact h | (intro hf; simp_all [CvxQuiet])
  · split_ifs with c1
    · rename_i heq; rw [heq] at hr; simp [c1] at hr
    · exact h
  · exact h

private theorem quiet_adv1 (n : Nat) (s : CvxState K) (h : CvxQuiet s) : CvxQuiet (cvxAdv1 n s) := fun hf => h hf
private theorem quiet_adv2 (n : Nat) (s : CvxState K) (h : CvxQuiet s) : CvxQuiet (cvxAdv2 n s) := fun hf => h hf

private theorem quiet_emit1 (b : Nat) (s : CvxState K) (h : CvxQuiet s) : CvxQuiet (cvxEmit1 b s) := by
  intro hf
  unfold cvxEmit1 at hf ⊢
  split_ifs at hf ⊢ with c
  · have := h hf; rw [this.1] at c; cases c
  · exact h hf

private theorem quiet_emit2 (b : Nat) (s : CvxState K) (h : CvxQuiet s) : CvxQuiet (cvxEmit2 b s) := by
  intro hf
  unfold cvxEmit2 at hf ⊢
  split_ifs at hf ⊢ with c
  · have := h hf; rw [this.1] at c; cases c
  · exact h hf

private theorem cvxStep_quiet (poly1 poly2 : Array (V2 K)) (eps : K) (rev1 rev2 : Bool) (st : CvxState K)
    (h : CvxQuiet st) :
    match cvxStep poly1 poly2 eps rev1 rev2 st with
    | .inl st' => CvxQuiet st'
    | .inr r => r.2 = false → CvxQuiet r.1 := by
  unfold cvxStep
  simp only
  split_ifs with hc hr
  · exact fun _ => h
  · exact fun hf => absurd (hr.symm.trans hf) (by decide)
  all_goals
    have hq := cvxInter_quiet poly1 poly2 eps _ _ _ _ st h (by simpa using hr)
    try dsimp only
    first
      | exact fun hf => absurd hf (by decide)
      | exact quiet_adv1 _ _ hq
      | exact quiet_adv2 _ _ hq
      | exact quiet_adv1 _ _ (quiet_emit1 _ _ hq)
      | exact quiet_adv2 _ _ (quiet_emit2 _ _ hq)

private theorem cvxLoop_quiet (poly1 poly2 : Array (V2 K)) (eps : K) (rev1 rev2 : Bool) :
    ∀ (fuel : Nat) (st : CvxState K), CvxQuiet st →
      (cvxLoop poly1 poly2 eps rev1 rev2 fuel st).2 = false → CvxQuiet (cvxLoop poly1 poly2 eps rev1 rev2 fuel st).1
  | 0, st, h => fun _ => h
  | fuel + 1, st, h => by
    have hs := cvxStep_quiet poly1 poly2 eps rev1 rev2 st h
    simp only [cvxLoop]
    cases hx : cvxStep poly1 poly2 eps rev1 rev2 st with
    | inl st' => rw [hx] at hs; exact cvxLoop_quiet poly1 poly2 eps rev1 rev2 fuel st' hs
    | inr r => rw [hx] at hs; exact hs

/-- **the containment fall-backs** (every scalar type, every input, every tolerance).  When the advance loop ends without
a `return` and without having accepted an intersection point (`first_point_found = false`), **nothing has been emitted by
the loop**, and the output of `convex_polygons_intersection_with_tolerances` is exactly
* all vertices of `poly2`, each once, as `(None, Some(OnVertex(b)))` in input order (reversed for a clockwise `poly2`), when
  the scan `poly1`-edges × `poly2`-points succeeds,
* otherwise all vertices of `poly1`, each once, as `(Some(OnVertex(a)), None)`, when the symmetric scan succeeds
  (**only one** of the two: polygons enclosing each other are output once — the corrected behaviour),
* otherwise nothing.
With `containScan_iff` / `convex_fallback_sound`: the emitted polygon lies on one closed side of every edge line of the other. -/
theorem convex_no_crossing_output (poly1 poly2 : Array (V2 K)) (eps : K) :
    let rev1 := decide (2 < poly1.size) && decide (orientation2d (ppt poly1 0) (ppt poly1 1) (ppt poly1 2) eps = .cw)
    let rev2 := decide (2 < poly2.size) && decide (orientation2d (ppt poly2 0) (ppt poly2 1) (ppt poly2 2) eps = .cw)
    let L := cvxLoop poly1 poly2 eps rev1 rev2 (4 * (poly1.size + poly2.size) + 4) ⟨0, 0, 0, 0, .unknown, false, #[]⟩
    L.2 = false → L.1.firstPointFound = false →
      (convexPolygonsIntersection poly1 poly2 eps).toList =
        if containScan poly1 poly2 eps then
          (List.range poly2.size).map fun b => (none, some (.onVertex (if rev2 then poly2.size - b - 1 else b)))
        else if containScan poly2 poly1 eps then
          (List.range poly1.size).map fun a => (some (.onVertex (if rev1 then poly1.size - a - 1 else a)), none)
        else [] := by
  intro rev1 rev2 L hret hfpf
  have hq : CvxQuiet L.1 := cvxLoop_quiet poly1 poly2 eps rev1 rev2 _ _ (fun _ => ⟨rfl, rfl⟩) hret
  have hout : L.1.out = #[] := (hq hfpf).2
  unfold convexPolygonsIntersection
  simp only
  rw [if_neg (by intro h; exact absurd (h.symm.trans hret) (by decide)),
    if_neg (by intro h; exact absurd (h.symm.trans hfpf) (by decide))]
  have hout' : (cvxLoop poly1 poly2 eps rev1 rev2 (4 * (poly1.size + poly2.size) + 4)
      ⟨0, 0, 0, 0, .unknown, false, #[]⟩).1.out = #[] := hout
  split_ifs <;> simp [hout', rev1, rev2]

/-! ## the containment fall-backs -/

/-- invariant of the containment scan after the (edge, point) orientations `P` (skipped ones included):
`ok` ⇒ `orient` is the common non-degenerate orientation seen so far (or `Degenerate` if none);
`¬ ok` ⇒ two opposite orientations occurred -/
private def ScanInv (P : List TriOrient) (s : TriOrient × Bool) : Prop :=
  (s.2 = true → (s.1 = .degenerate ∧ .ccw ∉ P ∧ .cw ∉ P) ∨ (s.1 = .ccw ∧ .ccw ∈ P ∧ .cw ∉ P) ∨
      (s.1 = .cw ∧ .cw ∈ P ∧ .ccw ∉ P)) ∧
  (s.2 = false → .ccw ∈ P ∧ .cw ∈ P)

private theorem containInner_inv (u v : V2 K) (eps : K) :
    ∀ (ps : List (V2 K)) (P : List TriOrient) (s : TriOrient × Bool), ScanInv P s →
      ScanInv (P ++ ps.map fun p => orientation2d u v p eps) (containInner u v eps ps s)
  | [], P, s, h => by simpa [containInner] using h
  | p :: ps, P, (orient, ok), h => by
    have step : ∀ s', ScanInv (P ++ [orientation2d u v p eps]) s' →
        ScanInv (P ++ (p :: ps).map fun p => orientation2d u v p eps) (containInner u v eps ps s') := by
      intro s' hs'
      have := containInner_inv u v eps ps _ s' hs'
      simpa [List.append_assoc] using this
    have mono : ∀ o, o ∈ P ++ [orientation2d u v p eps] →
        o ∈ P ++ (p :: ps).map fun p => orientation2d u v p eps := by
      intro o ho; simp only [List.mem_append, List.mem_cons, List.map_cons] at ho ⊢; tauto
    unfold containInner
    simp only
    obtain ⟨h1, h2⟩ := h
    simp only at h1 h2
    generalize orientation2d u v p eps = o at *
    split_ifs with c1 c2
    · apply step
      subst c1
      cases ok
      · have := h2 rfl
        exact ⟨by simp, fun _ => by simp [this.1, this.2]⟩
      · rcases h1 rfl with h | h | h
        · refine ⟨fun _ => ?_, by simp⟩
          cases o <;> simp [h.2.1, h.2.2]
        · simp at h
        · simp at h
    · -- break: two opposite orientations
      refine ⟨by simp, fun _ => ?_⟩
      cases ok
      · have := h2 rfl
        exact ⟨mono _ (by simp [this.1]), mono _ (by simp [this.2])⟩
      · rcases h1 rfl with h | h | h
        · exact absurd h.1 c1
        · have ho : o = .cw := by cases o <;> simp_all
          exact ⟨mono _ (by simp [h.2.1]), mono _ (by simp [ho])⟩
        · have ho : o = .ccw := by cases o <;> simp_all
          exact ⟨mono _ (by simp [ho]), mono _ (by simp [h.2.1])⟩
    · apply step
      cases ok
      · have := h2 rfl
        exact ⟨by simp, fun _ => by simp [this.1, this.2]⟩
      · refine ⟨fun _ => ?_, by simp⟩
        rcases h1 rfl with h | h | h
        · exact absurd h.1 c1
        · have ho : o = .ccw ∨ o = .degenerate := by cases o <;> simp_all
          rcases ho with rfl | rfl <;> simp [h.1, h.2.1, h.2.2]
        · have ho : o = .cw ∨ o = .degenerate := by cases o <;> simp_all
          rcases ho with rfl | rfl <;> simp [h.1, h.2.1, h.2.2]

/-- the orientation of point `p` with respect to edge `a` (`(a - 1, a)`) of `polyA`, as the scan computes it -/
def scanOrient (polyA : Array (V2 K)) (eps : K) (a : Nat) (p : V2 K) : TriOrient :=
  orientation2d (ppt polyA ((a + polyA.size - 1) % polyA.size)) (ppt polyA a) p eps

private theorem containFold_inv (polyA polyB : Array (V2 K)) (eps : K) :
    ∀ (as : List Nat) (P : List TriOrient) (s : TriOrient × Bool), ScanInv P s →
      ScanInv (P ++ as.flatMap fun a => polyB.toList.map fun p => scanOrient polyA eps a p)
        (as.foldl (fun (acc : TriOrient × Bool) a =>
          containInner (ppt polyA ((a + polyA.size - 1) % polyA.size)) (ppt polyA a) eps polyB.toList acc) s)
  | [], P, s, h => by simpa using h
  | a :: as, P, s, h => by
    have h1 := containInner_inv (ppt polyA ((a + polyA.size - 1) % polyA.size)) (ppt polyA a) eps polyB.toList P s h
    have h2 := containFold_inv polyA polyB eps as _ _ h1
    simpa [List.append_assoc, scanOrient] using h2

/-- **the O(n²) containment test** (every scalar type, every input): `ok` is `true` at the end exactly when the
orientations of all (edge of `polyA`, point of `polyB`) pairs contain no two opposite ones — the `break` (which only leaves
the inner loop) and the "first non-degenerate orientation" bookkeeping do not lose a conflict and do not invent one. -/
theorem containScan_iff (polyA polyB : Array (V2 K)) (eps : K) :
    containScan polyA polyB eps = true ↔
      ¬ ((∃ a < polyA.size, ∃ p ∈ polyB.toList, scanOrient polyA eps a p = .ccw) ∧
         (∃ a < polyA.size, ∃ p ∈ polyB.toList, scanOrient polyA eps a p = .cw)) := by
  have h := containFold_inv polyA polyB eps (List.range polyA.size) [] (.degenerate, true)
    ⟨fun _ => Or.inl ⟨rfl, by simp, by simp⟩, by simp⟩
  have hm : ∀ o, o ∈ ([] ++ (List.range polyA.size).flatMap fun a => polyB.toList.map fun p => scanOrient polyA eps a p) ↔
      ∃ a < polyA.size, ∃ p ∈ polyB.toList, scanOrient polyA eps a p = o := by
    intro o
    simp only [List.nil_append, List.mem_flatMap, List.mem_range, List.mem_map]
  unfold containScan
  simp only
  generalize (List.range polyA.size).foldl _ _ = r at h ⊢
  obtain ⟨h1, h2⟩ := h
  rw [← hm, ← hm]
  cases hr : r.2
  · simp only [Bool.false_eq_true, false_iff, not_not]; exact h2 hr
  · simp only [true_iff]
    rcases h1 hr with h | h | h <;> tauto

end cvx

/-! ## the accumulator of `polygons_intersection_points` -/
section split
variable {K : Type} [Num K]

/-- the point pushed on `curr_poly` for an item (the `fin` marker pushes nothing) -/
def emitPt (poly1 poly2 : Array (V2 K)) : Emit K → V2 K
  | .inter ip => ip.loc1.toPoint poly1
  | .vtx p v => ppt (if p = 0 then poly1 else poly2) v
  | .fin => ⟨0, 0⟩

private theorem split_run (poly1 poly2 : Array (V2 K)) (r : List (Emit K)) (hr : ∀ e ∈ r, e ≠ Emit.fin)
    (res : List (List (V2 K))) (cur : List (V2 K)) :
    r.foldl (splitStep poly1 poly2) (res, cur) = (res, cur ++ r.map (emitPt poly1 poly2)) := by
  induction r generalizing cur with
  | nil => simp
  | cons e r ih =>
    have he := hr e (by simp)
    have ih' := fun cur => ih (fun e he => hr e (by simp [he])) cur
    cases e with
    | fin => exact absurd rfl he
    | inter ip => simp [List.foldl_cons, splitStep, ih', emitPt]
    | vtx p v => simp [List.foldl_cons, splitStep, ih', emitPt]

/-- **the `mem::take` accumulator** (every scalar type).  If the emission stream of `polygons_intersection` is the
concatenation of marker-free runs, each followed by the `(None, None)` marker, then `polygons_intersection_points` returns
exactly the list of the **non-empty** runs, each converted point by point, each **once** and containing only its own
points: after a component is pushed the accumulator is empty again (a variant pushing `curr_poly.clone()` without
resetting would prepend all earlier components to every later one — refuted by the `example` below). -/
theorem splitComponents_runs (poly1 poly2 : Array (V2 K)) (runs : List (List (Emit K)))
    (hr : ∀ r ∈ runs, ∀ e ∈ r, e ≠ Emit.fin) :
    splitComponents poly1 poly2 (runs.flatMap fun r => r ++ [Emit.fin]) =
      (runs.filter fun r => !r.isEmpty).map fun r => r.map (emitPt poly1 poly2) := by
  unfold splitComponents
  have key : ∀ (runs : List (List (Emit K))), (∀ r ∈ runs, ∀ e ∈ r, e ≠ Emit.fin) → ∀ res : List (List (V2 K)),
      (runs.flatMap fun r => r ++ [Emit.fin]).foldl (splitStep poly1 poly2) (res, []) =
        (res ++ (runs.filter fun r => !r.isEmpty).map fun r => r.map (emitPt poly1 poly2), []) := by
    intro runs
    induction runs with
    | nil => intro _ res; simp
    | cons r runs ih =>
      intro hr res
      have h1 := split_run poly1 poly2 r (hr r (by simp)) res []
      have ih' := ih (fun r' hr' => hr r' (by simp [hr']))
      simp only [List.flatMap_cons, List.foldl_append, h1, List.nil_append, List.foldl_cons, List.foldl_nil]
      cases r with
      | nil => simp [splitStep, ih']
      | cons e r => simp [splitStep, ih']
  rw [key runs hr []]
  simp

/-- the stream is empty or ends with the end-of-component marker -/
def EndsFin (tr : List (Emit K)) : Prop := tr = [] ∨ ∃ t, tr = t ++ [Emit.fin]

private theorem walkStep_closed (I : List (IPoint K)) (l1 l2 : Nat) (st : Walk K) (r : Walk K × WalkEnd)
    (h : walkStep I l1 l2 st = .inr r) (hc : r.2 = .closed) : ∃ t, r.1.trace = t ++ [Emit.fin] := by
  unfold walkStep at h
  simp only at h
  split at h
  · split at h
    · cases h; cases hc
    · split_ifs at h
      · cases h; exact ⟨_, rfl⟩
      · split at h <;> cases h
  · split at h <;> cases h

private theorem walk_closed (I : List (IPoint K)) (l1 l2 : Nat) :
    ∀ (fuel : Nat) (st : Walk K), (walk I l1 l2 fuel st).2 = .closed → ∃ t, (walk I l1 l2 fuel st).1.trace = t ++ [Emit.fin]
  | 0, st, h => by simp [walk] at h
  | fuel + 1, st, h => by
    simp only [walk] at h ⊢
    cases hs : walkStep I l1 l2 st with
    | inl st' => rw [hs] at h; exact walk_closed I l1 l2 fuel st' h
    | inr r => rw [hs] at h; exact walkStep_closed I l1 l2 st r hs h

private theorem outerLoop_endsFin (poly1 poly2 : Array (V2 K)) (eps : K) (I : List (IPoint K)) :
    ∀ (l : List (IPoint K)) (s : List Nat × List (Emit K)), EndsFin s.2 →
      (outerLoop poly1 poly2 eps I l s).2 = none → EndsFin (outerLoop poly1 poly2 eps I l s).1.2
  | [], s, h, _ => by simpa [outerLoop] using h
  | ip :: rest, (vis, tr), h, hn => by
    unfold outerLoop at hn ⊢
    split_ifs at hn ⊢ with hv
    · exact outerLoop_endsFin poly1 poly2 eps I rest _ h hn
    · simp only at hn ⊢
      split at hn
      · rename_i hcl
        exact outerLoop_endsFin poly1 poly2 eps I rest _ (Or.inr (walk_closed I _ _ _ _ hcl)) hn
      · simp at hn

/-- a stream that is empty or ends with the marker is a concatenation of marker-free runs, each followed by the marker -/
private theorem endsFin_runs : ∀ (n : Nat) (tr : List (Emit K)), tr.length ≤ n → EndsFin tr →
    ∃ runs : List (List (Emit K)), (∀ r ∈ runs, ∀ e ∈ r, e ≠ Emit.fin) ∧ tr = runs.flatMap fun r => r ++ [Emit.fin] := by
  intro n
  induction n with
  | zero =>
    intro tr hl _
    have : tr = [] := List.length_eq_zero_iff.mp (by omega)
    exact ⟨[], by simp, by simp [this]⟩
  | succ n ih =>
    intro tr hl h
    rcases h with rfl | ⟨t, ht⟩
    · exact ⟨[], by simp, by simp⟩
    · -- split at the first marker
      have hf : Emit.fin ∈ tr := by rw [ht]; simp
      obtain ⟨u, w, hs, hu⟩ := List.eq_append_cons_of_mem hf
      have hw : EndsFin w := by
        rcases List.eq_nil_or_concat w with rfl | ⟨L, b, rfl⟩
        · exact Or.inl rfl
        · right
          have e : (u ++ Emit.fin :: L) ++ [b] = t ++ [Emit.fin] := by
            rw [← ht, hs]; simp
          have := List.append_inj' e rfl
          exact ⟨L, by rw [List.singleton_inj.mp this.2, List.concat_eq_append]⟩
      obtain ⟨runs, hr, he⟩ := ih w (by rw [hs] at hl; simp at hl; omega) hw
      refine ⟨u :: runs, ?_, ?_⟩
      · intro r hr' e he'
        rcases List.mem_cons.mp hr' with rfl | h1
        · intro hc; exact hu (hc ▸ he')
        · exact hr r h1 e he'
      · rw [hs, List.flatMap_cons, ← he]; simp

/-- **each connected component is emitted once, as one polygon** (every scalar type, every iteration order of the hash map,
every input).  When `polygons_intersection` returns `Ok`, the stream handed to `out` is a concatenation of marker-free runs,
each closed by exactly one `(None, None)` marker — and `polygons_intersection_points` (the `mem::take` accumulator) returns
exactly the non-empty runs, each once, point by point.  With `components_all_visited` (every intersection point occurs in
the stream exactly once) no component is lost, repeated or merged with another. -/
theorem polygons_intersection_points_components (order : List Nat) (poly1 poly2 : Array (V2 K))
    (hok : (polygonsIntersectionOrd order poly1 poly2).status = .ok) :
    ∃ runs : List (List (Emit K)), (∀ r ∈ runs, ∀ e ∈ r, e ≠ Emit.fin) ∧
      (polygonsIntersectionOrd order poly1 poly2).trace = runs.flatMap (fun r => r ++ [Emit.fin]) ∧
      splitComponents poly1 poly2 (polygonsIntersectionOrd order poly1 poly2).trace =
        (runs.filter fun r => !r.isEmpty).map fun r => r.map (emitPt poly1 poly2) := by
  have hE : EndsFin (polygonsIntersectionOrd order poly1 poly2).trace := by
    unfold polygonsIntersectionOrd at hok ⊢
    simp only at hok ⊢
    split at hok
    · simp at hok
    · simp at hok
    · rename_i hnone
      have h0 := outerLoop_endsFin poly1 poly2 defaultCollinearityEps (intersections poly1 poly2 defaultCollinearityEps)
        _ ([], []) (Or.inl rfl) hnone
      split_ifs at hok ⊢ <;> first
        | exact h0
        | exact Or.inr ⟨_, rfl⟩
  obtain ⟨runs, hr, he⟩ := endsFin_runs _ _ (le_refl _) hE
  exact ⟨runs, hr, he, by rw [he]; exact splitComponents_runs poly1 poly2 runs hr⟩

end split

/-! ## kernel-evaluated instances: non-vacuity, and two seeded variants refuted

The theorems of this file hold for every `Num`; `intNum` is a toy scalar type (`Int`, truncating division) on which the
kernel can evaluate the model by `decide`. -/
section instances

/-- a computable toy scalar type for kernel-evaluated examples -/
@[reducible] def intNum : Num Int where
  sqrt x := x
  ofRat q := q.num / q.den
  decLt a b := inferInstanceAs (Decidable (a < b))
  decLe a b := inferInstanceAs (Decidable (a ≤ b))

private def triSmall : Array (V2 Int) := #[⟨0,0⟩, ⟨4,0⟩, ⟨0,4⟩]
private def triFar : Array (V2 Int) := #[⟨50,50⟩, ⟨60,50⟩, ⟨50,60⟩]
private def triBig : Array (V2 Int) := #[⟨-40,-40⟩, ⟨80,-40⟩, ⟨-40,80⟩]
private def triCut : Array (V2 Int) := #[⟨2,-2⟩, ⟨6,2⟩, ⟨2,6⟩]

/-- non-vacuity of `convex_no_crossing_output`: for two far-apart triangles the loop ends without `return` and without an
accepted point (both scans fail: empty output); for a triangle inside a big one the fall-back emits its 3 vertices -/
example : letI := intNum
    (cvxLoop triSmall triFar (0 : Int) false false 28 ⟨0, 0, 0, 0, .unknown, false, #[]⟩).2 = false ∧
    (cvxLoop triSmall triFar (0 : Int) false false 28 ⟨0, 0, 0, 0, .unknown, false, #[]⟩).1.firstPointFound = false ∧
    (convexPolygonsIntersection triSmall triFar (0 : Int)).size = 0 ∧
    (convexPolygonsIntersection triSmall triBig (0 : Int)).size = 3 := by decide

/-- non-vacuity of `cvx_items_wellformed` beyond vertex items: two crossing triangles produce intersection items
(the output has more items than the 3 + 3 vertices could give alone and the loop accepted a point) -/
example : letI := intNum
    (cvxLoop triSmall triCut (0 : Int) false false 28 ⟨0, 0, 0, 0, .unknown, false, #[]⟩).1.firstPointFound = true ∧
    0 < (convexPolygonsIntersection triSmall triCut (0 : Int)).size := by decide

/-- non-vacuity of `containScan_iff` / `convex_fallback_sound`: the scan succeeds for the small triangle inside the big
one and fails for the two crossing triangles -/
example : letI := intNum
    containScan triBig triSmall (0 : Int) = true ∧ containScan triSmall triCut (0 : Int) = false := by decide

/-- the seeded variant of the accumulator of `polygons_intersection_points`: `result.push(curr_poly.clone())` without
resetting `curr_poly` -/
private def splitStepClone {K : Type} [Num K] (poly1 poly2 : Array (V2 K)) (acc : List (List (V2 K)) × List (V2 K)) :
    Emit K → List (List (V2 K)) × List (V2 K)
  | .fin => if acc.2.isEmpty then acc else (acc.1 ++ [acc.2], acc.2)
  | e => splitStep poly1 poly2 acc e

/-- **the seeded `clone()`-for-`mem::take` variant is refuted**: on a stream of two one-vertex components the real
accumulator yields components of sizes `[1, 1]` (`splitComponents_runs`), the variant `[1, 2]` — the second component
repeats the first -/
theorem seeded_clone_variant_repeats_components :
    letI := intNum
    (splitComponents triSmall triFar [Emit.vtx 0 0, .fin, .vtx 1 1, .fin]).map List.length = [1, 1] ∧
    (([Emit.vtx 0 0, .fin, .vtx 1 1, .fin].foldl (splitStepClone triSmall triFar) ([], [])).1).map List.length = [1, 2] := by
  decide

/-- the seeded variant of `compute_sorted_edge_intersections` that sorts the per-edge lists of **poly2** with the key of
**poly1** (`a.edges[0]`, `a.locs[0]`) -/
private def onEdgeSwappedKey {K : Type} [Num K] (I : List (IPoint K)) (e : Nat) : List (IPoint K) :=
  sortByKey (fun ip => centeredBcoords ip.loc1 ip.e1) (I.filter fun ip => ip.edge 1 == e)

/-- **the seeded swapped-sort-key variant is refuted**: two crossings on edge 0 of `poly2` at parameters `1 < 3` of that
edge, lying on two edges of `poly1` at parameters `5 > 2`: the model lists them in the order of the parameter along the
edge they are listed for (`onEdge_sorted`, ids `[0, 1]`), the variant in the opposite order (`[1, 0]`) -/
theorem seeded_swapped_keys_variant_unsorted :
    letI := intNum
    let I : List (IPoint Int) := [⟨0, 0, 0, .onEdge 0 1 (-4) 5, .onEdge 0 1 0 1⟩, ⟨1, 1, 0, .onEdge 1 2 (-1) 2, .onEdge 0 1 (-2) 3⟩]
    (onEdge I 1 0).map (·.id) = [0, 1] ∧ (onEdgeSwappedKey I 0).map (·.id) = [1, 0] := by
  decide

end instances
end C15
