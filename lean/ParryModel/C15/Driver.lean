import ParryModel.Proto
import ParryModel.C15.Model
/-! C15 protocol handlers: model evaluation at `Float` and exact-`Rat` oracles on implementation output.

Output formats
* orientation: `ccw` | `cw` | `deg`
* segment location: `v0` | `v1` | `e <u> <v>`
* `segments_intersection2d`: `none` | `point <loc1> <loc2>` | `segment <first1> <first2> <second1> <second2>`
* predicates: `0` | `1`;  `corner_direction`: `ccw` | `cw` | `none`;  `is_point_in_triangle`: `none` | `0` | `1`

The oracles never call the model functions: they recompute the geometric answer in exact rational arithmetic by a
different route (parametric solve / leftward+upward ray crossings / triangle-fan membership / Cramer barycentrics).
-/
namespace C15
open Model Model.C15 Proto

/-! ## printers / parsers -/
def fori : TriOrient → String
  | .ccw => "ccw" | .cw => "cw" | .degenerate => "deg"
def floc : SegLoc Float → String
  | .onVertex i => s!"v{i}"
  | .onEdge u v => s!"e {ff u} {ff v}"
def finter : Option (SegInter Float) → String
  | none => "none"
  | some (.point a b) => s!"point {floc a} {floc b}"
  | some (.segment a b c d) => s!"segment {floc a} {floc b} {floc c} {floc d}"
def fcorner : Orient → String
  | .ccw => "ccw" | .cw => "cw" | .none => "none" | .nan => "panic"
def fintri : InTri → String
  | .some b => fb b | .invalid => "none" | .panic => "panic"

def ploc : P (SegLoc Float) := do
  let t ← tok
  if t = "v0" then pure (.onVertex 0) else if t = "v1" then pure (.onVertex 1)
  else if t = "e" then do let u ← pfo; let v ← pfo; pure (.onEdge u v)
  else failure
def pinter : P (Option (SegInter Float)) := do
  let t ← tok
  if t = "none" then pure none
  else if t = "point" then do let a ← ploc; let b ← ploc; pure (some (.point a b))
  else if t = "segment" then do
    let a ← ploc; let b ← ploc; let c ← ploc; let d ← ploc; pure (some (.segment a b c d))
  else failure

/-! ## exact helpers -/
def cross2 (u v : V2 Rat) : Rat := u.x * v.y - u.y * v.x
/-- twice the signed area of `(a, b, c)`; positive = counter-clockwise -/
def area2R (a b c : V2 Rat) : Rat := cross2 (b.sub a) (c.sub a)
def rmax (a b : Rat) : Rat := if a < b then b else a
def rmin (a b : Rat) : Rat := if b < a then b else a
def ninf (v : V2 Rat) : Rat := rmax (rabs v.x) (rabs v.y)
/-- "lattice" rational: `k / 2^j` with `j ≤ 12`, magnitude ≤ 4096: products and short sums of such values are exact in
binary64, so the implementation's arithmetic is exact and the oracle can be applied with zero tolerance. -/
def isLat (x : Rat) : Bool := x.den ≤ 4096 && 4096 % x.den == 0 && rabs x ≤ 4096
def isLat2 (v : V2 Rat) : Bool := isLat v.x && isLat v.y
def veq (a b : V2 Rat) : Bool := a.x == b.x && a.y == b.y
def tol : Rat := tolDefault
def near (a b : V2 Rat) (scale : Rat) : Bool :=
  rabs (a.x - b.x) ≤ tol * scale && rabs (a.y - b.y) ≤ tol * scale

/-- point denoted by a location on `[a, b]` (exact value of the implementation's floats) -/
def locAt (a b : V2 Rat) : SegLoc Float → V2 Rat
  | .onVertex i => if i = 0 then a else b
  | .onEdge u v => (a.smul (q u)).add (b.smul (q v))

def withOut {α} (p : P α) (out : List String) (k : α → String) : String :=
  match out with
  | "panic" :: _ => "fail panic"
  | _ => match run (do let a ← p; pend; pure a) out with
    | some a => k a
    | none => "fail unparsable-output"

/-! ## oracle: orientation2d -/
def oracleOrient (a b c : V2 Rat) (eps : Rat) (out : List String) : String :=
  let A := area2R a b c
  let scale := ninf (b.sub a) * ninf (c.sub a)
  let exact := isLat2 a && isLat2 b && isLat2 c
  let slack : Rat := if exact then 0 else tol * (1 + scale)
  if !exact && (rabs (A - eps) ≤ slack || rabs (A + eps) ≤ slack) then "skip rounding-sensitive" else
  let ex := if A > eps then "ccw" else if A < -eps then "cw" else "deg"
  if out = [ex] then "pass" else s!"fail orientation expected={ex} area2R={A}"

/-! ## oracle: segments_intersection2d -/
/-- parameter of `p` on the line `a + t (b - a)` along the dominant axis (`a ≠ b`) -/
def paramOn (a b p : V2 Rat) : Rat :=
  if rabs (b.x - a.x) ≥ rabs (b.y - a.y) then (p.x - a.x) / (b.x - a.x) else (p.y - a.y) / (b.y - a.y)

def oracleSeg (a b c d : V2 Rat) (eps : Rat) (o : Option (SegInter Float)) : String :=
  if veq a b || veq c d then "skip zero-length-segment" else
  let D := cross2 (b.sub a) (d.sub c)
  let span := 1 + ninf a + ninf b + ninf c + ninf d
  -- magnitude of the products summed by the implementation (`a.x * (d.y - c.y) + …`)
  let Mabs := (ninf a + ninf b + ninf c + ninf d) * (ninf (b.sub a) + ninf (d.sub c))
  let exact := isLat2 a && isLat2 b && isLat2 c && isLat2 d
  -- bound on the rounding error of the implementation's `denom` / `num` (0 on lattice inputs)
  let err : Rat := if exact then 0 else Mabs / 1000000000000
  let epsEff := rmax eps (1 / 4503599627370496)
  if D ≠ 0 ∧ (exact ∨ rabs D > err) then
    -- the lines cross in exactly one point
    if rabs D ≤ epsEff + err then "skip within-parallel-epsilon" else
    if !exact && rabs D < Mabs / 100000 then "skip ill-conditioned" else
    let s := cross2 (c.sub a) (d.sub c) / D
    let t := cross2 (c.sub a) (b.sub a) / D
    let X := a.add ((b.sub a).smul s)
    let sl : Rat := if exact then 0 else 1 / 10000000
    let inside := -sl ≤ s && s ≤ 1 + sl && -sl ≤ t && t ≤ 1 + sl
    let strictlyInside := sl ≤ s && s ≤ 1 - sl && sl ≤ t && t ≤ 1 - sl
    match o with
    | none =>
      if !exact && inside && !strictlyInside then "skip rounding-sensitive" else
      if inside then s!"fail none-but-intersect s={s} t={t}" else "pass"
    | some (.segment ..) => "fail segment-for-crossing-lines"
    | some (.point l1 l2) =>
      if !inside then s!"fail point-but-disjoint s={s} t={t}" else
      let P1 := locAt a b l1; let P2 := locAt c d l2
      if !(near P1 X span) then s!"fail loc1-not-the-intersection got=({P1.x},{P1.y}) want=({X.x},{X.y})" else
      if !(near P2 X span) then s!"fail loc2-not-the-intersection got=({P2.x},{P2.y}) want=({X.x},{X.y})" else
      -- tag ⇔ parameter exactly 0 / 1 (judged only where the arithmetic is exact)
      let tagOk (l : SegLoc Float) (p : Rat) : Bool := match l with
        | .onVertex i => if exact then p == (i : Rat) else true
        | .onEdge .. => if exact then p != 0 && p != 1 else true
      if !(tagOk l1 s) then s!"fail loc1-tag s={s}" else
      if !(tagOk l2 t) then s!"fail loc2-tag t={t}" else "pass"
  else
    -- parallel lines (exactly, or up to the rounding of non-lattice inputs)
    if !exact && (D ≠ 0 || eps ≤ 2 * err) then "skip rounding-sensitive-parallel" else
    let A := area2R a b c
    let errA : Rat := if exact then 0 else (ninf (b.sub a) * ninf (c.sub a)) / 1000000000000
    if A ≠ 0 then
      if rabs A ≤ eps + errA then "skip within-collinearity-epsilon" else
      match o with
      | none => "pass"
      | some _ => "fail intersection-for-parallel-disjoint-lines"
    else
      -- collinear: 1-D overlap of [0,1] with [tc, td] in the parameter of [a,b]
      let tc := paramOn a b c; let td := paramOn a b d
      let lo := rmax 0 (rmin tc td); let hi := rmin 1 (rmax tc td)
      match o with
      | none => if lo ≤ hi then s!"fail none-but-collinear-overlap [{lo},{hi}]" else "pass"
      | some (.point ..) => "fail point-for-collinear"
      | some (.segment f1 f2 s1 s2) =>
        if hi < lo then "fail segment-but-disjoint" else
        let F1 := locAt a b f1; let F2 := locAt c d f2; let S1 := locAt a b s1; let S2 := locAt c d s2
        if !(near F1 F2 span) then "fail first-locations-differ" else
        if !(near S1 S2 span) then "fail second-locations-differ" else
        let L := a.add ((b.sub a).smul lo); let H := a.add ((b.sub a).smul hi)
        if (near F1 L span && near S1 H span) || (near F1 H span && near S1 L span) then
          -- tag: which branch of `between` each carrying segment takes (x / y coordinate, ascending / descending)
          let cls (p q' : V2 Rat) : String :=
            if p.x != q'.x then (if p.x < q'.x then "x+" else "x-") else (if p.y < q'.y then "y+" else "y-")
          s!"pass collinear-overlap ab={cls a b} cd={cls c d}"
        else s!"fail wrong-overlap got=({F1.x},{F1.y})-({S1.x},{S1.y}) want=({L.x},{L.y})-({H.x},{H.y})"

/-! ## oracles: polygons -/
def edgesOf (poly : List (V2 Rat)) : List (V2 Rat × V2 Rat) :=
  match poly with
  | [] => []
  | p :: ps => List.zip (p :: ps) (ps ++ [p])

/-- `p` on the closed segment `[a,b]`, with slack `sl` on the line distance (0 = exact) -/
def onSegment (a b p : V2 Rat) (sl : Rat) : Bool :=
  let A := area2R a b p
  rabs A ≤ sl * (1 + ninf (b.sub a)) &&
    rmin a.x b.x - sl ≤ p.x && p.x ≤ rmax a.x b.x + sl && rmin a.y b.y - sl ≤ p.y && p.y ≤ rmax a.y b.y + sl

/-- crossings of the open ray from `p` towards `-x` (`left = true`) / `+y` (`left = false`), half-open rule on the
*other* coordinate.  For `p` off the boundary the parity is the even-odd membership, whatever the ray. -/
def rayCrossings (p : V2 Rat) (es : List (V2 Rat × V2 Rat)) (left : Bool) : Nat :=
  es.countP fun (a, b) =>
    if left then
      -- edge spans p.y (half-open), intercept strictly left of p
      ((a.y ≤ p.y) != (b.y ≤ p.y)) && decide (a.x + (p.y - a.y) * (b.x - a.x) / (b.y - a.y) < p.x)
    else
      ((a.x ≤ p.x) != (b.x ≤ p.x)) && decide (p.y < a.y + (p.x - a.x) * (b.y - a.y) / (b.x - a.x))

def oraclePoly (p : V2 Rat) (poly : List (V2 Rat)) (out : List String) : String :=
  if poly.isEmpty then (if out = ["0"] then "pass" else "fail empty-polygon-must-be-false") else
  let es := edgesOf poly
  let exact := isLat2 p && poly.all isLat2
  let sl : Rat := if exact then 0 else 1 / 100000000
  if es.any (fun (a, b) => onSegment a b p (sl * (1 + ninf p))) then "skip on-boundary" else
  let l := rayCrossings p es true % 2
  let u := rayCrossings p es false % 2
  if l ≠ u then "fail oracle-internal-parity-mismatch" else
  if out = [if l = 1 then "1" else "0"] then "pass" else s!"fail even-odd expected={l}"

/-- all vertices on one side of every edge (⇔ convex position, rules out star polygons) and non-zero area -/
def convexSign (poly : List (V2 Rat)) : Option Rat :=
  let es := edgesOf poly
  let sides : List Rat := es.flatMap fun e => poly.map fun v => area2R e.1 e.2 v
  let area : Rat := (es.map fun e => cross2 e.1 e.2).foldl (· + ·) 0
  if area == 0 then none
  else if sides.all (fun x => decide (0 ≤ x)) then some 1
  else if sides.all (fun x => decide (x ≤ 0)) then some (-1)
  else none

/-- membership in the union of the fan triangles `(v0, vi, vi+1)` by exact barycentric coordinates -/
def inFan (p : V2 Rat) (poly : List (V2 Rat)) : Bool :=
  match poly with
  | v0 :: rest =>
    (List.zip rest (rest.drop 1)).any fun (v1, v2) =>
      let S := area2R v0 v1 v2
      if S = 0 then false else
      let l0 := area2R p v1 v2 / S; let l1 := area2R v0 p v2 / S; let l2 := area2R v0 v1 p / S
      decide (0 ≤ l0) && decide (0 ≤ l1) && decide (0 ≤ l2)
  | [] => false

def oracleConvex (p : V2 Rat) (poly : List (V2 Rat)) (out : List String) : String :=
  if poly.isEmpty then (if out = ["0"] then "pass" else "fail empty-polygon-must-be-false") else
  match convexSign poly with
  | none => "skip not-a-nondegenerate-convex-polygon"
  | some _ =>
    let exact := isLat2 p && poly.all isLat2
    let sl : Rat := if exact then 0 else 1 / 100000000
    if !exact && (edgesOf poly).any (fun (a, b) => rabs (area2R a b p) ≤ sl * (1 + ninf (b.sub a)) * (1 + ninf (p.sub a)))
    then "skip rounding-sensitive" else
    let ex := inFan p poly
    if out = [fb ex] then "pass" else s!"fail convex-membership expected={ex}"

def oracleCorner (p1 p2 p3 : V2 Rat) (out : List String) : String :=
  -- 3×3 determinant expansion of the orientation of (p1, p2, p3)
  let A := p1.x * (p2.y - p3.y) + p2.x * (p3.y - p1.y) + p3.x * (p1.y - p2.y)
  let exact := isLat2 p1 && isLat2 p2 && isLat2 p3
  if !exact && rabs A ≤ tol * (1 + ninf (p1.sub p2) * ninf (p3.sub p2)) then "skip rounding-sensitive" else
  let ex := if A > 0 then "ccw" else if A < 0 then "cw" else "none"
  if out = [ex] then "pass" else s!"fail corner-direction expected={ex}"

def oracleInTri (p v1 v2 v3 : V2 Rat) (out : List String) : String :=
  let S := area2R v1 v2 v3
  let exact := isLat2 p && isLat2 v1 && isLat2 v2 && isLat2 v3
  if S = 0 then "skip degenerate-triangle" else
  let c1 := area2R p v2 v3; let c2 := area2R v1 p v3; let c3 := area2R v1 v2 p
  -- rounding error of the implementation's three cross products (0 on lattice inputs)
  let diam := ninf (v2.sub v1) + ninf (v3.sub v1) + ninf (p.sub v1)
  let err : Rat := if exact then 0 else diam * diam / 1000000000000
  if !exact && (rabs S ≤ 4 * err || rabs c1 ≤ err || rabs c2 ≤ err || rabs c3 ≤ err) then "skip rounding-sensitive" else
  let l1 := c1 / S; let l2 := c2 / S; let l3 := c3 / S
  let ex := decide (0 ≤ l1) && decide (0 ≤ l2) && decide (0 ≤ l3)
  match out with
  | ["none"] => "fail none-for-nondegenerate-triangle"
  | _ => if out = [fb ex] then "pass" else s!"fail triangle-membership expected={ex}"

/-! ## oracle: convex polygon intersection (exact Sutherland–Hodgman) -/
def shoelaceR (poly : List (V2 Rat)) : Rat := ((edgesOf poly).map fun (a, b) => cross2 a b).foldl (· + ·) 0

/-- strictly convex (every corner a strict turn of the same sign, all vertices on one side of every edge) -/
def strictlyConvex (poly : List (V2 Rat)) (sl : Rat) : Bool :=
  match convexSign poly with
  | none => false
  | some sg =>
    match poly with
    | a :: b :: rest =>
      let ext := poly ++ [a, b]
      (List.zip (List.zip ext (ext.drop 1)) (ext.drop 2)).all fun ((p, q'), r) => decide (sg * area2R p q' r > sl)
    | _ => false

/-- clip the polygon `subj` by the closed left half-plane of the directed line `a → b` -/
def clipHalfPlane (subj : List (V2 Rat)) (a b : V2 Rat) : List (V2 Rat) :=
  (edgesOf subj).flatMap fun (p, q') =>
    let sp := area2R a b p; let sq' := area2R a b q'
    let inter : V2 Rat := let t := sp / (sp - sq'); p.add ((q'.sub p).smul t)
    if sp ≥ 0 then (if sq' ≥ 0 then [q'] else [inter])
    else (if sq' ≥ 0 then [inter, q'] else [])

def trueIntersection (P Q : List (V2 Rat)) : List (V2 Rat) :=
  (edgesOf Q).foldl (fun s (a, b) => clipHalfPlane s a b) P

/-- some vertex of `Q` is within relative distance `τ` of the line of an edge of `P` and near that edge: for non-lattice
inputs such a pair is a touching / collinear configuration up to rounding — "closer than the collinearity epsilon to
degeneracy" but not exactly degenerate, hence outside the property's domain -/
def nearTouch (P Q : List (V2 Rat)) (diam : Rat) : Bool :=
  let τ : Rat := 1 / 10000000
  (edgesOf P).any fun (a, b) => Q.any fun v =>
    decide (rabs (area2R a b v) ≤ τ * diam * (ninf (b.sub a) + τ * diam)) &&
    decide (rmin a.x b.x - τ * diam ≤ v.x) && decide (v.x ≤ rmax a.x b.x + τ * diam) &&
    decide (rmin a.y b.y - τ * diam ≤ v.y) && decide (v.y ≤ rmax a.y b.y + τ * diam)

def oracleCvxR (p1 p2 : List (V2 Rat)) (eps : Rat) (O : List (V2 Rat)) (finite : Bool) : String :=
  if p1.length < 3 || p2.length < 3 then "skip fewer-than-3-vertices" else
  let exact := p1.all isLat2 && p2.all isLat2
  let bb := (p1 ++ p2).foldl (fun (m : Rat) v => rmax m (ninf v)) 0
  let diam2 := (1 + bb) * (1 + bb)
  let slIn : Rat := if exact then 0 else diam2 / 1000000000
  if !(strictlyConvex p1 (rmax eps slIn)) || !(strictlyConvex p2 (rmax eps slIn)) then "skip not-strictly-convex" else
  let P := if shoelaceR p1 < 0 then p1.reverse else p1
  let Q := if shoelaceR p2 < 0 then p2.reverse else p2
  let T := trueIntersection P Q
  let At := rabs (shoelaceR T)
  if !finite then "fail non-finite-output" else
  let Ao := rabs (shoelaceR O)
  let tolA : Rat := diam2 / 1000000000
  -- random inputs that are within rounding of a touching configuration are outside the domain
  if !exact && At ≤ tolA && At > 0 then "skip rounding-sensitive" else
  if !exact && (nearTouch P Q (1 + bb) || nearTouch Q P (1 + bb)) then "skip within-epsilon-of-degeneracy" else
  -- every output vertex lies in both polygons
  let slack : Rat := (1 + bb) / 100000000
  let inside (R : List (V2 Rat)) (v : V2 Rat) : Bool :=
    (edgesOf R).all fun (a, b) => decide (area2R a b v ≥ -slack * (1 + ninf (b.sub a)))
  match O.find? (fun v => !(inside P v && inside Q v)) with
  | some v => s!"fail output-vertex-outside-an-input ({v.x},{v.y})"
  | none =>
    if rabs (Ao - At) ≤ tolA then "pass"
    else s!"fail area out={Ao} true={At} (doubled areas) nout={O.length}"

def oracleCvx (p1 p2 : List (V2 Rat)) (eps : Rat) (out : List (V2 Float)) : String :=
  oracleCvxR p1 p2 eps (out.map q2) (out.all fun v => FloatIO.isFinite v.x && FloatIO.isFinite v.y)

/-- an explicit tolerance is only meaningful when no decision of the algorithm is *inside* the dead-band without being an
exact tie: some (edge, vertex) doubled area or some (edge, edge) cross product in `(0, 2 eps]` → outside the domain
("farther than the collinearity epsilon from degeneracy") -/
def withinEps (P Q : List (V2 Rat)) (eps : Rat) : Bool :=
  let amb (x : Rat) : Bool := decide (0 < rabs x) && decide (rabs x ≤ 2 * eps)
  (edgesOf P).any (fun (a, b) => Q.any fun v => amb (area2R a b v)) ||
  (edgesOf Q).any (fun (a, b) => P.any fun v => amb (area2R a b v)) ||
  (edgesOf P).any (fun (a, b) => (edgesOf Q).any fun (c, d) => amb (cross2 (b.sub a) (d.sub c)))

/-- `Triangle::contains_point` (2-D): judged off the boundary only.  Exact barycentric signs by Cramer's rule.  On the
boundary the answer of the real code depends on the orientation of the triangle (theorem `tri_contains_point_iff`) and on
the sign of a floating-point zero: reported as `skip boundary`. -/
def oracleTriContains (a b c p : V2 Rat) (out : List String) : String :=
  let S := area2R a b c
  let exact := isLat2 p && isLat2 a && isLat2 b && isLat2 c
  if S = 0 then "skip degenerate-triangle" else
  let c1 := area2R p b c; let c2 := area2R a p c; let c3 := area2R a b p
  let diam := ninf (b.sub a) + ninf (c.sub a) + ninf (p.sub a)
  let err : Rat := if exact then 0 else diam * diam / 1000000000000
  if !exact && (rabs S ≤ 4 * err || rabs c1 ≤ err || rabs c2 ≤ err || rabs c3 ≤ err) then "skip rounding-sensitive" else
  let l1 := c1 / S; let l2 := c2 / S; let l3 := c3 / S
  if l1 = 0 || l2 = 0 || l3 = 0 then
    (if decide (0 ≤ l1) && decide (0 ≤ l2) && decide (0 ≤ l3) then "skip boundary" else
      (if out = ["0"] then "pass" else "fail triangle-contains expected=false (outside, on an edge line)"))
  else
  let ex := decide (0 < l1) && decide (0 < l2) && decide (0 < l3)
  if out = [fb ex] then "pass" else s!"fail triangle-contains expected={ex}"

/-! ## convex, callback form: the ordered stream of location pairs -/

def plocP : P (Option (PolyLoc Float)) := do
  let t ← tok
  if t = "e" then do let i ← pnat; let j ← pnat; let u ← pfo; let v ← pfo; pure (some (.onEdge i j u v))
  else if t.startsWith "v" then pure ((t.drop 1).toString.toNat?.map PolyLoc.onVertex)
  else failure


def flocP : PolyLoc Float → String
  | .onVertex i => s!"v{i}"
  | .onEdge i j u v => s!"e {i} {j} {ff u} {ff v}"

def modelCvxLocs (p1 p2 : List (V2 Float)) (eps : Float) : String :=
  let r := convexPolygonsIntersection p1.toArray p2.toArray eps
  r.foldl (fun s (it : OutPair Float) => s ++ " " ++ (match it with
    | (some a, some b) => s!"b {flocP a} {flocP b}"
    | (some a, none) => s!"p {flocP a}"
    | (none, some b) => s!"q {flocP b}"
    | (none, none) => "n")) s!"{r.size}"

/-- exact point of a location on a polygon that may be walked in either direction: the edge must join two consecutive
vertices (`j = i ± 1` cyclically) -/
def locPointBi (pts : Array (V2 Rat)) : PolyLoc Float → Option (V2 Rat × Bool)
  | .onVertex i => pts[i]?.map fun p => (p, true)
  | .onEdge i j u v =>
    match pts[i]?, pts[j]? with
    | some a, some b => if j = (i + 1) % pts.size || i = (j + 1) % pts.size then
        some ((a.smul (q u)).add (b.smul (q v)), FloatIO.isFinite u && FloatIO.isFinite v) else none
    | _, _ => none

/-- oracle of the callback form: every item is well-formed (indices in range, edges join consecutive vertices), the two
locations of a `b` item denote the same point, no `(None, None)` is emitted, and the denoted points pass the same
exact intersection oracle as the point form -/
def oracleCvxLocs (p1 p2 : List (V2 Rat)) (eps : Rat) (out : List String) : String :=
  let bb := (p1 ++ p2).foldl (fun (m : Rat) v => rmax m (ninf v)) 0
  let slack : Rat := (1 + bb) / 100000000
  let A1 := p1.toArray; let A2 := p2.toArray
  let item : P (Option (V2 Rat × Bool × Bool)) := do
    let t ← tok
    if t = "b" then do
      let a ← plocP; let b ← plocP
      pure (match a, b with
        | some a, some b => match locPointBi A1 a, locPointBi A2 b with
          | some (x, f1), some (y, f2) => some (x, f1 && f2, rabs (x.x - y.x) ≤ slack && rabs (x.y - y.y) ≤ slack)
          | _, _ => none
        | _, _ => none)
    else if t = "p" then do let a ← plocP; pure (a.bind fun a => (locPointBi A1 a).map fun (x, f) => (x, f, true))
    else if t = "q" then do let a ← plocP; pure (a.bind fun a => (locPointBi A2 a).map fun (x, f) => (x, f, true))
    else failure
  match run (do let cs ← plist item; pend; pure cs) out with
  | none => "fail malformed-item-stream (a (None, None) pair or an unknown item)"
  | some cs =>
    if cs.any Option.isNone then "fail location-out-of-range-or-not-an-edge" else
    let cs' := cs.filterMap id
    let verdict := oracleCvxR p1 p2 eps (cs'.map (·.1)) (cs'.all (·.2.1))
    if verdict.startsWith "skip" then verdict else
    if !(cs'.all (·.2.2)) then "fail the-two-locations-of-an-intersection-denote-different-points" else verdict

/-! ## non-convex polygon intersection: canonical printing (model side) -/

/-- lexicographic comparison of number lists: `-1`, `0`, `1` -/
def cmpKey : List Float → List Float → Int
  | [], [] => 0
  | [], _ => -1
  | _, [] => 1
  | x :: xs, y :: ys => if x < y then -1 else if y < x then 1 else cmpKey xs ys

abbrev Item := List Float × String

def cmpSeq : List Item → List Item → Int
  | [], [] => 0
  | [], _ => -1
  | _, [] => 1
  | x :: xs, y :: ys => let c := cmpKey x.1 y.1; if c ≠ 0 then c else cmpSeq xs ys

/-- lexicographically least rotation (the first one among equals) -/
def leastRotation (c : List Item) : List Item :=
  (List.range c.length).foldl (fun best k =>
    let r := c.drop k ++ c.take k
    if cmpSeq r best < 0 then r else best) c

def insertComp (x : List Item) : List (List Item) → List (List Item)
  | [] => [x]
  | y :: ys => if cmpSeq x y < 0 then x :: y :: ys else y :: insertComp x ys

/-- same canonical form as `canonical` in `harness/src/c15.rs`: components rotated to their least rotation and sorted -/
def canonical (comps : List (List Item)) : String :=
  let cs := (comps.map leastRotation).foldl (fun acc c => insertComp c acc) []
  cs.foldl (fun s c => c.foldl (fun s it => s ++ " " ++ it.2) (s ++ s!" {c.length}")) s!"ok {cs.length}"

def natF (n : Nat) : Float := Float.ofNat n

def lockey : PolyLoc Float → Item
  | .onVertex i => ([0.0, natF i], s!"v{i}")
  | .onEdge i j u v => ([1.0, natF i, natF j, u, v], s!"e {i} {j} {ff u} {ff v}")

def emitItem : Emit Float → Item
  | .inter ip => let a := lockey ip.loc1; let b := lockey ip.loc2; ([0.0] ++ a.1 ++ b.1, s!"b {a.2} {b.2}")
  | .vtx p v => let a := lockey (.onVertex v); if p = 0 then ([1.0] ++ a.1, s!"p {a.2}") else ([2.0] ++ a.1, s!"q {a.2}")
  | .fin => ([], "")

/-- split at the `fin` markers; the callback form keeps empty components (the harness does the same) -/
def splitTrace (tr : List (Emit Float)) : List (List (Emit Float)) :=
  let r := tr.foldl (fun (acc : List (List (Emit Float)) × List (Emit Float)) e =>
    match e with
    | .fin => (acc.1 ++ [acc.2], [])
    | e => (acc.1, acc.2 ++ [e])) ([], [])
  if r.2.isEmpty then r.1 else r.1 ++ [r.2]

def modelNcLocs (p1 p2 : List (V2 Float)) : String :=
  let r := polygonsIntersection p1.toArray p2.toArray
  match r.status with
  | .err => "err"
  | .panic => "panic"
  | .ok => canonical ((splitTrace r.trace).map fun c => c.map emitItem)

def modelNcPoints (p1 p2 : List (V2 Float)) : String :=
  let r := polygonsIntersectionPoints p1.toArray p2.toArray
  match r.1 with
  | .err => "err"
  | .panic => "panic"
  | .ok => canonical (r.2.map fun c => c.map fun v => ([v.x, v.y], fv2 v))

/-! ## oracle: non-convex polygon intersection (exact rational, independent of the model)

Domain: two simple polygons with at least 3 vertices, counter-clockwise (the documented contract of
`polygons_intersection`).  The truth is computed by the **signed fan decomposition**: for a simple polygon `A` with fan
triangles `T_i = (a_0, a_i, a_{i+1})` of signs `s_i`, `σ_A · Σ_i s_i 1_{T_i} = 1_A` almost everywhere (`σ_A` = orientation),
hence `area(A ∩ B) = σ_A σ_B Σ_i Σ_j s_i s_j area(T_i ∩ T_j)`, each triangle pair clipped exactly (Sutherland–Hodgman in
`Rat`).  Nothing of the intersection-graph walk is used. -/

def dot2 (u v : V2 Rat) : Rat := u.x * v.x + u.y * v.y

/-- exact: `p` on the closed segment `[a, b]` -/
def onSeg0 (a b p : V2 Rat) : Bool :=
  area2R a b p == 0 && rmin a.x b.x ≤ p.x && p.x ≤ rmax a.x b.x && rmin a.y b.y ≤ p.y && p.y ≤ rmax a.y b.y

/-- exact: the closed segments `[a,b]` and `[c,d]` have a common point -/
def segsMeet (a b c d : V2 Rat) : Bool :=
  let d1 := area2R a b c; let d2 := area2R a b d; let d3 := area2R c d a; let d4 := area2R c d b
  ((decide (d1 > 0) && decide (d2 < 0)) || (decide (d1 < 0) && decide (d2 > 0))) &&
    ((decide (d3 > 0) && decide (d4 < 0)) || (decide (d3 < 0) && decide (d4 > 0)))
  || onSeg0 a b c || onSeg0 a b d || onSeg0 c d a || onSeg0 c d b

/-- exact simplicity: no zero-length edge, adjacent edges meet only in their common vertex, other edges are disjoint -/
def isSimple (poly : List (V2 Rat)) : Bool :=
  let n := poly.length
  let es := (edgesOf poly).toArray
  decide (3 ≤ n) && es.all (fun e => !(veq e.1 e.2)) &&
  (List.range n).all fun i => (List.range n).all fun j =>
    if j ≤ i then true else
    match es[i]?, es[j]? with
    | some (a, b), some (c, d) =>
      if j = i + 1 then !(area2R a b d == 0 && decide (dot2 (b.sub a) (d.sub c) < 0))
      else if i = 0 && j = n - 1 then !(area2R c d b == 0 && decide (dot2 (d.sub c) (b.sub a) < 0))
      else !(segsMeet a b c d)
    | _, _ => true

/-- **the exact predicate of the known finding**: a vertex of `P` lies on the boundary of `Q` (this covers shared
vertices, a vertex touching an edge from inside or outside, and collinear overlapping edges — an overlap of positive
length always contains an end point of one of the two edges) -/
def vertexOnBoundary (P Q : List (V2 Rat)) : Bool :=
  P.any fun v => (edgesOf Q).any fun (a, b) => onSeg0 a b v

structure Tri where
  a : V2 Rat
  b : V2 Rat
  c : V2 Rat
  s : Rat

/-- signed fan triangles, each made counter-clockwise, with its sign -/
def fanTris (poly : List (V2 Rat)) : List Tri :=
  match poly with
  | v0 :: rest =>
    (List.zip rest (rest.drop 1)).filterMap fun (v1, v2) =>
      let S := area2R v0 v1 v2
      if S > 0 then some ⟨v0, v1, v2, 1⟩ else if S < 0 then some ⟨v0, v2, v1, -1⟩ else none
  | [] => []

def Tri.lo (t : Tri) : V2 Rat := ⟨rmin t.a.x (rmin t.b.x t.c.x), rmin t.a.y (rmin t.b.y t.c.y)⟩
def Tri.hi (t : Tri) : V2 Rat := ⟨rmax t.a.x (rmax t.b.x t.c.x), rmax t.a.y (rmax t.b.y t.c.y)⟩

/-- twice the area of the intersection of two counter-clockwise triangles -/
def triMeet2 (t u : Tri) : Rat :=
  if t.hi.x ≤ u.lo.x || u.hi.x ≤ t.lo.x || t.hi.y ≤ u.lo.y || u.hi.y ≤ t.lo.y then 0 else
  let c := clipHalfPlane (clipHalfPlane (clipHalfPlane [t.a, t.b, t.c] u.a u.b) u.b u.c) u.c u.a
  rabs (shoelaceR c)

/-- `2 · ∫ w_P · w_Q` (winding numbers); for simple polygons `= ± 2 · area(P ∩ Q)` -/
def windingMeet2 (P Q : List (V2 Rat)) : Rat :=
  let tq := fanTris Q
  (fanTris P).foldl (fun acc t => tq.foldl (fun acc u => acc + t.s * u.s * triMeet2 t u) acc) 0

/-- `p` on the closed segment `[a,b]` up to the distance-like slack `sl` (`unit` = the length unit of the coordinates) -/
def onSegmentU (a b p : V2 Rat) (sl unit : Rat) : Bool :=
  rabs (area2R a b p) ≤ sl * (unit + ninf (b.sub a)) &&
    rmin a.x b.x - sl ≤ p.x && p.x ≤ rmax a.x b.x + sl && rmin a.y b.y - sl ≤ p.y && p.y ≤ rmax a.y b.y + sl

/-- even–odd membership of a point off the boundary (leftward ray, half-open rule) or within `sl` of the boundary -/
def inClosedPoly (poly : List (V2 Rat)) (v : V2 Rat) (sl unit : Rat) : Bool :=
  let es := edgesOf poly
  es.any (fun (a, b) => onSegmentU a b v sl unit) || rayCrossings v es true % 2 == 1

/-- two edges cross at an angle too small for the floating-point `denom` to be trusted -/
def illConditionedCrossing (P Q : List (V2 Rat)) : Bool :=
  (edgesOf P).any fun (a, b) => (edgesOf Q).any fun (c, d) =>
    segsMeet a b c d && decide (rabs (cross2 (b.sub a) (d.sub c)) ≤ (ninf (b.sub a) * ninf (d.sub c)) / 100000)

/-- `nearTouch` with an explicit length unit -/
def nearTouchU (P Q : List (V2 Rat)) (diam : Rat) : Bool :=
  let τ : Rat := 1 / 10000000
  (edgesOf P).any fun (a, b) => Q.any fun v =>
    decide (rabs (area2R a b v) ≤ τ * diam * (ninf (b.sub a) + τ * diam)) &&
    decide (rmin a.x b.x - τ * diam ≤ v.x) && decide (v.x ≤ rmax a.x b.x + τ * diam) &&
    decide (rmin a.y b.y - τ * diam ≤ v.y) && decide (v.y ≤ rmax a.y b.y + τ * diam)

/-! ### integer fast path for the domain checks (inputs scaled to integers; same predicates as above, `Int` arithmetic) -/
abbrev PI := Int × Int
def iarea2 (a b c : PI) : Int := (b.1 - a.1) * (c.2 - a.2) - (b.2 - a.2) * (c.1 - a.1)
def iabs (x : Int) : Int := if x < 0 then -x else x
def imin (a b : Int) : Int := if b < a then b else a
def imax (a b : Int) : Int := if a < b then b else a
def ininf (a b : PI) : Int := imax (iabs (b.1 - a.1)) (iabs (b.2 - a.2))
def iedges (poly : List PI) : List (PI × PI) := match poly with
  | [] => []
  | p :: ps => List.zip (p :: ps) (ps ++ [p])
def ionSeg (a b p : PI) : Bool :=
  iarea2 a b p == 0 && imin a.1 b.1 ≤ p.1 && p.1 ≤ imax a.1 b.1 && imin a.2 b.2 ≤ p.2 && p.2 ≤ imax a.2 b.2
def isegsMeet (a b c d : PI) : Bool :=
  let d1 := iarea2 a b c; let d2 := iarea2 a b d; let d3 := iarea2 c d a; let d4 := iarea2 c d b
  ((decide (d1 > 0) && decide (d2 < 0)) || (decide (d1 < 0) && decide (d2 > 0))) &&
    ((decide (d3 > 0) && decide (d4 < 0)) || (decide (d3 < 0) && decide (d4 > 0)))
  || (d1 == 0 && ionSeg a b c) || (d2 == 0 && ionSeg a b d) || (d3 == 0 && ionSeg c d a) || (d4 == 0 && ionSeg c d b)
def iisSimple (poly : List PI) : Bool :=
  let n := poly.length
  let es := (iedges poly).toArray
  decide (3 ≤ n) && es.all (fun e => !(e.1 == e.2)) &&
  (List.range n).all fun i => (List.range n).all fun j =>
    if j ≤ i then true else
    match es[i]?, es[j]? with
    | some (a, b), some (c, d) =>
      let dt (u v w z : PI) : Int := (v.1 - u.1) * (z.1 - w.1) + (v.2 - u.2) * (z.2 - w.2)
      if j = i + 1 then !(iarea2 a b d == 0 && decide (dt a b c d < 0))
      else if i = 0 && j = n - 1 then !(iarea2 c d b == 0 && decide (dt c d a b < 0))
      else !(isegsMeet a b c d)
    | _, _ => true
def ivertexOnBoundary (P Q : List PI) : Bool :=
  P.any fun v => (iedges Q).any fun (a, b) => ionSeg a b v
/-- `nearTouchU` with τ = 10⁻⁷ cross-multiplied -/
def inearTouch (P Q : List PI) (diam : Int) : Bool :=
  let T : Int := 10000000
  (iedges P).any fun (a, b) => Q.any fun v =>
    decide (iabs (iarea2 a b v) * T * T ≤ diam * (ininf a b * T + diam)) &&
    decide (imin a.1 b.1 * T - diam ≤ v.1 * T) && decide (v.1 * T ≤ imax a.1 b.1 * T + diam) &&
    decide (imin a.2 b.2 * T - diam ≤ v.2 * T) && decide (v.2 * T ≤ imax a.2 b.2 * T + diam)
def iillConditioned (P Q : List PI) : Bool :=
  (iedges P).any fun (a, b) => (iedges Q).any fun (c, d) =>
    decide (iabs ((b.1 - a.1) * (d.2 - c.2) - (b.2 - a.2) * (d.1 - c.1)) * 100000 ≤ ininf a b * ininf c d) && isegsMeet a b c d
def toPI (v : V2 Rat) : PI := (v.x.num, v.y.num)

inductive NcOut where
  | comps (cs : List (List (V2 Rat))) (finite : Bool)
  | err
  | unstable
  | panic
  | bad

/-- smallest power of two `s` such that every coordinate times `s` is an integer (inputs are binary64 values) -/
def commonScale (ps : List (V2 Rat)) : Rat :=
  ((ps.foldl (fun (m : Nat) v => Nat.max m (Nat.max v.x.den v.y.den)) 1 : Nat) : Rat)

/-- The judgement proper.  `unit` is the length unit: the driver multiplies every coordinate by a common power of two so
that the inputs are integers (exact arithmetic on integers is several times faster than on dyadic fractions); all
tolerances are expressed in that unit, so the verdict does not depend on the scaling. -/
def oracleNcU (unit : Rat) (exact : Bool) (p1 p2 : List (V2 Rat)) (o : NcOut) : String :=
  if p1.length < 3 || p2.length < 3 then "skip fewer-than-3-vertices" else
  -- the scaled inputs are integers: the domain checks run on `Int`
  let i1 := p1.map toPI; let i2 := p2.map toPI
  if !(iisSimple i1) || !(iisSimple i2) then "skip not-simple" else
  if shoelaceR p1 < 0 || shoelaceR p2 < 0 then "skip clockwise-input (documented contract: counter-clockwise)" else
  let bb := (p1 ++ p2).foldl (fun (m : Rat) v => rmax m (ninf v)) 0
  let diam := unit + bb
  let diam2 := diam * diam
  let vob := ivertexOnBoundary i1 i2 || ivertexOnBoundary i2 i1
  if !vob && (inearTouch i1 i2 diam.num || inearTouch i2 i1 diam.num) then "skip within-epsilon-of-degeneracy" else
  if !vob && !exact && iillConditioned i1 i2 then "skip ill-conditioned-crossing" else
  let tag := if vob then " [vertex-on-boundary]" else ""
  let cls := if vob then "touching" else "general"
  match o with
  | .bad => "fail unparsable-output"
  | .panic => "fail panic" ++ tag
  | .err => "fail infinite-loop-error-on-valid-input" ++ tag
  | .unstable => "fail output-depends-on-hash-map-order" ++ tag
  | .comps cs finite =>
    if !finite then "fail non-finite-output" ++ tag else
    let true2 := windingMeet2 p1 p2          -- both counter-clockwise: σ = +1
    let tolA : Rat := diam2 / 1000000000
    if !exact && true2 ≤ 2 * tolA && true2 > 0 then "skip rounding-sensitive" else
    let slack : Rat := diam / 100000000
    let u2 := unit * unit
    match cs.flatten.find? (fun v => !(inClosedPoly p1 v slack unit && inClosedPoly p2 v slack unit)) with
    | some v => s!"fail output-vertex-outside-an-input ({v.x / unit},{v.y / unit})" ++ tag
    | none =>
      let out2 := (cs.map fun c => rabs (shoelaceR c)).foldl (· + ·) 0
      if true2 == 0 && !cs.isEmpty then s!"fail nonempty-output-for-disjoint-interiors ncomp={cs.length} 2*area={out2 / u2}" ++ tag else
      if true2 > 0 && cs.isEmpty then s!"fail empty-output-but-interiors-meet 2*true={true2 / u2}" ++ tag else
      if rabs (out2 - true2) > 2 * tolA then s!"fail area 2*out={out2 / u2} 2*true={true2 / u2} ncomp={cs.length}" ++ tag else
      -- components pairwise interior-disjoint
      let arr := cs.toArray
      let overlap : Rat := (List.range arr.size).foldl (fun acc i => (List.range arr.size).foldl (fun acc j =>
        if i < j then acc + rabs (windingMeet2 (arr.getD i []) (arr.getD j [])) else acc) acc) 0
      if overlap > 2 * tolA then s!"fail components-overlap 2*area={overlap / u2}" ++ tag else
      s!"pass {cls} ncomp={cs.length}"

def oracleNc (p1 p2 : List (V2 Rat)) (o : NcOut) : String :=
  let exact := p1.all isLat2 && p2.all isLat2
  let s := commonScale (p1 ++ p2)
  let sc (l : List (V2 Rat)) : List (V2 Rat) := l.map fun v => ⟨v.x * s, v.y * s⟩
  let o' := match o with
    | .comps cs f => NcOut.comps (cs.map sc) f
    | x => x
  oracleNcU s exact (sc p1) (sc p2) o'

/-- parse `ok k (n (x y)*)*` | `err` | `unstable …` | `panic …` -/
def parseNcPoints (out : List String) : NcOut :=
  match out with
  | "err" :: _ => .err
  | "unstable" :: _ => .unstable
  | "panic" :: _ => .panic
  | "ok" :: rest =>
    match run (do let cs ← plist (plist (do let x ← pfo; let y ← pfo; pure (⟨x, y⟩ : V2 Float))); pend; pure cs) rest with
    | some cs => .comps (cs.map fun c => c.map q2) (cs.all fun c => c.all fun v => FloatIO.isFinite v.x && FloatIO.isFinite v.y)
    | none => .bad
  | _ => .bad

/-- exact point of a location, `none` when an index is out of range or the edge is not `(i, (i+1) % n)` -/
def locPointR (pts : Array (V2 Rat)) : PolyLoc Float → Option (V2 Rat × Bool)
  | .onVertex i => pts[i]?.map fun p => (p, true)
  | .onEdge i j u v =>
    match pts[i]?, pts[j]? with
    | some a, some b => if j = (i + 1) % pts.size then
        some ((a.smul (q u)).add (b.smul (q v)), FloatIO.isFinite u && FloatIO.isFinite v) else none
    | _, _ => none

/-- parse the location stream `ok k (n item*)*`, item = `b loc loc` | `p loc` | `q loc`; returns the points (exact) and
`false` if some `b` item denotes two points farther apart than the slack -/
def parseNcLocs (p1 p2 : Array (V2 Rat)) (slack : Rat) (out : List String) : NcOut × Bool :=
  match out with
  | "err" :: _ => (.err, true)
  | "unstable" :: _ => (.unstable, true)
  | "panic" :: _ => (.panic, true)
  | "ok" :: rest =>
    let item : P (Option (V2 Rat × Bool × Bool)) := do
      let t ← tok
      if t = "b" then do
        let a ← plocP; let b ← plocP
        pure (match a, b with
          | some a, some b => match locPointR p1 a, locPointR p2 b with
            | some (x, f1), some (y, f2) => some (x, f1 && f2, rabs (x.x - y.x) ≤ slack && rabs (x.y - y.y) ≤ slack)
            | _, _ => none
          | _, _ => none)
      else if t = "p" then do let a ← plocP; pure (a.bind fun a => (locPointR p1 a).map fun (x, f) => (x, f, true))
      else if t = "q" then do let a ← plocP; pure (a.bind fun a => (locPointR p2 a).map fun (x, f) => (x, f, true))
      else failure
    match run (do let cs ← plist (plist item); pend; pure cs) rest with
    | some cs =>
      if cs.any fun c => c.any Option.isNone then (.bad, true) else
      let cs' := cs.map fun c => c.filterMap id
      (.comps ((cs'.map fun c => c.map (·.1)).filter (fun c => !c.isEmpty)) (cs'.all fun c => c.all (·.2.1)), cs'.all fun c => c.all (·.2.2))
    | none => (.bad, true)
  | _ => (.bad, true)

/-! ## handlers -/
def handler (fn : String) : Option Handler :=
  match fn with
  | "polygons_intersection_points" | "polygons_touching_points" => some {
      model := fun a => run (do let p1 ← plist pv2; let p2 ← plist pv2; pend; pure (modelNcPoints p1 p2)) a
      oracle := fun a o => match run (do let p1 ← plist pv2; let p2 ← plist pv2; pure (p1, p2)) a with
        | some (p1, p2) => oracleNc (p1.map q2) (p2.map q2) (parseNcPoints o)
        | none => "skip bad-args" }
  | "polygons_intersection" | "polygons_touching" => some {
      model := fun a => run (do let p1 ← plist pv2; let p2 ← plist pv2; pend; pure (modelNcLocs p1 p2)) a
      oracle := fun a o => match run (do let p1 ← plist pv2; let p2 ← plist pv2; pure (p1, p2)) a with
        | some (p1, p2) =>
          let P1 := p1.map q2; let P2 := p2.map q2
          let bb := (P1 ++ P2).foldl (fun (m : Rat) v => rmax m (ninf v)) 0
          let (r, same) := parseNcLocs P1.toArray P2.toArray ((1 + bb) / 100000000) o
          let v := oracleNc P1 P2 r
          if !same && !(v.startsWith "skip") then
            "fail the-two-locations-of-an-intersection-denote-different-points" ++
              (if vertexOnBoundary P1 P2 || vertexOnBoundary P2 P1 then " [vertex-on-boundary]" else "")
          else v
        | none => "skip bad-args" }
  | "orientation2d" => some {
      model := fun a => run (do let p ← pv2; let q' ← pv2; let r ← pv2; let e ← pf; pend
                                pure (fori (orientation2d p q' r e))) a
      oracle := fun a o => match run (do let p ← pv2; let q' ← pv2; let r ← pv2; let e ← pf; pure (p, q', r, e)) a with
        | some (p, q', r, e) => oracleOrient (q2 p) (q2 q') (q2 r) (q e) o
        | none => "skip bad-args" }
  | "triangle_orientation" => some {
      model := fun a => run (do let p ← pv2; let q' ← pv2; let r ← pv2; let e ← pf; pend
                                pure (fori (triOrientation p q' r e))) a
      oracle := fun a o => match run (do let p ← pv2; let q' ← pv2; let r ← pv2; let e ← pf; pure (p, q', r, e)) a with
        | some (p, q', r, e) => oracleOrient (q2 p) (q2 q') (q2 r) (q e) o
        | none => "skip bad-args" }
  | "segments_intersection2d" | "segments_collinear_vertical" | "segments_collinear_horizontal"
  | "segments_collinear_generic" => some {
      model := fun a => run (do let p ← pv2; let q' ← pv2; let r ← pv2; let s ← pv2; let e ← pf; pend
                                pure (finter (segmentsIntersection2d p q' r s e))) a
      oracle := fun a o => match run (do let p ← pv2; let q' ← pv2; let r ← pv2; let s ← pv2; let e ← pf; pure (p, q', r, s, e)) a with
        | some (p, q', r, s, e) => withOut pinter o (oracleSeg (q2 p) (q2 q') (q2 r) (q2 s) (q e))
        | none => "skip bad-args" }
  | "point_in_poly2d" => some {
      model := fun a => run (do let p ← pv2; let poly ← plist pv2; pend; pure (fb (pointInPoly2d p poly))) a
      oracle := fun a o => match run (do let p ← pv2; let poly ← plist pv2; pure (p, poly)) a with
        | some (p, poly) => oraclePoly (q2 p) (poly.map q2) o
        | none => "skip bad-args" }
  | "point_in_convex_poly2d" => some {
      model := fun a => run (do let p ← pv2; let poly ← plist pv2; pend; pure (fb (pointInConvexPoly2d p poly))) a
      oracle := fun a o => match run (do let p ← pv2; let poly ← plist pv2; pure (p, poly)) a with
        | some (p, poly) => oracleConvex (q2 p) (poly.map q2) o
        | none => "skip bad-args" }
  | "corner_direction" => some {
      model := fun a => run (do let p ← pv2; let q' ← pv2; let r ← pv2; pend; pure (fcorner (cornerDirection p q' r))) a
      oracle := fun a o => match run (do let p ← pv2; let q' ← pv2; let r ← pv2; pure (p, q', r)) a with
        | some (p, q', r) => oracleCorner (q2 p) (q2 q') (q2 r) o
        | none => "skip bad-args" }
  | "is_point_in_triangle" => some {
      model := fun a => run (do let p ← pv2; let q' ← pv2; let r ← pv2; let s ← pv2; pend
                                pure (fintri (isPointInTriangle p q' r s))) a
      oracle := fun a o => match run (do let p ← pv2; let q' ← pv2; let r ← pv2; let s ← pv2; pure (p, q', r, s)) a with
        | some (p, q', r, s) => oracleInTri (q2 p) (q2 q') (q2 r) (q2 s) o
        | none => "skip bad-args" }
  | "triangle_contains_point" => some {
      model := fun a => run (do let p ← pv2; let q' ← pv2; let r ← pv2; let s ← pv2; pend
                                pure (fb (triContainsPoint p q' r s))) a
      oracle := fun a o => match run (do let p ← pv2; let q' ← pv2; let r ← pv2; let s ← pv2; pure (p, q', r, s)) a with
        | some (p, q', r, s) => oracleTriContains (q2 p) (q2 q') (q2 r) (q2 s) o
        | none => "skip bad-args" }
  | "convex_polygons_intersection" => some {
      model := fun a => run (do let p1 ← plist pv2; let p2 ← plist pv2; let e ← pf; pend
                                pure (modelCvxLocs p1 p2 e)) a
      oracle := fun a o => match run (do let p1 ← plist pv2; let p2 ← plist pv2; let e ← pf; pure (p1, p2, e)) a with
        | some (p1, p2, e) =>
          if withinEps (p1.map q2) (p2.map q2) (q e) then "skip decision-inside-the-collinearity-dead-band" else
          oracleCvxLocs (p1.map q2) (p2.map q2) (q e) o
        | none => "skip bad-args" }
  | "convex_points_with_tolerances" => some {
      model := fun a => run (do let p1 ← plist pv2; let p2 ← plist pv2; let e ← pf; pend
                                let r := convexPolygonsIntersectionPoints p1.toArray p2.toArray e
                                pure (r.foldl (fun s v => s ++ " " ++ fv2 v) s!"{r.size}")) a
      oracle := fun a o => match run (do let p1 ← plist pv2; let p2 ← plist pv2; let e ← pf; pure (p1, p2, e)) a with
        | some (p1, p2, e) =>
          if withinEps (p1.map q2) (p2.map q2) (q e) then "skip decision-inside-the-collinearity-dead-band" else
          withOut (plist (do let x ← pfo; let y ← pfo; pure (⟨x, y⟩ : V2 Float))) o
            (oracleCvx (p1.map q2) (p2.map q2) (q e))
        | none => "skip bad-args" }
  | "convex_polygons_intersection_points" | "convex_axis_edge_pair" | "convex_large_pair" => some {
      model := fun a => run (do let p1 ← plist pv2; let p2 ← plist pv2; pend
                                let r := convexPolygonsIntersectionPoints p1.toArray p2.toArray defaultCollinearityEps
                                pure (r.foldl (fun s v => s ++ " " ++ fv2 v) s!"{r.size}")) a
      oracle := fun a o => match run (do let p1 ← plist pv2; let p2 ← plist pv2; pure (p1, p2)) a with
        | some (p1, p2) => withOut (plist (do let x ← pfo; let y ← pfo; pure (⟨x, y⟩ : V2 Float))) o
            (oracleCvx (p1.map q2) (p2.map q2) (100 / 4503599627370496))
        | none => "skip bad-args" }
  | _ => none

end C15
