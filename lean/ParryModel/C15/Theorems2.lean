import ParryModel.Field
import ParryModel.C15.Model
import ParryModel.C15.WalkLemmas
/-!
# C15, non-convex `polygons_intersection`: the intersection graph and the component walk

Theorems about `Model.C15.polygonsIntersectionOrd` (the model of `polygons_intersection`, `order` = the iteration order of
the hash map of the edges of `poly1`).  The statements of this file are **combinatorial**: they hold for every scalar type
`K` with a `Num` structure (no field law is used), hence in particular at the lawful instance `fieldNum K sq` of every
linearly ordered field *and* at `Float`, the instance the driver executes.  They hold for **every** `order`.
The geometric statements (the emitted intersection points lie on both boundaries) are at the end of `Theorems.lean`.
Helper lemmas (loop invariants, one-iteration case analysis): `WalkLemmas.lean`.
-/
namespace C15
open Model Model.C15
set_option linter.unusedSectionVars false

section graph
variable {K : Type} [Num K]

/-- **per-edge lists**: `intersections[p][e]` (after sorting) contains exactly the registered intersection points whose
edge on polygon `p` is `e` — sorting loses and invents nothing -/
theorem onEdge_spec (I : List (IPoint K)) (p e : Nat) (ip : IPoint K) :
    ip ∈ onEdge I p e ↔ ip ∈ I ∧ ip.edge p = e := mem_onEdge I p e ip

/-- **enumeration, soundness**: every registered intersection point comes from a pair of edges (indices in range) on
which `segments_intersection2d` answered `Point{loc1, loc2}`, and carries exactly those two locations -/
theorem mem_intersections (poly1 poly2 : Array (V2 K)) (eps : K) (ip : IPoint K)
    (h : ip ∈ intersections poly1 poly2 eps) :
    ip.e1 < poly1.size ∧ ip.e2 < poly2.size ∧
    ∃ l1 l2, segmentsIntersection2d (edgeA poly1 ip.e1) (edgeB poly1 ip.e1) (edgeA poly2 ip.e2) (edgeB poly2 ip.e2) eps
        = some (.point l1 l2) ∧
      ip.loc1 = PolyLoc.ofSegLoc ip.e1 ((ip.e1 + 1) % poly1.size) l1 ∧
      ip.loc2 = PolyLoc.ofSegLoc ip.e2 ((ip.e2 + 1) % poly2.size) l2 := by
  unfold intersections at h
  obtain ⟨hq, _, _⟩ := mem_numberFrom 0 _ ip h
  simp only [List.mem_flatMap, List.mem_range] at hq
  obtain ⟨i1, hi1, hq⟩ := hq
  simp only [edgeRow, List.mem_filterMap, List.mem_range] at hq
  obtain ⟨i2, hi2, hq⟩ := hq
  split at hq
  · rename_i l1 l2 hseg
    simp only [Option.some.injEq, Prod.mk.injEq] at hq
    obtain ⟨rfl, rfl, h3, h4⟩ := hq
    exact ⟨hi1, hi2, l1, l2, hseg, h3.symm, h4.symm⟩
  · simp at hq

/-- **enumeration, completeness**: every pair of edges on which `segments_intersection2d` answers `Point` is registered -/
theorem intersections_complete (poly1 poly2 : Array (V2 K)) (eps : K) (i1 i2 : Nat) (h1 : i1 < poly1.size)
    (h2 : i2 < poly2.size) (l1 l2 : SegLoc K)
    (hs : segmentsIntersection2d (edgeA poly1 i1) (edgeB poly1 i1) (edgeA poly2 i2) (edgeB poly2 i2) eps
        = some (.point l1 l2)) :
    ∃ ip ∈ intersections poly1 poly2 eps, ip.e1 = i1 ∧ ip.e2 = i2 ∧
      ip.loc1 = PolyLoc.ofSegLoc i1 ((i1 + 1) % poly1.size) l1 ∧ ip.loc2 = PolyLoc.ofSegLoc i2 ((i2 + 1) % poly2.size) l2 := by
  have hq : (i1, i2, PolyLoc.ofSegLoc i1 ((i1 + 1) % poly1.size) l1, PolyLoc.ofSegLoc i2 ((i2 + 1) % poly2.size) l2) ∈
      (List.range poly1.size).flatMap (edgeRow poly1 poly2 eps) := by
    simp only [List.mem_flatMap, List.mem_range]
    refine ⟨i1, h1, ?_⟩
    simp only [edgeRow, List.mem_filterMap, List.mem_range]
    refine ⟨i2, h2, ?_⟩
    simp only [edgeA, edgeB] at hs
    rw [hs]
  obtain ⟨ip, hm, he⟩ := of_mem_numberFrom 0 _ _ hq
  simp only [Prod.mk.injEq] at he
  exact ⟨ip, hm, he.1, he.2.1, he.2.2.1, he.2.2.2⟩

/-- the ids are `0 … n-1` in enumeration order: pairwise distinct -/
theorem intersections_ids (poly1 poly2 : Array (V2 K)) (eps : K) :
    (intersections poly1 poly2 eps).map (·.id) = List.range (intersections poly1 poly2 eps).length := by
  unfold intersections
  have hl : ∀ (n : Nat) (l : List (Nat × Nat × PolyLoc K × PolyLoc K)), (numberFrom n l).length = l.length := by
    intro n l
    have := congrArg List.length (numberFrom_ids (K := K) n l)
    simpa using this
  rw [numberFrom_ids, hl]
  exact (List.range_eq_range' (n := _)).symm

/-- **components_all_visited** (`polygons_intersection`, whatever the iteration order `order` of the hash map, provided
it lists every edge of `poly1` that carries an intersection): when the function returns `Ok(())`, **every intersection
point of the two boundaries is handed to the `out` closure exactly once** — so it belongs to exactly one of the output
components, no component is lost and no intersection is emitted twice.  This is the clause the seeded change
(`break` for `continue` in the loop that looks for an unvisited intersection) falsifies. -/
theorem components_all_visited (order : List Nat) (poly1 poly2 : Array (V2 K))
    (hord : ∀ ip ∈ intersections poly1 poly2 (defaultCollinearityEps : K), ip.e1 ∈ order)
    (hok : (polygonsIntersectionOrd order poly1 poly2).status = .ok) :
    ∀ ip ∈ intersections poly1 poly2 (defaultCollinearityEps : K),
      cntInter ip.id (polygonsIntersectionOrd order poly1 poly2).trace = 1 := by
  intro ip hip
  set I := intersections poly1 poly2 (defaultCollinearityEps : K) with hI
  set starts := order.flatMap (fun e => onEdge I 0 e) with hstarts
  have hsub : ∀ jp ∈ starts, jp ∈ I := by
    intro jp hj
    simp only [hstarts, List.mem_flatMap] at hj
    obtain ⟨e, _, hj⟩ := hj
    exact ((mem_onEdge I 0 e jp).1 hj).1
  have hmem : ip ∈ starts := by
    simp only [hstarts, List.mem_flatMap]
    exact ⟨ip.e1, hord ip hip, (mem_onEdge I 0 ip.e1 ip).2 ⟨hip, by simp [IPoint.edge]⟩⟩
  obtain ⟨a, _, c⟩ := outerLoop_spec poly1 poly2 (defaultCollinearityEps : K) I starts [] [] hsub (by simp [cntInter])
  have hne : I.isEmpty = false := by
    cases hI' : I with
    | nil => rw [hI'] at hip; simp at hip
    | cons x xs => rfl
  unfold polygonsIntersectionOrd at hok ⊢
  simp only [← hI, ← hstarts] at hok ⊢
  cases hr : (outerLoop poly1 poly2 (defaultCollinearityEps : K) I starts ([], [])).2 with
  | some e =>
    rw [hr] at hok
    cases e <;> simp at hok
  | none =>
    simp only [hne, Bool.false_eq_true, ↓reduceIte]
    rw [a ip.id]
    simp [c hr ip hmem]

/-- the same for the model the driver runs (edges of `poly1` in ascending order) -/
theorem components_all_visited_ascending (poly1 poly2 : Array (V2 K))
    (hok : (polygonsIntersection poly1 poly2).status = .ok) :
    ∀ ip ∈ intersections poly1 poly2 (defaultCollinearityEps : K),
      cntInter ip.id (polygonsIntersection poly1 poly2).trace = 1 :=
  components_all_visited (List.range poly1.size) poly1 poly2
    (fun ip h => List.mem_range.2 (mem_intersections poly1 poly2 _ ip h).1) hok

/-! non-vacuity (core `Rat` instance of `Num`, evaluated by the kernel): the slab `[0,10]×[0,2]` against the staple of the
seeded-change demonstration — four intersection points, all on the top edge of the slab, two components; the call
returns `Ok` and the theorem applies: each of the four points is emitted exactly once. -/

def exSlab : Array (V2 Rat) := #[⟨0, 0⟩, ⟨10, 0⟩, ⟨10, 2⟩, ⟨0, 2⟩]

def exStaple : Array (V2 Rat) := #[⟨2, 1⟩, ⟨3, 1⟩, ⟨3, 3⟩, ⟨6, 3⟩, ⟨6, 1⟩, ⟨7, 1⟩, ⟨7, 4⟩, ⟨2, 4⟩]

set_option maxRecDepth 100000 in
example : (polygonsIntersection exSlab exStaple).status = .ok ∧
    (intersections exSlab exStaple (defaultCollinearityEps : Rat)).length = 4 ∧
    (polygonsIntersectionPoints exSlab exStaple).2.length = 2 := by
  decide +kernel

/-- **well-formed output** (`polygons_intersection`, every iteration order): every call of the `out` closure passes either
the two locations of a *registered intersection point* of two edges, or `OnVertex(v)` for an *existing vertex* `v` of
`poly1` (first slot) or of `poly2` (second slot), or `(None, None)`.  (`mem_intersections` says what a registered
intersection point is; `Theorems.lean` adds the geometry.) -/
theorem polygons_intersection_trace_wellformed (order : List Nat) (poly1 poly2 : Array (V2 K)) :
    ∀ e ∈ (polygonsIntersectionOrd order poly1 poly2).trace,
      GoodEmit (intersections poly1 poly2 (defaultCollinearityEps : K)) poly1.size poly2.size e := by
  set I := intersections poly1 poly2 (defaultCollinearityEps : K) with hI
  have hpos : I ≠ [] → 0 < poly1.size ∧ 0 < poly2.size := by
    intro hne
    obtain ⟨ip, hip⟩ := List.exists_mem_of_ne_nil I hne
    obtain ⟨a, b, _⟩ := mem_intersections poly1 poly2 _ ip hip
    exact ⟨by omega, by omega⟩
  set starts := order.flatMap (fun e => onEdge I 0 e) with hstarts
  have hsub : ∀ jp ∈ starts, jp ∈ I := by
    intro jp hj
    simp only [hstarts, List.mem_flatMap] at hj
    obtain ⟨e, _, hj⟩ := hj
    exact ((mem_onEdge I 0 e jp).1 hj).1
  obtain ⟨hg, _⟩ := outerLoop_WF poly1 poly2 (defaultCollinearityEps : K) I hpos starts [] [] hsub (by simp)
  have hvt : ∀ (p n : Nat), p < 2 → n = plen poly1.size poly2.size p →
      ∀ e ∈ (List.range n).map (Emit.vtx (K := K) p), GoodEmit I poly1.size poly2.size e := by
    intro p n hp hn e he
    simp only [List.mem_map, List.mem_range] at he
    obtain ⟨v, hv, rfl⟩ := he
    exact ⟨hp, by omega⟩
  have happ : ∀ (p n : Nat), p < 2 → n = plen poly1.size poly2.size p →
      ∀ e ∈ (outerLoop poly1 poly2 (defaultCollinearityEps : K) I starts ([], [])).1.2 ++
        (List.range n).map (Emit.vtx (K := K) p) ++ [Emit.fin], GoodEmit I poly1.size poly2.size e := by
    intro p n hp hn e he
    rcases List.mem_append.mp he with he | he
    · rcases List.mem_append.mp he with he | he
      · exact hg e he
      · exact hvt p n hp hn e he
    · simp only [List.mem_singleton] at he; subst he; trivial
  unfold polygonsIntersectionOrd
  simp only [← hI, ← hstarts]
  intro e he
  split at he
  · exact hg e he
  · exact hg e he
  · split_ifs at he
    · exact hg e he
    · exact happ 0 _ (by decide) rfl e he
    · exact hg e he
    · exact happ 1 _ (by decide) rfl e he
    · exact hg e he
    · exact hg e he

/-- **the `unreachable!()` of the traversal is unreachable, and no index is out of bounds**: on two non-empty vertex
lists `polygons_intersection` never panics — it returns `Ok(())` or `Err(InfiniteLoop)` (every iteration order). -/
theorem polygons_intersection_never_panics (order : List Nat) (poly1 poly2 : Array (V2 K))
    (h1 : poly1.size ≠ 0) (h2 : poly2.size ≠ 0) :
    (polygonsIntersectionOrd order poly1 poly2).status ≠ .panic := by
  set I := intersections poly1 poly2 (defaultCollinearityEps : K) with hI
  set starts := order.flatMap (fun e => onEdge I 0 e) with hstarts
  have hsub : ∀ jp ∈ starts, jp ∈ I := by
    intro jp hj
    simp only [hstarts, List.mem_flatMap] at hj
    obtain ⟨e, _, hj⟩ := hj
    exact ((mem_onEdge I 0 e jp).1 hj).1
  obtain ⟨_, hne⟩ := outerLoop_WF poly1 poly2 (defaultCollinearityEps : K) I (fun _ => ⟨by omega, by omega⟩)
    starts [] [] hsub (by simp)
  have hnc := outerLoop_ne_closed poly1 poly2 (defaultCollinearityEps : K) I starts ([], [])
  unfold polygonsIntersectionOrd
  simp only [← hI, ← hstarts]
  cases hr : (outerLoop poly1 poly2 (defaultCollinearityEps : K) I starts ([], [])).2 with
  | none =>
    simp only
    split_ifs <;> simp_all
  | some e =>
    cases e with
    | closed => exact absurd hr hnc
    | infiniteLoop => simp
    | unreachable => exact absurd hr hne

/-! ## the seeded variant (`break` for `continue`) is separated from the code by `components_all_visited` -/

/-- the inner `for inter in inters` of the **seeded variant**: `break` (leave the row) at the first visited intersection -/
def innerLoopBreak (poly1 poly2 : Array (V2 K)) (eps : K) (I : List (IPoint K)) :
    List (IPoint K) → List Nat × List (Emit K) → (List Nat × List (Emit K)) × Option WalkEnd
  | [], s => (s, none)
  | ip :: rest, (vis, tr) =>
    if vis.contains ip.id then ((vis, tr), none) else
    let p := startPoly poly1 poly2 eps ip
    let r := walk I poly1.size poly2.size (poly1.size * poly2.size + 1) ⟨p, ip.edge p, .onInter ip.id, vis, tr⟩
    match r.2 with
    | .closed => innerLoopBreak poly1 poly2 eps I rest (r.1.visited, r.1.trace)
    | e => ((r.1.visited, r.1.trace), some e)

/-- the outer `for inters in intersections[0].values()` of the seeded variant -/
def outerLoopBreak (poly1 poly2 : Array (V2 K)) (eps : K) (I : List (IPoint K)) :
    List (List (IPoint K)) → List Nat × List (Emit K) → (List Nat × List (Emit K)) × Option WalkEnd
  | [], s => (s, none)
  | row :: rows, s =>
    match innerLoopBreak poly1 poly2 eps I row s with
    | (s', none) => outerLoopBreak poly1 poly2 eps I rows s'
    | r => r
set_option maxRecDepth 100000 in
/-- **the seeded change is refuted by the theorem's clause**: with `break` for `continue`, on the slab / staple pair the
walk ends normally but two of the four intersection points are never emitted (one of the two components is lost) —
`components_all_visited` is exactly the statement that separates the code from the seeded variant. -/
theorem seeded_break_variant_loses_a_component :
    let I := intersections exSlab exStaple (defaultCollinearityEps : Rat)
    let r := outerLoopBreak exSlab exStaple (defaultCollinearityEps : Rat) I ((List.range exSlab.size).map (onEdge I 0)) ([], [])
    r.2.isNone = true ∧ (I.filter fun ip => cntInter ip.id r.1.2 == 0).length = 2 ∧
    (I.filter fun ip => cntInter ip.id (polygonsIntersection exSlab exStaple).trace == 1).length = 4 := by
  decide +kernel

/-! ## no boundary intersection: the two containment fall-backs -/

private theorem onEdge_nil (p e : Nat) : onEdge ([] : List (IPoint K)) p e = [] := by
  simp [onEdge, sortByKey]

private theorem flatMap_onEdge_nil (order : List Nat) :
    (order.flatMap fun e => onEdge ([] : List (IPoint K)) 0 e) = [] := by
  simp [onEdge_nil]

/-- **no boundary intersection** (every iteration order, every `Num`): the output is decided by the two even–odd tests —
all of `poly1` (in order, one component) if its first vertex is inside `poly2`; otherwise all of `poly2` if its first
vertex is inside `poly1`; otherwise nothing. -/
theorem polygons_intersection_no_crossing (order : List Nat) (poly1 poly2 : Array (V2 K))
    (h1 : poly1.size ≠ 0) (h2 : poly2.size ≠ 0)
    (hI : intersections poly1 poly2 (defaultCollinearityEps : K) = []) :
    (polygonsIntersectionOrd order poly1 poly2).status = .ok ∧
    (polygonsIntersectionOrd order poly1 poly2).trace =
      if pointInPoly2d (ppt poly1 0) poly2.toList then (List.range poly1.size).map (Emit.vtx 0) ++ [Emit.fin]
      else if pointInPoly2d (ppt poly2 0) poly1.toList then (List.range poly2.size).map (Emit.vtx 1) ++ [Emit.fin]
      else [] := by
  unfold polygonsIntersectionOrd
  simp only [hI, flatMap_onEdge_nil, outerLoop, List.isEmpty_nil, if_true, h1, h2, if_false, List.nil_append]
  split_ifs <;> simp

private theorem split_vertices (poly1 poly2 : Array (V2 K)) (p : Nat) (l : List Nat)
    (acc : List (List (V2 K))) (cur : List (V2 K)) :
    (l.map (Emit.vtx (K := K) p)).foldl (splitStep poly1 poly2) (acc, cur) =
    (acc, cur ++ l.map (ppt (if p = 0 then poly1 else poly2))) := by
  induction l generalizing cur with
  | nil => simp
  | cons v rest ih => simp [ih, splitStep]

private theorem range_map_ppt (poly : Array (V2 K)) : (List.range poly.size).map (ppt poly) = poly.toList := by
  apply List.ext_getElem
  · simp
  · intro i h1 h2
    simp only [List.length_map, List.length_range] at h1
    simp [ppt, Array.getD, h1]

/-- the same for `polygons_intersection_points`: `Ok([poly1])`, `Ok([poly2])` or `Ok([])` -/
theorem polygons_intersection_points_no_crossing (poly1 poly2 : Array (V2 K))
    (h1 : poly1.size ≠ 0) (h2 : poly2.size ≠ 0)
    (hI : intersections poly1 poly2 (defaultCollinearityEps : K) = []) :
    polygonsIntersectionPoints poly1 poly2 =
      (.ok, if pointInPoly2d (ppt poly1 0) poly2.toList then [poly1.toList]
            else if pointInPoly2d (ppt poly2 0) poly1.toList then [poly2.toList] else []) := by
  obtain ⟨hs, ht⟩ := polygons_intersection_no_crossing (List.range poly1.size) poly1 poly2 h1 h2 hI
  have n1 : poly1 ≠ #[] := fun h => h1 (by simp [h])
  have n2 : poly2 ≠ #[] := fun h => h2 (by simp [h])
  unfold polygonsIntersectionPoints polygonsIntersection
  simp only [hs, ht, if_true]
  split_ifs
  · simp only [splitComponents, List.foldl_append, split_vertices, List.nil_append, if_true, range_map_ppt]
    simp [splitStep, n1]
  · simp only [splitComponents, List.foldl_append, split_vertices, List.nil_append]
    simp [splitStep, n2, range_map_ppt]
  · simp [splitComponents]

/-! non-vacuity: a unit square strictly inside the 4×4 square, both argument orders (no intersection point; the inner
square comes out), and two far-apart squares (nothing comes out). -/
def exBig : Array (V2 Rat) := #[⟨0, 0⟩, ⟨4, 0⟩, ⟨4, 4⟩, ⟨0, 4⟩]
def exSmall : Array (V2 Rat) := #[⟨1, 1⟩, ⟨2, 1⟩, ⟨2, 2⟩, ⟨1, 2⟩]
def exFar : Array (V2 Rat) := #[⟨9, 9⟩, ⟨10, 9⟩, ⟨10, 10⟩, ⟨9, 10⟩]

set_option maxRecDepth 100000 in
example : (intersections exBig exSmall (defaultCollinearityEps : Rat)).length = 0 ∧
    (polygonsIntersectionPoints exBig exSmall).2.map (·.map fun v => (v.x, v.y)) = [[(1, 1), (2, 1), (2, 2), (1, 2)]] ∧
    (polygonsIntersectionPoints exSmall exBig).2.map (·.map fun v => (v.x, v.y)) = [[(1, 1), (2, 1), (2, 2), (1, 2)]] ∧
    (intersections exBig exFar (defaultCollinearityEps : Rat)).length = 0 ∧
    (polygonsIntersectionPoints exBig exFar).2.length = 0 := by
  decide +kernel

end graph
end C15
