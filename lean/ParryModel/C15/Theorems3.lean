import ParryModel.Field
import ParryModel.C15.Model
import ParryModel.C15.WalkLemmas
import ParryModel.C15.FollowLemmas
import ParryModel.C15.Theorems2
/-!
# C15, non-convex `polygons_intersection`: the walk follows the two boundaries

`walk_follows_boundaries`: two consecutive items of an output component are always **neighbours on one edge of one of the
two polygons**, with no registered intersection point between them — the output polygon is made of maximal
intersection-free pieces of the two boundaries.  This is the combinatorial half of "the output is the boundary of
`P ∩ Q`"; the other half (which side the pieces are on) is the Jordan-curve argument that is not proved
(`polygons_intersection_region_full` in `Theorems.lean`).

Combinatorial statements: every `Num` scalar type, every iteration order.  `onEdge_sorted` (what "neighbours" means
geometrically) needs the order laws and is stated at the lawful instance.
-/
namespace C15
open Model Model.C15
set_option linter.unusedSectionVars false

section follow
variable {K : Type} [Num K]

theorem intersections_idsInj (poly1 poly2 : Array (V2 K)) (eps : K) : IdsInj (intersections poly1 poly2 eps) := by
  have hnd : ((intersections poly1 poly2 eps).map (·.id)).Nodup := by
    rw [intersections_ids]; exact List.nodup_range
  intro a ha b hb hab
  exact List.inj_on_of_nodup_map hnd ha hb hab

/-- **walk_follows_boundaries** (`polygons_intersection`, every iteration order, every input): in the stream handed to the
`out` closure, two consecutive items that are not separated by the `(None, None)` marker are always related by `Follows`:
* two intersection points → they are **consecutive entries of the sorted intersection list of one edge** of one polygon;
* an intersection point then a vertex → the point is the **last** entry of the list of an edge and the vertex is the end
  point of that edge;
* a vertex then an intersection point → the point is the **first** entry of the list of the edge starting at the vertex;
* two vertices → consecutive vertices of the same polygon, joined by an edge that carries **no** intersection point.
Hence every edge of every output component is a piece of an edge of `poly1` or of `poly2` that contains no registered
intersection point in its interior (with `onEdge_sorted` / `centeredBcoords_param`: "between" in the sense of the edge
parameter). -/
theorem walk_follows_boundaries (order : List Nat) (poly1 poly2 : Array (V2 K)) :
    Chained (Adj (intersections poly1 poly2 (defaultCollinearityEps : K)) poly1.size poly2.size)
      (polygonsIntersectionOrd order poly1 poly2).trace := by
  set I := intersections poly1 poly2 (defaultCollinearityEps : K) with hI
  set starts := order.flatMap (fun e => onEdge I 0 e) with hstarts
  obtain ⟨hch, hlast⟩ := outerLoop_follow poly1 poly2 (defaultCollinearityEps : K) I
    (intersections_idsInj poly1 poly2 _) starts [] [] trivial (by simp)
  have hfall : ∀ (p : Nat), p < 2 → I = [] → (outerLoop poly1 poly2 (defaultCollinearityEps : K) I starts ([], [])).2 = none →
      Chained (Adj I poly1.size poly2.size)
        ((outerLoop poly1 poly2 (defaultCollinearityEps : K) I starts ([], [])).1.2 ++
          (List.range (plen poly1.size poly2.size p)).map (Emit.vtx (K := K) p) ++ [Emit.fin]) := by
    intro p hp hIe hnone
    rw [(chained_snoc _ _ _)]
    refine ⟨?_, fun z _ => adj_fin_right z⟩
    apply chained_append _ _ _ hch
    · rw [List.range_eq_range']
      exact chained_vertices I _ _ p hp hIe _ 0 (by omega)
    · intro z w hz _
      rw [hlast hnone z hz]
      exact adj_fin_left w
  unfold polygonsIntersectionOrd
  simp only [← hI, ← hstarts]
  cases hr : (outerLoop poly1 poly2 (defaultCollinearityEps : K) I starts ([], [])).2 with
  | some e => cases e <;> exact hch
  | none =>
    simp only
    cases hIe : I with
    | cons x xs => simpa [hIe] using (hIe ▸ hch)
    | nil =>
      have h0 := hfall 0 (by decide) hIe hr
      have h1 := hfall 1 (by decide) hIe hr
      simp only [plen, if_true, show ((1 : Nat) = 0) = False from by simp, if_false] at h0 h1
      rw [hIe] at h0 h1 hch
      simp only [List.isEmpty_nil, if_true]
      split_ifs
      · exact hch
      · exact h0
      · exact hch
      · exact h1
      · exact hch

end follow

section sorted
variable {K : Type} [Field K] [LinearOrder K] [IsStrictOrderedRing K] (sq : K → K)

private theorem insertByKey_sorted {α : Type} (key : α → K) (x : α) (l : List α) :
    letI := fieldNum K sq
    l.Pairwise (fun a b => key a ≤ key b) → (insertByKey key x l).Pairwise (fun a b => key a ≤ key b) := by
  intro h
  induction l with
  | nil => simp [insertByKey]
  | cons y ys ih =>
    unfold insertByKey
    rw [List.pairwise_cons] at h
    split_ifs with hlt
    · refine List.pairwise_cons.2 ⟨?_, List.pairwise_cons.2 h⟩
      intro b hb
      rcases List.mem_cons.mp hb with rfl | hb
      · exact le_of_lt hlt
      · exact le_trans (le_of_lt hlt) (h.1 b hb)
    · refine List.pairwise_cons.2 ⟨?_, ih h.2⟩
      intro b hb
      have hb' : b ∈ x :: ys := (@insertByKey_perm K (fieldNum K sq) α key x ys).mem_iff.1 hb
      rcases List.mem_cons.mp hb' with rfl | hb
      · exact not_lt.mp hlt
      · exact h.1 b hb

/-- **the per-edge lists are sorted** by the edge parameter `centered_bcoords` (exact arithmetic): consecutive entries are
neighbours along the edge -/
theorem onEdge_sorted (I : List (IPoint K)) (p e : Nat) :
    letI := fieldNum K sq
    (onEdge I p e).Pairwise fun a b =>
      centeredBcoords (a.loc p) (a.edge p) ≤ centeredBcoords (b.loc p) (b.edge p) := by
  unfold onEdge sortByKey
  generalize (I.filter fun ip => ip.edge p == e) = l
  suffices h : ∀ acc : List (IPoint K),
      acc.Pairwise (fun a b => @centeredBcoords K (fieldNum K sq) (a.loc p) (a.edge p) ≤ @centeredBcoords K (fieldNum K sq) (b.loc p) (b.edge p)) →
      (l.foldl (fun acc x => @insertByKey K (fieldNum K sq) _ (fun ip => @centeredBcoords K (fieldNum K sq) (ip.loc p) (ip.edge p)) x acc) acc).Pairwise
        (fun a b => @centeredBcoords K (fieldNum K sq) (a.loc p) (a.edge p) ≤ @centeredBcoords K (fieldNum K sq) (b.loc p) (b.edge p)) from
    h [] List.Pairwise.nil
  induction l with
  | nil => intro acc h; simpa using h
  | cons x xs ih =>
    intro acc h
    simp only [List.foldl_cons]
    exact ih _ (insertByKey_sorted sq _ x acc h)

end sorted
end C15
