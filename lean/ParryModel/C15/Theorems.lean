import ParryModel.Field
import ParryModel.Shapes
import ParryModel.C15.Model
import ParryModel.C15.Cyclic
import ParryModel.C15.Theorems2
import ParryModel.C15.Theorems3
import ParryModel.C15.Theorems4
/-!
# C15 property theorems (2-D predicates), for every linearly ordered field.

Statements quantify over the model functions of `C15/Model.lean` at the lawful instance `fieldNum K sq`.
Specification vocabulary defined here: `area2` (twice the signed area), `OnSeg` (closed segment), `locPt` (the point a
`SegmentPointLocation` denotes), `crossDir` (`(b-a)×(d-c)`), `Crosses`/`crossingNumber` (half-open ray crossing rule).
-/
namespace C15
open Model Model.C15

variable {K : Type} [Field K] [LinearOrder K] [IsStrictOrderedRing K] (sq : K → K)

/-! ## orientation2d -/

theorem orientation2d_spec (a b c : V2 K) (eps : K) (he : 0 ≤ eps) :
    letI := fieldNum K sq
    (orientation2d a b c eps = .ccw ↔ eps < area2 a b c) ∧
    (orientation2d a b c eps = .cw ↔ area2 a b c < -eps) ∧
    (orientation2d a b c eps = .degenerate ↔ |area2 a b c| ≤ eps) := by
  have hA : @V2.perp K (fieldNum K sq) (@V2.sub K (fieldNum K sq) b a) (@V2.sub K (fieldNum K sq) c a) = area2 a b c := rfl
  unfold orientation2d
  simp only [hA]
  split_ifs with h1 h2
  · refine ⟨iff_of_true rfl h1, iff_of_false (by simp) (by linarith), iff_of_false (by simp) ?_⟩
    rw [abs_le]; intro h; linarith [h.2]
  · refine ⟨iff_of_false (by simp) h1, iff_of_true rfl h2, iff_of_false (by simp) ?_⟩
    rw [abs_le]; intro h; linarith [h.1]
  · refine ⟨iff_of_false (by simp) h1, iff_of_false (by simp) h2, iff_of_true rfl ?_⟩
    rw [abs_le]; push Not at h1 h2; exact ⟨h2, h1⟩

/-- the method `Triangle::orientation` (`dim2`) computes what `Triangle::orientation2d` computes (two copies of one body
in the source; both are run against the model), hence `orientation2d_spec` holds for it -/
theorem triangle_orientation_eq (a b c : V2 K) (eps : K) :
    letI := fieldNum K sq
    triOrientation a b c eps = orientation2d a b c eps := rfl

/-! ## segments_intersection2d, non-parallel branch -/

/-- the point denoted by a `SegmentPointLocation` on `[a, b]` (`barycentric_coordinates` applied to `a`, `b`) -/
def locPt (a b : V2 K) : SegLoc K → V2 K
  | .onVertex i => if i = 0 then a else b
  | .onEdge u v => ⟨a.x * u + b.x * v, a.y * u + b.y * v⟩

/-- `p` lies on the closed segment `[a, b]` -/
def OnSeg (a b p : V2 K) : Prop :=
  ∃ t : K, 0 ≤ t ∧ t ≤ 1 ∧ p.x = a.x + t * (b.x - a.x) ∧ p.y = a.y + t * (b.y - a.y)

/-- `(b - a) × (d - c)`: zero iff the two lines are parallel -/
def crossDir (a b c d : V2 K) : K := (b.x - a.x) * (d.y - c.y) - (b.y - a.y) * (d.x - c.x)

theorem segDenom_eq (a b c d : V2 K) :
    letI := fieldNum K sq
    segDenom a b c d = - crossDir a b c d := by
  simp only [segDenom, crossDir]; ring

private theorem locOfParam_spec (a b : V2 K) (s : K) :
    letI := fieldNum K sq
    locPt a b (locOfParam s) = ⟨a.x + s * (b.x - a.x), a.y + s * (b.y - a.y)⟩ ∧
    (locOfParam s = .onVertex 0 ↔ s = 0) ∧ (locOfParam s = .onVertex 1 ↔ s = 1) := by
  simp only [locOfParam, neq, Bool.and_eq_true, decide_eq_true_eq]
  by_cases h0 : s = 0
  · subst h0; simp [locPt]
  · by_cases h1 : s = 1
    · subst h1
      have : ¬ ((1:K) ≤ 0) := not_le.mpr zero_lt_one
      simp [locPt, this]
    · have e0 : ¬ (s ≤ 0 ∧ 0 ≤ s) := fun h => h0 (le_antisymm h.1 h.2)
      have e1 : ¬ (s ≤ 1 ∧ 1 ≤ s) := fun h => h1 (le_antisymm h.1 h.2)
      simp only [e0, e1, if_false, locPt, h0, h1, reduceCtorEq]
      refine ⟨?_, by simp, by simp⟩
      congr 1 <;> ring

/-- parameter of the intersection point on `[a,b]` / on `[c,d]` as computed by the code (`num / denom`) -/
def sParam (a b c d : V2 K) : K :=
  (a.x * (d.y - c.y) + c.x * (a.y - d.y) + d.x * (c.y - a.y)) / (- crossDir a b c d)
def tParam (a b c d : V2 K) : K :=
  (-(a.x * (c.y - b.y) + b.x * (a.y - c.y) + c.x * (b.y - a.y))) / (- crossDir a b c d)

/-- the code's rejection test `0 > s || s > 1 || 0 > t || t > 1` -/
def OutOfRange (a b c d : V2 K) : Prop :=
  sParam a b c d < 0 ∨ 1 < sParam a b c d ∨ tParam a b c d < 0 ∨ 1 < tParam a b c d

private theorem seg_eval (a b c d : V2 K) (eps : K)
    (h1 : eps ≤ |crossDir a b c d|) (h2 : (1 / 2 ^ 52 : K) < |crossDir a b c d|) :
    letI := fieldNum K sq
    (OutOfRange a b c d → segmentsIntersection2d a b c d eps = none) ∧
    (¬ OutOfRange a b c d → segmentsIntersection2d a b c d eps =
      some (.point (locOfParam (sParam a b c d)) (locOfParam (tParam a b c d)))) := by
  have hd := segDenom_eq sq a b c d
  unfold segmentsIntersection2d OutOfRange
  simp only [hd, fieldNum_nabs, abs_neg, ulpsEqZero, epsMach, fieldNum_lit]
  have hl : ((mkRat 1 4503599627370496 : Rat) : K) = 1 / 2 ^ 52 := by norm_num
  have c1 : ¬ (|crossDir a b c d| < eps) := not_lt.mpr h1
  have c2 : ¬ ((if 0 < -crossDir a b c d then -crossDir a b c d - 0 else 0 - -crossDir a b c d) ≤ 1 / 2 ^ 52) := by
    split_ifs with h
    · rw [sub_zero]; intro h'; have := abs_of_neg (neg_pos.mp h); linarith
    · rw [zero_sub, neg_neg]; intro h'; have := abs_of_nonneg (neg_nonpos.mp (not_lt.mp h)); linarith
  simp only [hl, c1, c2, decide_false, Bool.or_false, Bool.false_eq_true, if_false, sParam, tParam,
    Bool.or_eq_true, decide_eq_true_eq, or_assoc]
  constructor
  · intro h; simp only [h, if_true]
  · intro h; simp only [h, if_false]

omit [LinearOrder K] [IsStrictOrderedRing K] in
private theorem sParam_mul (a b c d : V2 K) (hD : crossDir a b c d ≠ 0) :
    sParam a b c d * (-crossDir a b c d) = a.x * (d.y - c.y) + c.x * (a.y - d.y) + d.x * (c.y - a.y) :=
  div_mul_cancel₀ _ (neg_ne_zero.mpr hD)
omit [LinearOrder K] [IsStrictOrderedRing K] in
private theorem tParam_mul (a b c d : V2 K) (hD : crossDir a b c d ≠ 0) :
    tParam a b c d * (-crossDir a b c d) = -(a.x * (c.y - b.y) + b.x * (a.y - c.y) + c.x * (b.y - a.y)) :=
  div_mul_cancel₀ _ (neg_ne_zero.mpr hD)

private theorem meet_x (a b c d : V2 K) (hD : crossDir a b c d ≠ 0) :
    a.x + sParam a b c d * (b.x - a.x) = c.x + tParam a b c d * (d.x - c.x) := by
  apply mul_right_cancel₀ (neg_ne_zero.mpr hD)
  have hs := sParam_mul a b c d hD; have ht := tParam_mul a b c d hD
  unfold crossDir at *
  linear_combination (b.x - a.x) * hs - (d.x - c.x) * ht

private theorem meet_y (a b c d : V2 K) (hD : crossDir a b c d ≠ 0) :
    a.y + sParam a b c d * (b.y - a.y) = c.y + tParam a b c d * (d.y - c.y) := by
  apply mul_right_cancel₀ (neg_ne_zero.mpr hD)
  have hs := sParam_mul a b c d hD; have ht := tParam_mul a b c d hD
  unfold crossDir at *
  linear_combination (b.y - a.y) * hs - (d.y - c.y) * ht

/-- a common point of the two lines has exactly the parameters the code computes -/
private theorem params_unique (a b c d : V2 K) (hD : crossDir a b c d ≠ 0) (u v : K)
    (hx : a.x + u * (b.x - a.x) = c.x + v * (d.x - c.x)) (hy : a.y + u * (b.y - a.y) = c.y + v * (d.y - c.y)) :
    u = sParam a b c d ∧ v = tParam a b c d := by
  have hn : -crossDir a b c d ≠ 0 := neg_ne_zero.mpr hD
  unfold sParam tParam
  constructor
  · rw [eq_div_iff hn]; unfold crossDir; linear_combination (d.x - c.x) * hy - (d.y - c.y) * hx
  · rw [eq_div_iff hn]; unfold crossDir; linear_combination (b.x - a.x) * hy - (b.y - a.y) * hx

/-- **C15, segments, non-parallel branch** (`|(b-a)×(d-c)| ≥ eps` and `> f64::EPSILON`, i.e. the code does not take its
parallel branch), for every input:
* `None` ⇒ the two closed segments have no common point;
* `Some(Point{loc1, loc2})` ⇒ the two locations denote the same point, it lies on both segments, it is the *only*
  common point, and a location is tagged `OnVertex(i)` **iff** the point is exactly that end point;
* `Segment{..}` is never returned. -/
theorem segments_nonparallel (a b c d : V2 K) (eps : K)
    (h1 : eps ≤ |crossDir a b c d|) (h2 : (1 / 2 ^ 52 : K) < |crossDir a b c d|) :
    letI := fieldNum K sq
    match segmentsIntersection2d a b c d eps with
    | none => ∀ p, OnSeg a b p → OnSeg c d p → False
    | some (.point l1 l2) =>
        locPt a b l1 = locPt c d l2 ∧ OnSeg a b (locPt a b l1) ∧ OnSeg c d (locPt c d l2) ∧
        (∀ p, OnSeg a b p → OnSeg c d p → p = locPt a b l1) ∧
        (l1 = .onVertex 0 ↔ locPt a b l1 = a) ∧ (l1 = .onVertex 1 ↔ locPt a b l1 = b) ∧
        (l2 = .onVertex 0 ↔ locPt c d l2 = c) ∧ (l2 = .onVertex 1 ↔ locPt c d l2 = d)
    | some (.segment ..) => False := by
  have hpos : (0 : K) < 1 / 2 ^ 52 := by positivity
  have hD : crossDir a b c d ≠ 0 := fun h => by rw [h, abs_zero] at h2; linarith
  obtain ⟨hnone, hsome⟩ := seg_eval sq a b c d eps h1 h2
  by_cases hr : OutOfRange a b c d
  · rw [hnone hr]
    rintro p ⟨u, hu0, hu1, hpx, hpy⟩ ⟨v, hv0, hv1, hqx, hqy⟩
    obtain ⟨rfl, rfl⟩ := params_unique a b c d hD u v (hpx.symm.trans hqx) (hpy.symm.trans hqy)
    rcases hr with h | h | h | h <;> linarith
  · rw [hsome hr]
    simp only [OutOfRange, not_or, not_lt] at hr
    obtain ⟨hs0, hs1, ht0, ht1⟩ := hr
    obtain ⟨e1, v10, v11⟩ := locOfParam_spec sq a b (sParam a b c d)
    obtain ⟨e2, v20, v21⟩ := locOfParam_spec sq c d (tParam a b c d)
    have hab : ¬ (b.x - a.x = 0 ∧ b.y - a.y = 0) := fun h => hD (by unfold crossDir; rw [h.1, h.2]; ring)
    have hcd : ¬ (d.x - c.x = 0 ∧ d.y - c.y = 0) := fun h => hD (by unfold crossDir; rw [h.1, h.2]; ring)
    -- `a + s (b - a) = a ↔ s = 0`, `= b ↔ s = 1`
    have key : ∀ (p q : V2 K) (s : K), ¬ (q.x - p.x = 0 ∧ q.y - p.y = 0) →
        (((⟨p.x + s * (q.x - p.x), p.y + s * (q.y - p.y)⟩ : V2 K) = p ↔ s = 0) ∧
         ((⟨p.x + s * (q.x - p.x), p.y + s * (q.y - p.y)⟩ : V2 K) = q ↔ s = 1)) := by
      intro p q s hpq
      obtain ⟨px, py⟩ := p; obtain ⟨qx, qy⟩ := q
      simp only [V2.mk.injEq] at hpq ⊢
      constructor
      · constructor
        · rintro ⟨hx, hy⟩
          by_contra hs
          exact hpq ⟨by have : s * (qx - px) = 0 := by linarith
                        exact (mul_eq_zero.mp this).resolve_left hs,
                     by have : s * (qy - py) = 0 := by linarith
                        exact (mul_eq_zero.mp this).resolve_left hs⟩
        · rintro rfl; constructor <;> ring
      · constructor
        · rintro ⟨hx, hy⟩
          by_contra hs
          have hs' : s - 1 ≠ 0 := sub_ne_zero.mpr hs
          exact hpq ⟨by have : (s - 1) * (qx - px) = 0 := by linarith
                        exact (mul_eq_zero.mp this).resolve_left hs',
                     by have : (s - 1) * (qy - py) = 0 := by linarith
                        exact (mul_eq_zero.mp this).resolve_left hs'⟩
        · rintro rfl; constructor <;> ring
    refine ⟨?_, ?_, ?_, ?_, ?_, ?_, ?_, ?_⟩
    · rw [e1, e2, meet_x a b c d hD, meet_y a b c d hD]
    · rw [e1]; exact ⟨sParam a b c d, hs0, hs1, rfl, rfl⟩
    · rw [e2]; exact ⟨tParam a b c d, ht0, ht1, rfl, rfl⟩
    · rintro ⟨px, py⟩ ⟨u, hu0, hu1, hpx, hpy⟩ ⟨v, hv0, hv1, hqx, hqy⟩
      obtain ⟨rfl, rfl⟩ := params_unique a b c d hD u v (hpx.symm.trans hqx) (hpy.symm.trans hqy)
      rw [e1]; simp only at hpx hpy; rw [hpx, hpy]
    · rw [e1, v10]; exact ((key a b _ hab).1).symm
    · rw [e1, v11]; exact ((key a b _ hab).2).symm
    · rw [e2, v20]; exact ((key c d _ hcd).1).symm
    · rw [e2, v21]; exact ((key c d _ hcd).2).symm

/-- non-vacuity: the hypotheses hold for the crossing (0,0)-(1,0) × (1/2,1/4)-(1/2,-1/4) (the defect witness), eps = 0 -/
example : (0 : ℚ) ≤ |crossDir (⟨0, 0⟩ : V2 ℚ) ⟨1, 0⟩ ⟨1/2, 1/4⟩ ⟨1/2, -1/4⟩| ∧
    (1 / 2 ^ 52 : ℚ) < |crossDir (⟨0, 0⟩ : V2 ℚ) ⟨1, 0⟩ ⟨1/2, 1/4⟩ ⟨1/2, -1/4⟩| := by
  unfold crossDir; norm_num [abs_of_neg]

/-- the corrected model on the defect witness: both locations are the edge midpoints -/
example : @segmentsIntersection2d ℚ (fieldNum ℚ id) ⟨0, 0⟩ ⟨1, 0⟩ ⟨1/2, 1/4⟩ ⟨1/2, -1/4⟩ 0 =
    some (.point (.onEdge (1/2) (1/2)) (.onEdge (1/2) (1/2))) := by
  simp [segmentsIntersection2d, segDenom, ulpsEqZero, epsMach, locOfParam, neq, nabs, lit, fieldNum_ofRat]
  norm_num

/-- the location rule of the **pinned tree** (`s == denom` where `s == 1.0` is meant) -/
def locOfParamPinned (s denom : K) : SegLoc K :=
  if s = 0 then .onVertex 0 else if s = denom then .onVertex 1 else .onEdge (1 - s) s

/-- **refutation of the pinned rule**: for (0,0)-(1,0) × (1/2,1/4)-(1/2,-1/4) one has `s = denom = 1/2`, and the pinned rule
denotes the end point `b = (1,0)` although the intersection is `(1/2, 0)`. -/
theorem pinned_onvertex_rule_refuted :
    sParam (⟨0, 0⟩ : V2 ℚ) ⟨1, 0⟩ ⟨1/2, 1/4⟩ ⟨1/2, -1/4⟩ = 1/2 ∧
    - crossDir (⟨0, 0⟩ : V2 ℚ) ⟨1, 0⟩ ⟨1/2, 1/4⟩ ⟨1/2, -1/4⟩ = 1/2 ∧
    locPt (⟨0, 0⟩ : V2 ℚ) ⟨1, 0⟩ (locOfParamPinned (1/2) (1/2)) = ⟨1, 0⟩ := by
  refine ⟨by unfold sParam crossDir; norm_num, by unfold crossDir; norm_num, ?_⟩
  simp [locOfParamPinned, locPt]

/-! ## point_in_convex_poly2d -/


theorem edgePerp_eq (pt : V2 K) (e : V2 K × V2 K) :
    letI := fieldNum K sq
    edgePerp pt e = - area2 e.1 e.2 pt := by
  simp only [edgePerp, V2.sub, V2.perp, area2]; ring

private theorem convexLoop_spec (pt : V2 K) (es : List (V2 K × V2 K)) (sign : K) :
    letI := fieldNum K sq
    convexLoop pt es sign = true ↔
      ((0 ≤ sign ∧ ∀ e ∈ es, 0 ≤ edgePerp pt e) ∨ (sign ≤ 0 ∧ ∀ e ∈ es, edgePerp pt e ≤ 0)) := by
  induction es generalizing sign with
  | nil => simp [convexLoop, le_total]
  | cons e es ih =>
    unfold convexLoop
    simp only [neq, Bool.and_eq_true, decide_eq_true_eq, List.forall_mem_cons]
    by_cases h0 : sign ≤ 0 ∧ 0 ≤ sign
    · have : sign = 0 := le_antisymm h0.1 h0.2
      subst this
      rw [if_pos h0, ih]
      simp
    · rw [if_neg h0]
      have hne : sign ≠ 0 := fun h => h0 (by rw [h]; exact ⟨le_refl _, le_refl _⟩)
      by_cases hm : sign * @edgePerp K (fieldNum K sq) pt e < 0
      · rw [if_pos hm]
        simp only [Bool.false_eq_true, false_iff, not_or, not_and]
        constructor
        · intro hs hp; exact absurd (mul_nonneg hs hp) (not_le.mpr hm)
        · intro hs hp; exact absurd (mul_nonneg_of_nonpos_of_nonpos hs hp) (not_le.mpr hm)
      · rw [if_neg hm, ih]
        push Not at hm
        constructor
        · rintro (⟨hs, hes⟩ | ⟨hs, hes⟩)
          · left; refine ⟨hs, ?_, hes⟩
            have hs' : 0 < sign := lt_of_le_of_ne hs (Ne.symm hne)
            by_contra hc; push Not at hc
            linarith [mul_neg_of_pos_of_neg hs' hc]
          · right; refine ⟨hs, ?_, hes⟩
            have hs' : sign < 0 := lt_of_le_of_ne hs hne
            by_contra hc; push Not at hc
            linarith [mul_neg_of_neg_of_pos hs' hc]
        · rintro (⟨hs, _, hes⟩ | ⟨hs, _, hes⟩)
          · exact Or.inl ⟨hs, hes⟩
          · exact Or.inr ⟨hs, hes⟩

/-- **C15, convex polygon**: `point_in_convex_poly2d(pt, poly)` is true iff the polygon is non-empty and `pt` lies in the
closed *left* half-plane of every directed edge (counter-clockwise polygon) or in the closed *right* half-plane of every
directed edge (clockwise polygon).  `area2 a b pt ≥ 0` ⇔ `pt` is on or to the left of the line `a → b`. -/
theorem point_in_convex_poly2d_iff (pt : V2 K) (poly : List (V2 K)) :
    letI := fieldNum K sq
    pointInConvexPoly2d pt poly = true ↔
      poly ≠ [] ∧ ((∀ e ∈ polyEdges poly, 0 ≤ area2 e.1 e.2 pt) ∨ (∀ e ∈ polyEdges poly, area2 e.1 e.2 pt ≤ 0)) := by
  unfold pointInConvexPoly2d
  cases poly with
  | nil => simp
  | cons p ps =>
    simp only [List.isEmpty_cons, Bool.false_eq_true, if_false, ne_eq, reduceCtorEq, not_false_eq_true, true_and]
    rw [convexLoop_spec]
    simp only [le_refl, true_and, edgePerp_eq, neg_nonneg, neg_nonpos]
    exact or_comm

/-! ## point_in_poly2d -/

/-- the open horizontal ray from `pt` towards `+x` crosses the edge `(a, b)` under the **half-open rule**:
exactly one end point is at or below the ray (`y ≤ pt.y`), the other strictly above, and the edge's point at height
`pt.y` lies strictly to the right of `pt`. -/
def Crosses (pt a b : V2 K) : Prop :=
  ((a.y ≤ pt.y ∧ pt.y < b.y) ∨ (b.y ≤ pt.y ∧ pt.y < a.y)) ∧
    pt.x < a.x + (pt.y - a.y) * (b.x - a.x) / (b.y - a.y)

instance (pt a b : V2 K) : Decidable (Crosses pt a b) := by unfold Crosses; infer_instance

/-- crossing number of the ray with the closed polygon -/
def crossingNumber (pt : V2 K) (poly : List (V2 K)) : Nat :=
  (polyEdges poly).countP fun e => decide (Crosses pt e.1 e.2)

private theorem windingStep_eq (pt : V2 K) (e : V2 K × V2 K) :
    letI := fieldNum K sq
    windingStep pt e = if Crosses pt e.1 e.2 then 1 else 0 := by
  obtain ⟨a, b⟩ := e
  simp only [windingStep, V2.sub, V2.perp, Crosses, sub_nonneg]
  by_cases h1 : a.y ≤ pt.y <;> by_cases h2 : pt.y < b.y <;> simp only [h1, h2, decide_true, decide_false]
  · -- upward edge
    have hh : 0 < b.y - a.y := by linarith
    have : ((pt.x - a.x) * (b.y - a.y) - (pt.y - a.y) * (b.x - a.x) < 0) ↔
        pt.x < a.x + (pt.y - a.y) * (b.x - a.x) / (b.y - a.y) := by
      rw [← sub_lt_iff_lt_add', lt_div_iff₀ hh]; constructor <;> intro h <;> linarith
    simp only [this, true_and, and_self, true_or]
  · have : ¬ (pt.y < a.y) := not_lt.mpr h1
    simp [this]
  · have : ¬ (b.y ≤ pt.y) := not_le.mpr h2
    simp [this]
  · -- downward edge
    push Not at h1 h2
    have hh : b.y - a.y < 0 := by linarith
    have : (0 < (pt.x - a.x) * (b.y - a.y) - (pt.y - a.y) * (b.x - a.x)) ↔
        pt.x < a.x + (pt.y - a.y) * (b.x - a.x) / (b.y - a.y) := by
      rw [← sub_lt_iff_lt_add', lt_div_iff_of_neg hh]; constructor <;> intro h <;> linarith
    have n1 : ¬ (a.y ≤ pt.y) := not_le.mpr h1
    simp only [this, n1, h2, h1, false_and, true_and, and_self, false_or]

private theorem windingCount_eq (pt : V2 K) (es : List (V2 K × V2 K)) :
    letI := fieldNum K sq
    windingCount pt es = es.countP fun e => decide (Crosses pt e.1 e.2) := by
  unfold windingCount
  suffices h : ∀ (n : Nat), es.foldl (fun w e => w + @windingStep K (fieldNum K sq) pt e) n =
      n + es.countP fun e => decide (Crosses pt e.1 e.2) by simpa using h 0
  induction es with
  | nil => intro n; simp
  | cons e es ih =>
    intro n
    rw [List.foldl_cons, ih, windingStep_eq, List.countP_cons]
    by_cases h : Crosses pt e.1 e.2 <;> simp [h] <;> omega

/-- **C15, general polygon**: `point_in_poly2d(pt, poly)` is the parity of the crossing number of the `+x` ray from `pt`
with the closed polygon, edges counted with the half-open rule (`Crosses`). -/
theorem point_in_poly2d_iff (pt : V2 K) (poly : List (V2 K)) :
    letI := fieldNum K sq
    pointInPoly2d pt poly = true ↔ crossingNumber pt poly % 2 = 1 := by
  unfold pointInPoly2d crossingNumber
  cases poly with
  | nil => simp [polyEdges]
  | cons p ps =>
    simp only [List.isEmpty_cons, Bool.false_eq_true, if_false, decide_eq_true_eq, windingCount_eq]

/-- the centre of the unit square is inside (crossing number 1) -/
example : @pointInPoly2d ℚ (fieldNum ℚ id) ⟨1/2, 1/2⟩ [⟨0,0⟩, ⟨1,0⟩, ⟨1,1⟩, ⟨0,1⟩] = true := by
  rw [point_in_poly2d_iff]
  simp [crossingNumber, polyEdges, Crosses, List.countP_cons]
  norm_num

/-! ## corner_direction, is_point_in_triangle -/


/-- **corner_direction** is the sign of the signed area of `(p1, p2, p3)`: `Ccw` ⇔ positive (left turn at `p2`),
`Cw` ⇔ negative, `None` ⇔ collinear; the NaN panic is unreachable in a field. -/
theorem corner_direction_spec (p1 p2 p3 : V2 K) :
    letI := fieldNum K sq
    (cornerDirection p1 p2 p3 = .ccw ↔ 0 < area2 p1 p2 p3) ∧
    (cornerDirection p1 p2 p3 = .cw ↔ area2 p1 p2 p3 < 0) ∧
    (cornerDirection p1 p2 p3 = .none ↔ area2 p1 p2 p3 = 0) ∧
    cornerDirection p1 p2 p3 ≠ .nan := by
  have hc : @V2.perp K (fieldNum K sq) (@V2.sub K (fieldNum K sq) p1 p2) (@V2.sub K (fieldNum K sq) p3 p2)
      = - area2 p1 p2 p3 := by simp only [V2.sub, V2.perp, area2]; ring
  unfold cornerDirection
  simp only [hc, neq, Bool.and_eq_true, decide_eq_true_eq, neg_neg_iff_pos, neg_pos, neg_nonpos, neg_nonneg]
  rcases lt_trichotomy (area2 p1 p2 p3) 0 with h | h | h
  · have n1 : ¬ (0 < area2 p1 p2 p3) := not_lt.mpr h.le
    have n2 : ¬ (0 ≤ area2 p1 p2 p3 ∧ area2 p1 p2 p3 ≤ 0) := fun hh => absurd hh.1 (not_le.mpr h)
    simp [n1, n2, h, h.ne]
  · simp [h]
  · have n1 : ¬ (area2 p1 p2 p3 < 0) := not_lt.mpr h.le
    simp [n1, h, h.ne']

/-- evaluation of `is_point_in_triangle` through the three signed areas -/
private theorem inTri_eval (p v1 v2 v3 : V2 K) :
    letI := fieldNum K sq
    isPointInTriangle p v1 v2 v3 =
      if area2 p v1 v2 = 0 ∧ area2 p v2 v3 = 0 ∧ area2 p v3 v1 = 0 then .invalid
      else .some (!(decide (area2 p v1 v2 < 0 ∨ area2 p v2 v3 < 0 ∨ area2 p v3 v1 < 0) &&
                    decide (0 < area2 p v1 v2 ∨ 0 < area2 p v2 v3 ∨ 0 < area2 p v3 v1))) := by
  obtain ⟨a1, b1, c1, d1⟩ := corner_direction_spec sq p v1 v2
  obtain ⟨a2, b2, c2, d2⟩ := corner_direction_spec sq p v2 v3
  obtain ⟨a3, b3, c3, d3⟩ := corner_direction_spec sq p v3 v1
  unfold isPointInTriangle
  simp only [a1, b1, c1, d1, a2, b2, c2, d2, a3, b3, c3, d3, or_self, if_false]

/-- **is_point_in_triangle** on a non-degenerate triangle: never `None`, and `Some(true)` exactly for the points of the
closed triangle (`Triangle2.Mem`: barycentric coordinates all non-negative). -/
theorem is_point_in_triangle_iff (p v1 v2 v3 : V2 K) (hS : area2 v1 v2 v3 ≠ 0) :
    letI := fieldNum K sq
    (isPointInTriangle p v1 v2 v3 = .some true ↔ (Triangle2.mk v1 v2 v3).Mem p) ∧
    (isPointInTriangle p v1 v2 v3 = .some true ∨ isPointInTriangle p v1 v2 v3 = .some false) := by
  rw [inTri_eval]
  set c1 := area2 p v1 v2 with hc1
  set c2 := area2 p v2 v3 with hc2
  set c3 := area2 p v3 v1 with hc3
  have hsum : c1 + c2 + c3 = area2 v1 v2 v3 := by simp only [hc1, hc2, hc3, area2]; ring
  have hnz : ¬ (c1 = 0 ∧ c2 = 0 ∧ c3 = 0) := fun h => hS (by rw [← hsum, h.1, h.2.1, h.2.2]; ring)
  rw [if_neg hnz]
  refine ⟨?_, ?_⟩
  · simp only [InTri.some.injEq, Bool.not_eq_true', Bool.and_eq_false_iff, decide_eq_false_iff_not, not_or, not_lt]
    constructor
    · intro h
      -- all three areas have the sign of S
      have hw : 0 ≤ c1 / area2 v1 v2 v3 ∧ 0 ≤ c2 / area2 v1 v2 v3 ∧ 0 ≤ c3 / area2 v1 v2 v3 := by
        rcases h with ⟨h1, h2, h3⟩ | ⟨h1, h2, h3⟩
        · have : 0 < area2 v1 v2 v3 := lt_of_le_of_ne (by linarith) (Ne.symm hS)
          exact ⟨div_nonneg h1 this.le, div_nonneg h2 this.le, div_nonneg h3 this.le⟩
        · have : area2 v1 v2 v3 < 0 := lt_of_le_of_ne (by linarith) hS
          exact ⟨div_nonneg_of_nonpos h1 this.le, div_nonneg_of_nonpos h2 this.le, div_nonneg_of_nonpos h3 this.le⟩
      refine ⟨c3 / area2 v1 v2 v3, c1 / area2 v1 v2 v3, hw.2.2, hw.1, ?_, ?_⟩
      · have : c3 / area2 v1 v2 v3 + c1 / area2 v1 v2 v3 = 1 - c2 / area2 v1 v2 v3 := by
          field_simp; linarith
        linarith [hw.2.1]
      · obtain ⟨px, py⟩ := p
        simp only [V2.add, V2.sub, V2.smul, V2.mk.injEq]
        constructor
        · field_simp; simp only [hc1, hc3, area2]; ring
        · field_simp; simp only [hc1, hc3, area2]; ring
    · rintro ⟨u, v, hu, hv, huv, hp⟩
      have hpx : p.x = v1.x + (v2.x - v1.x) * u + (v3.x - v1.x) * v := by rw [hp]; rfl
      have hpy : p.y = v1.y + (v2.y - v1.y) * u + (v3.y - v1.y) * v := by rw [hp]; rfl
      have e1 : c1 = v * area2 v1 v2 v3 := by
        simp only [hc1, area2, hpx, hpy]; ring
      have e3 : c3 = u * area2 v1 v2 v3 := by
        simp only [hc3, area2, hpx, hpy]; ring
      have e2 : c2 = (1 - u - v) * area2 v1 v2 v3 := by
        simp only [hc2, area2, hpx, hpy]; ring
      rcases lt_or_gt_of_ne hS with hneg | hpos
      · right; rw [e1, e2, e3]
        exact ⟨mul_nonpos_of_nonneg_of_nonpos hv hneg.le, mul_nonpos_of_nonneg_of_nonpos (by linarith) hneg.le,
          mul_nonpos_of_nonneg_of_nonpos hu hneg.le⟩
      · left; rw [e1, e2, e3]
        exact ⟨mul_nonneg hv hpos.le, mul_nonneg (by linarith) hpos.le, mul_nonneg hu hpos.le⟩
  · cases (decide (c1 < 0 ∨ c2 < 0 ∨ c3 < 0) && decide (0 < c1 ∨ 0 < c2 ∨ 0 < c3)) <;> simp

/-- non-vacuity: the unit right triangle is non-degenerate -/
example : area2 (⟨0, 0⟩ : V2 ℚ) ⟨1, 0⟩ ⟨0, 1⟩ ≠ 0 := by unfold area2; norm_num

/-! ## `Triangle::contains_point` (2-D) -/

private theorem signum_eq (x : K) :
    letI := fieldNum K sq
    signum x = if x < 0 then -1 else 1 := by
  unfold signum
  by_cases h1 : x < 0
  · simp [h1]
  · by_cases h2 : 0 < x
    · simp [h1, h2]
    · have : x = 0 := le_antisymm (not_lt.mp h2) (not_lt.mp h1)
      subst this; simp

/-- **`Triangle::contains_point` (2-D), exact arithmetic, every input**: the three `signum` products are non-negative
exactly when the three edge cross products `area2 a b p`, `area2 b c p`, `area2 c a p` are **all `≥ 0`** or **all `< 0`**
(`signum(0) = +1`: a zero counts as positive).  Consequences: `tri_contains_point_ccw` (closed triangle) and
`tri_contains_point_cw` (open triangle — boundary points of a clockwise triangle are *not* contained). -/
theorem tri_contains_point_iff (a b c p : V2 K) :
    letI := fieldNum K sq
    triContainsPoint a b c p = true ↔
      (0 ≤ area2 a b p ∧ 0 ≤ area2 b c p ∧ 0 ≤ area2 c a p) ∨ (area2 a b p < 0 ∧ area2 b c p < 0 ∧ area2 c a p < 0) := by
  have e1 : @V2.perp K (fieldNum K sq) (@V2.sub K (fieldNum K sq) b a) (@V2.sub K (fieldNum K sq) p a) = area2 a b p := rfl
  have e2 : @V2.perp K (fieldNum K sq) (@V2.sub K (fieldNum K sq) c b) (@V2.sub K (fieldNum K sq) p b) = area2 b c p := rfl
  have e3 : @V2.perp K (fieldNum K sq) (@V2.sub K (fieldNum K sq) a c) (@V2.sub K (fieldNum K sq) p c) = area2 c a p := rfl
  unfold triContainsPoint
  simp only [e1, e2, e3, signum_eq, Bool.and_eq_true, decide_eq_true_eq]
  by_cases h1 : area2 a b p < 0 <;> by_cases h2 : area2 b c p < 0 <;> by_cases h3 : area2 c a p < 0 <;>
    simp only [h1, h2, h3, if_true, if_false] <;> norm_num <;> grind

/-- counter-clockwise triangle: `contains_point` is membership in the **closed** triangle -/
theorem tri_contains_point_ccw (a b c p : V2 K) (hS : 0 < area2 a b c) :
    letI := fieldNum K sq
    triContainsPoint a b c p = true ↔ (Triangle2.mk a b c).Mem p := by
  rw [tri_contains_point_iff]
  have hsum : area2 a b p + area2 b c p + area2 c a p = area2 a b c := by simp only [area2]; ring
  have hM := (is_point_in_triangle_iff sq p a b c (ne_of_gt hS)).1
  rw [inTri_eval] at hM
  have r1 : area2 p a b = area2 a b p := by simp only [area2]; ring
  have r2 : area2 p b c = area2 b c p := by simp only [area2]; ring
  have r3 : area2 p c a = area2 c a p := by simp only [area2]; ring
  rw [r1, r2, r3] at hM
  have hnz : ¬ (area2 a b p = 0 ∧ area2 b c p = 0 ∧ area2 c a p = 0) := fun h => by
    rw [h.1, h.2.1, h.2.2] at hsum; linarith
  rw [if_neg hnz] at hM
  rw [← hM]
  have hpos : 0 < area2 a b p ∨ 0 < area2 b c p ∨ 0 < area2 c a p := by
    by_contra hc; push Not at hc; linarith [hc.1, hc.2.1, hc.2.2]
  simp only [InTri.some.injEq, Bool.not_eq_true', Bool.and_eq_false_iff, decide_eq_false_iff_not, not_or, not_lt]
  constructor
  · rintro (h | h)
    · exact Or.inl h
    · exfalso; linarith [h.1, h.2.1, h.2.2]
  · rintro (h | h)
    · exact Or.inl h
    · exact absurd hpos (by push Not; exact h)

/-- clockwise triangle: `contains_point` is membership in the **open** triangle (all three cross products strictly
negative) — every boundary point (vertices, edge points) of a clockwise triangle is reported *outside*, whereas it is
reported inside for the same triangle listed counter-clockwise.  (Observation about the real code, orientation-dependent
boundary semantics; the oracle judges `contains_point` off the boundary only.) -/
theorem tri_contains_point_cw (a b c p : V2 K) (hS : area2 a b c < 0) :
    letI := fieldNum K sq
    triContainsPoint a b c p = true ↔ (area2 a b p < 0 ∧ area2 b c p < 0 ∧ area2 c a p < 0) := by
  rw [tri_contains_point_iff]
  have hsum : area2 a b p + area2 b c p + area2 c a p = area2 a b c := by simp only [area2]; ring
  constructor
  · rintro (h | h)
    · exfalso; linarith [h.1, h.2.1, h.2.2]
    · exact h
  · exact Or.inr

/-- the asymmetry on a concrete input: the vertex `(0,0)` of the unit right triangle is contained when the triangle is
listed counter-clockwise and not contained when it is listed clockwise -/
example : letI := fieldNum ℚ (fun x => x)
    triContainsPoint (⟨0,0⟩ : V2 ℚ) ⟨1,0⟩ ⟨0,1⟩ ⟨0,0⟩ = true ∧ triContainsPoint (⟨0,0⟩ : V2 ℚ) ⟨0,1⟩ ⟨1,0⟩ ⟨0,0⟩ = false := by
  constructor
  · rw [tri_contains_point_ccw _ _ _ _ _ (by unfold area2; norm_num)]
    exact ⟨0, 0, le_refl _, le_refl _, by norm_num, by simp [V2.add, V2.sub, V2.smul]⟩
  · rw [Bool.eq_false_iff, Ne, tri_contains_point_cw _ _ _ _ _ (by unfold area2; norm_num)]
    unfold area2; norm_num

/-! ## corollaries: counter-clockwise convex polygons; independence from start vertex and orientation -/

/-- for every point `p`, the signed areas of the triangles `(a, b, p)` over the edges of a closed polygon add up to the
polygon's shoelace area -/
theorem sum_area2_edges (poly : List (V2 K)) (p : V2 K) :
    ((polyEdges poly).map fun e => area2 e.1 e.2 p).sum = shoelace2 poly := by
  have h1 : ∀ e : V2 K × V2 K, area2 e.1 e.2 p = cross e.1 e.2 + (cross e.2 p - cross e.1 p) := by
    intro e; simp only [area2, cross]; ring
  have hsum : ((polyEdges poly).map fun e : V2 K × V2 K => cross e.2 p - cross e.1 p).sum = 0 := by
    have e1 : ((polyEdges poly).map fun e : V2 K × V2 K => cross e.2 p - cross e.1 p).sum =
        (((polyEdges poly).map Prod.snd).map fun v => cross v p).sum -
        (((polyEdges poly).map Prod.fst).map fun v => cross v p).sum := by
      simp only [List.map_map, Function.comp_def]
      induction polyEdges poly with
      | nil => simp
      | cons a t ih => simp only [List.map_cons, List.sum_cons, ih]; ring
    rw [e1, polyEdges_eq_zip_rotate, List.map_snd_zip (by simp), List.map_fst_zip (by simp)]
    rw [((List.rotate_perm poly 1).map _).sum_eq]; ring
  simp only [h1]
  have : ((polyEdges poly).map fun e : V2 K × V2 K => cross e.1 e.2 + (cross e.2 p - cross e.1 p)).sum =
      ((polyEdges poly).map fun e : V2 K × V2 K => cross e.1 e.2).sum +
      ((polyEdges poly).map fun e : V2 K × V2 K => cross e.2 p - cross e.1 p).sum := by
    induction polyEdges poly with
    | nil => simp
    | cons a t ih => simp only [List.map_cons, List.sum_cons, ih]; ring
  rw [this, hsum, add_zero]; rfl

/-- **convex, counter-clockwise polygon** (positive shoelace area): `point_in_convex_poly2d` is true exactly for the points
in the closed left half-plane of *every* edge — the clockwise alternative of `point_in_convex_poly2d_iff` cannot occur. -/
theorem point_in_convex_poly2d_ccw (pt : V2 K) (poly : List (V2 K)) (hpos : 0 < shoelace2 poly) :
    letI := fieldNum K sq
    pointInConvexPoly2d pt poly = true ↔ ∀ e ∈ polyEdges poly, 0 ≤ area2 e.1 e.2 pt := by
  rw [point_in_convex_poly2d_iff]
  constructor
  · rintro ⟨_, h | h⟩
    · exact h
    · exfalso
      have := sum_area2_edges poly pt
      have hle : ∀ l : List (V2 K × V2 K), (∀ e ∈ l, area2 e.1 e.2 pt ≤ 0) →
          (l.map fun e => area2 e.1 e.2 pt).sum ≤ 0 := by
        intro l
        induction l with
        | nil => intro _; simp
        | cons a t ih =>
          intro hl
          simp only [List.map_cons, List.sum_cons]
          have := hl a List.mem_cons_self
          have := ih (fun e he => hl e (List.mem_cons_of_mem _ he))
          linarith
      have := hle _ h
      linarith
  · intro h
    refine ⟨?_, Or.inl h⟩
    rintro rfl
    simp [shoelace2, edgeSum, polyEdges] at hpos

omit [IsStrictOrderedRing K] in
/-- the crossing number does not depend on the start vertex … -/
theorem crossingNumber_rotate (pt : V2 K) (poly : List (V2 K)) (k : Nat) :
    crossingNumber pt (poly.rotate k) = crossingNumber pt poly := by
  unfold crossingNumber
  rw [polyEdges_rotate]
  exact (List.rotate_perm _ _).countP_eq _

/-- … hence neither does `point_in_poly2d` -/
theorem point_in_poly2d_rotate (pt : V2 K) (poly : List (V2 K)) (k : Nat) :
    letI := fieldNum K sq
    pointInPoly2d pt (poly.rotate k) = pointInPoly2d pt poly := by
  have h1 := point_in_poly2d_iff sq pt (poly.rotate k)
  have h2 := point_in_poly2d_iff sq pt poly
  rw [crossingNumber_rotate] at h1
  exact Bool.eq_iff_iff.mpr (h1.trans h2.symm)

/-- reversing a closed polygon reverses every edge (as a multiset of directed edges) -/
theorem polyEdges_reverse_perm {α : Type} (l : List α) :
    (polyEdges l.reverse).Perm ((polyEdges l).map Prod.swap) := by
  by_cases hl : l = []
  · subst hl; simp [polyEdges]
  have hn : 0 < l.length := List.length_pos_iff.mpr hl
  set m := l.length - 1 % l.length with hm
  have hmod : (m + 1) % l.length = 0 := by
    by_cases h1 : l.length = 1
    · rw [h1]; exact Nat.mod_one _
    · have : 1 % l.length = 1 := Nat.mod_eq_of_lt (by omega)
      rw [hm, this]
      have : l.length - 1 + 1 = l.length := by omega
      rw [this]; exact Nat.mod_self _
  have hB : (l.rotate m).rotate 1 = l := by
    rw [List.rotate_rotate, ← List.rotate_mod, hmod, List.rotate_zero]
  have e1 : polyEdges l.reverse = ((polyEdges (l.rotate m)).map Prod.swap).reverse := by
    rw [polyEdges_eq_zip_rotate, List.rotate_reverse, polyEdges_eq_zip_rotate, List.zip_swap, hB]
    simp only [List.zip]
    rw [List.reverse_zipWith (by simp)]
  rw [e1, polyEdges_rotate]
  exact (List.reverse_perm _).trans ((List.rotate_perm _ _).map _)

omit [IsStrictOrderedRing K] in
theorem crosses_symm (pt a b : V2 K) : Crosses pt a b ↔ Crosses pt b a := by
  unfold Crosses
  have key : ∀ a b : V2 K, a.y ≠ b.y →
      a.x + (pt.y - a.y) * (b.x - a.x) / (b.y - a.y) = b.x + (pt.y - b.y) * (a.x - b.x) / (a.y - b.y) := by
    intro a b h
    have h1 : b.y - a.y ≠ 0 := sub_ne_zero.mpr (Ne.symm h)
    have h2 : a.y - b.y ≠ 0 := sub_ne_zero.mpr h
    field_simp
    ring
  constructor
  · rintro ⟨h | h, hx⟩
    · exact ⟨Or.inr h, by rw [← key a b (by intro hh; rw [hh] at h; exact absurd (lt_of_le_of_lt h.1 h.2) (lt_irrefl _))]; exact hx⟩
    · exact ⟨Or.inl h, by rw [← key a b (by intro hh; rw [hh] at h; exact absurd (lt_of_le_of_lt h.1 h.2) (lt_irrefl _))]; exact hx⟩
  · rintro ⟨h | h, hx⟩
    · exact ⟨Or.inr h, by rw [key a b (by intro hh; rw [hh] at h; exact absurd (lt_of_le_of_lt h.1 h.2) (lt_irrefl _))]; exact hx⟩
    · exact ⟨Or.inl h, by rw [key a b (by intro hh; rw [hh] at h; exact absurd (lt_of_le_of_lt h.1 h.2) (lt_irrefl _))]; exact hx⟩

omit [IsStrictOrderedRing K] in
/-- the crossing number does not depend on the orientation -/
theorem crossingNumber_reverse (pt : V2 K) (poly : List (V2 K)) :
    crossingNumber pt poly.reverse = crossingNumber pt poly := by
  unfold crossingNumber
  rw [(polyEdges_reverse_perm poly).countP_eq, List.countP_map]
  apply List.countP_congr
  intro e _
  simp only [Function.comp, Prod.fst_swap, Prod.snd_swap, decide_eq_true_eq]
  exact crosses_symm pt e.2 e.1

/-- `point_in_poly2d` is independent of the orientation of the vertex list -/
theorem point_in_poly2d_reverse (pt : V2 K) (poly : List (V2 K)) :
    letI := fieldNum K sq
    pointInPoly2d pt poly.reverse = pointInPoly2d pt poly := by
  have h1 := point_in_poly2d_iff sq pt poly.reverse
  have h2 := point_in_poly2d_iff sq pt poly
  rw [crossingNumber_reverse] at h1
  exact Bool.eq_iff_iff.mpr (h1.trans h2.symm)

/-- non-vacuity: the unit square has positive shoelace area -/
example : 0 < shoelace2 ([⟨0,0⟩, ⟨1,0⟩, ⟨1,1⟩, ⟨0,1⟩] : List (V2 ℚ)) := by
  simp [shoelace2, edgeSum, polyEdges, cross]

/-! ## segments_intersection2d, parallel branch (`parallel_intersection`, `between`) -/

/-- `x` lies between `u` and `v` (in either order) -/
def Btw (u v x : K) : Prop := (u ≤ x ∧ x ≤ v) ∨ (v ≤ x ∧ x ≤ u)

/-- the point of parameter `t` on the line through `a` and `b` -/
def linePt (a b : V2 K) (t : K) : V2 K := ⟨a.x + t * (b.x - a.x), a.y + t * (b.y - a.y)⟩

omit [LinearOrder K] [IsStrictOrderedRing K] in
private theorem ne_coord {a b : V2 K} (hab : a ≠ b) : b.x - a.x ≠ 0 ∨ b.y - a.y ≠ 0 := by
  by_contra h
  push Not at h
  apply hab
  obtain ⟨ax, ay⟩ := a; obtain ⟨bx, by'⟩ := b
  simp only [V2.mk.injEq] at h ⊢
  exact ⟨(sub_eq_zero.mp h.1).symm, (sub_eq_zero.mp h.2).symm⟩

omit [LinearOrder K] [IsStrictOrderedRing K] in
private theorem linePt_inj {a b : V2 K} (hab : a ≠ b) {t t' : K} (h : linePt a b t = linePt a b t') : t = t' := by
  simp only [linePt, V2.mk.injEq] at h
  rcases ne_coord hab with hx | hy
  · have : (t - t') * (b.x - a.x) = 0 := by linear_combination h.1
    exact sub_eq_zero.mp ((mul_eq_zero.mp this).resolve_right hx)
  · have : (t - t') * (b.y - a.y) = 0 := by linear_combination h.2
    exact sub_eq_zero.mp ((mul_eq_zero.mp this).resolve_right hy)

omit [LinearOrder K] [IsStrictOrderedRing K] in
/-- a point collinear with `a ≠ b` is a point of the line -/
private theorem col_param {a b p : V2 K} (hab : a ≠ b) (h : area2 a b p = 0) : ∃ t, p = linePt a b t := by
  obtain ⟨px, py⟩ := p
  unfold area2 at h
  simp only at h
  rcases ne_coord hab with hx | hy
  · refine ⟨(px - a.x) / (b.x - a.x), ?_⟩
    simp only [linePt, V2.mk.injEq]
    refine ⟨by field_simp; ring, ?_⟩
    field_simp
    linear_combination h
  · refine ⟨(py - a.y) / (b.y - a.y), ?_⟩
    simp only [linePt, V2.mk.injEq]
    refine ⟨?_, by field_simp; ring⟩
    field_simp
    linear_combination -h

private theorem onSeg_iff {a b p : V2 K} : OnSeg a b p ↔ ∃ t, 0 ≤ t ∧ t ≤ 1 ∧ p = linePt a b t := by
  obtain ⟨px, py⟩ := p
  simp only [OnSeg, linePt, V2.mk.injEq]

private theorem onSeg_linePt {a b : V2 K} (hab : a ≠ b) (t : K) : OnSeg a b (linePt a b t) ↔ 0 ≤ t ∧ t ≤ 1 := by
  rw [onSeg_iff]
  constructor
  · rintro ⟨t', h0, h1, h⟩
    rw [linePt_inj hab h]; exact ⟨h0, h1⟩
  · intro h; exact ⟨t, h.1, h.2, rfl⟩

omit [LinearOrder K] [IsStrictOrderedRing K] in
private theorem linePt_linePt (a b : V2 K) (φ ψ s : K) :
    linePt (linePt a b φ) (linePt a b ψ) s = linePt a b (φ + s * (ψ - φ)) := by
  simp only [linePt, V2.mk.injEq]; constructor <;> ring

/-- sub-segments of a line in parameter form -/
private theorem onSeg_sub {a b : V2 K} (hab : a ≠ b) (φ ψ τ : K) :
    OnSeg (linePt a b φ) (linePt a b ψ) (linePt a b τ) ↔ Btw φ ψ τ := by
  rw [onSeg_iff]
  constructor
  · rintro ⟨s, h0, h1, h⟩
    rw [linePt_linePt] at h
    have hτ := linePt_inj hab h
    unfold Btw
    rcases le_total φ ψ with hle | hle
    · left; constructor <;> nlinarith [mul_nonneg h0 (sub_nonneg.mpr hle), mul_nonneg (sub_nonneg.mpr h1) (sub_nonneg.mpr hle)]
    · right; constructor <;> nlinarith [mul_nonneg h0 (sub_nonneg.mpr hle), mul_nonneg (sub_nonneg.mpr h1) (sub_nonneg.mpr hle)]
  · intro h
    by_cases he : φ = ψ
    · subst he
      have : τ = φ := by unfold Btw at h; rcases h with h | h <;> exact le_antisymm h.2 h.1
      subst this
      exact ⟨0, le_refl _, zero_le_one, by rw [linePt_linePt]; congr 1; ring⟩
    · have hne : ψ - φ ≠ 0 := sub_ne_zero.mpr (Ne.symm he)
      refine ⟨(τ - φ) / (ψ - φ), ?_, ?_, ?_⟩
      · unfold Btw at h
        rcases h with h | h
        · exact div_nonneg (by linarith) (by linarith)
        · exact div_nonneg_of_nonpos (by linarith) (by linarith)
      · unfold Btw at h
        rcases h with h | h
        · rw [div_le_one (lt_of_le_of_ne (by linarith) (Ne.symm hne))]; linarith
        · rw [div_le_one_of_neg (lt_of_le_of_ne (by linarith) hne)]; linarith
      · rw [linePt_linePt]; congr 1; field_simp; ring

/-- one coordinate of `between`: `cu = au + γ (bu - au)`, `au ≠ bu` -/
private theorem between_coord (au bu cu γ : K) (h : au ≠ bu) (hcu : cu = au + γ * (bu - au)) :
    ((au ≤ cu ∧ cu ≤ bu) → (cu - au) / (bu - au) = γ ∧ 0 ≤ γ ∧ γ ≤ 1) ∧
    (¬ (au ≤ cu ∧ cu ≤ bu) → (cu ≤ au ∧ bu ≤ cu) → (cu - bu) / (au - bu) = 1 - γ ∧ 0 ≤ γ ∧ γ ≤ 1) ∧
    (¬ (au ≤ cu ∧ cu ≤ bu) → ¬ (cu ≤ au ∧ bu ≤ cu) → ¬ (0 ≤ γ ∧ γ ≤ 1)) := by
  have hne : bu - au ≠ 0 := sub_ne_zero.mpr (Ne.symm h)
  have hne' : au - bu ≠ 0 := sub_ne_zero.mpr h
  have e1 : (cu - au) / (bu - au) = γ := by rw [hcu]; field_simp; ring
  have e2 : (cu - bu) / (au - bu) = 1 - γ := by rw [hcu]; field_simp; ring
  rcases lt_or_gt_of_ne h with hlt | hgt
  · have hpos : 0 < bu - au := by linarith
    have k1 : au ≤ cu ↔ 0 ≤ γ := by
      rw [hcu]; constructor
      · intro hh; by_contra hc; push Not at hc; nlinarith
      · intro hh; nlinarith
    have k2 : cu ≤ bu ↔ γ ≤ 1 := by
      rw [hcu]; constructor
      · intro hh; by_contra hc; push Not at hc; nlinarith
      · intro hh; nlinarith
    refine ⟨fun hA => ⟨e1, k1.mp hA.1, k2.mp hA.2⟩, fun hnA hB => ?_, fun hnA _ hγ => hnA ⟨k1.mpr hγ.1, k2.mpr hγ.2⟩⟩
    exfalso; apply hnA; constructor <;> linarith [hB.1, hB.2]
  · have hneg : bu - au < 0 := by linarith
    have k1 : cu ≤ au ↔ 0 ≤ γ := by
      rw [hcu]; constructor
      · intro hh; by_contra hc; push Not at hc; nlinarith
      · intro hh; nlinarith
    have k2 : bu ≤ cu ↔ γ ≤ 1 := by
      rw [hcu]; constructor
      · intro hh; by_contra hc; push Not at hc; nlinarith
      · intro hh; nlinarith
    refine ⟨fun hA => ?_, fun _ hB => ⟨e2, k1.mp hB.1, k2.mp hB.2⟩, fun _ hnB hγ => hnB ⟨k1.mpr hγ.1, k2.mpr hγ.2⟩⟩
    exfalso; linarith [hA.1, hA.2]

/-- `between(a, b, c)` for a point `c` of the line `a b` (`a ≠ b`): `Some(loc)` exactly when `c` is on the closed segment,
and `loc` then denotes `c` -/
private theorem between_param (a b : V2 K) (hab : a ≠ b) (γ : K) :
    letI := fieldNum K sq
    match between a b (linePt a b γ) with
    | some l => locPt a b l = linePt a b γ ∧ (0 ≤ γ ∧ γ ≤ 1)
    | none => ¬ (0 ≤ γ ∧ γ ≤ 1) := by
  obtain ⟨c, hc⟩ : ∃ c, c = linePt a b γ := ⟨_, rfl⟩
  have hcx : c.x = a.x + γ * (b.x - a.x) := by rw [hc]; rfl
  have hcy : c.y = a.y + γ * (b.y - a.y) := by rw [hc]; rfl
  have hcc : c = ⟨a.x + γ * (b.x - a.x), a.y + γ * (b.y - a.y)⟩ := hc
  rw [← hc]
  unfold between
  simp only [neq, Bool.and_eq_true, decide_eq_true_eq, Bool.not_eq_true', Bool.and_eq_false_iff, decide_eq_false_iff_not]
  by_cases hx : a.x = b.x
  · have hx' : ¬ (¬ a.x ≤ b.x ∨ ¬ b.x ≤ a.x) := by rw [hx]; simp
    rw [if_neg hx']
    by_cases hy : a.y = b.y
    · exfalso; apply hab
      obtain ⟨ax, ay⟩ := a; obtain ⟨bx, by'⟩ := b
      simp only at hx hy; rw [hx, hy]
    · have hy' : (¬ a.y ≤ b.y ∨ ¬ b.y ≤ a.y) := by
        by_contra hcn; push Not at hcn; exact hy (le_antisymm hcn.1 hcn.2)
      rw [if_pos hy']
      obtain ⟨hA, hB, hC⟩ := between_coord a.y b.y c.y γ hy hcy
      by_cases c1 : a.y ≤ c.y ∧ c.y ≤ b.y
      · rw [if_pos c1]
        obtain ⟨e, h0, h1⟩ := hA c1
        simp only [e]; rw [hcc]; simp only [locPt, V2.mk.injEq]
        exact ⟨⟨by ring, by ring⟩, h0, h1⟩
      · rw [if_neg c1]
        by_cases c2 : c.y ≤ a.y ∧ b.y ≤ c.y
        · rw [if_pos c2]
          obtain ⟨e, h0, h1⟩ := hB c1 c2
          simp only [e]; rw [hcc]; simp only [locPt, V2.mk.injEq]
          exact ⟨⟨by ring, by ring⟩, h0, h1⟩
        · rw [if_neg c2]; exact hC c1 c2
  · have hx' : (¬ a.x ≤ b.x ∨ ¬ b.x ≤ a.x) := by
      by_contra hcn; push Not at hcn; exact hx (le_antisymm hcn.1 hcn.2)
    rw [if_pos hx']
    obtain ⟨hA, hB, hC⟩ := between_coord a.x b.x c.x γ hx hcx
    by_cases c1 : a.x ≤ c.x ∧ c.x ≤ b.x
    · rw [if_pos c1]
      obtain ⟨e, h0, h1⟩ := hA c1
      simp only [e]; rw [hcc]; simp only [locPt, V2.mk.injEq]
      exact ⟨⟨by ring, by ring⟩, h0, h1⟩
    · rw [if_neg c1]
      by_cases c2 : c.x ≤ a.x ∧ b.x ≤ c.x
      · rw [if_pos c2]
        obtain ⟨e, h0, h1⟩ := hB c1 c2
        simp only [e]; rw [hcc]; simp only [locPt, V2.mk.injEq]
        exact ⟨⟨by ring, by ring⟩, h0, h1⟩
      · rw [if_neg c2]; exact hC c1 c2

/-- specification of a collinear result: `None` ⇒ no common point; never `Point`; `Segment{first, second}` ⇒ the paired
locations denote the same two points `F`, `S`, both on both segments, and every common point lies on `[F, S]`
(so `[F, S]` **is** the intersection) -/
def OverlapSpec (a b c d : V2 K) : Option (SegInter K) → Prop
  | none => ∀ p, OnSeg a b p → OnSeg c d p → False
  | some (.point _ _) => False
  | some (.segment f1 f2 s1 s2) =>
      locPt a b f1 = locPt c d f2 ∧ locPt a b s1 = locPt c d s2 ∧
      OnSeg a b (locPt a b f1) ∧ OnSeg c d (locPt a b f1) ∧ OnSeg a b (locPt a b s1) ∧ OnSeg c d (locPt a b s1) ∧
      ∀ p, OnSeg a b p → OnSeg c d p → OnSeg (locPt a b f1) (locPt a b s1) p

private theorem spec_none {a b : V2 K} (hab : a ≠ b) (γ δ : K)
    (h : ∀ τ, 0 ≤ τ → τ ≤ 1 → Btw γ δ τ → False) :
    OverlapSpec a b (linePt a b γ) (linePt a b δ) none := by
  intro p hp hq
  obtain ⟨τ, h0, h1, rfl⟩ := onSeg_iff.mp hp
  exact h τ h0 h1 ((onSeg_sub hab γ δ τ).mp hq)

private theorem spec_seg {a b : V2 K} (hab : a ≠ b) (γ δ φ ψ : K) (f1 f2 s1 s2 : SegLoc K)
    (e1 : locPt a b f1 = linePt a b φ) (e2 : locPt (linePt a b γ) (linePt a b δ) f2 = linePt a b φ)
    (e3 : locPt a b s1 = linePt a b ψ) (e4 : locPt (linePt a b γ) (linePt a b δ) s2 = linePt a b ψ)
    (hφ : 0 ≤ φ ∧ φ ≤ 1) (hφ' : Btw γ δ φ) (hψ : 0 ≤ ψ ∧ ψ ≤ 1) (hψ' : Btw γ δ ψ)
    (h : ∀ τ, 0 ≤ τ → τ ≤ 1 → Btw γ δ τ → Btw φ ψ τ) :
    OverlapSpec a b (linePt a b γ) (linePt a b δ) (some (.segment f1 f2 s1 s2)) := by
  refine ⟨e1.trans e2.symm, e3.trans e4.symm, ?_, ?_, ?_, ?_, ?_⟩
  · rw [e1]; exact (onSeg_linePt hab φ).mpr hφ
  · rw [e1]; exact (onSeg_sub hab γ δ φ).mpr hφ'
  · rw [e3]; exact (onSeg_linePt hab ψ).mpr hψ
  · rw [e3]; exact (onSeg_sub hab γ δ ψ).mpr hψ'
  · intro p hp hq
    obtain ⟨τ, h0, h1, rfl⟩ := onSeg_iff.mp hp
    rw [e1, e3]
    exact (onSeg_sub hab φ ψ τ).mpr (h τ h0 h1 ((onSeg_sub hab γ δ τ).mp hq))

private theorem sigma_btw (γ δ x : K) (h : γ ≠ δ) :
    (0 ≤ (x - γ) / (δ - γ) ∧ (x - γ) / (δ - γ) ≤ 1) ↔ Btw γ δ x := by
  unfold Btw
  rcases lt_or_gt_of_ne h with hlt | hgt
  · have hp : 0 < δ - γ := by linarith
    rw [div_nonneg_iff, div_le_one hp]
    constructor
    · rintro ⟨h1 | h1, h2⟩
      · left; constructor <;> linarith [h1.1]
      · exfalso; linarith [h1.2]
    · rintro (h1 | h1)
      · exact ⟨Or.inl ⟨by linarith [h1.1], hp.le⟩, by linarith [h1.2]⟩
      · exfalso; linarith [h1.1, h1.2]
  · have hn : δ - γ < 0 := by linarith
    rw [div_nonneg_iff, div_le_one_of_neg hn]
    constructor
    · rintro ⟨h1 | h1, h2⟩
      · exfalso; linarith [h1.2]
      · right; constructor <;> linarith [h1.1]
    · rintro (h1 | h1)
      · exfalso; linarith [h1.1, h1.2]
      · exact ⟨Or.inr ⟨by linarith [h1.2], hn.le⟩, by linarith [h1.1]⟩

omit [LinearOrder K] [IsStrictOrderedRing K] in
private theorem reparam (a b : V2 K) (γ δ x : K) (h : γ ≠ δ) :
    linePt (linePt a b γ) (linePt a b δ) ((x - γ) / (δ - γ)) = linePt a b x := by
  rw [linePt_linePt]
  have : δ - γ ≠ 0 := sub_ne_zero.mpr (Ne.symm h)
  congr 1; field_simp; ring

/-- the collinear cascade of `parallel_intersection`, in line-parameter form -/
private theorem parallel_collinear (a b : V2 K) (hab : a ≠ b) (γ δ : K) (hγδ : γ ≠ δ) (eps : K) (he : 0 ≤ eps) :
    letI := fieldNum K sq
    OverlapSpec a b (linePt a b γ) (linePt a b δ) (parallelIntersection a b (linePt a b γ) (linePt a b δ) eps) := by
  have hcd : linePt a b γ ≠ linePt a b δ := fun h => hγδ (linePt_inj hab h)
  -- the four `between` calls
  have hb1 := between_param sq a b hab γ
  have hb2 := between_param sq a b hab δ
  have hb3 := between_param sq (linePt a b γ) (linePt a b δ) hcd ((0 - γ) / (δ - γ))
  have hb4 := between_param sq (linePt a b γ) (linePt a b δ) hcd ((1 - γ) / (δ - γ))
  rw [reparam a b γ δ 0 hγδ, sigma_btw γ δ 0 hγδ] at hb3
  rw [reparam a b γ δ 1 hγδ, sigma_btw γ δ 1 hγδ] at hb4
  have ha0 : linePt a b 0 = a := by simp [linePt]
  have hb1' : linePt a b 1 = b := by simp [linePt]
  rw [ha0] at hb3; rw [hb1'] at hb4
  -- orientation2d(a, b, c) is degenerate
  have hdeg : @orientation2d K (fieldNum K sq) a b (linePt a b γ) eps = .degenerate := by
    rw [(orientation2d_spec sq a b (linePt a b γ) eps he).2.2]
    have : area2 a b (linePt a b γ) = 0 := by simp only [area2, linePt]; ring
    rw [this, abs_zero]; exact he
  unfold parallelIntersection
  rw [hdeg]
  simp only [ne_eq, not_true_eq_false, if_false]
  -- locations of the end points
  have v0ab : locPt a b (.onVertex 0) = linePt a b 0 := by simp [locPt, ha0]
  have v1ab : locPt a b (.onVertex 1) = linePt a b 1 := by simp [locPt, hb1']
  have v0cd : locPt (linePt a b γ) (linePt a b δ) (.onVertex 0) = linePt a b γ := by simp [locPt]
  have v1cd : locPt (linePt a b γ) (linePt a b δ) (.onVertex 1) = linePt a b δ := by simp [locPt]
  have b00 : Btw γ δ γ := by unfold Btw; rcases le_total γ δ with h | h <;> simp [h]
  have b11 : Btw γ δ δ := by unfold Btw; rcases le_total γ δ with h | h <;> simp [h]
  generalize @between K (fieldNum K sq) a b (linePt a b γ) = o1 at hb1 ⊢
  generalize @between K (fieldNum K sq) a b (linePt a b δ) = o2 at hb2 ⊢
  generalize @between K (fieldNum K sq) (linePt a b γ) (linePt a b δ) a = o3 at hb3 ⊢
  generalize @between K (fieldNum K sq) (linePt a b γ) (linePt a b δ) b = o4 at hb4 ⊢
  rcases o1 with _ | l1 <;> rcases o2 with _ | l2 <;> rcases o3 with _ | l3 <;> rcases o4 with _ | l4 <;>
    simp only at hb1 hb2 hb3 hb4 ⊢
  all_goals first
    | (apply spec_none hab; intro τ h0 h1 hτ; unfold Btw at *; grind)
    | (refine spec_seg hab γ δ γ δ _ _ _ _ hb1.1 v0cd hb2.1 v1cd hb1.2 b00 hb2.2 b11 ?_
       intro τ h0 h1 hτ; exact hτ)
    | (refine spec_seg hab γ δ 0 1 _ _ _ _ v0ab (hb3.1.trans ha0.symm) v1ab (hb4.1.trans hb1'.symm) (by simp) hb3.2
        (by simp) hb4.2 ?_
       intro τ h0 h1 hτ; unfold Btw; left; exact ⟨h0, h1⟩)
    | (refine spec_seg hab γ δ γ 1 _ _ _ _ hb1.1 v0cd v1ab (hb4.1.trans hb1'.symm) hb1.2 b00 (by simp) hb4.2 ?_
       intro τ h0 h1 hτ; unfold Btw at *; grind)
    | (refine spec_seg hab γ δ γ 0 _ _ _ _ hb1.1 v0cd v0ab (hb3.1.trans ha0.symm) hb1.2 b00 (by simp) hb3.2 ?_
       intro τ h0 h1 hτ; unfold Btw at *; grind)
    | (refine spec_seg hab γ δ δ 1 _ _ _ _ hb2.1 v1cd v1ab (hb4.1.trans hb1'.symm) hb2.2 b11 (by simp) hb4.2 ?_
       intro τ h0 h1 hτ; unfold Btw at *; grind)
    | (refine spec_seg hab γ δ δ 0 _ _ _ _ hb2.1 v1cd v0ab (hb3.1.trans ha0.symm) hb2.2 b11 (by simp) hb3.2 ?_
       intro τ h0 h1 hτ; unfold Btw at *; grind)

private theorem seg_parallel_branch (a b c d : V2 K) (eps : K) (hpar : crossDir a b c d = 0) :
    letI := fieldNum K sq
    segmentsIntersection2d a b c d eps = parallelIntersection a b c d eps := by
  have hd := segDenom_eq sq a b c d
  unfold segmentsIntersection2d
  simp only [hd, hpar, neg_zero, ulpsEqZero, epsMach, fieldNum_lit, lt_self_iff_false, if_false, sub_self]
  have hl : (0 : K) ≤ ((mkRat 1 4503599627370496 : Rat) : K) := by norm_num
  simp [hl]

/-- **the collinear case table of `segments_intersection2d`** (exact arithmetic, every `a ≠ b`, `eps ≥ 0`).  `c`, `d` are
the points of parameters `γ ≠ δ` on the line `a b` (`a` ↦ 0, `b` ↦ 1).  The answer — *which* of the six `Segment` shapes of
`parallel_intersection` is returned, i.e. which slots are `OnVertex(0)` / `OnVertex(1)` and which carry a computed
location — is determined by the order of the four points along the line:

| order along the line            | answer `Segment{first_loc1, first_loc2, second_loc1, second_loc2}`        |
|---------------------------------|---------------------------------------------------------------------------|
| `c, d ∈ [a, b]`                 | `(loc of c on ab, V0, loc of d on ab, V1)`                                |
| `a, b ∈ [c, d]` (not the above) | `(V0, loc of a on cd, V1, loc of b on cd)`                                |
| `a, c, b, d` (`0 < γ ≤ 1 < δ`)  | `(loc of c on ab, V0, V1, loc of b on cd)`                                |
| `d, a, c, b` (`δ < 0 ≤ γ < 1`)  | `(loc of c on ab, V0, V0, loc of a on cd)`                                |
| `a, d, b, c` (`0 < δ ≤ 1 < γ`)  | `(loc of d on ab, V1, V1, loc of b on cd)`                                |
| `c, a, d, b` (`γ < 0 ≤ δ < 1`)  | `(loc of d on ab, V1, V0, loc of a on cd)`                                |
| both beyond the same end        | `None`                                                                    |

and every computed location denotes the point it is named after.  `collinear_table_exhaustive`: the seven rows cover every
`γ ≠ δ`; both directions of `cd` (`γ < δ`, `γ > δ`) and, through `a ↔ b`, of `ab` are included. -/
theorem segments_collinear_table (a b : V2 K) (hab : a ≠ b) (γ δ : K) (hγδ : γ ≠ δ) (eps : K) (he : 0 ≤ eps) :
    letI := fieldNum K sq
    let c := linePt a b γ
    let d := linePt a b δ
    let r := segmentsIntersection2d a b c d eps
    ((0 ≤ γ ∧ γ ≤ 1) ∧ (0 ≤ δ ∧ δ ≤ 1) →
      ∃ l1 l2, r = some (.segment l1 (.onVertex 0) l2 (.onVertex 1)) ∧ locPt a b l1 = c ∧ locPt a b l2 = d) ∧
    (¬ ((0 ≤ γ ∧ γ ≤ 1) ∧ (0 ≤ δ ∧ δ ≤ 1)) ∧ Btw γ δ 0 ∧ Btw γ δ 1 →
      ∃ l1 l2, r = some (.segment (.onVertex 0) l1 (.onVertex 1) l2) ∧ locPt c d l1 = a ∧ locPt c d l2 = b) ∧
    (0 < γ ∧ γ ≤ 1 ∧ 1 < δ →
      ∃ l1 l2, r = some (.segment l1 (.onVertex 0) (.onVertex 1) l2) ∧ locPt a b l1 = c ∧ locPt c d l2 = b) ∧
    (δ < 0 ∧ 0 ≤ γ ∧ γ < 1 →
      ∃ l1 l2, r = some (.segment l1 (.onVertex 0) (.onVertex 0) l2) ∧ locPt a b l1 = c ∧ locPt c d l2 = a) ∧
    (0 < δ ∧ δ ≤ 1 ∧ 1 < γ →
      ∃ l1 l2, r = some (.segment l1 (.onVertex 1) (.onVertex 1) l2) ∧ locPt a b l1 = d ∧ locPt c d l2 = b) ∧
    (γ < 0 ∧ 0 ≤ δ ∧ δ < 1 →
      ∃ l1 l2, r = some (.segment l1 (.onVertex 1) (.onVertex 0) l2) ∧ locPt a b l1 = d ∧ locPt c d l2 = a) ∧
    ((γ < 0 ∧ δ < 0) ∨ (1 < γ ∧ 1 < δ) → r = none) := by
  intro c d r
  have hcd : linePt a b γ ≠ linePt a b δ := fun h => hγδ (linePt_inj hab h)
  have hpar : crossDir a b (linePt a b γ) (linePt a b δ) = 0 := by simp only [crossDir, linePt]; ring
  have hr : r = @parallelIntersection K (fieldNum K sq) a b (linePt a b γ) (linePt a b δ) eps :=
    seg_parallel_branch sq a b _ _ eps hpar
  have hb1 := between_param sq a b hab γ
  have hb2 := between_param sq a b hab δ
  have hb3 := between_param sq (linePt a b γ) (linePt a b δ) hcd ((0 - γ) / (δ - γ))
  have hb4 := between_param sq (linePt a b γ) (linePt a b δ) hcd ((1 - γ) / (δ - γ))
  rw [reparam a b γ δ 0 hγδ, sigma_btw γ δ 0 hγδ] at hb3
  rw [reparam a b γ δ 1 hγδ, sigma_btw γ δ 1 hγδ] at hb4
  have ha0 : linePt a b 0 = a := by simp [linePt]
  have hb1' : linePt a b 1 = b := by simp [linePt]
  rw [ha0] at hb3; rw [hb1'] at hb4
  have hdeg : @orientation2d K (fieldNum K sq) a b (linePt a b γ) eps = .degenerate := by
    rw [(orientation2d_spec sq a b (linePt a b γ) eps he).2.2]
    have : area2 a b (linePt a b γ) = 0 := by simp only [area2, linePt]; ring
    rw [this, abs_zero]; exact he
  unfold parallelIntersection at hr
  rw [hdeg] at hr
  simp only [ne_eq, not_true_eq_false, if_false] at hr
  show _ ∧ _
  simp only [show c = linePt a b γ from rfl, show d = linePt a b δ from rfl]
  generalize @between K (fieldNum K sq) a b (linePt a b γ) = o1 at hb1 hr
  generalize @between K (fieldNum K sq) a b (linePt a b δ) = o2 at hb2 hr
  generalize @between K (fieldNum K sq) (linePt a b γ) (linePt a b δ) a = o3 at hb3 hr
  generalize @between K (fieldNum K sq) (linePt a b γ) (linePt a b δ) b = o4 at hb4 hr
  rcases o1 with _ | l1 <;> rcases o2 with _ | l2 <;> rcases o3 with _ | l3 <;> rcases o4 with _ | l4 <;>
    simp only at hb1 hb2 hb3 hb4 hr <;>
    refine ⟨?_, ?_, ?_, ?_, ?_, ?_, ?_⟩ <;> intro h <;>
    first
      | (exfalso; unfold Btw at *; grind)
      | exact hr
      | exact ⟨_, _, hr, hb1.1, hb2.1⟩
      | exact ⟨_, _, hr, hb3.1, hb4.1⟩
      | exact ⟨_, _, hr, hb1.1, hb4.1⟩
      | exact ⟨_, _, hr, hb1.1, hb3.1⟩
      | exact ⟨_, _, hr, hb2.1, hb4.1⟩
      | exact ⟨_, _, hr, hb2.1, hb3.1⟩

/-- the seven rows of `segments_collinear_table` cover every pair of distinct parameters -/
theorem collinear_table_exhaustive (γ δ : K) (h : γ ≠ δ) :
    ((0 ≤ γ ∧ γ ≤ 1) ∧ (0 ≤ δ ∧ δ ≤ 1)) ∨
    (¬ ((0 ≤ γ ∧ γ ≤ 1) ∧ (0 ≤ δ ∧ δ ≤ 1)) ∧ Btw γ δ 0 ∧ Btw γ δ 1) ∨
    (0 < γ ∧ γ ≤ 1 ∧ 1 < δ) ∨ (δ < 0 ∧ 0 ≤ γ ∧ γ < 1) ∨ (0 < δ ∧ δ ≤ 1 ∧ 1 < γ) ∨ (γ < 0 ∧ 0 ≤ δ ∧ δ < 1) ∨
    ((γ < 0 ∧ δ < 0) ∨ (1 < γ ∧ 1 < δ)) := by
  unfold Btw
  rcases lt_trichotomy γ 0 with g0 | g0 | g0 <;> rcases lt_trichotomy γ 1 with g1 | g1 | g1 <;>
    rcases lt_trichotomy δ 0 with d0 | d0 | d0 <;> rcases lt_trichotomy δ 1 with d1 | d1 | d1 <;>
    first
      | (exfalso; linarith)
      | (exfalso; apply h; linarith)
      | grind

/-- non-vacuity of the row `a, d, b, c` (the ordering hit by a seeded change): `a = (0,0)`, `b = (2,0)`, `d = (1,0)`,
`c = (3,0)`, i.e. `γ = 3/2`, `δ = 1/2` -/
example : (0 : ℚ) < 1/2 ∧ (1/2 : ℚ) ≤ 1 ∧ (1 : ℚ) < 3/2 ∧ linePt (⟨0,0⟩ : V2 ℚ) ⟨2,0⟩ (3/2) = ⟨3,0⟩ ∧
    linePt (⟨0,0⟩ : V2 ℚ) ⟨2,0⟩ (1/2) = ⟨1,0⟩ := by
  refine ⟨by norm_num, by norm_num, by norm_num, ?_, ?_⟩ <;> simp [linePt]

/-- **C15, segments, exactly parallel lines** (`(b-a)×(d-c) = 0`, both segments non-degenerate, `eps ≥ 0`), every input:
* `c` farther than `eps` (in doubled area) from the line `ab` ⇒ `None`, and the segments are indeed disjoint;
* `c` exactly on the line `ab` (all four points collinear) ⇒ `OverlapSpec`: `None` iff no common point, otherwise
  `Segment{..}` whose two location pairs denote the two end points of the common sub-segment (the overlap is exactly
  `[F, S]`); a single common point is reported as a degenerate segment `F = S`. -/
theorem segments_parallel (a b c d : V2 K) (eps : K) (he : 0 ≤ eps) (hab : a ≠ b) (hcd : c ≠ d)
    (hpar : crossDir a b c d = 0) :
    letI := fieldNum K sq
    (eps < |area2 a b c| →
      segmentsIntersection2d a b c d eps = none ∧ ∀ p, OnSeg a b p → OnSeg c d p → False) ∧
    (area2 a b c = 0 → OverlapSpec a b c d (segmentsIntersection2d a b c d eps)) := by
  rw [seg_parallel_branch sq a b c d eps hpar]
  constructor
  · intro hfar
    constructor
    · unfold parallelIntersection
      have hnd : @orientation2d K (fieldNum K sq) a b c eps ≠ .degenerate := by
        intro h
        rw [(orientation2d_spec sq a b c eps he).2.2] at h
        exact absurd h (not_le.mpr hfar)
      rw [if_pos hnd]
    · rintro p ⟨t, _, _, hpx, hpy⟩ ⟨s, _, _, hqx, hqy⟩
      have h0 : area2 a b c = 0 := by
        unfold area2; unfold crossDir at hpar
        have ex := hpx.symm.trans hqx
        have ey := hpy.symm.trans hqy
        linear_combination (-(b.x - a.x)) * ey + (b.y - a.y) * ex - s * hpar
      rw [h0, abs_zero] at hfar
      exact absurd he (not_le.mpr hfar)
  · intro hcol
    have hcol' : area2 a b d = 0 := by
      unfold area2 at hcol ⊢; unfold crossDir at hpar; linear_combination hcol + hpar
    obtain ⟨γ, rfl⟩ := col_param hab hcol
    obtain ⟨δ, rfl⟩ := col_param hab hcol'
    have hγδ : γ ≠ δ := fun h => hcd (by rw [h])
    exact parallel_collinear sq a b hab γ δ hγδ eps he

/-- non-vacuity: (0,0)-(2,0) and (1,0)-(3,0) are parallel, non-degenerate and collinear -/
example : crossDir (⟨0,0⟩ : V2 ℚ) ⟨2,0⟩ ⟨1,0⟩ ⟨3,0⟩ = 0 ∧ area2 (⟨0,0⟩ : V2 ℚ) ⟨2,0⟩ ⟨1,0⟩ = 0 ∧
    (⟨0,0⟩ : V2 ℚ) ≠ ⟨2,0⟩ ∧ (⟨1,0⟩ : V2 ℚ) ≠ ⟨3,0⟩ := by
  refine ⟨by simp [crossDir], by simp [area2], by simp, by simp⟩

/-! ## non-convex `polygons_intersection`: geometry of the emitted items
(the graph / walk theorems are in `Theorems2.lean`) -/

private theorem parallelIntersection_ne_point (a b c d : V2 K) (eps : K) (l1 l2 : SegLoc K) :
    letI := fieldNum K sq
    parallelIntersection a b c d eps ≠ some (.point l1 l2) := by
  intro h
  revert h
  unfold parallelIntersection
  split_ifs
  · simp
  · intro h
    cases h1 : @between K (fieldNum K sq) a b c <;> cases h2 : @between K (fieldNum K sq) a b d <;>
      cases h3 : @between K (fieldNum K sq) c d a <;> cases h4 : @between K (fieldNum K sq) c d b <;>
      simp [h1, h2, h3, h4] at h

/-- **a `Point` answer of `segments_intersection2d` can only come from the non-parallel branch**: the parallel /
collinear branch (`parallel_intersection`) answers `None` or `Segment`, never `Point` -/
theorem segments_point_nonparallel (a b c d : V2 K) (eps : K) (l1 l2 : SegLoc K) :
    letI := fieldNum K sq
    segmentsIntersection2d a b c d eps = some (.point l1 l2) →
      eps ≤ |crossDir a b c d| ∧ (1 / 2 ^ 52 : K) < |crossDir a b c d| := by
  intro h
  by_contra hc
  have hd := segDenom_eq sq a b c d
  have hl : ((mkRat 1 4503599627370496 : Rat) : K) = 1 / 2 ^ 52 := by norm_num
  have hpar : @segmentsIntersection2d K (fieldNum K sq) a b c d eps = @parallelIntersection K (fieldNum K sq) a b c d eps := by
    unfold segmentsIntersection2d
    simp only [hd, fieldNum_nabs, abs_neg, ulpsEqZero, epsMach, fieldNum_lit, hl]
    have : (|crossDir a b c d| < eps) ∨
        ((if 0 < -crossDir a b c d then -crossDir a b c d - 0 else 0 - -crossDir a b c d) ≤ 1 / 2 ^ 52) := by
      by_cases h1 : eps ≤ |crossDir a b c d|
      · right
        have h2 : |crossDir a b c d| ≤ 1 / 2 ^ 52 := by
          by_contra h2; exact hc ⟨h1, not_le.mp h2⟩
        split_ifs with hs
        · rw [sub_zero]; rw [← abs_of_neg (neg_pos.mp hs)]; exact h2
        · rw [zero_sub, neg_neg]; rw [← abs_of_nonneg (neg_nonpos.mp (not_lt.mp hs))]; exact h2
      · left; exact not_le.mp h1
    rcases this with h1 | h1
    · simp only [h1, decide_true, Bool.true_or, if_true]
    · simp only [h1, decide_true, Bool.or_true, if_true]
  rw [hpar] at h
  exact parallelIntersection_ne_point sq a b c d eps l1 l2 h


private theorem toPoint_ofSegLoc (poly : Array (V2 K)) (i j : Nat) (l : SegLoc K) :
    letI := fieldNum K sq
    PolyLoc.toPoint poly (PolyLoc.ofSegLoc i j l) = locPt (ppt poly i) (ppt poly j) l := by
  cases l with
  | onVertex k => by_cases hk : k = 0 <;> simp [PolyLoc.ofSegLoc, PolyLoc.toPoint, locPt, hk]
  | onEdge u v => simp [PolyLoc.ofSegLoc, PolyLoc.toPoint, locPt, V2.smul, V2.add]

/-- what an item handed to the `out` closure denotes -/
def EmitSpec (poly1 poly2 : Array (V2 K)) (e : Emit K) : Prop :=
  letI := fieldNum K sq
  match e with
  | .inter ip =>
      ip.e1 < poly1.size ∧ ip.e2 < poly2.size ∧
      ip.loc1.toPoint poly1 = ip.loc2.toPoint poly2 ∧
      OnSeg (edgeA poly1 ip.e1) (edgeB poly1 ip.e1) (ip.loc1.toPoint poly1) ∧
      OnSeg (edgeA poly2 ip.e2) (edgeB poly2 ip.e2) (ip.loc1.toPoint poly1)
  | .vtx p v => (p = 0 ∧ v < poly1.size) ∨ (p = 1 ∧ v < poly2.size)
  | .fin => True

/-- **polygons_intersection_vertices_in_both** (non-convex `polygons_intersection`, every iteration order of the hash map,
every input — no simplicity or orientation hypothesis).  Every item handed to the `out` closure is
* either an **intersection point of two edges**: the two locations `(loc1 on poly1, loc2 on poly2)` denote *the same
  point*, and that point lies on the closed edge `e1` of `poly1` and on the closed edge `e2` of `poly2` (so it is on both
  boundaries, hence in both closed polygons), with `e1`, `e2` existing edges;
* or `OnVertex(v)` for an **existing vertex** `v` of `poly1` (first slot) or of `poly2` (second slot);
* or the `(None, None)` end-of-component marker.

**Partial**: for a vertex item the clause "… *inside the other polygon*" is not proved (see
`polygons_intersection_vertices_in_both_full`).  Missing piece: a Jordan-curve type lemma — along a piece of the boundary
of one simple polygon that carries no intersection point with the other boundary, the even–odd membership in the other
polygon is constant.  On the real code this clause is checked by the exact oracle on every generated case. -/
theorem polygons_intersection_vertices_in_both_partial (order : List Nat) (poly1 poly2 : Array (V2 K)) :
    letI := fieldNum K sq
    ∀ e ∈ (polygonsIntersectionOrd order poly1 poly2).trace, EmitSpec sq poly1 poly2 e := by
  intro e he
  have hg := @polygons_intersection_trace_wellformed K (fieldNum K sq) order poly1 poly2 e he
  cases e with
  | fin => trivial
  | vtx p v =>
    obtain ⟨hp, hv⟩ := hg
    unfold plen at hv
    rcases (by omega : p = 0 ∨ p = 1) with rfl | rfl
    · left; exact ⟨rfl, by simpa using hv⟩
    · right; exact ⟨rfl, by simpa using hv⟩
  | inter ip =>
    obtain ⟨h1, h2, l1, l2, hseg, hl1, hl2⟩ := @mem_intersections K (fieldNum K sq) poly1 poly2 _ ip hg
    obtain ⟨hc1, hc2⟩ := segments_point_nonparallel sq _ _ _ _ _ l1 l2 hseg
    have hs := segments_nonparallel sq _ _ _ _ _ hc1 hc2
    rw [hseg] at hs
    simp only at hs
    obtain ⟨e1, e2, e3, _⟩ := hs
    refine ⟨h1, h2, ?_, ?_, ?_⟩
    · rw [hl1, hl2, toPoint_ofSegLoc, toPoint_ofSegLoc]; exact e1
    · rw [hl1, toPoint_ofSegLoc]; exact e2
    · rw [hl1, toPoint_ofSegLoc]; have h3 := e3; rw [← e1] at h3; exact h3

private theorem key_ofSegLoc (i j : Nat) (hij : j ≠ i) (s : K) :
    letI := fieldNum K sq
    centeredBcoords (PolyLoc.ofSegLoc i j (locOfParam s)) i = s := by
  obtain ⟨_, v0, v1⟩ := locOfParam_spec sq (⟨0, 0⟩ : V2 K) ⟨0, 0⟩ s
  by_cases h0 : s = 0
  · rw [v0.2 h0]; simp [PolyLoc.ofSegLoc, centeredBcoords, h0]
  · by_cases h1 : s = 1
    · rw [v1.2 h1]; simp [PolyLoc.ofSegLoc, centeredBcoords, h1, hij]
    · have e0 : ¬ (s ≤ 0 ∧ 0 ≤ s) := fun h => h0 (le_antisymm h.1 h.2)
      have e1 : ¬ (s ≤ 1 ∧ 1 ≤ s) := fun h => h1 (le_antisymm h.1 h.2)
      simp [locOfParam, neq, e0, e1, PolyLoc.ofSegLoc, centeredBcoords]

/-- **the sort key is the edge parameter**: for a registered intersection point, `centered_bcoords` of its location on
`poly1` (resp. `poly2`) is a number `t ∈ [0, 1]` and the point is `a + t (b - a)` on its edge `[a, b]` of that polygon.
With `onEdge_sorted`: the per-edge lists are ordered along the edge, so "consecutive entries" in
`walk_follows_boundaries` are geometric neighbours. -/
theorem centeredBcoords_param (poly1 poly2 : Array (V2 K)) (eps : K) (ip : IPoint K) :
    letI := fieldNum K sq
    ip ∈ intersections poly1 poly2 eps →
    (0 ≤ centeredBcoords ip.loc1 ip.e1 ∧ centeredBcoords ip.loc1 ip.e1 ≤ 1 ∧
      ip.loc1.toPoint poly1 = linePt (edgeA poly1 ip.e1) (edgeB poly1 ip.e1) (centeredBcoords ip.loc1 ip.e1)) ∧
    (0 ≤ centeredBcoords ip.loc2 ip.e2 ∧ centeredBcoords ip.loc2 ip.e2 ≤ 1 ∧
      ip.loc2.toPoint poly2 = linePt (edgeA poly2 ip.e2) (edgeB poly2 ip.e2) (centeredBcoords ip.loc2 ip.e2)) := by
  intro h
  obtain ⟨h1, h2, l1, l2, hseg, hl1, hl2⟩ := @mem_intersections K (fieldNum K sq) poly1 poly2 _ ip h
  obtain ⟨hc1, hc2⟩ := segments_point_nonparallel sq _ _ _ _ _ l1 l2 hseg
  obtain ⟨hnone, hsome⟩ := seg_eval sq _ _ _ _ eps hc1 hc2
  have hpos : (0 : K) < 1 / 2 ^ 52 := by positivity
  have hD : crossDir (@edgeA K (fieldNum K sq) poly1 ip.e1) (@edgeB K (fieldNum K sq) poly1 ip.e1)
      (@edgeA K (fieldNum K sq) poly2 ip.e2) (@edgeB K (fieldNum K sq) poly2 ip.e2) ≠ 0 :=
    fun h0 => by rw [h0, abs_zero] at hc2; linarith
  by_cases hr : OutOfRange (@edgeA K (fieldNum K sq) poly1 ip.e1) (@edgeB K (fieldNum K sq) poly1 ip.e1)
      (@edgeA K (fieldNum K sq) poly2 ip.e2) (@edgeB K (fieldNum K sq) poly2 ip.e2)
  · rw [hnone hr] at hseg; cases hseg
  · rw [hsome hr] at hseg
    simp only [Option.some.injEq, SegInter.point.injEq] at hseg
    obtain ⟨rfl, rfl⟩ := hseg
    simp only [OutOfRange, not_or, not_lt] at hr
    obtain ⟨hs0, hs1, ht0, ht1⟩ := hr
    -- the two end points of each edge have different indices (otherwise the edge would be a point and `crossDir = 0`)
    have hj1 : (ip.e1 + 1) % poly1.size ≠ ip.e1 := by
      intro hj; apply hD; unfold crossDir edgeB edgeA; rw [hj]; ring
    have hj2 : (ip.e2 + 1) % poly2.size ≠ ip.e2 := by
      intro hj; apply hD; unfold crossDir edgeB edgeA; rw [hj]; ring
    rw [hl1, hl2, key_ofSegLoc sq _ _ hj1, key_ofSegLoc sq _ _ hj2, toPoint_ofSegLoc, toPoint_ofSegLoc]
    refine ⟨⟨hs0, hs1, ?_⟩, ⟨ht0, ht1, ?_⟩⟩
    · exact (locOfParam_spec sq _ _ _).1
    · exact (locOfParam_spec sq _ _ _).1

/-- a simple closed polygon: at least 3 vertices; two distinct edges meet only when they are consecutive, and then only in
their common end point -/
def SimplePolygon (P : Array (V2 K)) : Prop :=
  letI := fieldNum K sq
  3 ≤ P.size ∧ ∀ i j, i < P.size → j < P.size → i ≠ j → ∀ p,
    OnSeg (edgeA P i) (edgeB P i) p → OnSeg (edgeA P j) (edgeB P j) p →
      (j = (i + 1) % P.size ∧ p = edgeB P i) ∨ (i = (j + 1) % P.size ∧ p = edgeB P j)

/-- general position of two polygons: no vertex of one on the boundary of the other (the complement is the input class of
the known finding `[vertex-on-boundary]`) -/
def GeneralPosition (P Q : Array (V2 K)) : Prop :=
  letI := fieldNum K sq
  (∀ v j, v < P.size → j < Q.size → ¬ OnSeg (edgeA Q j) (edgeB Q j) (ppt P v)) ∧
  (∀ v j, v < Q.size → j < P.size → ¬ OnSeg (edgeA P j) (edgeB P j) (ppt Q v))

/-- the domain of the non-convex clause: two simple, counter-clockwise polygons in general position, and an iteration
order that lists every edge of `P` carrying an intersection -/
def NonConvexDomain (order : List Nat) (P Q : Array (V2 K)) : Prop :=
  letI := fieldNum K sq
  SimplePolygon sq P ∧ SimplePolygon sq Q ∧ 0 < shoelace2 P.toList ∧ 0 < shoelace2 Q.toList ∧ GeneralPosition sq P Q ∧
  ∀ ip ∈ intersections P Q (defaultCollinearityEps : K), ip.e1 ∈ order

/-- **full statement, not proved** (the gap of `polygons_intersection_vertices_in_both_partial`): on the domain, every
emitted vertex of one polygon is inside the other polygon (even–odd rule of `point_in_poly2d`). -/
def polygons_intersection_vertices_in_both_full : Prop :=
  ∀ (K : Type) [Field K] [LinearOrder K] [IsStrictOrderedRing K] (sq : K → K) (order : List Nat) (P Q : Array (V2 K)),
    letI := fieldNum K sq
    NonConvexDomain sq order P Q →
    ∀ e ∈ (polygonsIntersectionOrd order P Q).trace,
      match e with
      | .vtx p v => if p = 0 then pointInPoly2d (ppt P v) Q.toList = true else pointInPoly2d (ppt Q v) P.toList = true
      | _ => True

/-- **full area / region statement, not proved**: on the domain the call returns `Ok`, and every point `x` off the two
boundaries lies (even–odd) in exactly one output component when it is in both polygons, and in none otherwise.  This says
at once that the components are pairwise interior-disjoint, that their union is `P ∩ Q` up to the boundaries — hence that
the total area is the area of the true intersection — and that the output is empty exactly when the interiors are
disjoint.  Proved parts: `components_all_visited` (no component is lost, none is produced twice),
`polygons_intersection_vertices_in_both_partial` (every output vertex is on both boundaries or an input vertex),
`polygons_intersection_no_crossing` (the nested / disjoint case is decided by the two even–odd tests),
`polygons_intersection_never_panics`.  Missing: (i) termination of each traversal within `len1·len2 + 1` steps and closure
of the walk on its start (needs that the successor map on intersections is a permutation for proper crossings);
(ii) the Jordan-curve argument that the walk keeps the intersection on its left.  On the real code this statement is
checked by the exact signed-fan-decomposition oracle (`oracleNcU` in `Driver.lean`) on every generated case. -/
def polygons_intersection_region_full : Prop :=
  ∀ (K : Type) [Field K] [LinearOrder K] [IsStrictOrderedRing K] (sq : K → K) (order : List Nat) (P Q : Array (V2 K)),
    letI := fieldNum K sq
    NonConvexDomain sq order P Q →
    (polygonsIntersectionOrd order P Q).status = .ok ∧
    ∀ x : V2 K,
      (∀ j, j < P.size → ¬ OnSeg (edgeA P j) (edgeB P j) x) → (∀ j, j < Q.size → ¬ OnSeg (edgeA Q j) (edgeB Q j) x) →
      ((splitComponents P Q (polygonsIntersectionOrd order P Q).trace).filter fun C => pointInPoly2d x C).length =
        if pointInPoly2d x P.toList && pointInPoly2d x Q.toList then 1 else 0


/-! ## geometry of the emitted items (exact arithmetic) -/

/-- the two edges really cross (`|cross| ≥ eps`, `> 2⁻⁵²`: the non-parallel branch) or are exactly collinear and
non-degenerate (the tolerance-free domain of the `Segment` answers) -/
def ExactPair (a b c d : V2 K) (eps : K) : Prop :=
  (eps ≤ |crossDir a b c d| ∧ (1 / 2 ^ 52 : K) < |crossDir a b c d|) ∨
  (crossDir a b c d = 0 ∧ area2 a b c = 0 ∧ a ≠ b ∧ c ≠ d)

/-- non-vacuity of `ExactPair`: a proper crossing, and an exactly collinear non-degenerate pair -/
example : ExactPair (⟨0,0⟩ : V2 ℚ) ⟨2,0⟩ ⟨1,-1⟩ ⟨1,1⟩ (1/1000) ∧ ExactPair (⟨0,0⟩ : V2 ℚ) ⟨2,0⟩ ⟨1,0⟩ ⟨3,0⟩ (1/1000) := by
  constructor
  · left; unfold crossDir; norm_num
  · right; refine ⟨by unfold crossDir; norm_num, by unfold area2; norm_num, by simp, by simp⟩

/-- **soundness of the intersection items of `convex_polygons_intersection_with_tolerances`** (exact arithmetic, every
input — no convexity or orientation hypothesis —, every `eps ≥ 0`).  Every pair handed to `out` is a vertex item
(`OnVertex(b)` of an existing vertex of `poly1` resp. `poly2`) or a pair `(Some(loc1), Some(loc2))` attached to an existing
edge `(a1, b1)` of `poly1` and an existing edge `(a2, b2)` of `poly2` such that — whenever the two edges properly cross or
are exactly collinear (`ExactPair`; always the case for a `Point` answer) — **both locations denote the same point and
this point lies on both closed edges**, hence on both boundaries and in both closed polygons.
Not covered (stated gap): a `Segment` answer for nearly-but-not-exactly parallel edges (`0 < |cross| < eps`), where the
end points are only within the tolerance; and the claim that the *vertex* items lie inside the other polygon (the
correctness of the `inflag` bookkeeping of O'Rourke's algorithm, judged by the exact oracle on every generated case). -/
theorem cvx_items_on_both_boundaries_partial (poly1 poly2 : Array (V2 K)) (eps : K) (he : 0 ≤ eps) :
    letI := fieldNum K sq
    ∀ it ∈ convexPolygonsIntersection poly1 poly2 eps,
      (∃ b, b < poly1.size ∧ it = (some (.onVertex b), none)) ∨
      (∃ b, b < poly2.size ∧ it = (none, some (.onVertex b))) ∨
      ∃ a1 b1 a2 b2 l1 l2, IsPolyEdge poly1.size a1 b1 ∧ IsPolyEdge poly2.size a2 b2 ∧ it = (some l1, some l2) ∧
        (ExactPair (ppt poly1 a1) (ppt poly1 b1) (ppt poly2 a2) (ppt poly2 b2) eps →
          l1.toPoint poly1 = l2.toPoint poly2 ∧
          OnSeg (ppt poly1 a1) (ppt poly1 b1) (l1.toPoint poly1) ∧
          OnSeg (ppt poly2 a2) (ppt poly2 b2) (l1.toPoint poly1)) := by
  intro it hit
  rcases @cvx_items_wellformed K (fieldNum K sq) poly1 poly2 eps it hit with
    ⟨a1, b1, a2, b2, l1, l2, he1, he2, rfl, hcase⟩ | h | h
  · refine Or.inr (Or.inr ⟨a1, b1, a2, b2, _, _, he1, he2, rfl, ?_⟩)
    intro hex
    rw [toPoint_ofSegLoc sq, toPoint_ofSegLoc sq]
    rcases hcase with hseg | ⟨s1, s2, hseg⟩ | ⟨f1, f2, hseg⟩
    · obtain ⟨hc1, hc2⟩ := segments_point_nonparallel sq _ _ _ _ _ l1 l2 hseg
      have hs := segments_nonparallel sq _ _ _ _ _ hc1 hc2
      rw [hseg] at hs
      obtain ⟨e1, e2, e3, _⟩ := hs
      exact ⟨e1, e2, by rw [e1]; exact e3⟩
    · rcases hex with ⟨hc1, hc2⟩ | ⟨hpar, hcol, hab, hcd⟩
      · have hs := segments_nonparallel sq _ _ _ _ _ hc1 hc2
        rw [hseg] at hs; exact absurd hs id
      · have hs := (segments_parallel sq _ _ _ _ eps he hab hcd hpar).2 hcol
        rw [hseg] at hs
        obtain ⟨e1, _, e3, e4, _⟩ := hs
        exact ⟨e1, e3, e4⟩
    · rcases hex with ⟨hc1, hc2⟩ | ⟨hpar, hcol, hab, hcd⟩
      · have hs := segments_nonparallel sq _ _ _ _ _ hc1 hc2
        rw [hseg] at hs; exact absurd hs id
      · have hs := (segments_parallel sq _ _ _ _ eps he hab hcd hpar).2 hcol
        rw [hseg] at hs
        obtain ⟨_, e2, _, _, e5, e6, _⟩ := hs
        exact ⟨e2, e5, e6⟩
  · exact Or.inl h
  · exact Or.inr (Or.inl h)

/-- **soundness of `convex_polygons_intersection_points_with_tolerances`, point form** (exact arithmetic, `eps ≥ 0`, every
input): every output point is a vertex of `poly1`, a vertex of `poly2`, or a point attached to an existing edge of each
polygon which — whenever the two edges properly cross or are exactly collinear — lies on both closed edges.
Same stated gap as `cvx_items_on_both_boundaries_partial`. -/
theorem cvx_points_sound_partial (poly1 poly2 : Array (V2 K)) (eps : K) (he : 0 ≤ eps) :
    letI := fieldNum K sq
    ∀ pt ∈ convexPolygonsIntersectionPoints poly1 poly2 eps,
      (∃ b, b < poly1.size ∧ pt = ppt poly1 b) ∨ (∃ b, b < poly2.size ∧ pt = ppt poly2 b) ∨
      ∃ a1 b1 a2 b2, IsPolyEdge poly1.size a1 b1 ∧ IsPolyEdge poly2.size a2 b2 ∧
        (ExactPair (ppt poly1 a1) (ppt poly1 b1) (ppt poly2 a2) (ppt poly2 b2) eps →
          OnSeg (ppt poly1 a1) (ppt poly1 b1) pt ∧ OnSeg (ppt poly2 a2) (ppt poly2 b2) pt) := by
  intro pt hpt
  unfold convexPolygonsIntersectionPoints at hpt
  rw [Array.mem_filterMap] at hpt
  obtain ⟨it, hit, hf⟩ := hpt
  rcases cvx_items_on_both_boundaries_partial sq poly1 poly2 eps he it hit with
    ⟨b, hb, rfl⟩ | ⟨b, hb, rfl⟩ | ⟨a1, b1, a2, b2, l1, l2, he1, he2, rfl, hgeo⟩
  · simp only [Option.some.injEq] at hf
    exact Or.inl ⟨b, hb, by rw [← hf]; rfl⟩
  · simp only [Option.some.injEq] at hf
    exact Or.inr (Or.inl ⟨b, hb, by rw [← hf]; rfl⟩)
  · simp only [Option.some.injEq] at hf
    refine Or.inr (Or.inr ⟨a1, b1, a2, b2, he1, he2, fun hex => ?_⟩)
    obtain ⟨_, h2, h3⟩ := hgeo hex
    rw [← hf]; exact ⟨h2, h3⟩

/-- the polygon is convex: every vertex is on the closed left of every directed edge (counter-clockwise) or every vertex
is on the closed right of every directed edge (clockwise) -/
def ConvexPoly (poly : List (V2 K)) : Prop :=
  (∀ e ∈ polyEdges poly, ∀ v ∈ poly, 0 ≤ area2 e.1 e.2 v) ∨ (∀ e ∈ polyEdges poly, ∀ v ∈ poly, area2 e.1 e.2 v ≤ 0)

private theorem area2_onSeg (u v a b p : V2 K) (h : OnSeg a b p) :
    ∃ t : K, 0 ≤ t ∧ t ≤ 1 ∧ area2 u v p = (1 - t) * area2 u v a + t * area2 u v b := by
  obtain ⟨t, h0, h1, hx, hy⟩ := h
  refine ⟨t, h0, h1, ?_⟩
  unfold area2; rw [hx, hy]; ring

/-- **a point of a closed edge of a convex polygon is in the polygon** (as decided by `point_in_convex_poly2d`): with
`cvx_items_on_both_boundaries_partial` this gives, for convex inputs of either orientation, that every intersection item
of `convex_polygons_intersection` is a point of **both** polygons. -/
theorem onSeg_in_convex (poly : List (V2 K)) (hc : ConvexPoly poly) (a b p : V2 K) (ha : a ∈ poly) (hb : b ∈ poly)
    (hp : OnSeg a b p) :
    letI := fieldNum K sq
    pointInConvexPoly2d p poly = true := by
  rw [point_in_convex_poly2d_iff]
  refine ⟨List.ne_nil_of_mem ha, ?_⟩
  rcases hc with hc | hc
  · left; intro e he
    obtain ⟨t, h0, h1, ht⟩ := area2_onSeg e.1 e.2 a b p hp
    rw [ht]
    have := hc e he a ha; have := hc e he b hb
    have : 0 ≤ 1 - t := by linarith
    positivity
  · right; intro e he
    obtain ⟨t, h0, h1, ht⟩ := area2_onSeg e.1 e.2 a b p hp
    rw [ht]
    have h2 := hc e he a ha; have h3 := hc e he b hb
    have h4 : 0 ≤ 1 - t := by linarith
    nlinarith [mul_nonneg h4 (neg_nonneg.mpr h2), mul_nonneg h0 (neg_nonneg.mpr h3)]

/-- non-vacuity: the unit square is convex, (1/2, 0) is on its first edge -/
example : ConvexPoly ([⟨0,0⟩, ⟨1,0⟩, ⟨1,1⟩, ⟨0,1⟩] : List (V2 ℚ)) ∧
    OnSeg (⟨0,0⟩ : V2 ℚ) ⟨1,0⟩ ⟨1/2, 0⟩ := by
  refine ⟨Or.inl ?_, ⟨1/2, by norm_num, by norm_num, by norm_num, by norm_num⟩⟩
  intro e he v hv
  simp only [polyEdges, List.zip, List.zipWith, List.cons_append, List.nil_append, List.mem_cons, List.not_mem_nil,
    or_false] at he hv
  rcases he with rfl | rfl | rfl | rfl <;> rcases hv with rfl | rfl | rfl | rfl <;> norm_num [area2]

/-- **soundness of the containment fall-back** (exact arithmetic, `eps ≥ 0`): when the scan of the edges of `polyA`
against the points of `polyB` succeeds (`ok`), all points of `polyB` are on the closed left side of **every** edge line of
`polyA` up to the dead-band (`area2 ≥ -eps`), or all are on the closed right side of every edge line (`area2 ≤ eps`) —
so for a convex `polyA` and `eps = 0` every emitted vertex of `polyB` is a point of `polyA` in the sense of
`point_in_convex_poly2d_iff`.  (The vertices emitted by the fall-back are exactly those of `polyB`, each once, in input
order or reversed: `cvx_items_wellformed` + the model.) -/
theorem convex_fallback_sound (polyA polyB : Array (V2 K)) (eps : K) (he : 0 ≤ eps) :
    letI := fieldNum K sq
    containScan polyA polyB eps = true →
      (∀ a < polyA.size, ∀ p ∈ polyB.toList,
          -eps ≤ area2 (ppt polyA ((a + polyA.size - 1) % polyA.size)) (ppt polyA a) p) ∨
      (∀ a < polyA.size, ∀ p ∈ polyB.toList,
          area2 (ppt polyA ((a + polyA.size - 1) % polyA.size)) (ppt polyA a) p ≤ eps) := by
  intro h
  have h' := (@containScan_iff K (fieldNum K sq) polyA polyB eps).mp h
  by_contra hcon
  push Not at hcon
  obtain ⟨⟨a, ha, p, hp, h1⟩, ⟨a', ha', p', hp', h2⟩⟩ := hcon
  apply h'
  constructor
  · refine ⟨a', ha', p', hp', ?_⟩
    unfold scanOrient
    rw [(orientation2d_spec sq _ _ _ eps he).1]; exact h2
  · refine ⟨a, ha, p, hp, ?_⟩
    unfold scanOrient
    rw [(orientation2d_spec sq _ _ _ eps he).2.1]; exact h1


end C15
