import ParryModel.Field
import ParryModel.C15.Model
/-!
# C15 property theorems (2-D predicates), for every linearly ordered field.
-/
namespace C15
open Model Model.C15
variable {K : Type} [Field K] [LinearOrder K] [IsStrictOrderedRing K] (sq : K → K)

/-- twice the signed area of the triangle `(a, b, c)`: `(b - a) × (c - a)`; positive = counter-clockwise -/
def area2 (a b c : V2 K) : K := (b.x - a.x) * (c.y - a.y) - (b.y - a.y) * (c.x - a.x)

theorem orientation2d_spec (a b c : V2 K) (eps : K) (he : 0 ≤ eps) :
    letI := fieldNum K sq
    (orientation2d a b c eps = .ccw ↔ eps < area2 a b c) ∧
    (orientation2d a b c eps = .cw ↔ area2 a b c < -eps) ∧
    (orientation2d a b c eps = .degenerate ↔ |area2 a b c| ≤ eps) := by
  have hA : @V2.perp K (fieldNum K sq) (@V2.sub K (fieldNum K sq) b a) (@V2.sub K (fieldNum K sq) c a) = area2 a b c := rfl
  unfold orientation2d
  simp only [hA]
  split_ifs with h1 h2
  · refine ⟨iff_of_true rfl h1, iff_of_false (by simp) (by linarith), iff_of_false (by simp) ?_⟩
    rw [abs_le]; intro h; linarith [h.2]
  · refine ⟨iff_of_false (by simp) h1, iff_of_true rfl h2, iff_of_false (by simp) ?_⟩
    rw [abs_le]; intro h; linarith [h.1]
  · refine ⟨iff_of_false (by simp) h1, iff_of_false (by simp) h2, iff_of_true rfl ?_⟩
    rw [abs_le]; push Not at h1 h2; exact ⟨h2, h1⟩
end C15
