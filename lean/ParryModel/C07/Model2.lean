import ParryModel.Vec
import ParryModel.C09.Model
/-!
# C07 model, part 2: the lane tests of the composite-shape visitors and the nonlinear rigid motion

* `laneIntersects2` / `laneIntersects3` – one lane of `SimdAabb::intersects` (`bounding_volume/simd_aabb.rs`), literal
  comparison order, closed comparisons (`simd_le`): used by `BoundingVolumeIntersectionsVisitor` (contact, contact
  manifolds, `Qbvh::intersect_aabb`) and by `IntersectionCompositeShapeShapeVisitor`;
* `laneContainsPoint2/3` – `SimdAabb::contains_local_point`;
* `laneDistToOrigin2` – `SimdAabb::distance_to_origin` in 2-D (3-D: `Model.distToOrigin` in `Link.lean`);
* `laneDistPoint2/3` – `SimdAabb::distance_to_local_point`;
* `laneCastRay2/3` – one lane of `SimdAabb::cast_local_ray` (the slab loop with `select`), used by the ray visitors and –
  on the Minkowski-sum box – by the shape-cast visitor;
* `Motion2` / `Motion3` – `NonlinearRigidMotion` (`query/nonlinear_shape_cast/nonlinear_rigid_motion.rs`): `set_start`,
  `append_translation`, `prepend_translation`, `append`, `prepend`, `position_at_time`.  The exponential map
  `Isometry::new(linvel * t, angvel * t)` is a parameter `M` of `positionAt` (its rotation part is not algebraic).
-/
namespace Model
namespace C07
variable {K : Type} [Num K]

/-! ## lane tests -/

/-- `SimdAabb::intersects`, `dim2`: `self.mins.x <= other.maxs.x & other.mins.x <= self.maxs.x & self.mins.y <= other.maxs.y
& other.mins.y <= self.maxs.y` -/
def laneIntersects2 (a b : Aabb2 K) : Bool :=
  decide (a.mins.x ≤ b.maxs.x) && decide (b.mins.x ≤ a.maxs.x) &&
  decide (a.mins.y ≤ b.maxs.y) && decide (b.mins.y ≤ a.maxs.y)

/-- `SimdAabb::intersects`, `dim3` -/
def laneIntersects3 (a b : Aabb3 K) : Bool :=
  decide (a.mins.x ≤ b.maxs.x) && decide (b.mins.x ≤ a.maxs.x) &&
  decide (a.mins.y ≤ b.maxs.y) && decide (b.mins.y ≤ a.maxs.y) &&
  decide (a.mins.z ≤ b.maxs.z) && decide (b.mins.z ≤ a.maxs.z)

/-- `SimdAabb::contains_local_point`, `dim2`: `mins.x <= p.x & mins.y <= p.y & maxs.x >= p.x & maxs.y >= p.y` -/
def laneContainsPoint2 (a : Aabb2 K) (p : V2 K) : Bool :=
  decide (a.mins.x ≤ p.x) && decide (a.mins.y ≤ p.y) && decide (p.x ≤ a.maxs.x) && decide (p.y ≤ a.maxs.y)

/-- `SimdAabb::contains_local_point`, `dim3` -/
def laneContainsPoint3 (a : Aabb3 K) (p : V3 K) : Bool :=
  decide (a.mins.x ≤ p.x) && decide (a.mins.y ≤ p.y) && decide (a.mins.z ≤ p.z) &&
  decide (p.x ≤ a.maxs.x) && decide (p.y ≤ a.maxs.y) && decide (p.z ≤ a.maxs.z)

/-- `SimdAabb::distance_to_origin`, `dim2`: `mins.sup(-maxs).sup(0).norm()` -/
def laneDistToOrigin2 (b : Aabb2 K) : K := ((b.mins.sup b.maxs.neg).sup V2.zero).norm

/-- `SimdAabb::distance_to_local_point`: `(mins - p).sup(p - maxs).sup(0).norm()` -/
def laneDistPoint2 (b : Aabb2 K) (p : V2 K) : K := (((b.mins.sub p).sup (p.sub b.maxs)).sup V2.zero).norm
def laneDistPoint3 (b : Aabb3 K) (p : V3 K) : K := (((b.mins.sub p).sup (p.sub b.maxs)).sup V3.zero).norm

/-- one axis of the loop of `SimdAabb::cast_local_ray` on `(mins[i], maxs[i], origin[i], dir[i])` with the running
`(hit, tmin, tmax)`; `big` is `Real::MAX`.  `tmin`/`tmax` are updated on every axis (with `∓big` on an axis whose
direction component is zero, which leaves them unchanged for finite values). -/
def raySlab (big : K) (mn mx o d : K) (st : Bool × K × K) : Bool × K × K :=
  let isNotZero := !(neq d 0)
  let isZeroTest := decide (mn ≤ o) && decide (o ≤ mx)
  let denom := 1 / d
  let near0 := if isNotZero then (mn - o) * denom else -big
  let far0 := if isNotZero then (mx - o) * denom else big
  let gt := decide (far0 < near0)
  let near := if gt then far0 else near0
  let far := if gt then near0 else far0
  let tmin := nmax st.2.1 near
  let tmax := nmin st.2.2 far
  let test := if isNotZero then decide (tmin ≤ tmax) else isZeroTest
  (st.1 && test, tmin, tmax)

/-- one lane of `SimdAabb::cast_local_ray(ray, max_time_of_impact)`: `(hit, tmin)` -/
def laneCastRay2 (big : K) (b : Aabb2 K) (o d : V2 K) (maxToi : K) : Bool × K :=
  let s0 := raySlab big b.mins.x b.maxs.x o.x d.x (true, 0, maxToi)
  let s1 := raySlab big b.mins.y b.maxs.y o.y d.y s0
  (s1.1, s1.2.1)

def laneCastRay3 (big : K) (b : Aabb3 K) (o d : V3 K) (maxToi : K) : Bool × K :=
  let s0 := raySlab big b.mins.x b.maxs.x o.x d.x (true, 0, maxToi)
  let s1 := raySlab big b.mins.y b.maxs.y o.y d.y s0
  let s2 := raySlab big b.mins.z b.maxs.z o.z d.z s1
  (s2.1, s2.2.1)

/-! ## `NonlinearRigidMotion` -/

/-- `Translation::from(v) * iso` (nalgebra: `Isometry::from_parts(self * right.translation, right.rotation)`,
`Translation * Translation = Translation(self.vector + right.vector)`) -/
def tMul3 (v : V3 K) (a : Iso3 K) : Iso3 K := ⟨a.qi, a.qj, a.qk, a.qw, v.add a.t⟩
/-- `iso * Translation::from(v)` (nalgebra: `new_tr = self.translation.vector + self.rotation.transform_vector(&v)`) -/
def mulT3 (a : Iso3 K) (v : V3 K) : Iso3 K := ⟨a.qi, a.qj, a.qk, a.qw, a.t.add (a.rot v)⟩
def tMul2 (v : V2 K) (a : Iso2 K) : Iso2 K := ⟨a.re, a.im, v.add a.t⟩
def mulT2 (a : Iso2 K) (v : V2 K) : Iso2 K := ⟨a.re, a.im, a.t.add (a.rot v)⟩

structure Motion3 (K : Type) where
  start : Iso3 K
  localCenter : V3 K
  linvel : V3 K
  angvel : V3 K

structure Motion2 (K : Type) where
  start : Iso2 K
  localCenter : V2 K
  linvel : V2 K
  angvel : K

namespace Motion3
/-- `set_start`: `local_center = new_start.inverse_transform_point(&(start * local_center)); start = new_start` -/
def setStart (m : Motion3 K) (ns : Iso3 K) : Motion3 K :=
  { m with localCenter := ns.invAct (m.start.act m.localCenter), start := ns }
/-- `append_translation(tra)`: `set_start(Translation::from(tra) * start)` -/
def appendTranslation (m : Motion3 K) (tra : V3 K) : Motion3 K := m.setStart (tMul3 tra m.start)
/-- `prepend_translation(tra)`: `set_start(start * Translation::from(tra))` -/
def prependTranslation (m : Motion3 K) (tra : V3 K) : Motion3 K := m.setStart (mulT3 m.start tra)
/-- `append(iso)`: `set_start(iso * start)` -/
def append (m : Motion3 K) (iso : Iso3 K) : Motion3 K := m.setStart (iso.mul m.start)
/-- `prepend(iso)`: `set_start(start * iso)` -/
def prepend (m : Motion3 K) (iso : Iso3 K) : Motion3 K := m.setStart (m.start.mul iso)
/-- `position_at_time(t)` with `M = Isometry::new(linvel * t, angvel * t)`:
`(shift * M) * (shift.inverse() * start)`, `shift = Translation::from((start * local_center).coords)` -/
def positionAt (m : Motion3 K) (M : Iso3 K) : Iso3 K :=
  let center := m.start.act m.localCenter
  (tMul3 center M).mul (tMul3 center.neg m.start)
end Motion3

namespace Motion2
def setStart (m : Motion2 K) (ns : Iso2 K) : Motion2 K :=
  { m with localCenter := ns.invAct (m.start.act m.localCenter), start := ns }
def appendTranslation (m : Motion2 K) (tra : V2 K) : Motion2 K := m.setStart (tMul2 tra m.start)
def prependTranslation (m : Motion2 K) (tra : V2 K) : Motion2 K := m.setStart (mulT2 m.start tra)
def append (m : Motion2 K) (iso : Iso2 K) : Motion2 K := m.setStart (iso.mul m.start)
def prepend (m : Motion2 K) (iso : Iso2 K) : Motion2 K := m.setStart (m.start.mul iso)
def positionAt (m : Motion2 K) (M : Iso2 K) : Iso2 K :=
  let center := m.start.act m.localCenter
  (tMul2 center M).mul (tMul2 center.neg m.start)
end Motion2

end C07
end Model
