import ParryModel.Field
import ParryModel.C07.Model3
import ParryModel.C07.Theorems6
import Mathlib.Data.Rat.Floor
/-!
# C07 theorems, part 7: the cell walk of the 2-D heightfield shape cast tests every cell the shape can reach

`Model.C07.HF2.walk` = the list of cells on which `cast_shapes_heightfield_shape` (dim2) attempts the per-segment cast
(bit-exact leg `hf2_walk`, observed on the real function through a recording dispatcher).

* `walkLoop_right_complete` / `walkLoop_left_complete` – the `while` loop reaches every present cell between `curr_elt` and
  the border as long as the time test `curr_param - hext / |dir.x| >= max_toi` does not fire on the way;
* `hf2_walk_complete` – **every present cell whose abscissa interval is overlapped (open overlap) at some time
  `0 ≤ t < max_time_of_impact` by the abscissa interval of the moving box `aabb2_1 + t·vel` is tested**: the initial range
  (enlarged by one cell), the start index of the walk, the loop bounds (`curr_elt > 0`, `curr_elt < num_cells - 1`) and the
  early `break` never skip a cell that could give an impact.  (A cell the box never overlaps in abscissa cannot be hit:
  the shape is inside its box.)
-/
namespace C07
open Model Model.C07
set_option linter.unusedSectionVars false
set_option linter.unusedVariables false
set_option linter.style.haveILetI false

section walk
variable {K : Type} [Field K] [LinearOrder K] [IsStrictOrderedRing K] (sq : K → K)

private theorem fq_ofInt' (fl cl : K → Int) (n : Int) : @Quant.ofInt K (fieldQuant K fl cl) n = (n : K) := rfl
private theorem fq_floorI' (fl cl : K → Int) (x : K) : @Quant.floorI K (fieldQuant K fl cl) x = fl x := rfl
private theorem fq_ceilI' (fl cl : K → Int) (x : K) : @Quant.ceilI K (fieldQuant K fl cl) x = cl x := rfl
private theorem half_eq'' : ((mkRat 1 2 : Rat) : K) = 1 / 2 := by norm_num

/-- the loop towards `+x` -/
theorem walkLoop_right_complete (fl cl : K → Int) (h : HF2 K) (cw sx ox dx hext maxToi : K) :
    letI := fieldNum K sq; letI := fieldQuant K fl cl
    ∀ (fuel : Nat) (curr : Int) (j : Nat), (h.numCells : Int) ≤ curr + 1 + fuel → curr < (j : Int) → j < h.numCells →
      h.present j = true →
      (∀ k : Int, curr < k → k ≤ (j : Int) → ¬ (maxToi ≤ (cw * (k : K) + sx - ox) / dx - hext / |dx|)) →
      j ∈ h.walkLoop true cw sx ox dx hext maxToi fuel curr := by
  letI := fieldNum K sq; letI := fieldQuant K fl cl
  intro fuel
  induction fuel with
  | zero => intro curr j hf hc hj; omega
  | succ f ih =>
    intro curr j hf hc hj hp hnb
    have hlt : curr < (h.numCells : Int) - 1 := by omega
    have hb := hnb (curr + 1) (by omega) (by omega)
    unfold HF2.walkLoop
    simp only [Bool.true_and, decide_eq_true hlt, if_true, fq_ofInt', fieldNum_nabs]
    rw [if_neg hb, List.mem_append]
    by_cases hjc : (j : Int) = curr + 1
    · left
      have e : (curr + 1).toNat = j := by omega
      rw [e, hp]; simp
    · right
      exact ih (curr + 1) j (by omega) (by omega) hj hp (fun k hk1 hk2 => hnb k (by omega) hk2)

/-- the loop towards `-x` -/
theorem walkLoop_left_complete (fl cl : K → Int) (h : HF2 K) (cw sx ox dx hext maxToi : K) :
    letI := fieldNum K sq; letI := fieldQuant K fl cl
    ∀ (fuel : Nat) (curr : Int) (j : Nat), curr ≤ (fuel : Int) → (j : Int) < curr →
      h.present j = true →
      (∀ k : Int, (j : Int) < k → k ≤ curr → ¬ (maxToi ≤ (ox - cw * (k : K) - sx) / dx - hext / |dx|)) →
      j ∈ h.walkLoop false cw sx ox dx hext maxToi fuel curr := by
  letI := fieldNum K sq; letI := fieldQuant K fl cl
  intro fuel
  induction fuel with
  | zero => intro curr j hf hc; omega
  | succ f ih =>
    intro curr j hf hc hp hnb
    have hpos : 0 < curr := by omega
    have hb := hnb curr (by omega) (le_refl _)
    unfold HF2.walkLoop
    simp only [Bool.false_and, Bool.not_false, Bool.true_and, decide_eq_true hpos, if_true, fq_ofInt', fieldNum_nabs]
    rw [if_neg (by simp), if_neg hb, List.mem_append]
    by_cases hjc : (j : Int) = curr - 1
    · left
      have e : (curr - 1).toNat = j := by omega
      rw [e, hp]; simp
    · right
      exact ih (curr - 1) j (by omega) (by omega) hp (fun k hk1 hk2 => hnb k hk1 (by omega))

/-- `neq x 0` at the lawful instance -/
private theorem neq_zero_iff (x : K) : letI := fieldNum K sq; (neq x 0 = true) ↔ x = 0 := by
  letI := fieldNum K sq
  simp only [neq, Bool.and_eq_true, decide_eq_true_eq]
  constructor
  · rintro ⟨a, b⟩; exact le_antisymm a b
  · intro e; rw [e]; exact ⟨le_refl _, le_refl _⟩

/-- reverse quantisation fact (floor): a cell index strictly below `quantize_floor_unclamped(lo)` ends at or before `lo` -/
private theorem floor_gt_imp (fl cl : K → Int) (hq : LawfulQuant fl cl) (seg lo : K) (k : Int) (hseg : 0 < seg) :
    letI := fieldNum K sq; letI := fieldQuant K fl cl
    k < HF2.quantFloorU lo seg → -(1 / 2) + seg * (k : K) + seg ≤ lo := by
  letI := fieldNum K sq; letI := fieldQuant K fl cl
  simp only [HF2.quantFloorU, fieldNum_lit, half_eq'', fq_floorI']
  intro hk
  have h1 := hq.floor_le ((lo + 1 / 2) / seg)
  have h2 : ((k + 1 : Int) : K) ≤ ((fl ((lo + 1 / 2) / seg) : Int) : K) := Int.cast_le.mpr (by omega)
  have h3 : ((k : K) + 1) ≤ (lo + 1 / 2) / seg := by push_cast at h2; linarith
  rw [le_div_iff₀ hseg] at h3
  nlinarith

/-- reverse quantisation fact (ceil): a cell index at or above `quantize_ceil_unclamped(hi)` starts at or after `hi` -/
private theorem ceil_le_imp (fl cl : K → Int) (hq : LawfulQuant fl cl) (seg hi : K) (k : Int) (hseg : 0 < seg) :
    letI := fieldNum K sq; letI := fieldQuant K fl cl
    HF2.quantCeilU hi seg ≤ k → hi ≤ -(1 / 2) + seg * (k : K) := by
  letI := fieldNum K sq; letI := fieldQuant K fl cl
  simp only [HF2.quantCeilU, fieldNum_lit, half_eq'', fq_ceilI']
  intro hk
  have h1 := hq.le_ceil ((hi + 1 / 2) / seg)
  have h2 : ((cl ((hi + 1 / 2) / seg) : Int) : K) ≤ ((k : Int) : K) := Int.cast_le.mpr hk
  have h3 : (hi + 1 / 2) / seg ≤ (k : K) := by linarith
  rw [div_le_iff₀ hseg] at h3
  nlinarith

private theorem mem_first (h : HF2 K) (s e : Int) (i : Nat) (hs : s ≤ (i : Int)) (he : (i : Int) < e) (hi : i < h.numCells)
    (hp : h.present i = true) :
    i ∈ (List.range' (clampI s 0 (h.numCells : Int)).toNat ((clampI e 0 (h.numCells : Int)).toNat - (clampI s 0 (h.numCells : Int)).toNat)).filter
      fun i => h.present i := by
  rw [List.mem_filter, List.mem_range'_1]
  refine ⟨?_, hp⟩
  have a1 : (clampI s 0 (h.numCells : Int)).toNat ≤ i := by simp only [clampI]; split_ifs <;> omega
  have a2 : i < (clampI e 0 (h.numCells : Int)).toNat := by simp only [clampI]; split_ifs <;> omega
  omega

/-- **the cell walk is complete**: a present cell whose abscissa interval is overlapped (open overlap) by the abscissa
interval of the moving box at some time `0 ≤ t < max_time_of_impact` is among the cells on which the per-segment cast is
attempted. -/
theorem hf2_walk_complete (fl cl : K → Int) (hq : LawfulQuant fl cl) (h : HF2 K) (aabb : Aabb2 K) (vel : V2 K) (maxToi t : K)
    (i : Nat) :
    letI := fieldNum K sq; letI := fieldQuant K fl cl
    2 ≤ h.heights.size → 0 < h.scale.x → aabb.mins.x ≤ aabb.maxs.x → i < h.numCells → h.present i = true →
    0 ≤ t → t < maxToi →
    aabb.mins.x + t * vel.x < h.scale.x * (h.x0 i + h.segLength) → h.scale.x * h.x0 i < aabb.maxs.x + t * vel.x →
    i ∈ h.walk aabb vel maxToi := by
  letI := fieldNum K sq; letI := fieldQuant K fl cl
  intro hn hsx hbox hi hp ht0 htm ho1 ho2
  have hsegpos : 0 < h.segLength := by
    have hnc : 1 ≤ h.numCells := by simp only [HF2.numCells]; omega
    have e : ((h.heights.size : Int) : K) - 1 = ((h.numCells : Nat) : K) := by
      simp only [HF2.numCells]
      have : h.heights.size = (h.heights.size - 1) + 1 := by omega
      rw [this]; push_cast; simp
    simp only [HF2.segLength, fq_ofInt']; rw [e]
    have : (0 : K) < ((h.numCells : Nat) : K) := by exact_mod_cast hnc
    positivity
  simp only [HF2.x0, fieldNum_lit, half_eq'', fq_ofInt'] at ho1 ho2
  push_cast at ho1 ho2
  -- abscissa of the left end of cell `k` in the local frame
  have hX : ∀ k : Int, h.cellWidth * (k : K) + h.startX = h.scale.x * (-(1 / 2) + h.segLength * (k : K)) := by
    intro k; simp only [HF2.cellWidth, HF2.startX, fieldNum_lit, half_eq'']; ring
  -- the two reverse facts in the local frame
  have hF1 : ∀ k : Int, k < (h.unclampedRange aabb).1 →
      h.scale.x * (-(1 / 2) + h.segLength * (k : K) + h.segLength) ≤ aabb.mins.x := by
    intro k hk
    have := floor_gt_imp sq fl cl hq h.segLength (aabb.mins.x / h.scale.x) k hsegpos hk
    rw [le_div_iff₀ hsx] at this; linarith
  have hF2 : ∀ k : Int, (h.unclampedRange aabb).2 ≤ k →
      aabb.maxs.x ≤ h.scale.x * (-(1 / 2) + h.segLength * (k : K)) := by
    intro k hk
    have := ceil_le_imp sq fl cl hq h.segLength (aabb.maxs.x / h.scale.x) k hsegpos hk
    rw [div_le_iff₀ hsx] at this; linarith
  have hmono : ∀ a b : Int, a ≤ b → h.scale.x * (-(1 / 2) + h.segLength * (a : K)) ≤ h.scale.x * (-(1 / 2) + h.segLength * (b : K)) := by
    intro a b hab
    have : (a : K) ≤ (b : K) := Int.cast_le.mpr hab
    have h1 : h.segLength * (a : K) ≤ h.segLength * (b : K) := mul_le_mul_of_nonneg_left this hsegpos.le
    nlinarith
  have hcen : (V2.center aabb.mins aabb.maxs).x = (aabb.mins.x + aabb.maxs.x) * (1 / 2) := by
    simp only [V2.center, V2.add, V2.smul, fieldNum_lit, half_eq'']
  have hhe : ((aabb.maxs.sub aabb.mins).smul (lit 1 2)).x = (aabb.maxs.x - aabb.mins.x) * (1 / 2) := by
    simp only [V2.sub, V2.smul, fieldNum_lit, half_eq'']
  rcases lt_trichotomy vel.x 0 with hdx | hdx | hdx
  · -- moving towards -x
    have hr : decide (0 < vel.x) = false := decide_eq_false (not_lt.mpr hdx.le)
    have hz : neq vel.x 0 = false := by
      rw [Bool.eq_false_iff]; intro hc; exact (ne_of_lt hdx) ((neq_zero_iff sq vel.x).mp hc)
    have htd : t * vel.x ≤ 0 := mul_nonpos_of_nonneg_of_nonpos ht0 hdx.le
    simp only [HF2.walk, hr, hz, Bool.false_eq_true, if_false]
    rw [List.mem_append]
    by_cases hge : (h.unclampedRange aabb).2 ≤ (i : Int)
    · exfalso
      have := hF2 i hge; push_cast at this; linarith
    by_cases hin : (h.unclampedRange aabb).1 - 1 ≤ (i : Int)
    · left; exact mem_first h _ _ i hin (by omega) hi hp
    · right
      refine walkLoop_left_complete sq fl cl h _ _ _ _ _ _ (h.numCells + 2) _ i ?_ ?_ hp ?_
      · push_cast; omega
      · omega
      · intro k hk1 hk2
        have hk3 : k < (h.unclampedRange aabb).1 := by omega
        have hXk := hF1 k hk3
        rw [hcen, hhe, abs_of_neg hdx]
        have e : ((aabb.mins.x + aabb.maxs.x) * (1 / 2) - h.cellWidth * (k : K) - h.startX) / vel.x
            - (aabb.maxs.x - aabb.mins.x) * (1 / 2) / -vel.x
            = (aabb.maxs.x - (h.cellWidth * (k : K) + h.startX)) / vel.x := by
          have : vel.x ≠ 0 := ne_of_lt hdx
          field_simp; ring
        rw [e, hX k]
        have hpos : 0 < aabb.maxs.x - h.scale.x * (-(1 / 2) + h.segLength * (k : K)) := by nlinarith
        have : (aabb.maxs.x - h.scale.x * (-(1 / 2) + h.segLength * (k : K))) / vel.x < 0 := div_neg_of_pos_of_neg hpos hdx
        intro hc; linarith
  · -- no horizontal motion: the overlap holds at time 0
    have hr : decide (0 < vel.x) = false := decide_eq_false (by rw [hdx]; exact lt_irrefl _)
    have hz : neq vel.x 0 = true := (neq_zero_iff sq vel.x).mpr hdx
    rw [hdx] at ho1 ho2
    simp only [HF2.walk, hr, hz, Bool.false_eq_true, if_false, if_true]
    have hrc := hf2_range_complete sq fl cl hq h aabb i hn hsx hi
      (by simp only [HF2.x0, fieldNum_lit, half_eq'', fq_ofInt']; push_cast; linarith)
      (by simp only [HF2.x0, fieldNum_lit, half_eq'', fq_ofInt']; push_cast; linarith)
    exact mem_first h _ _ i (by omega) hrc.2 hi hp
  · -- moving towards +x
    have hr : decide (0 < vel.x) = true := decide_eq_true hdx
    have hz : neq vel.x 0 = false := by
      rw [Bool.eq_false_iff]; intro hc; exact (ne_of_gt hdx) ((neq_zero_iff sq vel.x).mp hc)
    have htd : 0 ≤ t * vel.x := mul_nonneg ht0 hdx.le
    simp only [HF2.walk, hr, hz, Bool.false_eq_true, if_false, if_true]
    rw [List.mem_append]
    by_cases hlt : (i : Int) < (h.unclampedRange aabb).1
    · exfalso
      have := hF1 i hlt; push_cast at this; linarith
    by_cases hin : (i : Int) < (h.unclampedRange aabb).2 + 1
    · left; exact mem_first h _ _ i (by omega) hin hi hp
    · right
      refine walkLoop_right_complete sq fl cl h _ _ _ _ _ _ (h.numCells + 2) _ i ?_ ?_ hi hp ?_
      · push_cast; omega
      · omega
      · intro k hk1 hk2
        rw [hcen, hhe, abs_of_pos hdx]
        have e : (h.cellWidth * (k : K) + h.startX - (aabb.mins.x + aabb.maxs.x) * (1 / 2)) / vel.x
            - (aabb.maxs.x - aabb.mins.x) * (1 / 2) / vel.x
            = (h.cellWidth * (k : K) + h.startX - aabb.maxs.x) / vel.x := by
          have : vel.x ≠ 0 := ne_of_gt hdx
          field_simp; ring
        rw [e, hX k]
        have hki := hmono k i hk2
        push_cast at hki
        have : (h.scale.x * (-(1 / 2) + h.segLength * (k : K)) - aabb.maxs.x) / vel.x < t := by
          rw [div_lt_iff₀ hdx]; nlinarith
        intro hc; linarith

/-- non-vacuity of `hf2_walk_complete` (over `ℚ`): heights `[0, 0, 0]` (2 cells: `[-2, 0]`, `[0, 2]`), scale `(4, 1)`, box
`[5, 6] × [1, 2]` right of the heightfield moving with `vel = (-1, 0)`, `max_toi = 10`: at `t = 11/2` the box `[-1/2, 1/2]`
overlaps cell 0 – all hypotheses hold for `i = 0` (the left-most cell, reached by the walk only through `curr_elt > 0`). -/
example : letI := fieldNum ℚ (fun x => x); letI := fieldQuant ℚ (fun x => ⌊x⌋) (fun x => ⌈x⌉)
    let h : HF2 ℚ := ⟨#[0, 0, 0], #[true, true], ⟨4, 1⟩⟩
    (2 ≤ h.heights.size ∧ (0 : ℚ) < h.scale.x ∧ 0 < h.numCells ∧ h.present 0 = true ∧ (0 : ℚ) ≤ 11 / 2 ∧ (11 / 2 : ℚ) < 10) ∧
    ((5 : ℚ) + 11 / 2 * (-1) < h.scale.x * (h.x0 0 + h.segLength) ∧ h.scale.x * h.x0 0 < (6 : ℚ) + 11 / 2 * (-1)) := by
  letI := fieldNum ℚ (fun x => x); letI := fieldQuant ℚ (fun x => ⌊x⌋) (fun x => ⌈x⌉)
  intro h
  refine ⟨⟨by decide, by norm_num [h], by decide, by decide, by norm_num, by norm_num⟩, ?_⟩
  simp only [h, HF2.x0, HF2.segLength, fieldNum_lit]
  norm_num [Quant.ofInt]

end walk
end C07
