import ParryModel.Field
import ParryModel.C07.Model3
import ParryModel.C07.Theorems6
import Mathlib.Data.Rat.Floor
/-!
# C07 theorems, part 8: the cell quantisation of the 3-D heightfield never drops a triangle that could matter

`Model.C07.HF3.mapElements` = the triangle ids on which `HeightField::map_elements_in_local_aabb` (dim3) calls `f` (bit-exact leg
`hf3_elems`).  `hf3_elements_complete`: for a cell `(i, j)` inside the grid whose rectangle has an OPEN overlap with the box in
`x` and in `z`, whose four corner heights (times `scale.y`) reach into the ordinate interval of the box, the triangle of the
cell that is not flagged as removed is enumerated – the early return (`<=` / `>=`), the clamped quantisation on both axes
and the ordinate test discard nothing.
-/
namespace C07
open Model Model.C07
set_option linter.unusedSectionVars false
set_option linter.unusedVariables false
set_option linter.style.haveILetI false

section hf3
variable {K : Type} [Field K] [LinearOrder K] [IsStrictOrderedRing K] (sq : K → K)

private theorem fq_ofInt3 (fl cl : K → Int) (n : Int) : @Quant.ofInt K (fieldQuant K fl cl) n = (n : K) := rfl
private theorem half_eq3 : ((mkRat 1 2 : Rat) : K) = 1 / 2 := by norm_num

private theorem clamp_le3 (f n : Int) (i : Nat) (hf : f ≤ (i : Int)) : (clampI f 0 (n - 1)).toNat ≤ i := by
  simp only [clampI]; split_ifs <;> omega

private theorem lt_clamp3 (c : Int) (n i : Nat) (hc : (i : Int) < c) (hi : i < n) : i < (clampI c 0 (n : Int)).toNat := by
  simp only [clampI]; split_ifs <;> omega

/-- one axis: a cell `k < n` (`n + 1` grid lines, cell size `1/n`) with an open overlap with `[lo, hi]` lies in the clamped
quantised range, and the early return does not fire on this axis -/
private theorem axis_in_range (fl cl : K → Int) (hq : LawfulQuant fl cl) (m : Nat) (hm : 2 ≤ m) (lo hi : K) (k : Nat)
    (hk : k < m - 1) :
    letI := fieldNum K sq; letI := fieldQuant K fl cl
    lo < -(1 / 2) + (1 / (((m : Int) : K) - 1)) * (k : K) + 1 / (((m : Int) : K) - 1) →
    -(1 / 2) + (1 / (((m : Int) : K) - 1)) * (k : K) < hi →
    (HF3.quantFloor lo (1 / (((m : Int) : K) - 1)) (m - 1) ≤ k ∧ k < HF3.quantCeil hi (1 / (((m : Int) : K) - 1)) (m - 1)) ∧
    -(1 / 2) < hi ∧ lo < 1 / 2 := by
  letI := fieldNum K sq; letI := fieldQuant K fl cl
  intro h1 h2
  have e : ((m : Int) : K) - 1 = ((m - 1 : Nat) : K) := by
    have : m = (m - 1) + 1 := by omega
    rw [this]; push_cast; simp
  have hnpos : (0 : K) < ((m - 1 : Nat) : K) := by
    have : 1 ≤ m - 1 := by omega
    exact_mod_cast this
  rw [e] at h1 h2 ⊢
  have hsegpos : (0 : K) < 1 / ((m - 1 : Nat) : K) := by positivity
  have hsegn : 1 / ((m - 1 : Nat) : K) * ((m - 1 : Nat) : K) = 1 := by field_simp
  have hkK : ((k : Nat) : K) + 1 ≤ ((m - 1 : Nat) : K) := by exact_mod_cast hk
  have hk0 : (0 : K) ≤ ((k : Nat) : K) := Nat.cast_nonneg k
  have hf := hf2_floor_le sq fl cl hq _ lo k hsegpos h1
  have hc := hf2_lt_ceil sq fl cl hq _ hi k hsegpos h2
  refine ⟨⟨?_, ?_⟩, ?_, ?_⟩
  · have := clamp_le3 _ ((m - 1 : Nat) : Int) k hf
    simpa [HF3.quantFloor] using this
  · have := lt_clamp3 _ (m - 1) k hc hk
    simpa [HF3.quantCeil] using this
  · nlinarith
  · nlinarith

/-- **`map_elements_in_local_aabb` (dim3) is complete.** -/
theorem hf3_elements_complete (fl cl : K → Int) (hq : LawfulQuant fl cl) (h : HF3 K) (aabb : Aabb3 K) (i j : Nat)
    (y00 y10 y01 y11 : K) (left : Bool) :
    letI := fieldNum K sq; letI := fieldQuant K fl cl
    2 ≤ h.nr → 2 ≤ h.nc → 0 < h.scale.x → 0 < h.scale.y → 0 < h.scale.z → i < h.nrows → j < h.ncols →
    h.hs[i + j * h.nr]? = some y00 → h.hs[i + 1 + j * h.nr]? = some y10 →
    h.hs[i + (j + 1) * h.nr]? = some y01 → h.hs[i + 1 + (j + 1) * h.nr]? = some y11 →
    (if left then h.st.getD (i + j * h.nrows) 6 / 2 % 2 = 0 else h.st.getD (i + j * h.nrows) 6 / 4 % 2 = 0) →
    aabb.mins.x < h.scale.x * (-(1 / 2) + h.cellW * (j : K) + h.cellW) → h.scale.x * (-(1 / 2) + h.cellW * (j : K)) < aabb.maxs.x →
    aabb.mins.z < h.scale.z * (-(1 / 2) + h.cellH * (i : K) + h.cellH) → h.scale.z * (-(1 / 2) + h.cellH * (i : K)) < aabb.maxs.z →
    aabb.mins.y ≤ h.scale.y * max (max y00 y10) (max y01 y11) → h.scale.y * min (min y00 y10) (min y01 y11) ≤ aabb.maxs.y →
    h.triId i j left ∈ h.mapElements aabb := by
  letI := fieldNum K sq; letI := fieldQuant K fl cl
  intro hnr hnc hsx hsy hsz hi hj e00 e10 e01 e11 hst hx1 hx2 hz1 hz2 hy1 hy2
  simp only [HF3.cellW, HF3.cellH, fq_ofInt3] at hx1 hx2 hz1 hz2
  have ux1 : aabb.mins.x / h.scale.x < -(1 / 2) + (1 / (((h.nc : Int) : K) - 1)) * (j : K) + 1 / (((h.nc : Int) : K) - 1) := by
    rw [div_lt_iff₀ hsx]; linarith
  have ux2 : -(1 / 2) + (1 / (((h.nc : Int) : K) - 1)) * (j : K) < aabb.maxs.x / h.scale.x := by
    rw [lt_div_iff₀ hsx]; linarith
  have uz1 : aabb.mins.z / h.scale.z < -(1 / 2) + (1 / (((h.nr : Int) : K) - 1)) * (i : K) + 1 / (((h.nr : Int) : K) - 1) := by
    rw [div_lt_iff₀ hsz]; linarith
  have uz2 : -(1 / 2) + (1 / (((h.nr : Int) : K) - 1)) * (i : K) < aabb.maxs.z / h.scale.z := by
    rw [lt_div_iff₀ hsz]; linarith
  obtain ⟨⟨ax1, ax2⟩, ax3, ax4⟩ := axis_in_range sq fl cl hq h.nc hnc _ _ j hj ux1 ux2
  obtain ⟨⟨az1, az2⟩, az3, az4⟩ := axis_in_range sq fl cl hq h.nr hnr _ _ i hi uz1 uz2
  simp only [HF3.mapElements, HF3.cellW, HF3.cellH, HF3.nrows, HF3.ncols, fq_ofInt3, fieldNum_lit, half_eq3]
  have hret : ¬(aabb.maxs.x / h.scale.x ≤ -(1 / 2) ∨ aabb.maxs.z / h.scale.z ≤ -(1 / 2) ∨ 1 / 2 ≤ aabb.mins.x / h.scale.x ∨
      1 / 2 ≤ aabb.mins.z / h.scale.z) := by
    push Not; refine ⟨?_, ?_, ?_, ?_⟩ <;> linarith
  rw [if_neg hret, List.mem_flatMap]
  refine ⟨j, ?_, ?_⟩
  · rw [List.mem_range'_1]; omega
  rw [List.mem_flatMap]
  refine ⟨i, ?_, ?_⟩
  · rw [List.mem_range'_1]; omega
  -- the cell itself
  have k1 : ¬((aabb.maxs.y / h.scale.y < y00 ∧ aabb.maxs.y / h.scale.y < y10 ∧ aabb.maxs.y / h.scale.y < y01 ∧ aabb.maxs.y / h.scale.y < y11) ∨
      (y00 < aabb.mins.y / h.scale.y ∧ y10 < aabb.mins.y / h.scale.y ∧ y01 < aabb.mins.y / h.scale.y ∧ y11 < aabb.mins.y / h.scale.y)) := by
    rintro (⟨a, b, c, d⟩ | ⟨a, b, c, d⟩)
    · have : aabb.maxs.y / h.scale.y < min (min y00 y10) (min y01 y11) := lt_min (lt_min a b) (lt_min c d)
      rw [div_lt_iff₀ hsy] at this; nlinarith
    · have : max (max y00 y10) (max y01 y11) < aabb.mins.y / h.scale.y := max_lt (max_lt a b) (max_lt c d)
      rw [lt_div_iff₀ hsy] at this; nlinarith
  simp only [HF3.cellTris, HF3.nrows, e00, e10, e01, e11] at hst ⊢
  rw [if_neg k1]
  cases left with
  | true =>
    simp only [if_true] at hst
    have hnb : ¬(h.st.getD (i + j * (h.nr - 1)) 6 / 2 % 2 = 1 ∧ h.st.getD (i + j * (h.nr - 1)) 6 / 4 % 2 = 1) := by omega
    rw [if_neg hnb, List.mem_append]
    left
    have : ¬(h.st.getD (i + j * (h.nr - 1)) 6 / 2 % 2 = 1) := by omega
    simp only [this, ↓reduceIte, List.mem_singleton]
  | false =>
    simp only [Bool.false_eq_true, if_false] at hst
    have hnb : ¬(h.st.getD (i + j * (h.nr - 1)) 6 / 2 % 2 = 1 ∧ h.st.getD (i + j * (h.nr - 1)) 6 / 4 % 2 = 1) := by omega
    rw [if_neg hnb, List.mem_append]
    right
    have : ¬(h.st.getD (i + j * (h.nr - 1)) 6 / 4 % 2 = 1) := by omega
    simp only [this, ↓reduceIte, List.mem_singleton]

/-- non-vacuity of `hf3_elements_complete` (over `ℚ`): a `2 × 2` height matrix (one cell) of zeros, scale `(2, 1, 2)`, no flag,
box `[-1/2, 1/2] × [-1, 1] × [-1/2, 1/2]`: the hypotheses hold for cell `(0, 0)` and both triangles. -/
example : letI := fieldNum ℚ (fun x => x); letI := fieldQuant ℚ (fun x => ⌊x⌋) (fun x => ⌈x⌉)
    let h : HF3 ℚ := ⟨2, 2, #[0, 0, 0, 0], #[0], ⟨2, 1, 2⟩⟩
    (2 ≤ h.nr ∧ 2 ≤ h.nc ∧ 0 < h.nrows ∧ 0 < h.ncols ∧ h.st.getD (0 + 0 * h.nrows) 6 / 2 % 2 = 0 ∧ h.st.getD (0 + 0 * h.nrows) 6 / 4 % 2 = 0) ∧
    ((-1 / 2 : ℚ) < h.scale.x * (-(1 / 2) + h.cellW * ((0 : Nat) : ℚ) + h.cellW) ∧ h.scale.x * (-(1 / 2) + h.cellW * ((0 : Nat) : ℚ)) < (1 / 2 : ℚ)) := by
  letI := fieldNum ℚ (fun x => x); letI := fieldQuant ℚ (fun x => ⌊x⌋) (fun x => ⌈x⌉)
  intro h
  refine ⟨⟨by decide, by decide, by decide, by decide, by decide, by decide⟩, ?_⟩
  simp only [h, HF3.cellW]
  norm_num [Quant.ofInt]

end hf3
end C07
