import ParryModel.Vec
import ParryModel.C09.Model
import ParryModel.C07.Link
import ParryModel.C07.Model2
/-!
# C07 model, part 3: the composite distance visitor and the 2-D heightfield grid lookups

* `dvShift* / dvMargin* / dvVisit*` – `CompositeShapeAgainstAnyDistanceVisitor::new` and the lane part of `::visit`
  (`query/distance/distance_composite_shape_shape.rs`): `msum_shift = -ls_aabb2.center()`, `msum_margin =
  ls_aabb2.half_extents()`, `msum = [bv.mins + shift + (-margin), bv.maxs + shift + margin]`,
  `weight = msum.distance_to_origin()`, `mask = weight < best`.  `ls_aabb2 = g2.compute_aabb(pos12)` is an input.
* `HF2` – `shape/heightfield2.rs`: `unit_cell_width`, `quantize_floor/ceil(_unclamped)`, `cell_at_point`,
  `unclamped_elements_range_in_local_aabb`, the cell enumeration of `map_elements_in_local_aabb`.
  `x.floor() as isize`, `x.ceil() as isize` and `n as Real` are the extra operations of the class `Quant`.
  `na::clamp(x.floor(), 0.0, m as Real) as usize` is written `clampI (floorI x) 0 m` (clamp after the cast): the clamped
  value is integral, both bounds are integral, so clamping commutes with the cast (also for saturated / NaN values:
  NaN ↦ 0 either way, ±huge ↦ the bound either way); the bit-exact legs `hf2_*` check this on every generated case.
* `hfWalk` – the cell walk of the 2-D `cast_shapes_heightfield_shape` (`query/shape_cast/shape_cast_heightfield_shape.rs`):
  the list of cells on which the per-segment cast is attempted, in order.
-/
namespace Model
namespace C07
variable {K : Type} [Num K]

/-! ## the composite distance visitor -/

/-- `-ls_aabb2.center().coords` (`na::center = (a + b) * 0.5`) -/
def dvShift3 (aabb2 : Aabb3 K) : V3 K := (V3.center aabb2.mins aabb2.maxs).neg
/-- `ls_aabb2.half_extents()` = `(maxs - mins) * 0.5` -/
def dvMargin3 (aabb2 : Aabb3 K) : V3 K := (aabb2.maxs.sub aabb2.mins).smul (lit 1 2)
/-- lane weight of `visit`: `msum.distance_to_origin()` -/
def dvWeight3 (aabb2 bv : Aabb3 K) : K := distToOrigin (msumBox bv (dvShift3 aabb2) (dvMargin3 aabb2))
/-- `(weight, mask)` of one lane of `visit(best, bv, None)` -/
def dvVisit3 (aabb2 : Aabb3 K) (best : K) (bv : Aabb3 K) : K × Bool :=
  let w := dvWeight3 aabb2 bv
  (w, decide (w < best))

def dvShift2 (aabb2 : Aabb2 K) : V2 K := (V2.center aabb2.mins aabb2.maxs).neg
def dvMargin2 (aabb2 : Aabb2 K) : V2 K := (aabb2.maxs.sub aabb2.mins).smul (lit 1 2)
def msumBox2 (bv : Aabb2 K) (shift margin : V2 K) : Aabb2 K :=
  ⟨(bv.mins.add shift).add margin.neg, (bv.maxs.add shift).add margin⟩
def dvWeight2 (aabb2 bv : Aabb2 K) : K := laneDistToOrigin2 (msumBox2 bv (dvShift2 aabb2) (dvMargin2 aabb2))
def dvVisit2 (aabb2 : Aabb2 K) (best : K) (bv : Aabb2 K) : K × Bool :=
  let w := dvWeight2 aabb2 bv
  (w, decide (w < best))

/-! ## the linear shape-cast visitor (`TOICompositeShapeShapeBestFirstVisitor`, `shape_cast_composite_shape_shape.rs`) -/

/-- `ls_aabb2.half_extents() + Vector::repeat(options.target_distance)` -/
def tvMargin3 (aabb2 : Aabb3 K) (td : K) : V3 K := (dvMargin3 aabb2).add ⟨td, td, td⟩
def tvMargin2 (aabb2 : Aabb2 K) (td : K) : V2 K := (dvMargin2 aabb2).add ⟨td, td⟩
/-- one lane of `visit` on an internal node: `msum.cast_local_ray(Ray(origin, vel12), max_time_of_impact)` = `(mask, weight)` -/
def tvVisit3 (big : K) (aabb2 : Aabb3 K) (td : K) (vel : V3 K) (maxToi : K) (bv : Aabb3 K) : Bool × K :=
  laneCastRay3 big (msumBox bv (dvShift3 aabb2) (tvMargin3 aabb2 td)) V3.zero vel maxToi
def tvVisit2 (big : K) (aabb2 : Aabb2 K) (td : K) (vel : V2 K) (maxToi : K) (bv : Aabb2 K) : Bool × K :=
  laneCastRay2 big (msumBox2 bv (dvShift2 aabb2) (tvMargin2 aabb2 td)) V2.zero vel maxToi

/-! ## 2-D heightfield: cell quantisation -/

/-- the float↔integer operations of `heightfield2.rs` -/
class Quant (K : Type) where
  /-- `x.floor() as isize` -/
  floorI : K → Int
  /-- `x.ceil() as isize` -/
  ceilI : K → Int
  /-- `n as Real` (`usize`/`isize`/`f64` → `Real`) -/
  ofInt : Int → K

instance : Quant Float := ⟨fun x => x.floor.toInt64.toInt, fun x => x.ceil.toInt64.toInt, Float.ofInt⟩
instance : Quant Rat := ⟨fun x => x.floor, fun x => x.ceil, fun n => (n : Rat)⟩

variable [Quant K]

def clampI (x lo hi : Int) : Int := if x < lo then lo else if hi < x then hi else x

structure HF2 (K : Type) where
  heights : Array K
  /-- `status[i]` = the cell is present (not removed) -/
  status : Array Bool
  scale : V2 K

namespace HF2
/-- `num_cells()` = `heights.len() - 1` -/
def numCells (h : HF2 K) : Nat := h.heights.size - 1
/-- `unit_cell_width()` = `1.0 / (heights.len() as Real - 1.0)` -/
def segLength (h : HF2 K) : K := 1 / (Quant.ofInt (h.heights.size : Int) - 1)
/-- `cell_width()` -/
def cellWidth (h : HF2 K) : K := h.segLength * h.scale.x
/-- `start_x()` = `scale.x * -0.5` -/
def startX (h : HF2 K) : K := h.scale.x * (-(lit 1 2))
/-- `quantize_floor_unclamped` -/
def quantFloorU (val seg : K) : Int := Quant.floorI ((val + lit 1 2) / seg)
/-- `quantize_ceil_unclamped` -/
def quantCeilU (val seg : K) : Int := Quant.ceilI ((val + lit 1 2) / seg)
/-- `quantize_floor`: clamped to `[0, num_cells - 1]` -/
def quantFloor (h : HF2 K) (val seg : K) : Nat := (clampI (quantFloorU val seg) 0 ((h.numCells : Int) - 1)).toNat
/-- `quantize_ceil`: clamped to `[0, num_cells]` -/
def quantCeil (h : HF2 K) (val seg : K) : Nat := (clampI (quantCeilU val seg) 0 (h.numCells : Int)).toNat
/-- `cell_at_point` -/
def cellAtPoint (h : HF2 K) (pt : V2 K) : Option Nat :=
  let sx := pt.x / h.scale.x
  if sx < -(lit 1 2) ∨ lit 1 2 < sx then none else some (h.quantFloor sx h.segLength)
/-- `unclamped_elements_range_in_local_aabb` -/
def unclampedRange (h : HF2 K) (aabb : Aabb2 K) : Int × Int :=
  (quantFloorU (aabb.mins.x / h.scale.x) h.segLength, quantCeilU (aabb.maxs.x / h.scale.x) h.segLength)
/-- `x0` of cell `i` in the unit frame: `-0.5 + seg_length * (i as Real)` -/
def x0 (h : HF2 K) (i : Nat) : K := -(lit 1 2) + h.segLength * Quant.ofInt (i : Int)
/-- the test of one cell inside the loop of `map_elements_in_local_aabb` (`true` = `f` is called on the cell) -/
def cellKept (h : HF2 K) (refMinY refMaxY : K) (i : Nat) : Bool :=
  if !(h.status.getD i false) then false else
  match h.heights[i]?, h.heights[i + 1]? with
  | some y0, some y1 =>
    if (refMaxY < y0 ∧ refMaxY < y1) ∨ (y0 < refMinY ∧ y1 < refMinY) then false else true
  | _, _ => false
/-- `map_elements_in_local_aabb`: the ids of the cells on which `f` is called, in order -/
def mapElements (h : HF2 K) (aabb : Aabb2 K) : List Nat :=
  let refMins : V2 K := ⟨aabb.mins.x / h.scale.x, aabb.mins.y / h.scale.y⟩
  let refMaxs : V2 K := ⟨aabb.maxs.x / h.scale.x, aabb.maxs.y / h.scale.y⟩
  if refMaxs.x < -(lit 1 2) ∨ lit 1 2 < refMins.x then [] else
  let minX := h.quantFloor refMins.x h.segLength
  let maxX := h.quantCeil refMaxs.x h.segLength
  (List.range' minX (maxX - minX)).filter fun i => h.cellKept refMins.y refMaxs.y i
end HF2

/-! ## 3-D heightfield: cell quantisation (`shape/heightfield3.rs`) -/

/-- `heights` is the `nr × nc` matrix in column-major order (`heights[(i, j)] = hs[i + j * nr]`), `status[(i, j)]` the flag
bits of cell `(i, j)` (`st[i + j * (nr - 1)]`; bit 0 zig-zag, bit 1 left triangle removed, bit 2 right triangle removed) -/
structure HF3 (K : Type) where
  nr : Nat
  nc : Nat
  hs : Array K
  st : Array Nat
  scale : V3 K

namespace HF3
/-- `nrows()` / `ncols()`: numbers of cells -/
def nrows (h : HF3 K) : Nat := h.nr - 1
def ncols (h : HF3 K) : Nat := h.nc - 1
/-- `unit_cell_width()` = `1.0 / (heights.ncols() as Real - 1.0)`, `unit_cell_height()` likewise with `nrows` -/
def cellW (h : HF3 K) : K := 1 / (Quant.ofInt (h.nc : Int) - 1)
def cellH (h : HF3 K) : K := 1 / (Quant.ofInt (h.nr : Int) - 1)
/-- `quantize_floor(val, cell_size, num_cells)` / `quantize_ceil` -/
def quantFloor (val seg : K) (n : Nat) : Nat := (clampI (HF2.quantFloorU val seg) 0 ((n : Int) - 1)).toNat
def quantCeil (val seg : K) (n : Nat) : Nat := (clampI (HF2.quantCeilU val seg) 0 (n : Int)).toNat
/-- `unclamped_elements_range_in_local_aabb`: `((min_z, max_z), (min_x, max_x))` -/
def unclampedRange (h : HF3 K) (aabb : Aabb3 K) : (Int × Int) × (Int × Int) :=
  let mnx := aabb.mins.x / h.scale.x; let mnz := aabb.mins.z / h.scale.z
  let mxx := aabb.maxs.x / h.scale.x; let mxz := aabb.maxs.z / h.scale.z
  ((HF2.quantFloorU mnz h.cellH, HF2.quantCeilU mxz h.cellH), (HF2.quantFloorU mnx h.cellW, HF2.quantCeilU mxx h.cellW))
/-- `cell_at_point` -/
def cellAtPoint (h : HF3 K) (pt : V3 K) : Option (Nat × Nat) :=
  let sx := pt.x / h.scale.x; let sz := pt.z / h.scale.z
  if sx < -(lit 1 2) ∨ lit 1 2 < sx ∨ sz < -(lit 1 2) ∨ lit 1 2 < sz then none
  else some (quantFloor sz h.cellH h.nrows, quantFloor sx h.cellW h.ncols)
/-- `triangle_id(i, j, left)`; `num_triangles = nrows * ncols * 2` -/
def triId (h : HF3 K) (i j : Nat) (left : Bool) : Nat :=
  let tid := j * h.nrows + i
  if left then tid else tid + h.nrows * h.ncols
/-- one turn of the inner loop of `map_elements_in_local_aabb`: the triangle ids on which `f` is called for cell `(i, j)` -/
def cellTris (h : HF3 K) (refMinY refMaxY : K) (i j : Nat) : List Nat :=
  let status := h.st.getD (i + j * h.nrows) 6
  if status / 2 % 2 = 1 ∧ status / 4 % 2 = 1 then [] else
  match h.hs[i + j * h.nr]?, h.hs[i + 1 + j * h.nr]?, h.hs[i + (j + 1) * h.nr]?, h.hs[i + 1 + (j + 1) * h.nr]? with
  | some y00, some y10, some y01, some y11 =>
    if (refMaxY < y00 ∧ refMaxY < y10 ∧ refMaxY < y01 ∧ refMaxY < y11) ∨
       (y00 < refMinY ∧ y10 < refMinY ∧ y01 < refMinY ∧ y11 < refMinY) then [] else
    (if status / 2 % 2 = 1 then [] else [h.triId i j true]) ++ (if status / 4 % 2 = 1 then [] else [h.triId i j false])
  | _, _, _, _ => []
/-- `map_elements_in_local_aabb`: the triangle ids on which `f` is called, in order -/
def mapElements (h : HF3 K) (aabb : Aabb3 K) : List Nat :=
  let mnx := aabb.mins.x / h.scale.x; let mny := aabb.mins.y / h.scale.y; let mnz := aabb.mins.z / h.scale.z
  let mxx := aabb.maxs.x / h.scale.x; let mxy := aabb.maxs.y / h.scale.y; let mxz := aabb.maxs.z / h.scale.z
  if mxx ≤ -(lit 1 2) ∨ mxz ≤ -(lit 1 2) ∨ lit 1 2 ≤ mnx ∨ lit 1 2 ≤ mnz then [] else
  let minX := quantFloor mnx h.cellW h.ncols
  let minZ := quantFloor mnz h.cellH h.nrows
  let maxX := quantCeil mxx h.cellW h.ncols
  let maxZ := quantCeil mxz h.cellH h.nrows
  (List.range' minX (maxX - minX)).flatMap fun j =>
    (List.range' minZ (maxZ - minZ)).flatMap fun i => h.cellTris mny mxy i j
end HF3

/-! ## the cell walk of the 2-D `cast_shapes_heightfield_shape` -/
namespace HF2
/-- `segment_at(i).is_some()` -/
def present (h : HF2 K) (i : Nat) : Bool := decide (i < h.numCells) && h.status.getD i false

/-- the `while` loop: `curr` = `curr_elt`; returns the cells on which the per-segment cast is attempted.  Fuel = the number
of cells + 2 (the loop moves `curr_elt` by one towards the border at every turn). -/
def walkLoop (h : HF2 K) (right : Bool) (cw sx ox dx hext maxToi : K) : Nat → Int → List Nat
  | 0, _ => []
  | fuel + 1, curr =>
    if right && decide (curr < (h.numCells : Int) - 1) then
      let curr' := curr + 1
      let param := (cw * Quant.ofInt curr' + sx - ox) / dx
      if maxToi ≤ param - hext / nabs dx then [] else
      (if h.present curr'.toNat then [curr'.toNat] else []) ++ walkLoop h right cw sx ox dx hext maxToi fuel curr'
    else if !right && decide (0 < curr) then
      let param := (ox - cw * Quant.ofInt curr - sx) / dx
      let curr' := curr - 1
      if maxToi ≤ param - hext / nabs dx then [] else
      (if h.present curr'.toNat then [curr'.toNat] else []) ++ walkLoop h right cw sx ox dx hext maxToi fuel curr'
    else []

/-- `cast_shapes_heightfield_shape` (dim2): the cells tested, in order.  `aabb` = `g2.compute_aabb(pos12).loosened(target_distance)`,
`vel` = `vel12`. -/
def walk (h : HF2 K) (aabb : Aabb2 K) (vel : V2 K) (maxToi : K) : List Nat :=
  let n : Int := (h.numCells : Int)
  let origin := V2.center aabb.mins aabb.maxs
  let r := h.unclampedRange aabb
  let right := decide (0 < vel.x)
  let s := if right then r.1 else r.1 - 1
  let e := if right then r.2 + 1 else r.2
  let cs := (clampI s 0 n).toNat
  let ce := (clampI e 0 n).toNat
  let first := (List.range' cs (ce - cs)).filter fun i => h.present i
  if neq vel.x 0 then first else
  let hext := ((aabb.maxs.sub aabb.mins).smul (lit 1 2)).x
  let curr0 : Int := if right then max (e - 1) (-1) else min s n
  first ++ walkLoop h right h.cellWidth h.startX origin.x vel.x hext maxToi (h.numCells + 2) curr0
end HF2

end C07
end Model
