import ParryModel.Proto
import ParryModel.C07.Model3
import ParryModel.C07.Driver2
/-!
C07 protocol handler, part 3.
* `dv3_visit` / `dv2_visit` (and `cp3_visit` / `cp2_visit`: `CompositeShapeAgainstShapeClosestPointsVisitor`, same lane formula): the REAL `CompositeShapeAgainstAnyDistanceVisitor::{new, visit}` on four lanes (internal node,
  `data = None`) – weights and masks.  Args: `ls_aabb2` (what `g2.compute_aabb(pos12)` returned when the case was generated),
  `best`, four lane boxes; then the relative pose and the other shape (used by the Rust side only).  Model bit-exact; the
  oracle judges by the definition in exact arithmetic: the weight must be the distance between the two closed boxes
  (largest per-axis gap vector), the mask must be exactly `weight < best` on the reported weight, and a lane whose exact
  box distance is clearly below `best` must not be masked out.
* `hf2_cell`, `hf2_range`, `hf2_elems`: the REAL `HeightField::{cell_at_point, unclamped_elements_range_in_local_aabb,
  map_elements_in_local_aabb}` (2-D), judged against the cell intervals computed in exact arithmetic.
-/
namespace C07
open Model Model.C07 Proto

def boxGap2 (lo1 hi1 lo2 hi2 : Rat) : Rat := rmax (rmax (lo1 - hi2) (lo2 - hi1)) 0
/-- squared distance between two closed boxes -/
def boxDist2sq (a b : Aabb2 Rat) : Rat :=
  sqr (boxGap2 a.mins.x a.maxs.x b.mins.x b.maxs.x) + sqr (boxGap2 a.mins.y a.maxs.y b.mins.y b.maxs.y)
def boxDist3sq (a b : Aabb3 Rat) : Rat :=
  sqr (boxGap2 a.mins.x a.maxs.x b.mins.x b.maxs.x) + sqr (boxGap2 a.mins.y a.maxs.y b.mins.y b.maxs.y) +
  sqr (boxGap2 a.mins.z a.maxs.z b.mins.z b.maxs.z)

def dvOracle (want2 : List Rat) (best : Float) (o : List String) : String :=
  if o.length != 8 then "fail unparsable-output" else
  match (o.take 4).mapM (fun t => FloatIO.ofHex? t) with
  | none => "fail unparsable-weight"
  | some ws =>
    let ms := o.drop 4
    let rec go (i : Nat) : List Rat → List Float → List String → String
      | w2 :: r2, w :: rw, m :: rm =>
        if !(FloatIO.isFinite w && q w ≥ 0) then s!"fail lane-{i}-weight-not-finite-nonnegative"
        else if !(closeR (sqr (q w)) w2) then s!"fail lane-{i}-weight-differs-from-box-distance weight={q w} want-squared={w2}"
        else if m != fb (decide (w < best)) then s!"fail lane-{i}-mask-is-not-weight<best"
        -- the pruning clause itself: a lane that could hold a part closer than `best` must stay
        else if m == "0" && FloatIO.isFinite best && q best > 1 / 1000000 && w2 * (1 + 1 / 1000000) + 1 / 1000000000000 < sqr (q best) then s!"fail lane-{i}-pruned-although-box-closer-than-best"
        else go (i + 1) r2 rw rm
      | _, _, _ => "pass"
    go 0 want2 ws ms

/-- `rayOracle` for the Minkowski-sum box of the shape-cast visitor: the visitor builds the box from the centre / half-extents of
`ls_aabb2`, so its faces carry a rounding error of a few ulps; a reported entry time is only rejected when it exceeds the first
time at which the ray is CLEARLY inside the exact box (by the positional tolerance), whatever the speed of the ray -/
def rayOracleT (lanes : List (List (Rat × Rat × Rat × Rat))) (maxToi : Rat) (o : List String) : String :=
  let r := rayOracle lanes maxToi o
  if !(r.startsWith "fail lane-" && (r.splitOn "-tmin-exceeds-first-contact").length == 2) then r else
  let i := ((r.drop 10).takeWhile Char.isDigit).toNat!
  match lanes[i]?, (o[2 * i + 1]?).bind FloatIO.ofHex? with
  | some ax, some tf =>
    let scale : Rat := 1 + ax.foldl (fun s (mn, mx, o, _) => s + rabs mn + rabs mx + rabs o) 0
    let tol : Rat := scale / 100000000
    match rayWitness ax maxToi tol with
    | some w => if q tf ≤ w + tol * (1 + rabs w) then rayOracleT' lanes maxToi o i else r
    | none => rayOracleT' lanes maxToi o i
  | _, _ => r
where
  /-- judge the remaining lanes after an excused lane `i` -/
  rayOracleT' (lanes : List (List (Rat × Rat × Rat × Rat))) (maxToi : Rat) (o : List String) (i : Nat) : String :=
    let r2 := rayOracle (lanes.drop (i + 1)) maxToi (o.drop (2 * (i + 1)))
    if r2 == "pass" then "pass" else if (r2.splitOn "-tmin-exceeds-first-contact").length == 2 then "skip tie several-grazing-lanes" else r2

/-! ## 2-D heightfield grid lookups -/

def prep {α} (p : P α) : Nat → P (List α)
  | 0 => pure []
  | k + 1 => do let x ← p; let xs ← prep p k; pure (x :: xs)

def phf2 : P (HF2 Float) := do
  let n ← pnat
  let hs ← prep pf n
  let st ← prep pnat (n - 1)
  let sc ← pv2
  pure ⟨hs.toArray, (st.map fun s => s != 0).toArray, sc⟩

/-- exact abscissa of vertex `i` of a heightfield with `n` cells: `scale.x * (-1/2 + i/n)` -/
def vx (sx : Rat) (n i : Nat) : Rat := sx * (-(1 / 2 : Rat) + (i : Rat) / (n : Rat))

structure HfQ where
  n : Nat
  sx : Rat
  sy : Rat
  hs : Array Rat
  st : Array Bool
  tol : Rat

def hfq (h : HF2 Float) : HfQ :=
  let sx := q h.scale.x
  ⟨h.heights.size - 1, sx, q h.scale.y, h.heights.map q, h.status, (1 + rabs sx) / 1000000000⟩

def hfDomain (h : HF2 Float) : Bool :=
  h.heights.size ≥ 2 && h.status.size + 1 == h.heights.size && h.heights.all FloatIO.isFinite &&
  FloatIO.isFinite h.scale.x && FloatIO.isFinite h.scale.y && h.scale.x > 0 && h.scale.y > 0

/-- cell `i` clearly overlaps `[x0, x1]` in the open sense -/
def clearX (g : HfQ) (i : Nat) (x0 x1 : Rat) : Bool := x0 < vx g.sx g.n (i + 1) - g.tol && vx g.sx g.n i + g.tol < x1
/-- cell `i` overlaps `[x0, x1]` in the closed sense, up to the tolerance -/
def looseX (g : HfQ) (i : Nat) (x0 x1 : Rat) : Bool := x0 ≤ vx g.sx g.n (i + 1) + g.tol && vx g.sx g.n i - g.tol ≤ x1
def cellY (g : HfQ) (i : Nat) : Rat × Rat :=
  let a := g.sy * g.hs.getD i 0; let b := g.sy * g.hs.getD (i + 1) 0
  (rmin a b, rmax a b)

/-- times `t` at which the moving interval `[a + t v, b + t v]` overlaps `[c, d]` by at least the margin `m`:
`none` = never, `some (lo, hi)` (either bound may be absent) -/
def sweepAxis (a b c d v m : Rat) : Option (Option Rat × Option Rat) :=
  if v == 0 then (if a ≤ d - m && c + m ≤ b then some (none, none) else none)
  else if v > 0 then some (some ((c + m - b) / v), some ((d - m - a) / v))
  else some (some ((d - m - a) / v), some ((c + m - b) / v))
def omax (x : Option Rat) (y : Rat) : Rat := match x with | some a => rmax a y | none => y
def omin (x : Option Rat) (y : Rat) : Rat := match x with | some a => rmin a y | none => y

def hf2Handler (fn : String) : Option Handler :=
  match fn with
  | "hf2_cell" => some {
      model := fun a => run (do let h ← phf2; let p ← pv2; pend
                                pure (match h.cellAtPoint p with | none => "none" | some i => s!"some {i}")) a
      oracle := fun a o => match run (do let h ← phf2; let p ← pv2; pend; pure (h, p)) a with
        | none => "skip bad-args"
        | some (h, p) =>
          if !(hfDomain h && FloatIO.isFinite p.x) then "skip outside-domain" else
          let g := hfq h; let x := q p.x
          match o with
          | ["none"] => if -g.sx / 2 + g.tol ≤ x && x ≤ g.sx / 2 - g.tol then "fail none-for-a-point-above-the-heightfield" else "pass"
          | ["some", t] => match t.toNat? with
            | none => "fail unparsable-output"
            | some i =>
              if i ≥ g.n then s!"fail cell-index-out-of-range {i}"
              else if vx g.sx g.n i - g.tol ≤ x && x ≤ vx g.sx g.n (i + 1) + g.tol then "pass"
              else s!"fail point-not-above-reported-cell {i}"
          | _ => "fail unparsable-output" }
  | "hf2_range" => some {
      model := fun a => run (do let h ← phf2; let b ← pbox2; pend
                                let r := h.unclampedRange b; pure s!"{r.1} {r.2}") a
      oracle := fun a o => match run (do let h ← phf2; let b ← pbox2; pend; pure (h, b)) a with
        | none => "skip bad-args"
        | some (h, b) =>
          if !(hfDomain h && valid2 (qb2 b) && FloatIO.isFinite b.mins.x && FloatIO.isFinite b.mins.y && FloatIO.isFinite b.maxs.x && FloatIO.isFinite b.maxs.y) then "skip outside-domain" else
          let g := hfq h
          match o.map String.toInt? with
          | [some s, some e] =>
            match (List.range g.n).find? (fun i => clearX g i (q b.mins.x) (q b.maxs.x) && !(s ≤ (i : Int) && (i : Int) < e)) with
            | none => "pass"
            | some i => s!"fail overlapping-cell-outside-range {i}"
          | _ => "fail unparsable-output" }
  | "hf2_walk" => some {
      model := fun a => run (do let h ← phf2; let b ← pbox2; let v ← pv2; let mt ← pf
                                pure (" ".intercalate ("ids" :: (h.walk b v mt).map toString))) a
      oracle := fun a o => match run (do let h ← phf2; let b ← pbox2; let v ← pv2; let mt ← pf; pure (h, b, v, mt)) a with
        | none => "skip bad-args"
        | some (h, b, v, mt) =>
          if !(hfDomain h && valid2 (qb2 b) && FloatIO.isFinite b.mins.x && FloatIO.isFinite b.mins.y && FloatIO.isFinite b.maxs.x &&
               FloatIO.isFinite b.maxs.y && FloatIO.isFinite v.x && FloatIO.isFinite v.y && FloatIO.isFinite mt && mt ≥ 0) then "skip outside-domain" else
          let g := hfq h; let bb := qb2 b; let vv := q2 v; let T := q mt
          let ty : Rat := (1 + rabs g.sy) / 1000000000
          match o with
          | ["unsupported"] => "skip unsupported-pair"
          | "ids" :: ts => match ts.mapM String.toNat? with
            | none => "fail unparsable-output"
            | some ids =>
              -- a present cell whose box the moving box of the shape clearly overlaps at some time in [0, max_toi) must be tested
              let reach (i : Nat) : Bool :=
                match sweepAxis bb.mins.x bb.maxs.x (vx g.sx g.n i) (vx g.sx g.n (i + 1)) vv.x g.tol,
                      sweepAxis bb.mins.y bb.maxs.y (cellY g i).1 (cellY g i).2 vv.y ty with
                | some (l1, h1), some (l2, h2) =>
                  let lo := omax l1 (omax l2 0)
                  let hi := omin h1 (omin h2 (T - (1 + T) / 1000000000))
                  lo ≤ hi
                | _, _ => false
              let missed := (List.range g.n).find? fun i => g.st.getD i false && reach i && !ids.contains i
              let wrong := ids.find? fun i => !(i < g.n && g.st.getD i false)
              match missed, wrong with
              | some i, _ => s!"fail reachable-cell-not-tested {i}"
              | _, some i => s!"fail tested-cell-absent {i}"
              | none, none => "pass"
          | _ => "fail unparsable-output" }
  | "hf2_elems" => some {
      model := fun a => run (do let h ← phf2; let b ← pbox2; pend
                                pure (" ".intercalate ("ids" :: (h.mapElements b).map toString))) a
      oracle := fun a o => match run (do let h ← phf2; let b ← pbox2; pend; pure (h, b)) a with
        | none => "skip bad-args"
        | some (h, b) =>
          if !(hfDomain h && valid2 (qb2 b) && FloatIO.isFinite b.mins.x && FloatIO.isFinite b.mins.y && FloatIO.isFinite b.maxs.x && FloatIO.isFinite b.maxs.y) then "skip outside-domain" else
          let g := hfq h; let bb := qb2 b
          let ty : Rat := (1 + rabs g.sy) / 1000000000
          match o with
          | "ids" :: ts => match ts.mapM String.toNat? with
            | none => "fail unparsable-output"
            | some ids =>
              let missed := (List.range g.n).find? fun i =>
                g.st.getD i false && clearX g i bb.mins.x bb.maxs.x &&
                bb.mins.y + ty ≤ (cellY g i).2 && (cellY g i).1 ≤ bb.maxs.y - ty && !ids.contains i
              let wrong := ids.find? fun i =>
                !(i < g.n && g.st.getD i false && looseX g i bb.mins.x bb.maxs.x &&
                  bb.mins.y - ty ≤ (cellY g i).2 && (cellY g i).1 ≤ bb.maxs.y + ty)
              match missed, wrong with
              | some i, _ => s!"fail overlapping-cell-not-reported {i}"
              | _, some i => s!"fail reported-cell-does-not-overlap {i}"
              | none, none => if ids.zip (ids.drop 1) |>.all (fun (x, y) => x < y) then "pass" else "fail ids-not-increasing"
          | _ => "fail unparsable-output" }
  | _ => none

/-! ## 3-D heightfield grid lookups -/

def phf3 : P (HF3 Float) := do
  let nr ← pnat; let nc ← pnat
  let hs ← prep pf (nr * nc)
  let st ← prep pnat ((nr - 1) * (nc - 1))
  let sc ← pv3
  pure ⟨nr, nc, hs.toArray, st.toArray, sc⟩

def hf3Domain (h : HF3 Float) : Bool :=
  h.nr ≥ 2 && h.nc ≥ 2 && h.hs.size == h.nr * h.nc && h.st.size == (h.nr - 1) * (h.nc - 1) && h.hs.all FloatIO.isFinite &&
  finite3 h.scale && h.scale.x > 0 && h.scale.y > 0 && h.scale.z > 0

/-- exact grid line `k` of an axis with `n` cells and scale `s` -/
def gl (s : Rat) (n k : Nat) : Rat := s * (-(1 / 2 : Rat) + (k : Rat) / (n : Rat))

def hf3Handler (fn : String) : Option Handler :=
  match fn with
  | "hf3_cell" => some {
      model := fun a => run (do let h ← phf3; let p ← pv3; pend
                                pure (match h.cellAtPoint p with | none => "none" | some (i, j) => s!"some {i} {j}")) a
      oracle := fun a o => match run (do let h ← phf3; let p ← pv3; pend; pure (h, p)) a with
        | none => "skip bad-args"
        | some (h, p) =>
          if !(hf3Domain h && finite3 p) then "skip outside-domain" else
          let sx := q h.scale.x; let sz := q h.scale.z; let tx := (1 + rabs sx) / 1000000000; let tz := (1 + rabs sz) / 1000000000
          let x := q p.x; let z := q p.z
          match o with
          | ["none"] => if -sx / 2 + tx ≤ x && x ≤ sx / 2 - tx && -sz / 2 + tz ≤ z && z ≤ sz / 2 - tz then "fail none-for-a-point-above-the-heightfield" else "pass"
          | ["some", ti, tj] => match ti.toNat?, tj.toNat? with
            | some i, some j =>
              if i ≥ h.nrows || j ≥ h.ncols then s!"fail cell-index-out-of-range {i} {j}"
              else if gl sx h.ncols j - tx ≤ x && x ≤ gl sx h.ncols (j + 1) + tx && gl sz h.nrows i - tz ≤ z && z ≤ gl sz h.nrows (i + 1) + tz then "pass"
              else s!"fail point-not-above-reported-cell {i} {j}"
            | _, _ => "fail unparsable-output"
          | _ => "fail unparsable-output" }
  | "hf3_range" => some {
      model := fun a => run (do let h ← phf3; let b ← pbox3; pend
                                let r := h.unclampedRange b; pure s!"{r.1.1} {r.1.2} {r.2.1} {r.2.2}") a
      oracle := fun a o => match run (do let h ← phf3; let b ← pbox3; pend; pure (h, b)) a with
        | none => "skip bad-args"
        | some (h, b) =>
          if !(hf3Domain h && valid3 (qb3 b) && finite3 b.mins && finite3 b.maxs) then "skip outside-domain" else
          let sx := q h.scale.x; let sz := q h.scale.z; let tx := (1 + rabs sx) / 1000000000; let tz := (1 + rabs sz) / 1000000000
          let bb := qb3 b
          match o.map String.toInt? with
          | [some si, some ei, some sj, some ej] =>
            let badj := (List.range h.ncols).find? fun j => bb.mins.x < gl sx h.ncols (j + 1) - tx && gl sx h.ncols j + tx < bb.maxs.x && !(sj ≤ (j : Int) && (j : Int) < ej)
            let badi := (List.range h.nrows).find? fun i => bb.mins.z < gl sz h.nrows (i + 1) - tz && gl sz h.nrows i + tz < bb.maxs.z && !(si ≤ (i : Int) && (i : Int) < ei)
            match badi, badj with
            | some i, _ => s!"fail overlapping-row-outside-range {i}"
            | _, some j => s!"fail overlapping-column-outside-range {j}"
            | none, none => "pass"
          | _ => "fail unparsable-output" }
  | "hf3_elems" => some {
      model := fun a => run (do let h ← phf3; let b ← pbox3; pend
                                pure (" ".intercalate ("ids" :: (h.mapElements b).map toString))) a
      oracle := fun a o => match run (do let h ← phf3; let b ← pbox3; pend; pure (h, b)) a with
        | none => "skip bad-args"
        | some (h, b) =>
          if !(hf3Domain h && valid3 (qb3 b) && finite3 b.mins && finite3 b.maxs) then "skip outside-domain" else
          let sx := q h.scale.x; let sy := q h.scale.y; let sz := q h.scale.z
          let tx := (1 + rabs sx) / 1000000000; let ty := (1 + rabs sy) / 1000000000; let tz := (1 + rabs sz) / 1000000000
          let bb := qb3 b
          let hq := h.hs.map q
          let ys (i j : Nat) : List Rat := [hq.getD (i + j * h.nr) 0, hq.getD (i + 1 + j * h.nr) 0, hq.getD (i + (j + 1) * h.nr) 0, hq.getD (i + 1 + (j + 1) * h.nr) 0].map (sy * ·)
          let lo (l : List Rat) : Rat := l.foldl rmin (l.headD 0)
          let hi (l : List Rat) : Rat := l.foldl rmax (l.headD 0)
          let stat (i j : Nat) : Nat := h.st.getD (i + j * h.nrows) 6
          -- the triangles of the cells whose box (cell rectangle x ordinate range of the four corners) clearly overlaps the box
          let cells := (List.range h.ncols).flatMap fun j => (List.range h.nrows).map fun i => (i, j)
          match o with
          | "ids" :: ts => match ts.mapM String.toNat? with
            | none => "fail unparsable-output"
            | some ids =>
              let clear (i j : Nat) : Bool :=
                bb.mins.x < gl sx h.ncols (j + 1) - tx && gl sx h.ncols j + tx < bb.maxs.x &&
                bb.mins.z < gl sz h.nrows (i + 1) - tz && gl sz h.nrows i + tz < bb.maxs.z &&
                bb.mins.y + ty ≤ hi (ys i j) && lo (ys i j) ≤ bb.maxs.y - ty
              let loose (i j : Nat) : Bool :=
                bb.mins.x ≤ gl sx h.ncols (j + 1) + tx && gl sx h.ncols j - tx ≤ bb.maxs.x &&
                bb.mins.z ≤ gl sz h.nrows (i + 1) + tz && gl sz h.nrows i - tz ≤ bb.maxs.z &&
                bb.mins.y - ty ≤ hi (ys i j) && lo (ys i j) ≤ bb.maxs.y + ty
              let missed := cells.find? fun (i, j) => clear i j &&
                ((stat i j / 2 % 2 == 0 && !ids.contains (h.triId i j true)) || (stat i j / 4 % 2 == 0 && !ids.contains (h.triId i j false)))
              let wrong := ids.find? fun t =>
                let left := t < h.nrows * h.ncols
                let c := if left then t else t - h.nrows * h.ncols
                let j := c / h.nrows; let i := c % h.nrows
                !(c < h.nrows * h.ncols && loose i j && (if left then stat i j / 2 % 2 == 0 else stat i j / 4 % 2 == 0))
              match missed, wrong with
              | some (i, j), _ => s!"fail overlapping-cell-triangle-not-reported {i} {j}"
              | _, some t => s!"fail reported-triangle-does-not-overlap-or-removed {t}"
              | none, none => "pass"
          | _ => "fail unparsable-output" }
  | _ => none

def handler3 (fn : String) : Option Handler :=
  match fn with
  | "dv3_visit" | "cp3_visit" => some {
      model := fun a => run (do let ab ← pbox3; let best ← pf; let x ← p4 pbox3
                                let r := x.map fun u => dvVisit3 ab best u
                                pure (" ".intercalate ((r.map fun p => ff p.1) ++ (r.map fun p => fb p.2)))) a
      oracle := fun a o => match run (do let ab ← pbox3; let best ← pf; let x ← p4 pbox3; pure (ab, best, x)) a with
        | none => "skip bad-args"
        | some (ab, best, x) =>
          if !((ab :: x).all fun b => valid3 (qb3 b)) then "skip invalid-box" else
          dvOracle (x.map fun u => boxDist3sq (qb3 u) (qb3 ab)) best o }
  | "tv3_visit" => some {
      model := fun a => run (do let ab ← pbox3; let v ← pv3; let mt ← pf; let td ← pf; let x ← p4 pbox3
                                pure (" ".intercalate (x.map fun u => let r := tvVisit3 (FloatIO.ofHex? "7fefffffffffffff" |>.getD 0) ab td v mt u; s!"{fb r.1} {ff r.2}"))) a
      oracle := fun a o => match run (do let ab ← pbox3; let v ← pv3; let mt ← pf; let td ← pf; let x ← p4 pbox3; pure (ab, v, mt, td, x)) a with
        | none => "skip bad-args"
        | some (ab, v, mt, td, x) =>
          if !((ab :: x).all fun b => valid3 (qb3 b)) then "skip invalid-box" else
          let A := qb3 ab; let d := q3 v; let t := q td
          -- the Minkowski-sum box by its definition: { p1 - p2 } enlarged by the target distance, against the ray from the origin
          rayOracleT (x.map fun u => let U := qb3 u
            [(U.mins.x - A.maxs.x - t, U.maxs.x - A.mins.x + t, 0, d.x), (U.mins.y - A.maxs.y - t, U.maxs.y - A.mins.y + t, 0, d.y),
             (U.mins.z - A.maxs.z - t, U.maxs.z - A.mins.z + t, 0, d.z)]) (q mt) o }
  | "tv2_visit" => some {
      model := fun a => run (do let ab ← pbox2; let v ← pv2; let mt ← pf; let td ← pf; let x ← p4 pbox2
                                pure (" ".intercalate (x.map fun u => let r := tvVisit2 (FloatIO.ofHex? "7fefffffffffffff" |>.getD 0) ab td v mt u; s!"{fb r.1} {ff r.2}"))) a
      oracle := fun a o => match run (do let ab ← pbox2; let v ← pv2; let mt ← pf; let td ← pf; let x ← p4 pbox2; pure (ab, v, mt, td, x)) a with
        | none => "skip bad-args"
        | some (ab, v, mt, td, x) =>
          if !((ab :: x).all fun b => valid2 (qb2 b)) then "skip invalid-box" else
          let A := qb2 ab; let d := q2 v; let t := q td
          rayOracleT (x.map fun u => let U := qb2 u
            [(U.mins.x - A.maxs.x - t, U.maxs.x - A.mins.x + t, 0, d.x), (U.mins.y - A.maxs.y - t, U.maxs.y - A.mins.y + t, 0, d.y)]) (q mt) o }
  | "dv2_visit" | "cp2_visit" => some {
      model := fun a => run (do let ab ← pbox2; let best ← pf; let x ← p4 pbox2
                                let r := x.map fun u => dvVisit2 ab best u
                                pure (" ".intercalate ((r.map fun p => ff p.1) ++ (r.map fun p => fb p.2)))) a
      oracle := fun a o => match run (do let ab ← pbox2; let best ← pf; let x ← p4 pbox2; pure (ab, best, x)) a with
        | none => "skip bad-args"
        | some (ab, best, x) =>
          if !((ab :: x).all fun b => valid2 (qb2 b)) then "skip invalid-box" else
          dvOracle (x.map fun u => boxDist2sq (qb2 u) (qb2 ab)) best o }
  | _ => (hf2Handler fn).orElse fun _ => hf3Handler fn

end C07
