import ParryModel.Proto
import ParryModel.C07.Model3
import ParryModel.C07.Driver2
/-!
C07 protocol handler, part 3.
* `dv3_visit` / `dv2_visit`: the REAL `CompositeShapeAgainstAnyDistanceVisitor::{new, visit}` on four lanes (internal node,
  `data = None`) – weights and masks.  Args: `ls_aabb2` (what `g2.compute_aabb(pos12)` returned when the case was generated),
  `best`, four lane boxes; then the relative pose and the other shape (used by the Rust side only).  Model bit-exact; the
  oracle judges by the definition in exact arithmetic: the weight must be the distance between the two closed boxes
  (largest per-axis gap vector), the mask must be exactly `weight < best` on the reported weight, and a lane whose exact
  box distance is clearly below `best` must not be masked out.
* `hf2_cell`, `hf2_range`, `hf2_elems`: the REAL `HeightField::{cell_at_point, unclamped_elements_range_in_local_aabb,
  map_elements_in_local_aabb}` (2-D), judged against the cell intervals computed in exact arithmetic.
-/
namespace C07
open Model Model.C07 Proto

def boxGap2 (lo1 hi1 lo2 hi2 : Rat) : Rat := rmax (rmax (lo1 - hi2) (lo2 - hi1)) 0
/-- squared distance between two closed boxes -/
def boxDist2sq (a b : Aabb2 Rat) : Rat :=
  sqr (boxGap2 a.mins.x a.maxs.x b.mins.x b.maxs.x) + sqr (boxGap2 a.mins.y a.maxs.y b.mins.y b.maxs.y)
def boxDist3sq (a b : Aabb3 Rat) : Rat :=
  sqr (boxGap2 a.mins.x a.maxs.x b.mins.x b.maxs.x) + sqr (boxGap2 a.mins.y a.maxs.y b.mins.y b.maxs.y) +
  sqr (boxGap2 a.mins.z a.maxs.z b.mins.z b.maxs.z)

def dvOracle (want2 : List Rat) (best : Float) (o : List String) : String :=
  if o.length != 8 then "fail unparsable-output" else
  match (o.take 4).mapM (fun t => FloatIO.ofHex? t) with
  | none => "fail unparsable-weight"
  | some ws =>
    let ms := o.drop 4
    let rec go (i : Nat) : List Rat → List Float → List String → String
      | w2 :: r2, w :: rw, m :: rm =>
        if !(FloatIO.isFinite w && q w ≥ 0) then s!"fail lane-{i}-weight-not-finite-nonnegative"
        else if !(closeR (sqr (q w)) w2) then s!"fail lane-{i}-weight-differs-from-box-distance weight={q w} want-squared={w2}"
        else if m != fb (decide (w < best)) then s!"fail lane-{i}-mask-is-not-weight<best"
        -- the pruning clause itself: a lane that could hold a part closer than `best` must stay
        else if m == "0" && FloatIO.isFinite best && q best > 1 / 1000000 && w2 * (1 + 1 / 1000000) + 1 / 1000000000000 < sqr (q best) then s!"fail lane-{i}-pruned-although-box-closer-than-best"
        else go (i + 1) r2 rw rm
      | _, _, _ => "pass"
    go 0 want2 ws ms

def handler3 (fn : String) : Option Handler :=
  match fn with
  | "dv3_visit" => some {
      model := fun a => run (do let ab ← pbox3; let best ← pf; let x ← p4 pbox3
                                let r := x.map fun u => dvVisit3 ab best u
                                pure (" ".intercalate ((r.map fun p => ff p.1) ++ (r.map fun p => fb p.2)))) a
      oracle := fun a o => match run (do let ab ← pbox3; let best ← pf; let x ← p4 pbox3; pure (ab, best, x)) a with
        | none => "skip bad-args"
        | some (ab, best, x) =>
          if !((ab :: x).all fun b => valid3 (qb3 b)) then "skip invalid-box" else
          dvOracle (x.map fun u => boxDist3sq (qb3 u) (qb3 ab)) best o }
  | "dv2_visit" => some {
      model := fun a => run (do let ab ← pbox2; let best ← pf; let x ← p4 pbox2
                                let r := x.map fun u => dvVisit2 ab best u
                                pure (" ".intercalate ((r.map fun p => ff p.1) ++ (r.map fun p => fb p.2)))) a
      oracle := fun a o => match run (do let ab ← pbox2; let best ← pf; let x ← p4 pbox2; pure (ab, best, x)) a with
        | none => "skip bad-args"
        | some (ab, best, x) =>
          if !((ab :: x).all fun b => valid2 (qb2 b)) then "skip invalid-box" else
          dvOracle (x.map fun u => boxDist2sq (qb2 u) (qb2 ab)) best o }
  | _ => none

end C07
