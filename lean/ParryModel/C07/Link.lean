import ParryModel.C07.Model
import ParryModel.C08.Model
/-!
# C07 ↔ C08: the abstract tree of a QBVH state
`rootTrees q` unfolds the node array into the abstract trees hanging under the four lanes of the root (node 0 is visited
unconditionally by every traversal).  A lane of a leaf node becomes a `leaf` carrying the lane box and the proxy's data;
a lane of an internal node whose child index is in range becomes a `node` carrying the lane box.
-/
namespace Model
namespace Qbvh
open Model.Bvh
variable {K : Type} [Num K]

/-- the subtrees under the lanes of node `n` (fuel bounds the depth) -/
def lanesOf (q : Q K) : Nat → Nat → List (Tree (Aabb3 K) Nat)
  | 0, _ => []
  | fuel + 1, n =>
    match q.nodes[n]? with
    | none => []
    | some nd =>
      [0, 1, 2, 3].filterMap fun l =>
        match nd.children[l]?, nd.boxes[l]? with
        | some c, some bx =>
          if nd.leaf then (q.proxies[c]?).map fun pr => Tree.leaf bx pr.data
          else if c < q.nodes.size then some (Tree.node bx (lanesOf q fuel c)) else none
        | _, _ => none

/-- the whole tree: a virtual root box over the lanes of node 0 -/
def toTree (q : Q K) (top : Aabb3 K) : Tree (Aabb3 K) Nat := Tree.node top (lanesOf q (q.nodes.size + 1) 0)

/-- squared distance from a point to a box (`0` inside), the weight used by the point-query visitor of the harness -/
def dist2 (p : V3 K) (b : Aabb3 K) : K :=
  let dx := nmax (nmax (b.mins.x - p.x) (p.x - b.maxs.x)) 0
  let dy := nmax (nmax (b.mins.y - p.y) (p.y - b.maxs.y)) 0
  let dz := nmax (nmax (b.mins.z - p.z) (p.z - b.maxs.z)) 0
  dx * dx + dy * dy + dz * dz

end Qbvh

/-! ## the pruning bound of the composite-shape distance visitors
(`CompositeShapeAgainstAnyDistanceVisitor::visit`, `…ClosestPointsVisitor::visit`, `distance_composite_shape_shape.rs`) -/

/-- `SimdAabb { mins: bv.mins + msum_shift + (-msum_margin), maxs: bv.maxs + msum_shift + msum_margin }` (one lane) -/
def msumBox {K : Type} [Num K] (bv : Aabb3 K) (shift margin : V3 K) : Aabb3 K :=
  ⟨(bv.mins.add shift).add margin.neg, (bv.maxs.add shift).add margin⟩

/-- the vector whose norm is `SimdAabb::distance_to_origin`: `mins.sup(-maxs).sup(0)` -/
def originShift {K : Type} [Num K] (b : Aabb3 K) : V3 K := (b.mins.sup b.maxs.neg).sup V3.zero

/-- `SimdAabb::distance_to_origin` (one lane) -/
def distToOrigin {K : Type} [Num K] (b : Aabb3 K) : K := (originShift b).norm

end Model
