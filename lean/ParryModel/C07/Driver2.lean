import ParryModel.Proto
import ParryModel.C07.Model2
import ParryModel.C07.Link
/-!
C07 protocol handler, part 2: the lane tests of `SimdAabb` used by the composite-shape visitors (`lane2_*` / `lane3_*`,
four lanes per call, the real `SimdAabb::{intersects, contains_local_point, cast_local_ray, distance_to_local_point,
distance_to_origin}`) and `NonlinearRigidMotion` (`nl2_*` / `nl3_*`).  Models are bit-exact; the oracles judge the
implementation's output by the definitions (common point of two closed boxes, membership, a witness time on the ray,
clamped squared distance, the defining equations of the motion) in exact rational arithmetic.
-/
namespace C07
open Model Model.C07 Proto

def pbox2 : P (Aabb2 Float) := do let a ← pv2; let b ← pv2; pure ⟨a, b⟩
def pbox3 : P (Aabb3 Float) := do let a ← pv3; let b ← pv3; pure ⟨a, b⟩
def p4 {α} (p : P α) : P (List α) := do let a ← p; let b ← p; let c ← p; let d ← p; pure [a, b, c, d]
def qb2 (b : Aabb2 Float) : Aabb2 Rat := ⟨q2 b.mins, q2 b.maxs⟩
def qb3 (b : Aabb3 Float) : Aabb3 Rat := ⟨q3 b.mins, q3 b.maxs⟩
def fbs (l : List Bool) : String := " ".intercalate (l.map fb)
def rmax (a b : Rat) : Rat := if a < b then b else a
def rmin (a b : Rat) : Rat := if b < a then b else a

/-- closed membership, by definition -/
def in2 (b : Aabb2 Rat) (p : V2 Rat) : Bool := b.mins.x ≤ p.x && p.x ≤ b.maxs.x && b.mins.y ≤ p.y && p.y ≤ b.maxs.y
def in3 (b : Aabb3 Rat) (p : V3 Rat) : Bool :=
  b.mins.x ≤ p.x && p.x ≤ b.maxs.x && b.mins.y ≤ p.y && p.y ≤ b.maxs.y && b.mins.z ≤ p.z && p.z ≤ b.maxs.z
/-- two closed boxes have a common point iff the corner `sup(mins)` lies in both -/
def common2 (a b : Aabb2 Rat) : Bool :=
  let p : V2 Rat := ⟨rmax a.mins.x b.mins.x, rmax a.mins.y b.mins.y⟩; in2 a p && in2 b p
def common3 (a b : Aabb3 Rat) : Bool :=
  let p : V3 Rat := ⟨rmax a.mins.x b.mins.x, rmax a.mins.y b.mins.y, rmax a.mins.z b.mins.z⟩; in3 a p && in3 b p
def valid2 (a : Aabb2 Rat) : Bool := a.mins.x ≤ a.maxs.x && a.mins.y ≤ a.maxs.y
def valid3 (a : Aabb3 Rat) : Bool := a.mins.x ≤ a.maxs.x && a.mins.y ≤ a.maxs.y && a.mins.z ≤ a.maxs.z

def boolsOracle (want : List Bool) (o : List String) : String :=
  if o.length != want.length then "fail unparsable-output" else
  match (want.zip o).findIdx? (fun (w, t) => fb w != t) with
  | none => "pass"
  | some i => s!"fail lane-{i}-verdict-differs-from-definition want={fb (want.getD i false)}"

def clampR (x lo hi : Rat) : Rat := if x < lo then lo else if hi < x then hi else x
def sqr (x : Rat) : Rat := x * x
/-- squared distance from `p` to the closed box: the nearest point is the coordinate-wise clamp -/
def d2box2 (b : Aabb2 Rat) (p : V2 Rat) : Rat := sqr (p.x - clampR p.x b.mins.x b.maxs.x) + sqr (p.y - clampR p.y b.mins.y b.maxs.y)
def d2box3 (b : Aabb3 Rat) (p : V3 Rat) : Rat :=
  sqr (p.x - clampR p.x b.mins.x b.maxs.x) + sqr (p.y - clampR p.y b.mins.y b.maxs.y) + sqr (p.z - clampR p.z b.mins.z b.maxs.z)

def closeR (a b : Rat) (tol : Rat := tolDefault) : Bool := leTol a b tol && leTol b a tol

def distsOracle (want2 : List Rat) (o : List String) : String :=
  match o.mapM (fun t => FloatIO.ofHex? t) with
  | none => "fail unparsable-output"
  | some xs =>
    if xs.length != want2.length then "fail unparsable-output" else
    match (want2.zip xs).findIdx? (fun (w, x) => !(FloatIO.isFinite x && q x ≥ 0 && closeR (sqr (q x)) w)) with
    | none => "pass"
    | some i => s!"fail distance-{i}-differs-from-definition want-squared={want2.getD i 0}"

/-- ray against one closed box, judged by witnesses: the candidate times are `0` and the plane-crossing times -/
def rayWitness (axes : List (Rat × Rat × Rat × Rat)) (maxToi : Rat) (slack : Rat) : Option Rat :=
  let cands : List Rat := 0 :: axes.flatMap fun (mn, mx, o, d) => if d == 0 then [] else [(mn - o) / d, (mx - o) / d]
  let inside (t : Rat) : Bool := axes.all fun (mn, mx, o, d) => mn + slack ≤ o + t * d && o + t * d ≤ mx - slack
  (cands.filter fun t => 0 ≤ t && t ≤ maxToi && inside t).foldl (fun m t => match m with | none => some t | some u => some (rmin u t)) none

def rayOracle (lanes : List (List (Rat × Rat × Rat × Rat))) (maxToi : Rat) (o : List String) : String :=
  if o.length != 2 * lanes.length then "fail unparsable-output" else
  let rec go (i : Nat) : List (List (Rat × Rat × Rat × Rat)) → List String → String
    | [], _ => "pass"
    | ax :: rest, h :: t :: os =>
      let scale : Rat := 1 + ax.foldl (fun s (mn, mx, o, _) => s + rabs mn + rabs mx + rabs o) 0
      let tol : Rat := scale / 100000000
      if h == "1" then
        match FloatIO.ofHex? t with
        | none => s!"fail lane-{i}-unparsable-tmin"
        | some tf =>
          let T := q tf
          -- a reported hit must come with an entry time in range whose point is (almost) in the box
          let inside := ax.all fun (mn, mx, o, d) => mn - tol * (1 + rabs d) ≤ o + T * d && o + T * d ≤ mx + tol * (1 + rabs d)
          if !(FloatIO.isFinite tf) then s!"fail lane-{i}-nonfinite-tmin"
          else if !(0 ≤ T && T ≤ maxToi + tol) then s!"fail lane-{i}-tmin-out-of-range {T}"
          else if !inside then s!"fail lane-{i}-tmin-point-outside-box"
          else match rayWitness ax maxToi 0 with
            | some w => if T ≤ w + tol * (1 + rabs w) then go (i + 1) rest os else s!"fail lane-{i}-tmin-exceeds-first-contact tmin={T} first={w}"
            | none => go (i + 1) rest os     -- hit within rounding of a grazing configuration
      else
        -- no hit: there must be no time in range at which the ray is clearly inside the box
        match rayWitness ax maxToi tol with
        | some w => s!"fail lane-{i}-missed-hit-at {w}"
        | none => go (i + 1) rest os
    | _, _ => "fail unparsable-output"
  go 0 lanes o

structure M3 where
  m : Motion3 Float
def pmotion3 : P (Motion3 Float) := do let s ← piso3; let c ← pv3; let l ← pv3; let a ← pv3; pure ⟨s, c, l, a⟩
def pmotion2 : P (Motion2 Float) := do let s ← piso2; let c ← pv2; let l ← pv2; let a ← pf; pure ⟨s, c, l, a⟩
def fiso3 (m : Iso3 Float) : String := s!"{ff m.qi} {ff m.qj} {ff m.qk} {ff m.qw} {fv3 m.t}"
def fiso2 (m : Iso2 Float) : String := s!"{ff m.re} {ff m.im} {fv2 m.t}"
def poiso3 : P (Iso3 Float) := do let i ← pfo; let j ← pfo; let k ← pfo; let w ← pfo; let x ← pfo; let y ← pfo; let z ← pfo; pure ⟨i, j, k, w, ⟨x, y, z⟩⟩
def poiso2 : P (Iso2 Float) := do let re ← pfo; let im ← pfo; let x ← pfo; let y ← pfo; pure ⟨re, im, ⟨x, y⟩⟩
def pov3 : P (V3 Float) := do let x ← pfo; let y ← pfo; let z ← pfo; pure ⟨x, y, z⟩
def pov2 : P (V2 Float) := do let x ← pfo; let y ← pfo; pure ⟨x, y⟩
def close3 (a b : V3 Rat) : Bool := closeR a.x b.x (1 / 100000000) && closeR a.y b.y (1 / 100000000) && closeR a.z b.z (1 / 100000000)
def close2 (a b : V2 Rat) : Bool := closeR a.x b.x (1 / 100000000) && closeR a.y b.y (1 / 100000000)
def probes3 : List (V3 Rat) := [⟨0, 0, 0⟩, ⟨1, 0, 0⟩, ⟨0, 1, 0⟩, ⟨0, 0, 1⟩, ⟨1, 2, 3⟩]
def probes2 : List (V2 Rat) := [⟨0, 0⟩, ⟨1, 0⟩, ⟨0, 1⟩, ⟨1, 2⟩]

/-- `nl*_set`: kind 0 append_translation, 1 prepend_translation, 2 append, 3 prepend -/
def pset3 : P (Motion3 Float × Nat × V3 Float × Iso3 Float) := do
  let m ← pmotion3; let k ← pnat; let tra ← pv3; let iso ← piso3; pend; pure (m, k, tra, iso)
def pset2 : P (Motion2 Float × Nat × V2 Float × Iso2 Float) := do
  let m ← pmotion2; let k ← pnat; let tra ← pv2; let iso ← piso2; pend; pure (m, k, tra, iso)
def ppos3 : P (Motion3 Float × Float × Iso3 Float) := do
  let m ← pmotion3; let t ← pf; let i ← pf; let j ← pf; let k ← pf; let w ← pf; pend; pure (m, t, ⟨i, j, k, w, m.linvel.smul t⟩)
def ppos2 : P (Motion2 Float × Float × Iso2 Float) := do
  let m ← pmotion2; let t ← pf; let re ← pf; let im ← pf; pend; pure (m, t, ⟨re, im, m.linvel.smul t⟩)

def handler2 (fn : String) : Option Handler :=
  match fn with
  | "lane2_intersects" => some {
      model := fun a => run (do let x ← p4 pbox2; let y ← p4 pbox2; pend; pure (fbs ((x.zip y).map fun (u, v) => laneIntersects2 u v))) a
      oracle := fun a o => match run (do let x ← p4 pbox2; let y ← p4 pbox2; pend; pure (x, y)) a with
        | none => "skip bad-args"
        | some (x, y) =>
          if !((x ++ y).all fun b => valid2 (qb2 b)) then "skip invalid-box" else
          boolsOracle ((x.zip y).map fun (u, v) => common2 (qb2 u) (qb2 v)) o }
  | "lane3_intersects" => some {
      model := fun a => run (do let x ← p4 pbox3; let y ← p4 pbox3; pend; pure (fbs ((x.zip y).map fun (u, v) => laneIntersects3 u v))) a
      oracle := fun a o => match run (do let x ← p4 pbox3; let y ← p4 pbox3; pend; pure (x, y)) a with
        | none => "skip bad-args"
        | some (x, y) =>
          if !((x ++ y).all fun b => valid3 (qb3 b)) then "skip invalid-box" else
          boolsOracle ((x.zip y).map fun (u, v) => common3 (qb3 u) (qb3 v)) o }
  | "lane2_point" => some {
      model := fun a => run (do let x ← p4 pbox2; let p ← pv2; pend; pure (fbs (x.map fun u => laneContainsPoint2 u p))) a
      oracle := fun a o => match run (do let x ← p4 pbox2; let p ← pv2; pend; pure (x, p)) a with
        | none => "skip bad-args"
        | some (x, p) => boolsOracle (x.map fun u => in2 (qb2 u) (q2 p)) o }
  | "lane3_point" => some {
      model := fun a => run (do let x ← p4 pbox3; let p ← pv3; pend; pure (fbs (x.map fun u => laneContainsPoint3 u p))) a
      oracle := fun a o => match run (do let x ← p4 pbox3; let p ← pv3; pend; pure (x, p)) a with
        | none => "skip bad-args"
        | some (x, p) => boolsOracle (x.map fun u => in3 (qb3 u) (q3 p)) o }
  | "lane2_dist" => some {
      model := fun a => run (do let x ← p4 pbox2; let p ← pv2; pend
                                pure (" ".intercalate ((x.map fun u => ff (laneDistPoint2 u p)) ++ (x.map fun u => ff (laneDistToOrigin2 u))))) a
      oracle := fun a o => match run (do let x ← p4 pbox2; let p ← pv2; pend; pure (x, p)) a with
        | none => "skip bad-args"
        | some (x, p) =>
          if !(x.all fun b => valid2 (qb2 b)) then "skip invalid-box" else
          distsOracle ((x.map fun u => d2box2 (qb2 u) (q2 p)) ++ (x.map fun u => d2box2 (qb2 u) ⟨0, 0⟩)) o }
  | "lane3_dist" => some {
      model := fun a => run (do let x ← p4 pbox3; let p ← pv3; pend
                                pure (" ".intercalate ((x.map fun u => ff (laneDistPoint3 u p)) ++ (x.map fun u => ff (distToOrigin u))))) a
      oracle := fun a o => match run (do let x ← p4 pbox3; let p ← pv3; pend; pure (x, p)) a with
        | none => "skip bad-args"
        | some (x, p) =>
          if !(x.all fun b => valid3 (qb3 b)) then "skip invalid-box" else
          distsOracle ((x.map fun u => d2box3 (qb3 u) (q3 p)) ++ (x.map fun u => d2box3 (qb3 u) ⟨0, 0, 0⟩)) o }
  | "lane2_ray" => some {
      model := fun a => run (do let x ← p4 pbox2; let o ← pv2; let d ← pv2; let mt ← pf; pend
                                pure (" ".intercalate (x.map fun u => let r := laneCastRay2 (FloatIO.ofHex? "7fefffffffffffff" |>.getD 0) u o d mt; s!"{fb r.1} {ff r.2}"))) a
      oracle := fun a o => match run (do let x ← p4 pbox2; let og ← pv2; let d ← pv2; let mt ← pf; pend; pure (x, og, d, mt)) a with
        | none => "skip bad-args"
        | some (x, og, d, mt) =>
          if !(x.all fun b => valid2 (qb2 b)) then "skip invalid-box" else
          rayOracle (x.map fun u => let b := qb2 u; [(b.mins.x, b.maxs.x, q og.x, q d.x), (b.mins.y, b.maxs.y, q og.y, q d.y)]) (q mt) o }
  | "lane3_ray" => some {
      model := fun a => run (do let x ← p4 pbox3; let o ← pv3; let d ← pv3; let mt ← pf; pend
                                pure (" ".intercalate (x.map fun u => let r := laneCastRay3 (FloatIO.ofHex? "7fefffffffffffff" |>.getD 0) u o d mt; s!"{fb r.1} {ff r.2}"))) a
      oracle := fun a o => match run (do let x ← p4 pbox3; let og ← pv3; let d ← pv3; let mt ← pf; pend; pure (x, og, d, mt)) a with
        | none => "skip bad-args"
        | some (x, og, d, mt) =>
          if !(x.all fun b => valid3 (qb3 b)) then "skip invalid-box" else
          rayOracle (x.map fun u => let b := qb3 u; [(b.mins.x, b.maxs.x, q og.x, q d.x), (b.mins.y, b.maxs.y, q og.y, q d.y), (b.mins.z, b.maxs.z, q og.z, q d.z)]) (q mt) o }
  | "nl3_set" => some {
      model := fun a => (run pset3 a).map fun (m, k, tra, iso) =>
        let r := if k == 0 then m.appendTranslation tra else if k == 1 then m.prependTranslation tra else if k == 2 then m.append iso else m.prepend iso
        s!"{fiso3 r.start} {fv3 r.localCenter}"
      oracle := fun a o => match run pset3 a, run (do let s ← poiso3; let c ← pov3; pend; pure (s, c)) o with
        | some (m, k, tra, iso), some (s, c) =>
          let S := qiso3 s; let S0 := qiso3 m.start; let T := q3 tra; let I := qiso3 iso
          -- the world-space centre of rotation is unchanged …
          if !(close3 (S.act (q3 c)) (S0.act (q3 m.localCenter))) then "fail world-centre-moved" else
          -- … and the new start pose is the stated composition (checked on probe points)
          let want (p : V3 Rat) : V3 Rat := if k == 0 then (S0.act p).add T else if k == 1 then S0.act (p.add T) else if k == 2 then I.act (S0.act p) else S0.act (I.act p)
          if probes3.all fun p => close3 (S.act p) (want p) then "pass" else "fail start-pose-is-not-the-composition"
        | none, _ => "skip bad-args"
        | _, none => "fail unparsable-output" }
  | "nl2_set" => some {
      model := fun a => (run pset2 a).map fun (m, k, tra, iso) =>
        let r := if k == 0 then m.appendTranslation tra else if k == 1 then m.prependTranslation tra else if k == 2 then m.append iso else m.prepend iso
        s!"{fiso2 r.start} {fv2 r.localCenter}"
      oracle := fun a o => match run pset2 a, run (do let s ← poiso2; let c ← pov2; pend; pure (s, c)) o with
        | some (m, k, tra, iso), some (s, c) =>
          let S := qiso2 s; let S0 := qiso2 m.start; let T := q2 tra; let I := qiso2 iso
          if !(close2 (S.act (q2 c)) (S0.act (q2 m.localCenter))) then "fail world-centre-moved" else
          let want (p : V2 Rat) : V2 Rat := if k == 0 then (S0.act p).add T else if k == 1 then S0.act (p.add T) else if k == 2 then I.act (S0.act p) else S0.act (I.act p)
          if probes2.all fun p => close2 (S.act p) (want p) then "pass" else "fail start-pose-is-not-the-composition"
        | none, _ => "skip bad-args"
        | _, none => "fail unparsable-output" }
  | "nl3_pos" => some {
      model := fun a => (run ppos3 a).map fun (m, _, M) => fiso3 (m.positionAt M)
      oracle := fun a o => match run ppos3 a, run (do let s ← poiso3; pend; pure s) o with
        | some (m, t, M), some s =>
          let S := qiso3 s; let S0 := qiso3 m.start; let MQ := qiso3 M
          let ctr := S0.act (q3 m.localCenter)
          -- the centre moves linearly, everything else rotates about it by `M`'s rotation
          let want (p : V3 Rat) : V3 Rat := (MQ.rot ((S0.act p).sub ctr)).add (ctr.add ((q3 m.linvel).smul (q t)))
          if probes3.all fun p => close3 (S.act p) (want p) then "pass" else "fail position-is-not-rotation-about-the-centre-plus-drift"
        | none, _ => "skip bad-args"
        | _, none => "fail unparsable-output" }
  | "nl2_pos" => some {
      model := fun a => (run ppos2 a).map fun (m, _, M) => fiso2 (m.positionAt M)
      oracle := fun a o => match run ppos2 a, run (do let s ← poiso2; pend; pure s) o with
        | some (m, t, M), some s =>
          let S := qiso2 s; let S0 := qiso2 m.start; let MQ := qiso2 M
          let ctr := S0.act (q2 m.localCenter)
          let want (p : V2 Rat) : V2 Rat := (MQ.rot ((S0.act p).sub ctr)).add (ctr.add ((q2 m.linvel).smul (q t)))
          if probes2.all fun p => close2 (S.act p) (want p) then "pass" else "fail position-is-not-rotation-about-the-centre-plus-drift"
        | none, _ => "skip bad-args"
        | _, none => "fail unparsable-output" }
  | _ => none

end C07
