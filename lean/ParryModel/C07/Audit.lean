import ParryModel.C07.Theorems
#print axioms C07.pred_up
#print axioms C07.pred_up_list
#print axioms C07.dfs_complete
#print axioms C07.dfs_complete_list
#print axioms C07.dfs_sound
#print axioms C07.dfs_sound_list
#print axioms C07.dfsLoop_perm
#print axioms C07.bestFirst_optimal
#print axioms C07.pairs_complete
#print axioms C07.axis_lower_bound
#print axioms C07.msum_lower_bound_sq
#print axioms C07.msum_lower_bound
