import ParryModel.Field
import ParryModel.C07.Model2
import ParryModel.C07.Theorems1
/-!
# C07 theorems, part 2: the lane tests of the visitors prune nothing that could matter

* `laneIntersects{2,3}_iff` / `_of_common_point` / `_common_point`: one lane of `SimdAabb::intersects` is true exactly when
  the two CLOSED boxes have a common point – boxes that merely touch (a shared face, edge or corner) pass;
* `laneIntersects{2,3}_mono`: the test is monotone for box containment in either argument, so it satisfies the hypothesis
  of `dfs_complete`; `touching_leaf_reported{2,3}`: on every nested tree the depth-first traversal with this test reports
  every leaf whose box has a common point with the query box (contact / intersection-test / `intersect_aabb` never lose
  a touching part); `loosened_touch{2,3}`: a part within `prediction` (per axis) of the other shape passes the loosened test;
* `laneContainsPoint{2,3}_iff`, `_mono`;
* `distPoint{2,3}_lower_bound`, `distPoint{2,3}_antitone`: the weight of the point-projection visitor is a lower bound of
  the distance to anything inside the lane box and can only shrink when the box grows;
* `laneCastRay{2,3}_lower_bound`: if the ray is inside the lane box at some time `0 ≤ t ≤ max_toi`, the lane of
  `SimdAabb::cast_local_ray` reports a hit with `tmin ≤ t` (ray visitors; on the Minkowski-sum box: shape-cast visitor);
* `LB_of_nested`: nestedness + an antitone lane weight + a per-leaf lower bound give the hypothesis `LB` of
  `bestFirst_optimal`.
-/
namespace C07
open Model Model.C07 Model.Bvh Model.Bvh.Tree
set_option linter.unusedSectionVars false

section lanes
variable {K : Type} [Field K] [LinearOrder K] [IsStrictOrderedRing K] (sq : K → K)

/-- closed membership of a point in a 2-D box -/
def InBox2 (b : Aabb2 K) (p : V2 K) : Prop :=
  (b.mins.x ≤ p.x ∧ p.x ≤ b.maxs.x) ∧ (b.mins.y ≤ p.y ∧ p.y ≤ b.maxs.y)
/-- `Sub2 A a`: the box `A` contains the box `a` -/
def Sub2 (A a : Aabb2 K) : Prop := (A.mins.x ≤ a.mins.x ∧ a.maxs.x ≤ A.maxs.x) ∧ (A.mins.y ≤ a.mins.y ∧ a.maxs.y ≤ A.maxs.y)
/-- `Sub3 A a`: the box `A` contains the box `a` -/
def Sub3 (A a : Aabb3 K) : Prop :=
  (A.mins.x ≤ a.mins.x ∧ a.maxs.x ≤ A.maxs.x) ∧ (A.mins.y ≤ a.mins.y ∧ a.maxs.y ≤ A.maxs.y) ∧ (A.mins.z ≤ a.mins.z ∧ a.maxs.z ≤ A.maxs.z)
def Valid2 (a : Aabb2 K) : Prop := a.mins.x ≤ a.maxs.x ∧ a.mins.y ≤ a.maxs.y
def Valid3 (a : Aabb3 K) : Prop := a.mins.x ≤ a.maxs.x ∧ a.mins.y ≤ a.maxs.y ∧ a.mins.z ≤ a.maxs.z

theorem laneIntersects2_iff (a b : Aabb2 K) :
    letI := fieldNum K sq
    laneIntersects2 a b = true ↔
      (a.mins.x ≤ b.maxs.x ∧ b.mins.x ≤ a.maxs.x) ∧ (a.mins.y ≤ b.maxs.y ∧ b.mins.y ≤ a.maxs.y) := by
  simp only [laneIntersects2, Bool.and_eq_true, decide_eq_true_eq]
  tauto

theorem laneIntersects3_iff (a b : Aabb3 K) :
    letI := fieldNum K sq
    laneIntersects3 a b = true ↔
      (a.mins.x ≤ b.maxs.x ∧ b.mins.x ≤ a.maxs.x) ∧ (a.mins.y ≤ b.maxs.y ∧ b.mins.y ≤ a.maxs.y) ∧
      (a.mins.z ≤ b.maxs.z ∧ b.mins.z ≤ a.maxs.z) := by
  simp only [laneIntersects3, Bool.and_eq_true, decide_eq_true_eq]
  tauto

/-- **touching counts**: two closed boxes with a common point (possibly a single boundary point) pass the lane test -/
theorem laneIntersects2_of_common_point (a b : Aabb2 K) (p : V2 K) (ha : InBox2 a p) (hb : InBox2 b p) :
    letI := fieldNum K sq
    laneIntersects2 a b = true := by
  rw [laneIntersects2_iff]
  obtain ⟨⟨a1, a2⟩, a3, a4⟩ := ha; obtain ⟨⟨b1, b2⟩, b3, b4⟩ := hb
  exact ⟨⟨le_trans a1 b2, le_trans b1 a2⟩, le_trans a3 b4, le_trans b3 a4⟩

theorem laneIntersects3_of_common_point (a b : Aabb3 K) (p : V3 K) (ha : InBox a p) (hb : InBox b p) :
    letI := fieldNum K sq
    laneIntersects3 a b = true := by
  rw [laneIntersects3_iff]
  obtain ⟨⟨a1, a2⟩, ⟨a3, a4⟩, a5, a6⟩ := ha; obtain ⟨⟨b1, b2⟩, ⟨b3, b4⟩, b5, b6⟩ := hb
  exact ⟨⟨le_trans a1 b2, le_trans b1 a2⟩, ⟨le_trans a3 b4, le_trans b3 a4⟩, le_trans a5 b6, le_trans b5 a6⟩

/-- the lane test is exact: it passes only if the (valid) boxes really have a common point -/
theorem laneIntersects2_common_point (a b : Aabb2 K) (va : Valid2 a) (vb : Valid2 b) :
    letI := fieldNum K sq
    laneIntersects2 a b = true → ∃ p : V2 K, InBox2 a p ∧ InBox2 b p := by
  intro h
  rw [laneIntersects2_iff] at h
  obtain ⟨⟨h1, h2⟩, h3, h4⟩ := h
  refine ⟨⟨max a.mins.x b.mins.x, max a.mins.y b.mins.y⟩, ⟨⟨le_max_left _ _, max_le va.1 h2⟩, le_max_left _ _, max_le va.2 h4⟩,
    ⟨le_max_right _ _, max_le h1 vb.1⟩, le_max_right _ _, max_le h3 vb.2⟩

theorem laneIntersects3_common_point (a b : Aabb3 K) (va : Valid3 a) (vb : Valid3 b) :
    letI := fieldNum K sq
    laneIntersects3 a b = true → ∃ p : V3 K, InBox a p ∧ InBox b p := by
  intro h
  rw [laneIntersects3_iff] at h
  obtain ⟨⟨h1, h2⟩, ⟨h3, h4⟩, h5, h6⟩ := h
  refine ⟨⟨max a.mins.x b.mins.x, max a.mins.y b.mins.y, max a.mins.z b.mins.z⟩,
    ⟨⟨le_max_left _ _, max_le va.1 h2⟩, ⟨le_max_left _ _, max_le va.2.1 h4⟩, le_max_left _ _, max_le va.2.2 h6⟩,
    ⟨le_max_right _ _, max_le h1 vb.1⟩, ⟨le_max_right _ _, max_le h3 vb.2.1⟩, le_max_right _ _, max_le h5 vb.2.2⟩

/-- monotone for containment in the first argument (the node box is `self`: enumeration, contact) and in the second
(the node box is `other`: intersection-test visitor) -/
theorem laneIntersects2_mono (A a q : Aabb2 K) (hs : Sub2 A a) :
    letI := fieldNum K sq
    (laneIntersects2 a q = true → laneIntersects2 A q = true) ∧ (laneIntersects2 q a = true → laneIntersects2 q A = true) := by
  simp only [laneIntersects2_iff]
  obtain ⟨⟨s1, s2⟩, s3, s4⟩ := hs
  constructor
  · rintro ⟨⟨h1, h2⟩, h3, h4⟩; exact ⟨⟨le_trans s1 h1, le_trans h2 s2⟩, le_trans s3 h3, le_trans h4 s4⟩
  · rintro ⟨⟨h1, h2⟩, h3, h4⟩; exact ⟨⟨le_trans h1 s2, le_trans s1 h2⟩, le_trans h3 s4, le_trans s3 h4⟩

theorem laneIntersects3_mono (A a q : Aabb3 K) (hs : Sub3 A a) :
    letI := fieldNum K sq
    (laneIntersects3 a q = true → laneIntersects3 A q = true) ∧ (laneIntersects3 q a = true → laneIntersects3 q A = true) := by
  simp only [laneIntersects3_iff]
  obtain ⟨⟨s1, s2⟩, ⟨s3, s4⟩, s5, s6⟩ := hs
  constructor
  · rintro ⟨⟨h1, h2⟩, ⟨h3, h4⟩, h5, h6⟩
    exact ⟨⟨le_trans s1 h1, le_trans h2 s2⟩, ⟨le_trans s3 h3, le_trans h4 s4⟩, le_trans s5 h5, le_trans h6 s6⟩
  · rintro ⟨⟨h1, h2⟩, ⟨h3, h4⟩, h5, h6⟩
    exact ⟨⟨le_trans h1 s2, le_trans s1 h2⟩, ⟨le_trans h3 s4, le_trans s3 h4⟩, le_trans h5 s6, le_trans s5 h6⟩

/-- **no touching part is pruned (2-D)**: on every tree whose lane boxes contain the boxes below them, the depth-first
traversal with the lane test of `SimdAabb::intersects` against the query box `q` (in either role) reports every leaf
whose own box has a common point with `q` – including boxes that touch `q` in a single boundary point. -/
theorem touching_leaf_reported2 {L : Type} (q : Aabb2 K) (t : Tree (Aabb2 K) L) (hn : Nested Sub2 t)
    (b : Aabb2 K) (d : L) (hmem : (b, d) ∈ leaves t) (p : V2 K) (hb : InBox2 b p) (hq : InBox2 q p) :
    letI := fieldNum K sq
    d ∈ dfs (fun B => laneIntersects2 B q) t ∧ d ∈ dfs (fun B => laneIntersects2 q B) t := by
  letI := fieldNum K sq
  constructor
  · exact dfs_complete Sub2 (fun B => laneIntersects2 B q) (fun A a hs h => (laneIntersects2_mono sq A a q hs).1 h)
      t hn b d hmem (laneIntersects2_of_common_point sq b q p hb hq)
  · exact dfs_complete Sub2 (fun B => laneIntersects2 q B) (fun A a hs h => (laneIntersects2_mono sq A a q hs).2 h)
      t hn b d hmem (laneIntersects2_of_common_point sq q b p hq hb)

/-- **no touching part is pruned (3-D)** -/
theorem touching_leaf_reported3 {L : Type} (q : Aabb3 K) (t : Tree (Aabb3 K) L) (hn : Nested Sub3 t)
    (b : Aabb3 K) (d : L) (hmem : (b, d) ∈ leaves t) (p : V3 K) (hb : InBox b p) (hq : InBox q p) :
    letI := fieldNum K sq
    d ∈ dfs (fun B => laneIntersects3 B q) t ∧ d ∈ dfs (fun B => laneIntersects3 q B) t := by
  letI := fieldNum K sq
  constructor
  · exact dfs_complete Sub3 (fun B => laneIntersects3 B q) (fun A a hs h => (laneIntersects3_mono sq A a q hs).1 h)
      t hn b d hmem (laneIntersects3_of_common_point sq b q p hb hq)
  · exact dfs_complete Sub3 (fun B => laneIntersects3 q B) (fun A a hs h => (laneIntersects3_mono sq A a q hs).2 h)
      t hn b d hmem (laneIntersects3_of_common_point sq q b p hq hb)

/-- the slipped comparison (`other.mins.y < self.maxs.y`) rejects boxes that touch along `y`: node box `[0,1]²`, query box
`[0,1] × [1,2]` share the edge `y = 1`; the closed test passes, the strict one does not -/
example : (letI := fieldNum ℚ id; laneIntersects2 (K := ℚ) ⟨⟨0, 0⟩, ⟨1, 1⟩⟩ ⟨⟨0, 1⟩, ⟨1, 2⟩⟩) = true ∧
    ¬ ((1 : ℚ) < 1) := by
  refine ⟨?_, lt_irrefl _⟩
  rw [laneIntersects2_iff]; norm_num

/-- `Aabb::loosened(m)` (2-D): `mins - m`, `maxs + m` -/
def loosened2 (a : Aabb2 K) (m : K) : Aabb2 K := ⟨⟨a.mins.x - m, a.mins.y - m⟩, ⟨a.maxs.x + m, a.maxs.y + m⟩⟩
def loosened3 (a : Aabb3 K) (m : K) : Aabb3 K :=
  ⟨⟨a.mins.x - m, a.mins.y - m, a.mins.z - m⟩, ⟨a.maxs.x + m, a.maxs.y + m, a.maxs.z + m⟩⟩

/-- **contact with prediction**: if a point of the part (in the lane box `a`) and a point of the other shape (in its box `x`)
are within `m` of each other along every axis – in particular if their distance is `≤ m`, e.g. exactly `m = 0` for
touching shapes – the lane passes the test against the loosened box built by `contact_composite_shape_shape`. -/
theorem loosened_touch2 (a x : Aabb2 K) (m : K) (p1 p2 : V2 K) (h1 : InBox2 a p1) (h2 : InBox2 x p2)
    (dx : |p1.x - p2.x| ≤ m) (dy : |p1.y - p2.y| ≤ m) :
    letI := fieldNum K sq
    laneIntersects2 a (loosened2 x m) = true := by
  rw [laneIntersects2_iff]
  obtain ⟨⟨a1, a2⟩, a3, a4⟩ := h1; obtain ⟨⟨b1, b2⟩, b3, b4⟩ := h2
  rw [abs_le] at dx dy
  simp only [loosened2]
  refine ⟨⟨?_, ?_⟩, ?_, ?_⟩ <;> linarith [dx.1, dx.2, dy.1, dy.2]

theorem loosened_touch3 (a x : Aabb3 K) (m : K) (p1 p2 : V3 K) (h1 : InBox a p1) (h2 : InBox x p2)
    (dx : |p1.x - p2.x| ≤ m) (dy : |p1.y - p2.y| ≤ m) (dz : |p1.z - p2.z| ≤ m) :
    letI := fieldNum K sq
    laneIntersects3 a (loosened3 x m) = true := by
  rw [laneIntersects3_iff]
  obtain ⟨⟨a1, a2⟩, ⟨a3, a4⟩, a5, a6⟩ := h1; obtain ⟨⟨b1, b2⟩, ⟨b3, b4⟩, b5, b6⟩ := h2
  rw [abs_le] at dx dy dz
  simp only [loosened3]
  refine ⟨⟨?_, ?_⟩, ⟨?_, ?_⟩, ?_, ?_⟩ <;> linarith [dx.1, dx.2, dy.1, dy.2, dz.1, dz.2]

/-- non-vacuity: a ball of radius 1/2 resting on the top edge of the unit square (`prediction = 0`) -/
example : InBox2 (K := ℚ) ⟨⟨0, 0⟩, ⟨1, 1⟩⟩ ⟨1/2, 1⟩ ∧ InBox2 (K := ℚ) ⟨⟨0, 1⟩, ⟨1, 2⟩⟩ ⟨1/2, 1⟩ ∧ |(1/2 : ℚ) - 1/2| ≤ 0 := by
  refine ⟨⟨⟨?_, ?_⟩, ?_, ?_⟩, ⟨⟨?_, ?_⟩, ?_, ?_⟩, ?_⟩ <;> norm_num

/-! ### point containment -/

theorem laneContainsPoint2_iff (a : Aabb2 K) (p : V2 K) :
    letI := fieldNum K sq
    laneContainsPoint2 a p = true ↔ InBox2 a p := by
  simp only [laneContainsPoint2, Bool.and_eq_true, decide_eq_true_eq, InBox2]
  tauto

theorem laneContainsPoint3_iff (a : Aabb3 K) (p : V3 K) :
    letI := fieldNum K sq
    laneContainsPoint3 a p = true ↔ InBox a p := by
  simp only [laneContainsPoint3, Bool.and_eq_true, decide_eq_true_eq, InBox]
  tauto

theorem laneContainsPoint2_mono (A a : Aabb2 K) (p : V2 K) (hs : Sub2 A a) :
    letI := fieldNum K sq
    laneContainsPoint2 a p = true → laneContainsPoint2 A p = true := by
  simp only [laneContainsPoint2_iff]
  obtain ⟨⟨s1, s2⟩, s3, s4⟩ := hs
  rintro ⟨⟨h1, h2⟩, h3, h4⟩
  exact ⟨⟨le_trans s1 h1, le_trans h2 s2⟩, le_trans s3 h3, le_trans h4 s4⟩

theorem laneContainsPoint3_mono (A a : Aabb3 K) (p : V3 K) (hs : Sub3 A a) :
    letI := fieldNum K sq
    laneContainsPoint3 a p = true → laneContainsPoint3 A p = true := by
  simp only [laneContainsPoint3_iff]
  obtain ⟨⟨s1, s2⟩, ⟨s3, s4⟩, s5, s6⟩ := hs
  rintro ⟨⟨h1, h2⟩, ⟨h3, h4⟩, h5, h6⟩
  exact ⟨⟨le_trans s1 h1, le_trans h2 s2⟩, ⟨le_trans s3 h3, le_trans h4 s4⟩, le_trans s5 h5, le_trans h6 s6⟩

end lanes

/-! ## nestedness gives the lower-bound hypothesis of `bestFirst_optimal` -/
section lb
variable {B L C : Type} [LinearOrder C]

mutual
private theorem box_le_leaf (contains : B → B → Prop) (boxCost : B → C) (leafCost : B → L → C)
    (hanti : ∀ A a : B, contains A a → boxCost A ≤ boxCost a) (hleaf : ∀ (b : B) (d : L), boxCost b ≤ leafCost b d) :
    ∀ (t : Tree B L), Nested contains t → ∀ p ∈ leaves t, boxCost t.box ≤ leafCost p.1 p.2
  | .leaf b d, _, p, hp => by
    simp only [leaves, List.mem_singleton] at hp
    subst hp; exact hleaf b d
  | .node b cs, hn, p, hp => by
    simp only [leaves] at hp
    exact box_le_leaf_list contains boxCost leafCost hanti hleaf b cs hn p hp
private theorem box_le_leaf_list (contains : B → B → Prop) (boxCost : B → C) (leafCost : B → L → C)
    (hanti : ∀ A a : B, contains A a → boxCost A ≤ boxCost a) (hleaf : ∀ (b : B) (d : L), boxCost b ≤ leafCost b d) (b' : B) :
    ∀ (cs : List (Tree B L)), NestedList contains b' cs → ∀ p ∈ leavesList cs, boxCost b' ≤ leafCost p.1 p.2
  | [], _, p, hp => by simp [leavesList] at hp
  | t :: ts, hn, p, hp => by
    simp only [leavesList, List.mem_append] at hp
    obtain ⟨hc, hnt, hnts⟩ := hn
    rcases hp with h | h
    · exact le_trans (hanti _ _ hc) (box_le_leaf contains boxCost leafCost hanti hleaf t hnt p h)
    · exact box_le_leaf_list contains boxCost leafCost hanti hleaf b' ts hnts p h
end

mutual
/-- **`LB_of_nested`**: if the lane weight can only shrink when the box grows (`hanti`) and is a lower bound of the cost of a
leaf stored under that very box (`hleaf`), then on every nested tree every lane weight is a lower bound of all leaf costs
below it – the hypothesis of `bestFirst_optimal`. -/
theorem LB_of_nested (contains : B → B → Prop) (boxCost : B → C) (leafCost : B → L → C)
    (hanti : ∀ A a : B, contains A a → boxCost A ≤ boxCost a) (hleaf : ∀ (b : B) (d : L), boxCost b ≤ leafCost b d) :
    ∀ (t : Tree B L), Nested contains t → LB boxCost leafCost t
  | .leaf b d, _ => by simp only [LB]; exact hleaf b d
  | .node b cs, hn => by
    simp only [LB]
    exact ⟨fun p hp => box_le_leaf_list contains boxCost leafCost hanti hleaf b cs hn p hp,
      LB_of_nested_list contains boxCost leafCost hanti hleaf b cs hn⟩
theorem LB_of_nested_list (contains : B → B → Prop) (boxCost : B → C) (leafCost : B → L → C)
    (hanti : ∀ A a : B, contains A a → boxCost A ≤ boxCost a) (hleaf : ∀ (b : B) (d : L), boxCost b ≤ leafCost b d) (b' : B) :
    ∀ (cs : List (Tree B L)), NestedList contains b' cs → LBList boxCost leafCost cs
  | [], _ => by simp only [LBList]
  | t :: ts, hn => by
    obtain ⟨_, hnt, hnts⟩ := hn
    simp only [LBList]
    exact ⟨LB_of_nested contains boxCost leafCost hanti hleaf t hnt, LB_of_nested_list contains boxCost leafCost hanti hleaf b' ts hnts⟩
end

/-- **best-first search on a nested tree is optimal** (corollary: `LB_of_nested` + `bestFirst_optimal`) -/
theorem bestFirst_optimal_of_nested (contains : B → B → Prop) (boxCost : B → C) (leafCost : B → L → C)
    (hanti : ∀ A a : B, contains A a → boxCost A ≤ boxCost a) (hleaf : ∀ (b : B) (d : L), boxCost b ≤ leafCost b d)
    (t : Tree B L) (hn : Nested contains t) :
    ∃ res : Option (C × L), bestFirst ltb boxCost leafCost t = some res ∧
      (∀ (c : C) (d : L), res = some (c, d) → (∃ b : B, (b, d) ∈ leaves t ∧ leafCost b d = c) ∧
          ∀ p ∈ leaves t, c ≤ leafCost p.1 p.2) ∧
      (res = none → leaves t = []) :=
  bestFirst_optimal boxCost leafCost t (LB_of_nested contains boxCost leafCost hanti hleaf t hn)

end lb


/-! ## lower bounds of the best-first lane weights -/
section weights
variable {K : Type} [Field K] [LinearOrder K] [IsStrictOrderedRing K] (sq : K → K)

/-- the vector whose norm is `SimdAabb::distance_to_local_point` -/
def pointShift2 (b : Aabb2 K) (p : V2 K) : V2 K :=
  letI := fieldNum K sq
  ((b.mins.sub p).sup (p.sub b.maxs)).sup V2.zero
def pointShift3 (b : Aabb3 K) (p : V3 K) : V3 K :=
  letI := fieldNum K sq
  ((b.mins.sub p).sup (p.sub b.maxs)).sup V3.zero

private theorem axis_point_lb (lo hi p x : K) (h1 : lo ≤ x) (h2 : x ≤ hi) :
    max (max (lo - p) (p - hi)) 0 * max (max (lo - p) (p - hi)) 0 ≤ (p - x) * (p - x) := by
  have h := axis_lower_bound (lo - p) (hi - p) (x - p) (by linarith) (by linarith)
  have e : -(hi - p) = p - hi := by ring
  rw [e] at h
  nlinarith [h]

private theorem axis_point_anti (Lo Hi lo hi p : K) (h1 : Lo ≤ lo) (h2 : hi ≤ Hi) :
    max (max (Lo - p) (p - Hi)) 0 * max (max (Lo - p) (p - Hi)) 0 ≤ max (max (lo - p) (p - hi)) 0 * max (max (lo - p) (p - hi)) 0 := by
  have hle : max (max (Lo - p) (p - Hi)) 0 ≤ max (max (lo - p) (p - hi)) 0 :=
    max_le_max (max_le_max (by linarith) (by linarith)) le_rfl
  exact mul_self_le_mul_self (le_max_right _ _) hle

/-- **point visitor, lower bound (squared)**: the lane weight `distance_to_local_point(p)` is at most the distance from `p`
to any point `x` of the lane box – hence to any point of a part stored below the lane -/
theorem distPoint2_lower_bound_sq (b : Aabb2 K) (p x : V2 K) (hx : InBox2 b x) :
    letI := fieldNum K sq
    (pointShift2 sq b p).normSq ≤ (p.sub x).normSq := by
  obtain ⟨⟨a1, a2⟩, a3, a4⟩ := hx
  simp only [pointShift2, V2.normSq, V2.dot, V2.sup, V2.sub, V2.zero, fieldNum_nmax]
  have h1 := axis_point_lb b.mins.x b.maxs.x p.x x.x a1 a2
  have h2 := axis_point_lb b.mins.y b.maxs.y p.y x.y a3 a4
  linarith

theorem distPoint3_lower_bound_sq (b : Aabb3 K) (p x : V3 K) (hx : InBox b x) :
    letI := fieldNum K sq
    (pointShift3 sq b p).normSq ≤ (p.sub x).normSq := by
  obtain ⟨⟨a1, a2⟩, ⟨a3, a4⟩, a5, a6⟩ := hx
  simp only [pointShift3, V3.normSq, V3.dot, V3.sup, V3.sub, V3.zero, fieldNum_nmax]
  have h1 := axis_point_lb b.mins.x b.maxs.x p.x x.x a1 a2
  have h2 := axis_point_lb b.mins.y b.maxs.y p.y x.y a3 a4
  have h3 := axis_point_lb b.mins.z b.maxs.z p.z x.z a5 a6
  linarith

/-- **point visitor, antitone**: a larger box is never farther from `p` -/
theorem distPoint2_antitone_sq (A a : Aabb2 K) (p : V2 K) (hs : Sub2 A a) :
    letI := fieldNum K sq
    (pointShift2 sq A p).normSq ≤ (pointShift2 sq a p).normSq := by
  obtain ⟨⟨s1, s2⟩, s3, s4⟩ := hs
  simp only [pointShift2, V2.normSq, V2.dot, V2.sup, V2.sub, V2.zero, fieldNum_nmax]
  have h1 := axis_point_anti A.mins.x A.maxs.x a.mins.x a.maxs.x p.x s1 s2
  have h2 := axis_point_anti A.mins.y A.maxs.y a.mins.y a.maxs.y p.y s3 s4
  linarith

theorem distPoint3_antitone_sq (A a : Aabb3 K) (p : V3 K) (hs : Sub3 A a) :
    letI := fieldNum K sq
    (pointShift3 sq A p).normSq ≤ (pointShift3 sq a p).normSq := by
  obtain ⟨⟨s1, s2⟩, ⟨s3, s4⟩, s5, s6⟩ := hs
  simp only [pointShift3, V3.normSq, V3.dot, V3.sup, V3.sub, V3.zero, fieldNum_nmax]
  have h1 := axis_point_anti A.mins.x A.maxs.x a.mins.x a.maxs.x p.x s1 s2
  have h2 := axis_point_anti A.mins.y A.maxs.y a.mins.y a.maxs.y p.y s3 s4
  have h3 := axis_point_anti A.mins.z A.maxs.z a.mins.z a.maxs.z p.z s5 s6
  linarith

/-- a lawful square root is monotone on non-negative arguments -/
private theorem sqrt_mono (hs : LawfulSqrt sq) (a b : K) (ha : 0 ≤ a) (hab : a ≤ b) : sq a ≤ sq b := by
  have hb : 0 ≤ b := le_trans ha hab
  have h1 := hs.nonneg a ha
  have h2 := hs.nonneg b hb
  have e1 := hs.sq_mul a ha
  have e2 := hs.sq_mul b hb
  by_contra hc
  push Not at hc
  nlinarith

/-- the same with the square roots the code takes: `distance_to_local_point(p) ≤ |p - x|` (3-D) -/
theorem distPoint3_lower_bound (hs : LawfulSqrt sq) (b : Aabb3 K) (p x : V3 K) (hx : InBox b x) :
    letI := fieldNum K sq
    laneDistPoint3 b p ≤ (p.sub x).norm := by
  letI := fieldNum K sq
  have h := distPoint3_lower_bound_sq sq b p x hx
  have h0 : 0 ≤ (pointShift3 sq b p).normSq := by
    simp only [V3.normSq, V3.dot]
    nlinarith [mul_self_nonneg (pointShift3 sq b p).x, mul_self_nonneg (pointShift3 sq b p).y, mul_self_nonneg (pointShift3 sq b p).z]
  exact sqrt_mono sq hs _ _ h0 h

theorem distPoint2_lower_bound (hs : LawfulSqrt sq) (b : Aabb2 K) (p x : V2 K) (hx : InBox2 b x) :
    letI := fieldNum K sq
    laneDistPoint2 b p ≤ (p.sub x).norm := by
  letI := fieldNum K sq
  have h := distPoint2_lower_bound_sq sq b p x hx
  have h0 : 0 ≤ (pointShift2 sq b p).normSq := by
    simp only [V2.normSq, V2.dot]
    nlinarith [mul_self_nonneg (pointShift2 sq b p).x, mul_self_nonneg (pointShift2 sq b p).y]
  exact sqrt_mono sq hs _ _ h0 h

/-- the lane weight of the point visitor can only shrink when the box grows (with square roots, 3-D) -/
theorem distPoint3_antitone (hs : LawfulSqrt sq) (A a : Aabb3 K) (p : V3 K) (hsub : Sub3 A a) :
    letI := fieldNum K sq
    laneDistPoint3 A p ≤ laneDistPoint3 a p := by
  letI := fieldNum K sq
  have h := distPoint3_antitone_sq sq A a p hsub
  have h0 : 0 ≤ (pointShift3 sq A p).normSq := by
    simp only [V3.normSq, V3.dot]
    nlinarith [mul_self_nonneg (pointShift3 sq A p).x, mul_self_nonneg (pointShift3 sq A p).y, mul_self_nonneg (pointShift3 sq A p).z]
  exact sqrt_mono sq hs _ _ h0 h

/-! ### rays -/

/-- the ray point `o + t·d` (field form of `Ray::point_at`) -/
def rayPoint3 (o d : V3 K) (t : K) : V3 K := ⟨o.x + t * d.x, o.y + t * d.y, o.z + t * d.z⟩
def rayPoint2 (o d : V2 K) (t : K) : V2 K := ⟨o.x + t * d.x, o.y + t * d.y⟩

/-- one axis of `SimdAabb::cast_local_ray`: if the ray point at time `t` lies in the slab and the running state has
`hit` and `tmin ≤ t ≤ tmax`, the same holds after the axis (`big = Real::MAX ≥ t`) -/
theorem raySlab_keeps (big mn mx o d t : K) (st : Bool × K × K) (ht0 : 0 ≤ t) (htb : t ≤ big)
    (hin : mn ≤ o + t * d ∧ o + t * d ≤ mx) (hst : st.1 = true ∧ st.2.1 ≤ t ∧ t ≤ st.2.2) :
    letI := fieldNum K sq
    (raySlab big mn mx o d st).1 = true ∧ (raySlab big mn mx o d st).2.1 ≤ t ∧ t ≤ (raySlab big mn mx o d st).2.2 := by
  obtain ⟨h, tmin, tmax⟩ := st
  obtain ⟨hh, h1, h2⟩ := hst
  simp only at hh h1 h2
  subst hh
  obtain ⟨i1, i2⟩ := hin
  simp only [raySlab, neq, fieldNum_nmax, fieldNum_nmin, Bool.true_and]
  rcases lt_trichotomy d 0 with hd | hd | hd
  · -- d < 0: the far plane is crossed first
    have hz : (decide (d ≤ 0) && decide (0 ≤ d)) = false := by simp [not_le.mpr hd]
    have hN : t ≤ (mn - o) * (1 / d) := by rw [mul_one_div, le_div_iff_of_neg hd]; linarith
    have hF : (mx - o) * (1 / d) ≤ t := by rw [mul_one_div, div_le_iff_of_neg hd]; linarith
    simp only [hz, Bool.not_false, if_true]
    generalize (mn - o) * (1 / d) = N at hN ⊢
    generalize (mx - o) * (1 / d) = F at hF ⊢
    have hn : (if F < N then F else N) ≤ t := by split_ifs with hc <;> linarith
    have hf : t ≤ (if F < N then N else F) := by split_ifs with hc <;> linarith
    simp only [decide_eq_true_eq]
    exact ⟨le_trans (max_le h1 hn) (le_min h2 hf), max_le h1 hn, le_min h2 hf⟩
  · -- d = 0: the origin must be in the slab; `tmin`, `tmax` meet `∓big`
    subst hd
    have hz : (decide ((0 : K) ≤ 0) && decide ((0 : K) ≤ 0)) = true := by simp
    simp only [hz, Bool.not_true, Bool.false_eq_true, if_false]
    have hb0 : 0 ≤ big := le_trans ht0 htb
    have hn : (if decide (big < -big) = true then big else -big) ≤ t := by split_ifs with hc <;> simp only [decide_eq_true_eq] at hc <;> linarith
    have hf : t ≤ (if decide (big < -big) = true then -big else big) := by split_ifs with hc <;> simp only [decide_eq_true_eq] at hc <;> linarith
    refine ⟨?_, max_le h1 hn, le_min h2 hf⟩
    simp only [Bool.and_eq_true, decide_eq_true_eq]
    constructor <;> linarith
  · -- d > 0
    have hz : (decide (d ≤ 0) && decide (0 ≤ d)) = false := by simp [not_le.mpr hd]
    have hN : (mn - o) * (1 / d) ≤ t := by rw [mul_one_div, div_le_iff₀ hd]; linarith
    have hF : t ≤ (mx - o) * (1 / d) := by rw [mul_one_div, le_div_iff₀ hd]; linarith
    simp only [hz, Bool.not_false, if_true]
    generalize (mn - o) * (1 / d) = N at hN ⊢
    generalize (mx - o) * (1 / d) = F at hF ⊢
    have hn : (if F < N then F else N) ≤ t := by split_ifs with hc <;> linarith
    have hf : t ≤ (if F < N then N else F) := by split_ifs with hc <;> linarith
    simp only [decide_eq_true_eq]
    exact ⟨le_trans (max_le h1 hn) (le_min h2 hf), max_le h1 hn, le_min h2 hf⟩

/-- **ray visitors, lower bound (3-D)**: if the ray `o + t·d` is inside the lane box at some time `0 ≤ t ≤ max_toi`, the lane
of `SimdAabb::cast_local_ray` reports a hit and its weight `tmin` is at most `t`.  Every part below the lane lies in the
lane box, so the lane is not masked out and its weight is a lower bound of the part's time of impact.  (Applied to the
Minkowski-sum box `msumBox` this is the pruning bound of the linear shape-cast visitor.) -/
theorem laneCastRay3_lower_bound (big : K) (b : Aabb3 K) (o d : V3 K) (maxToi t : K) (ht0 : 0 ≤ t) (htm : t ≤ maxToi)
    (hbig : maxToi ≤ big) (hin : InBox b (rayPoint3 o d t)) :
    letI := fieldNum K sq
    (laneCastRay3 big b o d maxToi).1 = true ∧ (laneCastRay3 big b o d maxToi).2 ≤ t := by
  letI := fieldNum K sq
  obtain ⟨hx, hy, hz⟩ := hin
  simp only [rayPoint3] at hx hy hz
  have htb : t ≤ big := le_trans htm hbig
  have s0 := raySlab_keeps sq big b.mins.x b.maxs.x o.x d.x t (true, 0, maxToi) ht0 htb
    hx ⟨rfl, ht0, htm⟩
  have s1 := raySlab_keeps sq big b.mins.y b.maxs.y o.y d.y t _ ht0 htb
    hy s0
  have s2 := raySlab_keeps sq big b.mins.z b.maxs.z o.z d.z t _ ht0 htb
    hz s1
  exact ⟨s2.1, s2.2.1⟩

/-- **ray visitors, lower bound (2-D)** -/
theorem laneCastRay2_lower_bound (big : K) (b : Aabb2 K) (o d : V2 K) (maxToi t : K) (ht0 : 0 ≤ t) (htm : t ≤ maxToi)
    (hbig : maxToi ≤ big) (hin : InBox2 b (rayPoint2 o d t)) :
    letI := fieldNum K sq
    (laneCastRay2 big b o d maxToi).1 = true ∧ (laneCastRay2 big b o d maxToi).2 ≤ t := by
  letI := fieldNum K sq
  obtain ⟨hx, hy⟩ := hin
  simp only [rayPoint2] at hx hy
  have htb : t ≤ big := le_trans htm hbig
  have s0 := raySlab_keeps sq big b.mins.x b.maxs.x o.x d.x t (true, 0, maxToi) ht0 htb
    hx ⟨rfl, ht0, htm⟩
  have s1 := raySlab_keeps sq big b.mins.y b.maxs.y o.y d.y t _ ht0 htb
    hy s0
  exact ⟨s1.1, s1.2.1⟩

/-- non-vacuity: the ray from `(3, 1)` along `-x` slides along the top edge `y = 1` of the unit square and reaches it at
`t = 2`, which is exactly `max_toi` -/
example : InBox2 (K := ℚ) ⟨⟨0, 0⟩, ⟨1, 1⟩⟩ (rayPoint2 ⟨3, 1⟩ ⟨-1, 0⟩ 2) ∧ (0 : ℚ) ≤ 2 ∧ (2 : ℚ) ≤ 2 := by
  refine ⟨⟨⟨?_, ?_⟩, ?_, ?_⟩, ?_, ?_⟩ <;> norm_num [rayPoint2]

end weights

end C07
