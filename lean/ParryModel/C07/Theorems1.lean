import ParryModel.Field
import ParryModel.C07.Model
import ParryModel.C07.Link
/-!
# C07 traversal theorems: pruning never loses an answer — for every tree shape and size

`dfs_complete` / `dfs_sound`: with a visitor predicate that is monotone for box containment on a tree whose lane boxes
contain the boxes below them, the depth-first traversal reports exactly the leaves whose own box satisfies the predicate.
`dfsLoop_perm`: the iterative work-list version reports the same leaves (as a multiset) as the recursive one.
`bestFirst_optimal`: if every lane weight is a lower bound of the leaf costs below it, best-first search with the
cut-off `-entry.cost >= best_cost` returns the minimum leaf cost.
-/
namespace C07
open Model.Bvh Model.Bvh.Tree
set_option linter.unusedSectionVars false

variable {B L : Type}

/-! ## trees whose boxes are nested -/

mutual
/-- every lane box `contains` the box of the subtree stored under it, recursively -/
def Nested (contains : B → B → Prop) : Tree B L → Prop
  | .leaf _ _ => True
  | .node b cs => NestedList contains b cs
def NestedList (contains : B → B → Prop) (b : B) : List (Tree B L) → Prop
  | [] => True
  | t :: ts => contains b t.box ∧ Nested contains t ∧ NestedList contains b ts
end

/-- the visitor's predicate is monotone: true on a box ⇒ true on every box containing it -/
def MonotonePred (contains : B → B → Prop) (pred : B → Bool) : Prop :=
  ∀ a b : B, contains a b → pred b = true → pred a = true

mutual
theorem pred_up (contains : B → B → Prop) (pred : B → Bool) (hm : MonotonePred contains pred) :
    ∀ (t : Tree B L), Nested contains t → ∀ (b : B) (d : L), (b, d) ∈ leaves t → pred b = true → pred t.box = true
  | .leaf b' d', _, b, d, hmem, hp => by
    simp only [leaves, List.mem_singleton, Prod.mk.injEq] at hmem
    rw [box, ← hmem.1]; exact hp
  | .node b' cs, hn, b, d, hmem, hp => by
    simp only [leaves] at hmem
    exact pred_up_list contains pred hm b' cs hn b d hmem hp
theorem pred_up_list (contains : B → B → Prop) (pred : B → Bool) (hm : MonotonePred contains pred) (b' : B) :
    ∀ (cs : List (Tree B L)), NestedList contains b' cs → ∀ (b : B) (d : L), (b, d) ∈ leavesList cs → pred b = true →
      pred b' = true
  | [], _, b, d, hmem, _ => by simp [leavesList] at hmem
  | t :: ts, hn, b, d, hmem, hp => by
    simp only [leavesList, List.mem_append] at hmem
    obtain ⟨hc, hnt, hnts⟩ := hn
    rcases hmem with h | h
    · exact hm _ _ hc (pred_up contains pred hm t hnt b d h hp)
    · exact pred_up_list contains pred hm b' ts hnts b d h hp
end

mutual
/-- **`dfs_complete`: every leaf whose box satisfies the predicate is reported**, for every nested tree and every
monotone predicate -/
theorem dfs_complete (contains : B → B → Prop) (pred : B → Bool) (hm : MonotonePred contains pred) :
    ∀ (t : Tree B L), Nested contains t → ∀ (b : B) (d : L), (b, d) ∈ leaves t → pred b = true → d ∈ dfs pred t
  | .leaf b' d', _, b, d, hmem, hp => by
    simp only [leaves, List.mem_singleton, Prod.mk.injEq] at hmem
    obtain ⟨rfl, rfl⟩ := hmem
    simp [dfs, hp]
  | .node b' cs, hn, b, d, hmem, hp => by
    have hroot : pred b' = true := pred_up contains pred hm (.node b' cs) hn b d hmem hp
    simp only [leaves] at hmem
    simp only [dfs, hroot, if_true]
    exact dfs_complete_list contains pred hm b' cs hn b d hmem hp
theorem dfs_complete_list (contains : B → B → Prop) (pred : B → Bool) (hm : MonotonePred contains pred) (b' : B) :
    ∀ (cs : List (Tree B L)), NestedList contains b' cs → ∀ (b : B) (d : L), (b, d) ∈ leavesList cs → pred b = true →
      d ∈ dfsList pred cs
  | [], _, b, d, hmem, _ => by simp [leavesList] at hmem
  | t :: ts, hn, b, d, hmem, hp => by
    simp only [leavesList, List.mem_append] at hmem
    simp only [dfsList, List.mem_append]
    obtain ⟨_, hnt, hnts⟩ := hn
    rcases hmem with h | h
    · exact Or.inl (dfs_complete contains pred hm t hnt b d h hp)
    · exact Or.inr (dfs_complete_list contains pred hm b' ts hnts b d h hp)
end

mutual
/-- **`dfs_sound`: only leaves whose own box satisfies the predicate are reported** (any tree, any predicate) -/
theorem dfs_sound (pred : B → Bool) :
    ∀ (t : Tree B L) (d : L), d ∈ dfs pred t → ∃ b : B, (b, d) ∈ leaves t ∧ pred b = true
  | .leaf b' d', d, h => by
    simp only [dfs] at h
    split at h
    · simp only [List.mem_singleton] at h; subst h; exact ⟨b', by simp [leaves], by assumption⟩
    · simp at h
  | .node b' cs, d, h => by
    simp only [dfs] at h
    split at h
    · obtain ⟨b, hb, hp⟩ := dfs_sound_list pred cs d h
      exact ⟨b, by simpa [leaves] using hb, hp⟩
    · simp at h
theorem dfs_sound_list (pred : B → Bool) :
    ∀ (cs : List (Tree B L)) (d : L), d ∈ dfsList pred cs → ∃ b : B, (b, d) ∈ leavesList cs ∧ pred b = true
  | [], d, h => by simp [dfsList] at h
  | t :: ts, d, h => by
    simp only [dfsList, List.mem_append] at h
    rcases h with h | h
    · obtain ⟨b, hb, hp⟩ := dfs_sound pred t d h
      exact ⟨b, by simp [leavesList, hb], hp⟩
    · obtain ⟨b, hb, hp⟩ := dfs_sound_list pred ts d h
      exact ⟨b, by simp [leavesList, hb], hp⟩
end

private theorem dfsList_append (pred : B → Bool) (xs ys : List (Tree B L)) :
    dfsList pred (xs ++ ys) = dfsList pred xs ++ dfsList pred ys := by
  induction xs with
  | nil => simp [dfsList]
  | cons t ts ih => simp [dfsList, ih]

private theorem dfsList_reverse_perm (pred : B → Bool) (xs : List (Tree B L)) :
    (dfsList pred xs.reverse).Perm (dfsList pred xs) := by
  induction xs with
  | nil => simp [dfsList]
  | cons t ts ih =>
    simp only [List.reverse_cons, dfsList_append, dfsList, List.append_nil]
    exact (List.perm_append_comm).trans (List.Perm.append_left _ ih)

private theorem sizeList_append (xs ys : List (Tree B L)) : sizeList (xs ++ ys) = sizeList xs + sizeList ys := by
  induction xs with
  | nil => simp [sizeList]
  | cons t ts ih => simp [sizeList, ih]; omega

private theorem sizeList_reverse (xs : List (Tree B L)) : sizeList xs.reverse = sizeList xs := by
  induction xs with
  | nil => simp
  | cons t ts ih => simp [sizeList_append, sizeList, ih]; omega

/-- **the iterative work-list traversal reports the same leaves as the recursive one** (as a multiset: the stack pops
the last lane first), and its own fuel (`sizeList stack`) suffices: it terminates on every tree -/
theorem dfsLoop_perm (pred : B → Bool) :
    ∀ (fuel : Nat) (stack : List (Tree B L)) (out : List L), sizeList stack ≤ fuel →
      ∃ r : List L, dfsLoop pred fuel stack out = some r ∧ r.Perm (out.reverse ++ dfsList pred stack) := by
  intro fuel
  induction fuel with
  | zero =>
    intro stack out h
    cases stack with
    | nil => exact ⟨_, rfl, by simp [dfsList]⟩
    | cons t ts => cases t <;> simp [sizeList, size] at h <;> omega
  | succ fuel ih =>
    intro stack out h
    cases stack with
    | nil => exact ⟨_, rfl, by simp [dfsList]⟩
    | cons t ts =>
      simp only [dfsLoop]
      cases t with
      | leaf b d =>
        simp only [sizeList, size] at h
        simp only [expand]
        split
        · rename_i hp
          obtain ⟨r, hr, hperm⟩ := ih ts (d :: out) (by omega)
          refine ⟨r, hr, hperm.trans ?_⟩
          simp [dfsList, dfs, hp]
        · rename_i hp
          obtain ⟨r, hr, hperm⟩ := ih ts out (by omega)
          refine ⟨r, hr, hperm.trans ?_⟩
          simp [dfsList, dfs, hp]
      | node b cs =>
        simp only [sizeList, size] at h
        simp only [expand]
        split
        · rename_i hp
          obtain ⟨r, hr, hperm⟩ := ih (cs.reverse ++ ts) out (by rw [sizeList_append, sizeList_reverse]; omega)
          refine ⟨r, hr, hperm.trans ?_⟩
          simp only [dfsList_append, dfsList, dfs, hp, if_true]
          exact List.Perm.append_left _ (List.Perm.append_right _ (dfsList_reverse_perm pred cs))
        · rename_i hp
          obtain ⟨r, hr, hperm⟩ := ih ts out (by omega)
          refine ⟨r, hr, hperm.trans ?_⟩
          simp [dfsList, dfs, hp]

section bestfirst
variable {C : Type} [LinearOrder C]

/-- the strict comparison used by the traversal -/
def ltb (a b : C) : Bool := decide (a < b)

mutual
/-- every lane weight is a lower bound of the costs of the leaves below the lane -/
def LB (boxCost : B → C) (leafCost : B → L → C) : Tree B L → Prop
  | .leaf b d => boxCost b ≤ leafCost b d
  | .node b cs => (∀ p ∈ leavesList cs, boxCost b ≤ leafCost p.1 p.2) ∧ LBList boxCost leafCost cs
def LBList (boxCost : B → C) (leafCost : B → L → C) : List (Tree B L) → Prop
  | [] => True
  | t :: ts => LB boxCost leafCost t ∧ LBList boxCost leafCost ts
end

private theorem LB_box (boxCost : B → C) (leafCost : B → L → C) (t : Tree B L) (h : LB boxCost leafCost t) :
    ∀ p ∈ leaves t, boxCost t.box ≤ leafCost p.1 p.2 := by
  cases t with
  | leaf b d => intro p hp; simp only [leaves, List.mem_singleton] at hp; subst hp; exact h
  | node b cs => intro p hp; simp only [leaves] at hp; exact h.1 p hp

private theorem popMin_none (q : List (C × Tree B L)) : popMin ltb q = none ↔ q = [] := by
  cases q with
  | nil => simp [popMin]
  | cons e es =>
    simp only [popMin]
    cases popMin ltb es with
    | none => simp
    | some r => obtain ⟨m, rest⟩ := r; simp only; split <;> simp

private theorem popMin_spec : ∀ (q : List (C × Tree B L)) (m : C × Tree B L) (rest : List (C × Tree B L)),
    popMin ltb q = some (m, rest) → (m :: rest).Perm q ∧ ∀ e ∈ rest, m.1 ≤ e.1 := by
  intro q
  induction q with
  | nil => intro m rest h; simp [popMin] at h
  | cons e es ih =>
    intro m rest h
    simp only [popMin] at h
    cases hp : popMin ltb es with
    | none =>
      rw [hp] at h; simp only [Option.some.injEq, Prod.mk.injEq] at h
      obtain ⟨rfl, rfl⟩ := h
      have : es = [] := (popMin_none es).1 hp
      subst this; exact ⟨List.Perm.refl _, by simp⟩
    | some r =>
      obtain ⟨m', rest'⟩ := r
      rw [hp] at h
      obtain ⟨hperm, hmin⟩ := ih m' rest' hp
      simp only at h
      split at h
      · rename_i hlt
        simp only [Option.some.injEq, Prod.mk.injEq] at h
        obtain ⟨rfl, rfl⟩ := h
        have hlt' : m'.1 < e.1 := by simpa [ltb] using hlt
        refine ⟨?_, ?_⟩
        · exact (List.Perm.swap e m' rest').trans (List.Perm.cons e hperm)
        · intro x hx
          simp only [List.mem_cons] at hx
          rcases hx with rfl | hx
          · exact le_of_lt hlt'
          · exact hmin x hx
      · rename_i hlt
        simp only [Option.some.injEq, Prod.mk.injEq] at h
        obtain ⟨rfl, rfl⟩ := h
        have hle : e.1 ≤ m'.1 := by simpa [ltb] using hlt
        refine ⟨List.Perm.cons e hperm, ?_⟩
        intro x hx
        simp only [List.mem_cons] at hx
        rcases hx with rfl | hx
        · exact hle
        · exact le_trans hle (hmin x hx)

private theorem beats_iff (c : C) (best : Option (C × L)) :
    beats ltb c best = true ↔ ∀ (bc : C) (bd : L), best = some (bc, bd) → c < bc := by
  cases best with
  | none => simp [beats]
  | some bb => obtain ⟨bc, bd⟩ := bb; simp [beats, ltb]

private theorem not_beats (c : C) (best : Option (C × L)) (h : ¬ beats ltb c best = true) :
    ∃ (bc : C) (bd : L), best = some (bc, bd) ∧ bc ≤ c := by
  cases best with
  | none => simp [beats] at h
  | some bb => obtain ⟨bc, bd⟩ := bb; exact ⟨bc, bd, rfl, by simpa [beats, ltb] using h⟩

/-- total number of tree nodes waiting in the queue -/
def qsize : List (C × Tree B L) → Nat
  | [] => 0
  | e :: es => size e.2 + qsize es

private theorem size_pos (t : Tree B L) : 0 < size t := by cases t <;> simp [size] <;> omega

private theorem qsize_perm {a b : List (C × Tree B L)} (h : a.Perm b) : qsize a = qsize b := by
  induction h with
  | nil => rfl
  | cons x _ ih => simp [qsize, ih]
  | swap x y l => simp [qsize]; omega
  | trans _ _ ih1 ih2 => exact ih1.trans ih2

/-- invariant of the search w.r.t. the leaves `Lv` of the whole tree -/
structure BInv (boxCost : B → C) (leafCost : B → L → C) (Lv : List (B × L)) (queue : List (C × Tree B L))
    (best : Option (C × L)) : Prop where
  found : ∀ (c : C) (d : L), best = some (c, d) → ∃ b : B, (b, d) ∈ Lv ∧ leafCost b d = c
  queued : ∀ e ∈ queue, LB boxCost leafCost e.2 ∧ ∀ p ∈ leaves e.2, e.1 ≤ leafCost p.1 p.2 ∧ p ∈ Lv

/-- a leaf is accounted for: `best` is at least as good, or it lies below a queued entry -/
def Covered (leafCost : B → L → C) (queue : List (C × Tree B L)) (best : Option (C × L)) (p : B × L) : Prop :=
  (∃ (bc : C) (bd : L), best = some (bc, bd) ∧ bc ≤ leafCost p.1 p.2) ∨ (∃ e ∈ queue, p ∈ leaves e.2)

private theorem visitLanes_inv (boxCost : B → C) (leafCost : B → L → C) (Lv : List (B × L)) :
    ∀ (cs : List (Tree B L)) (queue : List (C × Tree B L)) (best : Option (C × L)),
      BInv boxCost leafCost Lv queue best → LBList boxCost leafCost cs → (∀ p ∈ leavesList cs, p ∈ Lv) →
      BInv boxCost leafCost Lv (visitLanes ltb boxCost leafCost cs queue best).1 (visitLanes ltb boxCost leafCost cs queue best).2 ∧
      (∀ p : B × L, Covered leafCost queue best p ∨ p ∈ leavesList cs →
        Covered leafCost (visitLanes ltb boxCost leafCost cs queue best).1 (visitLanes ltb boxCost leafCost cs queue best).2 p) ∧
      qsize (visitLanes ltb boxCost leafCost cs queue best).1 ≤ qsize queue + sizeList cs := by
  intro cs
  induction cs with
  | nil =>
    intro queue best hI _ _
    refine ⟨hI, ?_, by simp [visitLanes, sizeList]⟩
    intro p hp
    rcases hp with h | h
    · exact h
    · simp [leavesList] at h
  | cons t ts ih =>
    intro queue best hI hLB hsub
    obtain ⟨hLBt, hLBts⟩ := hLB
    have hsubt : ∀ p ∈ leaves t, p ∈ Lv := fun p hp => hsub p (by simp [leavesList, hp])
    have hsubts : ∀ p ∈ leavesList ts, p ∈ Lv := fun p hp => hsub p (by simp [leavesList, hp])
    cases t with
    | leaf b d =>
      simp only [visitLanes]
      have hI' : BInv boxCost leafCost Lv queue
          (if beats ltb (leafCost b d) best = true then some (leafCost b d, d) else best) := by
        refine ⟨?_, hI.queued⟩
        intro c d' hbest
        split at hbest
        · simp only [Option.some.injEq, Prod.mk.injEq] at hbest
          obtain ⟨rfl, rfl⟩ := hbest
          exact ⟨b, hsubt (b, d) (by simp [leaves]), rfl⟩
        · exact hI.found c d' hbest
      obtain ⟨h1, h2, h3⟩ := ih queue _ hI' hLBts hsubts
      refine ⟨h1, ?_, by simp only [sizeList, size]; omega⟩
      intro p hp
      apply h2
      rcases hp with hc | hm
      · left
        rcases hc with ⟨bc, bd, hb, hle⟩ | hq
        · left
          split
          · rename_i hbt
            have := (beats_iff _ _).1 hbt bc bd hb
            exact ⟨_, _, rfl, le_trans (le_of_lt this) hle⟩
          · exact ⟨bc, bd, hb, hle⟩
        · exact Or.inr hq
      · simp only [leavesList, leaves, List.cons_append, List.nil_append, List.mem_cons] at hm
        rcases hm with rfl | hm
        · left; left
          split
          · exact ⟨_, _, rfl, le_refl _⟩
          · rename_i hbt
            exact not_beats _ _ hbt
        · exact Or.inr hm
    | node b cs' =>
      simp only [visitLanes]
      have hbox := LB_box boxCost leafCost (.node b cs') hLBt
      have hI' : BInv boxCost leafCost Lv
          (if beats ltb (boxCost b) best = true then (boxCost b, Model.Bvh.Tree.node b cs') :: queue else queue) best := by
        refine ⟨hI.found, ?_⟩
        intro e he
        split at he
        · simp only [List.mem_cons] at he
          rcases he with rfl | he
          · exact ⟨hLBt, fun p hp => ⟨hbox p hp, hsubt p hp⟩⟩
          · exact hI.queued e he
        · exact hI.queued e he
      obtain ⟨h1, h2, h3⟩ := ih _ best hI' hLBts hsubts
      refine ⟨h1, ?_, ?_⟩
      · intro p hp
        apply h2
        rcases hp with hc | hm
        · left
          rcases hc with hb | ⟨e, he, hpe⟩
          · exact Or.inl hb
          · right; refine ⟨e, ?_, hpe⟩
            split
            · exact List.mem_cons_of_mem _ he
            · exact he
        · simp only [leavesList, List.mem_append] at hm
          rcases hm with hm | hm
          · left
            by_cases hbt : beats ltb (boxCost b) best = true
            · right; refine ⟨(boxCost b, Model.Bvh.Tree.node b cs'), ?_, hm⟩
              simp [hbt]
            · left
              obtain ⟨bc, bd, hb, hle⟩ := not_beats _ _ hbt
              exact ⟨bc, bd, hb, le_trans hle (hbox p hm)⟩
          · exact Or.inr hm
      · refine le_trans h3 ?_
        split
        · simp only [qsize, sizeList]; omega
        · simp only [sizeList]; omega

private theorem qsize_zero (q : List (C × Tree B L)) (h : qsize q = 0) : q = [] := by
  cases q with
  | nil => rfl
  | cons e es => simp only [qsize] at h; have := size_pos e.2; omega

private theorem bestFirstLoop_spec (boxCost : B → C) (leafCost : B → L → C) (Lv : List (B × L)) :
    ∀ (fuel : Nat) (queue : List (C × Tree B L)) (best : Option (C × L)),
      BInv boxCost leafCost Lv queue best → (∀ p ∈ Lv, Covered leafCost queue best p) → qsize queue ≤ fuel →
      ∃ res : Option (C × L), bestFirstLoop ltb boxCost leafCost fuel queue best = some res ∧
        (∀ (c : C) (d : L), res = some (c, d) → ∃ b : B, (b, d) ∈ Lv ∧ leafCost b d = c) ∧
        (∀ p ∈ Lv, ∃ (c : C) (d : L), res = some (c, d) ∧ c ≤ leafCost p.1 p.2) := by
  intro fuel
  induction fuel with
  | zero =>
    intro queue best hI hcov hsz
    have hq : queue = [] := qsize_zero queue (by omega)
    subst hq
    refine ⟨best, by simp [bestFirstLoop], hI.found, ?_⟩
    intro p hp
    rcases hcov p hp with h | ⟨e, he, _⟩
    · exact h
    · simp at he
  | succ fuel ih =>
    intro queue best hI hcov hsz
    simp only [bestFirstLoop]
    cases hpm : popMin ltb queue with
    | none =>
      have hq : queue = [] := (popMin_none queue).1 hpm
      subst hq
      refine ⟨best, rfl, hI.found, ?_⟩
      intro p hp
      rcases hcov p hp with h | ⟨e, he, _⟩
      · exact h
      · simp at he
    | some r =>
      obtain ⟨⟨c, t⟩, rest⟩ := r
      obtain ⟨hperm, hmin⟩ := popMin_spec queue (c, t) rest hpm
      have hmem : ∀ e, e ∈ queue ↔ e = (c, t) ∨ e ∈ rest := by
        intro e; rw [← hperm.mem_iff]; simp
      have hqs : qsize queue = size t + qsize rest := by rw [← qsize_perm hperm]; rfl
      have hIrest : BInv boxCost leafCost Lv rest best :=
        ⟨hI.found, fun e he => hI.queued e ((hmem e).2 (Or.inr he))⟩
      obtain ⟨hLBt, hlt⟩ := hI.queued (c, t) ((hmem _).2 (Or.inl rfl))
      simp only
      by_cases hbt : beats ltb c best = true
      · simp only [hbt, Bool.not_true, Bool.false_eq_true, if_false]
        cases t with
        | leaf b d =>
          obtain ⟨h1, h2, h3⟩ := visitLanes_inv boxCost leafCost Lv [Tree.leaf b d] rest best hIrest
            ⟨hLBt, trivial⟩ (fun p hp => (hlt p (by simpa [leavesList] using hp)).2)
          have hq1 : (visitLanes ltb boxCost leafCost [Tree.leaf b d] rest best).1 = rest := by simp [visitLanes]
          rw [hq1] at h1 h2
          apply ih rest _ h1
          · intro p hp
            apply h2
            rcases hcov p hp with h | ⟨e, he, hpe⟩
            · exact Or.inl (Or.inl h)
            · rcases (hmem e).1 he with rfl | he'
              · exact Or.inr (by simpa [leavesList] using hpe)
              · exact Or.inl (Or.inr ⟨e, he', hpe⟩)
          · simp only [size] at hqs; omega
        | node b cs =>
          obtain ⟨h1, h2, h3⟩ := visitLanes_inv boxCost leafCost Lv cs rest best hIrest hLBt.2
            (fun p hp => (hlt p (by simpa [leaves] using hp)).2)
          apply ih _ _ h1
          · intro p hp
            apply h2
            rcases hcov p hp with h | ⟨e, he, hpe⟩
            · exact Or.inl (Or.inl h)
            · rcases (hmem e).1 he with rfl | he'
              · exact Or.inr (by simpa [leaves] using hpe)
              · exact Or.inl (Or.inr ⟨e, he', hpe⟩)
          · simp only [size] at hqs; omega
      · simp only [hbt, Bool.not_false, if_true]
        obtain ⟨bc, bd, hb, hle⟩ := not_beats _ _ hbt
        refine ⟨best, rfl, hI.found, ?_⟩
        intro p hp
        rcases hcov p hp with h | ⟨e, he, hpe⟩
        · exact h
        · refine ⟨bc, bd, hb, ?_⟩
          have h1 : c ≤ e.1 := by
            rcases (hmem e).1 he with rfl | he'
            · exact le_refl _
            · exact hmin e he'
          exact le_trans hle (le_trans h1 ((hI.queued e he).2 p hpe).1)

/-- **`best_first_optimal`**: on every tree whose lane weights are lower bounds of the leaf costs below them, best-first
search terminates within its own fuel and returns a leaf of minimum cost: the returned cost is attained by a leaf and is
`≤` the cost of every leaf; it returns nothing only if the tree has no leaf.  (The cut-off `-entry.cost >= best_cost`
and the mask `weight < best_cost` never discard a strictly better leaf.) -/
theorem bestFirst_optimal (boxCost : B → C) (leafCost : B → L → C) (t : Tree B L) (h : LB boxCost leafCost t) :
    ∃ res : Option (C × L), bestFirst ltb boxCost leafCost t = some res ∧
      (∀ (c : C) (d : L), res = some (c, d) → (∃ b : B, (b, d) ∈ leaves t ∧ leafCost b d = c) ∧
          ∀ p ∈ leaves t, c ≤ leafCost p.1 p.2) ∧
      (res = none → leaves t = []) := by
  have hI : BInv boxCost leafCost (leaves t) [(boxCost t.box, t)] none := by
    refine ⟨?_, ?_⟩
    · intro c d hb; cases hb
    intro e he
    simp only [List.mem_singleton] at he; subst he
    exact ⟨h, fun p hp => ⟨LB_box boxCost leafCost t h p hp, hp⟩⟩
  obtain ⟨res, hr, hf, hmin⟩ := bestFirstLoop_spec boxCost leafCost (leaves t) (size t + 1) _ none hI
    (fun p hp => Or.inr ⟨(boxCost t.box, t), by simp, hp⟩) (by simp [qsize])
  refine ⟨res, hr, ?_, ?_⟩
  · intro c d hres
    refine ⟨hf c d hres, ?_⟩
    intro p hp
    obtain ⟨c', d', hres', hle⟩ := hmin p hp
    rw [hres] at hres'; cases hres'; exact hle
  · intro hnone
    cases hl : leaves t with
    | nil => rfl
    | cons p ps =>
      obtain ⟨c', d', hres', _⟩ := hmin p (by rw [hl]; simp)
      rw [hnone] at hres'; cases hres'

end bestfirst

/-! ## non-vacuity: concrete trees (boxes = intervals of ℕ, costs = distance to a point) -/
section examples
/-- interval boxes `[lo, hi]` -/
abbrev IBox := Nat × Nat
def icontains (a b : IBox) : Prop := a.1 ≤ b.1 ∧ b.2 ≤ a.2
/-- the predicate "the interval meets [5, 6]" (monotone for containment) -/
def meets56 (b : IBox) : Bool := decide (b.1 ≤ 6) && decide (5 ≤ b.2)
/-- distance from the point 20 to an interval -/
def dist20 (b : IBox) : Nat := if 20 < b.1 then b.1 - 20 else if b.2 < 20 then 20 - b.2 else 0

def exTree : Tree IBox Nat :=
  .node (0, 40) [ .node (0, 9) [.leaf (0, 3) 0, .leaf (4, 6) 1, .leaf (6, 9) 2],
                  .node (10, 40) [.leaf (10, 12) 3, .node (15, 40) [.leaf (15, 18) 4, .leaf (30, 40) 5]],
                  .node (7, 8) [] ]

example : Nested icontains exTree := by
  simp [exTree, Nested, NestedList, icontains, Tree.box]
example : MonotonePred icontains meets56 := by
  intro a b h hp
  simp only [meets56, Bool.and_eq_true, decide_eq_true_eq] at *
  obtain ⟨h1, h2⟩ := h; omega
example : dfs meets56 exTree = [1, 2] := by decide
example : dfsLoop meets56 (size exTree) [exTree] [] = some [2, 1] := by decide
example : LB dist20 (fun b _ => dist20 b) exTree := by
  simp [exTree, LB, LBList, leavesList, leaves, dist20]
example : bestFirst ltb dist20 (fun b _ => dist20 b) exTree = some (some (2, 4)) := by decide
end examples

/-! ## the simultaneous traversal of two trees -/
section twotree
variable {B L : Type}

private theorem mem_leavesList' (ts : List (Model.Bvh.Tree B L)) (p : B × L) (h : p ∈ leavesList ts) :
    ∃ t ∈ ts, p ∈ leaves t := by
  induction ts with
  | nil => simp [leavesList] at h
  | cons x xs ih =>
    simp only [leavesList, List.mem_append] at h
    rcases h with h | h
    · exact ⟨x, by simp, h⟩
    · obtain ⟨t, ht, hp⟩ := ih h; exact ⟨t, by simp [ht], hp⟩

private theorem nestedList_mem (contains : B → B → Prop) (b : B) (ts : List (Model.Bvh.Tree B L))
    (h : NestedList contains b ts) : ∀ t ∈ ts, contains b t.box ∧ Nested contains t := by
  induction ts with
  | nil => intro t ht; simp at ht
  | cons x xs ih =>
    intro t ht
    obtain ⟨h1, h2, h3⟩ := h
    simp only [List.mem_cons] at ht
    rcases ht with rfl | ht
    · exact ⟨h1, h2⟩
    · exact ih h3 t ht

private theorem size_mem_le (ts : List (Model.Bvh.Tree B L)) : ∀ t ∈ ts, size t ≤ sizeList ts := by
  induction ts with
  | nil => intro t ht; simp at ht
  | cons x xs ih =>
    intro t ht
    simp only [List.mem_cons] at ht
    simp only [sizeList]
    rcases ht with rfl | ht
    · omega
    · have := ih t ht; omega

/-- the pair predicate is monotone in both boxes -/
def MonotonePair (contains : B → B → Prop) (pp : B → B → Bool) : Prop :=
  (∀ a a' b : B, contains a a' → pp a' b = true → pp a b = true) ∧
  (∀ a b b' : B, contains b b' → pp a b' = true → pp a b = true)

/-- **two-tree traversal is complete**: on two nested trees, for a pair predicate that is monotone in both boxes, every
pair of leaves whose own boxes satisfy the predicate is reported, as soon as the fuel covers both trees
(induction on both trees at once) -/
theorem pairs_complete (contains : B → B → Prop) (pp : B → B → Bool) (hm : MonotonePair contains pp) :
    ∀ (f : Nat) (t1 t2 : Model.Bvh.Tree B L), size t1 + size t2 ≤ f → Nested contains t1 → Nested contains t2 →
      ∀ (b1 b2 : B) (d1 d2 : L), (b1, d1) ∈ leaves t1 → (b2, d2) ∈ leaves t2 → pp b1 b2 = true →
        (d1, d2) ∈ pairs pp f t1 t2 := by
  intro f
  induction f with
  | zero => intro t1 t2 hsz; cases t1 <;> simp [size] at hsz <;> omega
  | succ f ih =>
    intro t1 t2 hsz hn1 hn2 b1 b2 d1 d2 hl1 hl2 hp
    -- the predicate holds on the two roots
    have hroot : pp t1.box t2.box = true := by
      have h1 : pp t1.box b2 = true :=
        pred_up contains (fun x => pp x b2) (fun a a' hc h => hm.1 a a' b2 hc h) t1 hn1 b1 d1 hl1 hp
      exact pred_up contains (fun y => pp t1.box y) (fun b b' hc h => hm.2 t1.box b b' hc h) t2 hn2 b2 d2 hl2 h1
    cases t1 with
    | leaf bx1 dx1 =>
      simp only [leaves, List.mem_singleton, Prod.mk.injEq] at hl1
      obtain ⟨rfl, rfl⟩ := hl1
      cases t2 with
      | leaf bx2 dx2 =>
        simp only [leaves, List.mem_singleton, Prod.mk.injEq] at hl2
        obtain ⟨rfl, rfl⟩ := hl2
        simp only [Tree.box] at hroot
        simp [pairs, Tree.box, hroot]
      | node bx2 cs2 =>
        simp only [leaves] at hl2
        obtain ⟨c2, hc2, hlc2⟩ := mem_leavesList' cs2 _ hl2
        obtain ⟨_, hnc2⟩ := nestedList_mem contains bx2 cs2 hn2 c2 hc2
        have hs := size_mem_le cs2 c2 hc2
        simp only [size] at hsz
        simp only [pairs, hroot, if_true, List.mem_flatMap]
        exact ⟨c2, hc2, ih (Model.Bvh.Tree.leaf b1 d1) c2 (by simp only [size]; omega) (by simp [Nested]) hnc2 b1 b2 d1 d2 (by simp [leaves]) hlc2 hp⟩
    | node bx1 cs1 =>
      simp only [leaves] at hl1
      obtain ⟨c1, hc1, hlc1⟩ := mem_leavesList' cs1 _ hl1
      obtain ⟨_, hnc1⟩ := nestedList_mem contains bx1 cs1 hn1 c1 hc1
      have hs1 := size_mem_le cs1 c1 hc1
      cases t2 with
      | leaf bx2 dx2 =>
        simp only [leaves, List.mem_singleton, Prod.mk.injEq] at hl2
        obtain ⟨rfl, rfl⟩ := hl2
        simp only [size] at hsz
        simp only [pairs, hroot, if_true, List.mem_flatMap]
        exact ⟨c1, hc1, ih c1 (Model.Bvh.Tree.leaf b2 d2) (by simp only [size]; omega) hnc1 (by simp [Nested]) b1 b2 d1 d2 hlc1 (by simp [leaves]) hp⟩
      | node bx2 cs2 =>
        simp only [leaves] at hl2
        obtain ⟨c2, hc2, hlc2⟩ := mem_leavesList' cs2 _ hl2
        obtain ⟨_, hnc2⟩ := nestedList_mem contains bx2 cs2 hn2 c2 hc2
        have hs2 := size_mem_le cs2 c2 hc2
        simp only [size] at hsz
        simp only [pairs, hroot, if_true, List.mem_flatMap]
        exact ⟨c1, hc1, c2, hc2, ih _ _ (by omega) hnc1 hnc2 b1 b2 d1 d2 hlc1 hlc2 hp⟩

/-- non-vacuity: interval overlap is monotone in both arguments, and the example tree against itself -/
def ioverlap (a b : IBox) : Bool := decide (a.1 ≤ b.2) && decide (b.1 ≤ a.2)
example : MonotonePair icontains ioverlap := by
  constructor
  · intro a a' b h hp
    simp only [ioverlap, Bool.and_eq_true, decide_eq_true_eq] at *
    obtain ⟨h1, h2⟩ := h; omega
  · intro a b b' h hp
    simp only [ioverlap, Bool.and_eq_true, decide_eq_true_eq] at *
    obtain ⟨h1, h2⟩ := h; omega
example : pairs ioverlap (size exTree + size exTree) exTree exTree =
    [(0, 0), (1, 1), (1, 2), (2, 1), (2, 2), (3, 3), (4, 4), (5, 5)] := by decide

end twotree

/-! ## the lower bound behind the distance pruning of the composite-shape visitors -/
section pruning
open Model
variable {K : Type} [Field K] [LinearOrder K] [IsStrictOrderedRing K] (sq : K → K)

/-- per axis: if `lo ≤ x ≤ hi` then the distance `max(lo, -hi, 0)` from the origin to `[lo, hi]` is at most `|x|`
(squared form) -/
theorem axis_lower_bound (lo hi x : K) (h1 : lo ≤ x) (h2 : x ≤ hi) :
    max (max lo (-hi)) 0 * max (max lo (-hi)) 0 ≤ x * x := by
  rcases le_total 0 lo with hlo | hlo
  · have e : max (max lo (-hi)) 0 = lo := by
      have : -hi ≤ lo := by linarith
      rw [max_eq_left this, max_eq_left hlo]
    rw [e]; nlinarith
  · rcases le_total hi 0 with hhi | hhi
    · have e : max (max lo (-hi)) 0 = -hi := by
        have : lo ≤ -hi := by linarith
        rw [max_eq_right this, max_eq_left (by linarith)]
      rw [e]; nlinarith
    · have e : max (max lo (-hi)) 0 = 0 := by
        have : max lo (-hi) ≤ 0 := max_le hlo (by linarith)
        rw [max_eq_right this]
      rw [e]; nlinarith [mul_self_nonneg x]

/-- membership of a point in a box (coordinate-wise) -/
def InBox (b : Aabb3 K) (p : V3 K) : Prop :=
  (b.mins.x ≤ p.x ∧ p.x ≤ b.maxs.x) ∧ (b.mins.y ≤ p.y ∧ p.y ≤ b.maxs.y) ∧ (b.mins.z ≤ p.z ∧ p.z ≤ b.maxs.z)

/-- **the pruning bound of the composite distance visitors is a lower bound (squared form)**: for a BVH lane box `bv`
and the box `[c - h, c + h]` of the other shape (both in the frame of the composite), the Minkowski-sum box built by the
visitor (`shift = -c`, `margin = h`) is at squared distance at most `|p1 - p2|²` from the origin, for every `p1` in the
lane box and every `p2` in the other box.  Hence a lane whose bound is `≥ best` cannot contain a part closer than
`best`. -/
theorem msum_lower_bound_sq (bv : Aabb3 K) (c h : V3 K) (p1 p2 : V3 K) :
    letI := fieldNum K sq
    InBox bv p1 → InBox ⟨c.sub h, c.add h⟩ p2 →
      (originShift (msumBox bv c.neg h)).normSq ≤ (p1.sub p2).normSq := by
  letI := fieldNum K sq
  rintro ⟨⟨a1, a2⟩, ⟨a3, a4⟩, ⟨a5, a6⟩⟩ ⟨⟨b1, b2⟩, ⟨b3, b4⟩, ⟨b5, b6⟩⟩
  simp only [V3.sub, V3.add] at b1 b2 b3 b4 b5 b6
  simp only [originShift, msumBox, V3.normSq, V3.dot, V3.sup, V3.add, V3.neg, V3.sub, V3.zero, fieldNum_nmax]
  have hx := axis_lower_bound (bv.mins.x + -c.x + -h.x) (bv.maxs.x + -c.x + h.x) (p1.x - p2.x) (by linarith) (by linarith)
  have hy := axis_lower_bound (bv.mins.y + -c.y + -h.y) (bv.maxs.y + -c.y + h.y) (p1.y - p2.y) (by linarith) (by linarith)
  have hz := axis_lower_bound (bv.mins.z + -c.z + -h.z) (bv.maxs.z + -c.z + h.z) (p1.z - p2.z) (by linarith) (by linarith)
  linarith

/-- the same with the square roots the code takes: `distance_to_origin(msum) ≤ |p1 - p2|` -/
theorem msum_lower_bound (hs : LawfulSqrt sq) (bv : Aabb3 K) (c h : V3 K) (p1 p2 : V3 K) :
    letI := fieldNum K sq
    InBox bv p1 → InBox ⟨c.sub h, c.add h⟩ p2 →
      distToOrigin (msumBox bv c.neg h) ≤ (p1.sub p2).norm := by
  letI := fieldNum K sq
  intro h1 h2
  have hle := msum_lower_bound_sq sq bv c h p1 p2 h1 h2
  have hn1 : 0 ≤ (originShift (msumBox bv c.neg h)).normSq := by
    simp only [V3.normSq, V3.dot]; nlinarith [mul_self_nonneg (originShift (msumBox bv c.neg h)).x, mul_self_nonneg (originShift (msumBox bv c.neg h)).y, mul_self_nonneg (originShift (msumBox bv c.neg h)).z]
  have hn2 : 0 ≤ (p1.sub p2).normSq := le_trans hn1 hle
  simp only [distToOrigin, V3.norm]
  show sq _ ≤ sq _
  have ha := hs.nonneg _ hn1
  have hb := hs.nonneg _ hn2
  have ea := hs.sq_mul _ hn1
  have eb := hs.sq_mul _ hn2
  by_contra hc
  push Not at hc
  nlinarith

/-- the slipped sign (`mins: bv.mins + shift + margin`) is NOT a lower bound: lane box `[11.5, 12.5]`, other box
`[10, 11.2]` (centre 10.6, half-extent 0.6): the true gap is 0.3, the correct bound is 0.3, the slipped bound is 1.5 -/
example : (11.5 - 11.2 : ℚ) = 0.3 ∧ max (max (11.5 + -10.6 + -0.6 : ℚ) (-(12.5 + -10.6 + 0.6))) 0 = 0.3 ∧
    max (max (11.5 + -10.6 + 0.6 : ℚ) (-(12.5 + -10.6 + 0.6))) 0 = 1.5 := by
  refine ⟨by norm_num, ?_, ?_⟩ <;> norm_num

end pruning

end C07
