import ParryModel.C07.Theorems1
import ParryModel.C07.Theorems2
import ParryModel.C07.Theorems3
import ParryModel.C07.Theorems4
import ParryModel.C07.Theorems5
import ParryModel.C07.Theorems6
import ParryModel.C07.Theorems7
/-!
# C07 property theorems (aggregator)
`Theorems1`: traversals over the abstract tree (depth-first complete / sound, work-list version, best-first optimal,
two-tree recursion) and the Minkowski-sum distance bound.  `Theorems2`: the closed lane tests of `SimdAabb` never prune a
touching part; lower bounds of the point / ray lane weights; nestedness ⇒ the lower-bound hypothesis of `bestFirst_optimal`.
`Theorems3`: `NonlinearRigidMotion` — the bounding balls of the nonlinear composite cast follow the shapes.
-/
