import ParryModel.C07.Theorems1
import ParryModel.C07.Theorems2
import ParryModel.C07.Theorems3
import ParryModel.C07.Theorems4
import ParryModel.C07.Theorems5
import ParryModel.C07.Theorems6
import ParryModel.C07.Theorems7
import ParryModel.C07.Theorems8
/-!
# C07 property theorems (aggregator)
`Theorems1`: traversals over the abstract tree (depth-first complete / sound, work-list version, best-first optimal,
two-tree recursion) and the Minkowski-sum distance bound.  `Theorems2`: the closed lane tests of `SimdAabb` never prune a
touching part; lower bounds of the point / ray lane weights; nestedness ⇒ the lower-bound hypothesis of `bestFirst_optimal`.
`Theorems3`: `NonlinearRigidMotion` — the bounding balls of the nonlinear composite cast follow the shapes.
`Theorems4`: unfolding of a QBVH model state.  `Theorems5`: composite distance visitor and linear shape-cast visitor (per-node bounds
are lower bounds of every part below the node).  `Theorems6`: 2-D heightfield cell quantisation.  `Theorems7`: 2-D heightfield
shape-cast cell walk.  `Theorems8`: 3-D heightfield cell quantisation.
-/
