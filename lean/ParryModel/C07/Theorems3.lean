import ParryModel.Field
import ParryModel.C07.Model2
import ParryModel.C03.Lemmas
import ParryModel.C03.Theorems
/-!
# C07 theorems, part 3: the bounding balls of the nonlinear composite cast follow the shapes

`NonlinearTOICompositeShapeShapeBestFirstVisitor::visit` prunes with a ball-against-ball nonlinear cast: the ball around a
lane box moves with `motion1.prepend_translation(center1)`, the ball around the other shape with
`motion2.prepend_translation(sphere2.center)`.

* `positionAt{2,3}_act`: `position_at_time` rotates about the world-space centre `start * local_center` by the rotation of
  `M = Isometry::new(linvel·t, angvel·t)` and then drifts by `linvel·t`;
* `prependTranslation{2,3}_tracks`: at every time (for every `M`) the pose of `m.prepend_translation(c)` is the pose of `m`
  composed with the translation by `c` in the LOCAL frame; in particular (`ballCentre{2,3}`) the ball's centre is the image
  of the local sphere centre `c` under the shape's own pose;
* `positionAt{2,3}_isometry`: poses preserve distances, hence (`ball_contains{2,3}`) every point of the shape within `r` of
  `c` in the local frame is within `r` of the ball's centre at every time: the moving ball contains the moving shape, so
  the balls meet no later than the shapes and the ball-ball time of impact is a lower bound (pruning is safe);
* the slipped `append_translation` (world-frame shift) does NOT track the sphere centre as soon as the start pose is
  rotated: worked example.
-/
namespace C07
open Model Model.C07 C03
set_option linter.unusedSectionVars false

variable {K : Type} [Field K] [LinearOrder K] [IsStrictOrderedRing K] (sq : K → K)

/-! ## 3-D -/

private theorem tMul3_act (v : V3 K) (a : Iso3 K) (x : V3 K) :
    letI := fieldNum K sq
    (tMul3 v a).act x = (a.rot x).add (v.add a.t) := rfl

theorem mulT3_act (a : Iso3 K) (c x : V3 K) :
    letI := fieldNum K sq
    (mulT3 a c).act x = a.act (x.add c) := by
  have h := rotQ_add sq a.qv a.qw x c
  simp only [mulT3, Iso3.act, Iso3.rot, Iso3.qv] at h ⊢
  rw [h]
  simp only [V3.add, V3.mk.injEq]
  refine ⟨?_, ?_, ?_⟩ <;> ring

/-- `position_at_time`: rotation by `M` about the world-space centre, then the drift `M.t = linvel·t` -/
theorem positionAt3_act (m : C07.Motion3 K) (M : Iso3 K) (p : V3 K) (hs : Unit3 m.start) (hM : Unit3 M) :
    letI := fieldNum K sq
    (m.positionAt M).act p =
      (M.rot ((m.start.act p).sub (m.start.act m.localCenter))).add ((m.start.act m.localCenter).add M.t) := by
  letI := fieldNum K sq
  have hA : Unit3 (tMul3 (m.start.act m.localCenter) M) := hM
  have hB : Unit3 (tMul3 (m.start.act m.localCenter).neg m.start) := hs
  have h := (iso3_mul_act sq (tMul3 (m.start.act m.localCenter) M) (tMul3 (m.start.act m.localCenter).neg m.start) p hA hB).1
  simp only [C07.Motion3.positionAt]
  rw [h, tMul3_act, tMul3_act]
  congr 2
  simp only [Iso3.act, V3.add, V3.sub, V3.neg, V3.mk.injEq]
  refine ⟨?_, ?_, ?_⟩ <;> ring

/-- **the ball motion follows the sphere centre (3-D)**: for every exponential `M`, the pose of
`m.prepend_translation(c)` is the pose of `m` after the local translation by `c` -/
theorem prependTranslation3_tracks (m : C07.Motion3 K) (M : Iso3 K) (c p : V3 K) (hs : Unit3 m.start) (hM : Unit3 M) :
    letI := fieldNum K sq
    ((m.prependTranslation c).positionAt M).act p = (m.positionAt M).act (p.add c) := by
  letI := fieldNum K sq
  have hs' : Unit3 (m.prependTranslation c).start := hs
  rw [positionAt3_act sq _ M p hs' hM, positionAt3_act sq m M (p.add c) hs hM]
  have e1 : (m.prependTranslation c).start.act p = m.start.act (p.add c) := mulT3_act sq m.start c p
  have e2 : (m.prependTranslation c).start.act (m.prependTranslation c).localCenter = m.start.act m.localCenter :=
    (iso3_invAct_act sq (mulT3 m.start c) (m.start.act m.localCenter) hs).2
  rw [e1, e2]

private theorem v3_add_zero (c : V3 K) :
    letI := fieldNum K sq
    (V3.zero : V3 K).add c = c := by
  simp only [V3.add, V3.zero]; cases c; simp

/-- the centre of the moving ball is the image of the local sphere centre under the shape's own pose -/
theorem ballCentre3 (m : C07.Motion3 K) (M : Iso3 K) (c : V3 K) (hs : Unit3 m.start) (hM : Unit3 M) :
    letI := fieldNum K sq
    ((m.prependTranslation c).positionAt M).act V3.zero = (m.positionAt M).act c := by
  letI := fieldNum K sq
  have h := prependTranslation3_tracks sq m M c V3.zero hs hM
  rw [v3_add_zero] at h
  exact h

/-- poses of a nonlinear motion preserve distances -/
theorem positionAt3_isometry (m : C07.Motion3 K) (M : Iso3 K) (x y : V3 K) (hs : Unit3 m.start) (hM : Unit3 M) :
    letI := fieldNum K sq
    (((m.positionAt M).act x).sub ((m.positionAt M).act y)).normSq = (x.sub y).normSq := by
  letI := fieldNum K sq
  rw [positionAt3_act sq m M x hs hM, positionAt3_act sq m M y hs hM]
  have e : ((M.rot ((m.start.act x).sub (m.start.act m.localCenter))).add ((m.start.act m.localCenter).add M.t)).sub
      ((M.rot ((m.start.act y).sub (m.start.act m.localCenter))).add ((m.start.act m.localCenter).add M.t)) =
      M.rot (m.start.rot (x.sub y)) := by
    have r1 := rotQ_sub sq M.qv M.qw ((m.start.act x).sub (m.start.act m.localCenter)) ((m.start.act y).sub (m.start.act m.localCenter))
    have r2 := rotQ_sub sq m.start.qv m.start.qw x y
    simp only [Iso3.rot] at r1 r2 ⊢
    have e0 : ((m.start.act x).sub (m.start.act m.localCenter)).sub ((m.start.act y).sub (m.start.act m.localCenter)) =
        (Iso3.rotQ m.start.qv m.start.qw x).sub (Iso3.rotQ m.start.qv m.start.qw y) := by
      simp only [Iso3.act, Iso3.rot, V3.add, V3.sub, V3.mk.injEq]
      refine ⟨?_, ?_, ?_⟩ <;> ring
    rw [r2, ← e0, r1]
    simp only [V3.add, V3.sub, V3.mk.injEq]
    refine ⟨?_, ?_, ?_⟩ <;> ring
  rw [e]
  simp only [V3.normSq, Iso3.rot]
  rw [rotQ_dot sq M.qv M.qw _ _ hM, rotQ_dot sq m.start.qv m.start.qw _ _ hs]

/-- **the moving ball contains the moving shape (3-D)**: a point `x` of the shape within `r` of the local sphere centre `c`
stays within `r` of the centre of the ball that moves with `m.prepend_translation(c)`, at every time -/
theorem ball_contains3 (m : C07.Motion3 K) (M : Iso3 K) (c x : V3 K) (r2 : K) (hs : Unit3 m.start) (hM : Unit3 M)
    (hx : letI := fieldNum K sq; (x.sub c).normSq ≤ r2) :
    letI := fieldNum K sq
    (((m.positionAt M).act x).sub (((m.prependTranslation c).positionAt M).act V3.zero)).normSq ≤ r2 := by
  rw [ballCentre3 sq m M c hs hM, positionAt3_isometry sq m M x c hs hM]
  exact hx

/-! ## 2-D -/

private theorem tMul2_act (v : V2 K) (a : Iso2 K) (x : V2 K) :
    letI := fieldNum K sq
    (tMul2 v a).act x = (a.rot x).add (v.add a.t) := rfl

theorem positionAt2_act (m : C07.Motion2 K) (M : Iso2 K) (p : V2 K) :
    letI := fieldNum K sq
    (m.positionAt M).act p =
      (M.rot ((m.start.act p).sub (m.start.act m.localCenter))).add ((m.start.act m.localCenter).add M.t) := by
  letI := fieldNum K sq
  have h := (iso2_mul_act sq (tMul2 (m.start.act m.localCenter) M) (tMul2 (m.start.act m.localCenter).neg m.start) p).1
  simp only [C07.Motion2.positionAt]
  rw [h, tMul2_act, tMul2_act]
  congr 2
  simp only [Iso2.act, V2.add, V2.sub, V2.neg, V2.mk.injEq]
  refine ⟨?_, ?_⟩ <;> ring

/-- **the ball motion follows the sphere centre (2-D)** -/
theorem prependTranslation2_tracks (m : C07.Motion2 K) (M : Iso2 K) (c p : V2 K) (hs : Unit2 m.start) :
    letI := fieldNum K sq
    ((m.prependTranslation c).positionAt M).act p = (m.positionAt M).act (p.add c) := by
  letI := fieldNum K sq
  rw [positionAt2_act sq _ M p, positionAt2_act sq m M (p.add c)]
  have e1 : (m.prependTranslation c).start.act p = m.start.act (p.add c) := by
    simp only [C07.Motion2.prependTranslation, C07.Motion2.setStart, mulT2, Iso2.act, Iso2.rot, V2.add, V2.mk.injEq]
    refine ⟨?_, ?_⟩ <;> ring
  have hs' : Unit2 (mulT2 m.start c) := hs
  have e2 : (m.prependTranslation c).start.act (m.prependTranslation c).localCenter = m.start.act m.localCenter :=
    (iso2_inverse_act sq (mulT2 m.start c) (m.start.act m.localCenter) hs').2.2.2
  rw [e1, e2]

/-- poses of a 2-D nonlinear motion preserve distances -/
theorem positionAt2_isometry (m : C07.Motion2 K) (M : Iso2 K) (x y : V2 K) (hs : Unit2 m.start) (hM : Unit2 M) :
    letI := fieldNum K sq
    (((m.positionAt M).act x).sub ((m.positionAt M).act y)).normSq = (x.sub y).normSq := by
  letI := fieldNum K sq
  rw [positionAt2_act sq m M x, positionAt2_act sq m M y]
  obtain ⟨⟨sr, si, stx, sty⟩, ⟨lx, ly⟩, lin, ang⟩ := m
  obtain ⟨mr, mi, mtx, mty⟩ := M; obtain ⟨x1, x2⟩ := x; obtain ⟨y1, y2⟩ := y
  simp only [Unit2] at hs hM
  simp only [Iso2.act, Iso2.rot, V2.add, V2.sub, V2.normSq, V2.dot]
  linear_combination ((x1 - y1) * (x1 - y1) + (x2 - y2) * (x2 - y2)) * (mr * mr + mi * mi) * hs +
    ((x1 - y1) * (x1 - y1) + (x2 - y2) * (x2 - y2)) * hM

/-- **the moving ball contains the moving shape (2-D)** -/
theorem ball_contains2 (m : C07.Motion2 K) (M : Iso2 K) (c x : V2 K) (r2 : K) (hs : Unit2 m.start) (hM : Unit2 M)
    (hx : letI := fieldNum K sq; (x.sub c).normSq ≤ r2) :
    letI := fieldNum K sq
    (((m.positionAt M).act x).sub (((m.prependTranslation c).positionAt M).act V2.zero)).normSq ≤ r2 := by
  letI := fieldNum K sq
  have h := prependTranslation2_tracks sq m M c V2.zero hs
  have z : (V2.zero : V2 K).add c = c := by simp only [V2.add, V2.zero]; cases c; simp
  rw [z] at h
  rw [h, positionAt2_isometry sq m M x c hs hM]
  exact hx

/-- the slipped version (`append_translation`: the sphere centre is added in WORLD space) does not track the sphere centre
once the start pose is rotated: start pose = quarter turn, sphere centre `c = (1, 0)`, time 0 (`M` = identity).  The
shape's pose maps `c` to `(0, 1)`; the ball built with `prepend_translation` is centred there, the one built with
`append_translation` is centred at `(1, 0)` – at distance `√2` from where it should be. -/
example :
    letI := fieldNum ℚ id
    let m : C07.Motion2 ℚ := ⟨⟨0, 1, ⟨0, 0⟩⟩, ⟨0, 0⟩, ⟨0, 0⟩, 0⟩
    let M : Iso2 ℚ := ⟨1, 0, ⟨0, 0⟩⟩
    (m.positionAt M).act ⟨1, 0⟩ = ⟨0, 1⟩ ∧
    ((m.prependTranslation ⟨1, 0⟩).positionAt M).act ⟨0, 0⟩ = ⟨0, 1⟩ ∧
    ((m.appendTranslation ⟨1, 0⟩).positionAt M).act ⟨0, 0⟩ = ⟨1, 0⟩ := by
  simp only [C07.Motion2.positionAt, C07.Motion2.prependTranslation, C07.Motion2.appendTranslation, C07.Motion2.setStart, tMul2, mulT2,
    Iso2.mul, Iso2.act, Iso2.rot, Iso2.invAct, Iso2.invRot, V2.add, V2.sub, V2.neg, V2.mk.injEq]
  norm_num

end C07
