/-!
# C07 model: the traversals of `partitioning/qbvh/traversal.rs` over an abstract bounding-volume tree

The tree is abstract (any branching factor, any shape): a subtree carries the box under which its parent stores it
(the lane box of `QbvhNode::simd_aabb`); leaves carry a payload.  `B` = boxes, `L` = leaf payloads, `C` = costs.
* `dfs` / `dfsLoop`  – `traverse_depth_first*` / `intersect_aabb`: a lane is entered iff the visitor's predicate holds on
  the lane box (the `bitmask`), leaves whose lane passes are reported;
* `bestFirst`        – `traverse_best_first_node`: a priority queue ordered by the lane weight, the cut-off
  `-entry.cost >= best_cost`, leaves update `best_cost` when `weights[ii] < best_cost`.
Import-free; comparisons are passed as Boolean functions so that the model runs at `Float` and the theorems use any
linear order.
-/
namespace Model
namespace Bvh

inductive Tree (B L : Type) where
  | leaf (box : B) (data : L)
  | node (box : B) (children : List (Tree B L))

namespace Tree
variable {B L : Type}

def box : Tree B L → B
  | leaf b _ => b
  | node b _ => b

mutual
/-- all leaves `(stored box, payload)` of a tree -/
def leaves : Tree B L → List (B × L)
  | leaf b d => [(b, d)]
  | node _ cs => leavesList cs
def leavesList : List (Tree B L) → List (B × L)
  | [] => []
  | t :: ts => leaves t ++ leavesList ts
end

mutual
/-- number of nodes (fuel for the iterative traversals) -/
def size : Tree B L → Nat
  | leaf _ _ => 1
  | node _ cs => 1 + sizeList cs
def sizeList : List (Tree B L) → Nat
  | [] => 0
  | t :: ts => size t + sizeList ts
end

mutual
/-- recursive depth-first traversal: a subtree is entered iff `pred` holds on its box -/
def dfs (pred : B → Bool) : Tree B L → List L
  | leaf b d => if pred b then [d] else []
  | node b cs => if pred b then dfsList pred cs else []
def dfsList (pred : B → Bool) : List (Tree B L) → List L
  | [] => []
  | t :: ts => dfs pred t ++ dfsList pred ts
end

/-- one step of the iterative traversal on the popped entry: children whose box passes are pushed in lane order
(so the last lane is popped first, as with `Vec::push`/`pop`), a passing leaf is reported -/
def expand (pred : B → Bool) (t : Tree B L) (stack : List (Tree B L)) (out : List L) : List (Tree B L) × List L :=
  match t with
  | leaf b d => if pred b then (stack, d :: out) else (stack, out)
  | node b cs => if pred b then (cs.reverse ++ stack, out) else (stack, out)

/-- `while let Some(entry) = stack.pop()` with fuel; `out` accumulates in reverse -/
def dfsLoop (pred : B → Bool) : Nat → List (Tree B L) → List L → Option (List L)
  | _, [], out => some out.reverse
  | 0, _ :: _, _ => none
  | fuel + 1, t :: stack, out =>
    let r := expand pred t stack out
    dfsLoop pred fuel r.1 r.2

/-! ## best-first search -/
variable {C : Type}

/-- remove a minimal-cost entry of the queue (`BinaryHeap::pop` on `WeightedValue` with negated cost) -/
def popMin (lt : C → C → Bool) : List (C × Tree B L) → Option ((C × Tree B L) × List (C × Tree B L))
  | [] => none
  | e :: es =>
    match popMin lt es with
    | none => some (e, [])
    | some (m, rest) => if lt m.1 e.1 then some (m, e :: rest) else some (e, m :: rest)

/-- `c < best_cost` (`best_cost` starts at `+∞`) -/
def beats (lt : C → C → Bool) (c : C) (best : Option (C × L)) : Bool :=
  match best with
  | none => true
  | some (bc, _) => lt c bc

/-- the lanes of one popped node: a leaf lane improves `best` when its cost is strictly smaller; an internal lane is
queued with its weight unless the mask (`weight < best_cost`) rejects it -/
def visitLanes (lt : C → C → Bool) (boxCost : B → C) (leafCost : B → L → C) :
    List (Tree B L) → List (C × Tree B L) → Option (C × L) → List (C × Tree B L) × Option (C × L)
  | [], queue, best => (queue, best)
  | leaf b d :: cs, queue, best =>
    let c := leafCost b d
    visitLanes lt boxCost leafCost cs queue (if beats lt c best then some (c, d) else best)
  | node b cs' :: cs, queue, best =>
    let w := boxCost b
    visitLanes lt boxCost leafCost cs (if beats lt w best then (w, node b cs') :: queue else queue) best

/-- `traverse_best_first_node`: pop the cheapest entry, stop when it cannot beat `best`, otherwise visit its lanes -/
def bestFirstLoop (lt : C → C → Bool) (boxCost : B → C) (leafCost : B → L → C) :
    Nat → List (C × Tree B L) → Option (C × L) → Option (Option (C × L))
  | 0, queue, best => if queue.isEmpty then some best else none
  | fuel + 1, queue, best =>
    match popMin lt queue with
    | none => some best
    | some ((c, t), rest) =>
      if !(beats lt c best) then some best          -- `-entry.cost >= best_cost`
      else match t with
        | leaf b d => bestFirstLoop lt boxCost leafCost fuel rest (visitLanes lt boxCost leafCost [leaf b d] rest best).2
        | node _ cs =>
          let r := visitLanes lt boxCost leafCost cs rest best
          bestFirstLoop lt boxCost leafCost fuel r.1 r.2

/-- best-first search from the root's lanes; the result is the best `(cost, payload)` found -/
def bestFirst (lt : C → C → Bool) (boxCost : B → C) (leafCost : B → L → C) (t : Tree B L) : Option (Option (C × L)) :=
  bestFirstLoop lt boxCost leafCost (size t + 1) [(boxCost t.box, t)] none

/-! ## simultaneous traversal of two trees (`traverse_bvtt`) -/

/-- recursive two-tree traversal: a pair of subtrees is entered iff the pair predicate holds on their boxes; leaf/leaf
pairs that pass are reported; a leaf against an internal node descends in the internal node only -/
def pairs {B L : Type} (pp : B → B → Bool) : Nat → Tree B L → Tree B L → List (L × L)
  | 0, _, _ => []
  | f + 1, t1, t2 =>
    if pp t1.box t2.box then
      match t1, t2 with
      | leaf _ d1, leaf _ d2 => [(d1, d2)]
      | leaf b1 d1, node _ cs2 => cs2.flatMap fun c2 => pairs pp f (leaf b1 d1) c2
      | node _ cs1, leaf b2 d2 => cs1.flatMap fun c1 => pairs pp f c1 (leaf b2 d2)
      | node _ cs1, node _ cs2 => cs1.flatMap fun c1 => cs2.flatMap fun c2 => pairs pp f c1 c2
    else []

end Tree
end Bvh
end Model
