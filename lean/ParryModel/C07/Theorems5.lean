import ParryModel.Field
import ParryModel.C07.Model3
import ParryModel.C07.Theorems2
import Mathlib.Analysis.Real.Sqrt
/-!
# C07 theorems, part 5: the composite distance visitor prunes nothing that could matter

`CompositeShapeAgainstAnyDistanceVisitor` (`distance_composite_shape_shape.rs`) bounds the distance between everything below
a BVH lane and the other shape by `distance_to_origin` of the Minkowski-sum box built with `msum_shift =
-ls_aabb2.center()` and `msum_margin = ls_aabb2.half_extents()`, `ls_aabb2` = the box of the other shape in the composite's
frame (`Model.C07.dvVisit3/2`, bit-exact legs `dv3_visit` / `dv2_visit` on the real visitor).

* `dvWeight{3,2}_lower_bound(_sq)` – with exactly this shift and margin the lane weight is `≤ |p1 - p2|` for every `p1` in the
  lane box and every `p2` in `ls_aabb2`, WHATEVER the position of `ls_aabb2` relative to the other shape's origin (the
  slip `shift = -pos12.translation` is refuted by a worked example: an off-centre box);
* `dvWeight{3,2}_antitone(_sq)` – the weight can only shrink when the lane box grows;
* `LB_of_nested_on` – the generic step (leaf hypothesis only for the leaves of the tree at hand);
* `dvWeight3_LB` / `dvWeight2_LB` – on every nested tree whose leaf boxes contain their parts, every lane weight is a lower
  bound of the distance of EVERY part below the lane to the other shape (the statement asked for in the property: the bound
  "only prunes work");
* `distVisitor_optimal3` / `distVisitor_optimal2` – hence the best-first traversal returns the minimum over all parts of the
  per-part distance;
* `tvVisit{3,2}_lower_bound` – the linear shape-cast visitor (`Model.C07.tvVisit3/2`, legs `tv3_visit` / `tv2_visit`): margin
  `half_extents + target_distance`, ray from the origin along `vel12`: a lane holding a part that the moving shape approaches to
  within `target_distance` at a time `t ≤ max_toi` is kept with weight `≤ t`.
-/
namespace C07
open Model Model.C07 Model.Bvh Model.Bvh.Tree
set_option linter.unusedSectionVars false
set_option linter.unusedVariables false
set_option linter.style.haveILetI false

section lbon
variable {B L C : Type} [LinearOrder C]

mutual
private theorem box_le_leaf_on (contains : B → B → Prop) (boxCost : B → C) (leafCost : B → L → C)
    (hanti : ∀ A a : B, contains A a → boxCost A ≤ boxCost a) :
    ∀ (t : Tree B L), Nested contains t → (∀ p ∈ leaves t, boxCost p.1 ≤ leafCost p.1 p.2) →
      ∀ p ∈ leaves t, boxCost t.box ≤ leafCost p.1 p.2
  | .leaf b d, _, hl, p, hp => by
    have h := hl p hp
    simp only [leaves, List.mem_singleton] at hp
    subst hp; exact h
  | .node b cs, hn, hl, p, hp => by
    simp only [leaves] at hp hl
    exact box_le_leaf_list_on contains boxCost leafCost hanti b cs hn hl p hp
private theorem box_le_leaf_list_on (contains : B → B → Prop) (boxCost : B → C) (leafCost : B → L → C)
    (hanti : ∀ A a : B, contains A a → boxCost A ≤ boxCost a) (b' : B) :
    ∀ (cs : List (Tree B L)), NestedList contains b' cs → (∀ p ∈ leavesList cs, boxCost p.1 ≤ leafCost p.1 p.2) →
      ∀ p ∈ leavesList cs, boxCost b' ≤ leafCost p.1 p.2
  | [], _, _, p, hp => by simp [leavesList] at hp
  | t :: ts, hn, hl, p, hp => by
    simp only [leavesList, List.mem_append] at hp
    obtain ⟨hc, hnt, hnts⟩ := hn
    have hl1 : ∀ p ∈ leaves t, boxCost p.1 ≤ leafCost p.1 p.2 := fun p hp =>
      hl p (by simp only [leavesList, List.mem_append]; exact Or.inl hp)
    have hl2 : ∀ p ∈ leavesList ts, boxCost p.1 ≤ leafCost p.1 p.2 := fun p hp =>
      hl p (by simp only [leavesList, List.mem_append]; exact Or.inr hp)
    rcases hp with h | h
    · exact le_trans (hanti _ _ hc) (box_le_leaf_on contains boxCost leafCost hanti t hnt hl1 p h)
    · exact box_le_leaf_list_on contains boxCost leafCost hanti b' ts hnts hl2 p h
end

mutual
/-- **`LB_of_nested_on`**: like `LB_of_nested`, but the per-leaf bound is only asked of the leaves of the tree at hand
(a part is only known to lie inside the box of ITS OWN leaf lane). -/
theorem LB_of_nested_on (contains : B → B → Prop) (boxCost : B → C) (leafCost : B → L → C)
    (hanti : ∀ A a : B, contains A a → boxCost A ≤ boxCost a) :
    ∀ (t : Tree B L), Nested contains t → (∀ p ∈ leaves t, boxCost p.1 ≤ leafCost p.1 p.2) → LB boxCost leafCost t
  | .leaf b d, _, hl => by
    simp only [LB]
    exact hl (b, d) (by simp [leaves])
  | .node b cs, hn, hl => by
    simp only [LB]
    simp only [leaves] at hl
    exact ⟨fun p hp => box_le_leaf_list_on contains boxCost leafCost hanti b cs hn hl p hp,
      LB_of_nested_list_on contains boxCost leafCost hanti b cs hn hl⟩
theorem LB_of_nested_list_on (contains : B → B → Prop) (boxCost : B → C) (leafCost : B → L → C)
    (hanti : ∀ A a : B, contains A a → boxCost A ≤ boxCost a) (b' : B) :
    ∀ (cs : List (Tree B L)), NestedList contains b' cs → (∀ p ∈ leavesList cs, boxCost p.1 ≤ leafCost p.1 p.2) →
      LBList boxCost leafCost cs
  | [], _, _ => by simp only [LBList]
  | t :: ts, hn, hl => by
    obtain ⟨_, hnt, hnts⟩ := hn
    simp only [LBList]
    have hl1 : ∀ p ∈ leaves t, boxCost p.1 ≤ leafCost p.1 p.2 := fun p hp =>
      hl p (by simp only [leavesList, List.mem_append]; exact Or.inl hp)
    have hl2 : ∀ p ∈ leavesList ts, boxCost p.1 ≤ leafCost p.1 p.2 := fun p hp =>
      hl p (by simp only [leavesList, List.mem_append]; exact Or.inr hp)
    exact ⟨LB_of_nested_on contains boxCost leafCost hanti t hnt hl1,
      LB_of_nested_list_on contains boxCost leafCost hanti b' ts hnts hl2⟩
end

end lbon

section dv
variable {K : Type} [Field K] [LinearOrder K] [IsStrictOrderedRing K] (sq : K → K)

private theorem sqrt_mono' (hs : LawfulSqrt sq) (a b : K) (ha : 0 ≤ a) (hab : a ≤ b) : sq a ≤ sq b := by
  have hb : 0 ≤ b := le_trans ha hab
  have h1 := hs.nonneg a ha
  have h2 := hs.nonneg b hb
  have e1 := hs.sq_mul a ha
  have e2 := hs.sq_mul b hb
  by_contra hc
  push Not at hc
  nlinarith

private theorem half_eq : ((mkRat 1 2 : Rat) : K) = 1 / 2 := by norm_num

/-- per axis: the origin-distance of `[lo, hi]` can only shrink when the interval grows -/
private theorem axis_origin_anti (Lo Hi lo hi : K) (h1 : Lo ≤ lo) (h2 : hi ≤ Hi) :
    max (max Lo (-Hi)) 0 * max (max Lo (-Hi)) 0 ≤ max (max lo (-hi)) 0 * max (max lo (-hi)) 0 := by
  have hle : max (max Lo (-Hi)) 0 ≤ max (max lo (-hi)) 0 :=
    max_le_max (max_le_max h1 (by linarith)) le_rfl
  exact mul_self_le_mul_self (le_max_right _ _) hle

/-- **distance visitor, lower bound (squared)**: with `shift = -ls_aabb2.center()` and `margin = ls_aabb2.half_extents()`
the squared lane weight is at most `|p1 - p2|²` for every `p1` in the lane box and `p2` in `ls_aabb2` – no assumption on where
`ls_aabb2` lies relative to the other shape's origin. -/
theorem dvWeight3_lower_bound_sq (aabb2 bv : Aabb3 K) (p1 p2 : V3 K) :
    letI := fieldNum K sq
    InBox bv p1 → InBox aabb2 p2 →
      (originShift (msumBox bv (dvShift3 aabb2) (dvMargin3 aabb2))).normSq ≤ (p1.sub p2).normSq := by
  letI := fieldNum K sq
  intro h1 h2
  refine msum_lower_bound_sq sq bv (V3.center aabb2.mins aabb2.maxs) ((aabb2.maxs.sub aabb2.mins).smul (lit 1 2)) p1 p2 h1 ?_
  obtain ⟨⟨b1, b2⟩, ⟨b3, b4⟩, b5, b6⟩ := h2
  simp only [InBox, V3.center, V3.sub, V3.add, V3.smul, fieldNum_lit, half_eq]
  refine ⟨⟨?_, ?_⟩, ⟨?_, ?_⟩, ?_, ?_⟩ <;> linarith

/-- the same with the square roots the code takes: `weight ≤ |p1 - p2|` -/
theorem dvWeight3_lower_bound (hs : LawfulSqrt sq) (aabb2 bv : Aabb3 K) (p1 p2 : V3 K) :
    letI := fieldNum K sq
    InBox bv p1 → InBox aabb2 p2 → dvWeight3 aabb2 bv ≤ (p1.sub p2).norm := by
  letI := fieldNum K sq
  intro h1 h2
  have h := dvWeight3_lower_bound_sq sq aabb2 bv p1 p2 h1 h2
  have h0 : 0 ≤ (originShift (msumBox bv (dvShift3 aabb2) (dvMargin3 aabb2))).normSq := by
    simp only [V3.normSq, V3.dot]
    nlinarith [mul_self_nonneg (originShift (msumBox bv (dvShift3 aabb2) (dvMargin3 aabb2))).x,
      mul_self_nonneg (originShift (msumBox bv (dvShift3 aabb2) (dvMargin3 aabb2))).y,
      mul_self_nonneg (originShift (msumBox bv (dvShift3 aabb2) (dvMargin3 aabb2))).z]
  exact sqrt_mono' sq hs _ _ h0 h

/-- **distance visitor, antitone (squared)** -/
theorem dvWeight3_antitone_sq (aabb2 A a : Aabb3 K) (hsub : Sub3 A a) :
    letI := fieldNum K sq
    (originShift (msumBox A (dvShift3 aabb2) (dvMargin3 aabb2))).normSq ≤
      (originShift (msumBox a (dvShift3 aabb2) (dvMargin3 aabb2))).normSq := by
  letI := fieldNum K sq
  obtain ⟨⟨s1, s2⟩, ⟨s3, s4⟩, s5, s6⟩ := hsub
  simp only [originShift, msumBox, V3.normSq, V3.dot, V3.sup, V3.add, V3.neg, V3.zero, fieldNum_nmax]
  have hx := axis_origin_anti (A.mins.x + (dvShift3 aabb2).x + -(dvMargin3 aabb2).x) (A.maxs.x + (dvShift3 aabb2).x + (dvMargin3 aabb2).x)
    (a.mins.x + (dvShift3 aabb2).x + -(dvMargin3 aabb2).x) (a.maxs.x + (dvShift3 aabb2).x + (dvMargin3 aabb2).x) (by linarith) (by linarith)
  have hy := axis_origin_anti (A.mins.y + (dvShift3 aabb2).y + -(dvMargin3 aabb2).y) (A.maxs.y + (dvShift3 aabb2).y + (dvMargin3 aabb2).y)
    (a.mins.y + (dvShift3 aabb2).y + -(dvMargin3 aabb2).y) (a.maxs.y + (dvShift3 aabb2).y + (dvMargin3 aabb2).y) (by linarith) (by linarith)
  have hz := axis_origin_anti (A.mins.z + (dvShift3 aabb2).z + -(dvMargin3 aabb2).z) (A.maxs.z + (dvShift3 aabb2).z + (dvMargin3 aabb2).z)
    (a.mins.z + (dvShift3 aabb2).z + -(dvMargin3 aabb2).z) (a.maxs.z + (dvShift3 aabb2).z + (dvMargin3 aabb2).z) (by linarith) (by linarith)
  linarith

theorem dvWeight3_antitone (hs : LawfulSqrt sq) (aabb2 A a : Aabb3 K) (hsub : Sub3 A a) :
    letI := fieldNum K sq
    dvWeight3 aabb2 A ≤ dvWeight3 aabb2 a := by
  letI := fieldNum K sq
  have h := dvWeight3_antitone_sq sq aabb2 A a hsub
  have h0 : 0 ≤ (originShift (msumBox A (dvShift3 aabb2) (dvMargin3 aabb2))).normSq := by
    simp only [V3.normSq, V3.dot]
    nlinarith [mul_self_nonneg (originShift (msumBox A (dvShift3 aabb2) (dvMargin3 aabb2))).x,
      mul_self_nonneg (originShift (msumBox A (dvShift3 aabb2) (dvMargin3 aabb2))).y,
      mul_self_nonneg (originShift (msumBox A (dvShift3 aabb2) (dvMargin3 aabb2))).z]
  exact sqrt_mono' sq hs _ _ h0 h

/-- **the per-node bound of the composite distance visitor is a lower bound of every part distance below the node.**
`t` is any nested tree; `part d` is the point set of the part with payload `d`, `g2` the point set of the other shape (both
in the composite's frame); every leaf box contains its part, `ls_aabb2` contains `g2`; `leafCost b d` is the distance the
dispatcher returns for part `d`, only assumed to be `≥` every common lower bound of the point-pair distances (true of the
exact distance, an infimum).  Then `LB`: every lane weight is `≤` the cost of every leaf below it. -/
theorem dvWeight3_LB (hs : LawfulSqrt sq) {L : Type} (aabb2 : Aabb3 K) (part : L → V3 K → Prop) (g2 : V3 K → Prop)
    (leafCost : Aabb3 K → L → K) (t : Tree (Aabb3 K) L) (hn : Nested Sub3 t) :
    letI := fieldNum K sq
    (∀ p, g2 p → InBox aabb2 p) →
    (∀ bd ∈ leaves t, (∀ p, part bd.2 p → InBox bd.1 p) ∧
      ∀ m : K, (∀ p1 p2, part bd.2 p1 → g2 p2 → m ≤ (p1.sub p2).norm) → m ≤ leafCost bd.1 bd.2) →
    LB (dvWeight3 aabb2) leafCost t := by
  letI := fieldNum K sq
  intro hg hl
  refine LB_of_nested_on Sub3 (dvWeight3 aabb2) leafCost (fun A a h => dvWeight3_antitone sq hs aabb2 A a h) t hn ?_
  intro bd hbd
  obtain ⟨hin, hinf⟩ := hl bd hbd
  exact hinf _ (fun p1 p2 h1 h2 => dvWeight3_lower_bound sq hs aabb2 bd.1 p1 p2 (hin p1 h1) (hg p2 h2))

/-- **`distance(composite, shape)` = the minimum over the parts**: under the hypotheses of `dvWeight3_LB` the best-first
traversal with the visitor's lane weight terminates within its fuel and returns a part whose distance is `≤` the distance
of every part (`none` only for a tree without leaves). -/
theorem distVisitor_optimal3 (hs : LawfulSqrt sq) {L : Type} (aabb2 : Aabb3 K) (part : L → V3 K → Prop) (g2 : V3 K → Prop)
    (leafCost : Aabb3 K → L → K) (t : Tree (Aabb3 K) L) (hn : Nested Sub3 t) :
    letI := fieldNum K sq
    (∀ p, g2 p → InBox aabb2 p) →
    (∀ bd ∈ leaves t, (∀ p, part bd.2 p → InBox bd.1 p) ∧
      ∀ m : K, (∀ p1 p2, part bd.2 p1 → g2 p2 → m ≤ (p1.sub p2).norm) → m ≤ leafCost bd.1 bd.2) →
    ∃ res : Option (K × L), bestFirst ltb (dvWeight3 aabb2) leafCost t = some res ∧
      (∀ (c : K) (d : L), res = some (c, d) → (∃ b, (b, d) ∈ leaves t ∧ leafCost b d = c) ∧
          ∀ p ∈ leaves t, c ≤ leafCost p.1 p.2) ∧
      (res = none → leaves t = []) := by
  letI := fieldNum K sq
  intro hg hl
  exact bestFirst_optimal (dvWeight3 aabb2) leafCost t (dvWeight3_LB sq hs aabb2 part g2 leafCost t hn hg hl)

/-! ### 2-D -/

private theorem axis_lb2 (lo hi x : K) (h1 : lo ≤ x) (h2 : x ≤ hi) :
    max (max lo (-hi)) 0 * max (max lo (-hi)) 0 ≤ x * x := axis_lower_bound lo hi x h1 h2

/-- the vector whose norm is the 2-D `distance_to_origin` -/
def originShift2 (b : Aabb2 K) : V2 K :=
  letI := fieldNum K sq
  (b.mins.sup b.maxs.neg).sup V2.zero

theorem dvWeight2_lower_bound_sq (aabb2 bv : Aabb2 K) (p1 p2 : V2 K) :
    letI := fieldNum K sq
    InBox2 bv p1 → InBox2 aabb2 p2 →
      (originShift2 sq (msumBox2 bv (dvShift2 aabb2) (dvMargin2 aabb2))).normSq ≤ (p1.sub p2).normSq := by
  letI := fieldNum K sq
  rintro ⟨⟨a1, a2⟩, a3, a4⟩ ⟨⟨b1, b2⟩, b3, b4⟩
  simp only [originShift2, msumBox2, dvShift2, dvMargin2, V2.center, V2.normSq, V2.dot, V2.sup, V2.add, V2.neg, V2.sub, V2.smul,
    V2.zero, fieldNum_nmax, fieldNum_lit, half_eq]
  have hx := axis_lb2 (bv.mins.x + -((aabb2.mins.x + aabb2.maxs.x) * (1 / 2)) + -((aabb2.maxs.x - aabb2.mins.x) * (1 / 2)))
    (bv.maxs.x + -((aabb2.mins.x + aabb2.maxs.x) * (1 / 2)) + (aabb2.maxs.x - aabb2.mins.x) * (1 / 2)) (p1.x - p2.x) (by linarith) (by linarith)
  have hy := axis_lb2 (bv.mins.y + -((aabb2.mins.y + aabb2.maxs.y) * (1 / 2)) + -((aabb2.maxs.y - aabb2.mins.y) * (1 / 2)))
    (bv.maxs.y + -((aabb2.mins.y + aabb2.maxs.y) * (1 / 2)) + (aabb2.maxs.y - aabb2.mins.y) * (1 / 2)) (p1.y - p2.y) (by linarith) (by linarith)
  linarith

theorem dvWeight2_lower_bound (hs : LawfulSqrt sq) (aabb2 bv : Aabb2 K) (p1 p2 : V2 K) :
    letI := fieldNum K sq
    InBox2 bv p1 → InBox2 aabb2 p2 → dvWeight2 aabb2 bv ≤ (p1.sub p2).norm := by
  letI := fieldNum K sq
  intro h1 h2
  have h := dvWeight2_lower_bound_sq sq aabb2 bv p1 p2 h1 h2
  have h0 : 0 ≤ (originShift2 sq (msumBox2 bv (dvShift2 aabb2) (dvMargin2 aabb2))).normSq := by
    simp only [V2.normSq, V2.dot]
    nlinarith [mul_self_nonneg (originShift2 sq (msumBox2 bv (dvShift2 aabb2) (dvMargin2 aabb2))).x,
      mul_self_nonneg (originShift2 sq (msumBox2 bv (dvShift2 aabb2) (dvMargin2 aabb2))).y]
  exact sqrt_mono' sq hs _ _ h0 h

theorem dvWeight2_antitone_sq (aabb2 A a : Aabb2 K) (hsub : Sub2 A a) :
    letI := fieldNum K sq
    (originShift2 sq (msumBox2 A (dvShift2 aabb2) (dvMargin2 aabb2))).normSq ≤
      (originShift2 sq (msumBox2 a (dvShift2 aabb2) (dvMargin2 aabb2))).normSq := by
  letI := fieldNum K sq
  obtain ⟨⟨s1, s2⟩, s3, s4⟩ := hsub
  simp only [originShift2, msumBox2, V2.normSq, V2.dot, V2.sup, V2.add, V2.neg, V2.zero, fieldNum_nmax]
  have hx := axis_origin_anti (A.mins.x + (dvShift2 aabb2).x + -(dvMargin2 aabb2).x) (A.maxs.x + (dvShift2 aabb2).x + (dvMargin2 aabb2).x)
    (a.mins.x + (dvShift2 aabb2).x + -(dvMargin2 aabb2).x) (a.maxs.x + (dvShift2 aabb2).x + (dvMargin2 aabb2).x) (by linarith) (by linarith)
  have hy := axis_origin_anti (A.mins.y + (dvShift2 aabb2).y + -(dvMargin2 aabb2).y) (A.maxs.y + (dvShift2 aabb2).y + (dvMargin2 aabb2).y)
    (a.mins.y + (dvShift2 aabb2).y + -(dvMargin2 aabb2).y) (a.maxs.y + (dvShift2 aabb2).y + (dvMargin2 aabb2).y) (by linarith) (by linarith)
  linarith

theorem dvWeight2_antitone (hs : LawfulSqrt sq) (aabb2 A a : Aabb2 K) (hsub : Sub2 A a) :
    letI := fieldNum K sq
    dvWeight2 aabb2 A ≤ dvWeight2 aabb2 a := by
  letI := fieldNum K sq
  have h := dvWeight2_antitone_sq sq aabb2 A a hsub
  have h0 : 0 ≤ (originShift2 sq (msumBox2 A (dvShift2 aabb2) (dvMargin2 aabb2))).normSq := by
    simp only [V2.normSq, V2.dot]
    nlinarith [mul_self_nonneg (originShift2 sq (msumBox2 A (dvShift2 aabb2) (dvMargin2 aabb2))).x,
      mul_self_nonneg (originShift2 sq (msumBox2 A (dvShift2 aabb2) (dvMargin2 aabb2))).y]
  exact sqrt_mono' sq hs _ _ h0 h

theorem dvWeight2_LB (hs : LawfulSqrt sq) {L : Type} (aabb2 : Aabb2 K) (part : L → V2 K → Prop) (g2 : V2 K → Prop)
    (leafCost : Aabb2 K → L → K) (t : Tree (Aabb2 K) L) (hn : Nested Sub2 t) :
    letI := fieldNum K sq
    (∀ p, g2 p → InBox2 aabb2 p) →
    (∀ bd ∈ leaves t, (∀ p, part bd.2 p → InBox2 bd.1 p) ∧
      ∀ m : K, (∀ p1 p2, part bd.2 p1 → g2 p2 → m ≤ (p1.sub p2).norm) → m ≤ leafCost bd.1 bd.2) →
    LB (dvWeight2 aabb2) leafCost t := by
  letI := fieldNum K sq
  intro hg hl
  refine LB_of_nested_on Sub2 (dvWeight2 aabb2) leafCost (fun A a h => dvWeight2_antitone sq hs aabb2 A a h) t hn ?_
  intro bd hbd
  obtain ⟨hin, hinf⟩ := hl bd hbd
  exact hinf _ (fun p1 p2 h1 h2 => dvWeight2_lower_bound sq hs aabb2 bd.1 p1 p2 (hin p1 h1) (hg p2 h2))

theorem distVisitor_optimal2 (hs : LawfulSqrt sq) {L : Type} (aabb2 : Aabb2 K) (part : L → V2 K → Prop) (g2 : V2 K → Prop)
    (leafCost : Aabb2 K → L → K) (t : Tree (Aabb2 K) L) (hn : Nested Sub2 t) :
    letI := fieldNum K sq
    (∀ p, g2 p → InBox2 aabb2 p) →
    (∀ bd ∈ leaves t, (∀ p, part bd.2 p → InBox2 bd.1 p) ∧
      ∀ m : K, (∀ p1 p2, part bd.2 p1 → g2 p2 → m ≤ (p1.sub p2).norm) → m ≤ leafCost bd.1 bd.2) →
    ∃ res : Option (K × L), bestFirst ltb (dvWeight2 aabb2) leafCost t = some res ∧
      (∀ (c : K) (d : L), res = some (c, d) → (∃ b, (b, d) ∈ leaves t ∧ leafCost b d = c) ∧
          ∀ p ∈ leaves t, c ≤ leafCost p.1 p.2) ∧
      (res = none → leaves t = []) := by
  letI := fieldNum K sq
  intro hg hl
  exact bestFirst_optimal (dvWeight2 aabb2) leafCost t (dvWeight2_LB sq hs aabb2 part g2 leafCost t hn hg hl)

/-- the slip `shift = -pos12.translation` (origin of the other shape instead of the centre of its box) is NOT a lower
bound: other shape = a segment from `(2,0,0)` to `(4,0,0)` at the identity pose (box `[2,4]`, origin `0`), lane box `[5,6]`:
true gap `1`, correct bound `max(5 - 3 - 1, …) = 1`, slipped bound `max(5 - 0 - 1, …) = 4` -/
example : (5 - 4 : ℚ) = 1 ∧ max (max (5 + -((2 + 4) * (1 / 2)) + -((4 - 2) * (1 / 2)) : ℚ) (-(6 + -((2 + 4) * (1 / 2)) + (4 - 2) * (1 / 2)))) 0 = 1 ∧
    max (max (5 + -0 + -((4 - 2) * (1 / 2)) : ℚ) (-(6 + -0 + (4 - 2) * (1 / 2)))) 0 = 4 := by
  refine ⟨by norm_num, ?_, ?_⟩ <;> norm_num

/-- non-vacuity of `dvWeight3_LB` / `distVisitor_optimal3` (over `ℝ` with `Real.sqrt`): a two-leaf nested tree of point
parts `(5,0,0)`, `(9,0,0)` (payload = the point) against the point shape `(3,0,0)` (box `[3,3]`, off-centre w.r.t. the origin), the
exact distance as leaf cost: all hypotheses hold. -/
example : letI := fieldNum ℝ Real.sqrt
    let t : Model.Bvh.Tree (Aabb3 ℝ) (V3 ℝ) := Model.Bvh.Tree.node (⟨⟨5, 0, 0⟩, ⟨9, 0, 0⟩⟩ : Aabb3 ℝ)
      [Model.Bvh.Tree.leaf ⟨⟨5, 0, 0⟩, ⟨5, 0, 0⟩⟩ (⟨5, 0, 0⟩ : V3 ℝ), Model.Bvh.Tree.leaf ⟨⟨9, 0, 0⟩, ⟨9, 0, 0⟩⟩ ⟨9, 0, 0⟩]
    let c : V3 ℝ := ⟨3, 0, 0⟩
    LawfulSqrt Real.sqrt ∧ Nested Sub3 t ∧ (∀ p, p = c → InBox (⟨c, c⟩ : Aabb3 ℝ) p) ∧
    (∀ bd ∈ leaves t, (∀ p, p = bd.2 → InBox bd.1 p) ∧
      ∀ m : ℝ, (∀ p1 p2, p1 = bd.2 → p2 = c → m ≤ (p1.sub p2).norm) → m ≤ (bd.2.sub c).norm) := by
  letI := fieldNum ℝ Real.sqrt
  intro t c
  refine ⟨⟨fun x _ => Real.sqrt_nonneg x, fun _ hx => Real.mul_self_sqrt hx⟩, ?_, ?_, ?_⟩
  · simp only [t, Nested, NestedList, Model.Bvh.Tree.box, Sub3]; norm_num
  · rintro p rfl; simp only [InBox, c]; norm_num
  · intro bd hbd
    refine ⟨?_, fun m hm => hm bd.2 c rfl rfl⟩
    simp only [t, leaves, leavesList, List.append_nil, List.singleton_append, List.mem_cons, List.not_mem_nil, or_false] at hbd
    rcases hbd with rfl | rfl <;> (rintro p rfl; simp only [InBox]; norm_num)

/-! ### the linear shape-cast visitor -/

/-- **shape-cast visitor, lower bound (3-D)**: if at some time `0 ≤ t ≤ max_toi` a point `p1` of the lane box and a point `p2`
of `ls_aabb2` translated by `t·vel12` are within `target_distance` of each other on every axis (in particular: the part and
the moving shape touch, or are at Euclidean distance `≤ target_distance`), then the lane of
`TOICompositeShapeShapeBestFirstVisitor::visit` is not masked out and its weight is `≤ t` – the Minkowski-sum box with
`shift = -ls_aabb2.center()`, `margin = ls_aabb2.half_extents() + target_distance` never prunes a part that could give
an earlier impact. -/
theorem tvVisit3_lower_bound (big : K) (aabb2 bv : Aabb3 K) (td : K) (vel : V3 K) (maxToi t : K) (p1 p2 : V3 K)
    (ht0 : 0 ≤ t) (htm : t ≤ maxToi) (hbig : maxToi ≤ big) :
    letI := fieldNum K sq
    InBox bv p1 → InBox aabb2 p2 →
    |p1.x - (p2.x + t * vel.x)| ≤ td → |p1.y - (p2.y + t * vel.y)| ≤ td → |p1.z - (p2.z + t * vel.z)| ≤ td →
    (tvVisit3 big aabb2 td vel maxToi bv).1 = true ∧ (tvVisit3 big aabb2 td vel maxToi bv).2 ≤ t := by
  letI := fieldNum K sq
  rintro ⟨⟨a1, a2⟩, ⟨a3, a4⟩, a5, a6⟩ ⟨⟨b1, b2⟩, ⟨b3, b4⟩, b5, b6⟩ hx hy hz
  rw [abs_le] at hx hy hz
  refine laneCastRay3_lower_bound sq big _ V3.zero vel maxToi t ht0 htm hbig ?_
  simp only [InBox, rayPoint3, msumBox, dvShift3, dvMargin3, tvMargin3, V3.center, V3.add, V3.neg, V3.sub, V3.smul, V3.zero,
    fieldNum_lit, half_eq]
  refine ⟨⟨?_, ?_⟩, ⟨?_, ?_⟩, ?_, ?_⟩ <;> linarith [hx.1, hx.2, hy.1, hy.2, hz.1, hz.2]

/-- **shape-cast visitor, lower bound (2-D)** -/
theorem tvVisit2_lower_bound (big : K) (aabb2 bv : Aabb2 K) (td : K) (vel : V2 K) (maxToi t : K) (p1 p2 : V2 K)
    (ht0 : 0 ≤ t) (htm : t ≤ maxToi) (hbig : maxToi ≤ big) :
    letI := fieldNum K sq
    InBox2 bv p1 → InBox2 aabb2 p2 →
    |p1.x - (p2.x + t * vel.x)| ≤ td → |p1.y - (p2.y + t * vel.y)| ≤ td →
    (tvVisit2 big aabb2 td vel maxToi bv).1 = true ∧ (tvVisit2 big aabb2 td vel maxToi bv).2 ≤ t := by
  letI := fieldNum K sq
  rintro ⟨⟨a1, a2⟩, a3, a4⟩ ⟨⟨b1, b2⟩, b3, b4⟩ hx hy
  rw [abs_le] at hx hy
  refine laneCastRay2_lower_bound sq big _ V2.zero vel maxToi t ht0 htm hbig ?_
  simp only [InBox2, rayPoint2, msumBox2, dvShift2, dvMargin2, tvMargin2, V2.center, V2.add, V2.neg, V2.sub, V2.smul, V2.zero,
    fieldNum_lit, half_eq]
  refine ⟨⟨?_, ?_⟩, ?_, ?_⟩ <;> linarith [hx.1, hx.2, hy.1, hy.2]

/-- non-vacuity of `tvVisit2_lower_bound`: lane box `[4,5]×[0,1]`, other box `[0,1]×[0,1]` moving with `vel = (1,0)`:
`p1 = (4,0)`, `p2 = (1,0)` meet at `t = 3 ≤ max_toi = 3` (a hit exactly at the time limit), `target_distance = 0` -/
example : InBox2 (K := ℚ) ⟨⟨4, 0⟩, ⟨5, 1⟩⟩ ⟨4, 0⟩ ∧ InBox2 (K := ℚ) ⟨⟨0, 0⟩, ⟨1, 1⟩⟩ ⟨1, 0⟩ ∧
    |(4 : ℚ) - (1 + 3 * 1)| ≤ 0 ∧ |(0 : ℚ) - (0 + 3 * 0)| ≤ 0 ∧ (0 : ℚ) ≤ 3 ∧ (3 : ℚ) ≤ 3 := by
  refine ⟨⟨⟨?_, ?_⟩, ?_, ?_⟩, ⟨⟨?_, ?_⟩, ?_, ?_⟩, ?_, ?_, ?_, ?_⟩ <;> norm_num

end dv
end C07
