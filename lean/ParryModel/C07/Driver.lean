import ParryModel.Proto
import ParryModel.C07.Link
import ParryModel.C08.Driver
import ParryModel.C07.Driver2
import ParryModel.C07.Driver3
/-!
C07 protocol handler.  `bf_point`: a QBVH history (as in C08 `hist`) followed by a point; the real
`Qbvh::traverse_best_first` runs with a point-distance visitor (lane weight = squared distance to the lane box, leaf
cost = squared distance to the leaf's current box).  The model unfolds the C08 model state into the abstract tree and
runs `Model.Bvh.Tree.bestFirst` at `Float`; the oracle is the brute-force minimum over the live leaves in exact
arithmetic.
-/
namespace C07
open Model Model.Qbvh Model.Bvh Proto

def pbf : P (List C08.POp × V3 Float) := do let ops ← plist C08.pop; let p ← pv3; pend; pure (ops, p)

def fltB (a b : Float) : Bool := a < b

def dist2Q (p : V3 Rat) (b : Aabb3 Rat) : Rat := dist2 p b

/-! ## `composite_*`: the real composite query against the brute-force reduction of the same real per-part query
(implementation vs implementation; the harness prints `<composite> ; <brute force> [; <qualifier>]`) -/

inductive Item where
  | val (x : Float)
  | tok (t : String)
deriving Inhabited

def parseItems : List String → List Item
  | [] => []
  | "v" :: x :: rest => (match pfo1 x with | some f => Item.val f | none => Item.tok x) :: parseItems rest
  | t :: rest => Item.tok t :: parseItems rest
where
  pfo1 (t : String) : Option Float := if t = "nan" then some (0.0 / 0.0) else FloatIO.ofHex? t

def splitSemi (toks : List String) : List (List String) :=
  let rec go (acc : List String) (segs : List (List String)) : List String → List (List String)
    | [] => (acc.reverse :: segs).reverse
    | ";" :: rest => go [] (acc.reverse :: segs) rest
    | t :: rest => go (t :: acc) segs rest
  go [] [] toks

/-- tolerance of the per-part routines (GJK-based distances and times of impact are accurate to ~5e-8 relative) -/
def tolC : Rat := 1 / 1000000
def closeF (a b : Float) : Bool :=
  FloatIO.isFinite a && FloatIO.isFinite b && leTol (q a) (q b) tolC && leTol (q b) (q a) tolC

/-- one scalar answer against its brute-force counterpart; `lim` = the cut-off parameter (margin / prediction /
max time of impact) at which "no answer" and "an answer" legitimately meet -/
def closeTol (tol : Rat) (a b : Float) : Bool :=
  FloatIO.isFinite a && FloatIO.isFinite b && leTol (q a) (q b) tol && leTol (q b) (q a) tol

def cmpItem (lim : Option Float) (a b : Item) (tol : Rat := tolC) : Option String :=
  match a, b with
  | .val x, .val y => if closeTol tol x y then none else some s!"value-differs composite={q x} parts={q y}"
  | .tok s, .tok t =>
    if s == t then none
    else if (s == "I" && t == "D") || (s == "D" && t == "I") then some s!"verdict-differs composite={s} parts={t}"
    else some s!"verdict-differs composite={s} parts={t}"
  | .tok s, .val y =>
    if s == "I" then (if closeF y 0.0 then none else some s!"composite-intersecting parts-gap={q y}")
    else match lim with
      | some l =>
        if closeF y l then none
        -- "no hit" against "hit at time 0": the ray / the shape starts exactly on the surface (a tie, not judged)
        else if closeF y 0.0 then some "tie start-on-surface"
        else some s!"composite={s} parts={q y}"
      | none => some s!"composite={s} parts={q y}"
  | .val x, .tok t =>
    if t == "I" then (if closeF x 0.0 then none else some s!"parts-intersecting composite-gap={q x}")
    else match lim with
      | some l =>
        if closeF x l then none
        else if closeF x 0.0 then some "tie start-on-surface"
        else some s!"composite={q x} parts={t}"
      | none => some s!"composite={q x} parts={t}"

def idsOf (t : String) : List Nat := (t.splitOn ",").filterMap String.toNat?

def compOracle (fn : String) (out : List String) : String :=
  match out with
  | "panic" :: rest => "fail panic " ++ " ".intercalate (rest.take 3)
  | _ =>
    match splitSemi out with
    | a :: b :: rest =>
      if a == ["unsupported"] then "skip unsupported-pair" else
      let qual := rest.head?.getD []
      let lim : Option Float := match qual with
        | ["lim", x] => FloatIO.ofHex? x
        | _ => none
      let tie : Option Float := match qual with
        | ["tie", "v", x] => FloatIO.ofHex? x
        | _ => none
      -- `exact`: every input coordinate is a small dyadic rational and no rounding occurs in any bounding-box computation
      -- (the harness checks the arguments): a touching configuration is then exactly touching for the code as well, the
      -- closed-box pruning tests must keep the touching part, and the composite answer must be the reduction of the
      -- per-part answers WITHOUT the boundary allowances (`lim`, `tie`) that absorb rounding in general position
      let exact := rest.any (· == ["exact"])
      if fn == "composite_aabb" || fn == "composite2_aabb" then
        match a, b with
        | ["sup", _], ["sup", n] => if n == "0" then "pass" else s!"fail overlapping-elements-not-reported {n}"
        | ["ids", x], ["ids", y] =>
          let got := idsOf x
          match (idsOf y).filter (fun i => !got.contains i) with
          | [] => "pass"
          | i :: _ => s!"fail overlapping-part-not-reported {i}"
        | ["ids"], ["ids"] => "pass"
        | ["ids", _], ["ids"] => "pass"
        | ["ids"], ["ids", y] => s!"fail overlapping-part-not-reported {y}"
        | _, _ => "fail unparsable-output"
      else
        let A := parseItems a
        let B := parseItems b
        if b == ["X"] then
          -- some part answers intersection_test = true although its own distance is positive: the per-part verdicts
          -- disagree among themselves (property C02), the composite (which says false) is not at fault
          s!"fail part-verdicts-inconsistent intersection_test=true-at-distance={match tie with | some t => toString (q t) | none => "?"}"
        else
        if A.length != B.length || A.isEmpty then "fail unparsable-output" else
        -- Boolean verdicts may differ only when the configuration is a tie (shapes / point exactly touching)
        let isTie := match tie with
          | some t => closeF t 0.0
          | none => false
        let isNl := fn == "composite_nlcast" || fn == "composite2_nlcast"
        let isRayOrCast := fn == "composite_ray" || fn == "composite2_ray" || fn == "composite_cast" || fn == "composite2_cast" || isNl
        -- rays and casts divide by direction components / iterate: their boundary allowances stay
        let strict := exact && !isRayOrCast
        let lim := if strict then none else lim
        -- times of impact of the GJK-based per-part casts are accurate to ~1e-5 relative on extreme aspect ratios
        -- composite against composite (`pair`): penetration depths (EPA) and distances of the pairs are reproduced through two
        -- levels of frame changes; they agree to ~1e-5
        let tol : Rat := if fn == "composite_cast" || fn == "composite2_cast" || isNl || rest.any (· == ["pair"]) then 1 / 10000 else tolC
        let probs := (A.zip B).filterMap (fun (x, y) => cmpItem lim x y tol)
        match probs.filter (fun w => !(isRayOrCast && w.startsWith "tie")) with
        | [] => if probs.isEmpty then "pass" else "skip tie start-on-surface"
        | why :: _ =>
          -- the composite misses the earliest part AND the real ball-vs-ball cast the visitor prunes that part's leaf with
          -- reports no impact by then: the pruning primitive is not conservative (root cause outside the traversal)
          -- a cast whose earliest pair only grazes (the boxes of the two parts overlap for a single instant): a tie, not judged
          if rest.any (· == ["graze"]) then "skip tie grazing-impact" else
          if isNl && rest.any (· == ["primmiss"]) then s!"fail pruning-primitive-missed-impact {why}" else
          if isTie && !strict && (fn == "composite_it" || fn == "composite_point" || fn == "composite2_it" || fn == "composite2_point")
              && why.startsWith "verdict-differs" then "skip tie"
          else s!"fail {why}"
    | _ => "fail unparsable-output"

def handler (fn : String) : Option Handler :=
  if fn.startsWith "composite_" || fn.startsWith "composite2_" then some {
    model := fun _ => some "-"
    oracle := fun _ o => compOracle fn o } else
  match fn with
  | "bf_point" => some {
      model := fun a => (run pbf a).map fun (ops, p) =>
        match C08.finalModel ops with
        | none => "PANIC"
        | some w =>
          if w.q.nodes.size = 0 then "none" else
          match Tree.bestFirst fltB (fun b => dist2 p b) (fun _ d => dist2 p (w.cur d)) (toTree w.q w.q.rootAabb) with
          | none => "HANG"
          | some none => "none"
          | some (some (c, _)) => s!"some {ff c}"
      oracle := fun a o => match run pbf a with
        | none => "skip bad-args"
        | some (ops, p) =>
          let live := C08.liveAfter ops
          let refitLast := match ops.getLast? with
            | some (.refit _) => true
            | _ => false
          if !refitLast then "skip history-does-not-end-with-refit" else
          let P := q3 p
          let costs := live.map fun (_, bx) => dist2Q P (C08.qbox bx)
          match o with
          | ["none"] => if live.isEmpty then "pass" else "fail none-but-leaves-exist"
          | ["some", c] =>
            match pfloatTokC c with
            | none => "fail unparsable-output"
            | some cf =>
              if !FloatIO.isFinite cf then "fail nonfinite-cost" else
              let C := q cf
              match costs with
              | [] => "fail some-but-no-leaf"
              | c0 :: cs =>
                let m := cs.foldl min c0
                if leTol C m tolDefault && leTol m C tolDefault then "pass"
                else s!"fail cost-not-minimal got={C} min={m}"
          | "PANIC" :: _ => "fail panic"
          | _ => "fail unparsable-output" }
  | _ => (handler2 fn).orElse fun _ => handler3 fn
where
  pfloatTokC (t : String) : Option Float := if t = "nan" then some (0.0 / 0.0) else FloatIO.ofHex? t

end C07
