import ParryModel.Proto
import ParryModel.C07.Link
import ParryModel.C08.Driver
/-!
C07 protocol handler.  `bf_point`: a QBVH history (as in C08 `hist`) followed by a point; the real
`Qbvh::traverse_best_first` runs with a point-distance visitor (lane weight = squared distance to the lane box, leaf
cost = squared distance to the leaf's current box).  The model unfolds the C08 model state into the abstract tree and
runs `Model.Bvh.Tree.bestFirst` at `Float`; the oracle is the brute-force minimum over the live leaves in exact
arithmetic.
-/
namespace C07
open Model Model.Qbvh Model.Bvh Proto

def pbf : P (List C08.POp × V3 Float) := do let ops ← plist C08.pop; let p ← pv3; pend; pure (ops, p)

def fltB (a b : Float) : Bool := a < b

def dist2Q (p : V3 Rat) (b : Aabb3 Rat) : Rat := dist2 p b

def handler (fn : String) : Option Handler :=
  match fn with
  | "bf_point" => some {
      model := fun a => (run pbf a).map fun (ops, p) =>
        match C08.finalModel ops with
        | none => "PANIC"
        | some w =>
          if w.q.nodes.size = 0 then "none" else
          match Tree.bestFirst fltB (fun b => dist2 p b) (fun _ d => dist2 p (w.cur d)) (toTree w.q w.q.rootAabb) with
          | none => "HANG"
          | some none => "none"
          | some (some (c, _)) => s!"some {ff c}"
      oracle := fun a o => match run pbf a with
        | none => "skip bad-args"
        | some (ops, p) =>
          let live := C08.liveAfter ops
          let refitLast := match ops.getLast? with
            | some (.refit _) => true
            | _ => false
          if !refitLast then "skip history-does-not-end-with-refit" else
          let P := q3 p
          let costs := live.map fun (_, bx) => dist2Q P (C08.qbox bx)
          match o with
          | ["none"] => if live.isEmpty then "pass" else "fail none-but-leaves-exist"
          | ["some", c] =>
            match pfloatTokC c with
            | none => "fail unparsable-output"
            | some cf =>
              if !FloatIO.isFinite cf then "fail nonfinite-cost" else
              let C := q cf
              match costs with
              | [] => "fail some-but-no-leaf"
              | c0 :: cs =>
                let m := cs.foldl min c0
                if leTol C m tolDefault && leTol m C tolDefault then "pass"
                else s!"fail cost-not-minimal got={C} min={m}"
          | "PANIC" :: _ => "fail panic"
          | _ => "fail unparsable-output" }
  | _ => none
where
  pfloatTokC (t : String) : Option Float := if t = "nan" then some (0.0 / 0.0) else FloatIO.ofHex? t

end C07
