import ParryModel.C07.Link
import ParryModel.C07.Theorems1
/-!
# C07 theorems, part 4: the unfolding QBVH state → abstract tree

`Model.Qbvh.toTree` / `lanesOf` (Link.lean) turn the node array of the C08 model into the abstract tree the traversal
theorems talk about.  Here: **if the lane boxes of the state are nested, the unfolded tree is `Nested`** – the hypothesis of
`dfs_complete`, `touching_leaf_reported*`, `LB_of_nested`, `bestFirst_optimal_of_nested`.

`P` is any set of node indices closed under "child of an internal node" (for a state satisfying the C08 invariant `Inv`:
the live nodes, `C08.Live`); `hbox` is the lane-by-lane meaning of the C08 box invariant (the conclusion of
`C08.boxInv_semantic` for internal nodes).  `lanesOf_leaves`: every leaf of the unfolded tree is an occupied lane of a
leaf node of the state and carries that lane's box and that proxy's data.
-/
namespace C07
open Model Model.Qbvh Model.Bvh Model.Bvh.Tree
variable {K : Type} [Num K]

private theorem nestedList_of_forall {B L : Type} (contains : B → B → Prop) (b : B) :
    ∀ (ts : List (Tree B L)), (∀ t ∈ ts, contains b t.box ∧ Nested contains t) → NestedList contains b ts
  | [], _ => by simp only [NestedList]
  | t :: ts, h => by
    simp only [NestedList]
    exact ⟨(h t (List.mem_cons_self ..)).1, (h t (List.mem_cons_self ..)).2,
      nestedList_of_forall contains b ts (fun u hu => h u (List.mem_cons_of_mem _ hu))⟩

/-- **the unfolded lanes of a node are nested under any box that contains the node's lane boxes** -/
theorem lanesOf_nested (q : Q K) (contains : Aabb3 K → Aabb3 K → Prop) (P : Nat → Prop)
    (hchild : ∀ (n : Nat) (nd : Node K), q.nodes[n]? = some nd → P n → nd.leaf = false →
      ∀ (l c : Nat), nd.children[l]? = some c → c < q.nodes.size → P c)
    (hbox : ∀ (n : Nat) (nd : Node K), q.nodes[n]? = some nd → P n → nd.leaf = false →
      ∀ (l c : Nat) (b : Aabb3 K), nd.children[l]? = some c → nd.boxes[l]? = some b →
        ∀ cn : Node K, q.nodes[c]? = some cn → ∀ (l' : Nat) (b' : Aabb3 K), cn.boxes[l']? = some b' → contains b b') :
    ∀ (fuel n : Nat) (top : Aabb3 K), P n →
      (∀ nd : Node K, q.nodes[n]? = some nd → ∀ (l : Nat) (b : Aabb3 K), nd.boxes[l]? = some b → contains top b) →
      NestedList contains top (lanesOf q fuel n)
  | 0, _, _, _, _ => by simp only [lanesOf, NestedList]
  | fuel + 1, n, top, hP, htop => by
    apply nestedList_of_forall
    intro t ht
    simp only [lanesOf] at ht
    cases hn : q.nodes[n]? with
    | none => simp [hn] at ht
    | some nd =>
      simp only [hn, List.mem_filterMap] at ht
      obtain ⟨l, _, hl⟩ := ht
      cases hc : nd.children[l]? with
      | none => simp [hc] at hl
      | some c =>
        cases hb : nd.boxes[l]? with
        | none => simp [hc, hb] at hl
        | some bx =>
          simp only [hc, hb] at hl
          by_cases hleaf : nd.leaf = true
          · simp only [hleaf, if_true, Option.map_eq_some_iff] at hl
            obtain ⟨pr, _, rfl⟩ := hl
            exact ⟨htop nd hn l bx hb, by simp only [Nested]⟩
          · have hleaf' : nd.leaf = false := by simpa using hleaf
            simp only [hleaf', Bool.false_eq_true, if_false] at hl
            by_cases hlt : c < q.nodes.size
            · simp only [hlt, if_true, Option.some.injEq] at hl
              subst hl
              refine ⟨htop nd hn l bx hb, ?_⟩
              simp only [Nested]
              exact lanesOf_nested q contains P hchild hbox fuel c bx (hchild n nd hn hP hleaf' l c hc hlt)
                (fun cn hcn l' b' hb' => hbox n nd hn hP hleaf' l c bx hc hb cn hcn l' b' hb')
            · simp [hlt] at hl

/-- **the unfolded tree of a state with nested lane boxes is `Nested`** (node 0 is the root, `top` any box containing the
root's lane boxes – the traversals enter node 0 unconditionally) -/
theorem toTree_nested (q : Q K) (contains : Aabb3 K → Aabb3 K → Prop) (P : Nat → Prop)
    (hchild : ∀ (n : Nat) (nd : Node K), q.nodes[n]? = some nd → P n → nd.leaf = false →
      ∀ (l c : Nat), nd.children[l]? = some c → c < q.nodes.size → P c)
    (hbox : ∀ (n : Nat) (nd : Node K), q.nodes[n]? = some nd → P n → nd.leaf = false →
      ∀ (l c : Nat) (b : Aabb3 K), nd.children[l]? = some c → nd.boxes[l]? = some b →
        ∀ cn : Node K, q.nodes[c]? = some cn → ∀ (l' : Nat) (b' : Aabb3 K), cn.boxes[l']? = some b' → contains b b')
    (top : Aabb3 K) (h0 : P 0)
    (htop : ∀ nd : Node K, q.nodes[0]? = some nd → ∀ (l : Nat) (b : Aabb3 K), nd.boxes[l]? = some b → contains top b) :
    Nested contains (toTree q top) := by
  simp only [toTree, Nested]
  exact lanesOf_nested q contains P hchild hbox _ 0 top h0 htop

private theorem mem_leavesList_iff {B L : Type} (p : B × L) :
    ∀ (ts : List (Tree B L)), p ∈ leavesList ts ↔ ∃ t ∈ ts, p ∈ leaves t
  | [] => by simp [leavesList]
  | t :: ts => by
    simp only [leavesList, List.mem_append, mem_leavesList_iff p ts, List.mem_cons, exists_eq_or_imp]

/-- **every leaf of the unfolded tree is an occupied lane of a leaf node**: it carries that lane's box and the data of
the proxy the lane points to -/
theorem lanesOf_leaves (q : Q K) :
    ∀ (fuel n : Nat) (b : Aabb3 K) (d : Nat), (b, d) ∈ leavesList (lanesOf q fuel n) →
      ∃ (m : Nat) (nd : Node K) (l c : Nat) (pr : Proxy), q.nodes[m]? = some nd ∧ nd.leaf = true ∧
        nd.children[l]? = some c ∧ nd.boxes[l]? = some b ∧ q.proxies[c]? = some pr ∧ pr.data = d
  | 0, _, _, _, h => by simp [lanesOf, leavesList] at h
  | fuel + 1, n, b, d, h => by
    rw [mem_leavesList_iff] at h
    obtain ⟨t, ht, hmem⟩ := h
    simp only [lanesOf] at ht
    cases hn : q.nodes[n]? with
    | none => simp [hn] at ht
    | some nd =>
      simp only [hn, List.mem_filterMap] at ht
      obtain ⟨l, _, hl⟩ := ht
      cases hc : nd.children[l]? with
      | none => simp [hc] at hl
      | some c =>
        cases hb : nd.boxes[l]? with
        | none => simp [hc, hb] at hl
        | some bx =>
          simp only [hc, hb] at hl
          by_cases hleaf : nd.leaf = true
          · simp only [hleaf, if_true, Option.map_eq_some_iff] at hl
            obtain ⟨pr, hpr, rfl⟩ := hl
            simp only [leaves, List.mem_singleton, Prod.mk.injEq] at hmem
            obtain ⟨rfl, rfl⟩ := hmem
            exact ⟨n, nd, l, c, pr, hn, hleaf, hc, hb, hpr, rfl⟩
          · have hleaf' : nd.leaf = false := by simpa using hleaf
            simp only [hleaf', Bool.false_eq_true, if_false] at hl
            by_cases hlt : c < q.nodes.size
            · simp only [hlt, if_true, Option.some.injEq] at hl
              subst hl
              simp only [leaves] at hmem
              exact lanesOf_leaves q fuel c b d hmem
            · simp [hlt] at hl

end C07
