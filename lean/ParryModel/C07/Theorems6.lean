import ParryModel.Field
import ParryModel.C07.Model3
import ParryModel.C07.Theorems2
import Mathlib.Algebra.Order.Floor.Ring
import Mathlib.Data.Rat.Floor
/-!
# C07 theorems, part 6: the cell quantisation of the 2-D heightfield never drops a cell that could matter

Lawful instance: `fieldNum K sq` + `fieldQuant fl cl` (`x.floor() as isize = fl x`, `x.ceil() as isize = cl x`, `n as Real` = the
cast), with `LawfulQuant fl cl` (`fl x ≤ x < fl x + 1`, `cl x - 1 < x ≤ cl x`; satisfied by `⌊·⌋`, `⌈·⌉` of any floor ring:
`lawfulQuant_floor`).  The heightfield has `n = heights.len() - 1 ≥ 1` cells; in the unit frame cell `i` spans
`[x0 i, x0 i + seg]`, `x0 i = -1/2 + seg * i`, `seg = 1/n`.

* `hf2_floor_le`, `hf2_lt_ceil` – the two quantisation facts: `lo < x0 i + seg ⇒ quantize_floor(lo) ≤ i`,
  `x0 i < hi ⇒ i < quantize_ceil(hi)` (clamped versions, `i < n`);
* `hf2_range_complete` – `unclamped_elements_range_in_local_aabb` contains every cell whose abscissa interval has an OPEN overlap
  with the box (`mins.x < scale.x * x1_i` and `scale.x * x0_i < maxs.x`);
* `hf2_elements_complete` – `map_elements_in_local_aabb` calls `f` on every present cell with such an overlap whose ordinate
  interval `[min(y0,y1), max(y0,y1)]·scale.y` meets `[mins.y, maxs.y]` (closed): neither the early return, nor the clamped
  quantisation, nor the ordinate test discards it;
* `hf2_cellAt_contains` – `cell_at_point` returns a cell `< n` whose closed abscissa interval contains the point.
The x-overlap is open on purpose: a box that only touches a cell at a vertex abscissa (in particular a zero-width box
exactly at a vertex abscissa) is NOT guaranteed to enumerate that cell – `⌊u⌋ = ⌈u⌉` there and the range is empty.
-/
namespace C07
open Model Model.C07
set_option linter.unusedSectionVars false
set_option linter.unusedVariables false
set_option linter.style.haveILetI false

section hf
variable {K : Type} [Field K] [LinearOrder K] [IsStrictOrderedRing K] (sq : K → K)

/-- the lawful `Quant` instance over a field -/
@[reducible] def fieldQuant (K : Type) [Field K] (fl cl : K → Int) : Quant K := ⟨fl, cl, fun n => (n : K)⟩

structure LawfulQuant (fl cl : K → Int) : Prop where
  floor_le : ∀ x : K, ((fl x : Int) : K) ≤ x
  lt_floor : ∀ x : K, x < ((fl x : Int) : K) + 1
  le_ceil : ∀ x : K, x ≤ ((cl x : Int) : K)
  ceil_lt : ∀ x : K, ((cl x : Int) : K) - 1 < x

/-- non-vacuity: floor and ceiling of a floor ring are lawful -/
theorem lawfulQuant_floor {K : Type} [Field K] [LinearOrder K] [IsStrictOrderedRing K] [FloorRing K] :
    LawfulQuant (K := K) (fun x => ⌊x⌋) (fun x => ⌈x⌉) :=
  ⟨fun x => Int.floor_le x, fun x => Int.lt_floor_add_one x, fun x => Int.le_ceil x,
   fun x => by have := Int.ceil_lt_add_one x; linarith⟩

private theorem fq_ofInt (fl cl : K → Int) (n : Int) : @Quant.ofInt K (fieldQuant K fl cl) n = (n : K) := rfl
private theorem fq_floorI (fl cl : K → Int) (x : K) : @Quant.floorI K (fieldQuant K fl cl) x = fl x := rfl
private theorem fq_ceilI (fl cl : K → Int) (x : K) : @Quant.ceilI K (fieldQuant K fl cl) x = cl x := rfl

private theorem half_eq' : ((mkRat 1 2 : Rat) : K) = 1 / 2 := by norm_num

/-- `quantize_floor_unclamped(lo) ≤ i` as soon as `lo` is left of the right end of cell `i` -/
theorem hf2_floor_le (fl cl : K → Int) (hq : LawfulQuant fl cl) (seg lo : K) (i : Nat) (hseg : 0 < seg)
    (h : lo < -(1 / 2) + seg * (i : K) + seg) :
    letI := fieldNum K sq; letI := fieldQuant K fl cl
    HF2.quantFloorU lo seg ≤ (i : Int) := by
  letI := fieldNum K sq; letI := fieldQuant K fl cl
  simp only [HF2.quantFloorU, fieldNum_lit, half_eq', fq_floorI]
  have hu : (lo + 1 / 2) / seg < (i : K) + 1 := by
    rw [div_lt_iff₀ hseg]; nlinarith
  have h1 := hq.floor_le ((lo + 1 / 2) / seg)
  have h2 : ((fl ((lo + 1 / 2) / seg) : Int) : K) < (((i : Int) + 1 : Int) : K) := by
    push_cast; linarith
  have h3 := Int.cast_lt.mp h2
  show fl ((lo + 1 / 2) / seg) ≤ (i : Int)
  omega

/-- `i < quantize_ceil_unclamped(hi)` as soon as `hi` is right of the left end of cell `i` -/
theorem hf2_lt_ceil (fl cl : K → Int) (hq : LawfulQuant fl cl) (seg hi : K) (i : Nat) (hseg : 0 < seg)
    (h : -(1 / 2) + seg * (i : K) < hi) :
    letI := fieldNum K sq; letI := fieldQuant K fl cl
    (i : Int) < HF2.quantCeilU hi seg := by
  letI := fieldNum K sq; letI := fieldQuant K fl cl
  simp only [HF2.quantCeilU, fieldNum_lit, half_eq', fq_ceilI]
  have hu : (i : K) < (hi + 1 / 2) / seg := by
    rw [lt_div_iff₀ hseg]; nlinarith
  have h1 := hq.le_ceil ((hi + 1 / 2) / seg)
  have h2 : (((i : Int) : Int) : K) < ((cl ((hi + 1 / 2) / seg) : Int) : K) := by
    push_cast; linarith
  exact Int.cast_lt.mp h2

/-- `seg_length = 1 / n` at the lawful instance -/
private theorem segLength_eq (fl cl : K → Int) (h : HF2 K) (hn : 2 ≤ h.heights.size) :
    letI := fieldNum K sq; letI := fieldQuant K fl cl
    h.segLength = 1 / ((h.numCells : Nat) : K) ∧ (0 : K) < ((h.numCells : Nat) : K) := by
  letI := fieldNum K sq; letI := fieldQuant K fl cl
  have e : ((h.heights.size : Int) : K) - 1 = ((h.numCells : Nat) : K) := by
    simp only [HF2.numCells]
    have : h.heights.size = (h.heights.size - 1) + 1 := by omega
    rw [this]; push_cast; simp
  refine ⟨?_, ?_⟩
  · simp only [HF2.segLength, fq_ofInt]; rw [e]
  · have : 1 ≤ h.numCells := by simp only [HF2.numCells]; omega
    exact_mod_cast this

/-- **`unclamped_elements_range_in_local_aabb` is complete**: every cell `i < n` whose abscissa interval overlaps the box
(open overlap, local frame) lies in the returned range. -/
theorem hf2_range_complete (fl cl : K → Int) (hq : LawfulQuant fl cl) (h : HF2 K) (aabb : Aabb2 K) (i : Nat) :
    letI := fieldNum K sq; letI := fieldQuant K fl cl
    2 ≤ h.heights.size → 0 < h.scale.x → i < h.numCells →
    aabb.mins.x < h.scale.x * (h.x0 i + h.segLength) → h.scale.x * h.x0 i < aabb.maxs.x →
    (h.unclampedRange aabb).1 ≤ (i : Int) ∧ (i : Int) < (h.unclampedRange aabb).2 := by
  letI := fieldNum K sq; letI := fieldQuant K fl cl
  intro hn hsx hi h1 h2
  obtain ⟨hseg, hnpos⟩ := segLength_eq sq fl cl h hn
  have hsegpos : 0 < h.segLength := by rw [hseg]; positivity
  simp only [HF2.x0, fieldNum_lit, half_eq', fq_ofInt] at h1 h2
  push_cast at h1 h2
  simp only [HF2.unclampedRange]
  refine ⟨hf2_floor_le sq fl cl hq _ _ i hsegpos ?_, hf2_lt_ceil sq fl cl hq _ _ i hsegpos ?_⟩
  · rw [div_lt_iff₀ hsx]; linarith
  · rw [lt_div_iff₀ hsx]; linarith

private theorem clamp_le (f n : Int) (i : Nat) (hf : f ≤ (i : Int)) : (clampI f 0 (n - 1)).toNat ≤ i := by
  simp only [clampI]; split_ifs <;> omega

private theorem lt_clamp (c : Int) (n i : Nat) (hc : (i : Int) < c) (hi : i < n) : i < (clampI c 0 (n : Int)).toNat := by
  simp only [clampI]; split_ifs <;> omega

/-- **`map_elements_in_local_aabb` is complete**: `f` is called on every present cell `i < n` whose abscissa interval has an
open overlap with the box and whose ordinate interval meets the box's ordinate interval. -/
theorem hf2_elements_complete (fl cl : K → Int) (hq : LawfulQuant fl cl) (h : HF2 K) (aabb : Aabb2 K) (i : Nat) (y0 y1 : K) :
    letI := fieldNum K sq; letI := fieldQuant K fl cl
    2 ≤ h.heights.size → 0 < h.scale.x → 0 < h.scale.y → i < h.numCells →
    h.status.getD i false = true → h.heights[i]? = some y0 → h.heights[i + 1]? = some y1 →
    aabb.mins.x < h.scale.x * (h.x0 i + h.segLength) → h.scale.x * h.x0 i < aabb.maxs.x →
    aabb.mins.y ≤ h.scale.y * max y0 y1 → h.scale.y * min y0 y1 ≤ aabb.maxs.y →
    i ∈ h.mapElements aabb := by
  letI := fieldNum K sq; letI := fieldQuant K fl cl
  intro hn hsx hsy hi hst hy0 hy1 h1 h2 h3 h4
  obtain ⟨hseg, hnpos⟩ := segLength_eq sq fl cl h hn
  have hsegpos : 0 < h.segLength := by rw [hseg]; positivity
  have hiK : ((i : Nat) : K) + 1 ≤ ((h.numCells : Nat) : K) := by exact_mod_cast hi
  have hsegn : h.segLength * ((h.numCells : Nat) : K) = 1 := by rw [hseg]; field_simp
  have hi0 : (0 : K) ≤ ((i : Nat) : K) := Nat.cast_nonneg i
  simp only [HF2.x0, fieldNum_lit, half_eq', fq_ofInt] at h1 h2
  push_cast at h1 h2
  -- unit-frame inequalities
  have u1 : aabb.mins.x / h.scale.x < -(1 / 2) + h.segLength * (i : K) + h.segLength := by
    rw [div_lt_iff₀ hsx]; linarith
  have u2 : -(1 / 2) + h.segLength * (i : K) < aabb.maxs.x / h.scale.x := by
    rw [lt_div_iff₀ hsx]; linarith
  have hx1le : -(1 / 2) + h.segLength * (i : K) + h.segLength ≤ 1 / 2 := by nlinarith
  have hx0ge : -(1 / 2) ≤ -(1 / 2) + h.segLength * (i : K) := by nlinarith
  have hf := hf2_floor_le sq fl cl hq _ _ i hsegpos u1
  have hc := hf2_lt_ceil sq fl cl hq _ _ i hsegpos u2
  simp only [HF2.mapElements, fieldNum_lit, half_eq']
  have hret : ¬(aabb.maxs.x / h.scale.x < -(1 / 2) ∨ 1 / 2 < aabb.mins.x / h.scale.x) := by
    push Not; constructor <;> linarith
  rw [if_neg hret]
  rw [List.mem_filter]
  constructor
  · rw [List.mem_range'_1]
    have a1 : h.quantFloor (aabb.mins.x / h.scale.x) h.segLength ≤ i := clamp_le _ _ i hf
    have a2 : i < h.quantCeil (aabb.maxs.x / h.scale.x) h.segLength := lt_clamp _ _ i hc hi
    omega
  · simp only [HF2.cellKept, hst, hy0, hy1, Bool.not_true]
    have k1 : ¬((aabb.maxs.y / h.scale.y < y0 ∧ aabb.maxs.y / h.scale.y < y1) ∨
        (y0 < aabb.mins.y / h.scale.y ∧ y1 < aabb.mins.y / h.scale.y)) := by
      rintro (⟨a, b⟩ | ⟨a, b⟩)
      · have : aabb.maxs.y / h.scale.y < min y0 y1 := lt_min a b
        rw [div_lt_iff₀ hsy] at this; nlinarith
      · have : max y0 y1 < aabb.mins.y / h.scale.y := max_lt a b
        rw [lt_div_iff₀ hsy] at this; nlinarith
    simp [k1]

/-- **`cell_at_point`**: the returned cell exists and its closed abscissa interval (unit frame) contains the point. -/
theorem hf2_cellAt_contains (fl cl : K → Int) (hq : LawfulQuant fl cl) (h : HF2 K) (pt : V2 K) (c : Nat) :
    letI := fieldNum K sq; letI := fieldQuant K fl cl
    2 ≤ h.heights.size → h.cellAtPoint pt = some c →
    c < h.numCells ∧ h.x0 c ≤ pt.x / h.scale.x ∧ pt.x / h.scale.x ≤ h.x0 c + h.segLength := by
  letI := fieldNum K sq; letI := fieldQuant K fl cl
  intro hn hc
  obtain ⟨hseg, hnpos⟩ := segLength_eq sq fl cl h hn
  have hsegpos : 0 < h.segLength := by rw [hseg]; positivity
  have hsegn : h.segLength * ((h.numCells : Nat) : K) = 1 := by rw [hseg]; field_simp
  have hn1 : 1 ≤ h.numCells := by simp only [HF2.numCells]; omega
  simp only [HF2.cellAtPoint, fieldNum_lit, half_eq'] at hc
  split_ifs at hc with hout
  push Not at hout
  obtain ⟨o1, o2⟩ := hout
  simp only [Option.some.injEq, HF2.quantFloor, HF2.quantFloorU, fieldNum_lit, half_eq', fq_floorI] at hc
  set u := (pt.x / h.scale.x + 1 / 2) / h.segLength with hu
  have hfl := hq.floor_le u
  have hlt := hq.lt_floor u
  have hmul : u * h.segLength = pt.x / h.scale.x + 1 / 2 := by rw [hu]; field_simp
  have hu0 : 0 ≤ u := by rw [hu]; apply div_nonneg <;> linarith
  have hun : u ≤ ((h.numCells : Nat) : K) := by
    rw [hu, div_le_iff₀ hsegpos]; nlinarith
  -- the floor is in [0, n]
  have f0 : (0 : Int) ≤ fl u := by
    have : ((-1 : Int) : K) < ((fl u : Int) : K) := by push_cast; linarith
    have := Int.cast_lt.mp this; omega
  have fn : fl u ≤ (h.numCells : Int) := by
    have : ((fl u : Int) : K) ≤ (((h.numCells : Nat) : Int) : K) := by push_cast; linarith
    exact Int.cast_le.mp this
  simp only [HF2.x0, fieldNum_lit, half_eq', fq_ofInt]
  show c < h.numCells ∧ -(1 / 2) + h.segLength * ((c : Int) : K) ≤ pt.x / h.scale.x ∧
    pt.x / h.scale.x ≤ -(1 / 2) + h.segLength * ((c : Int) : K) + h.segLength
  have hcl : (clampI (fl u) 0 ((h.numCells : Int) - 1)).toNat = c := hc
  by_cases hlast : fl u ≤ (h.numCells : Int) - 1
  · have hcc : (c : Int) = fl u := by
      rw [← hcl]; simp only [clampI]; split_ifs <;> omega
    have hcK : ((c : Int) : K) = ((fl u : Int) : K) := by rw [hcc]
    refine ⟨by omega, ?_, ?_⟩
    · rw [hcK]; nlinarith
    · rw [hcK]; nlinarith
  · have hfe : fl u = (h.numCells : Int) := by omega
    have hcc : (c : Int) = (h.numCells : Int) - 1 := by
      rw [← hcl]; simp only [clampI]; split_ifs <;> omega
    have hcK : ((c : Int) : K) = ((h.numCells : Nat) : K) - 1 := by rw [hcc]; push_cast; ring
    have hfK : ((fl u : Int) : K) = ((h.numCells : Nat) : K) := by rw [hfe]; push_cast; ring
    refine ⟨by omega, ?_, ?_⟩
    · rw [hcK]; nlinarith
    · rw [hcK]; nlinarith

/-- non-vacuity of `hf2_elements_complete` (over `ℚ`, `⌊·⌋`/`⌈·⌉`): heights `[0, 1, 0]` (2 cells), scale `(4, 1)`, box
`[0.5, 1.5] × [0.25, 0.75]`: cell 1 (`x ∈ [0, 2]`, `y ∈ [0, 1]`) satisfies all hypotheses. -/
example : letI := fieldNum ℚ (fun x => x); letI := fieldQuant ℚ (fun x => ⌊x⌋) (fun x => ⌈x⌉)
    let h : HF2 ℚ := ⟨#[0, 1, 0], #[true, true], ⟨4, 1⟩⟩
    (2 ≤ h.heights.size ∧ (0 : ℚ) < h.scale.x ∧ 1 < h.numCells ∧ h.status.getD 1 false = true) ∧
    ((1 / 2 : ℚ) < h.scale.x * (h.x0 1 + h.segLength) ∧ h.scale.x * h.x0 1 < (3 / 2 : ℚ)) := by
  letI := fieldNum ℚ (fun x => x); letI := fieldQuant ℚ (fun x => ⌊x⌋) (fun x => ⌈x⌉)
  intro h
  refine ⟨⟨by decide, by norm_num [h], by decide, by decide⟩, ?_⟩
  simp only [h, HF2.x0, HF2.segLength, fieldNum_lit]
  norm_num [Quant.ofInt]

end hf
end C07
