import ParryModel.Vec
/-!
# Line protocol helpers (DESIGN Appendix B): token parsers and printers.
-/
namespace Proto
open Model

abbrev P := StateT (List String) Option

def tok : P String := fun s => match s with
  | [] => none
  | t :: ts => some (t, ts)
def pf : P Float := do let t ← tok; match FloatIO.ofHex? t with | some x => pure x | none => failure
def pnat : P Nat := do let t ← tok; match t.toNat? with | some x => pure x | none => failure
def pint : P Int := do let t ← tok; match t.toInt? with | some x => pure x | none => failure
def pbool : P Bool := do let t ← tok; if t = "1" then pure true else if t = "0" then pure false else failure
def pv2 : P (V2 Float) := do let x ← pf; let y ← pf; pure ⟨x, y⟩
def pv3 : P (V3 Float) := do let x ← pf; let y ← pf; let z ← pf; pure ⟨x, y, z⟩
/-- iso2: re im tx ty -/
def piso2 : P (Iso2 Float) := do let re ← pf; let im ← pf; let t ← pv2; pure ⟨re, im, t⟩
/-- iso3: qi qj qk qw tx ty tz -/
def piso3 : P (Iso3 Float) := do
  let i ← pf; let j ← pf; let k ← pf; let w ← pf; let t ← pv3; pure ⟨i, j, k, w, t⟩
def plist {α} (p : P α) : P (List α) := do
  let n ← pnat
  let rec go : Nat → P (List α)
    | 0 => pure []
    | k+1 => do let x ← p; let xs ← go k; pure (x :: xs)
  go n
def pend : P Unit := fun s => match s with | [] => some ((), []) | _ => none
def run {α} (p : P α) (toks : List String) : Option α := (p toks).map Prod.fst

/-- canonical float print: `-0.0` printed as `+0.0`; NaN as `nan` -/
def ff (x : Float) : String :=
  if x.isNaN then "nan" else if x == 0.0 then "0000000000000000" else FloatIO.toHex x
def fv2 (v : V2 Float) : String := s!"{ff v.x} {ff v.y}"
def fv3 (v : V3 Float) : String := s!"{ff v.x} {ff v.y} {ff v.z}"
def fb (b : Bool) : String := if b then "1" else "0"

/-! exact values -/
def q (x : Float) : Rat := (FloatIO.toRat? x).getD 0
def q2 (v : V2 Float) : V2 Rat := ⟨q v.x, q v.y⟩
def q3 (v : V3 Float) : V3 Rat := ⟨q v.x, q v.y, q v.z⟩
def qiso3 (m : Iso3 Float) : Iso3 Rat := ⟨q m.qi, q m.qj, q m.qk, q m.qw, q3 m.t⟩
def qiso2 (m : Iso2 Float) : Iso2 Rat := ⟨q m.re, q m.im, q2 m.t⟩
def finite3 (v : V3 Float) : Bool := FloatIO.isFinite v.x && FloatIO.isFinite v.y && FloatIO.isFinite v.z

/-- parse impl output floats; `nan` token → none -/
def pfo : P Float := do
  let t ← tok
  if t = "nan" then pure (0.0/0.0) else match FloatIO.ofHex? t with | some x => pure x | none => failure

structure Handler where
  /-- model output at `Float` (must print exactly like the harness) -/
  model : List String → Option String
  /-- property oracle on the implementation's output: `pass`, `skip <why>` or `fail <why>` -/
  oracle : List String → List String → String

def rabs (x : Rat) : Rat := if x < 0 then -x else x
/-- `a ≤ b` within absolute+relative tolerance -/
def leTol (a b : Rat) (tol : Rat) : Bool := a ≤ b + tol * (1 + rabs a + rabs b)
def tolDefault : Rat := 1 / 1000000000

end Proto
