import ParryModel.Num
import ParryModel.Vec
