import ParryModel.Proto
import ParryModel.Registry
/-!
Line-protocol driver.  stdin: `<prop> <fn> <args…> | <impl output…>`;
stdout per line: `<model output> | <oracle verdict>`.
-/
open Proto

def dispatch (prop fn : String) : Option Handler := Registry.dispatch prop fn

def splitBar (toks : List String) : List String × List String :=
  let pre := toks.takeWhile (· ≠ "|")
  let post := (toks.dropWhile (· ≠ "|")).drop 1
  (pre, post)

def processLine (line : String) : String :=
  let toks := (line.trimAscii.toString.splitOn " ").filter (· ≠ "")
  match toks with
  | prop :: fn :: rest =>
    let (args0, out0) := splitBar rest
    -- `<observed internal inputs> ;; <outputs>`: decisions observed from the real code are extra model inputs
    let (args, out) :=
      if out0.contains ";;" then (args0 ++ out0.takeWhile (· ≠ ";;"), (out0.dropWhile (· ≠ ";;")).drop 1)
      else (args0, out0)
    match dispatch prop fn with
    | none => "nomodel | skip no-handler"
    | some h =>
      let m := (h.model args).getD "badargs"
      let o := h.oracle args out
      s!"{m} | {o}"
  | _ => "badline | skip"

partial def loop (h : IO.FS.Stream) (out : IO.FS.Stream) : IO Unit := do
  let line ← h.getLine
  if line.isEmpty then return ()
  out.putStrLn (processLine line)
  loop h out

def main : IO Unit := do
  let i ← IO.getStdin
  let o ← IO.getStdout
  loop i o
