#!/usr/bin/env python3
"""Derive the 2-D versions of the dimension-generic C05 theorems (segment, ball, half-space, default methods, posed forms)
from their 3-D text in lean/ParryModel/C05/Theorems.lean, by dropping the z-coordinate.  The output replaces the block
between `--2D-BEGIN` and `--2D-END` in the same file; Lean then checks it like any hand-written proof."""
import re, os, sys
V = os.path.dirname(os.path.dirname(os.path.abspath(__file__)))
P = V + "/lean/ParryModel/C05/Theorems1.lean"
s = open(P).read()
if "--2D-BEGIN" in s:
    s = s[:s.index("--2D-BEGIN")] + s[s.index("--2D-END") + len("--2D-END\n"):]
    s = s.replace("\n\nend C05\n", "\nend C05\n")

def block(start, end):
    i = s.index(start)
    j = s.index(end, i)
    return s[i:j]

def balanced_args(text, pos, n):
    """parse n parenthesised args starting at pos (skipping spaces); return (list, endpos)"""
    args = []
    for _ in range(n):
        while text[pos] in " \n":
            pos += 1
        assert text[pos] == "(", text[pos:pos+40]
        d = 0; k = pos
        while True:
            if text[k] == "(": d += 1
            elif text[k] == ")":
                d -= 1
                if d == 0: break
            k += 1
        args.append(text[pos:k+1]); pos = k + 1
    return args, pos

def conv(t):
    # v3_ext (a) (b) (c) -> v2_ext (a) (b)
    out = ""; pos = 0
    while True:
        k = t.find("v3_ext (", pos)
        if k < 0: out += t[pos:]; break
        out += t[pos:k]
        args, e = balanced_args(t, k + len("v3_ext"), 3)
        out += "v2_ext " + " ".join(args[:2]); pos = e
    t = out
    t = t.replace("v3_ext ?_ ?_ ?_", "v2_ext ?_ ?_")
    t = t.replace("v3_ext", "v2_ext")
    t = re.sub(r" ∧ RelClose \(s\.projectLoc p\)\.1\.pt\.z p\.z", "", t)
    t = t.replace("opt_of_var3 _ _ _ _ _ _ _ _ _", "opt_of_var2 _ _ _ _ _ _")
    t = re.sub(r"dot_le3 (\S+)\.x (\S+)\.y (\S+)\.z \((\S+)\.x - (\S+)\.x\) \((\S+)\.y - (\S+)\.y\) \((\S+)\.z - (\S+)\.z\)",
               r"dot_le2 \1.x \2.y (\4.x - \5.x) (\6.y - \7.y)", t)
    t = re.sub(r"dot_le3 (\S+)\.x (\S+)\.y (\S+)\.z (\S+)\.x (\S+)\.y (\S+)\.z", r"dot_le2 \1.x \2.y \4.x \5.y", t)
    t = re.sub(r"⟨(\w+), (\w+), (\w+'?)⟩ := sumsq3_eq_zero", r"⟨\1, \2⟩ := sumsq2_eq_zero", t)
    # drop z-terms
    t = re.sub(r" \+ \((\w+)\.z - (\w+)\.z\) \* \((\w+)\.z - (\w+)\.z\)", "", t)
    t = re.sub(r", mul_self_nonneg \(\w+\.z - \w+\.z\)", "", t)
    t = re.sub(r", mul_self_nonneg \w+\.z", "", t)
    t = re.sub(r",\s*mul_self_nonneg \(\(?[^\n]*?\)\.z\)?", "", t)
    t = re.sub(r" \+ s\.n\.z \* (\w+)\.z", "", t)
    t = re.sub(r" \+ d\.z \* \((\w+'?)\.z - (\w+)\.z\)", "", t)
    t = re.sub(r"\n[^\n]*\(p\.z - \(p\.z \+ -s\.n\.z[^\n]*", "", t)
    t = re.sub(r"\n[^\n]*\(P\.z \+ d\.z \* D - [^\n]*", "", t)
    t = re.sub(r"\n\s*have hpz : p\.z = [^\n]*", "", t)
    t = t.replace("rw [hpx, hpy, hpz]", "rw [hpx, hpy]")
    t = t.replace(", hz']", "]").replace("(by linarith) (by linarith) (by linarith)", "(by linarith) (by linarith)")
    t = t.replace("refine ⟨by simp [V3.normSq, V3.dot], ?_⟩", "refine ⟨by simp [V2.normSq, V2.dot], ?_⟩")
    # identifiers
    for a, b in [("Segment3", "Segment2"), ("HalfSpace3", "HalfSpace2"), ("Capsule3", "Capsule2"), ("V3", "V2"), ("PP3", "PP2"), ("Iso3", "Iso2"),
                 ("dsq3", "dsq2"), ("project3", "project2"), ("Mem3", "Mem2"), ("distance3", "distance2"), ("contains3", "contains2"),
                 ("seg3_", "seg2_"), ("ball3_", "ball2_"), ("hs3_", "hs2_"), ("cap3_", "cap2_"), ("sumsq3_eq_zero", "sumsq2_eq_zero"),
                 ("defaultDistance3", "defaultDistance2"), ("defaultContains3", "defaultContains2"), ("defaultMaxDist3", "defaultMaxDist2"),
                 ("posedProject3", "posedProject2"), ("posedDistance3", "posedDistance2"), ("posedContains3", "posedContains2"),
                 ("default_distance_spec3", "default_distance_spec2"), ("default_contains_spec3", "default_contains_spec2"),
                 ("default_maxdist_spec3", "default_maxdist_spec2"), ("iso3_", "iso2_"), ("posed_project_def3", "posed_project_def2"),
                 ("posed_distance_def3", "posed_distance_def2"), ("posed_contains_def3", "posed_contains_def2"),
                 ("posed_project_optimal3", "posed_project_optimal2"), ("opt_of_var3", "opt_of_var2"), ("cs3", "cs2")]:
        t = t.replace(a, b)
    return t

def drop_examples(t):
    return re.sub(r"\nexample[^\n]*\n(?:[ \t][^\n]*\n)*", "\n", t)

parts = []
seg = block("/-! ## Segment -/", "/-! ## Ball")
parts.append(drop_examples(conv(seg)).replace("/-! ## Segment -/", "/-! ## Segment (2-D) -/"))
ball = block("/-! ## Ball", "/-! ## HalfSpace")
parts.append(drop_examples(conv(ball)).replace("/-! ## Ball", "/-! ## Ball (2-D)"))
hs_ = block("/-! ## HalfSpace", "/-! ## Aabb / Cuboid -/")
parts.append(drop_examples(conv(hs_)).replace("/-! ## HalfSpace", "/-! ## HalfSpace (2-D)"))
dfl = block("/-! ## Default methods of `PointQuery`", "/-! ## Capsule")
dfl = dfl.replace("def Iso3.Unit (m : Iso3 K) : Prop := m.qi * m.qi + m.qj * m.qj + m.qk * m.qk + m.qw * m.qw = 1\n", "")
dfl = dfl.replace("def Iso2.Unit (m : Iso2 K) : Prop := m.re * m.re + m.im * m.im = 1\n", "")
dfl = re.sub(r"/-- a unit quaternion -/\n", "", dfl)
parts.append(drop_examples(conv(dfl)).replace("/-! ## Default methods of `PointQuery`", "/-! ## (2-D) Default methods of `PointQuery`"))
parts.append(open(V + "/tools/c05_aabb2.lean.txt").read())
gen = "--2D-BEGIN  (generated by tools/c05_gen2d.py from the 3-D blocks above: do not edit by hand)\n" + "\n".join(parts) + \
      "\nexample : (⟨⟨0, 0⟩, ⟨4, 0⟩⟩ : Segment2 ℚ).Mem ⟨1, 0⟩ :=\n  ⟨1/4, by norm_num, by norm_num, by simp [V2.add, V2.sub, V2.smul]⟩\n" + \
      "example : (⟨2⟩ : Ball ℚ).Mem2 ⟨1, 1⟩ ∧ ¬ (⟨2⟩ : Ball ℚ).Mem2 ⟨2, 1⟩ := by\n  simp only [Ball.Mem2, V2.normSq, V2.dot]; norm_num\n" + \
      "example : (⟨⟨3/5, 4/5⟩⟩ : HalfSpace2 ℚ).n.normSq = 1 ∧ ¬ (⟨⟨3/5, 4/5⟩⟩ : HalfSpace2 ℚ).Mem ⟨1, 1⟩ := by\n  simp only [HalfSpace2.Mem, V2.normSq, V2.dot]; norm_num\n" + \
      "example : Iso2.Unit (⟨3/5, 4/5, ⟨1, 2⟩⟩ : Iso2 ℚ) := by simp only [Iso2.Unit]; norm_num\n" + \
      "--2D-END\n"
s = s.replace("\nend C05\n", "\n" + gen + "\nend C05\n")
open(P, "w").write(s)
print("2-D block:", gen.count("\ntheorem "), "theorems")
